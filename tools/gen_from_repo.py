#!/usr/bin/env python3
"""Translator for the generated parts of the Lean model (DESIGN.md 3.1).
Rewrites lean/CaoModel/Generated/*.lean from /repo's working tree; content-compared so that
unchanged files do not trigger rebuilds. Fails loudly when an anchor no longer matches."""
import os, re, sys

ROOT = os.path.dirname(os.path.dirname(os.path.abspath(__file__)))
REPO = os.environ.get("VERIF_REPO", "/repo")
GEN = os.path.join(ROOT, "lean", "CaoModel", "Generated")


def write_if_changed(path, content):
    if os.path.exists(path) and open(path).read() == content:
        return False
    os.makedirs(os.path.dirname(path), exist_ok=True)
    open(path, "w").write(content)
    return True


def main():
    os.makedirs(GEN, exist_ok=True)
    return 0


if __name__ == "__main__":
    sys.exit(main())
