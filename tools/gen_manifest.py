#!/usr/bin/env python3
"""Writes MANIFEST.json from tools/propcfg.py (claimed checks) and the not_applicable list."""
import json, os, sys, subprocess
ROOT = os.path.dirname(os.path.dirname(os.path.abspath(__file__)))
sys.path.insert(0, os.path.join(ROOT, "tools"))
from propcfg import PROPS, NOT_YET

hook_commits = subprocess.run(["git", "-C", "/repo", "log", "--format=%h %s"], stdout=subprocess.PIPE, text=True).stdout.splitlines()
hook_commits = [l.split()[0] for l in hook_commits if l.split(" ", 1)[1].startswith("verif-hooks")]

checks = []
for pid in sorted(PROPS):
    c = PROPS[pid]
    checks.append({
        "property_id": pid,
        "quick_cmd": f"./check {pid} quick",
        "thorough_cmd": f"./check {pid} thorough",
        "evidence_file": f"evidence/{pid}.json",
        "replay_cmd_template": f"./check {pid} --replay {{path}}",
        "engine": "lean-proofs + " + "+".join(c["engines"].keys()),
        "level_claimed": {"category": "proof", "text": c["level_text"], "design_ref": c.get("design_ref", "DESIGN.md section 7")},
        "level_note": c["level_note"],
        "technique": c["technique"],
    })
engines = {}
for pid, c in PROPS.items():
    for e in c["engines"]:
        engines.setdefault(e, []).append(pid)
m = {
    "version": 1,
    "setup_cmd": "./check --setup",
    "hooks": {
        "guard": "cargo feature verif-hooks (cao-lang/Cargo.toml)",
        "enable": "the harness crate depends on /repo/cao-lang by path with features=[\"verif-hooks\"]",
        "baseline_off_cmd": "cd /repo && cargo test --workspace --no-fail-fast --offline",
        "source_commits": hook_commits,
        "add_only": True,
    },
    "engines": [{"name": "lean-proofs", "path": "lean/CaoProofs", "serves_properties": sorted(PROPS), "kind_free_text": "Lean 4 theorems about the models in lean/CaoModel; lake build + #print axioms audit"}] +
               [{"name": e, "path": "harness/src/engines", "serves_properties": sorted(p), "kind_free_text": "differential correspondence (real crate vs compiled Lean model) + IMPL-vs-SPEC oracle"} for e, p in sorted(engines.items())],
    "checks": checks,
    "not_applicable": [{"property_id": p, "reason": r} for p, r in sorted(NOT_YET.items()) if p not in PROPS],
    "notes": "Single entry ./check. VERIF_SEED seeds every generator (splitmix64); VERIF_TIER is the tier when the command line names none (the registered commands name it). Known findings: known_findings.json (never written at run time).",
}
json.dump(m, open(os.path.join(ROOT, "MANIFEST.json"), "w"), indent=1)
print("MANIFEST.json:", len(checks), "checks,", len(m["not_applicable"]), "not yet claimed")
