"""Per-property configuration of ./check: engines (with case counts per tier), the parts of the
trusted base specific to the property, and what is proved in full vs partially."""

PROPS = {
    "C14": {
        "engines": {"stack": {"quick": 400, "thorough": 3000}, "bstack": {"quick": 300, "thorough": 3000}},
        "rule": "stack/bstack op sequences (cap 1-8 or 256; 10-200 ops weighted towards full/empty edges, indices around the height); "
                "non-trivial = at least 3 ops; distinct = distinct op sequences. thorough adds the exhaustive enumeration of all "
                "op sequences of length 5 over a 12-op alphabet at caps 1-3 (supports the correspondence, not the proof)",
        "trusted_base": ["Value is Copy: the model's List α stands for Box<[Value]>; MaybeUninit storage of BoundedStack modelled as List + drop log"],
        "assumptions": ["clear_until(h) with h above the current height is outside the property (guard in vs_refines); the model keeps the stale-slot behaviour and is still compared with the code there"],
        "partial": "",
        "technique": "Lean 4 refinement proof (model of value_stack.rs/bounded_stack.rs refines a List spec for all capacities and op sequences) + differential correspondence",
        "level_text": "Proved in Lean for every capacity >= 1 and every operation sequence: the code-shaped model of ValueStack refines a List-based bounded stack (vs_refines, by the one-step lemma step_refines and induction), the height invariant count <= cap-1 holds in every reachable state, and BoundedStack accounts for every pushed element exactly once (bs_accounting, bs_drop_once). The model is tied to the Rust by the stack/bstack correspondence engines and a Vec-based oracle runs on the real code.",
        "level_note": "Trusted: Lean kernel; the hand-written model corresponds to value_stack.rs/bounded_stack.rs only as far as the sampled (thorough: partly exhaustive) differential run shows; memory safety of the MaybeUninit/ptr code is not proved.",
        "design_ref": "DESIGN.md 7 (C14)",
    },
}

PROPS["C12"] = {
    "engines": {"hm": {"quick": 500, "thorough": 6000}},
    "rule": "hash-map op sequences (10-300 ops: insert/entry/remove/get/get_mut/contains/reserve/clear/clone/len/iter/cap/dropped) over key universes built to "
            "collide on one home slot of a capacity of the growth sequence, to sit at the end of the bucket array (wrap-around), to hash to the reserved value 0, "
            "plus string keys; drop-logging key and value types; a scripted allocator failing the k-th allocation of an op in every third case. "
            "non-trivial = at least two insert/entry ops; distinct = distinct op sequences",
    "trusted_base": ["needs_grow's f32 comparison modelled as the exact rational test 10*count > 7*cap (equal for the capacities exercised; capacities are compared line by line through the `cap` op)",
                     "raw-pointer storage, Layout arithmetic and ptr::read/write/drop_in_place are modelled as slots + returned (displaced) entries; memory safety itself is not proved"],
    "assumptions": ["K: Eq is an equivalence and Hash respects it (hypothesis of the theorems: DecidableEq K and hashOf a function of the key)",
                    "clone() unwraps allocation results (its signature has no error channel): allocation faults are not injected into clone"],
    "partial": "",
    "technique": "Lean 4 refinement proof (open-addressing model with backward-shift deletion refines an association-list map for all op sequences and allocation-failure schedules) + differential correspondence",
    "level_text": "Proved in Lean for every key type with decidable equality, every hash function, every initial capacity, every operation sequence and every allocation-failure decision: the code-shaped model of CaoHashMap (probe loop with fuel, load-factor growth, rehash, backward-shift remove, entry) keeps its representation invariant, never reaches the non-termination/panic outcome (hm_find_terminates, hm_never_panics), returns exactly what an association-list map returns (hm_refines: get/contains/remove/entry/len, iteration up to permutation), leaves other keys untouched (hm_frame), is unchanged by a failed allocation (hm_alloc_fail) and accounts for every stored entry exactly once (hm_drop_once). The model is tied to hash_map.rs by the hm correspondence engine (outputs, exact capacities and drop logs compared line by line) and a BTreeMap oracle runs on the real code.",
    "level_note": "Trusted: Lean kernel; hand-written model vs hash_map.rs only as far as the sampled differential run shows; f32 load-factor test modelled exactly; unsafe pointer code not verified for memory safety.",
    "design_ref": "DESIGN.md 7 (C12), 6.4",
}

PROPS["C13"] = {
    "engines": {"ht": {"quick": 500, "thorough": 6000}},
    "rule": "handle-table op sequences (10-300 ops) with initial capacities 0-40 and powers of two, handles chosen for equal home slots / wrap-around / handle 0, "
            "more than 16 keys through entry, scripted allocation failures (first or second allocation of alloc_storage); non-trivial = at least two insert/entry ops",
    "trusted_base": ["(count+1) as f32 > cap as f32 * 0.69 modelled as 100*(count+1) > 69*cap; reserve's (n as f32 * 1.69) as usize modelled as n*169/100 (capacities compared line by line through the `cap` op)",
                     "unsafe pointer code not verified for memory safety"],
    "assumptions": ["Index/IndexMut on an absent handle panic by contract and are only exercised on present handles", "entry() has no error channel: an allocation failure while it grows is a panic by contract (documented in the fix)"],
    "partial": "",
    "technique": "Lean 4 refinement proof (power-of-two open-addressing model refines a map on non-zero handles; all insertion paths terminate) + differential correspondence",
    "level_text": "Proved in Lean for every requested initial capacity >= 0, every operation sequence and allocation decision: every reachable capacity is a power of two >= 2 (ht_pow2), the probe loop always returns (ht_find_terminates), n distinct handles inserted through insert and/or entry are all found and count = n (ht_all_paths_terminate), the model refines an association-list map on non-zero handles (ht_refines), other handles are unaffected (ht_frame), failures leave the state unchanged (ht_alloc_fail) and each stored value is accounted for exactly once (ht_drop_once). Tied to handle_table.rs by the ht correspondence engine (outputs, capacities, drop logs) plus a BTreeMap oracle with a hang watchdog on the real code.",
    "level_note": "Trusted: Lean kernel; hand-written model vs handle_table.rs as far as the sampled differential run shows; f32 load-factor arithmetic modelled exactly; unsafe pointer code not verified for memory safety.",
    "design_ref": "DESIGN.md 7 (C13), 6.4",
}

PROPS["C19"] = {
    "engines": {"val": {"quick": 400, "thorough": 4000}, "std": {"quick": 300, "thorough": 3000}},
    "rule": "value engine: pools of host-constructed heap values (ints around 0, +-2^53, +-2^63, the zero-hash integer; reals incl. +-0, +-inf, NaN, subnormals, 2^53, 2^63; strings of equal/different length incl. non-ASCII; "
            "nested tables incl. the same entries in another insertion order and equal-content distinct objects; function, native and closure values) -> ==, hash, partial_cmp, <, <=, as_bool, + - * / on all sampled pairs and the laws "
            "(reflexive on the domain, symmetric, transitive, eq => same hash, asymmetric, eq => neither less nor greater) asserted on the implementation; non-trivial = case has >= 3 ops",
    "trusted_base": ["IEEE-754 doubles enter the theorems only through the explicit laws LawfulF64 (order/equality facts, eq_bits, monotone conversions); the driver's Lean Float instance is compared with Rust f64 on every run",
                     "the unfolding of an acyclic heap value into a tree (OVal) is the deep conversion the harness performs (read_back) and the Lean model `own`; cyclic values are outside the property (known finding K2 under C04)"],
    "assumptions": ["function values never equal themselves: they are outside the equivalence claim (the property lists nil, numbers, strings, tables)",
                    "'by numeric value' for int/real pairs = the documented coercion i as f64; beyond 2^53 two different numbers can be unordered/equal, never inverted (ofInt monotone)"],
    "partial": "",
    "technique": "Lean 4 proofs by mutual structural induction over deep values (equivalence, hash coherence, order/equality coherence, numeric-order characterisation), parametric in lawful IEEE-754 ops + differential correspondence and law checks on the real crate",
    "level_text": "Proved in Lean for all deep values (trees of any size and nesting) and every floating-point implementation satisfying the explicit laws LawfulF64: == is symmetric and transitive on all values and reflexive on the NaN-free, function-free domain (veq_equivalence); equal values without a signed zero hash equally (veq_hash) and are then structurally equal (veq_iff_eq, used by C07 as key identity); the order never contradicts equality (veq_not_lt), is irreflexive and asymmetric on all values (vlt_irrefl, vlt_asymm); integers, reals and their mixtures are ordered exactly by the coerced numeric images, nil as 0, strings/tables as their length, two strings/tables by length (vcmp_* characterisations). A concrete instance of the float laws is proved (toyF64_lawful) so nothing is vacuous. The model functions are tied to value.rs / cao_lang_object.rs by the val engine on real heap values.",
    "level_note": "Trusted: Lean kernel; IEEE-754 satisfies LawfulF64 (not derived); model vs Rust Value impls as far as the sampled differential run shows; termination on acyclic heap graphs is by structural recursion on the unfolded tree (native stack depth not modelled).",
    "design_ref": "DESIGN.md 7 (C19), 6.2",
}

PROPS["C07"] = {
    "engines": {"tbl": {"quick": 400, "thorough": 4000}, "tblo": {"quick": 300, "thorough": 3000}, "hm": {"quick": 150, "thorough": 1500}},
    "rule": "table op sequences through the host API on a real VM table (insert/get/contains/remove/append/pop/nth/len/iter; 10-250 ops) with integer, finite non-zero real, string (equal text in distinct objects), nil keys, "
            "small integer keys around the length (so that append has to skip used keys), the zero-hash integer; values incl. nested tables; non-trivial = at least 3 ops. The hm engine is re-run because the table's hash part is the C12 map. "
            "Script-level operation sequences on aliased tables are exercised by the vm engine (C01/C06) — the aliasing sentence of the property is decided there.",
    "trusted_base": ["key identity of the hash part ('equal hash and ==') is structural equality of the deep key for nil/int/non-NaN non-zero real/string/acyclic-table keys: proved as C19.veq_iff_eq; NaN, signed zero and function-valued keys are excluded by the property",
                     "tables whose *keys* are tables that are mutated after insertion are outside the model (stored hash vs current content)"],
    "assumptions": ["append's key search is modelled with the same bounded loop; minimality is proved under 2*len+1 < 2^63"],
    "partial": "aliasing (shared reference semantics) is definitional in the heap model and sampled by the vm engine; not a theorem of this file",
    "technique": "Lean 4 refinement proof (hash part + ordered key list refines an insertion-ordered association list for all op sequences) on top of the C12 map theorems + differential correspondence",
    "level_text": "Proved in Lean for every operation sequence and allocation decision: the code-shaped model of CaoLangTable (CaoHashMap hash part + Vec of keys) keeps keys and hash part in sync (TInv), never panics, and returns exactly what an insertion-ordered association list returns for insert/get/contains/remove/append/pop/nth/len/iter with iteration order compared exactly (tbl_refines); append uses the least unused integer key >= len (append_key_min, pigeonhole bound on the search loop), pop removes the most recent entry and makes its key absent (pop_spec), nth/iter enumerate each entry once in insertion order (nth_iter_order). Tied to cao_lang_table.rs by the tbl engine on a real VM.",
    "level_note": "Trusted: Lean kernel; model vs cao_lang_table.rs as far as the sampled differential run shows; key identity = structural equality of the deep key (C19); unsafe code not verified for memory safety.",
    "design_ref": "DESIGN.md 7 (C07)",
}

PROPS["C16"] = {
    "engines": {"mod": {"quick": 400, "thorough": 5000}},
    "rule": "random modules (1-3 functions, every card kind, nesting <= 4, unique leaf contents so cards are distinguishable by value) and edit sequences of get/insert/remove/replace/swap/walk/walkcheck/children/dump "
            "with valid indices (taken from a shadow module), sibling/one-past/child positions, self/ancestor/descendant swap pairs and invalid indices (wrong function, too deep, empty); "
            "per-kind child tables are compared through `children` (num_children, iter_children, get_child for i = 0..n+1) on every card reached; non-trivial = at least 3 ops",
    "trusted_base": ["CardIds are not modelled (the compiler ignores them; cards are compared by content, generators make contents unique)",
                     "wasm/src/lib.rs only forwards to these methods and is not built offline"],
    "assumptions": ["'remove undoes insert' is claimed for list slots; on fixed-arity slots insert is documented to replace (then remove returns the inserted card and leaves the placeholder)",
                    "cards inside submodules have no CardIndex (the API addresses the functions of the module it is called on)"],
    "partial": "",
    "technique": "Lean 4 proofs over a lens-style model of card.rs/module.rs (walk soundness+completeness+uniqueness, insert/remove/replace/swap laws, failed edits are no-ops) + differential correspondence and an independent tree-edit oracle",
    "level_text": "Proved in Lean for all modules and indices: child enumeration, count and lookup agree for every card kind (children_getChild, numChildren_children); walk reports exactly the valid indices, each once, with the card getCard returns (walk_getCard, walk_complete, walk_nodup); insert/get, remove-undoes-insert on list slots, replace-replace, swap-swap, swap_self, swap of an ancestor/invalid index fails, and every failed edit leaves the module unchanged (swap_error_unchanged), with frame lemmas for untouched indices. The model is compared line by line with card.rs/module.rs on generated edit sequences and with an independent generic tree-edit oracle.",
    "level_note": "Trusted: Lean kernel; model vs card.rs/module.rs as far as the sampled differential run shows (per-kind child numbering is pinned by the children op on every generated card).",
    "design_ref": "DESIGN.md 7 (C16)",
}

PROPS["C02"] = {
    "engines": {"gc": {"quick": 150, "thorough": 1500}, "vm": {"quick": 150, "thorough": 1500}},
    "rule": "gc engine: allocation-heavy well-scoped programs (strings, nested tables, arrays, closures capturing locals, stdlib calls with allocating callbacks, host functions that allocate and re-enter) "
            "run once without forced collections and then under forced schedules on the REAL vm (hook: verif::set_gc_schedule; every allocation point, each single point k < 40, random 64-bit masks), "
            "with swept objects poisoned instead of freed (hook: quarantine) so that any later read of a swept object is detected; outcomes (result, globals deep-read, host log) must be equal for all schedules, "
            "and every run is compared line by line with the Lean VM model under the same schedule. vm engine: run/clear histories compared with the model incl. accounted bytes, frame and stack heights. "
            "non-trivial = the program allocates at least one object",
    "trusted_base": ["the heap model (addresses = allocation counter, objects = tagged records) abstracts the raw pointers of cao_lang_object.rs; 'reads freed memory' is observed on the real code through the quarantine hook (poisoned objects), not proved about the Rust",
                     "the root set of the model (value stack, globals, frame closures, open upvalues, guards) is compared with runtime_data.rs only through behaviour under forced schedules"],
    "assumptions": ["host functions follow the documented protocol: values they hold across an allocation are on the VM stack or guarded"],
    "partial": "schedule independence of whole runs (schedule_independence_Full) is stated, and proved for the allocation step (allocBytes_any_schedule, allocBytes_schedule_independent, withObject_obs) and for collection itself (obsEq_gc); the lift through every instruction of `step` is not yet a theorem and is covered by the gc engine",
    "technique": "Lean 4 proofs about the mark-sweep model (collection frees exactly the unreachable objects, preserves every reachable one unchanged, is idempotent, and is invisible up to observational equivalence at every allocation point, for every forcing schedule) + differential correspondence of the real VM under forced-collection schedules with poisoned sweeps",
    "level_text": "Proved in Lean for every heap (any size, sharing, cycles), root set and forcing schedule: the worklist mark phase computes exactly the objects reachable from the roots (markLoop_exact, mem_reachable, fuel_adequate), a collection removes exactly the unreachable objects and leaves every reachable object and all roots unchanged (gc_exact, gc_preserves_reachable, gc_frees_only_unreachable, gc_get, gc_roots_unchanged), creates no dangling reference (gc_no_dangling, gc_usable_values_valid), is idempotent (gc_idempotent), and a state and its collected version are observationally equivalent, so an allocation behaves the same whether or not, and however often, a collection is forced at it (obsEq_gc, allocBytes_obs, allocBytes_any_schedule, allocBytes_schedule_independent, withObject_obs). The run-level statement is kept as schedule_independence_Full and exercised, not proved. Tied to the real VM by the gc engine (forced schedules + quarantine) and the vm engine.",
    "level_note": "Trusted: Lean kernel; heap/roots model vs runtime_data.rs as far as the differential runs under forced schedules show; memory safety of the unsafe Rust is observed (poisoned sweeps), not proved; lift of the allocation-step lemma to whole runs not proved.",
    "design_ref": "DESIGN.md 7 (C02), 6.5",
}

PROPS["C05"] = {
    "engines": {"mem": {"quick": 200, "thorough": 3000}, "vm": {"quick": 200, "thorough": 2000}, "gc": {"quick": 100, "thorough": 1000}},
    "rule": "mem engine: histories of new(mem limit 1.5 KiB - 60 KiB)/run/stats/clear on one REAL vm with three program families (garbage-only loops of strings, tables, host-built tables and closures that must never report OutOfMemory on a cleared machine; live data appended to a global table until the limit is hit; tables grown across every capacity step, also as garbage); vm/gc engines: general and allocation-heavy programs; "
            "after every op the accounted bytes (hook: verif::alloc_counters), the collection threshold, the number of live objects, frame and stack heights are compared with the Lean model, whose charges come from the generated layout constants (Layout.lean: object 96 B, string 4*len+4, table 40*cap+8); "
            "the oracle additionally requires accounted <= limit, accounted = 0 after clear and no OutOfMemory for the garbage-only family. non-trivial = at least one allocation",
    "trusted_base": ["the allocator's bookkeeping is modelled at the level of alloc/dealloc calls with sizes taken from the Rust layouts (regenerated on every run through `caoharness dump layout`); the system allocator itself is outside the model",
                     "object sizes: size_of::<CaoLangObject>() etc. are read from the compiled crate, not derived"],
    "assumptions": ["tableInsert lemmas assume the table is reachable from a root and heap addresses are unique (both proved invariants: gc_unique, withObject_unique)"],
    "partial": "the invariant Inv (ledger exact, within limit, unique addresses, fresh counter, threshold) is proved for every allocating primitive, collection and clear; its lift to every instruction of `step` (i.e. to all reachable states of a run) is covered by the vm engine's line-by-line comparison of the counters, not yet by a theorem",
    "technique": "Lean 4 invariant proofs about the allocator/collector model (ledger = sum of outstanding charges, never above the limit, zero after clear, OutOfMemory iff reachable + request > limit) + differential correspondence of the real allocator counters",
    "level_text": "Proved in Lean for every state satisfying the ledger invariant, every request size, limit and forcing schedule: the byte counter equals the sum of the charges of the allocated objects before and after collection, object creation (success and failure), table growth and clear (gc_ledger, initTable_ledger, initString_ledger, initSimple_ledger, tableInsert_ledger, clear_ledger, allocBytes_ok_ledgerP, allocBytes_err_ledgerP), never exceeds the limit (alloc_le_limit and *_le_limit), is zero after clear (clear_zero); a request is refused if and only if the charge of the objects reachable from the roots plus the request exceeds the limit (alloc_outcome_iff, oom_only_if_full, alloc_succeeds_if_fits), so garbage never causes OutOfMemory; the collection threshold never drops below its initial value and is reset by clear (nextGc_ge_initial, clear_threshold, threshold_after_gc). Tied to alloc.rs/runtime_data.rs by comparing the real counters after every operation.",
    "level_note": "Trusted: Lean kernel; allocator model vs alloc.rs as far as the sampled differential run shows; layout constants read from the compiled crate; lift of Inv to whole runs not yet proved.",
    "design_ref": "DESIGN.md 7 (C05), 6.5",
}

PROPS["C03"] = {
    "engines": {"vm": {"quick": 400, "thorough": 4000}, "nat": {"quick": 200, "thorough": 2000}, "std": {"quick": 150, "thorough": 1500}},
    "rule": "vm engine: well-scoped random programs (loops, recursion, closures, stdlib calls with script callbacks, host functions that re-enter scripts) run with budgets 0-40 (one case in six), 1000 and 200000; "
            "every run reports the number of dispatched instructions through the hook counter verif_dispatches (counts nested run_function dispatches too) and the oracle requires dispatched <= max(budget,1); "
            "`budcheck` runs one program under two budgets on fresh VMs and requires equal outcomes when neither timed out; corpus: sorted_by_key with a looping key function under a small budget, budget 0. "
            "nat/std engines: host functions and library functions that call back into scripts, compared with the model incl. dispatch counts. non-trivial = program longer than 150 characters",
    "trusted_base": ["the VM model (Vm.lean: step/exec/run) is hand-written; it is compared with vm.rs instruction by instruction only through outcomes, dispatch counts, stack/frame heights and accounted bytes",
                     "host functions are assumed stack-neutral (they leave the value stack at least as high as they found it minus their arguments); a host function that pops more can make natives re-enter natives without consuming budget (native_recursion_ignores_budget) - in the Rust that recursion ends in a native stack overflow"],
    "assumptions": ["`run` is started with room on the call stack (frames < capacity); otherwise it refuses to start (run_no_room) and nothing is dispatched"],
    "partial": "fuel adequacy at every nesting depth (gas_suffices_Full) is false for arbitrary host functions and start states (not_gas_suffices_Full, witness: a cyclic table below __min with a native key function); it is proved for the top level (gas_suffices_toplevel): the structural fuel of the model never masks a Timeout of the outermost loop",
    "technique": "Lean 4 proofs by induction on the structural fuel of the interpreter model (potential dispatches + remaining never increases; Timeout only when the budget is exhausted; simulation between budgets n and n+d) + differential correspondence incl. the real dispatch counter",
    "level_text": "Proved in Lean for every program (arbitrary bytes), every start state with room on the call stack, every budget n and every host callback structure of the model: the potential dispatches + remaining never increases during exec, including all nested run_function levels entered from host functions (exec_potential), hence a run dispatches at most n - 1 <= n instructions (budget_bound_sharp, budget_bound, budget_bound_strict); no instruction is dispatched once the budget is exhausted and the loop then reports Timeout (exec_loop_exhausted, no_dispatch_when_exhausted, dispatch_needs_budget); Timeout is reported only with remaining = 0 (timeout_only_when_exhausted, no_timeout_with_budget_left); a run that did not end in Timeout (at any nesting depth) is reproduced exactly - same outcome, same final machine, same number of dispatched instructions - by every larger budget (budget_monotone, budget_monotone', budget_monotone_ok, by the simulation exec_shift). Termination of the model interpreter itself is by structural recursion on fuel (accepted by the kernel). Tied to vm.rs by the vm/nat/std engines, which compare outcomes and the real dispatch counter.",
    "level_note": "Trusted: Lean kernel; hand-written VM model vs vm.rs as far as the sampled differential runs show; host functions stack-neutral; the claim 'every run terminates' is about the instruction loop - native code run by host functions is outside the model.",
    "design_ref": "DESIGN.md 7 (C03)",
}

PROPS["C17"] = {
    "engines": {"vm": {"quick": 400, "thorough": 4000}, "mem": {"quick": 100, "thorough": 1000}},
    "rule": "vm engine histories on one REAL vm: run / clear / stats / `runcheck` (run on the used VM and on a new VM with the same configuration and registered functions: full outcomes incl. accounted bytes, frames, stack height and dispatch count must be equal) / "
            "`repeat` (the same program 2-40 times with clear in between: every repetition equal to the first incl. accounted memory; without clear: equal observations whenever the first run succeeded), with small call-stack (6, 12) and value-stack (24) capacities so that a leaked frame or slot surfaces within a few runs, "
            "after runs that ended in Timeout, OutOfMemory, Stackoverflow, CallStackOverflow and host-function errors. mem engine: clear returns the accounted bytes, object count, frames and stack to zero and resets the collection threshold. non-trivial = program longer than 150 characters",
    "trusted_base": ["hand-written VM model vs vm.rs/runtime_data.rs as far as the differential histories show",
                     "EqObs (the observational equality used by clear_eq_fresh) ignores the allocation counter heap.next (addresses are never observable), the ghost dispatch counters and the forcing schedule of the test hook"],
    "assumptions": ["registered host functions are deterministic and keep no state of their own between runs"],
    "partial": "clear_behaves_like_fresh_Full (a run on a cleared VM equals the run on a fresh VM, as a theorem about `run`) needs a relational frame property of `step` up to renaming of heap addresses and is not proved; it is decided on the implementation by runcheck/repeat histories. Proved: the cleared state is observationally a fresh state (clear_eq_fresh) and runs are functions of that state (run_deterministic, run_ignores_counters)",
    "technique": "Lean 4 proofs about clear/run of the VM model (clear yields an observationally fresh machine with zero accounted memory; run restores the call stack and ignores leftover counters; determinism) + differential run/clear/repeat histories against the real VM and a fresh-VM oracle",
    "level_text": "Proved in Lean for every machine state satisfying the memory ledger and every program: clear empties the value stack, call frames, globals, open upvalues, guards and the heap, returns exactly the charged bytes and resets the collection threshold (clear_fields, clear_contents, clear_accounting, clear_allocated, clear_ledger), so the cleared machine is observationally equal to a newly created one with the same configuration (clear_eq_fresh, clear_clear; EqObs is an equivalence: EqObs.refl/symm/trans); run leaves the call stack exactly as it found it, whatever the outcome, so repeated runs cannot exhaust it (run_restores_frames, run_no_frame_leak, run_frames_nil, run_full_stack, run_frameCap); the outcome of run is a function of program, budget and state and does not depend on the leftover budget/dispatch counters of earlier runs (run_deterministic, run_ignores_counters, run_ignores_counters_full). Tied to the real VM by runcheck/repeat histories and the counters compared after every operation.",
    "level_note": "Trusted: Lean kernel; hand-written VM model vs the Rust as far as the sampled histories show; the run-level statement clear_behaves_like_fresh_Full is exercised (fresh-VM oracle on the real code), not proved.",
    "design_ref": "DESIGN.md 7 (C17)",
}

PROPS["C15"] = {
    "engines": {"trc": {"quick": 400, "thorough": 4000}, "cmp": {"quick": 150, "thorough": 1500}},
    "rule": "trc engine: a failing card with unique content (failing host function, missing native, wrong-type operand of get/getprop/pop/dyncall, undefined variable, host function rejecting its argument) is planted in any value slot of any card kind (operators, if/else branches and conditions, repeat count and body, for-each body, while body, call arguments), "
            "at call depth 0-3 through static and dynamic calls, in the root module or a submodule, main not necessarily first; the real error trace is resolved through the real Module::get_card: entry 0 must be the planted card, entries 1..d the call cards of the chain (optionally followed by the entry point); "
            "compile errors (unknown function, empty variable name) planted the same way must be located at the planted card; `sweep`: a random well-scoped program is run with every budget 1..K (K 20-200) and small value stacks so that Timeout/Stackoverflow strike at every instruction: every trace entry must resolve to a card. "
            "The Lean model resolves its own traces through the Module.getCard model and is compared line by line. cmp engine: the trace tables of compiled programs are compared byte for byte with the compiler model",
    "trusted_base": ["the trace table is produced by the compiler model proved about; the run-time part (errTrace) is the model's definition, compared with vm.rs by the trc/vm engines"],
    "assumptions": [],
    "partial": "the literal statement 'every trace entry is a card that emitted the instruction' is false (naive_owner_false, naive_resolves_false): the conditional jumps of While/IfTrue/IfFalse/IfElse are recorded at the body child they guard, and the implicit epilogue of a function (Exit, ScalarNil/Return) is recorded one past the last card or at the empty index (known finding K5). The proved statement names these cases explicitly",
    "technique": "Lean 4 proof over the total compiler model (Hoare-style trace logic, one mutual induction over processCard) that every trace entry and every located compile error is the path of a real sub-card holding an opcode that card (or its parent's jump) emits + differential correspondence with planted failing cards resolved through the real Module::get_card",
    "level_text": "Proved in Lean for all cards, modules and compiler states: compiling a card restores the position bookkeeping and records only entries whose index is the path of a real sub-card (processCard_trace_paths), every located error of the card compiler is such a path (processCard_error_path), the byte at each trace key in the final bytecode is an opcode that the resolved card emits itself or that its parent emits on its behalf, and later back-patching never touches a trace key (processCard_trace_owner, processCard_keeps_labels); for a whole program every trace entry resolves, through the submodule path of its namespace and Module.getCard, to a card of the source module (std included) whose opcode is attributed to it, or is one of the explicitly characterised epilogue entries (compile_trace_resolves, _deep, _op); a compile error located anywhere resolves to a card, a function header, or is one of the module-level errors without location (compile_error_resolves, _deep); the run-time trace is the entry of the failing instruction followed by the entries of the call sites of the active frames, innermost first (errTrace_shape, errTrace_cons, errTrace_all), each resolving as above (errTrace_resolves), and a call site holding CallFunction resolves to a Call or DynamicCall card (call_site_is_call_card, processCard_call_site).",
    "level_note": "Trusted: Lean kernel; compiler model byte-identical to compiler.rs as far as the cmp engine shows; that the VM's failing address and frame call sites are trace keys is compared, not proved.",
    "design_ref": "DESIGN.md 7 (C15)",
}

PROPS["C08"] = {
    "engines": {"cmp": {"quick": 400, "thorough": 4000}, "sem": {"quick": 60, "thorough": 600, "driver_is_spec": True}, "wf": {"quick": 150, "thorough": 1500}},
    "rule": "cmp engine: random module trees (depth 0-3, same-named functions in different modules, function imports, module-prefix imports, super. chains, absolute paths) plus a malformed stream (invalid function/module names, duplicate functions, duplicate modules, a user module named std, imports without dot, ambiguous imports, missing main, too deep nesting, too many super.): "
            "the real compile() result (bytes incl. call operands, labels, or the error kind and location) is compared with the compiler model proved about. sem engine: the real compile+run of well-scoped programs with calls through every resolution path is compared with the reference semantics, whose lookup is the documented order (Sem.resolve) and whose calls bind parameters by the convention and give the callee a fresh environment. "
            "wf engine: every function-pointer operand of the bytes the REAL compiler emitted has a label at an instruction start",
    "trusted_base": ["reference semantics Sem.lean (hand-written from the language documentation) is the specification side",
                     "String.splitOn on '.' is used identically by the compiler model and the reference lookup; that the last segment of an import path contains no '.' (executeImports_simpleKeys_Full) is stated and checked on examples, not proved (no core lemmas about splitOn)",
                     "function handles are a 32-bit hash of the position in the flattened stream: distinctness is the explicit hypothesis HandleInj (proved for the first 64 positions, handleInj_64); the compiler does not check it"],
    "assumptions": ["calls supply as many arguments as the callee declares (a call with fewer arguments makes the callee consume the caller's most recent values: known finding K4; the repository's own tests rely on passing arguments implicitly on the stack)"],
    "partial": "the run-time half ('executes that function's body and no other') is proved up to the label table: the call operand is the handle of the designated function and that handle is labelled at the start of that function's body, which later compilation never changes (compile_calls_resolve, compile_function_labels, compile_call_target_labelled); that CallFunction jumps to the labelled position and binds arguments is the VM model's definition, compared with vm.rs by the sem/vm engines, not a theorem. `main` itself has no label (known finding K3)",
    "technique": "Lean 4 proofs over the total compiler model: resolution characterised as a pure 4-step function equal to the reference lookup; exact acceptance/rejection conditions of the module front end; emitted call operands and labels designate the resolved function + differential correspondence (compiler bytes, reference semantics as oracle)",
    "level_text": "Proved in Lean for all module trees, names and import lists: resolveFunction is exactly the documented four-step lookup (resolveFunction_spec, resolveSpec_unfold) and agrees with the reference lookup Sem.resolve on every stream the front end produces - same target or a compile error (resolve_agrees_sound, resolve_agrees_complete, resolve_agrees, resolve_invalidJump_sem, resolve_agrees_stream); the front end accepts a tree iff all names are valid, sibling modules and full function names are distinct, every import has a dot and last segments are distinct, main exists and the nesting is within the limit, and each defect yields its own error kind (intoIrStream_ok_iff-style characterisations: compile_ok_iff, intoIrStream_error_sound/_only, compile_rejects_bad_name, _dup_names, _dup_fn_in_module, _dup_modules, _user_std, _bad_imports, _too_deep, intoIrStream_noMain_iff, executeImports_accepts/_error_kinds); on success the stream is exactly the tree's functions, each once, main first (intoIrStream_stream, intoIrStream_main_first, intoIrStream_semFlatten, compile_ok_names_unique); a static call emits exactly the handle and arity of the resolved function and every called name of every function resolves to the function the reference lookup designates, whose handle is labelled at its body start (encodeJump_emits_target, compile_calls_resolve, compile_function_labels, compile_call_target_labelled). Findings proved as theorems: orders_differ (dotted import keys), ex_mod_import_super (module-prefix import through super. never resolves), ex_root_shadows_same_module.",
    "level_note": "Trusted: Lean kernel; compiler model byte-identical to compiler.rs as far as the cmp engine shows; Sem.lean is the specification; handle injectivity and the splitOn fact are explicit hypotheses; VM call mechanics compared, not proved.",
    "design_ref": "DESIGN.md 7 (C08)",
}

# properties not claimed yet (kept current; moved into PROPS as their checks land)
NOT_YET = {
    "C01": "check under construction in this session (see DESIGN.md section 9 for the order of work); not yet claimed",
    "C04": "check under construction in this session (see DESIGN.md section 9 for the order of work); not yet claimed",
    "C06": "check under construction in this session (see DESIGN.md section 9 for the order of work); not yet claimed",
    "C07": "check under construction in this session (see DESIGN.md section 9 for the order of work); not yet claimed",
    "C09": "check under construction in this session (see DESIGN.md section 9 for the order of work); not yet claimed",
    "C10": "check under construction in this session (see DESIGN.md section 9 for the order of work); not yet claimed",
    "C11": "check under construction in this session (see DESIGN.md section 9 for the order of work); not yet claimed",
    "C12": "check under construction in this session (see DESIGN.md section 9 for the order of work); not yet claimed",
    "C13": "check under construction in this session (see DESIGN.md section 9 for the order of work); not yet claimed",
    "C16": "check under construction in this session (see DESIGN.md section 9 for the order of work); not yet claimed",
    "C18": "check under construction in this session (see DESIGN.md section 9 for the order of work); not yet claimed",
    "C19": "check under construction in this session (see DESIGN.md section 9 for the order of work); not yet claimed",
}

