"""Per-property configuration of ./check: engines (with case counts per tier), the parts of the
trusted base specific to the property, and what is proved in full vs partially."""

PROPS = {
    "C14": {
        "engines": {"stack": {"quick": 400, "thorough": 3000}, "bstack": {"quick": 300, "thorough": 3000}},
        "rule": "stack/bstack op sequences (cap 1-8 or 256; 10-200 ops weighted towards full/empty edges, indices around the height); "
                "non-trivial = at least 3 ops; distinct = distinct op sequences. thorough adds the exhaustive enumeration of all "
                "op sequences of length 5 over a 12-op alphabet at caps 1-3 (supports the correspondence, not the proof)",
        "trusted_base": ["Value is Copy: the model's List α stands for Box<[Value]>; MaybeUninit storage of BoundedStack modelled as List + drop log"],
        "assumptions": ["clear_until(h) with h above the current height is outside the property (guard in vs_refines); the model keeps the stale-slot behaviour and is still compared with the code there"],
        "partial": "",
        "technique": "Lean 4 refinement proof (model of value_stack.rs/bounded_stack.rs refines a List spec for all capacities and op sequences) + differential correspondence",
        "level_text": "Proved in Lean for every capacity >= 1 and every operation sequence: the code-shaped model of ValueStack refines a List-based bounded stack (vs_refines, by the one-step lemma step_refines and induction), the height invariant count <= cap-1 holds in every reachable state, and BoundedStack accounts for every pushed element exactly once (bs_accounting, bs_drop_once). The model is tied to the Rust by the stack/bstack correspondence engines and a Vec-based oracle runs on the real code.",
        "level_note": "Trusted: Lean kernel; the hand-written model corresponds to value_stack.rs/bounded_stack.rs only as far as the sampled (thorough: partly exhaustive) differential run shows; memory safety of the MaybeUninit/ptr code is not proved.",
        "design_ref": "DESIGN.md 7 (C14)",
    },
}

PROPS["C12"] = {
    "engines": {"hm": {"quick": 500, "thorough": 6000}},
    "rule": "hash-map op sequences (10-300 ops: insert/entry/remove/get/get_mut/contains/reserve/clear/clone/len/iter/cap/dropped) over key universes built to "
            "collide on one home slot of a capacity of the growth sequence, to sit at the end of the bucket array (wrap-around), to hash to the reserved value 0, "
            "plus string keys; drop-logging key and value types; a scripted allocator failing the k-th allocation of an op in every third case. "
            "non-trivial = at least two insert/entry ops; distinct = distinct op sequences",
    "trusted_base": ["needs_grow's f32 comparison modelled as the exact rational test 10*count > 7*cap (equal for the capacities exercised; capacities are compared line by line through the `cap` op)",
                     "raw-pointer storage, Layout arithmetic and ptr::read/write/drop_in_place are modelled as slots + returned (displaced) entries; memory safety itself is not proved"],
    "assumptions": ["K: Eq is an equivalence and Hash respects it (hypothesis of the theorems: DecidableEq K and hashOf a function of the key)",
                    "clone() unwraps allocation results (its signature has no error channel): allocation faults are not injected into clone"],
    "partial": "",
    "technique": "Lean 4 refinement proof (open-addressing model with backward-shift deletion refines an association-list map for all op sequences and allocation-failure schedules) + differential correspondence",
    "level_text": "Proved in Lean for every key type with decidable equality, every hash function, every initial capacity, every operation sequence and every allocation-failure decision: the code-shaped model of CaoHashMap (probe loop with fuel, load-factor growth, rehash, backward-shift remove, entry) keeps its representation invariant, never reaches the non-termination/panic outcome (hm_find_terminates, hm_never_panics), returns exactly what an association-list map returns (hm_refines: get/contains/remove/entry/len, iteration up to permutation), leaves other keys untouched (hm_frame), is unchanged by a failed allocation (hm_alloc_fail) and accounts for every stored entry exactly once (hm_drop_once). The model is tied to hash_map.rs by the hm correspondence engine (outputs, exact capacities and drop logs compared line by line) and a BTreeMap oracle runs on the real code.",
    "level_note": "Trusted: Lean kernel; hand-written model vs hash_map.rs only as far as the sampled differential run shows; f32 load-factor test modelled exactly; unsafe pointer code not verified for memory safety.",
    "design_ref": "DESIGN.md 7 (C12), 6.4",
}

PROPS["C13"] = {
    "engines": {"ht": {"quick": 500, "thorough": 6000}},
    "rule": "handle-table op sequences (10-300 ops) with initial capacities 0-40 and powers of two, handles chosen for equal home slots / wrap-around / handle 0, "
            "more than 16 keys through entry, scripted allocation failures (first or second allocation of alloc_storage); non-trivial = at least two insert/entry ops",
    "trusted_base": ["(count+1) as f32 > cap as f32 * 0.69 modelled as 100*(count+1) > 69*cap; reserve's (n as f32 * 1.69) as usize modelled as n*169/100 (capacities compared line by line through the `cap` op)",
                     "unsafe pointer code not verified for memory safety"],
    "assumptions": ["Index/IndexMut on an absent handle panic by contract and are only exercised on present handles", "entry() has no error channel: an allocation failure while it grows is a panic by contract (documented in the fix)"],
    "partial": "",
    "technique": "Lean 4 refinement proof (power-of-two open-addressing model refines a map on non-zero handles; all insertion paths terminate) + differential correspondence",
    "level_text": "Proved in Lean for every requested initial capacity >= 0, every operation sequence and allocation decision: every reachable capacity is a power of two >= 2 (ht_pow2), the probe loop always returns (ht_find_terminates), n distinct handles inserted through insert and/or entry are all found and count = n (ht_all_paths_terminate), the model refines an association-list map on non-zero handles (ht_refines), other handles are unaffected (ht_frame), failures leave the state unchanged (ht_alloc_fail) and each stored value is accounted for exactly once (ht_drop_once). Tied to handle_table.rs by the ht correspondence engine (outputs, capacities, drop logs) plus a BTreeMap oracle with a hang watchdog on the real code.",
    "level_note": "Trusted: Lean kernel; hand-written model vs handle_table.rs as far as the sampled differential run shows; f32 load-factor arithmetic modelled exactly; unsafe pointer code not verified for memory safety.",
    "design_ref": "DESIGN.md 7 (C13), 6.4",
}

PROPS["C19"] = {
    "engines": {"val": {"quick": 400, "thorough": 4000}, "std": {"quick": 300, "thorough": 3000}},
    "rule": "value engine: pools of host-constructed heap values (ints around 0, +-2^53, +-2^63, the zero-hash integer; reals incl. +-0, +-inf, NaN, subnormals, 2^53, 2^63; strings of equal/different length incl. non-ASCII; "
            "nested tables incl. the same entries in another insertion order and equal-content distinct objects; function, native and closure values) -> ==, hash, partial_cmp, <, <=, as_bool, + - * / on all sampled pairs and the laws "
            "(reflexive on the domain, symmetric, transitive, eq => same hash, asymmetric, eq => neither less nor greater) asserted on the implementation; non-trivial = case has >= 3 ops",
    "trusted_base": ["IEEE-754 doubles enter the theorems only through the explicit laws LawfulF64 (order/equality facts, eq_bits, monotone conversions); the driver's Lean Float instance is compared with Rust f64 on every run",
                     "the unfolding of an acyclic heap value into a tree (OVal) is the deep conversion the harness performs (read_back) and the Lean model `own`; cyclic values are outside the property (known finding K2 under C04)"],
    "assumptions": ["function values never equal themselves: they are outside the equivalence claim (the property lists nil, numbers, strings, tables)",
                    "'by numeric value' for int/real pairs = the documented coercion i as f64; beyond 2^53 two different numbers can be unordered/equal, never inverted (ofInt monotone)"],
    "partial": "",
    "technique": "Lean 4 proofs by mutual structural induction over deep values (equivalence, hash coherence, order/equality coherence, numeric-order characterisation), parametric in lawful IEEE-754 ops + differential correspondence and law checks on the real crate",
    "level_text": "Proved in Lean for all deep values (trees of any size and nesting) and every floating-point implementation satisfying the explicit laws LawfulF64: == is symmetric and transitive on all values and reflexive on the NaN-free, function-free domain (veq_equivalence); equal values without a signed zero hash equally (veq_hash) and are then structurally equal (veq_iff_eq, used by C07 as key identity); the order never contradicts equality (veq_not_lt), is irreflexive and asymmetric on all values (vlt_irrefl, vlt_asymm); integers, reals and their mixtures are ordered exactly by the coerced numeric images, nil as 0, strings/tables as their length, two strings/tables by length (vcmp_* characterisations). A concrete instance of the float laws is proved (toyF64_lawful) so nothing is vacuous. The model functions are tied to value.rs / cao_lang_object.rs by the val engine on real heap values.",
    "level_note": "Trusted: Lean kernel; IEEE-754 satisfies LawfulF64 (not derived); model vs Rust Value impls as far as the sampled differential run shows; termination on acyclic heap graphs is by structural recursion on the unfolded tree (native stack depth not modelled).",
    "design_ref": "DESIGN.md 7 (C19), 6.2",
}

PROPS["C07"] = {
    "engines": {"tbl": {"quick": 400, "thorough": 4000}, "tblo": {"quick": 300, "thorough": 3000}, "hm": {"quick": 150, "thorough": 1500}},
    "rule": "table op sequences through the host API on a real VM table (insert/get/contains/remove/append/pop/nth/len/iter; 10-250 ops) with integer, finite non-zero real, string (equal text in distinct objects), nil keys, "
            "small integer keys around the length (so that append has to skip used keys), the zero-hash integer; values incl. nested tables; non-trivial = at least 3 ops. The hm engine is re-run because the table's hash part is the C12 map. "
            "Script-level operation sequences on aliased tables are exercised by the vm engine (C01/C06) — the aliasing sentence of the property is decided there.",
    "trusted_base": ["key identity of the hash part ('equal hash and ==') is structural equality of the deep key for nil/int/non-NaN non-zero real/string/acyclic-table keys: proved as C19.veq_iff_eq; NaN, signed zero and function-valued keys are excluded by the property",
                     "tables whose *keys* are tables that are mutated after insertion are outside the model (stored hash vs current content)"],
    "assumptions": ["append's key search is modelled with the same bounded loop; minimality is proved under 2*len+1 < 2^63"],
    "partial": "aliasing (shared reference semantics) is definitional in the heap model and sampled by the vm engine; not a theorem of this file",
    "technique": "Lean 4 refinement proof (hash part + ordered key list refines an insertion-ordered association list for all op sequences) on top of the C12 map theorems + differential correspondence",
    "level_text": "Proved in Lean for every operation sequence and allocation decision: the code-shaped model of CaoLangTable (CaoHashMap hash part + Vec of keys) keeps keys and hash part in sync (TInv), never panics, and returns exactly what an insertion-ordered association list returns for insert/get/contains/remove/append/pop/nth/len/iter with iteration order compared exactly (tbl_refines); append uses the least unused integer key >= len (append_key_min, pigeonhole bound on the search loop), pop removes the most recent entry and makes its key absent (pop_spec), nth/iter enumerate each entry once in insertion order (nth_iter_order). Tied to cao_lang_table.rs by the tbl engine on a real VM.",
    "level_note": "Trusted: Lean kernel; model vs cao_lang_table.rs as far as the sampled differential run shows; key identity = structural equality of the deep key (C19); unsafe code not verified for memory safety.",
    "design_ref": "DESIGN.md 7 (C07)",
}

PROPS["C16"] = {
    "engines": {"mod": {"quick": 400, "thorough": 5000}},
    "rule": "random modules (1-3 functions, every card kind, nesting <= 4, unique leaf contents so cards are distinguishable by value) and edit sequences of get/insert/remove/replace/swap/walk/walkcheck/children/dump "
            "with valid indices (taken from a shadow module), sibling/one-past/child positions, self/ancestor/descendant swap pairs and invalid indices (wrong function, too deep, empty); "
            "per-kind child tables are compared through `children` (num_children, iter_children, get_child for i = 0..n+1) on every card reached; non-trivial = at least 3 ops",
    "trusted_base": ["CardIds are not modelled (the compiler ignores them; cards are compared by content, generators make contents unique)",
                     "wasm/src/lib.rs only forwards to these methods and is not built offline"],
    "assumptions": ["'remove undoes insert' is claimed for list slots; on fixed-arity slots insert is documented to replace (then remove returns the inserted card and leaves the placeholder)",
                    "cards inside submodules have no CardIndex (the API addresses the functions of the module it is called on)"],
    "partial": "",
    "technique": "Lean 4 proofs over a lens-style model of card.rs/module.rs (walk soundness+completeness+uniqueness, insert/remove/replace/swap laws, failed edits are no-ops) + differential correspondence and an independent tree-edit oracle",
    "level_text": "Proved in Lean for all modules and indices: child enumeration, count and lookup agree for every card kind (children_getChild, numChildren_children); walk reports exactly the valid indices, each once, with the card getCard returns (walk_getCard, walk_complete, walk_nodup); insert/get, remove-undoes-insert on list slots, replace-replace, swap-swap, swap_self, swap of an ancestor/invalid index fails, and every failed edit leaves the module unchanged (swap_error_unchanged), with frame lemmas for untouched indices. The model is compared line by line with card.rs/module.rs on generated edit sequences and with an independent generic tree-edit oracle.",
    "level_note": "Trusted: Lean kernel; model vs card.rs/module.rs as far as the sampled differential run shows (per-kind child numbering is pinned by the children op on every generated card).",
    "design_ref": "DESIGN.md 7 (C16)",
}

# properties not claimed yet (kept current; moved into PROPS as their checks land)
NOT_YET = {
    "C01": "check under construction in this session (see DESIGN.md section 9 for the order of work); not yet claimed",
    "C02": "check under construction in this session (see DESIGN.md section 9 for the order of work); not yet claimed",
    "C03": "check under construction in this session (see DESIGN.md section 9 for the order of work); not yet claimed",
    "C04": "check under construction in this session (see DESIGN.md section 9 for the order of work); not yet claimed",
    "C05": "check under construction in this session (see DESIGN.md section 9 for the order of work); not yet claimed",
    "C06": "check under construction in this session (see DESIGN.md section 9 for the order of work); not yet claimed",
    "C07": "check under construction in this session (see DESIGN.md section 9 for the order of work); not yet claimed",
    "C08": "check under construction in this session (see DESIGN.md section 9 for the order of work); not yet claimed",
    "C09": "check under construction in this session (see DESIGN.md section 9 for the order of work); not yet claimed",
    "C10": "check under construction in this session (see DESIGN.md section 9 for the order of work); not yet claimed",
    "C11": "check under construction in this session (see DESIGN.md section 9 for the order of work); not yet claimed",
    "C12": "check under construction in this session (see DESIGN.md section 9 for the order of work); not yet claimed",
    "C13": "check under construction in this session (see DESIGN.md section 9 for the order of work); not yet claimed",
    "C15": "check under construction in this session (see DESIGN.md section 9 for the order of work); not yet claimed",
    "C16": "check under construction in this session (see DESIGN.md section 9 for the order of work); not yet claimed",
    "C17": "check under construction in this session (see DESIGN.md section 9 for the order of work); not yet claimed",
    "C18": "check under construction in this session (see DESIGN.md section 9 for the order of work); not yet claimed",
    "C19": "check under construction in this session (see DESIGN.md section 9 for the order of work); not yet claimed",
}

