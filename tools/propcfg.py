"""Per-property configuration of ./check: engines (with case counts per tier), the parts of the
trusted base specific to the property, and what is proved in full vs partially."""

PROPS = {
    "C14": {
        "engines": {"stack": {"quick": 400, "thorough": 3000}, "bstack": {"quick": 300, "thorough": 3000}},
        "rule": "stack/bstack op sequences (cap 1-8 or 256; 10-200 ops weighted towards full/empty edges, indices around the height); "
                "non-trivial = at least 3 ops; distinct = distinct op sequences. thorough adds the exhaustive enumeration of all "
                "op sequences of length 5 over a 12-op alphabet at caps 1-3 (supports the correspondence, not the proof)",
        "trusted_base": ["Value is Copy: the model's List α stands for Box<[Value]>; MaybeUninit storage of BoundedStack modelled as List + drop log"],
        "assumptions": ["clear_until(h) with h above the current height is outside the property (guard in vs_refines); the model keeps the stale-slot behaviour and is still compared with the code there"],
        "partial": "",
        "technique": "Lean 4 refinement proof (model of value_stack.rs/bounded_stack.rs refines a List spec for all capacities and op sequences) + differential correspondence",
        "level_text": "Proved in Lean for every capacity >= 1 and every operation sequence: the code-shaped model of ValueStack refines a List-based bounded stack (vs_refines, by the one-step lemma step_refines and induction), the height invariant count <= cap-1 holds in every reachable state, and BoundedStack accounts for every pushed element exactly once (bs_accounting, bs_drop_once). The model is tied to the Rust by the stack/bstack correspondence engines and a Vec-based oracle runs on the real code.",
        "level_note": "Trusted: Lean kernel; the hand-written model corresponds to value_stack.rs/bounded_stack.rs only as far as the sampled (thorough: partly exhaustive) differential run shows; memory safety of the MaybeUninit/ptr code is not proved.",
        "design_ref": "DESIGN.md 7 (C14)",
    },
}

# properties not claimed yet (kept current; moved into PROPS as their checks land)
NOT_YET = {
    "C01": "check under construction in this session (see DESIGN.md section 9 for the order of work); not yet claimed",
    "C02": "check under construction in this session (see DESIGN.md section 9 for the order of work); not yet claimed",
    "C03": "check under construction in this session (see DESIGN.md section 9 for the order of work); not yet claimed",
    "C04": "check under construction in this session (see DESIGN.md section 9 for the order of work); not yet claimed",
    "C05": "check under construction in this session (see DESIGN.md section 9 for the order of work); not yet claimed",
    "C06": "check under construction in this session (see DESIGN.md section 9 for the order of work); not yet claimed",
    "C07": "check under construction in this session (see DESIGN.md section 9 for the order of work); not yet claimed",
    "C08": "check under construction in this session (see DESIGN.md section 9 for the order of work); not yet claimed",
    "C09": "check under construction in this session (see DESIGN.md section 9 for the order of work); not yet claimed",
    "C10": "check under construction in this session (see DESIGN.md section 9 for the order of work); not yet claimed",
    "C11": "check under construction in this session (see DESIGN.md section 9 for the order of work); not yet claimed",
    "C12": "check under construction in this session (see DESIGN.md section 9 for the order of work); not yet claimed",
    "C13": "check under construction in this session (see DESIGN.md section 9 for the order of work); not yet claimed",
    "C15": "check under construction in this session (see DESIGN.md section 9 for the order of work); not yet claimed",
    "C16": "check under construction in this session (see DESIGN.md section 9 for the order of work); not yet claimed",
    "C17": "check under construction in this session (see DESIGN.md section 9 for the order of work); not yet claimed",
    "C18": "check under construction in this session (see DESIGN.md section 9 for the order of work); not yet claimed",
    "C19": "check under construction in this session (see DESIGN.md section 9 for the order of work); not yet claimed",
}

