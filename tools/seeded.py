#!/usr/bin/env python3
"""Confirm a seeded change (in a scratch worktree) and run ./check against it.

  seeded.py confirm <outdir/N> <worktree>      suite passes with patch; demo fails with / passes without
  seeded.py check <seeded/<id>> <Cxx> [tier]   apply to /repo, run ./check, revert
"""
import json, os, subprocess, sys, shutil

def sh(cmd, cwd=None):
    p = subprocess.run(cmd, cwd=cwd, shell=True, stdout=subprocess.PIPE, stderr=subprocess.STDOUT, text=True)
    return p.returncode, p.stdout

def confirm(src, wt):
    patch = os.path.abspath(os.path.join(src, "patch.diff"))
    demo = os.path.abspath(os.path.join(src, "demo.rs"))
    sh("git checkout -- . && git clean -fdq cao-lang/tests", wt)
    os.makedirs(os.path.join(wt, "cao-lang/tests"), exist_ok=True)
    shutil.copy(demo, os.path.join(wt, "cao-lang/tests/seeded_demo.rs"))
    rc0, out0 = sh("cargo test -p cao-lang --offline --test seeded_demo 2>&1 | tail -15", wt)
    clean_ok = "test result: ok" in out0
    rc, o = sh(f"git apply {patch}", wt)
    if rc != 0:
        print("patch does not apply", o); return False
    rc1, out1 = sh("cargo test -p cao-lang --offline --test seeded_demo 2>&1 | tail -15", wt)
    demo_fails = "test result: ok" not in out1
    os.remove(os.path.join(wt, "cao-lang/tests/seeded_demo.rs"))
    rc2, out2 = sh("cargo test -p cao-lang --offline 2>&1 | grep -E '^test result|error\\[' ", wt)
    suite_ok = out2.count("test result: ok") >= 6 and "FAILED" not in out2 and "error[" not in out2
    sh("git checkout -- . && git clean -fdq cao-lang/tests", wt)
    print(f"{src}: demo passes on clean={clean_ok} demo fails with patch={demo_fails} suite passes with patch={suite_ok}")
    return clean_ok and demo_fails and suite_ok

def check(sd, pid, tier="quick"):
    patch = os.path.abspath(os.path.join(sd, "patch.diff"))
    rc, o = sh(f"git -C /repo apply {patch}")
    if rc != 0:
        print("patch does not apply to /repo", o); return None
    try:
        rc, out = sh(f"./check {pid} {tier}", "/verif")
    finally:
        sh("git -C /repo checkout -- .")
        # leave the harness binary built from the unchanged tree again
        sh("cargo build --offline", "/verif/harness")
    lines = [l for l in out.splitlines() if l.startswith(("VIOLATION", "OK", "KNOWN"))]
    print(f"{sd} vs {pid}: rc={rc}", " | ".join(lines)[:400])
    return rc, lines

if __name__ == "__main__":
    if sys.argv[1] == "confirm":
        sys.exit(0 if confirm(sys.argv[2], sys.argv[3]) else 1)
    else:
        r = check(sys.argv[2], sys.argv[3], *(sys.argv[4:5]))
        sys.exit(0)
