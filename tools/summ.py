#!/usr/bin/env python3
"""Compact summary of a harness run JSON (stdin)."""
import json,sys
d=json.load(sys.stdin)
print(d['engine'],'cases',d['evaluations'],'spec_fail',len(d['spec_failures']),'model_fail',len(d['model_failures']),'skipped',d['tags'].get('skipped-after-crashes',0))
def short(ops):
    ops=[o.split(' ',1)[1] if ' ' in o else o for o in ops]
    s=' ; '.join(ops)
    return s if len(s)<400 else s[:200]+' ... '+s[-150:]
for kind in ('spec_failures','model_failures'):
    for f in d[kind][:int(sys.argv[1]) if len(sys.argv)>1 else 3]:
        print(' ',kind[:5].upper(),'|',short(f['ops']),'| op=',f['op'],'| impl=',(f['impl'] or '')[:120],'| other=',(f['other'] or '')[:120])
if len(sys.argv)>2: print(d['tags'])
