import CaoModel.Stack
import CaoModel.Value
import CaoModel.Driver.StackEngine
