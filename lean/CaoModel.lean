import CaoModel.Stack
import CaoModel.Value
import CaoModel.Driver.StackEngine
import CaoModel.Hash
import CaoModel.OpenAddr
import CaoModel.HashMap
import CaoModel.HandleTable
import CaoModel.Driver.MapEngine
