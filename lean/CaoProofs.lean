import CaoProofs.Lemmas.OpenAddr
import CaoProofs.Lemmas.OpenAddrRefine
import CaoProofs.Props.C12
import CaoProofs.Props.C13
import CaoProofs.Props.C14
import CaoProofs.Props.C19
