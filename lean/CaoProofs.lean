import CaoProofs.Props.C02
import CaoProofs.Props.C05
import CaoProofs.Props.C07
import CaoProofs.Props.C12
import CaoProofs.Props.C13
import CaoProofs.Props.C14
import CaoProofs.Props.C16
import CaoProofs.Props.C19
