import CaoModel.Driver.StackEngine
import CaoModel.Driver.MapEngine
import CaoModel.Driver.ValueEngine
import CaoModel.Driver.CompileEngine
import CaoModel.Driver.VmEngine
import CaoModel.Driver.ModEngine
import CaoModel.Driver.SemEngine
import CaoModel.Driver.TraceEngine
open Cao Cao.Driver

structure DState where
  stack : Option (VStack Val) := none
  bstack : Option (BStack Nat) := none
  hm : HmState := {}
  ht : HtState := {}
  tbl : TblState := {}
  vm : VmEngState := {}
  mod : ModState := {}

def step (d : DState) (line : String) : DState × String :=
  match line.trimAscii.toString.splitOn " " with
  | "stack" :: args => let (s, o) := stackStep d.stack args; ({ d with stack := s }, o)
  | "bstack" :: args => let (s, o) := bstackStep d.bstack args; ({ d with bstack := s }, o)
  | "hm" :: args => let (s, o) := hmStep d.hm args; ({ d with hm := s }, o)
  | "val" :: args => (d, valStep args)
  | "cmp" :: args => (d, cmpStep args)
  | "sem" :: args => (d, semStep args)
  | "nat" :: args => (d, natStep args)
  | "trc" :: args => (d, trcStep d.vm args)
  | "mod" :: args => let (s, o) := modStep d.mod args; ({ d with mod := s }, o)
  | "vm" :: args => let (s, o) := vmStep d.vm args; ({ d with vm := s }, o)
  | "tbl" :: args => let (s, o) := tblStep d.tbl args; ({ d with tbl := s }, o)
  | "ht" :: args => let (s, o) := htStep d.ht args; ({ d with ht := s }, o)
  | _ => (d, "bad-op")

partial def loop (h : IO.FS.Stream) (out : IO.FS.Stream) (d : DState) : IO Unit := do
  let line ← h.getLine
  if line.isEmpty then return ()
  let (d', o) := step d line
  out.putStrLn o
  loop h out d'

def main : IO Unit := do
  let out ← IO.getStdout
  loop (← IO.getStdin) out {}
  out.flush
