import CaoModel.Driver.StackEngine
open Cao Cao.Driver

structure DState where
  stack : Option (VStack Val) := none
  bstack : Option (BStack Nat) := none

def step (d : DState) (line : String) : DState × String :=
  match line.trimAscii.toString.splitOn " " with
  | "stack" :: args => let (s, o) := stackStep d.stack args; ({ d with stack := s }, o)
  | "bstack" :: args => let (s, o) := bstackStep d.bstack args; ({ d with bstack := s }, o)
  | _ => (d, "bad-op")

partial def loop (h : IO.FS.Stream) (out : IO.FS.Stream) (d : DState) : IO Unit := do
  let line ← h.getLine
  if line.isEmpty then return ()
  let (d', o) := step d line
  out.putStrLn o
  loop h out d'

def main : IO Unit := do
  let out ← IO.getStdout
  loop (← IO.getStdin) out {}
  out.flush
