import CaoProofs.Props.C01R
/-!
# C01, fragment F5: F4 plus static calls of functions of the program, and `Return`

A static call `Call g args` may be the value of `SetVar`, `SetGlobalVar` and `Return`. The compiler
emits the arguments, `FunctionPointer handle arity` (which allocates a function object on the heap;
the allocation may run the collector) and `CallFunction`, which pushes a call frame whose stack
offset is the position of the first argument: the arguments are the first locals of the callee,
the *last* declared parameter being the first argument. `Return` (explicit, or the `ScalarNil; Return`
epilogue) pops the frame, cuts the value stack back to the offset and pushes the result.
-/

namespace Cao.C01
open Cao Cao.Vm Cao.Sim Cao.Compiler

/-! ## allocation of a function object: the collector frees everything (nothing is reachable) -/

/-- no value of the list is an object -/
def NoObj (l : List Val) : Prop := ∀ v ∈ l, Scalar v

theorem filterMap_scalar_nil (f : Val → Option Nat) (hf : ∀ v, Scalar v → f v = none) {l : List Val}
    (h : NoObj l) : l.filterMap f = [] := by
  induction l with
  | nil => rfl
  | cons v l ih =>
    rw [List.filterMap_cons, hf v (h v (List.mem_cons_self ..))]
    exact ih fun w hw => h w (List.mem_cons_of_mem _ hw)

theorem markLoop_nil (h : Heap) (n : Nat) : markLoop h n [] [] = [] := by
  cases n <;> rfl

theorem chargeSum_foldl (objs : List (Nat × Obj)) (k : Nat) :
    objs.foldl (fun n p => n + Heap.chargeOf p.2) k = k + chargeSum objs := by
  unfold chargeSum
  induction objs generalizing k with
  | nil => simp
  | cons p l ih =>
    simp only [List.foldl_cons]
    rw [ih, ih (0 + _)]
    omega

theorem chargeSum_append (a b : List (Nat × Obj)) : chargeSum (a ++ b) = chargeSum a + chargeSum b := by
  unfold chargeSum
  rw [List.foldl_append, chargeSum_foldl]
  rfl

/-- a collection when no root is an object: every object is freed -/
theorem gc_noObj (s : VmState) (hr : NoObj (roots s)) :
    gc s = { s with heap := { s.heap with objs := [] },
                    mem := { s.mem with allocated := s.mem.allocated - chargeSum s.heap.objs },
                    gcRuns := s.gcRuns + 1 } := by
  unfold gc reachable
  rw [filterMap_scalar_nil _ (fun v hv => by cases v <;> first | rfl | exact absurd hv id) hr]
  simp only [markLoop_nil]
  have hp : s.heap.objs.partition (fun p => ([] : List Nat).contains p.1) = ([], s.heap.objs) := by
    rw [List.partition_eq_filter_filter]
    simp
  simp only [hp]
  rfl



/-- the state after the charge has been added and the allocation counted -/
def chargedState (s : VmState) (c : Nat) : VmState :=
  { s with mem := { s.mem with allocated := s.mem.allocated + c }, allocIndex := s.allocIndex + 1,
           forcedGcs := s.forcedGcs + (if s.sched.forced s.allocIndex then 1 else 0) }

theorem roots_charged (s : VmState) (c : Nat) : roots (chargedState s c) = roots s := rfl

theorem runM_allocBytes {s : VmState} {c : Nat} (hr : NoObj (roots s))
    (hacc : s.mem.allocated = chargeSum s.heap.objs) (hc : c ≤ s.mem.limit) :
    ∃ s', runM (allocBytes c) s = (.ok (), s') ∧
      s' = { s with heap := s'.heap, mem := s'.mem, gcRuns := s'.gcRuns, allocIndex := s'.allocIndex,
                    forcedGcs := s'.forcedGcs } ∧
      s'.mem.limit = s.mem.limit ∧ s'.heap.next = s.heap.next ∧
      s'.mem.allocated = chargeSum s'.heap.objs + c ∧ (∀ p ∈ s'.heap.objs, p ∈ s.heap.objs) := by
  have e1 : runM (allocBytes c) s =
      runM (do
        if s.sched.forced s.allocIndex || (chargedState s c).mem.allocated > (chargedState s c).mem.nextGc ||
            (chargedState s c).mem.allocated > (chargedState s c).mem.limit then
          let s' := gc (chargedState s c)
          set { s' with mem := { s'.mem with nextGc := max (s'.mem.allocated * 2) (Mem.initialGc s'.mem.limit) } }
        let s ← get
        if s.mem.allocated > s.mem.limit then
          set { s with mem := { s.mem with allocated := s.mem.allocated - c } }
          throwE .outOfMemory) (chargedState s c) := by
    unfold allocBytes
    rw [runM_bind, runM_modify]
    dsimp only
    rw [runM_bind, runM_get]
    dsimp only
    rw [runM_bind, runM_set]
    dsimp only
    rw [runM_bind, runM_get]
    rfl
  rw [e1]
  by_cases hcond : (s.sched.forced s.allocIndex || decide ((chargedState s c).mem.allocated > (chargedState s c).mem.nextGc) ||
      decide ((chargedState s c).mem.allocated > (chargedState s c).mem.limit)) = true
  · rw [if_pos hcond, runM_bind, runM_set]
    dsimp only
    rw [gc_noObj _ (by rw [roots_charged]; exact hr)]
    rw [runM_bind, runM_get]
    dsimp only
    have hall : (chargedState s c).mem.allocated - chargeSum (chargedState s c).heap.objs = c := by
      show s.mem.allocated + c - chargeSum s.heap.objs = c
      omega
    rw [if_neg (by
      show ¬ ((chargedState s c).mem.allocated - chargeSum (chargedState s c).heap.objs > s.mem.limit)
      rw [hall]; omega)]
    refine ⟨_, rfl, rfl, rfl, rfl, ?_, fun p hp => by cases hp⟩
    show (chargedState s c).mem.allocated - chargeSum (chargedState s c).heap.objs = chargeSum [] + c
    rw [hall]; simp [chargeSum]
  · rw [if_neg hcond]
    have hle : ¬ ((chargedState s c).mem.allocated > (chargedState s c).mem.limit) := by
      intro h
      apply hcond
      simp only [Bool.or_eq_true, decide_eq_true_eq]
      exact Or.inr h
    show ∃ s', runM (do
        let s ← get
        if s.mem.allocated > s.mem.limit then
          set { s with mem := { s.mem with allocated := s.mem.allocated - c } }
          throwE .outOfMemory) (chargedState s c) = _ ∧ _
    rw [runM_bind, runM_get]
    dsimp only
    rw [if_neg hle]
    refine ⟨_, rfl, rfl, rfl, rfl, ?_, fun p hp => hp⟩
    show s.mem.allocated + c = chargeSum s.heap.objs + c
    rw [hacc]


section
variable {P : Prog} {re : Reenter} {ip : Nat} {s : VmState}

theorem runM_newObject (o : Obj) (s : VmState) :
    runM (newObject o) s = (.ok s.heap.next,
      { s with heap := { objs := s.heap.objs ++ [(s.heap.next, o)], next := s.heap.next + 1 },
               guards := s.heap.next :: s.guards }) := rfl

theorem runM_initSimple {o : Obj} {s s1 : VmState} (h : runM (allocBytes Heap.objCharge) s = (.ok (), s1)) :
    runM (initSimple o) s = (.ok s1.heap.next,
      { s1 with heap := { objs := s1.heap.objs ++ [(s1.heap.next, o)], next := s1.heap.next + 1 },
                guards := s1.heap.next :: s1.guards }) := by
  unfold initSimple
  rw [runM_bind, h]
  rfl

/-- the state after a function object has been allocated in `s1` and pushed -/
def fnPtrState (s1 : VmState) (o : Obj) (st' : VStack Val) : VmState :=
  { s1 with heap := { objs := s1.heap.objs ++ [(s1.heap.next, o)], next := s1.heap.next + 1 },
            guards := (s1.heap.next :: s1.guards).erase s1.heap.next, stack := st' }

/-- `FunctionPointer h a`: a function object is allocated and pushed -/
theorem step_functionPointer {s1 : VmState} {st' : VStack Val}
    (h : P.bytecode.getD ip 0 = Compiler.op.functionPointer)
    (ha : runM (allocBytes Heap.objCharge) s = (.ok (), s1))
    (hp : s1.stack.push (.obj s1.heap.next) = (st', .ok ())) :
    runM (step P re ip) s = (.ok { ip := ip + 1 + 8 },
      fnPtrState s1 (.fn (UInt32.ofNat (rdU32 P.bytecode (ip + 1))) (UInt32.ofNat (rdU32 P.bytecode (ip + 1 + 4)))) st') := by
  unfold runM
  step_unfold h
  rw [runM_bind, runM_initSimple ha]
  dsimp only
  rw [runM_bind, runM_push (by exact hp)]
  dsimp only
  rw [runM_bind]
  rfl

/-- the frames after a call from the frame `lastF`: its return address is recorded, the callee's
    frame is pushed -/
def callFrames (fs : List Frame) (lastF : Frame) (src off : Nat) : List Frame :=
  fs ++ [{ lastF with dst := src + 1 }] ++ [{ src := src, dst := src + 1, stackOffset := off, closure := none }]

/-- `CallFunction` on a function object -/
theorem step_callFunction {a pos : Nat} {h ar h' : UInt32} {lastF : Frame}
    (hop : P.bytecode.getD ip 0 = Compiler.op.callFunction)
    (hpop : s.stack.pop.2 = .obj a) (hget : s.heap.get a = some (.fn h ar))
    (hfr : s.frames.getLast? = some lastF)
    (hcount : ar.toNat ≤ s.stack.pop.1.count) (hcap : s.frames.length < s.frameCap)
    (hlab : P.labels.find? (fun l => l.1 == h) = some (h', pos)) :
    runM (step P re ip) s = (.ok { ip := pos },
      { s with stack := s.stack.pop.1,
               frames := callFrames s.frames.dropLast lastF ip (s.stack.pop.1.count - ar.toNat) }) := by
  unfold runM
  step_unfold hop
  rw [runM_bind, runM_pop]
  dsimp only
  rw [hpop]
  dsimp only
  rw [runM_bind, runM_get]
  dsimp only
  rw [hget]
  dsimp only
  unfold step.callScript
  rw [runM_bind, runM_get]
  dsimp only
  have hne : s.frames.isEmpty = false := by
    cases hf : s.frames with
    | nil => rw [hf] at hfr; cases hfr
    | cons x l => rfl
  rw [hne]
  simp only [Bool.false_eq_true, if_false]
  rw [if_neg (by omega), if_neg (by omega)]
  simp only [hfr, Option.getD_some]
  rw [runM_bind, runM_set]
  dsimp only
  rw [hlab]
  rfl

theorem closeUpvalues_nil {s : VmState} (h : s.openUpvalues = []) (top : Nat) :
    runM (closeUpvalues top) s = (.ok (), s) := by
  unfold closeUpvalues
  rw [runM_bind, runM_get]
  dsimp only
  rw [h]
  simp only [closeUpvalues.go]
  rw [runM_set]
  congr 1
  rw [← h]

/-- `Return`: the frame is popped, the stack is cut back to its offset, the value on top is pushed
    for the caller -/
theorem step_ret {fr caller : Frame} {st' : VStack Val}
    (hop : P.bytecode.getD ip 0 = Compiler.op.ret)
    (hfr : s.frames.getLast? = some fr) (hup : s.openUpvalues = [])
    (hcaller : s.frames.dropLast.getLast? = some caller)
    (hp : (s.stack.clearUntil fr.stackOffset).1.push (s.stack.clearUntil fr.stackOffset).2 = (st', .ok ())) :
    runM (step P re ip) s = (.ok { ip := caller.dst }, { s with frames := s.frames.dropLast, stack := st' }) := by
  unfold runM
  step_unfold hop
  rw [runM_bind, runM_get]
  dsimp only
  rw [hfr]
  dsimp only
  rw [runM_bind, runM_set]
  dsimp only
  rw [runM_bind, closeUpvalues_nil (by exact hup)]
  dsimp only
  rw [runM_bind, runM_get]
  dsimp only
  rw [runM_bind, runM_set]
  dsimp only
  rw [runM_bind, runM_get]
  dsimp only
  rw [hcaller]
  dsimp only
  rw [runM_bind, runM_push (by exact hp)]
  rfl

end

/-! ## the three instructions, on the abstract stack -/

theorem grel_noObj {F : List (UInt32 × Nat)} {N : String → Prop} {g : List (String × Val)} {vg : List Val}
    (h : GRel F N g vg) : NoObj vg := by
  intro v hv
  obtain ⟨id, hid⟩ := List.getElem?_of_mem hv
  by_cases hn : v = .nil
  · rw [hn]; trivial
  · obtain ⟨n, hl, _⟩ := h.vm_sem id v hid hn
    exact (h.sem_vm n v hl).2.1

theorem _root_.Cao.Sim.StackIs.contents {st : VStack Val} {cap : Nat} {l : List Val} (h : StackIs st cap l) :
    st.contents = l.reverse := h.live

theorem _root_.Cao.Sim.StackIs.last {st : VStack Val} {cap : Nat} {l : List Val} {v : Val} (h : StackIs st cap (v :: l)) :
    st.last = v := by
  have := h.pop.1
  unfold VStack.pop at this
  have hc := h.count
  rw [List.length_cons] at hc
  rw [if_neg (by omega)] at this
  unfold VStack.last
  rw [if_pos (by omega)]
  exact this

theorem _root_.Cao.Sim.StackIs.clearUntil {st : VStack Val} {cap : Nat} {top below : List Val} (h : StackIs st cap (top ++ below)) :
    StackIs (st.clearUntil below.length).1 cap below := by
  obtain ⟨hc, hcap, hl⟩ := h
  have hcnt : (st.clearUntil below.length).1.count = below.length := by
    simp only [VStack.clearUntil]; rw [hc, List.length_append]; split <;> omega
  refine ⟨hcnt, hcap, ?_⟩
  show (st.clearUntil below.length).1.data.take (st.clearUntil below.length).1.count = below.reverse
  rw [hcnt]
  show st.data.take below.length = below.reverse
  have : st.data.take below.length = (st.data.take st.count).take below.length := by
    rw [List.take_take]; congr 1
    rw [hc, List.length_append]; omega
  rw [this, hl, List.reverse_append]
  simp

section reachC
variable {P : Prog} {C W : Nat}

/-- the roots of the collector are scalars when the stack and the globals are -/
theorem side_noObj {vs : VmState} {cap : Nat} {fs : List Frame} {rest : List Val} {k : Nat} {stk : List Val}
    (hsd : Side C W vs cap fs rest k) (hst : StackIs vs.stack cap stk) (hsc : NoObj stk) (hg : NoObj vs.globals) :
    NoObj (roots (tick vs)) := by
  obtain ⟨cur, hf1, _, hf3⟩ := hsd.frames
  have hcl : (vs.frames.filterMap (·.closure)) = [] := by
    rw [hf1, List.filterMap_append]
    have h1 : fs.filterMap (·.closure) = [] := by
      apply List.filterMap_eq_nil_iff.2
      intro f hf; exact hsd.noClos f hf
    rw [h1]; simp [hf3]
  intro v hv
  unfold roots at hv
  have e1 : (tick vs).stack.contents = stk.reverse := hst.contents
  have e2 : (tick vs).frames = vs.frames := rfl
  have e3 : (tick vs).openUpvalues = [] := hsd.ups
  have e4 : (tick vs).guards = [] := hsd.guards
  have e5 : (tick vs).globals = vs.globals := rfl
  rw [e1, e2, e3, e4, e5, hcl] at hv
  simp only [List.map_nil, List.append_nil, List.mem_append, List.mem_reverse] at hv
  rcases hv with hv | hv
  · exact hsc v hv
  · exact hg v hv

/-- `FunctionPointer h a` -/
theorem reach_functionPointer {ip : Nat} {vs : VmState} {cap : Nat} {fs : List Frame} {rest : List Val} {k : Nat}
    {stk : List Val} (hin : ip < P.bytecode.size) (hop : P.bytecode.getD ip 0 = Compiler.op.functionPointer)
    (hC : 0 < C) (hsd : Side C W vs cap fs rest k) (hg : NoObj vs.globals)
    (hst : StackIs vs.stack cap stk) (hsc : NoObj stk) (hroom : stk.length + 1 < cap) :
    ∃ vs' a, Reach P 1 ip vs (ip + 9) vs' ∧ StackIs vs'.stack cap (.obj a :: stk) ∧
      vs'.heap.get a = some (.fn (UInt32.ofNat (rdU32 P.bytecode (ip + 1))) (UInt32.ofNat (rdU32 P.bytecode (ip + 5)))) ∧
      Pres C W cap fs rest k k vs vs' ∧ vs'.globals = vs.globals := by
  obtain ⟨s1, ha, e1, hlim, hnext, hacc, hsub⟩ := runM_allocBytes (s := tick vs) (c := Heap.objCharge)
    (side_noObj hsd hst hsc hg) hsd.acc (hsd.mem hC)
  have hs1 : s1.stack = vs.stack := by rw [e1]; rfl
  obtain ⟨st', hp, hst'⟩ := hst.push (.obj s1.heap.next) hroom
  have hstep := fun re => step_functionPointer (P := P) (re := re) (ip := ip) (s := tick vs) (s1 := s1) (st' := st') hop ha
    (by rw [hs1]; exact hp)
  refine ⟨_, s1.heap.next, Reach.one ⟨hin, ?_, hstep⟩, hst', ?_, ⟨?_, fun h => ?_⟩, ?_⟩
  · show s1.remaining = vs.remaining - 1
    rw [e1]; rfl
  · -- the new object is found: its address is fresh
    show ({ objs := s1.heap.objs ++ [(s1.heap.next, _)], next := s1.heap.next + 1 } : Heap).get s1.heap.next = _
    unfold Heap.get
    rw [List.find?_append]
    have hnone : s1.heap.objs.find? (fun p => p.1 == s1.heap.next) = none := by
      apply List.find?_eq_none.2
      intro p hp
      have := hsd.hwf p (hsub p hp)
      have hn : s1.heap.next = vs.heap.next := hnext
      simp only [beq_iff_eq]
      omega
    rw [hnone]
    simp
  · show s1.hostLog = vs.hostLog
    rw [e1]; rfl
  · -- `Side` for the new state
    have ef : s1.frames = vs.frames := by rw [e1]; rfl
    have eg : s1.guards = vs.guards := by rw [e1]; rfl
    have eu : s1.openUpvalues = vs.openUpvalues := by rw [e1]; rfl
    have ec : s1.frameCap = vs.frameCap := by rw [e1]; rfl
    refine ⟨by show ∃ cur, s1.frames = _ ∧ _; rw [ef]; exact h.frames, h.noClos, ?_, ?_, ?_,
      by show s1.openUpvalues = []; rw [eu]; exact h.ups, h.restS,
      by show _ ≤ s1.frameCap; rw [ec]; exact h.fdepth, h.sdepth, fun hc => by
        show _ ≤ s1.mem.limit; rw [hlim]; exact h.mem hc⟩
    · show s1.mem.allocated = chargeSum (s1.heap.objs ++ [(s1.heap.next, _)])
      rw [chargeSum_append, hacc]
      simp [chargeSum, Heap.chargeOf]
    · intro p hp
      show p.1 < s1.heap.next + 1
      rcases List.mem_append.1 hp with hp | hp
      · have := hsd.hwf p (hsub p hp)
        have hn : s1.heap.next = vs.heap.next := hnext
        omega
      · simp only [List.mem_singleton] at hp; rw [hp]; exact Nat.lt_succ_self _
    · show (s1.heap.next :: s1.guards).erase s1.heap.next = []
      rw [eg, h.guards]; simp
  · show s1.globals = vs.globals
    rw [e1]; rfl

/-- `CallFunction` on a function object with `args.length` arguments on the stack: a frame for the
    callee is pushed, its locals start at the first argument -/
theorem reach_callFunction {ip a pos : Nat} {h ar h' : UInt32} {vs : VmState} {cap : Nat} {fs : List Frame}
    {rest : List Val} {k : Nat} {args below : List Val}
    (hin : ip < P.bytecode.size) (hop : P.bytecode.getD ip 0 = Compiler.op.callFunction)
    (hsd : Side C W vs cap fs rest k) (hk : k < C)
    (hst : StackIs vs.stack cap (.obj a :: (args ++ below))) (hget : vs.heap.get a = some (.fn h ar))
    (har : ar.toNat = args.length) (hlab : P.labels.find? (fun l => l.1 == h) = some (h', pos))
    (hbelow : NoObj below) (hroom : below.length + (C - (k + 1) + 1) * W < cap) :
    ∃ vs' cur, Reach P 1 ip vs pos vs' ∧ StackIs vs'.stack cap (args ++ below) ∧
      cur.stackOffset = rest.length ∧ cur.closure = none ∧ cur.dst = ip + 1 ∧
      Side C W vs' cap (fs ++ [cur]) below (k + 1) ∧ vs'.hostLog = vs.hostLog ∧ vs'.globals = vs.globals := by
  obtain ⟨cur, hf1, hf2, hf3⟩ := hsd.frames
  obtain ⟨hv, hst1⟩ := hst.pop
  have hlast : (tick vs).frames.getLast? = some cur := by
    show vs.frames.getLast? = some cur
    rw [hf1]; simp
  have hdl : vs.frames.dropLast = fs := by rw [hf1]; simp
  have hcnt : (tick vs).stack.pop.1.count = args.length + below.length := by
    show vs.stack.pop.1.count = _
    rw [hst1.count, List.length_append]
  have hstep := fun re => step_callFunction (P := P) (re := re) (ip := ip) (s := tick vs) (a := a) (pos := pos)
    (h := h) (ar := ar) (h' := h') (lastF := cur) hop hv hget hlast (by rw [hcnt, har]; omega)
    (by
      show vs.frames.length < vs.frameCap
      have := hsd.fdepth
      rw [hf1]; simp only [List.length_append, List.length_singleton]; omega) hlab
  refine ⟨_, { cur with dst := ip + 1 }, Reach.one ⟨hin, rfl, hstep⟩, hst1, hf2, hf3, rfl, ?_, rfl, rfl⟩
  refine ⟨⟨{ src := ip, dst := ip + 1, stackOffset := (tick vs).stack.pop.1.count - ar.toNat, closure := none }, ?_, ?_, rfl⟩,
    ?_, hsd.acc, hsd.hwf, hsd.guards, hsd.ups, hbelow, ?_, hroom, hsd.mem⟩
  · show callFrames (tick vs).frames.dropLast cur ip _ = _
    unfold callFrames
    show (vs.frames.dropLast ++ _) ++ _ = _
    rw [hdl]
  · show (tick vs).stack.pop.1.count - ar.toNat = below.length
    rw [hcnt, har]; omega
  · intro f hf
    rcases List.mem_append.1 hf with hf | hf
    · exact hsd.noClos f hf
    · simp only [List.mem_singleton] at hf; rw [hf]; exact hf3
  · show (fs ++ [_]).length + 1 + (C - (k + 1)) ≤ vs.frameCap
    have := hsd.fdepth
    simp only [List.length_append, List.length_singleton]; omega

/-- `Return` in the frame of a callee: back to the return address of the caller with the value on top
    of the caller's stack -/
theorem reach_ret {ip : Nat} {vs : VmState} {cap : Nat} {fs : List Frame} {caller : Frame} {below junk : List Val}
    {k : Nat} {v : Val} (hin : ip < P.bytecode.size) (hop : P.bytecode.getD ip 0 = Compiler.op.ret)
    (hsd : Side C W vs cap (fs ++ [caller]) below k) (hst : StackIs vs.stack cap (v :: (junk ++ below)))
    (hroom : below.length + 1 < cap) :
    ∃ vs', Reach P 1 ip vs caller.dst vs' ∧ StackIs vs'.stack cap (v :: below) ∧
      vs' = { vs with frames := fs ++ [caller], stack := vs'.stack, remaining := vs'.remaining,
                      dispatches := vs'.dispatches } := by
  obtain ⟨cur, hf1, hf2, hf3⟩ := hsd.frames
  have hlast : (tick vs).frames.getLast? = some cur := by
    show vs.frames.getLast? = some cur
    rw [hf1]; simp
  have hdl : vs.frames.dropLast = fs ++ [caller] := by rw [hf1]; simp
  have hcl : StackIs (vs.stack.clearUntil below.length).1 cap below :=
    StackIs.clearUntil (top := v :: junk) (below := below) hst
  obtain ⟨st', hp, hst'⟩ := hcl.push v hroom
  have hstep := fun re => step_ret (P := P) (re := re) (ip := ip) (s := tick vs) (fr := cur) (caller := caller)
    (st' := st') hop hlast hsd.ups (by show vs.frames.dropLast.getLast? = _; rw [hdl]; simp)
    (by
      show (vs.stack.clearUntil cur.stackOffset).1.push (vs.stack.clearUntil cur.stackOffset).2 = _
      rw [hf2]
      have : (vs.stack.clearUntil below.length).2 = v := hst.last
      rw [this]; exact hp)
  refine ⟨_, Reach.one ⟨hin, rfl, hstep⟩, hst', ?_⟩
  show ({ tick vs with frames := (tick vs).frames.dropLast, stack := st' } : VmState) = _
  have : (tick vs).frames.dropLast = fs ++ [caller] := hdl
  rw [this]
  rfl

end reachC

/-! ## the arguments of a call -/

section args
variable {P : Prog} {F : List (UInt32 × Nat)} {N : String → Prop} {cx : Sem.Ctx} (hout : cx.outer = [])
include hout

/-- the arguments are evaluated left to right and stay on the stack -/
theorem evalList_simS (S : List Slot) (env : Sem.Env) (henv : LookRel env S) :
    ∀ (args : List Card), isExprs args = true → ∀ (fuel : Nat) (σ σ' : Sem.St) (env' : Sem.Env) (vals : List Val)
      (pc pc' : Nat),
      Sem.evalListWith (Sem.eval cx fuel) env σ args = (σ', env', .ok vals) →
      ECodesL P.bytecode F (ctxOf S) args pc pc' → pc' ≤ P.bytecode.size →
      σ' = σ ∧ env = env' ∧ vals.length = args.length ∧ ∃ n, n ≤ pc' - pc ∧
        ∀ (vs : VmState) (cap : Nat) (stk : List Val) (off : Nat), StackIs vs.stack cap stk →
          stk.length + argsDepth args < cap → GRel F N σ.globals vs.globals → FrameAt vs off → SRel S σ →
          (∃ temps rest, stk = temps ++ (baseOf S σ ++ rest) ∧ rest.length = off) →
          NoObj vals ∧ ∃ vs', Reach P n pc vs pc' vs' ∧ StackIs vs'.stack cap (vals.reverse ++ stk) ∧
            SameRest vs vs' ∧ vs'.globals = vs.globals
  | [] => by
    intro _ fuel σ σ' env' vals pc pc' hev hcode _
    simp only [Sem.evalListWith, Prod.mk.injEq, Sem.Res.ok.injEq] at hev
    obtain ⟨rfl, rfl, rfl⟩ := hev
    simp only [ECodesL] at hcode
    subst hcode
    refine ⟨rfl, rfl, rfl, 0, Nat.zero_le _, fun vs cap stk off hst _ _ _ _ _ => ⟨?_, vs, Reach.refl _ _, ?_,
      SameRest.refl _, rfl⟩⟩
    · intro v hv; cases hv
    · simpa using hst
  | e :: es => by
    intro he fuel σ σ' env' vals pc pc' hev hcode hsz
    simp only [isExprs, Bool.and_eq_true] at he
    simp only [ECodesL] at hcode
    obtain ⟨m, hc1, hc2⟩ := hcode
    have hlt := ecodeL_lt hc1
    have hle := ecodesL_le hc2
    simp only [Sem.evalListWith] at hev
    rcases hc : Sem.eval cx fuel env σ e with ⟨σ1, env1, r1⟩
    rw [hc] at hev
    cases r1 with
    | ok v =>
      simp only at hev
      have hsv := eval_scalarS hout env e he.1 fuel σ σ1 env1 v hc
      obtain ⟨rfl, rfl, n1, hn1, hsim1⟩ := eval_simS (P := P) (F := F) (N := N) hout S env henv e he.1 fuel σ σ1 env1 v pc m hc hc1
        (by omega)
      rcases hcs : Sem.evalListWith (Sem.eval cx fuel) env σ1 es with ⟨σ2, env2, r2⟩
      rw [hcs] at hev
      cases r2 with
      | ok vs' =>
        simp only [Prod.mk.injEq, Sem.Res.ok.injEq] at hev
        obtain ⟨rfl, rfl, rfl⟩ := hev
        obtain ⟨rfl, rfl, hlen, n2, hn2, hsim2⟩ := evalList_simS S env henv es he.2 fuel σ1 σ2 env2 vs' m pc' hcs hc2 hsz
        refine ⟨rfl, rfl, by simp [hlen], n1 + n2, by omega, fun vs cap stk off hst hroom hg hfr hlr hbase => ?_⟩
        simp only [argsDepth] at hroom
        obtain ⟨hs1, vs1, hr1, hst1, hsame1, hg1⟩ := hsim1 vs cap stk off hst (by omega) hg hfr hlr hbase
        obtain ⟨hs2, vs2, hr2, hst2, hsame2, hg2⟩ := hsim2 vs1 cap (v :: stk) off hst1
          (by simp only [List.length_cons]; omega) (by rw [hg1]; exact hg) (hsame1.frameAt hfr) hlr
          (by obtain ⟨temps, rest, ht, ho⟩ := hbase; exact ⟨v :: temps, rest, by rw [ht]; rfl, ho⟩)
        refine ⟨fun x hx => ?_, vs2, hr1.trans hr2 rfl, ?_, hsame1.trans hsame2, by rw [hg2, hg1]⟩
        · rcases List.mem_cons.1 hx with rfl | hx
          · exact hs1
          · exact hs2 x hx
        · simpa using hst2
      | outOfFuel | ret _ | exit | err _ | unspecified _ =>
        simp only [Prod.mk.injEq] at hev
        obtain ⟨_, _, h⟩ := hev
        cases h
    | outOfFuel | ret _ | exit | err _ | unspecified _ =>
      simp only [Prod.mk.injEq] at hev
      obtain ⟨_, _, h⟩ := hev
      cases h

end args

theorem evalList_scalarS {cx : Sem.Ctx} (hout : cx.outer = []) : ∀ (args : List Card), isExprs args = true →
    ∀ (fuel : Nat) (env : Sem.Env) (σ σ' : Sem.St) (env' : Sem.Env) (vals : List Val),
      Sem.evalListWith (Sem.eval cx fuel) env σ args = (σ', env', .ok vals) →
      (∀ (i : Nat) (v : Val), σ.cells[i]? = some v → Scalar v) →
      (∀ (n : String) (v : Val), glookup σ.globals n = some v → Scalar v) → NoObj vals
  | [], _, _, _, _, _, _, _, hev, _, _ => by
    simp only [Sem.evalListWith, Prod.mk.injEq, Sem.Res.ok.injEq] at hev
    obtain ⟨_, _, rfl⟩ := hev
    intro v hv; cases hv
  | e :: es, he, fuel, env, σ, σ', env', vals, hev, h1, h2 => by
    simp only [isExprs, Bool.and_eq_true] at he
    simp only [Sem.evalListWith] at hev
    rcases hc : Sem.eval cx fuel env σ e with ⟨σ1, env1, r1⟩
    rw [hc] at hev
    cases r1 with
    | ok v =>
      simp only at hev
      have hsv := eval_scalarS hout env e he.1 fuel σ σ1 env1 v hc h1 h2
      have hst := eval_state cx e he.1 fuel env σ
      rw [hc] at hst
      simp only at hst
      subst hst
      rcases hcs : Sem.evalListWith (Sem.eval cx fuel) env1 σ1 es with ⟨σ2, env2, r2⟩
      rw [hcs] at hev
      cases r2 with
      | ok vs' =>
        simp only [Prod.mk.injEq, Sem.Res.ok.injEq] at hev
        obtain ⟨_, _, rfl⟩ := hev
        have := evalList_scalarS hout es he.2 fuel env1 σ1 σ2 env2 vs' hcs h1 h2
        intro x hx
        rcases List.mem_cons.1 hx with rfl | hx
        · exact hsv
        · exact this x hx
      | outOfFuel | ret _ | exit | err _ | unspecified _ =>
        simp only [Prod.mk.injEq] at hev
        obtain ⟨_, _, h⟩ := hev
        cases h
    | outOfFuel | ret _ | exit | err _ | unspecified _ =>
      simp only [Prod.mk.injEq] at hev
      obtain ⟨_, _, h⟩ := hev
      cases h

/-! ## the parameters of the callee: its first locals, each in a fresh cell -/

/-- one step of `Sem.bindArgs` -/
def bindStep (acc : Sem.St × List (String × Nat)) (pa : String × Val) : Sem.St × List (String × Nat) :=
  ((Sem.newCell acc.1 pa.2).1, acc.2 ++ [(pa.1, (Sem.newCell acc.1 pa.2).2)])

theorem bindArgs_eq (s : Sem.St) (params : List String) (args : List Val) :
    Sem.bindArgs s params args = (params.reverse.zip args).foldl bindStep (s, []) := rfl

/-- the slots of the parameters after `bindArgs` -/
theorem bind_slots : ∀ (ps : List (String × Val)) (σ : Sem.St) (sc : List (String × Nat)) (S : List Slot),
    SRel S σ → LookRel [sc] S → NoObj (ps.map (·.2)) →
    ∃ S', SRel (S ++ S') (ps.foldl bindStep (σ, sc)).1 ∧ LookRel [(ps.foldl bindStep (σ, sc)).2] (S ++ S') ∧
      ctxOf (S ++ S') = ctxOf S ++ ps.map (fun p => (p.1, (1 : Int))) ∧
      baseOf (S ++ S') (ps.foldl bindStep (σ, sc)).1 = (ps.map (·.2)).reverse ++ baseOf S σ ∧
      SFrame S σ (ps.foldl bindStep (σ, sc)).1 ∧ (ps.foldl bindStep (σ, sc)).1.globals = σ.globals ∧
      (ps.foldl bindStep (σ, sc)).1.calls = σ.calls ∧
      (∀ s ∈ S', ∀ c, s.cell = some c → σ.cells.size ≤ c)
  | [], σ, sc, S, hlr, hlook, _ =>
    ⟨[], by simpa using hlr, by simpa using hlook, by simp, by simp, SFrame.refl _ _, rfl, rfl,
      fun s hs => by cases hs⟩
  | (p, a) :: ps, σ, sc, S, hlr, hlook, hsc => by
    have ha : Scalar a := hsc a (by simp)
    obtain ⟨hlr1, hb1⟩ := hlr.decl p 1 ha
    have hlook1 : LookRel [sc ++ [(p, σ.cells.size)]] (S ++ [.named p 1 σ.cells.size]) :=
      lookRel_decl hlook p 1 σ.cells.size
    obtain ⟨S', h1, h2, h3, h4, h5, h6, h7, h8⟩ := bind_slots ps (Sem.newCell σ a).1 (sc ++ [(p, σ.cells.size)])
      (S ++ [.named p 1 σ.cells.size]) hlr1 hlook1 (fun v hv => hsc v (by simp at hv ⊢; exact Or.inr hv))
    have e : bindStep (σ, sc) (p, a) = ((Sem.newCell σ a).1, sc ++ [(p, σ.cells.size)]) := rfl
    simp only [List.foldl_cons, e]
    refine ⟨.named p 1 σ.cells.size :: S', by simpa using h1, by simpa using h2, ?_, ?_, ?_, h6, h7, ?_⟩
    · have : ctxOf (S ++ Slot.named p 1 σ.cells.size :: S') = ctxOf (S ++ [Slot.named p 1 σ.cells.size] ++ S') := by simp
      rw [this, h3]; simp [ctxOf, Slot.ctx]
    · have : baseOf (S ++ Slot.named p 1 σ.cells.size :: S') = baseOf (S ++ [Slot.named p 1 σ.cells.size] ++ S') := by simp
      rw [this, h4, hb1]; simp
    · exact (SFrame.of_new S σ a).trans_ext (T := [Slot.named p 1 σ.cells.size]) h5 (fun s hs c hc => by
        simp only [List.mem_singleton] at hs; subst hs
        simp only [Slot.cell, Option.some.injEq] at hc; rw [← hc]; exact Nat.le_refl _)
    · intro s hs c hc
      rcases List.mem_cons.1 hs with rfl | hs
      · simp only [Slot.cell, Option.some.injEq] at hc; rw [← hc]; exact Nat.le_refl _
      · have := h8 s hs c hc
        have hsz : σ.cells.size ≤ (Sem.newCell σ a).1.cells.size := by
          show σ.cells.size ≤ (σ.cells.push a).size; simp
        omega

/-! ## static calls in the reference semantics -/

/-- how the body of a callee is run -/
def runBody (f : Nat) : Sem.RunBody := fun cx' env s cards => Sem.execListWith (Sem.exec cx' f) env s cards

theorem eval_call (cx : Sem.Ctx) (f : Nat) (env : Sem.Env) (s : Sem.St) (g : String) (args : List Card) :
    Sem.eval cx (f + 1) env s (.call g args) =
      (match Sem.evalListWith (Sem.eval cx f) env s args with
        | (s, env, .ok vs) =>
          match Sem.resolve cx.fns cx.home g with
          | some i =>
            match cx.fns[i]? with
            | some fd =>
              if vs.length < fd.params.length then ({ s with fewArgs := true }, env, .err .missingArgument) else
              if vs.length != fd.params.length then (s, env, .unspecified "arity mismatch in a static call") else
              match Sem.callFnWith (runBody f) cx.fns s (.inl i) vs with
              | (s, r) => (s, env, r)
            | none => (s, env, .unspecified "bad function index")
          | none => (s, env, .unspecified "unresolved function (compile error)")
        | (s, env, .ret v) => (s, env, .ret v)
        | (s, env, .exit) => (s, env, .exit)
        | (s, env, .err e) => (s, env, .err e)
        | (s, env, .unspecified w) => (s, env, .unspecified w)
        | (s, env, .outOfFuel) => (s, env, .outOfFuel)) := rfl

theorem callFnWith_inl (rb : Sem.RunBody) (fns : Array Sem.FnDef) (s : Sem.St) (i : Nat) (fd : Sem.FnDef)
    (hfd : fns[i]? = some fd) (args : List Val) :
    Sem.callFnWith rb fns s (.inl i) args =
      if s.calls ≥ Sem.callLimit then (s, .outOfFuel) else
      match rb { fns := fns, home := i, outer := [] } [(Sem.bindArgs { s with calls := s.calls + 1 } fd.params args).2]
          (Sem.bindArgs { s with calls := s.calls + 1 } fd.params args).1 fd.cards with
      | (s, _, .ok ()) => (s, .ok .nil)
      | (s, _, .ret v) => (s, .ok v)
      | (s, _, .exit) => (s, .exit)
      | (s, _, .err e) => (s, .err e)
      | (s, _, .unspecified w) => (s, .unspecified w)
      | (s, _, .outOfFuel) => (s, .outOfFuel) := by
  unfold Sem.callFnWith
  simp only [hfd]
  rfl

theorem evalList_benign (cx : Sem.Ctx) : ∀ (es : List Card), isExprs es = true → ∀ (fuel : Nat) (env : Sem.Env) (σ : Sem.St),
    benign (Sem.evalListWith (Sem.eval cx fuel) env σ es).2.2
  | [], _, _, _, _ => trivial
  | e :: es, he, fuel, env, σ => by
    simp only [isExprs, Bool.and_eq_true] at he
    simp only [Sem.evalListWith]
    have h1 := eval_benign cx e he.1 fuel env σ
    rcases hc : Sem.eval cx fuel env σ e with ⟨σ1, env1, r1⟩
    rw [hc] at h1
    cases r1 with
    | ok v =>
      simp only
      have h2 := evalList_benign cx es he.2 fuel env1 σ1
      rcases hc2 : Sem.evalListWith (Sem.eval cx fuel) env1 σ1 es with ⟨σ2, env2, r2⟩
      rw [hc2] at h2
      cases r2 <;> first | trivial | exact h2
    | _ => first | trivial | exact h1

/-- a value never ends with `Return` -/
theorem eval_val_noret (cx : Sem.Ctx) (ft : Feat) {e : Card} (he : isVal ft e = true) (f : Nat) (env : Sem.Env)
    (σ σ1 : Sem.St) (env1 : Sem.Env) (w : Val) : Sem.eval cx f env σ e ≠ (σ1, env1, .ret w) := by
  intro h
  rcases isVal_cases he with he' | ⟨g, args, rfl, hc⟩
  · have := eval_benign cx e he' f env σ
    rw [h] at this
    exact this
  · cases f with
    | zero => rw [eval_zero] at h; cases h
    | succ f =>
      simp only [isCall, Bool.and_eq_true] at hc
      rw [eval_call] at h
      have hb := evalList_benign cx args hc.2 f env σ
      rcases hl : Sem.evalListWith (Sem.eval cx f) env σ args with ⟨s2, env2, r2⟩
      rw [hl] at h hb
      cases r2 with
      | ok vs =>
        simp only at h
        split at h
        · split at h
          · split at h
            · cases h
            · split at h
              · cases h
              · rename_i i _ fd hfd _ _
                rw [callFnWith_inl _ _ _ _ _ hfd] at h
                split at h
                · cases h
                · split at h <;> cases h
          · cases h
        · cases h
      | ret _ => exact hb
      | _ => simp only [Prod.mk.injEq] at h; obtain ⟨_, _, h⟩ := h; cases h

/-! ## statements that end with `Return` -/

section retsim
variable (P : Prog) (F : List (UInt32 × Nat)) (J : Compiler.JumpTable) (N : String → Prop) (cx : Sem.Ctx) (ft : Feat)
  (C W : Nat)

/-- what the VM does for code that executes a `Return`: it continues at the return address of the
    caller `caller`, with the value on top of the caller's part `rest` of the stack; `vsR` is the
    state in which `Return` is executed -/
def VmRetS (S : List Slot) (σ σ' : Sem.St) (v : Val) (pc : Nat) (depth : Nat) : Prop :=
  ∃ n, ∀ (vs : VmState) (cap : Nat) (fs : List Frame) (caller : Frame) (rest : List Val), σ'.calls ≤ C →
    StackIs vs.stack cap (baseOf S σ ++ rest) → S.length + depth ≤ W →
    GRel F N σ.globals vs.globals → Side C W vs cap (fs ++ [caller]) rest σ.calls →
    ∃ vs' vsR, Reach P n pc vs caller.dst vs' ∧ StackIs vs'.stack cap (v :: rest) ∧
      Side C W vsR cap (fs ++ [caller]) rest σ'.calls ∧ vsR.hostLog = vs.hostLog ∧
      vs' = { vsR with frames := fs ++ [caller], stack := vs'.stack, remaining := vs'.remaining,
                       dispatches := vs'.dispatches } ∧
      GRel F N σ'.globals vs'.globals

def CardRetS (f : Nat) (d : Int) (c : Card) (S : List Slot) (env : Sem.Env) : Prop :=
  isStmtS ft d (ctxOf S) c = true → LookRel env S → ∀ (σ σ' : Sem.St) (env' : Sem.Env) (v : Val) (pc pc' : Nat),
    Sem.exec cx f env σ c = (σ', env', .ret v) → SCodeS P.bytecode F J d (ctxOf S) c pc pc' →
    pc' ≤ P.bytecode.size → (∀ n ∈ snames c, N n) → SRel S σ →
      SFrame S σ σ' ∧ SRel S σ' ∧ Scalar v ∧ VmRetS P F N C W S σ σ' v pc (sdepthS c)

def CardsRetS (f : Nat) (d : Int) (cs : List Card) (S : List Slot) (env : Sem.Env) : Prop :=
  isStmtsS ft d (ctxOf S) cs = true → LookRel env S → ∀ (σ σ' : Sem.St) (env' : Sem.Env) (v : Val) (pc pc' : Nat),
    Sem.execListWith (Sem.exec cx f) env σ cs = (σ', env', .ret v) → SCodesS P.bytecode F J d (ctxOf S) cs pc pc' →
    pc' ≤ P.bytecode.size → (∀ n ∈ snamess cs, N n) → SRel S σ →
      SFrame S σ σ' ∧ SRel S σ' ∧ Scalar v ∧ VmRetS P F N C W S σ σ' v pc (sdepthsS cs)

def StmtRetS (f : Nat) : Prop :=
  ∀ (d : Int) (c : Card) (S : List Slot) (env : Sem.Env), CardRetS P F J N cx ft C W f d c S env

def BlockRetS (f : Nat) (d : Int) (cs : List Card) (S : List Slot) (env : Sem.Env) : Prop :=
  isBlock ft d (ctxOf S) cs = true → LookRel env S → ∀ (σ σ' : Sem.St) (env' : Sem.Env) (v : Val) (pc pc' : Nat),
    Sem.execListWith (Sem.exec cx f) env σ cs = (σ', env', .ret v) → BCodes P.bytecode F J d (ctxOf S) cs pc pc' →
    pc' ≤ P.bytecode.size → (∀ n ∈ snamess cs, N n) → SRel S σ →
      SFrame S σ σ' ∧ SRel S σ' ∧ Scalar v ∧ VmRetS P F N C W S σ σ' v pc (bdepthS cs)

variable {P F J N cx ft C W}
variable (hout : cx.outer = []) (hFinj : FInj F) (hNinj : HInj N)
include hout hFinj hNinj

omit hout hFinj hNinj in
theorem exec_ret (f : Nat) (env : Sem.Env) (s : Sem.St) (e : Card) :
    Sem.exec cx (f + 1) env s (.un .ret e) =
      (match Sem.eval cx f env s e with
        | (s, env, .ok x) => (s, env, .ret x)
        | (s, env, .ret v) => (s, env, .ret v)
        | (s, env, .exit) => (s, env, .exit)
        | (s, env, .err e) => (s, env, .err e)
        | (s, env, .unspecified w) => (s, env, .unspecified w)
        | (s, env, .outOfFuel) => (s, env, .outOfFuel)) := rfl

omit hFinj hNinj in
/-- `Return e`: the value, then `Return` -/
theorem retS_ret (f : Nat) (hcall : ∀ g, g ≤ f → CallSimS P F J N cx ft C W g) (d : Int) (S : List Slot)
    (env : Sem.Env) (e : Card) :
    CardRetS P F J N cx ft C W (f + 1) d (.un .ret e) S env := by
  intro hs henv σ σ' env' v pc pc' hex hcode hsz hN hlr
  simp only [isStmtS, Bool.and_eq_true] at hs
  obtain ⟨_, he⟩ := hs
  rw [exec_ret] at hex
  simp only [SCodeS] at hcode
  obtain ⟨m, hc1, hop, rfl⟩ := hcode
  rcases hc : Sem.eval cx f env σ e with ⟨σ1, env1, r1⟩
  rw [hc] at hex
  cases r1 with
  | ok x =>
    simp only [Prod.mk.injEq, Sem.Res.ret.injEq] at hex
    obtain ⟨rfl, rfl, rfl⟩ := hex
    have hlt := vcode_lt hc1
    obtain ⟨_, e1, hlr1, hsx, n1, _, hsim1⟩ :=
      val_simS hout f (hcall f (Nat.le_refl _)) e S env he henv σ σ1 env1 x pc m hc hc1 (by omega) hlr
    refine ⟨e1, hlr1, hsx, n1 + 1, fun vs cap fs caller rest hcl hst hd hg hsd => ?_⟩
    simp only [sdepthS] at hd
    obtain ⟨vs1, hr1, hst1, hsame1, hg1⟩ := hsim1 vs cap (fs ++ [caller]) rest hcl hst hd hg hsd
    have hsd1 := hsame1.side hsd
    have hvpos : 1 ≤ vdepth e := by unfold vdepth; have := edepth_pos e; omega
    obtain ⟨vs2, hr2, hst2, hvs2⟩ := reach_ret (P := P) (ip := m) (by omega) hop hsd1 hst1
      (by have := hsd.room; omega)
    refine ⟨vs2, vs1, hr1.trans hr2 rfl, hst2, hsd1, hsame1.log, hvs2, ?_⟩
    have : vs2.globals = vs1.globals := by rw [hvs2]
    rw [this]; exact hg1
  | ret w => exact absurd hc (eval_val_noret cx ft he f env σ σ1 env1 w)
  | outOfFuel | exit | err _ | unspecified _ =>
    simp only [Prod.mk.injEq] at hex
    obtain ⟨_, _, h⟩ := hex
    cases h

omit hFinj hNinj in
/-- a condition and the conditional jump after it (`GotoIfFalse`) -/
theorem cond_reachF {S : List Slot} {env : Sem.Env} (henv : LookRel env S) {c : Card} (hec : isExpr c = true)
    {f : Nat} {σ σ1 : Sem.St} {env1 : Sem.Env} {x : Val} {pc m : Nat}
    (hev : Sem.eval cx f env σ c = (σ1, env1, .ok x)) (hc1 : ECodeL P.bytecode F (ctxOf S) c pc m)
    (hm : m < P.bytecode.size) (hop : P.bytecode.getD m 0 = Compiler.op.gotoIfFalse) :
    σ1 = σ ∧ env = env1 ∧ ∃ n, ∀ (vs : VmState) (cap : Nat) (fs : List Frame) (rest : List Val) (k : Nat),
      StackIs vs.stack cap (baseOf S σ ++ rest) → S.length + edepth c ≤ W → GRel F N σ.globals vs.globals →
      Side C W vs cap fs rest k → SRel S σ →
      ∃ vs', Reach P n pc vs (if Sem.truthy σ x then m + 5 else rdU32 P.bytecode (m + 1)) vs' ∧
        StackIs vs'.stack cap (baseOf S σ ++ rest) ∧ SameRest vs vs' ∧ vs'.globals = vs.globals := by
  obtain ⟨rfl, rfl, n1, hn1, hsim1⟩ := eval_simS (P := P) (F := F) (N := N) hout S env henv c hec f σ σ1 env1 x pc m hev hc1
    (by omega)
  refine ⟨rfl, rfl, n1 + 1, fun vs cap fs rest k hst hd hg hsd hlr => ?_⟩
  obtain ⟨hsx, vs1, hr1, hst1, hsame1, hg1⟩ := hsim1 vs cap _ _ hst
    (by have := hsd.room; simp only [List.length_append, baseOf_length]; omega) hg hsd.frameAt hlr ⟨[], rest, rfl, rfl⟩
  obtain ⟨vs2, hr2, hst2, hsame2, hg2⟩ := reach_gotoIfFalse (P := P) (ip := m) hm hop hst1
  rw [truthy_eq hsx vs1.heap σ1] at hr2
  exact ⟨vs2, hr1.trans hr2 rfl, hst2, hsame1.trans hsame2, by rw [hg2, hg1]⟩

omit hFinj hNinj in
/-- a condition and the conditional jump after it (`GotoIfTrue`) -/
theorem cond_reachT {S : List Slot} {env : Sem.Env} (henv : LookRel env S) {c : Card} (hec : isExpr c = true)
    {f : Nat} {σ σ1 : Sem.St} {env1 : Sem.Env} {x : Val} {pc m : Nat}
    (hev : Sem.eval cx f env σ c = (σ1, env1, .ok x)) (hc1 : ECodeL P.bytecode F (ctxOf S) c pc m)
    (hm : m < P.bytecode.size) (hop : P.bytecode.getD m 0 = Compiler.op.gotoIfTrue) :
    σ1 = σ ∧ env = env1 ∧ ∃ n, ∀ (vs : VmState) (cap : Nat) (fs : List Frame) (rest : List Val) (k : Nat),
      StackIs vs.stack cap (baseOf S σ ++ rest) → S.length + edepth c ≤ W → GRel F N σ.globals vs.globals →
      Side C W vs cap fs rest k → SRel S σ →
      ∃ vs', Reach P n pc vs (if Sem.truthy σ x then rdU32 P.bytecode (m + 1) else m + 5) vs' ∧
        StackIs vs'.stack cap (baseOf S σ ++ rest) ∧ SameRest vs vs' ∧ vs'.globals = vs.globals := by
  obtain ⟨rfl, rfl, n1, hn1, hsim1⟩ := eval_simS (P := P) (F := F) (N := N) hout S env henv c hec f σ σ1 env1 x pc m hev hc1
    (by omega)
  refine ⟨rfl, rfl, n1 + 1, fun vs cap fs rest k hst hd hg hsd hlr => ?_⟩
  obtain ⟨hsx, vs1, hr1, hst1, hsame1, hg1⟩ := hsim1 vs cap _ _ hst
    (by have := hsd.room; simp only [List.length_append, baseOf_length]; omega) hg hsd.frameAt hlr ⟨[], rest, rfl, rfl⟩
  obtain ⟨vs2, hr2, hst2, hsame2, hg2⟩ := reach_gotoIfTrue (P := P) (ip := m) hm hop hst1
  rw [truthy_eq hsx vs1.heap σ1] at hr2
  exact ⟨vs2, hr1.trans hr2 rfl, hst2, hsame1.trans hsame2, by rw [hg2, hg1]⟩

omit hout hFinj hNinj in
/-- instructions that keep everything but the stack, then code that returns -/
theorem vmRet_after {S : List Slot} {σ σ' : Sem.St} {v : Val} {pc m depth depth' : Nat} (hdd : depth' ≤ depth)
    (n1 : Nat) (hpre : ∀ (vs : VmState) (cap : Nat) (fs : List Frame) (rest : List Val) (k : Nat),
      StackIs vs.stack cap (baseOf S σ ++ rest) → S.length + depth ≤ W → GRel F N σ.globals vs.globals →
      Side C W vs cap fs rest k →
      ∃ vs', Reach P n1 pc vs m vs' ∧ StackIs vs'.stack cap (baseOf S σ ++ rest) ∧ SameRest vs vs' ∧
        vs'.globals = vs.globals)
    (hret : VmRetS P F N C W S σ σ' v m depth') : VmRetS P F N C W S σ σ' v pc depth := by
  obtain ⟨n2, hsim2⟩ := hret
  refine ⟨n1 + n2, fun vs cap fs caller rest hcl hst hd hg hsd => ?_⟩
  obtain ⟨vs1, hr1, hst1, hsame1, hg1⟩ := hpre vs cap (fs ++ [caller]) rest _ hst hd hg hsd
  obtain ⟨vs2, vsR, hr2, hst2, hsdR, hlog, hvs2, hg2⟩ := hsim2 vs1 cap fs caller rest hcl hst1 (by omega)
    (by rw [hg1]; exact hg) (hsame1.side hsd)
  refine ⟨vs2, vsR, hr1.trans hr2 rfl, hst2, hsdR, ?_, hvs2, hg2⟩
  rw [hlog]; unfold SameRest at hsame1; rw [hsame1]

omit hFinj hNinj in
theorem retS_ifTrue (f : Nat) (ihr : StmtRetS P F J N cx ft C W f) (d : Int) (S : List Slot) (env : Sem.Env) (c b : Card) :
    CardRetS P F J N cx ft C W (f + 1) d (.bin .ifTrue c b) S env := by
  intro hs henv σ σ' env' v pc pc' hex hcode hsz hN hlr
  simp only [isStmtS, Bool.and_eq_true] at hs
  obtain ⟨hec, hsb⟩ := hs
  rw [exec_ifTrue] at hex
  simp only [SCodeS] at hcode
  obtain ⟨m, hc1, hop, hrd, hc2⟩ := hcode
  have hlt := ecodeL_lt hc1
  have hle := scodeS_le hsb hc2
  rcases hc : Sem.eval cx f env σ c with ⟨σ1, env1, r1⟩
  rw [hc] at hex
  cases r1 with
  | ok x =>
    simp only at hex
    obtain ⟨rfl, rfl, n1, hsim1⟩ := cond_reachF (P := P) (F := F) (N := N) (C := C) (W := W) hout henv hec hc hc1 (by omega) hop
    by_cases ht : Sem.truthy σ1 x = true
    · rw [if_pos ht] at hex
      obtain ⟨e2, hlr2, hsv, hret⟩ := ihr d b S env hsb henv σ1 σ' env' v (m + 5) pc' hex hc2 hsz
        (fun n hn => hN n (by simpa [snames] using hn)) hlr
      refine ⟨e2, hlr2, hsv, vmRet_after (depth' := sdepthS b) (by simp only [sdepthS]; omega) n1
        (fun vs cap fs rest k hst hd hg hsd => ?_) hret⟩
      simp only [sdepthS] at hd
      have := hsim1 vs cap fs rest k hst (by omega) hg hsd hlr
      rw [if_pos ht] at this
      exact this
    · rw [if_neg ht] at hex
      simp only [Prod.mk.injEq] at hex
      obtain ⟨_, _, h⟩ := hex
      cases h
  | ret w => exact absurd hc (eval_val_noret cx ft (by unfold isVal; rw [hec]; rfl) f env σ σ1 env1 w)
  | outOfFuel | exit | err _ | unspecified _ =>
    simp only [Prod.mk.injEq] at hex
    obtain ⟨_, _, h⟩ := hex
    cases h

omit hFinj hNinj in
theorem retS_ifFalse (f : Nat) (ihr : StmtRetS P F J N cx ft C W f) (d : Int) (S : List Slot) (env : Sem.Env) (c b : Card) :
    CardRetS P F J N cx ft C W (f + 1) d (.bin .ifFalse c b) S env := by
  intro hs henv σ σ' env' v pc pc' hex hcode hsz hN hlr
  simp only [isStmtS, Bool.and_eq_true] at hs
  obtain ⟨hec, hsb⟩ := hs
  rw [exec_ifFalse] at hex
  simp only [SCodeS] at hcode
  obtain ⟨m, hc1, hop, hrd, hc2⟩ := hcode
  have hlt := ecodeL_lt hc1
  have hle := scodeS_le hsb hc2
  rcases hc : Sem.eval cx f env σ c with ⟨σ1, env1, r1⟩
  rw [hc] at hex
  cases r1 with
  | ok x =>
    simp only at hex
    obtain ⟨rfl, rfl, n1, hsim1⟩ := cond_reachT (P := P) (F := F) (N := N) (C := C) (W := W) hout henv hec hc hc1 (by omega) hop
    by_cases ht : Sem.truthy σ1 x = true
    · rw [if_pos ht] at hex
      simp only [Prod.mk.injEq] at hex
      obtain ⟨_, _, h⟩ := hex
      cases h
    · rw [if_neg ht] at hex
      obtain ⟨e2, hlr2, hsv, hret⟩ := ihr d b S env hsb henv σ1 σ' env' v (m + 5) pc' hex hc2 hsz
        (fun n hn => hN n (by simpa [snames] using hn)) hlr
      refine ⟨e2, hlr2, hsv, vmRet_after (depth' := sdepthS b) (by simp only [sdepthS]; omega) n1
        (fun vs cap fs rest k hst hd hg hsd => ?_) hret⟩
      simp only [sdepthS] at hd
      have := hsim1 vs cap fs rest k hst (by omega) hg hsd hlr
      rw [if_neg ht] at this
      exact this
  | ret w => exact absurd hc (eval_val_noret cx ft (by unfold isVal; rw [hec]; rfl) f env σ σ1 env1 w)
  | outOfFuel | exit | err _ | unspecified _ =>
    simp only [Prod.mk.injEq] at hex
    obtain ⟨_, _, h⟩ := hex
    cases h

omit hFinj hNinj in
theorem retS_ifElse (f : Nat) (ihr : StmtRetS P F J N cx ft C W f) (d : Int) (S : List Slot) (env : Sem.Env)
    (c t e : Card) : CardRetS P F J N cx ft C W (f + 1) d (.tri .ifElse c t e) S env := by
  intro hs henv σ σ' env' v pc pc' hex hcode hsz hN hlr
  simp only [isStmtS, Bool.and_eq_true] at hs
  obtain ⟨⟨hec, hst_⟩, hse⟩ := hs
  rw [exec_ifElse] at hex
  simp only [SCodeS] at hcode
  obtain ⟨m1, m2, hc1, hop1, hrd1, hc2, hop2, hrd2, hc3⟩ := hcode
  have hlt := ecodeL_lt hc1
  have hle2 := scodeS_le hst_ hc2
  have hle3 := scodeS_le hse hc3
  rcases hc : Sem.eval cx f env σ c with ⟨σ1, env1, r1⟩
  rw [hc] at hex
  cases r1 with
  | ok x =>
    simp only at hex
    obtain ⟨rfl, rfl, n1, hsim1⟩ := cond_reachF (P := P) (F := F) (N := N) (C := C) (W := W) hout henv hec hc hc1 (by omega) hop1
    by_cases ht : Sem.truthy σ1 x = true
    · rw [if_pos ht] at hex
      obtain ⟨e2, hlr2, hsv, hret⟩ := ihr d t S env hst_ henv σ1 σ' env' v (m1 + 5) m2 hex hc2 (by omega)
        (fun n hn => hN n (by simp only [snames, List.mem_append]; exact Or.inl hn)) hlr
      refine ⟨e2, hlr2, hsv, vmRet_after (depth' := sdepthS t) (by simp only [sdepthS]; omega) n1
        (fun vs cap fs rest k hst hd hg hsd => ?_) hret⟩
      simp only [sdepthS] at hd
      have := hsim1 vs cap fs rest k hst (by omega) hg hsd hlr
      rw [if_pos ht] at this
      exact this
    · rw [if_neg ht] at hex
      obtain ⟨e2, hlr2, hsv, hret⟩ := ihr d e S env hse henv σ1 σ' env' v (m2 + 5) pc' hex hc3 hsz
        (fun n hn => hN n (by simp only [snames, List.mem_append]; exact Or.inr hn)) hlr
      refine ⟨e2, hlr2, hsv, vmRet_after (depth' := sdepthS e) (by simp only [sdepthS]; omega) n1
        (fun vs cap fs rest k hst hd hg hsd => ?_) hret⟩
      simp only [sdepthS] at hd
      have := hsim1 vs cap fs rest k hst (by omega) hg hsd hlr
      rw [if_neg ht, hrd1] at this
      exact this
  | ret w => exact absurd hc (eval_val_noret cx ft (by unfold isVal; rw [hec]; rfl) f env σ σ1 env1 w)
  | outOfFuel | exit | err _ | unspecified _ =>
    simp only [Prod.mk.injEq] at hex
    obtain ⟨_, _, h⟩ := hex
    cases h

omit hout hFinj hNinj in
/-- code that completes, then code that returns -/
theorem vmRet_after_sim {S S' : List Slot} {σ σ1 σ' : Sem.St} {v : Val} {pc m depth1 depth2 depth : Nat} {lf : Bool}
    (hsim : VmSimS P F N C W S σ σ1 S' pc m depth1 lf) (hcalls : σ1.calls ≤ σ'.calls)
    (hret : VmRetS P F N C W S' σ1 σ' v m depth2) (hd1 : depth1 ≤ depth) (hd2 : S'.length + depth2 ≤ S.length + depth) :
    VmRetS P F N C W S σ σ' v pc depth := by
  obtain ⟨n1, _, hsim1⟩ := hsim
  obtain ⟨n2, hsim2⟩ := hret
  refine ⟨n1 + n2, fun vs cap fs caller rest hcl hst hd hg hsd => ?_⟩
  obtain ⟨vs1, hr1, hst1, hsame1, hg1⟩ := hsim1 vs cap (fs ++ [caller]) rest (Nat.le_trans hcalls hcl) hst (by omega) hg hsd
  obtain ⟨vs2, vsR, hr2, hst2, hsdR, hlog, hvs2, hg2⟩ := hsim2 vs1 cap fs caller rest hcl hst1 (by omega) hg1
    (hsame1.side hsd)
  exact ⟨vs2, vsR, hr1.trans hr2 rfl, hst2, hsdR, hlog.trans hsame1.log, hvs2, hg2⟩

omit hout hFinj hNinj in
theorem retS_stmts {f : Nat} (ih : StmtSimS P F J N cx ft C W f) (ihr : StmtRetS P F J N cx ft C W f) (d : Int)
    (S : List Slot) (env : Sem.Env) : ∀ cs, CardsRetS P F J N cx ft C W f d cs S env
  | [] => by
    intro _ _ σ σ' env' v pc pc' hex
    simp only [Sem.execListWith, Prod.mk.injEq] at hex
    obtain ⟨_, _, h⟩ := hex
    cases h
  | c :: cs => by
    intro hs henv σ σ' env' v pc pc' hex hcode hsz hN hlr
    simp only [isStmtsS, Bool.and_eq_true] at hs
    simp only [SCodesS] at hcode
    obtain ⟨m, hc1, hc2⟩ := hcode
    simp only [snamess, List.mem_append] at hN
    have hle2 := scodesS_le hs.2 hc2
    have hle1 := scodeS_le hs.1 hc1
    simp only [Sem.execListWith] at hex
    rcases hc : Sem.exec cx f env σ c with ⟨σ1, env1, r1⟩
    rw [hc] at hex
    cases r1 with
    | ok u =>
      cases u
      simp only at hex
      obtain ⟨rfl, e1, hlr1, hsim1⟩ :=
        ih d c S env hs.1 henv σ σ1 env1 pc m hc hc1 (by omega) (fun n hn => hN n (Or.inl hn)) hlr
      obtain ⟨e2, hlr2, hsv, hret⟩ :=
        retS_stmts ih ihr d S env cs hs.2 henv σ1 σ' env' v m pc' hex hc2 hsz (fun n hn => hN n (Or.inr hn)) hlr1
      exact ⟨e1.trans e2, hlr2, hsv, vmRet_after_sim hsim1 e2.calls hret (by simp only [sdepthsS]; omega)
        (by simp only [sdepthsS]; omega)⟩
    | ret w =>
      simp only [Prod.mk.injEq, Sem.Res.ret.injEq] at hex
      obtain ⟨rfl, rfl, rfl⟩ := hex
      obtain ⟨e1, hlr1, hsv, n1, hsim1⟩ :=
        ihr d c S env hs.1 henv σ σ1 env1 w pc m hc hc1 (by omega) (fun n hn => hN n (Or.inl hn)) hlr
      refine ⟨e1, hlr1, hsv, n1, fun vs cap fs caller rest hcl hst hd hg hsd => ?_⟩
      simp only [sdepthsS] at hd
      exact hsim1 vs cap fs caller rest hcl hst (by omega) hg hsd
    | outOfFuel | exit | err _ | unspecified _ =>
      simp only [Prod.mk.injEq] at hex
      obtain ⟨_, _, h⟩ := hex
      cases h

omit hFinj hNinj in
/-- a declaration does not end with `Return` -/
theorem exec_setVar_noret {f : Nat} {env : Sem.Env} {σ σ1 : Sem.St} {env1 : Sem.Env} {n : String} {e : Card} {w : Val}
    (hn : simpleName n = true) (he : isVal ft e = true) :
    Sem.exec cx f env σ (.setVar n e) ≠ (σ1, env1, .ret w) := by
  intro h
  cases f with
  | zero => rw [exec_zero] at h; cases h
  | succ f =>
    rw [exec_setVar cx hout f env σ e hn] at h
    have := eval_val_noret cx ft he f env σ
    rcases hc : Sem.eval cx f env σ e with ⟨σ2, env2, r2⟩
    rw [hc] at h this
    cases r2 with
    | ok x =>
      simp only at h
      rcases hl : Sem.lookupEnv env2 n with _ | c
      · rw [hl] at h
        cases env2 <;> (simp only [Prod.mk.injEq] at h; obtain ⟨_, _, h⟩ := h; cases h)
      · rw [hl] at h
        simp only [Prod.mk.injEq] at h; obtain ⟨_, _, h⟩ := h; cases h
    | ret x => exact this σ2 env2 x rfl
    | _ => simp only [Prod.mk.injEq] at h; obtain ⟨_, _, h⟩ := h; cases h

omit hFinj hNinj in
theorem retS_block {f : Nat} (ih : StmtSimS P F J N cx ft C W f) (ihr : StmtRetS P F J N cx ft C W f)
    (hcall : ∀ g, g < f → CallSimS P F J N cx ft C W g) (d : Int) :
    ∀ (cs : List Card) (S : List Slot) (env : Sem.Env), BlockRetS P F J N cx ft C W f d cs S env
  | [], S, env => by
    intro _ _ σ σ' env' v pc pc' hex
    simp only [Sem.execListWith, Prod.mk.injEq] at hex
    obtain ⟨_, _, h⟩ := hex
    cases h
  | c :: cs, S, env => by
    intro hs henv σ σ' env' v pc pc' hex hcode hsz hN hlr
    have hs0 := hs
    have hcode0 := hcode
    simp only [isBlock] at hs
    simp only [BCodes] at hcode
    simp only [snamess, List.mem_append] at hN
    simp only [Sem.execListWith] at hex
    rcases hc : Sem.exec cx f env σ c with ⟨σ1, env1, r1⟩
    rw [hc] at hex
    rcases hdecl : declOf (ctxOf S) c with _ | ⟨n, e⟩
    · simp only [hdecl, Bool.and_eq_true] at hs hcode
      obtain ⟨m, hc1, hc2⟩ := hcode
      have hle2 := bcodes_le hs.2 hc2
      have hle1 := scodeS_le hs.1 hc1
      have hge := bdepthS_ge c cs
      cases r1 with
      | ok u =>
        cases u
        simp only at hex
        obtain ⟨rfl, e1, hlr1, hsim1⟩ :=
          ih d c S env hs.1 henv σ σ1 env1 pc m hc hc1 (by omega) (fun n hn => hN n (Or.inl hn)) hlr
        obtain ⟨e2, hlr2, hsv, hret⟩ :=
          retS_block ih ihr hcall d cs S env hs.2 henv σ1 σ' env' v m pc' hex hc2 hsz (fun n hn => hN n (Or.inr hn)) hlr1
        exact ⟨e1.trans e2, hlr2, hsv, vmRet_after_sim hsim1 e2.calls hret (by omega) (by omega)⟩
      | ret w =>
        simp only [Prod.mk.injEq, Sem.Res.ret.injEq] at hex
        obtain ⟨rfl, rfl, rfl⟩ := hex
        obtain ⟨e1, hlr1, hsv, n1, hsim1⟩ :=
          ihr d c S env hs.1 henv σ σ1 env1 w pc m hc hc1 (by omega) (fun n hn => hN n (Or.inl hn)) hlr
        refine ⟨e1, hlr1, hsv, n1, fun vs cap fs caller rest hcl hst hd hg hsd => ?_⟩
        exact hsim1 vs cap fs caller rest hcl hst (by omega) hg hsd
      | outOfFuel | exit | err _ | unspecified _ =>
        simp only [Prod.mk.injEq] at hex
        obtain ⟨_, _, h⟩ := hex
        cases h
    · simp only [hdecl, Bool.and_eq_true] at hs hcode
      obtain ⟨rfl, hnone⟩ := declOf_some hdecl
      obtain ⟨m, hc1, hop, hrd, hc2⟩ := hcode
      have hle2 := bcodes_le hs.2 hc2
      have hlt := vcode_lt hc1
      cases r1 with
      | ok u =>
        cases u
        simp only at hex
        -- the declaration alone is a block
        have hs1 : isBlock ft d (ctxOf S) [Card.setVar n e] = true := by
          simp only [isBlock, hdecl, Bool.and_eq_true]; exact ⟨hs.1, trivial⟩
        have hcd1 : BCodes P.bytecode F J d (ctxOf S) [Card.setVar n e] pc (m + 5) := by
          simp only [BCodes, hdecl]; exact ⟨m, hc1, hop, hrd, rfl⟩
        have hex1 : Sem.execListWith (Sem.exec cx f) env σ [Card.setVar n e] = (σ1, env1, .ok ()) := by
          simp only [Sem.execListWith, hc]
        obtain ⟨new, hctx, hlook1, e1, hnc, hlr1, hsim1⟩ := block_simS hout ih hcall d [Card.setVar n e] S env hs1 henv σ σ1 env1
          pc (m + 5) hex1 hcd1 (by omega) (fun x hx => hN x (Or.inl (by simpa [snamess] using hx))) hlr
        have hctx' : ctxOf (S ++ new) = ctxOf S ++ [(n, d)] := by
          rw [hctx]; simp only [blockCtx, hdecl]
        have hnl : new.length = 1 := by
          have := congrArg List.length hctx'
          simp only [ctxOf, List.length_map, List.length_append, List.length_singleton] at this
          omega
        obtain ⟨e2, hlr2, hsv, hret⟩ := retS_block ih ihr hcall d cs (S ++ new) env1 (by rw [hctx']; exact hs.2) hlook1
          σ1 σ' env' v (m + 5) pc' hex (by rw [hctx']; exact hc2) hsz (fun x hx => hN x (Or.inr hx)) hlr1
        refine ⟨e1.trans_ext e2 hnc, hlr2.pre, hsv, vmRet_after_sim hsim1 e2.calls hret ?_ ?_⟩
        · simp only [bdepthS]; omega
        · simp only [bdepthS, List.length_append, hnl]; omega
      | ret w => exact absurd hc (exec_setVar_noret hout hs.1.1 hs.1.2)
      | outOfFuel | exit | err _ | unspecified _ =>
        simp only [Prod.mk.injEq] at hex
        obtain ⟨_, _, h⟩ := hex
        cases h

omit hFinj hNinj in
/-- one iteration of `While` that completes: from the head of the loop back to it -/
theorem while_iter {g : Nat} (ihb : StmtSimS P F J N cx ft C W g) (hcall : ∀ g', g' < g → CallSimS P F J N cx ft C W g')
    (d : Int) (S : List Slot) (env : Sem.Env) (c : Card) (ty : String) (cs : List Card)
    (hs : isStmtS ft d (ctxOf S) (.bin .while c (.composite ty cs)) = true) (henv : LookRel env S)
    {σ σ2 : Sem.St} {env2 : Sem.Env} {x : Val} {pc pc' : Nat}
    (hcode : SCodeS P.bytecode F J d (ctxOf S) (.bin .while c (.composite ty cs)) pc pc') (hsz : pc' ≤ P.bytecode.size)
    (hN : ∀ n ∈ snamess cs, N n) (hlr : SRel S σ)
    (hc : Sem.eval cx (g + 1) env σ c = (σ, env, .ok x)) (ht : Sem.truthy σ x = true)
    (hb : Sem.exec cx (g + 1) ([] :: env) σ (.composite ty cs) = (σ2, env2, .ok ())) :
    SFrame S σ σ2 ∧ SRel S σ2 ∧
      VmSimS P F N C W S σ σ2 S pc pc (sdepthS (.bin .while c (.composite ty cs))) false := by
  simp only [isStmtS, Bool.and_eq_true] at hs
  obtain ⟨hec, hsb⟩ := hs
  simp only [SCodeS] at hcode
  obtain ⟨m1, m2, hc1, hop1, hrd1, hc2, hpops, hop2, hrd2, hpc'⟩ := hcode
  have hlt := ecodeL_lt hc1
  have hle2 := bcodes_le hsb hc2
  obtain ⟨_, _, n1, hsim1⟩ := cond_reachF (P := P) (F := F) (N := N) (C := C) (W := W) hout henv hec hc hc1 (by omega) hop1
  rw [exec_composite] at hb
  obtain ⟨new, hctx, _, e2, _, hlr2, n3, _, hsim3⟩ :=
    block_simS hout ihb hcall (d + 1) cs S ([] :: env) hsb (lookRel_cons_nil henv) σ σ2 env2 (m1 + 5) m2 hb hc2
      (by omega) hN hlr
  have hk : (blockCtx (d + 1) (ctxOf S) cs).length - (ctxOf S).length = new.length := by
    rw [← hctx]; simp [ctxOf]
  rw [hk] at hpops hop2 hrd2 hpc'
  refine ⟨e2, hlr2.pre, n1 + n3 + new.length + 1, (fun h => by cases h), fun vs cap fs rest hcl hst hd hg hsd => ?_⟩
  simp only [sdepthS] at hd
  obtain ⟨vs2, hr2, hst2, hsame2, hg2⟩ := hsim1 vs cap fs rest _ hst (by omega) hg hsd hlr
  rw [if_pos ht] at hr2
  obtain ⟨vs3, hr3, hst3, hsame3, hg3⟩ := hsim3 vs2 cap fs rest hcl hst2 (by omega)
    (by rw [hg2]; exact hg) (hsame2.side hsd)
  rw [baseOf_append, List.append_assoc] at hst3
  obtain ⟨vs3', hr3', hst3', hsame3', hg3'⟩ := reach_popsN (P := P) (baseOf new σ2) (baseOf S σ2 ++ rest) m2 vs3
    (fun j hj => hpops j (by rw [baseOf_length] at hj; exact hj)) (by rw [baseOf_length]; omega) hst3
  rw [baseOf_length] at hr3'
  obtain ⟨vs4, hr4, hst4, hsame4, hg4⟩ := reach_goto (P := P) (ip := m2 + new.length) (vs := vs3') (by omega) hop2
  rw [hrd2] at hr4
  exact ⟨vs4, ((hr2.trans hr3 rfl).trans hr3' rfl).trans hr4 rfl, by rw [hst4]; exact hst3',
    ((hsame2.transP hsame3).transS hsame3').transS hsame4, by rw [hg4, hg3']; exact hg3⟩

omit hFinj hNinj in
theorem retS_while (f : Nat) (ihr : StmtRetS P F J N cx ft C W f)
    (ihb : ∀ g, g + 1 = f → StmtSimS P F J N cx ft C W g) (ihrb : ∀ g, g + 1 = f → StmtRetS P F J N cx ft C W g)
    (hcall : ∀ g, g ≤ f → CallSimS P F J N cx ft C W g) (d : Int) (S : List Slot) (env : Sem.Env) (c : Card)
    (ty : String) (cs : List Card) :
    CardRetS P F J N cx ft C W (f + 1) d (.bin .while c (.composite ty cs)) S env := by
  intro hs henv σ σ' env' v pc pc' hex hcode hsz hN hlr
  have hs0 := hs
  have hcode0 := hcode
  simp only [isStmtS, Bool.and_eq_true] at hs
  obtain ⟨hec, hsb⟩ := hs
  rw [exec_while] at hex
  simp only [SCodeS] at hcode
  obtain ⟨m1, m2, hc1, hop1, hrd1, hc2, hpops, hop2, hrd2, hpc'⟩ := hcode
  have hlt := ecodeL_lt hc1
  have hle2 := bcodes_le hsb hc2
  have hNb : ∀ n ∈ snamess cs, N n := fun n hn => hN n (by simpa [snames] using hn)
  rcases hc : Sem.eval cx f env σ c with ⟨σ1, env1, r1⟩
  rw [hc] at hex
  cases r1 with
  | ok x =>
    simp only at hex
    obtain ⟨rfl, rfl, n1, hsim1⟩ := cond_reachF (P := P) (F := F) (N := N) (C := C) (W := W) hout henv hec hc hc1 (by omega) hop1
    by_cases ht : Sem.truthy σ1 x = true
    · rw [if_pos ht] at hex
      rcases hb : Sem.exec cx f ([] :: env) σ1 (.composite ty cs) with ⟨σ2, env2, r2⟩
      rw [hb] at hex
      cases f with
      | zero => rw [exec_zero] at hb; simp only [Prod.mk.injEq] at hb; obtain ⟨_, _, h⟩ := hb; subst h; simp at hex
      | succ g =>
        cases r2 with
        | ok u =>
          cases u
          simp only at hex
          obtain ⟨e2, hlr2, hsim2⟩ := while_iter hout (ihb g rfl) (fun g' hg' => hcall g' (by omega)) d S env c ty cs hs0 henv
            hcode0 hsz hNb hlr hc ht hb
          obtain ⟨e5, hlr5, hsv, hret⟩ :=
            ihr d (.bin .while c (.composite ty cs)) S env hs0 henv σ2 σ' env' v pc pc' hex hcode0 hsz hN hlr2
          exact ⟨e2.trans e5, hlr5, hsv, vmRet_after_sim hsim2 e5.calls hret (Nat.le_refl _) (Nat.le_refl _)⟩
        | ret w =>
          simp only [Prod.mk.injEq, Sem.Res.ret.injEq] at hex
          obtain ⟨rfl, rfl, rfl⟩ := hex
          rw [exec_composite] at hb
          obtain ⟨e2, hlr2, hsv, hret⟩ := retS_block hout (ihb g rfl) (ihrb g rfl) (fun g' hg' => hcall g' (by omega))
            (d + 1) cs S ([] :: env) hsb (lookRel_cons_nil henv) σ1 σ2 env2 w (m1 + 5) m2 hb hc2 (by omega) hNb hlr
          refine ⟨e2, hlr2, hsv, vmRet_after (depth' := bdepthS cs) (by simp only [sdepthS]; omega) n1
            (fun vs cap fs rest k hst hd hg hsd => ?_) hret⟩
          simp only [sdepthS] at hd
          have := hsim1 vs cap fs rest k hst (by omega) hg hsd hlr
          rw [if_pos ht] at this
          exact this
        | outOfFuel | exit | err _ | unspecified _ =>
          simp only [Prod.mk.injEq] at hex
          obtain ⟨_, _, h⟩ := hex
          cases h
    · rw [if_neg ht] at hex
      simp only [Prod.mk.injEq] at hex
      obtain ⟨_, _, h⟩ := hex
      cases h
  | ret w => exact absurd hc (eval_val_noret cx ft (by unfold isVal; rw [hec]; rfl) f env σ σ1 env1 w)
  | outOfFuel | exit | err _ | unspecified _ =>
    simp only [Prod.mk.injEq] at hex
    obtain ⟨_, _, h⟩ := hex
    cases h

/-! ### `Return` inside `Repeat` -/

omit hout hFinj hNinj in
/-- the test at the head of `Repeat` succeeds and the loop variable is bound -/
theorem repeat_enter (d : Int) (S : List Slot) (i : Option String) (cs : List Card) (nv : Val) (hnv : Scalar nv)
    {pc' m0 mb m2 kk : Nat} (hrc : RepCode P.bytecode F J d (ctxOf S) i cs pc' m0 mb m2 kk)
    (hsz : pc' ≤ P.bytecode.size) (hle2 : mb ≤ m2)
    (k : Int64) (σ σ1 : Sem.St) (X : List Slot)
    (hg1 : σ1.globals = σ.globals) (hc1 : σ1.calls = σ.calls)
    (hbind : ∃ n, ∀ (vs : VmState) (cap : Nat) (rest : List Val),
      StackIs vs.stack cap (.int k :: nv :: (baseOf S σ ++ rest)) →
      S.length + rest.length + 4 < cap → FrameAt vs rest.length →
      ∃ vs', Reach P n (m0 + 35) vs mb vs' ∧ StackIs vs'.stack cap (baseOf (repSlots S d nv k ++ X) σ1 ++ rest) ∧
        SameRest vs vs' ∧ vs'.globals = vs.globals)
    (hlt : OVal.vlt Sem.F (.int k) (Sem.deepV σ nv) = true) :
    VmSimS P F N C W (repSlots S d nv k) σ σ1 (repSlots S d nv k ++ X) (m0 + 19) mb 2 false := by
  have hmb := hrc.mb_ge
  obtain ⟨c1, c2, c3, c4, c5, c6, c7, c8, c9, hbc, hpops, c12, c13, c14, c15, c16, c17, c18, c19, hpc'⟩ := hrc
  obtain ⟨nb, hsimb⟩ := hbind
  have hL : (ctxOf S).length = S.length := by simp [ctxOf]
  rw [hL] at c4 c5
  refine ⟨4 + nb, (fun h => by cases h), fun vs cap fs rest hcl hst hd hg hsd => ?_⟩
  rw [repSlots_length] at hd
  rw [baseOf_repSlots] at hst
  have hroom := hsd.room
  obtain ⟨vs1, hr1, hst1, hsame1, hgl1⟩ := rep_head (P := P) σ hnv (q := m0 + 19) (baseOf_length S σ) (by omega)
    c4 c5 c6 c7 hsd.frameAt hst (by rw [baseOf_length]; omega)
  rw [if_pos hlt] at hr1
  obtain ⟨vs2, hr2, hst2, hsame2, hgl2⟩ := hsimb vs1 cap rest hst1 (by omega) (hsame1.frameAt hsd.frameAt)
  refine ⟨vs2, hr1.trans hr2 rfl, hst2, ?_, by rw [hg1, hgl2, hgl1]; exact hg⟩
  rw [hc1]
  exact (hsame1.trans hsame2).pres

omit hFinj hNinj in
/-- one iteration of `Repeat` that completes: from the head of the loop back to it, the counter
    incremented -/
theorem repeat_iter_sim {g : Nat} (ihb : StmtSimS P F J N cx ft C W g)
    (hcall : ∀ g', g' < g → CallSimS P F J N cx ft C W g') (d : Int) (S : List Slot) (env : Sem.Env)
    (i : Option String) (ty : String) (cs : List Card) (nv : Val)
    {pc' m0 mb m2 kk : Nat} (hrc : RepCode P.bytecode F J d (ctxOf S) i cs pc' m0 mb m2 kk)
    (hkk : kk = (blockCtx (d + 2) (repCtx d (ctxOf S) i) cs).length - (S.length + 2))
    (hblk : isBlock ft (d + 2) (repCtx d (ctxOf S) i) cs = true)
    (hsz : pc' ≤ P.bytecode.size) (hN : ∀ n ∈ snamess cs, N n)
    (k : Int64) (σ σ1 σ2 : Sem.St) (scope : List (String × Nat)) (env2 : Sem.Env) (X : List Slot)
    (hX : X.length ≤ 1)
    (hctx : ctxOf (repSlots S d nv k ++ X) = repCtx d (ctxOf S) i)
    (hlr1 : SRel (repSlots S d nv k ++ X) σ1)
    (hlook : LookRel (scope :: env) (repSlots S d nv k ++ X))
    (hfr1 : SFrame S σ σ1) (hXc : ∀ s ∈ X, ∀ x, s.cell = some x → σ.cells.size ≤ x)
    (henter : VmSimS P F N C W (repSlots S d nv k) σ σ1 (repSlots S d nv k ++ X) (m0 + 19) mb 2 false)
    (hbody : Sem.exec cx (g + 1) (scope :: env) σ1 (.composite ty cs) = (σ2, env2, .ok ())) :
    SFrame S σ σ2 ∧ SRel S σ2 ∧
      VmSimS P F N C W (repSlots S d nv k) σ σ2 (repSlots S d nv (k + 1)) (m0 + 19) (m0 + 19) (2 + bdepthS cs) false := by
  have hmb := hrc.mb_ge
  obtain ⟨c1, c2, c3, c4, c5, c6, c7, c8, c9, hbc, hpops, c12, c13, c14, c15, c16, c17, c18, c19, hpc'⟩ := hrc
  rw [exec_composite] at hbody
  have hle2 := bcodes_le hblk hbc
  obtain ⟨new, hctxn, _, e2, _, hlr2, n3, _, hsim3⟩ :=
    block_simS hout ihb hcall (d + 2) cs (repSlots S d nv k ++ X) (scope :: env) (by rw [hctx]; exact hblk) hlook σ1 σ2 env2
      mb m2 hbody (by rw [hctx]; exact hbc) (by omega) hN hlr1
  rw [hctx] at hctxn
  have hkk' : kk = new.length + X.length := by
    rw [hkk, ← hctxn]; simp [ctxOf, repSlots]; omega
  have hlrS2 : SRel S σ2 := by
    have := hlr2.pre.pre
    unfold repSlots at this
    exact this.pre.pre
  have e2' : SFrame (S ++ ([Slot.hidden (d + 1) nv, Slot.hidden (d + 1) (.int k)] ++ X)) σ1 σ2 := by
    have := e2
    simp only [repSlots, List.append_assoc, List.singleton_append] at this
    simpa using this
  have e12 : SFrame S σ σ2 := hfr1.trans_ext e2' (fun s hs c hc => by
    rcases List.mem_append.1 hs with hs | hs
    · simp only [List.mem_cons, List.mem_nil_iff, or_false] at hs
      rcases hs with rfl | rfl <;> cases hc
    · exact hXc s hs c hc)
  obtain ⟨ne, _, hsime⟩ := henter
  have hL : (ctxOf S).length = S.length := by simp [ctxOf]
  rw [hL] at c13 c15
  refine ⟨e12, hlrS2, ne + n3 + kk + 5, (fun h => by cases h), fun vs cap fs rest hcl hst hd hg hsd => ?_⟩
  rw [repSlots_length] at hd
  have hroom := hsd.room
  obtain ⟨vs2, hr2, hst2, hsame2, hgl2⟩ := hsime vs cap fs rest (Nat.le_trans e2.calls hcl) hst
    (by rw [repSlots_length]; omega) hg hsd
  obtain ⟨vs3, hr3, hst3, hsame3, hgl3⟩ := hsim3 vs2 cap fs rest hcl hst2
    (by simp only [List.length_append, repSlots_length]; omega) hgl2 (hsame2.side hsd)
  have hb : baseOf (repSlots S d nv k ++ X ++ new) σ2 ++ rest =
      (baseOf new σ2 ++ baseOf X σ2) ++ (.int k :: nv :: (baseOf S σ2 ++ rest)) := by
    rw [baseOf_append, baseOf_append, baseOf_repSlots]; simp
  rw [hb] at hst3
  obtain ⟨vs4, hr4, hst4, hsame4, hgl4⟩ := reach_popsN (P := P) (baseOf new σ2 ++ baseOf X σ2)
    (.int k :: nv :: (baseOf S σ2 ++ rest)) m2 vs3
    (fun j hj => hpops j (by simp only [List.length_append, baseOf_length] at hj; omega))
    (by simp only [List.length_append, baseOf_length]; omega) hst3
  have hlen4 : (baseOf new σ2 ++ baseOf X σ2).length = kk := by
    simp only [List.length_append, baseOf_length]; omega
  rw [hlen4] at hr4
  obtain ⟨vs5, hr5, hst5, hsame5, hgl5⟩ := rep_incr (P := P) (q := m2 + kk) (head := m0 + 19) (baseOf_length S σ2)
    (by omega) c12 c13 c14 c15 c16 c17
    (((hsame2.trans hsame3).transS hsame4).side hsd).frameAt hst4 (by rw [baseOf_length]; omega)
  refine ⟨vs5, (((hr2.trans hr3 rfl).trans hr4 rfl).trans hr5 rfl), by rw [baseOf_repSlots]; exact hst5,
    ((hsame2.trans hsame3).transS hsame4).transS hsame5, by rw [hgl5, hgl4]; exact hgl3⟩

omit hFinj hNinj in
/-- the iterations of `Repeat` when one of them executes a `Return` -/
theorem repeat_loop_ret {g : Nat} (ihb : StmtSimS P F J N cx ft C W g) (ihrb : StmtRetS P F J N cx ft C W g)
    (hcall : ∀ g', g' < g → CallSimS P F J N cx ft C W g') (d : Int) (S : List Slot) (env : Sem.Env)
    (i : Option String) (ty : String) (cs : List Card) (nv : Val) (hnv : Scalar nv) (henv : LookRel env S)
    {pc' m0 mb m2 kk : Nat} (hrc : RepCode P.bytecode F J d (ctxOf S) i cs pc' m0 mb m2 kk)
    (hkk : kk = (blockCtx (d + 2) (repCtx d (ctxOf S) i) cs).length - (S.length + 2))
    (hblk : isBlock ft (d + 2) (repCtx d (ctxOf S) i) cs = true)
    (hsz : pc' ≤ P.bytecode.size) (hN : ∀ n ∈ snamess cs, N n) :
    ∀ (gas : Nat) (k : Int64) (σ σ' : Sem.St) (v : Val),
      Sem.repeatLoop (fun scope s => Sem.exec cx (g + 1) (scope :: env) s (.composite ty cs)) i nv gas k σ =
        (σ', .ret v) →
      SRel S σ → SFrame S σ σ' ∧ SRel S σ' ∧ Scalar v ∧
        VmRetS P F N C W (repSlots S d nv k) σ σ' v (m0 + 19) (2 + bdepthS cs) := by
  have hmb := hrc.mb_ge
  have hrc0 := hrc
  obtain ⟨c1, c2, c3, c4, c5, c6, c7, c8, c9, hbc, hpops, c12, c13, c14, c15, c16, c17, c18, c19, hpc'⟩ := hrc
  have hle2 := bcodes_le hblk hbc
  have hL : (ctxOf S).length = S.length := by simp [ctxOf]
  rw [hL] at c9
  intro gas
  induction gas with
  | zero =>
    intro k σ σ' v h
    simp only [Sem.repeatLoop, Prod.mk.injEq] at h
    exact absurd h.2 (by simp)
  | succ gas ih =>
    intro k σ σ' v h hlr
    simp only [Sem.repeatLoop] at h
    by_cases hlt : OVal.vlt Sem.F (.int k) (Sem.deepV σ nv) = true
    · rw [if_pos hlt] at h
      -- what both cases need once the loop variable is bound
      have key : ∀ (σ1 : Sem.St) (scope : List (String × Nat)) (X : List Slot), X.length ≤ 1 →
          ctxOf (repSlots S d nv k ++ X) = repCtx d (ctxOf S) i → SRel (repSlots S d nv k ++ X) σ1 →
          LookRel (scope :: env) (repSlots S d nv k ++ X) → SFrame S σ σ1 →
          (∀ s ∈ X, ∀ x, s.cell = some x → σ.cells.size ≤ x) →
          VmSimS P F N C W (repSlots S d nv k) σ σ1 (repSlots S d nv k ++ X) (m0 + 19) mb 2 false →
          (match Sem.exec cx (g + 1) (scope :: env) σ1 (.composite ty cs) with
            | (s, _, .ok ()) => Sem.repeatLoop (fun scope s => Sem.exec cx (g + 1) (scope :: env) s (.composite ty cs))
                i nv gas (k + 1) s
            | (s, _, .ret v) => (s, .ret v)
            | (s, _, .exit) => (s, .exit)
            | (s, _, .err e) => (s, .err e)
            | (s, _, .unspecified w) => (s, .unspecified w)
            | (s, _, .outOfFuel) => (s, .outOfFuel)) = (σ', .ret v) →
          SFrame S σ σ' ∧ SRel S σ' ∧ Scalar v ∧
            VmRetS P F N C W (repSlots S d nv k) σ σ' v (m0 + 19) (2 + bdepthS cs) := by
        intro σ1 scope X hX hctx hlr1 hlook hfr1 hXc henter h
        rcases hb : Sem.exec cx (g + 1) (scope :: env) σ1 (.composite ty cs) with ⟨σ2, env2, r2⟩
        rw [hb] at h
        cases r2 with
        | ok u =>
          cases u
          simp only at h
          obtain ⟨e12, hlrS2, hsim⟩ := repeat_iter_sim hout ihb hcall d S env i ty cs nv hrc0 hkk hblk hsz hN k σ σ1 σ2
            scope env2 X hX hctx hlr1 hlook hfr1 hXc henter hb
          obtain ⟨e5, hlr5, hsv, hret⟩ := ih (k + 1) σ2 σ' v h hlrS2
          exact ⟨e12.trans e5, hlr5, hsv, vmRet_after_sim hsim e5.calls hret (Nat.le_refl _)
            (by simp only [repSlots_length]; omega)⟩
        | ret w =>
          simp only [Prod.mk.injEq, Sem.Res.ret.injEq] at h
          obtain ⟨rfl, rfl⟩ := h
          rw [exec_composite] at hb
          obtain ⟨e2, hlr2, hsv, hret⟩ := retS_block hout ihb ihrb hcall (d + 2) cs (repSlots S d nv k ++ X) (scope :: env)
            (by rw [hctx]; exact hblk) hlook σ1 σ2 env2 w mb m2 hb (by rw [hctx]; exact hbc) (by omega) hN hlr1
          have e2' : SFrame (S ++ ([Slot.hidden (d + 1) nv, Slot.hidden (d + 1) (.int k)] ++ X)) σ1 σ2 := by
            have := e2
            simp only [repSlots, List.append_assoc, List.singleton_append] at this
            simpa using this
          have e12 : SFrame S σ σ2 := hfr1.trans_ext e2' (fun s hs c hc => by
            rcases List.mem_append.1 hs with hs | hs
            · simp only [List.mem_cons, List.mem_nil_iff, or_false] at hs
              rcases hs with rfl | rfl <;> cases hc
            · exact hXc s hs c hc)
          have hlrS2 : SRel S σ2 := by
            have := hlr2.pre
            unfold repSlots at this
            exact this.pre.pre
          exact ⟨e12, hlrS2, hsv, vmRet_after_sim henter e2.calls hret (by omega)
            (by simp only [List.length_append, repSlots_length]; omega)⟩
        | outOfFuel | exit | err _ | unspecified _ =>
          simp only [Prod.mk.injEq] at h
          exact absurd h.2 (by simp)
      cases i with
      | none =>
        simp only at h c9
        obtain ⟨b1, b2, b3⟩ := bind_none S d nv k σ env hnv hlr henv
        refine key σ [] [] (by simp) b1 b2 b3 (SFrame.refl _ _) (fun s hs => by cases hs) ?_ h
        refine repeat_enter d S none cs nv hnv hrc0 hsz hle2 k σ σ [] rfl rfl ⟨0, fun vs cap rest hst _ _ => ?_⟩ hlt
        rw [c9, List.append_nil, baseOf_repSlots]
        exact ⟨vs, Reach.refl _ _, hst, SameRest.refl _, rfl⟩
      | some x =>
        simp only at h c9
        obtain ⟨c9a, c9b, c9c⟩ := c9
        obtain ⟨b1, b2, b3, b4⟩ := bind_some x S d nv k σ env hnv hlr henv
        refine key (Sem.newCell σ (.int k)).1 [(x, σ.cells.size)] [.named x (d + 2) σ.cells.size] (by simp) b1 b2 b3
          (SFrame.of_new _ _ _)
          (fun s hs c hc => by
            simp only [List.mem_singleton] at hs; subst hs
            simp only [Slot.cell, Option.some.injEq] at hc; rw [← hc]; exact Nat.le_refl _) ?_ h
        refine repeat_enter d S (some x) cs nv hnv hrc0 hsz hle2 k σ (Sem.newCell σ (.int k)).1
          [.named x (d + 2) σ.cells.size] rfl rfl ⟨2, fun vs cap rest hst hd hfr => ?_⟩ hlt
        rw [b4, c9c]
        exact bind_some_vm (P := P) (q := m0 + 35) (baseOf_length S σ) (by omega) c9a c9b hfr hst
          (by rw [baseOf_length]; omega)
    · rw [if_neg hlt] at h
      simp only [Prod.mk.injEq] at h
      exact absurd h.2 (by simp)

omit hFinj hNinj in
/-- the count of `Repeat` is evaluated, count and counter become hidden locals -/
theorem repeat_init {S : List Slot} {env : Sem.Env} (henv : LookRel env S) {n : Card} (hen : isExpr n = true)
    {f : Nat} {σ σ1 : Sem.St} {env1 : Sem.Env} {nv : Val} {d : Int} {i : Option String} {cs : List Card}
    {pc pc' m0 mb m2 kk : Nat}
    (hev : Sem.eval cx f env σ n = (σ1, env1, .ok nv)) (hc1 : ECodeL P.bytecode F (ctxOf S) n pc m0)
    (hrc : RepCode P.bytecode F J d (ctxOf S) i cs pc' m0 mb m2 kk) (hle2 : mb ≤ m2) (hsz : pc' ≤ P.bytecode.size)
    (hlr : SRel S σ) :
    σ1 = σ ∧ env = env1 ∧ Scalar nv ∧
      VmSimS P F N C W S σ σ (repSlots S d nv 0) pc (m0 + 19) (max (edepth n) 4) false := by
  have hmb := hrc.mb_ge
  obtain ⟨c1, c2, c3, _, _, _, _, _, _, hbc, _, _, _, _, _, _, _, _, _, hpc'⟩ := hrc
  have hL : (ctxOf S).length = S.length := by simp [ctxOf]
  rw [hL] at c1 c3
  have hlt := ecodeL_lt hc1
  have hnv := eval_scalarS hout env n hen f σ σ1 env1 nv hev hlr.scalar hlr.gscalar
  obtain ⟨rfl, rfl, n1, hn1, hsim1⟩ := eval_simS (P := P) (F := F) (N := N) hout S env henv n hen f σ σ1 env1 nv pc m0 hev hc1
    (by omega)
  refine ⟨rfl, rfl, hnv, n1 + 1 + 1 + 1, (fun h => by cases h), fun vs cap fs rest hcl hst hd hg hsd => ?_⟩
  have hroom := hsd.room
  obtain ⟨_, vs1, hr1, hst1, hsame1, hg1⟩ := hsim1 vs cap _ _ hst
    (by simp only [List.length_append, baseOf_length]; omega) hg hsd.frameAt hlr ⟨[], rest, rfl, rfl⟩
  obtain ⟨vs2, hr2, hst2, hsame2, hg2⟩ := reach_setLocalAt_new (P := P) (ip := m0) (by omega) c1.1 c1.2
    (by simp only [List.length_append, baseOf_length]; omega) (hsame1.frameAt hsd.frameAt) hst1
    (by simp only [List.length_append, baseOf_length]; omega)
  obtain ⟨vs3, hr3, hst3, hsame3, hg3⟩ := reach_scalarInt (P := P) c2 (by omega) hst2
    (by simp only [List.length_cons, List.length_append, baseOf_length]; omega)
  obtain ⟨vs4, hr4, hst4, hsame4, hg4⟩ := reach_setLocalAt_new (P := P) (ip := m0 + 14) (by omega) c3.1 c3.2
    (by simp only [List.length_cons, List.length_append, baseOf_length]; omega)
    (((hsame1.trans hsame2).trans hsame3).frameAt hsd.frameAt) hst3
    (by simp only [List.length_cons, List.length_append, baseOf_length]; omega)
  exact ⟨vs4, ((hr1.trans hr2 rfl).trans hr3 rfl).trans hr4 rfl, by rw [baseOf_repSlots]; exact hst4,
    (((hsame1.trans hsame2).trans hsame3).trans hsame4).pres, by rw [hg4, hg3, hg2, hg1]; exact hg⟩

omit hFinj hNinj in
theorem retS_repeat (f : Nat) (ihb : ∀ g, g + 1 = f → StmtSimS P F J N cx ft C W g)
    (ihrb : ∀ g, g + 1 = f → StmtRetS P F J N cx ft C W g)
    (hcall : ∀ g, g ≤ f → CallSimS P F J N cx ft C W g) (d : Int) (S : List Slot)
    (env : Sem.Env) (i : Option String) (n : Card) (ty : String) (cs : List Card) :
    CardRetS P F J N cx ft C W (f + 1) d (.repeat i n (.composite ty cs)) S env := by
  intro hs henv σ σ' env' v pc pc' hex hcode hsz hN hlr
  simp only [isStmtS, Bool.and_eq_true] at hs
  obtain ⟨⟨⟨_, hen⟩, hi⟩, hblk⟩ := hs
  rw [exec_repeat] at hex
  simp only [SCodeS] at hcode
  obtain ⟨m0, mb, m2, hc1, hrc0⟩ := hcode
  have hL : (ctxOf S).length = S.length := by simp [ctxOf]
  have hrc : RepCode P.bytecode F J d (ctxOf S) i cs pc' m0 mb m2
      ((blockCtx (d + 2) (repCtx d (ctxOf S) i) cs).length - ((ctxOf S).length + 2)) := hrc0
  have hle2 : mb ≤ m2 := bcodes_le hblk hrc.2.2.2.2.2.2.2.2.2.1
  rcases hc : Sem.eval cx f env σ n with ⟨σ1, env1, r1⟩
  rw [hc] at hex
  cases r1 with
  | ok nv =>
    simp only at hex
    obtain ⟨rfl, rfl, hnv, hinit⟩ := repeat_init (P := P) (F := F) (N := N) (C := C) (W := W) hout henv hen hc hc1 hrc hle2 hsz hlr
    cases f with
    | zero =>
      simp only [Sem.repeatLoop, Prod.mk.injEq] at hex
      exact absurd hex.2.2 (by simp)
    | succ g =>
      rcases hl : Sem.repeatLoop (fun scope s => Sem.exec cx (g + 1) (scope :: env) s (.composite ty cs)) i nv (g + 1) 0 σ1
        with ⟨σ2, r2⟩
      rw [hl] at hex
      simp only [Prod.mk.injEq] at hex
      obtain ⟨rfl, rfl, rfl⟩ := hex
      obtain ⟨e5, hlr5, hsv, hret⟩ := repeat_loop_ret hout (ihb g rfl) (ihrb g rfl) (fun g' hg' => hcall g' (by omega))
        d S env i ty cs nv hnv henv hrc (by rw [hL]) hblk hsz
        (fun n hn => hN n (by simpa [snames] using hn)) (g + 1) 0 σ1 σ2 v hl hlr
      exact ⟨e5, hlr5, hsv, vmRet_after_sim hinit e5.calls hret (by simp only [sdepthS]; omega)
        (by simp only [sdepthS, repSlots_length]; omega)⟩
  | ret w => exact absurd hc (eval_val_noret cx ft (by unfold isVal; rw [hen]; rfl) f env σ σ1 env1 w)
  | outOfFuel | exit | err _ | unspecified _ =>
    simp only [Prod.mk.injEq] at hex
    obtain ⟨_, _, h⟩ := hex
    cases h

omit hFinj hNinj in
/-- statements whose execution ends with `Return`: one more unit of fuel -/
theorem stmtRetS_succ (f : Nat) (ih : ∀ g, g ≤ f → StmtSimS P F J N cx ft C W g)
    (ihr : ∀ g, g ≤ f → StmtRetS P F J N cx ft C W g)
    (hcall : ∀ g, g ≤ f → CallSimS P F J N cx ft C W g) : StmtRetS P F J N cx ft C W (f + 1) := by
  have ihf := ih f (Nat.le_refl _)
  have ihrf := ihr f (Nat.le_refl _)
  intro d c S env
  cases c with
  | composite t cs =>
    intro hs henv σ σ' env' v pc pc' hex hcode hsz hN hlr
    rw [exec_composite] at hex
    simp only [isStmtS] at hs
    simp only [SCodeS] at hcode
    simp only [snames] at hN
    have := retS_stmts ihf ihrf d S env cs hs henv σ σ' env' v pc pc' hex hcode hsz hN hlr
    simpa only [sdepthS] using this
  | tri k a b c =>
    cases k with
    | ifElse => exact retS_ifElse hout f ihrf d S env a b c
    | setProperty => intro hs; simp [isStmtS] at hs
  | bin k a b =>
    cases k with
    | ifTrue => exact retS_ifTrue hout f ihrf d S env a b
    | ifFalse => exact retS_ifFalse hout f ihrf d S env a b
    | «while» =>
      cases b with
      | composite ty cs =>
        exact retS_while hout f ihrf (fun g hg => ih g (by omega)) (fun g hg => ihr g (by omega)) hcall d S env a ty cs
      | _ => intro hs; simp [isStmtS] at hs
    | _ => intro hs; simp [isStmtS] at hs
  | «repeat» i n b =>
    cases b with
    | composite ty cs =>
      exact retS_repeat hout f (fun g hg => ih g (by omega)) (fun g hg => ihr g (by omega)) hcall d S env i n ty cs
    | _ => intro hs; simp [isStmtS] at hs
  | un k e =>
    cases k with
    | ret => exact retS_ret hout f hcall d S env e
    | _ => intro hs; simp [isStmtS] at hs
  | setVar n e =>
    intro hs _ σ σ' env' v pc pc' hex
    simp only [isStmtS, Bool.and_eq_true] at hs
    exact absurd hex (exec_setVar_noret hout hs.1.1 hs.2)
  | setGlobalVar n e =>
    intro hs _ σ σ' env' v pc pc' hex
    simp only [isStmtS, Bool.and_eq_true] at hs
    rw [exec_setGlobal] at hex
    have := eval_val_noret cx ft hs.2 f env σ
    rcases hc : Sem.eval cx f env σ e with ⟨σ2, env2, r2⟩
    rw [hc] at hex this
    cases r2 with
    | ok x =>
      simp only at hex
      split at hex <;> (simp only [Prod.mk.injEq] at hex; obtain ⟨_, _, h⟩ := hex; cases h)
    | ret x => exact absurd rfl (this σ2 env2 x)
    | _ => simp only [Prod.mk.injEq] at hex; obtain ⟨_, _, h⟩ := hex; cases h
  | comment t =>
    intro _ _ σ σ' env' v pc pc' hex
    rw [exec_comment] at hex
    simp only [Prod.mk.injEq] at hex
    obtain ⟨_, _, h⟩ := hex
    cases h
  | _ => intro hs; simp [isStmtS] at hs

omit hout hFinj hNinj in
theorem stmtRetS_zero : StmtRetS P F J N cx ft C W 0 := by
  intro d c S env _ _ σ σ' env' v pc pc' hex
  rw [exec_zero] at hex
  simp only [Prod.mk.injEq] at hex
  obtain ⟨_, _, h⟩ := hex
  cases h

end retsim

/-! ## the functions that may be called -/

/-- the locals of a function when its body starts: the parameters, the last one first -/
def argCtx (fd : Func) : LCtx := fd.arguments.reverse.map (fun p => (p, (1 : Int)))

/-- what is known about a function `g` that may be called: where the reference semantics finds it,
    and where its code is -/
structure FnEntry (P : Prog) (F : List (UInt32 × Nat)) (J : Compiler.JumpTable) (N : String → Prop) (ft : Feat)
    (W : Nat) (fns : Array Sem.FnDef) (g : String) (fd : Func) : Prop where
  sem : ∃ i d, (∀ home, home < fns.size → Sem.resolve fns home g = some i) ∧ fns[i]? = some d ∧
    d.params = fd.arguments ∧ d.cards = fd.cards
  body : isBlock ft 1 (argCtx fd) fd.cards = true
  names : ∀ n ∈ snamess fd.cards, N n
  width : fd.arguments.length + bdepthS fd.cards + 1 ≤ W
  arity : fd.arguments.length < 4294967296
  code : ∃ h pos m', look J g = some (h, UInt32.ofNat fd.arguments.length) ∧
    P.labels.find? (fun l => l.1 == h) = some (h, pos) ∧
    BCodes P.bytecode F J 1 (argCtx fd) fd.cards pos m' ∧
    (∀ j, j < (blockCtx 1 (argCtx fd) fd.cards).length → P.bytecode.getD (m' + j) 0 = Compiler.op.pop) ∧
    P.bytecode.getD (m' + (blockCtx 1 (argCtx fd) fd.cards).length) 0 = Compiler.op.scalarNil ∧
    P.bytecode.getD (m' + (blockCtx 1 (argCtx fd) fd.cards).length + 1) 0 = Compiler.op.ret ∧
    m' + (blockCtx 1 (argCtx fd) fd.cards).length + 1 < P.bytecode.size

theorem baseOf_noObj {S : List Slot} {σ : Sem.St} (h : SRel S σ) : NoObj (baseOf S σ) := by
  intro v hv
  unfold baseOf at hv
  simp only [List.mem_reverse, List.mem_map] at hv
  obtain ⟨s, hs, rfl⟩ := hv
  cases s with
  | named n d c =>
    simp only [Slot.val]
    rcases hc : σ.cells[c]? with _ | x
    · trivial
    · exact h.scalar c x hc
  | hidden d x => exact h.hscalar d x hs

theorem zip_map_snd : ∀ (ps : List String) (vals : List Val), ps.length = vals.length → (ps.zip vals).map (·.2) = vals
  | [], [], _ => rfl
  | p :: ps, v :: vals, h => by
    simp only [List.zip_cons_cons, List.map_cons]
    rw [zip_map_snd ps vals (by simpa using h)]
  | [], _ :: _, h => by simp at h
  | _ :: _, [], h => by simp at h

theorem zip_map_fst1 : ∀ (ps : List String) (vals : List Val), ps.length = vals.length →
    (ps.zip vals).map (fun p => (p.1, (1 : Int))) = ps.map (fun p => (p, (1 : Int)))
  | [], [], _ => rfl
  | p :: ps, v :: vals, h => by
    simp only [List.zip_cons_cons, List.map_cons]
    rw [zip_map_fst1 ps vals (by simpa using h)]
  | [], _ :: _, h => by simp at h
  | _ :: _, [], h => by simp at h

/-- the caller's invariants after the callee has returned -/
theorem side_after_ret {C W : Nat} {vs vsR vs' : VmState} {cap : Nat} {fs : List Frame} {cur : Frame}
    {rest below : List Val} {k k' : Nat} (hsd : Side C W vs cap fs rest k) (hkk : k ≤ k')
    (hR : Side C W vsR cap (fs ++ [cur]) below k') (hoff : cur.stackOffset = rest.length)
    (hvs' : vs' = { vsR with frames := fs ++ [cur], stack := vs'.stack, remaining := vs'.remaining,
                             dispatches := vs'.dispatches }) :
    Side C W vs' cap fs rest k' := by
  have e1 : vs'.frames = fs ++ [cur] := by rw [hvs']
  have e2 : vs'.mem = vsR.mem := by rw [hvs']
  have e3 : vs'.heap = vsR.heap := by rw [hvs']
  have e4 : vs'.guards = vsR.guards := by rw [hvs']
  have e5 : vs'.openUpvalues = vsR.openUpvalues := by rw [hvs']
  have e6 : vs'.frameCap = vsR.frameCap := by rw [hvs']
  refine ⟨⟨cur, e1, hoff, hR.noClos cur (by simp)⟩, fun f hf => hR.noClos f (by simp [hf]),
    by rw [e2, e3]; exact hR.acc, by rw [e3]; exact hR.hwf, by rw [e4]; exact hR.guards,
    by rw [e5]; exact hR.ups, hsd.restS, ?_, ?_, by rw [e2]; exact hR.mem⟩
  · rw [e6]
    have := hR.fdepth
    simp only [List.length_append, List.length_singleton] at this
    omega
  · have h1 := hsd.sdepth
    have h2 : (C - k' + 1) * W ≤ (C - k + 1) * W := Nat.mul_le_mul_right _ (by omega)
    omega

section callsim
variable {P : Prog} {F : List (UInt32 × Nat)} {J : Compiler.JumpTable} {N : String → Prop} {ft : Feat} {C W : Nat}
variable (hFinj : FInj F) (hNinj : HInj N)

/-- the contexts in which the functions of the program are evaluated -/
def CxH (fns : Array Sem.FnDef) (cx : Sem.Ctx) : Prop := cx.outer = [] ∧ cx.fns = fns ∧ cx.home < fns.size

/-- all simulations at one amount of fuel, for the body of every function -/
def AllSim (P : Prog) (F : List (UInt32 × Nat)) (J : Compiler.JumpTable) (N : String → Prop) (ft : Feat) (C W : Nat)
    (fns : Array Sem.FnDef) (g : Nat) : Prop :=
  ∀ cx, CxH fns cx → StmtSimS P F J N cx ft C W g ∧ StmtRetS P F J N cx ft C W g ∧ CallSimS P F J N cx ft C W g

theorem argsDepth_ge : ∀ (args : List Card), args.length ≤ argsDepth args
  | [] => Nat.le_refl _
  | e :: es => by
    simp only [argsDepth, List.length_cons]
    have := argsDepth_ge es
    omega

/-- the caller's view of the store after a call: its cells are untouched -/
theorem call_frame {S S' : List Slot} {σa σ2 σ3 : Sem.St} (hlr : SRel S σa)
    (b5 : SFrame [] { σa with calls := σa.calls + 1 } σ2)
    (b8 : ∀ s ∈ S', ∀ c, s.cell = some c → σa.cells.size ≤ c) (e3 : SFrame S' σ2 σ3)
    (hsc : ∀ (i : Nat) (v : Val), σ3.cells[i]? = some v → Scalar v)
    (hgs : ∀ (n : String) (v : Val), glookup σ3.globals n = some v → Scalar v) :
    SFrame S σa σ3 ∧ SRel S σ3 ∧ baseOf S σ3 = baseOf S σa := by
  have hsz2 : σa.cells.size ≤ σ2.cells.size := b5.size
  have hlow : ∀ c, c < σa.cells.size → σ3.cells[c]? = σa.cells[c]? := fun c hc => by
    rw [e3.kept c (by omega) (fun s hs e => by have := b8 s hs c e; omega),
      b5.kept c hc (fun s hs => by cases hs)]
  have e1 : SemFrame σa { σa with calls := σa.calls + 1 } := ⟨rfl, Nat.le_succ _⟩
  refine ⟨⟨(e1.trans b5.toSemFrame).trans e3.toSemFrame, Nat.le_trans hsz2 e3.size, fun c hc _ => hlow c hc⟩,
    ⟨fun s hs c hc => ?_, hlr.inj, hsc, hgs, hlr.hscalar⟩, ?_⟩
  · have := hlr.lt s hs c hc
    have := e3.size
    omega
  · exact baseOf_congr fun s hs c hc => hlow c (hlr.lt s hs c hc)

theorem callSimS_zero (cx : Sem.Ctx) : CallSimS P F J N cx ft C W 0 := by
  intro g args S env _ _ σ σ' env' v pc pc' hev
  rw [eval_zero] at hev
  cases hev


/-- a static call in a value position -/
theorem call_simS (fns : Array Sem.FnDef)
    (htab : ∀ g fd, ft.lookup g = some fd → FnEntry P F J N ft W fns g fd)
    (f : Nat) (hP : ∀ g, g ≤ f → AllSim P F J N ft C W fns g) (cx : Sem.Ctx) (hcx : CxH fns cx) : CallSimS P F J N cx ft C W (f + 1) := by
  intro g args S env he henv σ σ' env' v pc pc' hev hcode hsz hlr
  have hout := hcx.1
  have hhome := hcx.2.2
  -- the fragment: `g` is a function of the table with `args.length` parameters
  have hc : isCall ft (.call g args) = true := by
    rcases isVal_cases he with h | ⟨_, _, h1, h2⟩
    · simp [isExpr] at h
    · cases h1; exact h2
  simp only [isCall, Bool.and_eq_true] at hc
  obtain ⟨hlk, hargs⟩ := hc
  rcases hfd : ft.lookup g with _ | fd
  · rw [hfd] at hlk; exact absurd hlk (by simp)
  rw [hfd] at hlk
  have harity : fd.arguments.length = args.length := by simpa using hlk
  obtain ⟨⟨i, dfn, hres, hdi, hdp, hdc⟩, hbody, hnames, hwidth, hlt32, h, pos, m', hlook, hlab, hbc, hpops, hnil, hret, hend⟩ :=
    htab g fd hfd
  -- the code
  have hcc : CCode P.bytecode F J (ctxOf S) (.call g args) pc pc' := by
    rcases hcode with h | h
    · simp [ECodeL] at h
    · exact h
  simp only [CCode] at hcc
  obtain ⟨m, h2, a2, hca, hfp, hlook2, hrdh, hrda, hcf, rfl⟩ := hcc
  rw [hlook] at hlook2
  simp only [Option.some.injEq, Prod.mk.injEq] at hlook2
  obtain ⟨rfl, rfl⟩ := hlook2
  -- the reference semantics
  rw [eval_call] at hev
  have hlta := ecodesL_le hca
  rcases hl : Sem.evalListWith (Sem.eval cx f) env σ args with ⟨σa, enva, ra⟩
  rw [hl] at hev
  cases ra with
  | ok vals =>
    obtain ⟨rfl, rfl, hvlen, nA, _, hsimA⟩ := evalList_simS (P := P) (F := F) (N := N) hout S env henv args hargs f σ σa enva
      vals pc m hl hca (by omega)
    simp only at hev
    rw [hcx.2.1, hres cx.home hhome] at hev
    simp only [hdi] at hev
    rw [if_neg (by rw [hdp, hvlen, harity]; omega), if_neg (by rw [hdp, hvlen, harity]; simp)] at hev
    rw [callFnWith_inl _ _ _ _ _ hdi] at hev
    by_cases hlim : σa.calls ≥ Sem.callLimit
    · rw [if_pos hlim] at hev; cases hev
    rw [if_neg hlim] at hev
    -- the parameters
    have hσ1 : SRel [] { σa with calls := σa.calls + 1 } :=
      ⟨fun s hs => (by cases hs), List.nodup_nil, hlr.scalar, hlr.gscalar, fun d v h => (by cases h)⟩
    have hvals : NoObj vals := evalList_scalarS hout args hargs f env σa σa env vals hl hlr.scalar hlr.gscalar
    have hplen : dfn.params.reverse.length = vals.length := by rw [List.length_reverse, hdp, hvlen, harity]
    rw [bindArgs_eq] at hev
    obtain ⟨S', b1, b2, b3, b4, b5, b6, b7, b8⟩ := bind_slots (dfn.params.reverse.zip vals) { σa with calls := σa.calls + 1 } []
      [] hσ1 lookRel_empty (by rw [zip_map_snd _ _ hplen]; exact hvals)
    simp only [List.nil_append] at b1 b2 b3 b4 b8
    rw [zip_map_snd _ _ hplen] at b4
    have hb0 : baseOf [] { σa with calls := σa.calls + 1 } = [] := rfl
    rw [hb0, List.append_nil] at b4
    have hctxS : ctxOf S' = argCtx fd := by
      rw [b3, zip_map_fst1 _ _ hplen, hdp]; rfl
    generalize hσ2 : (List.foldl bindStep ({ σa with calls := σa.calls + 1 }, []) (dfn.params.reverse.zip vals)) = r2 at hev b1 b2 b4 b5 b6 b7
    obtain ⟨σ2, scope⟩ := r2
    simp only at hev b1 b2 b4 b5 b6 b7
    have hcx' : CxH fns { fns := fns, home := i, outer := [] } := ⟨rfl, rfl, by
      rcases Nat.lt_or_ge i fns.size with h' | h'
      · exact h'
      · rw [Array.getElem?_eq_none h'] at hdi; cases hdi⟩
    obtain ⟨ihok, ihret, _⟩ := hP f (Nat.le_refl _) _ hcx'
    have hcallc : ∀ g', g' < f → CallSimS P F J N { fns := fns, home := i, outer := [] } ft C W g' :=
      fun g' hg' => (hP g' (by omega) _ hcx').2.2
    rw [hdc] at hev
    unfold runBody at hev
    rcases hb : Sem.execListWith (Sem.exec { fns := fns, home := i, outer := [] } f) [scope] σ2 fd.cards with ⟨σ3, env3, r3⟩
    rw [hb] at hev
    -- the instructions up to the first instruction of the callee
    have hh32 : (UInt32.ofNat h.toNat) = h := UInt32.ofNat_toNat
    have ha32 : (UInt32.ofNat (UInt32.ofNat fd.arguments.length).toNat) = UInt32.ofNat fd.arguments.length :=
      UInt32.ofNat_toNat
    have hatn : (UInt32.ofNat fd.arguments.length).toNat = vals.reverse.length := by
      rw [List.length_reverse, hvlen, ← harity]
      simp only [UInt32.toNat_ofNat']
      omega
    have henter : ∃ nE, ∀ (vs : VmState) (cap : Nat) (fs : List Frame) (rest : List Val), σa.calls < C →
        StackIs vs.stack cap (baseOf S σa ++ rest) → S.length + (argsDepth args + 1) ≤ W →
        GRel F N σa.globals vs.globals → Side C W vs cap fs rest σa.calls →
        ∃ vs3 cur, Reach P nE pc vs pos vs3 ∧ StackIs vs3.stack cap (baseOf S' σ2 ++ (baseOf S σa ++ rest)) ∧
          cur.stackOffset = rest.length ∧ cur.closure = none ∧ cur.dst = m + 10 ∧
          Side C W vs3 cap (fs ++ [cur]) (baseOf S σa ++ rest) σ2.calls ∧ vs3.hostLog = vs.hostLog ∧
          GRel F N σ2.globals vs3.globals := by
      refine ⟨nA + 1 + 1, fun vs cap fs rest hkC hst hd hg hsd => ?_⟩
      have hroom := hsd.room
      have hsdep := hsd.sdepth
      obtain ⟨_, vs1, hr1, hst1, hsame1, hg1⟩ := hsimA vs cap _ _ hst
        (by simp only [List.length_append, baseOf_length]; omega) hg hsd.frameAt hlr ⟨[], rest, rfl, rfl⟩
      have hsd1 := hsame1.side hsd
      obtain ⟨vs2, a, hr2, hst2, hget, hsame2, hg2⟩ := reach_functionPointer (P := P) (ip := m) (by omega) hfp (by omega)
        hsd1 (by rw [hg1]; exact grel_noObj hg) hst1
        (by
          intro x hx
          rcases List.mem_append.1 hx with hx | hx
          · exact hvals x (List.mem_reverse.1 hx)
          · rcases List.mem_append.1 hx with hx | hx
            · exact baseOf_noObj hlr x hx
            · exact hsd.restS x hx)
        (by simp only [List.length_append, List.length_reverse, baseOf_length]
            have := argsDepth_ge args; omega)
      rw [hrdh, hrda, hh32, ha32] at hget
      have hsd2 := hsame2.side hsd1
      have hmul : (C - σa.calls + 1) * W = (C - σa.calls) * W + W := by rw [Nat.add_mul, Nat.one_mul]
      obtain ⟨vs3, cur, hr3, hst3, ho, hcl, hdst, hsd3, hlog3, hg3⟩ := reach_callFunction (P := P) (ip := m + 9)
        (a := a) (pos := pos) (h := h) (ar := UInt32.ofNat fd.arguments.length) (h' := h) (by omega) hcf hsd2 hkC
        hst2 hget hatn hlab
        (fun x hx => by
          rcases List.mem_append.1 hx with hx | hx
          · exact baseOf_noObj hlr x hx
          · exact hsd.restS x hx)
        (by
          have e : C - (σa.calls + 1) + 1 = C - σa.calls := by omega
          rw [e]
          simp only [List.length_append, baseOf_length]
          omega)
      refine ⟨vs3, cur, (hr1.trans hr2 rfl).trans hr3 rfl, by rw [b4]; exact hst3, ho, hcl, hdst, ?_, ?_, ?_⟩
      · rw [b7]; exact hsd3
      · rw [hlog3, hsame2.log]; unfold SameRest at hsame1; rw [hsame1]
      · rw [b6, hg3, hg2, hg1]; exact hg
    have hSlen : S'.length = fd.arguments.length := by
      have := congrArg List.length hctxS
      simpa [ctxOf, argCtx] using this
    have hout' : ({ fns := fns, home := i, outer := [] } : Sem.Ctx).outer = [] := rfl
    cases r3 with
    | ok u =>
      cases u
      simp only [Prod.mk.injEq, Sem.Res.ok.injEq] at hev
      obtain ⟨rfl, rfl, rfl⟩ := hev
      obtain ⟨new, hctxn, _, e3, _, hlr3, n3, _, hsim3⟩ := block_simS hout' ihok hcallc 1 fd.cards S' [scope]
        (by rw [hctxS]; exact hbody) b2 σ2 σ3 env3 pos m' hb (by rw [hctxS]; exact hbc) (by omega) hnames b1
      rw [hctxS] at hctxn
      have hlen : (baseOf (S' ++ new) σ3).length = (blockCtx 1 (argCtx fd) fd.cards).length := by
        rw [baseOf_length, ← hctxn]; simp [ctxOf]
      obtain ⟨ef, hlrS, hbS⟩ := call_frame hlr b5 b8 e3 hlr3.scalar hlr3.gscalar
      obtain ⟨nE, hsimE⟩ := henter
      have hk3 : σa.calls + 1 ≤ σ3.calls := by have := e3.calls; omega
      refine ⟨rfl, ef, hlrS, trivial, nE + n3 + (blockCtx 1 (argCtx fd) fd.cards).length + 1 + 1,
        (fun h => by cases h), fun vs cap fs rest hcl hst hd hg hsd => ?_⟩
      have hd' : S.length + (argsDepth args + 1) ≤ W := by
        simp only [vdepth, cdepth] at hd; omega
      obtain ⟨vs3, cur, hr3, hst3, ho, hcl3, hdst, hsd3, hlog3, hg3⟩ := hsimE vs cap fs rest (by omega) hst hd' hg hsd
      obtain ⟨vs4, hr4, hst4, hsame4, hg4⟩ := hsim3 vs3 cap (fs ++ [cur]) (baseOf S σa ++ rest) hcl hst3 (by omega) hg3 hsd3
      obtain ⟨vs5, hr5, hst5, hsame5, hg5⟩ := reach_popsN (P := P) (baseOf (S' ++ new) σ3) (baseOf S σa ++ rest) m' vs4
        (fun j hj => hpops j (by rw [hlen] at hj; exact hj)) (by rw [hlen]; omega) hst4
      rw [hlen] at hr5
      have hsd5 := (hsame4.transS hsame5).side hsd3
      have hroomB := hsd5.room
      have hW : 1 ≤ W := by omega
      obtain ⟨vs6, hr6, hst6, hsame6, hg6⟩ := reach_push (P := P) (ip := m' + (blockCtx 1 (argCtx fd) fd.cards).length)
        (ip' := m' + (blockCtx 1 (argCtx fd) fd.cards).length + 1) .nil (by omega) hst5 (by omega)
        (fun re st' hp => step_scalarNil (re := re) hnil (s := tick vs5) (st' := st') hp)
      have hsd6 := hsame6.side hsd5
      obtain ⟨vs7, hr7, hst7, hvs7⟩ := reach_ret (P := P) (ip := m' + (blockCtx 1 (argCtx fd) fd.cards).length + 1)
        (junk := []) hend hret hsd6 hst6 (by omega)
      rw [hdst] at hr7
      have hsame46 : Pres C W cap (fs ++ [cur]) (baseOf S σa ++ rest) σ2.calls σ3.calls vs3 vs6 :=
        (hsame4.transS hsame5).transS hsame6
      refine ⟨vs7, (((hr3.trans hr4 rfl).trans hr5 rfl).trans hr6 rfl).trans hr7 rfl, by rw [hbS]; exact hst7,
        ⟨?_, fun _ => side_after_ret hsd (by omega) hsd6 ho hvs7⟩, ?_⟩
      · have e7 : vs7.hostLog = vs6.hostLog := by rw [hvs7]
        rw [e7, hsame46.log, hlog3]
      · have e7 : vs7.globals = vs6.globals := by rw [hvs7]
        rw [e7, hg6, hg5]; exact hg4
    | ret w =>
      simp only [Prod.mk.injEq, Sem.Res.ok.injEq] at hev
      obtain ⟨rfl, rfl, rfl⟩ := hev
      obtain ⟨e3, hlr3, hsw, nR, hsimR⟩ := retS_block hout' ihok ihret hcallc 1 fd.cards S' [scope]
        (by rw [hctxS]; exact hbody) b2 σ2 σ3 env3 w pos m' hb (by rw [hctxS]; exact hbc) (by omega) hnames b1
      obtain ⟨ef, hlrS, hbS⟩ := call_frame hlr b5 b8 e3 hlr3.scalar hlr3.gscalar
      obtain ⟨nE, hsimE⟩ := henter
      refine ⟨rfl, ef, hlrS, hsw, nE + nR, (fun h => by cases h), fun vs cap fs rest hcl hst hd hg hsd => ?_⟩
      have hd' : S.length + (argsDepth args + 1) ≤ W := by
        simp only [vdepth, cdepth] at hd; omega
      have hk3 : σa.calls + 1 ≤ σ3.calls := by have := e3.calls; omega
      obtain ⟨vs3, cur, hr3, hst3, ho, hcl3, hdst, hsd3, hlog3, hg3⟩ := hsimE vs cap fs rest (by omega) hst hd' hg hsd
      obtain ⟨vs7, vsR, hr7, hst7, hsdR, hlogR, hvs7, hg7⟩ := hsimR vs3 cap fs cur (baseOf S σa ++ rest) hcl hst3 (by omega)
        hg3 hsd3
      rw [hdst] at hr7
      refine ⟨vs7, hr3.trans hr7 rfl, by rw [hbS]; exact hst7,
        ⟨?_, fun _ => side_after_ret hsd (by omega) hsdR ho hvs7⟩, hg7⟩
      have e7 : vs7.hostLog = vsR.hostLog := by rw [hvs7]
      rw [e7, hlogR, hlog3]
    | outOfFuel | exit | err _ | unspecified _ =>
      simp only [Prod.mk.injEq] at hev
      obtain ⟨_, _, h⟩ := hev
      cases h
  | outOfFuel | ret _ | exit | err _ | unspecified _ =>
    simp only [Prod.mk.injEq] at hev
    obtain ⟨_, _, h⟩ := hev
    cases h


include hFinj hNinj in
/-- all simulations, by induction on the fuel -/
theorem allSim (fns : Array Sem.FnDef)
    (htab : ∀ g fd, ft.lookup g = some fd → FnEntry P F J N ft W fns g fd) :
    ∀ (f g : Nat), g ≤ f → AllSim P F J N ft C W fns g := by
  intro f
  induction f with
  | zero =>
    intro g hg cx _
    obtain rfl : g = 0 := by omega
    exact ⟨stmtSimS_zero cx, stmtRetS_zero, callSimS_zero cx⟩
  | succ f ih =>
    intro g hg
    rcases Nat.lt_or_ge g (f + 1) with hlt | hge
    · exact ih g (by omega)
    · obtain rfl : g = f + 1 := by omega
      intro cx hcx
      have hout := hcx.1
      have hcall : ∀ g, g ≤ f → CallSimS P F J N cx ft C W g := fun g hg => (ih g hg cx hcx).2.2
      have hok : ∀ g, g ≤ f → StmtSimS P F J N cx ft C W g := fun g hg => (ih g hg cx hcx).1
      have hrt : ∀ g, g ≤ f → StmtRetS P F J N cx ft C W g := fun g hg => (ih g hg cx hcx).2.1
      exact ⟨stmtSimS_succ hFinj hNinj cx hout f hok hcall
          (fun d S env i n ty cs => simS_repeat hout f (fun g hg => hok g (by omega)) hcall d S env i n ty cs),
        stmtRetS_succ hout f hok hrt hcall, call_simS fns htab f ih cx hcx⟩

end callsim

end Cao.C01
