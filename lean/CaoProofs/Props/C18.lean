import CaoProofs.Props.C09
import CaoProofs.Lemmas.CrossLemmas
import CaoModel.Driver.VmEngine
/-!
# C18 — host functions

* (e) `callNativeBody_bal` (every registered host function, when it returns, leaves the live value
  stack and the call stack as it found them, provided the callback pops what was pushed for it:
  `Balanced`, `CbBalanced`), `callNative_stack_effect`, `callNative_count`,
  `callNative_error_wrapped`, `callNative_error_is_taskFailure`; proved with the success-only frame
  logic `PresOk` of `Lemmas/NativeLemmas.lean` (tactic `presok_step`).
* (g) `nativeConv_go`, `nativeConv_ok`, `nativeConv_err`, `nativeConv_order`, `toI64_*` and the
  evaluated examples (argument order, result, wrapped errors, unknown handle).
* (h) `register_reserved` — the registration step of the driver.
* (f) `exec_call_native` (a host function calling a native function value), `enterScript_ok`;
  after the repair of `run_function` (it pops the call stack back to its entry depth however the
  callee ended): `run_function_no_leak` (NO hypothesis, every outcome, every fuel: `run_function`
  never leaves a call frame behind), `run_function_frames` (programs with control-flow integrity
  `Cfi` — all compiled programs, `C04.call_cfi_eq`/`C04b.compiled_call_cfi_eq` — on a call stack of
  good return addresses: when `run_function` returns, the call stack is exactly as before),
  `run_function_frames_ok` (the state-level corollary), `run_function_frames_script` (the old
  partial theorem, now a corollary of `enterScript_ok`), `exit_in_callee_no_leak` (was
  `exit_leaks_frame`, K6: the same witness now ends with the frames restored),
  `abort_in_callee_ends_only_callee` (what remains of K6: `Exit` in a callee of `run_function` ends
  the callee only, the script that called the host function continues),
  `run_function_frames_Full`/`not_run_function_frames_Full` (the statement without ANY hypothesis
  on the program is still false, now only for ill-formed bytecode whose last instruction is not
  `Exit`: `badProg`), `run_function_frames_all_Full` (open: the `Cfi` statement for failing runs).
-/
namespace Cao.C18
open Cao Cao.Vm Cao.Gc Cao.C02 Cao.C05 Cao.Native Cao.C09
set_option linter.unusedVariables false

/-! ## (e) the stack effect of `callNative` -/

/-- one syntax-directed step of the success-only frame logic for `Bal` -/
macro "presok_step" : tactic => `(tactic| first
  | with_reducible exact presOk_pure _ | with_reducible exact presOk_throwE _
  | with_reducible exact presOk_get | with_reducible exact presOk_peek _
  | with_reducible exact presOk_dropGuard _ | with_reducible exact presOk_initTable
  | with_reducible exact presOk_initString _ | with_reducible exact presOk_tableInsert _ _ _
  | with_reducible exact presOk_guardVal _ | with_reducible exact presOk_unguardVal _
  | with_reducible exact presOk_guardRows _ | with_reducible exact presOk_unguardRows _
  | with_reducible exact presOk_callKV (by assumption) _ _
  | with_reducible exact presOk_call1 (by assumption) _
  | with_reducible apply presOk_bind | (with_reducible apply presOk_forIn; intro _ _) | intro _
  | with_reducible apply presOk_ite
  | (refine presOk_modify (fun _ => ?_); exact ⟨StackSame.refl _, rfl⟩)
  | split)

theorem presOk_mkRow (k v b : Val) : PresOk Bal (mkRow k v b) := by
  unfold mkRow
  repeat presok_step

theorem presOk_mkRowG (es : List (Val × Val)) (k v b : Val) : PresOk Bal (mkRowG es k v b) := by
  unfold mkRowG
  repeat presok_step

theorem presOk_scanStep (isMin : Bool) {re : Reenter} {keyFn : Val} (hb : Balanced re keyFn 2)
    (x : Val × Val) (st : Val × Nat × Nat) : PresOk Bal (scanStep isMin re keyFn x st) := by
  unfold scanStep
  rw [callKV_bind_eq]
  repeat presok_step


theorem presOk_sortKeyStep {re : Reenter} {keyFn : Val} (hb : Balanced re keyFn 2)
    (x : Val × Val) (acc : List (Val × Val × Val)) : PresOk Bal (sortKeyStep re keyFn x acc) := by
  unfold sortKeyStep
  rw [callKV_bind_eq]
  repeat presok_step

theorem presOk_sortInsertStep (out : Nat) (x : Val × Val × Val) (u : PUnit) :
    PresOk Bal (sortInsertStep out x u) := by
  unfold sortInsertStep
  repeat presok_step

theorem presOk_sortDropStep (x : Val × Val × Val) (u : PUnit) : PresOk Bal (sortDropStep x u) := by
  unfold sortDropStep
  repeat presok_step

theorem presOk_toArrayStep (out : Nat) (x : Val × Val) (i : Nat) : PresOk Bal (toArrayStep out x i) := by
  unfold toArrayStep
  repeat presok_step

theorem presOk_sortTail (kd : List (Val × Val × Val)) (h : Heap) : PresOk Bal (sortTail kd h) := by
  unfold sortTail
  repeat first
    | with_reducible exact presOk_sortInsertStep _ _ _
    | with_reducible exact presOk_sortDropStep _ _
    | presok_step

theorem presOk_sortTailG (es : List (Val × Val)) (kd : List (Val × Val × Val)) (h : Heap) :
    PresOk Bal (sortTailG es kd h) := by
  unfold sortTailG
  repeat first
    | with_reducible exact presOk_sortInsertStep _ _ _
    | with_reducible exact presOk_sortDropStep _ _
    | presok_step

macro "presok_step2" : tactic => `(tactic| first
  | with_reducible exact presOk_sortTail _ _
  | with_reducible exact presOk_sortTailG _ _ _
  | with_reducible exact presOk_mkRow _ _ _
  | with_reducible exact presOk_mkRowG _ _ _ _
  | with_reducible exact presOk_scanStep _ (by assumption) _ _
  | with_reducible exact presOk_sortKeyStep (by assumption) _ _
  | with_reducible exact presOk_sortInsertStep _ _ _
  | with_reducible exact presOk_sortDropStep _ _
  | with_reducible exact presOk_toArrayStep _ _ _
  | presok_step)

/-- `__min` / `__max` leave the live stack and the call stack as they were, as soon as the key
    function pops the two arguments pushed for it -/
theorem minmaxBody_bal (isMin : Bool) {re : Reenter} {s s' : VmState} {r : Val}
    (hb : Balanced re (s.stack.peekLast 0) 2)
    (hok : (minmaxBody isMin re).go s = (.ok r, s')) : Bal s s' := by
  unfold minmaxBody at hok
  rw [go_bind_ok (go_get s), go_bind_ok (go_peek 0 s), go_bind_ok (go_peek 1 s)] at hok
  refine PresOk.ok ?_ s r s' hok
  generalize s.stack.peekLast 0 = keyFn at hb
  split
  · presok_step2
  · split
    · presok_step2
    · rw [callKV_bind_eq]
      repeat presok_step2

theorem sortBody_bal {re : Reenter} {s s' : VmState} {r : Val}
    (hb : Balanced re (s.stack.peekLast 0) 2)
    (hok : (sortBody re).go s = (.ok r, s')) : Bal s s' := by
  unfold sortBody at hok
  rw [go_bind_ok (go_get s), go_bind_ok (go_peek 0 s), go_bind_ok (go_peek 1 s)] at hok
  refine PresOk.ok ?_ s r s' hok
  generalize s.stack.peekLast 0 = keyFn at hb
  split
  · presok_step2
  · repeat presok_step2

theorem toArrayBody_bal : PresOk Bal toArrayBody := by
  unfold toArrayBody
  repeat presok_step2

/-- the test native `callback(f, x)`: pushes `x`, calls `f` -/
def callbackBody (re : Reenter) : M Val := do
  let _h := (← get).heap
  let x ← peek 0
  let f ← peek 1
  push x
  let r ← re f
  let h := (← get).heap
  modify fun s => { s with hostLog := s.hostLog ++ ["callback -> " ++ (ownD h r).toTok] }
  return r

theorem callNativeBody_callback (re : Reenter) : callNativeBody re "callback" = callbackBody re := by
  unfold callNativeBody
  simp (config := { decide := true }) only []
  rfl

theorem call1_bind_eq {β : Type} (re : Reenter) (f x : Val) (g : Val → M β) :
    (push x >>= fun _ => re f >>= g) = ((push x >>= fun _ => re f) >>= g) := by
  simp [bind_assoc]

theorem callbackBody_bal {re : Reenter} {s s' : VmState} {r : Val}
    (hb : Balanced re (s.stack.peekLast 1) 1)
    (hok : (callbackBody re).go s = (.ok r, s')) : Bal s s' := by
  unfold callbackBody at hok
  rw [go_bind_ok (go_get s), go_bind_ok (go_peek 0 s), go_bind_ok (go_peek 1 s)] at hok
  refine PresOk.ok ?_ s r s' hok
  generalize s.stack.peekLast 1 = f at hb
  rw [call1_bind_eq]
  repeat presok_step2


/-- the natives without callbacks -/
macro "simple_native" : tactic => `(tactic|
  (unfold callNativeBody
   simp (config := { decide := true }) only []
   repeat presok_step2))

theorem presOk_log (re : Reenter) : PresOk Bal (callNativeBody re "log") := by simple_native
theorem presOk_sum2 (re : Reenter) : PresOk Bal (callNativeBody re "sum2") := by simple_native
theorem presOk_fail (re : Reenter) : PresOk Bal (callNativeBody re "fail") := by simple_native
theorem presOk_strlen (re : Reenter) : PresOk Bal (callNativeBody re "strlen") := by simple_native
theorem presOk_three (re : Reenter) : PresOk Bal (callNativeBody re "three") := by simple_native
theorem presOk_four (re : Reenter) : PresOk Bal (callNativeBody re "four") := by simple_native
theorem presOk_mktable (re : Reenter) : PresOk Bal (callNativeBody re "mktable") := by simple_native

/-- which function value a native calls back, and how many arguments it pushes for it
    (`papply` pops its callee and pushes nothing) -/
def cbSpec (name : String) (s : VmState) : Option (Val × Nat) :=
  if name = "__min" ∨ name = "__max" ∨ name = "__sort" then some (s.stack.peekLast 0, 2)
  else if name = "callback" then some (s.stack.peekLast 1, 1)
  else if name = "papply" then some (s.stack.peekLast 0, 0)
  else none

/-- how many values the *body* of a host function pops by itself (plain host functions such as
    `papply` take their arguments off the stack; the typed wrappers leave them to `callNative`) -/
def bodyPops (name : String) : Nat := if name = "papply" then 1 else 0

/-- the live stack is the entry stack minus its `n` top slots (same capacity, lower slots
    untouched), the call stack is as before -/
structure PoppedBy (n : Nat) (s s' : VmState) : Prop where
  pre : Prefix s'.stack s.stack
  count : s'.stack.count = s.stack.count - n
  frames : s'.frames = s.frames

theorem PoppedBy.of_bal {s s' : VmState} (h : Bal s s') : PoppedBy 0 s s' :=
  ⟨Prefix.of_stackSame h.1, h.1.count, h.2⟩

/-- the callback is balanced for the callee the native `name` will pass it in state `s` -/
def CbBalanced (re : Reenter) (name : String) (s : VmState) : Prop :=
  ∀ f n, cbSpec name s = some (f, n) → Balanced re f n

/-- natives that never call back need no hypothesis -/
theorem cbBalanced_trivial (re : Reenter) (name : String) (s : VmState)
    (h : name ≠ "__min" ∧ name ≠ "__max" ∧ name ≠ "__sort" ∧ name ≠ "callback" ∧ name ≠ "papply") :
    CbBalanced re name s := by
  intro f n hs
  simp [cbSpec, h.1, h.2.1, h.2.2.1, h.2.2.2.1, h.2.2.2.2] at hs

/-- the hypothesis is satisfiable for the natives that do call back: the ideal callback of C09 -/
example (φ : Val → Val → Val) (s : VmState) : CbBalanced (idealCallback φ) "__sort" s := by
  intro f n hs
  simp only [cbSpec, or_true, if_true, Option.some.injEq, Prod.mk.injEq] at hs
  rw [← hs.2]
  exact (pureCallback_ideal φ f).balanced

/-- every registered host function other than `papply`, when it returns, leaves the live value
    stack and the call stack exactly as it found them -/
theorem callNativeBody_bal0 (re : Reenter) (name : String) {s s' : VmState} {r : Val}
    (hp : name ≠ "papply")
    (hcb : CbBalanced re name s) (hok : (callNativeBody re name).go s = (.ok r, s')) :
    Bal s s' := by
  by_cases h1 : name = "__min"
  · subst h1; rw [callNativeBody_min] at hok
    exact minmaxBody_bal true (hcb _ _ (by simp [cbSpec])) hok
  by_cases h2 : name = "__max"
  · subst h2; rw [callNativeBody_max] at hok
    exact minmaxBody_bal false (hcb _ _ (by simp [cbSpec])) hok
  by_cases h3 : name = "__sort"
  · subst h3; rw [callNativeBody_sort] at hok
    exact sortBody_bal (hcb _ _ (by simp [cbSpec])) hok
  by_cases h4 : name = "__to_array"
  · subst h4; rw [callNativeBody_to_array] at hok
    exact toArrayBody_bal.ok _ _ _ hok
  by_cases h5 : name = "callback"
  · subst h5; rw [callNativeBody_callback] at hok
    exact callbackBody_bal (hcb _ _ (by simp [cbSpec])) hok
  by_cases h6 : name = "log"
  · subst h6; exact (presOk_log re).ok _ _ _ hok
  by_cases h7 : name = "sum2"
  · subst h7; exact (presOk_sum2 re).ok _ _ _ hok
  by_cases h8 : name = "fail"
  · subst h8; exact (presOk_fail re).ok _ _ _ hok
  by_cases h9 : name = "strlen"
  · subst h9; exact (presOk_strlen re).ok _ _ _ hok
  by_cases h10 : name = "three"
  · subst h10; exact (presOk_three re).ok _ _ _ hok
  by_cases h11 : name = "four"
  · subst h11; exact (presOk_four re).ok _ _ _ hok
  by_cases h12 : name = "mktable"
  · subst h12; exact (presOk_mktable re).ok _ _ _ hok
  · exfalso
    unfold callNativeBody at hok
    rw [go_bind_ok (go_get s)] at hok
    split at hok <;> first | contradiction | (simp at hok)

/-- the plain host function `papply(f)`: pops `f` itself and calls it with no arguments -/
def papplyBody (re : Reenter) : M Val := do
  let _h := (← get).heap
  let f ← pop
  let r ← re f
  let h := (← get).heap
  modify fun s => { s with hostLog := s.hostLog ++ ["papply -> " ++ (ownD h r).toTok] }
  return r

theorem callNativeBody_papply (re : Reenter) : callNativeBody re "papply" = papplyBody re := by
  unfold callNativeBody
  simp (config := { decide := true }) only []
  rfl

theorem papplyBody_popped {re : Reenter} {s s' : VmState} {r : Val}
    (hb : Balanced re (s.stack.peekLast 0) 0)
    (hok : (papplyBody re).go s = (.ok r, s')) : PoppedBy 1 s s' := by
  obtain ⟨hpre, hcnt, hval⟩ := pop_facts s.stack
  unfold papplyBody at hok
  rw [go_bind_ok (go_get s), go_bind_ok (go_pop s), hval] at hok
  obtain ⟨r0, t, hre, hrest⟩ := ok_bind hok
  obtain ⟨h1, h2, h3⟩ := hb _ r0 t (Nat.zero_le _) (fun h => absurd h (Nat.lt_irrefl 0)) hre
  dsimp only at h1 h2 h3
  have hbal : Bal t s' := by
    refine PresOk.ok ?_ t r s' hrest
    repeat presok_step2
  exact ⟨(Prefix.of_stackSame hbal.1).trans (h1.trans hpre),
    by rw [hbal.1.count, ← hcnt]; omega, hbal.2.trans h3⟩

/-- **every registered host function, when it returns, leaves the call stack as it found it and
    the live value stack equal to the entry stack minus the `bodyPops name` top slots it consumed
    itself** (0 for the typed wrappers — their arguments are still there, `callNative` pops them —
    and 1 for the plain `papply`) -/
theorem callNativeBody_bal (re : Reenter) (name : String) {s s' : VmState} {r : Val}
    (hcb : CbBalanced re name s) (hok : (callNativeBody re name).go s = (.ok r, s')) :
    PoppedBy (bodyPops name) s s' := by
  by_cases hp : name = "papply"
  · subst hp
    rw [callNativeBody_papply] at hok
    exact papplyBody_popped (hcb _ _ (by simp [cbSpec])) hok
  · have h0 : bodyPops name = 0 := by simp [bodyPops, hp]
    rw [h0]
    exact PoppedBy.of_bal (callNativeBody_bal0 re name hp hcb hok)


/-! ### argument conversion -/

/-- is the value a string object? (the only typed parameter of the test family: `strlen(s)`) -/
def isStrVal (h : Heap) (v : Val) : Bool :=
  match v with
  | .obj a => match h.get a with
    | some (.str _) => true
    | _ => false
  | _ => false

/-- **(g)** the conversions run before the host function, read the arguments where they are and
    never change the machine: `strlen` rejects everything but a string object with
    `InvalidArgument`; the other natives take raw values (their own coercions are in the bodies) -/
theorem nativeConv_go (name : String) (s : VmState) :
    (nativeConv name).go s =
      if name = "strlen" ∧ isStrVal s.heap (s.stack.peekLast 0) = false
      then (.error .invalidArgument, s) else (.ok ⟨⟩, s) := by
  unfold nativeConv
  by_cases hn : name = "strlen"
  · subst hn
    simp (config := { decide := true }) only []
    rw [go_bind_ok (go_peek 0 s)]
    unfold isStrVal
    cases hv : s.stack.peekLast 0 with
    | obj a =>
      simp only []
      rw [go_bind_ok (go_get s)]
      split
      · rename_i heq; simp [heq]
      · rename_i hne
        split
        · rfl
        · rename_i h2
          simp at h2
    | _ => simp
  · split
    · exact absurd rfl hn
    · simp [hn]

theorem nativeConv_ok {name : String} {s s' : VmState} {u : PUnit}
    (h : (nativeConv name).go s = (.ok u, s')) : s' = s := by
  rw [nativeConv_go] at h
  split at h
  · simp at h
  · simp only [Prod.mk.injEq] at h; exact h.2.symm

theorem nativeConv_err {name : String} {s s' : VmState} {e : ErrKind}
    (h : (nativeConv name).go s = (.error e, s')) :
    name = "strlen" ∧ isStrVal s.heap (s.stack.peekLast 0) = false ∧ e = .invalidArgument ∧ s' = s := by
  rw [nativeConv_go] at h
  split at h
  · rename_i hc
    simp only [Prod.mk.injEq, Except.error.injEq] at h
    exact ⟨hc.1, hc.2, h.1.symm, h.2.symm⟩
  · simp at h

/-! ### `callNative` -/

/-- the two `try … catch` handlers of `callNative` re-raise -/
theorem handler_throws (name : String) (n : Nat) (e : ErrKind) (s₁ : VmState) :
    ∃ e' s₂, ((do popN n; throwE (.taskFailure name e) : M Val)).go s₁ = (.error e', s₂) :=
  ⟨_, _, by rw [go_bind_ok (go_popN n s₁)]; rfl⟩

/-- **(e) the stack effect of a host function call.** When `callNative` returns: the call stack
    is unchanged; the `bodyPops` values the body consumed itself and the `arity` arguments the
    wrapper pops have been replaced by the single result — the height is
    `count - (arity + bodyPops) + 1` (`callNative_count`; natives called with fewer values on the
    stack pop what is there), the capacity is unchanged, every slot below the arguments is
    untouched and the result `r` of the host function is on top. Hypothesis: the callback is balanced for the
    callee this native passes to it (`CbBalanced`; vacuous for natives that do not call back). -/
theorem callNative_stack_effect (re : Reenter) (h : UInt32) {s s' : VmState} {u : PUnit}
    (hcb : ∀ name, nativeNames.find? (fun n => hName n == h) = some name → CbBalanced re name s)
    (hok : (callNative re h).go s = (.ok u, s')) :
    ∃ name r, nativeNames.find? (fun n => hName n == h) = some name ∧
      (∃ s₁, (callNativeBody re name).go s = (.ok r, s₁)) ∧
      s'.frames = s.frames ∧
      s'.stack.count = (s.stack.count - bodyPops name) -
        min (s.stack.count - bodyPops name) (nativeArity name) + 1 ∧
      s'.stack.data.length = s.stack.data.length ∧
      (∀ i, i < s.stack.count - bodyPops name - nativeArity name →
        s'.stack.data[i]? = s.stack.data[i]?) ∧
      s'.stack.peekLast 0 = r := by
  unfold callNative at hok
  cases hfind : nativeNames.find? (fun n => hName n == h) with
  | none => rw [hfind] at hok; simp at hok
  | some name =>
    rw [hfind] at hok
    dsimp only at hok
    obtain ⟨_, s0, hconv, hok1⟩ := ok_bind hok
    clear hok
    have hconv' := ok_tryCatch_throw (fun e s₁ => ⟨_, _, rfl⟩) hconv
    have hs0 : s0 = s := nativeConv_ok hconv'
    rw [hs0] at hok1
    obtain ⟨r, s1, hbody, hok2⟩ := ok_bind hok1
    clear hok1
    have hbody' := ok_tryCatch_throw (fun e s₁ => handler_throws name _ e s₁) hbody
    rw [go_bind_ok (go_popN _ s1)] at hok2
    obtain ⟨hroom, hs'⟩ := push_ok hok2
    obtain ⟨hpre, hcount, hfr⟩ := callNativeBody_bal re name (hcb name hfind) hbody'
    subst hs'
    dsimp only [VStack.popN] at hroom ⊢
    refine ⟨name, r, rfl, ⟨s1, hbody'⟩, hfr, ?_, ?_, ?_, ?_⟩
    · rw [hcount]
    · rw [List.length_set, hpre.cap]
    · intro i hi
      rw [List.getElem?_set]
      have : ¬ s1.stack.count - min s1.stack.count (nativeArity name) = i := by
        rw [hcount]; omega
      simp only [this, if_false]
      exact hpre.slots i (by rw [hcount]; omega)
    · exact peekLast_push0 _ _ _ (by omega)

/-- the usual case: the script supplied all `arity + bodyPops` arguments -/
theorem callNative_count (re : Reenter) (h : UInt32) {s s' : VmState} {u : PUnit}
    (hcb : ∀ name, nativeNames.find? (fun n => hName n == h) = some name → CbBalanced re name s)
    (hok : (callNative re h).go s = (.ok u, s')) :
    ∃ name, nativeNames.find? (fun n => hName n == h) = some name ∧
      (nativeArity name + bodyPops name ≤ s.stack.count →
        s'.stack.count = s.stack.count - (nativeArity name + bodyPops name) + 1) := by
  obtain ⟨name, r, hf, -, -, hc, -⟩ := callNative_stack_effect re h hcb hok
  exact ⟨name, hf, fun hle => by rw [hc, Nat.min_eq_right (by omega)]; omega⟩

/-- **errors of host functions are wrapped**: a failing `callNative` raises
    * `ProcedureNotFound` (no function registered under the handle; machine untouched), or
    * `TaskFailure(name, e)` where `e` is the error of the argument conversion (the arguments are
      left on the stack, the machine is untouched) or of the host function body (the `arity`
      arguments are popped from the stack the body left behind), or
    * `Stackoverflow` when the *result* does not fit on the value stack (after the arguments
      have been popped; see `callNative_error_is_taskFailure` for when that is impossible). -/
theorem callNative_error_wrapped (re : Reenter) (h : UInt32) {s s' : VmState} {e : ErrKind}
    (herr : (callNative re h).go s = (.error e, s')) :
    (nativeNames.find? (fun n => hName n == h) = none ∧ e = .procedureNotFound ∧ s' = s) ∨
    ∃ name, nativeNames.find? (fun n => hName n == h) = some name ∧
      ((∃ e', e = .taskFailure name e' ∧ (nativeConv name).go s = (.error e', s) ∧ s' = s) ∨
       (∃ e' s₁, e = .taskFailure name e' ∧ (callNativeBody re name).go s = (.error e', s₁) ∧
          s' = { s₁ with stack := (s₁.stack.popN (nativeArity name)).1 }) ∨
       (∃ r s₁, e = .stackoverflow ∧ (callNativeBody re name).go s = (.ok r, s₁) ∧
          s' = { s₁ with stack := (s₁.stack.popN (nativeArity name)).1 })) := by
  unfold callNative at herr
  cases hfind : nativeNames.find? (fun n => hName n == h) with
  | none =>
    rw [hfind] at herr
    simp only [go_throwE, Prod.mk.injEq, Except.error.injEq] at herr
    exact Or.inl ⟨rfl, herr.1.symm, herr.2.symm⟩
  | some name =>
    rw [hfind] at herr
    dsimp only at herr
    refine Or.inr ⟨name, rfl, ?_⟩
    rcases err_bind herr with hconv | ⟨_, s0, hconv, herr1⟩
    · -- the conversion failed
      left
      rcases hc : (nativeConv name).go s with ⟨rc, sc⟩
      cases rc with
      | ok u => rw [go_tryCatch_ok hc] at hconv; cases hconv
      | error e' =>
        rw [go_tryCatch_err hc] at hconv
        simp only [go_throwE, Prod.mk.injEq, Except.error.injEq] at hconv
        obtain ⟨-, -, -, hsc⟩ := nativeConv_err hc
        subst hsc
        exact ⟨e', hconv.1.symm, rfl, hconv.2.symm⟩
    · clear herr
      have hconv' := ok_tryCatch_throw (fun e s₁ => ⟨_, _, rfl⟩) hconv
      have hs0 : s0 = s := nativeConv_ok hconv'
      rw [hs0] at herr1
      right
      rcases err_bind herr1 with hbody | ⟨r, s1, hbody, herr2⟩
      · -- the body failed
        left
        rcases hb : (callNativeBody re name).go s with ⟨rb, sb⟩
        cases rb with
        | ok r => rw [go_tryCatch_ok hb] at hbody; cases hbody
        | error e' =>
          rw [go_tryCatch_err hb, go_bind_ok (go_popN _ sb)] at hbody
          simp only [go_throwE, Prod.mk.injEq, Except.error.injEq] at hbody
          exact ⟨e', sb, hbody.1.symm, rfl, hbody.2.symm⟩
      · -- the result does not fit
        right
        have hbody' := ok_tryCatch_throw (fun e s₁ => handler_throws name _ e s₁) hbody
        rw [go_bind_ok (go_popN _ s1)] at herr2
        obtain ⟨he, hs'⟩ := push_err herr2
        exact ⟨r, s1, he, hbody', hs'⟩


/-- when at least one argument is popped and the stack was not over-full, the result always
    fits: every error of a registered host function is then a `TaskFailure` carrying its name -/
theorem callNative_error_is_taskFailure (re : Reenter) (h : UInt32) {s s' : VmState} {e : ErrKind}
    {name : String} (hfind : nativeNames.find? (fun n => hName n == h) = some name)
    (hcb : CbBalanced re name s)
    (har : 1 ≤ min (s.stack.count - bodyPops name) (nativeArity name))
    (hroom : s.stack.count < s.stack.data.length)
    (herr : (callNative re h).go s = (.error e, s')) : ∃ e', e = .taskFailure name e' := by
  rcases callNative_error_wrapped re h herr with ⟨hn, -, -⟩ | ⟨name', hf', hcases⟩
  · rw [hfind] at hn; cases hn
  · rw [hfind] at hf'
    have hnn : name = name' := Option.some.inj hf'
    subst hnn
    rcases hcases with ⟨e', he, -, -⟩ | ⟨e', s₁, he, -, -⟩ | ⟨r, s₁, he, hbody, hs'⟩
    · exact ⟨e', he⟩
    · exact ⟨e', he⟩
    · exfalso
      -- the push of the result cannot fail
      obtain ⟨hpre, hcount, -⟩ := callNativeBody_bal re name hcb hbody
      have hpush : ∃ u s₂, (push r).go { s₁ with stack := (s₁.stack.popN (nativeArity name)).1 } =
          (.ok u, s₂) := by
        rw [go_push]
        have hlt : ({ s₁ with stack := (s₁.stack.popN (nativeArity name)).1 } : VmState).stack.count + 1 <
            ({ s₁ with stack := (s₁.stack.popN (nativeArity name)).1 } : VmState).stack.data.length := by
          dsimp only [VStack.popN]
          rw [hcount, hpre.cap]; omega
        split
        · exact ⟨_, _, rfl⟩
        · contradiction
      obtain ⟨u, s₂, hp⟩ := hpush
      unfold callNative at herr
      rw [hfind] at herr
      dsimp only at herr
      have hconv : (nativeConv name).go s = (.ok ⟨⟩, s) := by
        rw [nativeConv_go]
        split
        · rename_i hc
          -- then the body (strlen) would have failed as well: go through the conversion result
          exfalso
          rw [go_bind_err (s' := s) (e := .taskFailure name .invalidArgument)] at herr
          · simp only [Prod.mk.injEq, Except.error.injEq] at herr
            rw [he] at herr; cases herr.1
          · rw [go_tryCatch_err (e := .invalidArgument) (s' := s)]
            · rfl
            · rw [nativeConv_go, if_pos hc]
        · rfl
      rw [go_bind_ok (go_tryCatch_ok hconv), go_bind_ok (go_tryCatch_ok hbody),
        go_bind_ok (go_popN _ s₁), hp] at herr
      cases herr

/-! ### arguments arrive in declaration order; the result becomes the value of the call -/

/-- a machine whose value stack holds exactly the supplied arguments, first argument deepest -/
def argVm (vs : List Val) : VmState :=
  { VmState.fresh { stackSize := 8 } with
    stack := ⟨vs.length, vs ++ List.replicate (8 - vs.length) .nil⟩ }

/-- a callback that is never used -/
def noCb : Reenter := fun _ => throwE .unimplemented

/-- `three(a, b, c)` returns its FIRST declared parameter, `four(a, b, c, d)` its LAST: the host
    function sees the script's values in declaration order, and what it returns replaces them -/
example : (match (callNative noCb (hName "three")).go (argVm [.int 1, .int 2, .int 3]) with
  | (.ok _, s') => s'.stack.count == 1 && s'.stack.peekLast 0 == .int 1
  | _ => false) = true := by decide +kernel
example : (match (callNative noCb (hName "four")).go (argVm [.int 1, .int 2, .int 3, .int 4]) with
  | (.ok _, s') => s'.stack.count == 1 && s'.stack.peekLast 0 == .int 4
  | _ => false) = true := by decide +kernel
/-- `sum2(a, b)` below an unrelated value: that value is untouched -/
example : (match (callNative noCb (hName "sum2")).go (argVm [.int 7, .int 20, .int 22]) with
  | (.ok _, s') => s'.stack.count == 2 && s'.stack.peekLast 0 == .int 42 && s'.stack.peekLast 1 == .int 7
  | _ => false) = true := by decide +kernel
/-- an error of the host function is a task failure carrying its name; its argument is popped -/
example : (match (callNative noCb (hName "fail")).go (argVm [.int 1]) with
  | (.error (.taskFailure "fail" .invalidArgument), s') => s'.stack.count == 1
  | _ => false) = true := by decide +kernel
/-- a rejected argument: `strlen(5)` is `TaskFailure(strlen, InvalidArgument)`, arguments left -/
example : (match (callNative noCb (hName "strlen")).go (argVm [.int 5]) with
  | (.error (.taskFailure "strlen" .invalidArgument), s') => s'.stack.count == 1
  | _ => false) = true := by decide +kernel
/-- the plain host function `papply(f)` below an unrelated value: the body pops `f`, the wrapper
    pops nothing (`arity = 0`), the callee's result replaces `f` -/
example : (match (callNative (fun _ => pure (.int 9)) (hName "papply")).go (argVm [.int 1, .int 5]) with
  | (.ok _, s') => s'.stack.count == 2 && s'.stack.peekLast 0 == .int 9 && s'.stack.peekLast 1 == .int 1
  | _ => false) = true := by decide +kernel
example : nativeNames.length = 13 ∧ nativeArity "papply" = 0 ∧ bodyPops "papply" = 1 := by decide
/-- an unknown handle -/
example : (match (callNative noCb (hName "nope")).go (argVm [.int 5]) with
  | (.error .procedureNotFound, s') => s'.stack.count == 1
  | _ => false) = true := by decide +kernel
/-- every registered name is found under its own handle (no collisions among the thirteen) -/
example : ∀ n ∈ nativeNames, nativeNames.find? (fun m => hName m == hName n) = some n := by
  decide +kernel

/-! ### (g) the conversion table -/

/-- `i64` parameters (`sum2`): integers as they are, `nil ↦ 0`, reals by the saturating cast of
    the floating point unit, objects by their length -/
theorem toI64_int (h : Heap) (i : Int64) : toI64 h (.int i) = i := by
  unfold toI64; rw [ownD_int]; rfl
theorem toI64_nil (h : Heap) : toI64 h .nil = 0 := by
  unfold toI64; rw [ownD_nil]; rfl
theorem toI64_real (h : Heap) (b : UInt64) : toI64 h (.real b) = hostF64.toInt b := by
  unfold toI64; rw [ownD_real]; rfl
theorem toI64_str {h : Heap} {a : Nat} {b : List UInt8} (hg : h.get a = some (.str b)) :
    toI64 h (.obj a) = Int64.ofNat b.length := by
  unfold toI64; rw [ownD_str hg]; rfl

/-- **(g) order of conversions.** In the model only `strlen` has a typed parameter, so "the first
    failing parameter determines the error" degenerates to: the conversion of that parameter
    decides, before the body runs and without touching the machine. -/
theorem nativeConv_order (name : String) (s : VmState) :
    ((nativeConv name).go s).2 = s ∧
    (((nativeConv name).go s).1 = .ok ⟨⟩ ∨
      (name = "strlen" ∧ isStrVal s.heap (s.stack.peekLast 0) = false ∧
        ((nativeConv name).go s).1 = .error .invalidArgument)) := by
  rw [nativeConv_go]
  split
  · rename_i hc; exact ⟨rfl, Or.inr ⟨hc.1, hc.2, rfl⟩⟩
  · exact ⟨rfl, Or.inl rfl⟩

/- Not expressible in the model (so there is no `nativeConv_order_Full : Prop` here): a host
   function with k > 1 *typed* parameters whose conversions can fail independently — the Rust
   wrappers `into_f1 … into_f4` convert the parameters in declaration order and return the first
   error — and an `InvalidArgument` error that names the parameter (the model's
   `ErrKind.invalidArgument` carries no payload; `sum2`, `three`, `four` take raw `Value`s). -/

/-! ### (h) reserved names -/

/-- the registration step of the driver (`nat register <name>`): exactly the names starting with
    `__` are refused -/
theorem register_reserved (name : String) :
    Driver.natStep ["register", name] =
      (if name.startsWith "__" then "err:InvalidArgument" else "ok") := rfl

/-- in particular the four library natives cannot be overridden, the test family can be registered -/
example : ∀ n ∈ ["__min", "__max", "__sort", "__to_array"],
    Driver.natStep ["register", n] = "err:InvalidArgument" := by decide +kernel
example : ∀ n ∈ ["log", "sum2", "fail", "callback", "strlen", "three", "four", "mktable", "papply"],
    Driver.natStep ["register", n] = "ok" := by decide +kernel

/-! ### (f) `run_function` -/

/-- **a host function calling a native function value**: the callee's result is handed back, the
    call stack is as before, the callee's `arity` arguments are gone and everything below them is
    untouched -/
theorem exec_call_native (p : Prog) (gas : Nat) {a : Nat} {h : UInt32} {s s' : VmState}
    {v : Option Val} (hget : s.heap.get a = some (.native h))
    (hcb : ∀ name, nativeNames.find? (fun n => hName n == h) = some name →
      CbBalanced (reenterOf p gas) name s)
    (hok : exec p (gas + 1) (.call (.obj a)) s = (s', .ok v)) :
    ∃ name r, nativeNames.find? (fun n => hName n == h) = some name ∧ v = some r ∧
      (∃ s₁, (callNativeBody (reenterOf p gas) name).go s = (.ok r, s₁)) ∧
      s'.frames = s.frames ∧
      s'.stack.count = (s.stack.count - bodyPops name) -
        min (s.stack.count - bodyPops name) (nativeArity name) ∧
      s'.stack.data.length = s.stack.data.length ∧
      (∀ i, i < s.stack.count - bodyPops name - nativeArity name →
        s'.stack.data[i]? = s.stack.data[i]?) := by
  rw [exec_call] at hok
  simp only [hget] at hok
  rcases hc : (callNative (reenterOf p gas) h).go s with ⟨rc, s1⟩
  rw [hc] at hok
  cases rc with
  | error e => simp [failAt] at hok
  | ok u =>
    simp only [Prod.mk.injEq, Except.ok.injEq] at hok
    obtain ⟨hs', hv⟩ := hok
    obtain ⟨name, r, hf, hb, hfr, hcnt, hcap, hslots, htop⟩ := callNative_stack_effect _ h hcb hc
    have hne : ¬ s1.stack.count = 0 := by omega
    have hpop : s1.stack.pop = (⟨s1.stack.count - 1, s1.stack.data.set (s1.stack.count - 1) default⟩,
        s1.stack.data.getD (s1.stack.count - 1) default) := by
      unfold VStack.pop; rw [if_neg hne]
    refine ⟨name, r, hf, ?_, hb, ?_, ?_, ?_, ?_⟩
    · rw [← hv, hpop, ← htop]
      unfold VStack.peekLast
      rw [if_pos (by omega)]; rfl
    · rw [← hs']; exact hfr
    · rw [← hs', hpop]; dsimp only; omega
    · rw [← hs', hpop]; dsimp only; rw [List.length_set]; exact hcap
    · intro i hi
      rw [← hs', hpop]; dsimp only
      rw [List.getElem?_set]
      have : ¬ s1.stack.count - 1 = i := by omega
      simp only [this, if_false]
      exact hslots i hi

/-- **a host function calling a script function or closure**: `run_function` pushes the callee's
    frame twice, runs the dispatch loop at the callee's label, and when the loop exits pops the
    call stack back to its entry depth (repaired; before: it popped ONE frame) and the result -/
theorem enterScript_ok (p : Prog) (gas : Nat) {s s' : VmState} {label : UInt32} {arity : Nat}
    {closure : Option Nat} {v : Option Val}
    (hok : enterScript p gas s label arity closure = (s', .ok v)) :
    ∃ l pos sL w, p.labels.find? (fun l => l.1 == label) = some (l, pos) ∧ arity ≤ s.stack.count ∧
      s.frames.length + 2 ≤ s.frameCap ∧
      exec p gas (.loop pos) { s with frames := s.frames ++
        [⟨pos, p.bytecode.size - 1, s.stack.count - arity, closure⟩,
         ⟨pos, p.bytecode.size - 1, s.stack.count - arity, closure⟩] } = (sL, .ok w) ∧
      s'.frames = sL.frames.take s.frames.length ∧ s'.stack = sL.stack.pop.1 ∧
      v = some sL.stack.pop.2 := by
  unfold enterScript at hok
  split at hok
  · simp [failAt] at hok
  · rename_i l pos hfind
    dsimp only at hok
    split at hok
    · simp [failAt] at hok
    · rename_i hcount
      split at hok
      · simp [failAt] at hok
      · rename_i hcap1
        split at hok
        · simp at hok
        · rename_i hcap2
          split at hok
          · rename_i sL w heq
            simp only [Prod.mk.injEq, Except.ok.injEq] at hok
            refine ⟨l, pos, sL, w, hfind, by omega, by omega, heq, ?_, ?_, hok.2.symm⟩
            · rw [← hok.1]
            · rw [← hok.1]
          · simp at hok

/-! #### the call stack after `run_function` -/

/-- "no call frame is left behind" -/
def NoLeak (s s' : VmState) : Prop := s'.frames.length ≤ s.frames.length

instance : Cross.SameFrames NoLeak where
  refl _ := Nat.le_refl _
  trans h1 h2 := Nat.le_trans h2 h1
  of_frames h := by unfold NoLeak; rw [h]; exact Nat.le_refl _

theorem enterScript_no_leak (p : Prog) (gas : Nat) (s : VmState) (l : UInt32) (ar : Nat)
    (c : Option Nat) : NoLeak s (enterScript p gas s l ar c).1 := by
  unfold enterScript NoLeak
  split
  · exact Nat.le_refl _
  · dsimp only
    split
    · exact Nat.le_refl _
    split
    · exact Nat.le_refl _
    split
    · exact Nat.le_refl _
    split
    · show (List.take _ _).length ≤ _
      rw [List.length_take]; exact Nat.min_le_left _ _
    · show (List.take _ _).length ≤ _
      rw [List.length_take]; exact Nat.min_le_left _ _

/-- **`run_function` never leaves a call frame behind** — for every program (well-formed or not),
    every callee value, every state, every amount of fuel and EVERY outcome (the callee returned,
    executed `Exit` itself, failed, the call stack overflowed, a host function failed, the budget
    or the fuel ran out): the call stack is not deeper afterwards than it was before.  (Before the
    repair: a failing script callee left two frames behind, K8, an `abort` in it one, K6.) -/
theorem run_function_no_leak (p : Prog) : ∀ (gas : Nat) (f : Val) (s : VmState),
    (exec p gas (.call f) s).1.frames.length ≤ s.frames.length := by
  intro gas
  induction gas with
  | zero => intro f s; rw [exec_zero]; exact Nat.le_refl _
  | succ gas ih =>
    intro f s
    have hre : ∀ f, Pres NoLeak (reenterOf p gas f) := fun f => pres_liftRun (fun s => ih f s)
    rw [exec_call]
    split
    · split
      · next h _ =>
        have h2 := (Cross.fpres_callNative (R := NoLeak) _ hre h).rel s
        split
        · next s' heq => rw [heq] at h2; exact h2
        · next e s' heq => rw [heq] at h2; exact h2
      · exact enterScript_no_leak p gas s _ _ _
      · exact enterScript_no_leak p gas s _ _ _
      · exact Nat.le_refl _
    · exact Nat.le_refl _

/-- **after `run_function` the call stack is as before** (was `run_function_frames_Full`, which
    is false without a hypothesis on the program, see `not_run_function_frames_Full`): for a
    program with control-flow integrity (`Cfi p G`: the addresses in `G` hold instructions, are
    closed under fall-through and jumps, contain the labels, and the last instruction is `Exit` —
    every compiled program, `C04.wf_cfi`) and a call stack whose return addresses are in `G`,
    whenever `run_function` returns — whether the callee returned to the trap frame or executed
    `Exit` itself through an `abort` card — the call stack is exactly the one it was called on,
    for every fuel. -/
theorem run_function_frames {G : Nat → Prop} (p : Prog) (hc : Cfi p G) (gas : Nat) (f : Val)
    (s : VmState) (hg : Good G s.frames) :
    ExecPost (fun fs' => fs' = s.frames) (fun _ => True) (exec p gas (.call f) s) :=
  execPost_mono ((exec_cfi (E := fun _ => True) p hc gas).2 f s hg) (fun _ h => h.1)

/-- the same on states -/
theorem run_function_frames_ok {G : Nat → Prop} (p : Prog) (hc : Cfi p G) (gas : Nat) (f : Val)
    {s s' : VmState} {v : Option Val} (hg : Good G s.frames)
    (hok : exec p gas (.call f) s = (s', .ok v)) : s'.frames = s.frames := by
  have h := run_function_frames p hc gas f s hg
  unfold ExecPost at h
  rw [hok] at h
  exact h

/-- the statement for failing runs too — OPEN (not proved, no counterexample known): the
    control-flow-integrity induction (`NoPanicExec.exec_cfi`) describes the call stack only of runs
    that return; what is proved for failing runs is `run_function_no_leak` (not deeper) -/
def run_function_frames_all_Full : Prop :=
  ∀ (G : Nat → Prop) (p : Prog), Cfi p G → ∀ (gas : Nat) (f : Val) (s : VmState), Good G s.frames →
    (exec p gas (.call f) s).1.frames = s.frames

/-- the old partial statement for script callees (a corollary of `enterScript_ok`): the call stack
    is the loop's call stack cut at the entry depth; so it is restored as soon as the loop ended on
    an extension of the caller's call stack (before the repair: only if it ended exactly one frame
    above it) -/
theorem run_function_frames_script (p : Prog) (gas : Nat) {s s' : VmState} {label : UInt32}
    {arity : Nat} {closure : Option Nat} {v : Option Val}
    (hok : enterScript p gas s label arity closure = (s', .ok v)) :
    ∃ (sL : VmState), s'.frames = sL.frames.take s.frames.length ∧
      (∀ rest, sL.frames = s.frames ++ rest → s'.frames = s.frames) := by
  obtain ⟨l, pos, sL, w, -, -, -, -, hfr, -, -⟩ := enterScript_ok p gas hok
  exact ⟨sL, hfr, fun rest h => by rw [hfr, h, List.take_left' rfl]⟩

/-- a program whose only instruction is `Exit`, as the callee of `run_function` -/
def exitProg : Prog :=
  { bytecode := #[Compiler.op.exit], data := #[], labels := [(0, 0)], varNames := [], trace := [] }
def exitVm : VmState :=
  { VmState.fresh { stackSize := 8, callStackSize := 8 } with
    heap := { objs := [(1, .fn 0 0)], next := 2 }, remaining := 10 }

/-- (was `exit_leaks_frame`, K6) a script callee that executes `Exit` (the `abort` card) instead of
    `Return`: `run_function` succeeds — and the call stack is restored (before the repair it was
    one frame too deep) -/
theorem exit_in_callee_no_leak : ∃ s' v, exec exitProg 3 (.call (.obj 1)) exitVm = (s', .ok v) ∧
    s'.frames = exitVm.frames := by
  have h : (match exec exitProg 3 (.call (.obj 1)) exitVm with
    | (s', .ok _) => s'.frames.length == 0 && exitVm.frames.length == 0
    | _ => false) = true := by decide +kernel
  rcases hr : exec exitProg 3 (.call (.obj 1)) exitVm with ⟨s', (e | v)⟩
  · rw [hr] at h; simp at h
  · rw [hr] at h
    simp only [Bool.and_eq_true, beq_iff_eq, List.length_eq_zero_iff] at h
    exact ⟨s', v, rfl, by rw [h.1, h.2]⟩

/-- `exitProg` has control-flow integrity: the witness is an instance of `run_function_frames` -/
example : Cfi exitProg (fun a => a = 0) where
  valid src h := by subst h; decide
  seq src sp h _ hne := by subst h; exact absurd rfl hne
  jump src h hj := by subst h; revert hj; decide
  label l hl := by
    simp only [exitProg, List.mem_singleton] at hl
    subst hl; rfl
  last := rfl
  lastExit := rfl
example : Good (fun a => a = 0) exitVm.frames := fun _ h => nomatch h

/-- little-endian bytes of a handle -/
def le32 (n : Nat) : Array UInt8 :=
  #[UInt8.ofNat n, UInt8.ofNat (n / 256), UInt8.ofNat (n / 65536), UInt8.ofNat (n / 16777216)]

/-- `main` (at 0): `papply(h)`, then `global 0 := 42`, `Exit`; `h` (label 7, at 28): `Exit` -/
def contProg : Prog :=
  { bytecode := #[Compiler.op.functionPointer, 7, 0, 0, 0, 0, 0, 0, 0, Compiler.op.callNative] ++
      le32 (hName "papply").toNat ++
      #[Compiler.op.scalarInt, 42, 0, 0, 0, 0, 0, 0, 0, Compiler.op.setGlobalVar, 0, 0, 0, 0,
        Compiler.op.exit],
    data := #[], labels := [(7, 28)], varNames := [], trace := [] }

/-- **what remains of K6**: an `abort` (`Exit`) inside a function that a host function calls back
    through `run_function` does NOT stop the program: it ends only the callee — `run_function`
    returns `nil` to the host function (`papply` writes its log line and hands the `nil` on: it is
    the value left on the stack), and the script that called the host function continues (it
    writes `42` to the global `0` and ends normally, after 6 dispatched instructions: 2 before the
    callback, the callee's `Exit`, 3 after it), on an empty call stack -/
theorem abort_in_callee_ends_only_callee :
    (match run contProg 100 (VmState.fresh { stackSize := 8, callStackSize := 8 }) with
     | (s', none) => s'.globals == [.int 42] && s'.hostLog.length == 1 &&
         s'.stack.count == 1 && s'.stack.peekLast 0 == .nil &&
         s'.dispatches == 6 && s'.frames.length == 0
     | (_, some _) => false) = true := by decide +kernel

/-- the statement "after `run_function` the call stack is as before" WITHOUT a hypothesis on the
    program … -/
def run_function_frames_Full : Prop :=
  ∀ (p : Prog) (gas : Nat) (f : Val) (s s' : VmState) (v : Option Val),
    exec p gas (.call f) s = (s', .ok v) → s'.frames = s.frames

/-- ill-formed bytecode (never produced by the compiler, rejected by `Bytecode.WF`): the last
    instruction, to which the trap frame of `run_function` returns, is `Return` instead of `Exit` -/
def badProg : Prog :=
  { bytecode := #[Compiler.op.exit, Compiler.op.ret], data := #[], labels := [(0, 1)],
    varNames := [], trace := [] }
def badVm : VmState :=
  { VmState.fresh { stackSize := 8, callStackSize := 8 } with
    frames := [⟨0, 0, 0, none⟩, ⟨0, 1, 0, none⟩],
    heap := { objs := [(1, .fn 0 0)], next := 2 }, remaining := 10 }

/-- … is still FALSE in the model, but no longer because of `Exit` in a callee (K6): only for
    bytecode without control-flow integrity — here the callee's `Return` returns to a `Return`,
    which pops the CALLER's frames (popping back to the entry depth cannot restore those); the
    run ends one frame short -/
theorem bad_program_loses_frame : ∃ s' v, exec badProg 9 (.call (.obj 1)) badVm = (s', .ok v) ∧
    s'.frames.length + 1 = badVm.frames.length := by
  have h : (match exec badProg 9 (.call (.obj 1)) badVm with
    | (s', .ok _) => s'.frames.length == 1 && badVm.frames.length == 2
    | _ => false) = true := by decide +kernel
  rcases hr : exec badProg 9 (.call (.obj 1)) badVm with ⟨s', (e | v)⟩
  · rw [hr] at h; simp at h
  · rw [hr] at h
    simp only [Bool.and_eq_true, beq_iff_eq] at h
    exact ⟨s', v, rfl, by rw [h.1, h.2]⟩

theorem not_run_function_frames_Full : ¬ run_function_frames_Full := by
  intro hfull
  obtain ⟨s', v, hrun, hlen⟩ := bad_program_loses_frame
  have := hfull _ _ _ _ _ _ hrun
  rw [this] at hlen
  omega

end Cao.C18
