import CaoProofs.Lemmas.SimLemmas
/-!
# C01 — the compiled program computes what the card semantics defines

See the summary at the end of the file (`compile_correct_Full`) for what is covered.
-/
namespace Cao.C01
open Cao Cao.Vm Cao.Sim Cao.Compiler

/-! ## values and globals on both sides -/

def Scalar : Val → Prop
  | .obj _ => False
  | _ => True

theorem ownD_scalar {v : Val} (h : Scalar v) (hp : Heap) (s : Sem.St) : ownD hp v = Sem.deepV s v := by
  cases v <;> first | rfl | exact absurd h id

theorem scalar_numVal (x : OVal) : Scalar (numVal x) := by
  cases x <;> trivial

theorem scalar_boolVal (b : Bool) : Scalar (Vm.boolVal b) := trivial

theorem scalar_binVal (k : BinKind) (a b : OVal) : Scalar (binVal k a b) := by
  cases k <;> first | exact scalar_numVal _ | exact scalar_boolVal _ | trivial

/-- value of the global `n` in the store of the reference semantics -/
def glookup (g : List (String × Val)) (n : String) : Option Val :=
  (g.find? (fun p => p.1 == n)).map (·.2)

/-- the names whose hashes (handles) do not collide -/
def HInj (N : String → Prop) : Prop := ∀ a b, N a → N b → hName a = hName b → a = b

/-- the globals of the reference semantics (by name) and of the VM (by id) hold the same values -/
structure GRel (F : List (UInt32 × Nat)) (N : String → Prop) (g : List (String × Val)) (vg : List Val) : Prop where
  sem_vm : ∀ n v, glookup g n = some v → N n ∧ Scalar v ∧ ∃ id, gidOf F n = some id ∧ vg[id]? = some v
  vm_sem : ∀ id v, vg[id]? = some v → v ≠ .nil → ∃ n, glookup g n = some v ∧ gidOf F n = some id

/-- everything except the value stack, the globals and the two counters is unchanged -/
def SameRest (a b : VmState) : Prop :=
  b = { a with stack := b.stack, globals := b.globals, remaining := b.remaining, dispatches := b.dispatches }

theorem SameRest.refl (a : VmState) : SameRest a a := rfl
theorem SameRest.trans {a b c : VmState} (h1 : SameRest a b) (h2 : SameRest b c) : SameRest a c := by
  unfold SameRest at *
  rw [h1] at h2
  exact h2

theorem SameRest.tick_stack (s : VmState) (st : VStack Val) : SameRest s { tick s with stack := st } := rfl

/-! ## sizes: instructions, stack depth -/

def edepth : Card → Nat
  | .un _ c => edepth c
  | .bin _ a b => max (edepth a) (edepth b + 1)
  | _ => 1

theorem ecode_lt {B : Array UInt8} {F : List (UInt32 × Nat)} : ∀ {e : Card} {pc pc' : Nat}, ECode B F e pc pc' → pc < pc'
  | .scalarInt _, _, _, h => by simp only [ECode] at h; omega
  | .scalarFloat _, _, _, h => by simp only [ECode] at h; omega
  | .scalarNil, _, _, h => by simp only [ECode] at h; omega
  | .un .not c, _, _, h => by
    simp only [ECode] at h
    obtain ⟨m, h1, _, h3⟩ := h
    have := ecode_lt h1; omega
  | .bin k a b, _, _, h => by
    simp only [ECode] at h
    obtain ⟨m1, m2, h1, h2, _, h3⟩ := h
    have := ecode_lt h1; have := ecode_lt h2; omega
  | .readVar _, _, _, h => by simp only [ECode] at h; obtain ⟨_, _, _, _, h⟩ := h; omega
  | .un .ret _, _, _, h | .un .len _, _, _, h | .un .popTable _, _, _, h | .tri _ _ _ _, _, _, h
  | .createTable, _, _, h | .abort, _, _, h | .stringLiteral _, _, _, h
  | .comment _, _, _, h | .function _, _, _, h | .nativeFunction _, _, _, h | .setVar _ _, _, _, h
  | .setGlobalVar _ _, _, _, h | .callNative _ _, _, _, h
  | .call _ _, _, _, h | .repeat _ _ _, _, _, h | .forEach _ _ _ _ _, _, _, h | .composite _ _, _, _, h
  | .dynamicCall _ _, _, _, h | .array _, _, _, h
  | .closure _ _, _, _, h => by simp [ECode] at h


/-! ## the reference semantics on the cards of the fragment -/

section semeq
variable (cx : Sem.Ctx) (f : Nat) (env : Sem.Env) (s : Sem.St)

theorem eval_zero (c : Card) : Sem.eval cx 0 env s c = (s, env, .outOfFuel) := by
  cases c <;> rfl

theorem eval_scalarInt (i : Int64) : Sem.eval cx (f + 1) env s (.scalarInt i) = (s, env, .ok (.int i)) := rfl
theorem eval_scalarFloat (b : UInt64) : Sem.eval cx (f + 1) env s (.scalarFloat b) = (s, env, .ok (.real b)) := rfl
theorem eval_scalarNil : Sem.eval cx (f + 1) env s .scalarNil = (s, env, .ok .nil) := rfl

theorem eval_not (c : Card) : Sem.eval cx (f + 1) env s (.un .not c) =
    (match Sem.eval cx f env s c with
      | (s, env, .ok v) => (s, env, .ok (Vm.boolVal (!(OVal.asBool hostF64 (Sem.deepV s v)))))
      | r => r) := rfl

theorem eval_bin (k : BinKind) (hk : isValOp k = true) (a b : Card) :
    Sem.eval cx (f + 1) env s (.bin k a b) =
    (match Sem.eval cx f env s a with
      | (s, env, .ok va) =>
        match Sem.eval cx f env s b with
        | (s, env, .ok vb) => (s, env, .ok (binVal k (Sem.deepV s va) (Sem.deepV s vb)))
        | (s, env, r) => (s, env, r)
      | (s, env, r) => (s, env, r)) := by
  cases k <;> first | rfl | (simp [isValOp] at hk)

theorem eval_readVar (n : String) : Sem.eval cx (f + 1) env s (.readVar n) = Sem.readVar cx env s n := rfl
end semeq

/-- an environment without locals (scopes that declare nothing) -/
def NoEnv (env : Sem.Env) : Prop := ∀ n, Sem.lookupEnv env n = none

theorem noEnv_base : NoEnv [[]] := fun _ => rfl

theorem noEnv_cons {env : Sem.Env} (h : NoEnv env) : NoEnv ([] :: env) := fun n => by
  have := h n
  unfold Sem.lookupEnv at this ⊢
  rw [List.findSome?_cons]
  exact this

theorem readVar_global {cx : Sem.Ctx} (hout : cx.outer = []) {env : Sem.Env} (henv : NoEnv env) {n : String}
    (hn : simpleName n = true) (s : Sem.St) :
    Sem.readVar cx env s n = (s, env, match glookup s.globals n with
      | some x => .ok x
      | none => .unspecified "read of a global that was never written") := by
  simp only [simpleName, Bool.and_eq_true, decide_eq_true_eq, Bool.not_eq_true'] at hn
  obtain ⟨hsplit, hne⟩ := hn
  have hnone : Sem.lookupEnv [] n = none := rfl
  unfold Sem.readVar
  simp only [hsplit, List.filter_nil, hne, Bool.false_eq_true, if_false, hout, henv n, hnone, List.foldl_nil]
  unfold glookup
  rcases hfind : List.find? (fun p => p.fst == n) s.globals with _ | ⟨a, b⟩ <;> simp only [hfind] <;> rfl


/-! ## single instructions in terms of `StackIs` -/

section instr
variable {P : Prog}

theorem reach_push {ip ip' : Nat} {vs : VmState} {cap : Nat} {stk : List Val} (v : Val)
    (hin : ip < P.bytecode.size) (hst : StackIs vs.stack cap stk) (hroom : stk.length + 1 < cap)
    (hrun : ∀ re st', (tick vs).stack.push v = (st', .ok ()) →
      runM (step P re ip) (tick vs) = (.ok { ip := ip' }, { tick vs with stack := st' })) :
    ∃ vs', Reach P 1 ip vs ip' vs' ∧ StackIs vs'.stack cap (v :: stk) ∧ SameRest vs vs' ∧
      vs'.globals = vs.globals := by
  obtain ⟨st', hp, hst'⟩ := hst.push v hroom
  exact ⟨{ tick vs with stack := st' }, Reach.one ⟨hin, rfl, fun re => hrun re st' hp⟩, hst', rfl, rfl⟩

theorem reach_not {ip : Nat} {vs : VmState} {cap : Nat} {stk : List Val} {a : Val}
    (hin : ip < P.bytecode.size) (hop : P.bytecode.getD ip 0 = Compiler.op.not)
    (hst : StackIs vs.stack cap (a :: stk)) (hroom : stk.length + 1 < cap) :
    ∃ vs', Reach P 1 ip vs (ip + 1) vs' ∧
      StackIs vs'.stack cap (Vm.boolVal (!(OVal.asBool hostF64 (ownD vs.heap a))) :: stk) ∧
      SameRest vs vs' ∧ vs'.globals = vs.globals := by
  obtain ⟨hv, hst1⟩ := hst.pop
  obtain ⟨st', hp, hst'⟩ := hst1.push (Vm.boolVal (!(OVal.asBool hostF64 (ownD vs.heap a)))) hroom
  refine ⟨{ tick vs with stack := st' }, Reach.one ⟨hin, rfl, fun re => ?_⟩, hst', rfl, rfl⟩
  exact step_not (s := tick vs) hop (by
    show vs.stack.pop.1.push (Vm.boolVal (!(OVal.asBool hostF64 (ownD vs.heap vs.stack.pop.2)))) = _
    rw [hv]; exact hp)

theorem reach_bin {ip : Nat} {vs : VmState} {cap : Nat} {stk : List Val} {a b : Val} (k : BinKind)
    (hk : isValOp k = true)
    (hin : ip < P.bytecode.size) (hop : P.bytecode.getD ip 0 = Compiler.binOp k)
    (hst : StackIs vs.stack cap (b :: a :: stk)) (hroom : stk.length + 1 < cap) :
    ∃ vs', Reach P 1 ip vs (ip + 1) vs' ∧
      StackIs vs'.stack cap (binVal k (ownD vs.heap a) (ownD vs.heap b) :: stk) ∧
      SameRest vs vs' ∧ vs'.globals = vs.globals := by
  obtain ⟨hvb, hst1⟩ := hst.pop
  obtain ⟨hva, hst2⟩ := hst1.pop
  obtain ⟨st', hp, hst'⟩ := hst2.push (binVal k (ownD vs.heap a) (ownD vs.heap b)) hroom
  refine ⟨{ tick vs with stack := st' }, Reach.one ⟨hin, rfl, fun re => ?_⟩, hst', rfl, rfl⟩
  exact step_bin (s := tick vs) k hk hop (by
    show vs.stack.pop.1.pop.1.push (binVal k (ownD vs.heap vs.stack.pop.1.pop.2) (ownD vs.heap vs.stack.pop.2)) = _
    rw [hva, hvb]; exact hp)

end instr

theorem edepth_pos : ∀ (e : Card), 1 ≤ edepth e
  | .un _ c => by simp only [edepth]; exact edepth_pos c
  | .bin _ a b => by simp only [edepth]; omega
  | .tri _ _ _ _ | .scalarNil | .createTable | .abort | .scalarInt _ | .scalarFloat _ | .stringLiteral _
  | .comment _ | .function _ | .nativeFunction _ | .readVar _ | .setVar _ _ | .setGlobalVar _ _
  | .callNative _ _ | .call _ _ | .repeat _ _ _ | .forEach _ _ _ _ _ | .composite _ _ | .dynamicCall _ _
  | .array _ | .closure _ _ => by simp [edepth]

section sim
variable {P : Prog} {F : List (UInt32 × Nat)} {N : String → Prop} {cx : Sem.Ctx} (hout : cx.outer = [])
include hout

theorem eval_sim (env : Sem.Env) (henv : NoEnv env) :
    ∀ (e : Card), isExpr e = true → ∀ (fuel : Nat) (σ σ' : Sem.St) (env' : Sem.Env) (v : Val) (pc pc' : Nat),
      Sem.eval cx fuel env σ e = (σ', env', .ok v) → ECode P.bytecode F e pc pc' → pc' ≤ P.bytecode.size →
      σ' = σ ∧ env = env' ∧ ∃ n, n ≤ pc' - pc ∧
        ∀ (vs : VmState) (cap : Nat) (stk : List Val), StackIs vs.stack cap stk → stk.length + edepth e < cap →
          GRel F N σ.globals vs.globals →
          Scalar v ∧ ∃ vs', Reach P n pc vs pc' vs' ∧ StackIs vs'.stack cap (v :: stk) ∧ SameRest vs vs' ∧
            vs'.globals = vs.globals
  | .scalarInt i => by
    intro _ fuel σ σ' env' v pc pc' hev hcode hsz
    cases fuel with
    | zero => rw [eval_zero] at hev; cases hev
    | succ f =>
      rw [eval_scalarInt] at hev
      simp only [Prod.mk.injEq, Sem.Res.ok.injEq] at hev
      obtain ⟨rfl, rfl, rfl⟩ := hev
      simp only [ECode] at hcode
      obtain ⟨h1, h2, rfl⟩ := hcode
      refine ⟨rfl, rfl, 1, by omega, fun vs cap stk hst hroom _ => ?_⟩
      simp only [edepth] at hroom
      obtain ⟨vs', hr, hs', hsame, hg⟩ := reach_push (P := P) (ip := pc) (ip' := pc + 9) (.int i) (by omega) hst hroom
        (fun re st' hp => by
          have := step_scalarInt (re := re) h1 (s := tick vs) (st' := st')
            (by rw [h2, Int64.toInt64_toUInt64]; exact hp)
          exact this)
      exact ⟨trivial, vs', hr, hs', hsame, hg⟩
  | .scalarFloat b => by
    intro _ fuel σ σ' env' v pc pc' hev hcode hsz
    cases fuel with
    | zero => rw [eval_zero] at hev; cases hev
    | succ f =>
      rw [eval_scalarFloat] at hev
      simp only [Prod.mk.injEq, Sem.Res.ok.injEq] at hev
      obtain ⟨rfl, rfl, rfl⟩ := hev
      simp only [ECode] at hcode
      obtain ⟨h1, h2, rfl⟩ := hcode
      refine ⟨rfl, rfl, 1, by omega, fun vs cap stk hst hroom _ => ?_⟩
      simp only [edepth] at hroom
      obtain ⟨vs', hr, hs', hsame, hg⟩ := reach_push (P := P) (ip := pc) (ip' := pc + 9) (.real b) (by omega) hst hroom
        (fun re st' hp => by
          have := step_scalarFloat (re := re) h1 (s := tick vs) (st' := st') (by rw [h2]; exact hp)
          exact this)
      exact ⟨trivial, vs', hr, hs', hsame, hg⟩
  | .scalarNil => by
    intro _ fuel σ σ' env' v pc pc' hev hcode hsz
    cases fuel with
    | zero => rw [eval_zero] at hev; cases hev
    | succ f =>
      rw [eval_scalarNil] at hev
      simp only [Prod.mk.injEq, Sem.Res.ok.injEq] at hev
      obtain ⟨rfl, rfl, rfl⟩ := hev
      simp only [ECode] at hcode
      obtain ⟨h1, rfl⟩ := hcode
      refine ⟨rfl, rfl, 1, by omega, fun vs cap stk hst hroom _ => ?_⟩
      simp only [edepth] at hroom
      obtain ⟨vs', hr, hs', hsame, hg⟩ := reach_push (P := P) (ip := pc) (ip' := pc + 1) .nil (by omega) hst hroom
        (fun re st' hp => step_scalarNil (re := re) h1 (s := tick vs) (st' := st') hp)
      exact ⟨trivial, vs', hr, hs', hsame, hg⟩
  | .un .not c => by
    intro he fuel σ σ' env' v pc pc' hev hcode hsz
    simp only [isExpr] at he
    cases fuel with
    | zero => rw [eval_zero] at hev; cases hev
    | succ f =>
      rw [eval_not] at hev
      simp only [ECode] at hcode
      obtain ⟨m, hc1, hop, rfl⟩ := hcode
      rcases hc : Sem.eval cx f env σ c with ⟨σ1, env1, r1⟩
      rw [hc] at hev
      cases r1 with
      | ok v1 =>
        simp only [Prod.mk.injEq, Sem.Res.ok.injEq] at hev
        obtain ⟨rfl, rfl, rfl⟩ := hev
        obtain ⟨rfl, rfl, n1, hn1, hsim1⟩ := eval_sim env henv c he f σ σ1 env1 v1 pc m hc hc1 (by omega)
        have hlt := ecode_lt hc1
        refine ⟨rfl, rfl, n1 + 1, by omega, fun vs cap stk hst hroom hg => ?_⟩
        simp only [edepth] at hroom
        obtain ⟨hs1, vs1, hr1, hst1, hsame1, hg1⟩ := hsim1 vs cap stk hst hroom hg
        have hpos := edepth_pos c
        obtain ⟨vs2, hr2, hst2, hsame2, hg2⟩ := reach_not (P := P) (ip := m) (by omega) hop hst1 (by omega)
        rw [ownD_scalar hs1 vs1.heap σ1] at hst2
        exact ⟨trivial, vs2, hr1.trans hr2 rfl, hst2, hsame1.trans hsame2, hg2.trans hg1⟩
      | outOfFuel | ret _ | exit | err _ | unspecified _ =>
        simp only [Prod.mk.injEq] at hev
        obtain ⟨_, _, h⟩ := hev
        cases h
  | .bin k a b => by
    intro he fuel σ σ' env' v pc pc' hev hcode hsz
    simp only [isExpr, Bool.and_eq_true] at he
    obtain ⟨⟨hk, hea⟩, heb⟩ := he
    cases fuel with
    | zero => rw [eval_zero] at hev; cases hev
    | succ f =>
      rw [eval_bin _ _ _ _ k hk] at hev
      simp only [ECode] at hcode
      obtain ⟨m1, m2, hc1, hc2, hop, rfl⟩ := hcode
      have hlt1 := ecode_lt hc1
      have hlt2 := ecode_lt hc2
      rcases hca : Sem.eval cx f env σ a with ⟨σ1, env1, r1⟩
      rw [hca] at hev
      cases r1 with
      | ok va =>
        simp only at hev
        obtain ⟨rfl, rfl, n1, hn1, hsim1⟩ := eval_sim env henv a hea f σ σ1 env1 va pc m1 hca hc1 (by omega)
        rcases hcb : Sem.eval cx f env σ1 b with ⟨σ2, env2, r2⟩
        rw [hcb] at hev
        cases r2 with
        | ok vb =>
          simp only [Prod.mk.injEq, Sem.Res.ok.injEq] at hev
          obtain ⟨rfl, rfl, rfl⟩ := hev
          obtain ⟨rfl, rfl, n2, hn2, hsim2⟩ := eval_sim env henv b heb f σ1 σ2 env2 vb m1 m2 hcb hc2 (by omega)
          refine ⟨rfl, rfl, n1 + n2 + 1, by omega, fun vs cap stk hst hroom hg => ?_⟩
          simp only [edepth] at hroom
          obtain ⟨hsa, vs1, hr1, hst1, hsame1, hg1⟩ := hsim1 vs cap stk hst (by omega) hg
          obtain ⟨hsb, vs2, hr2, hst2, hsame2, hg2⟩ := hsim2 vs1 cap (va :: stk) hst1
            (by simp only [List.length_cons]; omega) (by rw [hg1]; exact hg)
          obtain ⟨vs3, hr3, hst3, hsame3, hg3⟩ := reach_bin (P := P) (ip := m2) k hk (by omega) hop hst2 (by omega)
          rw [ownD_scalar hsa vs2.heap σ2, ownD_scalar hsb vs2.heap σ2] at hst3
          exact ⟨scalar_binVal _ _ _, vs3, (hr1.trans hr2 rfl).trans hr3 rfl, hst3,
            (hsame1.trans hsame2).trans hsame3, (hg3.trans hg2).trans hg1⟩
        | outOfFuel | ret _ | exit | err _ | unspecified _ =>
          simp only [Prod.mk.injEq] at hev
          obtain ⟨_, _, h⟩ := hev
          cases h
      | outOfFuel | ret _ | exit | err _ | unspecified _ =>
        simp only [Prod.mk.injEq] at hev
        obtain ⟨_, _, h⟩ := hev
        cases h
  | .readVar n => by
    intro he fuel σ σ' env' v pc pc' hev hcode hsz
    simp only [isExpr] at he
    cases fuel with
    | zero => rw [eval_zero] at hev; cases hev
    | succ f =>
      rw [eval_readVar, readVar_global hout henv he] at hev
      simp only [ECode] at hcode
      obtain ⟨id, hid, hop, hrd, rfl⟩ := hcode
      rcases hl : glookup σ.globals n with _ | x
      · rw [hl] at hev
        simp only [Prod.mk.injEq] at hev
        obtain ⟨_, _, h⟩ := hev
        cases h
      · rw [hl] at hev
        simp only [Prod.mk.injEq, Sem.Res.ok.injEq] at hev
        obtain ⟨rfl, rfl, rfl⟩ := hev
        refine ⟨rfl, rfl, 1, by omega, fun vs cap stk hst hroom hg => ?_⟩
        simp only [edepth] at hroom
        obtain ⟨_, hsx, id', hid', hv⟩ := hg.sem_vm n x hl
        rw [hid] at hid'
        cases hid'
        obtain ⟨vs', hr, hs', hsame, hg'⟩ := reach_push (P := P) (ip := pc) (ip' := pc + 5) x (by omega) hst hroom
          (fun re st' hp => step_readGlobalVar (re := re) hop (s := tick vs) (st' := st') (v := x)
            (by rw [hrd]; exact hv) hp)
        exact ⟨hsx, vs', hr, hs', hsame, hg'⟩
  | .un .ret _ | .un .len _ | .un .popTable _ | .tri _ _ _ _ | .createTable | .abort | .stringLiteral _
  | .comment _ | .function _ | .nativeFunction _ | .setVar _ _ | .setGlobalVar _ _ | .callNative _ _
  | .call _ _ | .repeat _ _ _ | .forEach _ _ _ _ _ | .composite _ _ | .dynamicCall _ _ | .array _
  | .closure _ _ => by
    intro he
    simp [isExpr] at he
end sim

/-- the assignment to a global of the reference semantics -/
def gupd (g : List (String × Val)) (name : String) (x : Val) : List (String × Val) :=
  if g.any (·.1 == name) then g.map (fun p => if p.1 == name then (name, x) else p) else g ++ [(name, x)]

section semeq2
variable (cx : Sem.Ctx) (f : Nat) (env : Sem.Env) (s : Sem.St)

theorem exec_zero (c : Card) : Sem.exec cx 0 env s c = (s, env, .outOfFuel) := by
  cases c <;> rfl

theorem exec_comment (t : String) : Sem.exec cx (f + 1) env s (.comment t) = (s, env, .ok ()) := rfl

theorem exec_composite (t : String) (cs : List Card) :
    Sem.exec cx (f + 1) env s (.composite t cs) = Sem.execListWith (Sem.exec cx f) env s cs := rfl

theorem exec_setGlobal (n : String) (e : Card) :
    Sem.exec cx (f + 1) env s (.setGlobalVar n e) =
    (match Sem.eval cx f env s e with
      | (s, env, .ok x) =>
        if n.isEmpty then (s, env, .unspecified "empty variable name (compile error)")
        else ({ s with globals := gupd s.globals n x }, env, .ok ())
      | (s, env, .ret v) => (s, env, .ret v)
      | (s, env, .exit) => (s, env, .exit)
      | (s, env, .err e) => (s, env, .err e)
      | (s, env, .unspecified w) => (s, env, .unspecified w)
      | (s, env, .outOfFuel) => (s, env, .outOfFuel)) := rfl

theorem exec_ifTrue (c b : Card) :
    Sem.exec cx (f + 1) env s (.bin .ifTrue c b) =
    (match Sem.eval cx f env s c with
      | (s, env, .ok x) => if Sem.truthy s x then Sem.exec cx f env s b else (s, env, .ok ())
      | (s, env, .ret v) => (s, env, .ret v)
      | (s, env, .exit) => (s, env, .exit)
      | (s, env, .err e) => (s, env, .err e)
      | (s, env, .unspecified w) => (s, env, .unspecified w)
      | (s, env, .outOfFuel) => (s, env, .outOfFuel)) := rfl

theorem exec_ifFalse (c b : Card) :
    Sem.exec cx (f + 1) env s (.bin .ifFalse c b) =
    (match Sem.eval cx f env s c with
      | (s, env, .ok x) => if Sem.truthy s x then (s, env, .ok ()) else Sem.exec cx f env s b
      | (s, env, .ret v) => (s, env, .ret v)
      | (s, env, .exit) => (s, env, .exit)
      | (s, env, .err e) => (s, env, .err e)
      | (s, env, .unspecified w) => (s, env, .unspecified w)
      | (s, env, .outOfFuel) => (s, env, .outOfFuel)) := rfl

theorem exec_ifElse (c a b : Card) :
    Sem.exec cx (f + 1) env s (.tri .ifElse c a b) =
    (match Sem.eval cx f env s c with
      | (s, env, .ok x) => if Sem.truthy s x then Sem.exec cx f env s a else Sem.exec cx f env s b
      | (s, env, .ret v) => (s, env, .ret v)
      | (s, env, .exit) => (s, env, .exit)
      | (s, env, .err e) => (s, env, .err e)
      | (s, env, .unspecified w) => (s, env, .unspecified w)
      | (s, env, .outOfFuel) => (s, env, .outOfFuel)) := rfl

theorem exec_while (c b : Card) :
    Sem.exec cx (f + 1) env s (.bin .while c b) =
    (match Sem.eval cx f env s c with
      | (s, env, .ok x) =>
        if Sem.truthy s x then
          match Sem.exec cx f ([] :: env) s b with
          | (s, _, .ok ()) => Sem.exec cx f env s (.bin .while c b)
          | (s, _, r) => (s, env, r)
        else (s, env, .ok ())
      | (s, env, .ret v) => (s, env, .ret v)
      | (s, env, .exit) => (s, env, .exit)
      | (s, env, .err e) => (s, env, .err e)
      | (s, env, .unspecified w) => (s, env, .unspecified w)
      | (s, env, .outOfFuel) => (s, env, .outOfFuel)) := rfl
end semeq2

/-! ## assignment to a global on both sides -/

theorem glookup_cons (p : String × Val) (g : List (String × Val)) (n' : String) :
    glookup (p :: g) n' = if p.1 = n' then some p.2 else glookup g n' := by
  unfold glookup
  rw [List.find?_cons]
  by_cases h : p.1 = n'
  · simp [h]
  · have hb : (p.1 == n') = false := by simpa using h
    simp [h, hb]

theorem glookup_map_upd (g : List (String × Val)) (n : String) (x : Val) (n' : String) :
    glookup (g.map (fun p => if p.1 == n then (n, x) else p)) n' =
      if n' = n then (if g.any (·.1 == n) then some x else none) else glookup g n' := by
  induction g with
  | nil => simp [glookup]
  | cons p g ih =>
    rw [List.map_cons, glookup_cons, ih, glookup_cons, List.any_cons]
    by_cases h1 : p.1 = n
    · by_cases h2 : n' = n
      · subst h2; simp [h1]
      · have : ¬ (n = n') := fun h => h2 h.symm
        simp [h1, h2, this]
    · have hb : (p.1 == n) = false := by simpa using h1
      by_cases h2 : n' = n
      · subst h2; rw [hb, Bool.false_or]; simp [h1]
      · rw [hb]; simp [h2]

theorem glookup_append_single (g : List (String × Val)) (n : String) (x : Val) (n' : String)
    (hany : g.any (·.1 == n) = false) :
    glookup (g ++ [(n, x)]) n' = if n' = n then some x else glookup g n' := by
  induction g with
  | nil =>
    rw [List.nil_append, glookup_cons]
    by_cases h : n' = n
    · subst h; simp
    · have : ¬ (n = n') := fun h' => h h'.symm
      simp [h, this, glookup]
  | cons p g ih =>
    rw [List.any_cons, Bool.or_eq_false_iff] at hany
    rw [List.cons_append, glookup_cons, ih hany.2, glookup_cons]
    have hp : ¬ (p.1 = n) := by simpa using hany.1
    by_cases h2 : n' = n
    · subst h2; simp [hp]
    · simp [h2]

theorem glookup_gupd (g : List (String × Val)) (n : String) (x : Val) (n' : String) :
    glookup (gupd g n x) n' = if n' = n then some x else glookup g n' := by
  unfold gupd
  by_cases hany : g.any (·.1 == n) = true
  · rw [if_pos hany, glookup_map_upd, hany]; simp
  · rw [if_neg hany, glookup_append_single _ _ _ _ (by simpa only [Bool.not_eq_true] using hany)]

/-- `SetGlobalVar` of the VM on the list of globals -/
def vmset (vg : List Val) (id : Nat) (x : Val) : List Val :=
  (if vg.length ≤ id then vg ++ List.replicate (id + 1 - vg.length) .nil else vg).set id x

theorem vmset_self (vg : List Val) (id : Nat) (x : Val) : (vmset vg id x)[id]? = some x := by
  unfold vmset
  split
  · rw [List.getElem?_set_self (by simp; omega)]
  · rw [List.getElem?_set_self (by omega)]

theorem vmset_other (vg : List Val) (id : Nat) (x : Val) (j : Nat) (hj : j ≠ id) :
    (vmset vg id x)[j]? = vg[j]? ∨ ((vmset vg id x)[j]? = some .nil ∧ vg[j]? = none) := by
  unfold vmset
  split
  · rename_i h
    rw [List.getElem?_set_ne (by omega)]
    by_cases hlt : j < vg.length
    · left; rw [List.getElem?_append_left hlt]
    · by_cases hlt2 : j < id + 1
      · right
        refine ⟨?_, by simp; omega⟩
        rw [List.getElem?_append_right (by omega), List.getElem?_replicate]
        rw [if_pos (by omega)]
      · left
        rw [List.getElem?_eq_none (by simp; omega), List.getElem?_eq_none (by omega)]
  · left; rw [List.getElem?_set_ne (by omega)]

/-- distinct entries of the id table have distinct ids -/
def FInj (F : List (UInt32 × Nat)) : Prop := ∀ a b, a ∈ F → b ∈ F → a.2 = b.2 → a = b

theorem gidOf_mem {F : List (UInt32 × Nat)} {n : String} {id : Nat} (h : gidOf F n = some id) :
    (Vm.hName n, id) ∈ F := by
  unfold gidOf at h
  rcases hf : List.find? (fun p => p.fst == Vm.hName n) F with _ | ⟨a, b⟩
  · rw [hf] at h; cases h
  · rw [hf] at h
    simp only [Option.map_some, Option.some.injEq] at h
    subst h
    have h1 := List.find?_some hf
    have h2 := List.mem_of_find?_eq_some hf
    simp only [beq_iff_eq] at h1
    rw [← h1]; exact h2

theorem gidOf_inj {F : List (UInt32 × Nat)} {N : String → Prop} (hF : FInj F) (hN : HInj N) {a b : String}
    {id : Nat} (ha : N a) (hb : N b) (h1 : gidOf F a = some id) (h2 : gidOf F b = some id) : a = b := by
  have := hF _ _ (gidOf_mem h1) (gidOf_mem h2) rfl
  exact hN a b ha hb (by simpa using congrArg Prod.fst this)

theorem GRel.set {F : List (UInt32 × Nat)} {N : String → Prop} {g : List (String × Val)} {vg : List Val}
    {n : String} {x : Val} {id : Nat} (h : GRel F N g vg) (hF : FInj F) (hN : HInj N) (hn : N n)
    (hx : Scalar x) (hid : gidOf F n = some id) : GRel F N (gupd g n x) (vmset vg id x) := by
  constructor
  · intro n' v hl
    rw [glookup_gupd] at hl
    by_cases hnn : n' = n
    · subst hnn
      simp only [if_true, Option.some.injEq] at hl
      subst hl
      exact ⟨hn, hx, id, hid, vmset_self _ _ _⟩
    · rw [if_neg hnn] at hl
      obtain ⟨hn', hv, id', hid', hv'⟩ := h.sem_vm n' v hl
      refine ⟨hn', hv, id', hid', ?_⟩
      have hne : id' ≠ id := fun e => hnn (gidOf_inj hF hN hn' hn hid' (e ▸ hid))
      rcases vmset_other vg id x id' hne with h1 | ⟨_, h2⟩
      · rw [h1]; exact hv'
      · rw [h2] at hv'; cases hv'
  · intro j v hj hv
    by_cases hji : j = id
    · subst hji
      rw [vmset_self] at hj
      simp only [Option.some.injEq] at hj
      subst hj
      exact ⟨n, by rw [glookup_gupd]; simp, hid⟩
    · rcases vmset_other vg id x j hji with h1 | ⟨h1, _⟩
      · rw [h1] at hj
        obtain ⟨n', hl, hid'⟩ := h.vm_sem j v hj hv
        refine ⟨n', ?_, hid'⟩
        rw [glookup_gupd, if_neg]
        · exact hl
        · intro e; subst e; rw [hid] at hid'; cases hid'; exact hji rfl
      · rw [h1] at hj; cases hj; exact absurd rfl hv


/-! ## statements: sizes -/

mutual
  /-- stack slots needed to execute the statement card -/
  def sdepth : Card → Nat
    | .setGlobalVar _ e => edepth e
    | .bin _ c b => max (edepth c) (sdepth b)
    | .tri _ c t e => max (edepth c) (max (sdepth t) (sdepth e))
    | .composite _ cs => sdepths cs
    | _ => 0
  def sdepths : List Card → Nat
    | [] => 0
    | c :: cs => max (sdepth c) (sdepths cs)
end

/-- not a static call -/
def noCall : Card → Bool
  | .call _ _ => false
  | _ => true

theorem noCall_expr {e : Card} (h : isExpr e = true) : noCall e = true := by
  cases e <;> first | rfl | (simp [isExpr] at h)

mutual
  /-- no `While`, `Repeat` or static call inside -/
  def loopFree : Card → Bool
    | .bin .while _ _ => false
    | .repeat _ _ _ => false
    | .setVar _ e => noCall e
    | .setGlobalVar _ e => noCall e
    | .un _ e => noCall e
    | .bin _ _ b => loopFree b
    | .tri _ _ t e => loopFree t && loopFree e
    | .composite _ cs => loopFrees cs
    | _ => true
  def loopFrees : List Card → Bool
    | [] => true
    | c :: cs => loopFree c && loopFrees cs
end

mutual
  /-- the names of the globals assigned by the statement card -/
  def snames : Card → List String
    | .setGlobalVar n _ => [n]
    | .bin _ _ b => snames b
    | .repeat _ _ b => snames b
    | .tri _ _ t e => snames t ++ snames e
    | .composite _ cs => snamess cs
    | _ => []
  def snamess : List Card → List String
    | [] => []
    | c :: cs => snames c ++ snamess cs
end

mutual
theorem scode_le {B : Array UInt8} {F : List (UInt32 × Nat)} :
    ∀ {c : Card} {pc pc' : Nat}, isStmt c = true → SCode B F c pc pc' → pc ≤ pc'
  | .setGlobalVar _ e, _, _, _, h => by
    simp only [SCode] at h
    obtain ⟨m, id, h1, _, _, _, rfl⟩ := h
    have := ecode_lt h1; omega
  | .bin .ifTrue c b, _, _, hs, h => by
    simp only [SCode] at h
    simp only [isStmt, Bool.and_eq_true] at hs
    obtain ⟨m, h1, _, _, h2⟩ := h
    have := ecode_lt h1; have := scode_le hs.2 h2; omega
  | .bin .ifFalse c b, _, _, hs, h => by
    simp only [SCode] at h
    simp only [isStmt, Bool.and_eq_true] at hs
    obtain ⟨m, h1, _, _, h2⟩ := h
    have := ecode_lt h1; have := scode_le hs.2 h2; omega
  | .bin .while c b, _, _, hs, h => by
    simp only [SCode] at h
    simp only [isStmt, Bool.and_eq_true] at hs
    obtain ⟨m1, m2, h1, _, _, h2, _, _, rfl⟩ := h
    have := ecode_lt h1; have := scode_le hs.2 h2; omega
  | .tri .ifElse c t e, _, _, hs, h => by
    simp only [SCode] at h
    simp only [isStmt, Bool.and_eq_true] at hs
    obtain ⟨m1, m2, h1, _, _, h2, _, _, h3⟩ := h
    have := ecode_lt h1; have := scode_le hs.1.2 h2; have := scode_le hs.2 h3; omega
  | .composite _ cs, _, _, hs, h => by
    simp only [SCode] at h
    simp only [isStmt] at hs
    exact scodes_le hs h
  | .comment _, _, _, _, h => by simp only [SCode] at h; omega
  | .bin .add _ _, _, _, hs, _ | .bin .sub _ _, _, _, hs, _ | .bin .mul _ _, _, _, hs, _ | .bin .div _ _, _, _, hs, _
  | .bin .less _ _, _, _, hs, _ | .bin .lessOrEq _ _, _, _, hs, _
  | .bin .equals _ _, _, _, hs, _ | .bin .notEquals _ _, _, _, hs, _ | .bin .and _ _, _, _, hs, _
  | .bin .or _ _, _, _, hs, _ | .bin .xor _ _, _, _, hs, _
  | .bin .getProperty _ _, _, _, hs, _ | .bin .get _ _, _, _, hs, _ | .bin .appendTable _ _, _, _, hs, _
  | .un _ _, _, _, hs, _ | .tri .setProperty _ _ _, _, _, hs, _ | .scalarNil, _, _, hs, _ | .createTable, _, _, hs, _
  | .abort, _, _, hs, _ | .scalarInt _, _, _, hs, _ | .scalarFloat _, _, _, hs, _
  | .stringLiteral _, _, _, hs, _ | .function _, _, _, hs, _ | .nativeFunction _, _, _, hs, _
  | .readVar _, _, _, hs, _ | .setVar _ _, _, _, hs, _ | .callNative _ _, _, _, hs, _
  | .call _ _, _, _, hs, _ | .repeat _ _ _, _, _, hs, _ | .forEach _ _ _ _ _, _, _, hs, _
  | .dynamicCall _ _, _, _, hs, _ | .array _, _, _, hs, _ | .closure _ _, _, _, hs, _ => by
    simp [isStmt] at hs
theorem scodes_le {B : Array UInt8} {F : List (UInt32 × Nat)} :
    ∀ {cs : List Card} {pc pc' : Nat}, isStmts cs = true → SCodes B F cs pc pc' → pc ≤ pc'
  | [], _, _, _, h => by simp only [SCodes] at h; omega
  | c :: cs, _, _, hs, h => by
    simp only [SCodes] at h
    simp only [isStmts, Bool.and_eq_true] at hs
    obtain ⟨m, h1, h2⟩ := h
    have := scode_le hs.1 h1; have := scodes_le hs.2 h2; omega
end


section instr2
variable {P : Prog}

theorem reach_setGlobal {ip id : Nat} {vs : VmState} {cap : Nat} {stk : List Val} {x : Val}
    (hin : ip < P.bytecode.size) (hop : P.bytecode.getD ip 0 = Compiler.op.setGlobalVar)
    (hid : rdU32 P.bytecode (ip + 1) = id) (hst : StackIs vs.stack cap (x :: stk)) :
    ∃ vs', Reach P 1 ip vs (ip + 5) vs' ∧ StackIs vs'.stack cap stk ∧ SameRest vs vs' ∧
      vs'.globals = vmset vs.globals id x := by
  obtain ⟨hv, hst1⟩ := hst.pop
  refine ⟨{ tick vs with stack := vs.stack.pop.1, globals := vmset vs.globals id x },
    Reach.one ⟨hin, rfl, fun re => ?_⟩, hst1, rfl, rfl⟩
  rw [step_setGlobalVar (s := tick vs) hop, hid]
  show _ = (_, { tick vs with stack := vs.stack.pop.1, globals := vmset vs.globals id x })
  rw [← hv]
  rfl

theorem reach_gotoIfFalse {ip : Nat} {vs : VmState} {cap : Nat} {stk : List Val} {x : Val}
    (hin : ip < P.bytecode.size) (hop : P.bytecode.getD ip 0 = Compiler.op.gotoIfFalse)
    (hst : StackIs vs.stack cap (x :: stk)) :
    ∃ vs', Reach P 1 ip vs (if OVal.asBool hostF64 (ownD vs.heap x) then ip + 5 else rdU32 P.bytecode (ip + 1)) vs' ∧
      StackIs vs'.stack cap stk ∧ SameRest vs vs' ∧ vs'.globals = vs.globals := by
  obtain ⟨hv, hst1⟩ := hst.pop
  refine ⟨{ tick vs with stack := vs.stack.pop.1 }, Reach.one ⟨hin, rfl, fun re => ?_⟩, hst1, rfl, rfl⟩
  rw [step_gotoIfFalse (s := tick vs) hop]
  show (_, { tick vs with stack := vs.stack.pop.1 }) = _
  have : (tick vs).stack.pop.2 = x := hv
  rw [this]
  rfl

theorem reach_gotoIfTrue {ip : Nat} {vs : VmState} {cap : Nat} {stk : List Val} {x : Val}
    (hin : ip < P.bytecode.size) (hop : P.bytecode.getD ip 0 = Compiler.op.gotoIfTrue)
    (hst : StackIs vs.stack cap (x :: stk)) :
    ∃ vs', Reach P 1 ip vs (if OVal.asBool hostF64 (ownD vs.heap x) then rdU32 P.bytecode (ip + 1) else ip + 5) vs' ∧
      StackIs vs'.stack cap stk ∧ SameRest vs vs' ∧ vs'.globals = vs.globals := by
  obtain ⟨hv, hst1⟩ := hst.pop
  refine ⟨{ tick vs with stack := vs.stack.pop.1 }, Reach.one ⟨hin, rfl, fun re => ?_⟩, hst1, rfl, rfl⟩
  rw [step_gotoIfTrue (s := tick vs) hop]
  show (_, { tick vs with stack := vs.stack.pop.1 }) = _
  have : (tick vs).stack.pop.2 = x := hv
  rw [this]
  rfl

theorem reach_goto {ip : Nat} {vs : VmState} (hin : ip < P.bytecode.size)
    (hop : P.bytecode.getD ip 0 = Compiler.op.goto) :
    ∃ vs', Reach P 1 ip vs (rdU32 P.bytecode (ip + 1)) vs' ∧ vs'.stack = vs.stack ∧ SameRest vs vs' ∧
      vs'.globals = vs.globals :=
  ⟨tick vs, Reach.one ⟨hin, rfl, fun _ => step_goto (s := tick vs) hop⟩, rfl, rfl, rfl⟩

end instr2

/-! ## simulation of statement cards -/

section stmtsim
variable (P : Prog) (F : List (UInt32 × Nat)) (N : String → Prop) (cx : Sem.Ctx)

/-- what the VM does for a piece of code `[pc, pc')`, given what the reference semantics did:
    a number of dispatches `n` that depends only on the reference execution -/
def VmSim (σ σ' : Sem.St) (pc pc' : Nat) (depth : Nat) (lf : Bool) : Prop :=
  ∃ n, (lf = true → n ≤ pc' - pc) ∧
    ∀ (vs : VmState) (cap : Nat), StackIs vs.stack cap [] → depth < cap → GRel F N σ.globals vs.globals →
      ∃ vs', Reach P n pc vs pc' vs' ∧ StackIs vs'.stack cap [] ∧ SameRest vs vs' ∧
        GRel F N σ'.globals vs'.globals

/-- the simulation statement for one statement card at fuel `f` -/
def StmtSim (f : Nat) (c : Card) : Prop :=
  isStmt c = true → ∀ (env : Sem.Env), NoEnv env → ∀ (σ σ' : Sem.St) (env' : Sem.Env) (pc pc' : Nat),
    Sem.exec cx f env σ c = (σ', env', .ok ()) → SCode P.bytecode F c pc pc' → pc' ≤ P.bytecode.size →
    (∀ n ∈ snames c, N n) →
      env = env' ∧ σ' = { σ with globals := σ'.globals } ∧ VmSim P F N σ σ' pc pc' (sdepth c) (loopFree c)

def StmtsSim (f : Nat) (cs : List Card) : Prop :=
  isStmts cs = true → ∀ (env : Sem.Env), NoEnv env → ∀ (σ σ' : Sem.St) (env' : Sem.Env) (pc pc' : Nat),
    Sem.execListWith (Sem.exec cx f) env σ cs = (σ', env', .ok ()) → SCodes P.bytecode F cs pc pc' →
    pc' ≤ P.bytecode.size → (∀ n ∈ snamess cs, N n) →
      env = env' ∧ σ' = { σ with globals := σ'.globals } ∧ VmSim P F N σ σ' pc pc' (sdepths cs) (loopFrees cs)

variable {P F N cx}

theorem stmts_sim {f : Nat} (ih : ∀ c, StmtSim P F N cx f c) : ∀ cs, StmtsSim P F N cx f cs
  | [] => by
    intro _ env henv σ σ' env' pc pc' hex hcode _ _
    simp only [Sem.execListWith, Prod.mk.injEq] at hex
    obtain ⟨rfl, rfl, _⟩ := hex
    simp only [SCodes] at hcode
    subst hcode
    exact ⟨rfl, rfl, 0, fun _ => Nat.zero_le _, fun vs cap hst _ hg =>
      ⟨vs, Reach.refl _ _, hst, SameRest.refl _, hg⟩⟩
  | c :: cs => by
    intro hs env henv σ σ' env' pc pc' hex hcode hsz hN
    simp only [isStmts, Bool.and_eq_true] at hs
    simp only [SCodes] at hcode
    obtain ⟨m, hc1, hc2⟩ := hcode
    simp only [snamess, List.mem_append] at hN
    have hle2 := scodes_le hs.2 hc2
    have hle1 := scode_le hs.1 hc1
    simp only [Sem.execListWith] at hex
    rcases hc : Sem.exec cx f env σ c with ⟨σ1, env1, r1⟩
    rw [hc] at hex
    cases r1 with
    | ok u =>
      cases u
      simp only at hex
      obtain ⟨rfl, e1, n1, hn1, hsim1⟩ :=
        ih c hs.1 env henv σ σ1 env1 pc m hc hc1 (by omega) (fun n hn => hN n (Or.inl hn))
      obtain ⟨rfl, e2, n2, hn2, hsim2⟩ :=
        stmts_sim ih cs hs.2 env henv σ1 σ' env' m pc' hex hc2 hsz (fun n hn => hN n (Or.inr hn))
      refine ⟨rfl, by rw [e2, e1], n1 + n2, ?_, fun vs cap hst hd hg => ?_⟩
      · intro hl
        simp only [loopFrees, Bool.and_eq_true] at hl
        have := hn1 hl.1; have := hn2 hl.2; omega
      · simp only [sdepths] at hd
        obtain ⟨vs1, hr1, hst1, hsame1, hg1⟩ := hsim1 vs cap hst (by omega) hg
        obtain ⟨vs2, hr2, hst2, hsame2, hg2⟩ := hsim2 vs1 cap hst1 (by omega) hg1
        exact ⟨vs2, hr1.trans hr2 rfl, hst2, hsame1.trans hsame2, hg2⟩
    | outOfFuel | ret _ | exit | err _ | unspecified _ =>
      simp only [Prod.mk.injEq] at hex
      obtain ⟨_, _, h⟩ := hex
      cases h

theorem truthy_eq {x : Val} (hx : Scalar x) (hp : Heap) (σ : Sem.St) :
    OVal.asBool hostF64 (ownD hp x) = Sem.truthy σ x := by
  rw [ownD_scalar hx hp σ]; rfl

variable (hout : cx.outer = []) (hFinj : FInj F) (hNinj : HInj N)
include hout hFinj hNinj

theorem sim_setGlobal (f : Nat) (n : String) (e : Card) : StmtSim P F N cx (f + 1) (.setGlobalVar n e) := by
  intro hs env henv σ σ' env' pc pc' hex hcode hsz hN
  simp only [isStmt, Bool.and_eq_true, Bool.not_eq_true'] at hs
  obtain ⟨hne, he⟩ := hs
  rw [exec_setGlobal] at hex
  simp only [SCode] at hcode
  obtain ⟨m, id, hc1, hop, hid, hrd, rfl⟩ := hcode
  rcases hc : Sem.eval cx f env σ e with ⟨σ1, env1, r1⟩
  rw [hc] at hex
  cases r1 with
  | ok x =>
    simp only [hne, Bool.false_eq_true, if_false, Prod.mk.injEq, and_true] at hex
    obtain ⟨rfl, rfl⟩ := hex
    obtain ⟨rfl, rfl, n1, hn1, hsim1⟩ := eval_sim hout env henv e he f σ σ1 env1 x pc m hc hc1 (by omega)
    have hlt := ecode_lt hc1
    refine ⟨rfl, rfl, n1 + 1, fun _ => by omega, fun vs cap hst hd hg => ?_⟩
    simp only [sdepth] at hd
    obtain ⟨hsx, vs1, hr1, hst1, hsame1, hg1⟩ := hsim1 vs cap [] hst (by simpa using hd) hg
    obtain ⟨vs2, hr2, hst2, hsame2, hg2⟩ := reach_setGlobal (P := P) (ip := m) (by omega) hop hrd hst1
    refine ⟨vs2, hr1.trans hr2 rfl, hst2, hsame1.trans hsame2, ?_⟩
    rw [hg2, hg1]
    exact hg.set hFinj hNinj (hN n (by simp [snames])) hsx hid
  | outOfFuel | ret _ | exit | err _ | unspecified _ =>
    simp only [Prod.mk.injEq] at hex
    obtain ⟨_, _, h⟩ := hex
    cases h

omit hFinj hNinj in
theorem sim_ifTrue (f : Nat) (ih : ∀ c, StmtSim P F N cx f c) (c b : Card) :
    StmtSim P F N cx (f + 1) (.bin .ifTrue c b) := by
  intro hs env henv σ σ' env' pc pc' hex hcode hsz hN
  simp only [isStmt, Bool.and_eq_true] at hs
  obtain ⟨hec, hsb⟩ := hs
  rw [exec_ifTrue] at hex
  simp only [SCode] at hcode
  obtain ⟨m, hc1, hop, hrd, hc2⟩ := hcode
  have hlt := ecode_lt hc1
  have hle := scode_le hsb hc2
  rcases hc : Sem.eval cx f env σ c with ⟨σ1, env1, r1⟩
  rw [hc] at hex
  cases r1 with
  | ok x =>
    simp only at hex
    obtain ⟨rfl, rfl, n1, hn1, hsim1⟩ := eval_sim hout env henv c hec f σ σ1 env1 x pc m hc hc1 (by omega)
    by_cases ht : Sem.truthy σ1 x = true
    · rw [if_pos ht] at hex
      obtain ⟨rfl, e2, n3, hn3, hsim3⟩ :=
        ih b hsb env henv σ1 σ' env' (m + 5) pc' hex hc2 hsz (fun n hn => hN n (by simpa [snames] using hn))
      refine ⟨rfl, e2, n1 + 1 + n3, ?_, fun vs cap hst hd hg => ?_⟩
      · intro hl
        have := hn3 (by simpa [loopFree] using hl)
        omega
      · simp only [sdepth] at hd
        obtain ⟨hsx, vs1, hr1, hst1, hsame1, hg1⟩ := hsim1 vs cap [] hst (by simp only [List.length_nil]; omega) hg
        obtain ⟨vs2, hr2, hst2, hsame2, hg2⟩ := reach_gotoIfFalse (P := P) (ip := m) (by omega) hop hst1
        rw [truthy_eq hsx vs1.heap σ1, if_pos ht] at hr2
        obtain ⟨vs3, hr3, hst3, hsame3, hg3⟩ := hsim3 vs2 cap hst2 (by omega) (by rw [hg2, hg1]; exact hg)
        exact ⟨vs3, (hr1.trans hr2 rfl).trans hr3 rfl, hst3, (hsame1.trans hsame2).trans hsame3, hg3⟩
    · rw [if_neg ht] at hex
      simp only [Prod.mk.injEq, and_true] at hex
      obtain ⟨rfl, rfl⟩ := hex
      refine ⟨rfl, rfl, n1 + 1, fun _ => by omega, fun vs cap hst hd hg => ?_⟩
      simp only [sdepth] at hd
      obtain ⟨hsx, vs1, hr1, hst1, hsame1, hg1⟩ := hsim1 vs cap [] hst (by simp only [List.length_nil]; omega) hg
      obtain ⟨vs2, hr2, hst2, hsame2, hg2⟩ := reach_gotoIfFalse (P := P) (ip := m) (by omega) hop hst1
      rw [truthy_eq hsx vs1.heap σ1, if_neg ht, hrd] at hr2
      exact ⟨vs2, hr1.trans hr2 rfl, hst2, hsame1.trans hsame2, by rw [hg2, hg1]; exact hg⟩
  | outOfFuel | ret _ | exit | err _ | unspecified _ =>
    simp only [Prod.mk.injEq] at hex
    obtain ⟨_, _, h⟩ := hex
    cases h

omit hFinj hNinj in
theorem sim_ifFalse (f : Nat) (ih : ∀ c, StmtSim P F N cx f c) (c b : Card) :
    StmtSim P F N cx (f + 1) (.bin .ifFalse c b) := by
  intro hs env henv σ σ' env' pc pc' hex hcode hsz hN
  simp only [isStmt, Bool.and_eq_true] at hs
  obtain ⟨hec, hsb⟩ := hs
  rw [exec_ifFalse] at hex
  simp only [SCode] at hcode
  obtain ⟨m, hc1, hop, hrd, hc2⟩ := hcode
  have hlt := ecode_lt hc1
  have hle := scode_le hsb hc2
  rcases hc : Sem.eval cx f env σ c with ⟨σ1, env1, r1⟩
  rw [hc] at hex
  cases r1 with
  | ok x =>
    simp only at hex
    obtain ⟨rfl, rfl, n1, hn1, hsim1⟩ := eval_sim hout env henv c hec f σ σ1 env1 x pc m hc hc1 (by omega)
    by_cases ht : Sem.truthy σ1 x = true
    · rw [if_pos ht] at hex
      simp only [Prod.mk.injEq, and_true] at hex
      obtain ⟨rfl, rfl⟩ := hex
      refine ⟨rfl, rfl, n1 + 1, fun _ => by omega, fun vs cap hst hd hg => ?_⟩
      simp only [sdepth] at hd
      obtain ⟨hsx, vs1, hr1, hst1, hsame1, hg1⟩ := hsim1 vs cap [] hst (by simp only [List.length_nil]; omega) hg
      obtain ⟨vs2, hr2, hst2, hsame2, hg2⟩ := reach_gotoIfTrue (P := P) (ip := m) (by omega) hop hst1
      rw [truthy_eq hsx vs1.heap σ1, if_pos ht, hrd] at hr2
      exact ⟨vs2, hr1.trans hr2 rfl, hst2, hsame1.trans hsame2, by rw [hg2, hg1]; exact hg⟩
    · rw [if_neg ht] at hex
      obtain ⟨rfl, e2, n3, hn3, hsim3⟩ :=
        ih b hsb env henv σ1 σ' env' (m + 5) pc' hex hc2 hsz (fun n hn => hN n (by simpa [snames] using hn))
      refine ⟨rfl, e2, n1 + 1 + n3, ?_, fun vs cap hst hd hg => ?_⟩
      · intro hl
        have := hn3 (by simpa [loopFree] using hl)
        omega
      · simp only [sdepth] at hd
        obtain ⟨hsx, vs1, hr1, hst1, hsame1, hg1⟩ := hsim1 vs cap [] hst (by simp only [List.length_nil]; omega) hg
        obtain ⟨vs2, hr2, hst2, hsame2, hg2⟩ := reach_gotoIfTrue (P := P) (ip := m) (by omega) hop hst1
        rw [truthy_eq hsx vs1.heap σ1, if_neg ht] at hr2
        obtain ⟨vs3, hr3, hst3, hsame3, hg3⟩ := hsim3 vs2 cap hst2 (by omega) (by rw [hg2, hg1]; exact hg)
        exact ⟨vs3, (hr1.trans hr2 rfl).trans hr3 rfl, hst3, (hsame1.trans hsame2).trans hsame3, hg3⟩
  | outOfFuel | ret _ | exit | err _ | unspecified _ =>
    simp only [Prod.mk.injEq] at hex
    obtain ⟨_, _, h⟩ := hex
    cases h

omit hFinj hNinj in
theorem sim_ifElse (f : Nat) (ih : ∀ c, StmtSim P F N cx f c) (c t e : Card) :
    StmtSim P F N cx (f + 1) (.tri .ifElse c t e) := by
  intro hs env henv σ σ' env' pc pc' hex hcode hsz hN
  simp only [isStmt, Bool.and_eq_true] at hs
  obtain ⟨⟨hec, hst_⟩, hse⟩ := hs
  rw [exec_ifElse] at hex
  simp only [SCode] at hcode
  obtain ⟨m1, m2, hc1, hop1, hrd1, hc2, hop2, hrd2, hc3⟩ := hcode
  have hlt := ecode_lt hc1
  have hle2 := scode_le hst_ hc2
  have hle3 := scode_le hse hc3
  rcases hc : Sem.eval cx f env σ c with ⟨σ1, env1, r1⟩
  rw [hc] at hex
  cases r1 with
  | ok x =>
    simp only at hex
    obtain ⟨rfl, rfl, n1, hn1, hsim1⟩ := eval_sim hout env henv c hec f σ σ1 env1 x pc m1 hc hc1 (by omega)
    by_cases ht : Sem.truthy σ1 x = true
    · rw [if_pos ht] at hex
      obtain ⟨rfl, e2, n3, hn3, hsim3⟩ :=
        ih t hst_ env henv σ1 σ' env' (m1 + 5) m2 hex hc2 (by omega)
          (fun n hn => hN n (by simp only [snames, List.mem_append]; exact Or.inl hn))
      refine ⟨rfl, e2, n1 + 1 + n3 + 1, ?_, fun vs cap hst hd hg => ?_⟩
      · intro hl
        simp only [loopFree, Bool.and_eq_true] at hl
        have := hn3 hl.1
        omega
      · simp only [sdepth] at hd
        obtain ⟨hsx, vs1, hr1, hst1, hsame1, hg1⟩ := hsim1 vs cap [] hst (by simp only [List.length_nil]; omega) hg
        obtain ⟨vs2, hr2, hst2, hsame2, hg2⟩ := reach_gotoIfFalse (P := P) (ip := m1) (by omega) hop1 hst1
        rw [truthy_eq hsx vs1.heap σ1, if_pos ht] at hr2
        obtain ⟨vs3, hr3, hst3, hsame3, hg3⟩ := hsim3 vs2 cap hst2 (by omega) (by rw [hg2, hg1]; exact hg)
        obtain ⟨vs4, hr4, hst4, hsame4, hg4⟩ := reach_goto (P := P) (ip := m2) (vs := vs3) (by omega) hop2
        rw [hrd2] at hr4
        exact ⟨vs4, ((hr1.trans hr2 rfl).trans hr3 rfl).trans hr4 rfl, by rw [hst4]; exact hst3,
          ((hsame1.trans hsame2).trans hsame3).trans hsame4, by rw [hg4]; exact hg3⟩
    · rw [if_neg ht] at hex
      obtain ⟨rfl, e2, n3, hn3, hsim3⟩ :=
        ih e hse env henv σ1 σ' env' (m2 + 5) pc' hex hc3 hsz
          (fun n hn => hN n (by simp only [snames, List.mem_append]; exact Or.inr hn))
      refine ⟨rfl, e2, n1 + 1 + n3, ?_, fun vs cap hst hd hg => ?_⟩
      · intro hl
        simp only [loopFree, Bool.and_eq_true] at hl
        have := hn3 hl.2
        omega
      · simp only [sdepth] at hd
        obtain ⟨hsx, vs1, hr1, hst1, hsame1, hg1⟩ := hsim1 vs cap [] hst (by simp only [List.length_nil]; omega) hg
        obtain ⟨vs2, hr2, hst2, hsame2, hg2⟩ := reach_gotoIfFalse (P := P) (ip := m1) (by omega) hop1 hst1
        rw [truthy_eq hsx vs1.heap σ1, if_neg ht, hrd1] at hr2
        obtain ⟨vs3, hr3, hst3, hsame3, hg3⟩ := hsim3 vs2 cap hst2 (by omega) (by rw [hg2, hg1]; exact hg)
        exact ⟨vs3, (hr1.trans hr2 rfl).trans hr3 rfl, hst3, (hsame1.trans hsame2).trans hsame3, hg3⟩
  | outOfFuel | ret _ | exit | err _ | unspecified _ =>
    simp only [Prod.mk.injEq] at hex
    obtain ⟨_, _, h⟩ := hex
    cases h

omit hFinj hNinj in
theorem sim_while (f : Nat) (ih : ∀ c, StmtSim P F N cx f c) (c b : Card) :
    StmtSim P F N cx (f + 1) (.bin .while c b) := by
  intro hs env henv σ σ' env' pc pc' hex hcode hsz hN
  have hs0 := hs
  have hcode0 := hcode
  simp only [isStmt, Bool.and_eq_true] at hs
  obtain ⟨hec, hsb⟩ := hs
  rw [exec_while] at hex
  simp only [SCode] at hcode
  obtain ⟨m1, m2, hc1, hop1, hrd1, hc2, hop2, hrd2, rfl⟩ := hcode
  have hlt := ecode_lt hc1
  have hle2 := scode_le hsb hc2
  rcases hc : Sem.eval cx f env σ c with ⟨σ1, env1, r1⟩
  rw [hc] at hex
  cases r1 with
  | ok x =>
    simp only at hex
    obtain ⟨rfl, rfl, n1, hn1, hsim1⟩ := eval_sim hout env henv c hec f σ σ1 env1 x pc m1 hc hc1 (by omega)
    by_cases ht : Sem.truthy σ1 x = true
    · rw [if_pos ht] at hex
      rcases hb : Sem.exec cx f ([] :: env) σ1 b with ⟨σ2, env2, r2⟩
      rw [hb] at hex
      cases r2 with
      | ok u =>
        cases u
        simp only at hex
        obtain ⟨rfl, e2, n3, hn3, hsim3⟩ :=
          ih b hsb ([] :: env) (noEnv_cons henv) σ1 σ2 env2 (m1 + 5) m2 hb hc2 (by omega) (fun n hn => hN n (by simpa [snames] using hn))
        obtain ⟨rfl, e5, n5, hn5, hsim5⟩ :=
          ih (.bin .while c b) hs0 env henv σ2 σ' env' pc (m2 + 5) hex hcode0 hsz hN
        refine ⟨rfl, by rw [e5, e2], n1 + 1 + n3 + 1 + n5, ?_, fun vs cap hst hd hg => ?_⟩
        · intro hl
          simp [loopFree] at hl
        · have hd0 := hd
          simp only [sdepth] at hd
          obtain ⟨hsx, vs1, hr1, hst1, hsame1, hg1⟩ := hsim1 vs cap [] hst (by simp only [List.length_nil]; omega) hg
          obtain ⟨vs2, hr2, hst2, hsame2, hg2⟩ := reach_gotoIfFalse (P := P) (ip := m1) (by omega) hop1 hst1
          rw [truthy_eq hsx vs1.heap σ1, if_pos ht] at hr2
          obtain ⟨vs3, hr3, hst3, hsame3, hg3⟩ := hsim3 vs2 cap hst2 (by omega) (by rw [hg2, hg1]; exact hg)
          obtain ⟨vs4, hr4, hst4, hsame4, hg4⟩ := reach_goto (P := P) (ip := m2) (vs := vs3) (by omega) hop2
          rw [hrd2] at hr4
          obtain ⟨vs5, hr5, hst5, hsame5, hg5⟩ := hsim5 vs4 cap (by rw [hst4]; exact hst3) hd0
            (by rw [hg4]; exact hg3)
          exact ⟨vs5, ((((hr1.trans hr2 rfl).trans hr3 rfl).trans hr4 rfl).trans hr5 rfl), hst5,
            (((hsame1.trans hsame2).trans hsame3).trans hsame4).trans hsame5, hg5⟩
      | outOfFuel | ret _ | exit | err _ | unspecified _ =>
        simp only [Prod.mk.injEq] at hex
        obtain ⟨_, _, h⟩ := hex
        cases h
    · rw [if_neg ht] at hex
      simp only [Prod.mk.injEq, and_true] at hex
      obtain ⟨rfl, rfl⟩ := hex
      refine ⟨rfl, rfl, n1 + 1, ?_, fun vs cap hst hd hg => ?_⟩
      · intro hl
        simp [loopFree] at hl
      · simp only [sdepth] at hd
        obtain ⟨hsx, vs1, hr1, hst1, hsame1, hg1⟩ := hsim1 vs cap [] hst (by simp only [List.length_nil]; omega) hg
        obtain ⟨vs2, hr2, hst2, hsame2, hg2⟩ := reach_gotoIfFalse (P := P) (ip := m1) (by omega) hop1 hst1
        rw [truthy_eq hsx vs1.heap σ1, if_neg ht, hrd1] at hr2
        exact ⟨vs2, hr1.trans hr2 rfl, hst2, hsame1.trans hsame2, by rw [hg2, hg1]; exact hg⟩
  | outOfFuel | ret _ | exit | err _ | unspecified _ =>
    simp only [Prod.mk.injEq] at hex
    obtain ⟨_, _, h⟩ := hex
    cases h

/-- the simulation of statement cards -/
theorem exec_sim : ∀ (f : Nat) (c : Card), StmtSim P F N cx f c := by
  intro f
  induction f with
  | zero =>
    intro c _ env henv σ σ' env' pc pc' hex
    rw [exec_zero] at hex
    simp only [Prod.mk.injEq] at hex
    obtain ⟨_, _, h⟩ := hex
    cases h
  | succ f ih =>
    intro c
    cases c with
    | setGlobalVar n e => exact sim_setGlobal hout hFinj hNinj f n e
    | comment t =>
      intro _ env henv σ σ' env' pc pc' hex hcode _ _
      rw [exec_comment] at hex
      simp only [Prod.mk.injEq, and_true] at hex
      obtain ⟨rfl, rfl⟩ := hex
      simp only [SCode] at hcode
      subst hcode
      exact ⟨rfl, rfl, 0, fun _ => Nat.zero_le _, fun vs cap hst _ hg =>
        ⟨vs, Reach.refl _ _, hst, SameRest.refl _, hg⟩⟩
    | composite t cs =>
      intro hs env henv σ σ' env' pc pc' hex hcode hsz hN
      rw [exec_composite] at hex
      simp only [isStmt] at hs
      simp only [SCode] at hcode
      simp only [snames] at hN
      have := stmts_sim ih cs hs env henv σ σ' env' pc pc' hex hcode hsz hN
      simpa only [loopFree, sdepth] using this
    | tri k a b c =>
      cases k with
      | ifElse => exact sim_ifElse hout f ih a b c
      | setProperty => intro hs; simp [isStmt] at hs
    | bin k a b =>
      cases k with
      | ifTrue => exact sim_ifTrue hout f ih a b
      | ifFalse => exact sim_ifFalse hout f ih a b
      | «while» => exact sim_while hout f ih a b
      | _ => intro hs; simp [isStmt] at hs
    | _ => intro hs; simp [isStmt] at hs

end stmtsim

/-! ## the two `run` functions -/

/-- how `Sem.run` renders the result of executing the cards of `main` -/
def render (x : Sem.St × Sem.Env × Sem.Res Unit) : Sem.Outcome :=
  let (s, _, r) := x
  let res := match r with
    | .ok () | .exit => "ok"
    | .ret _ => "unspecified:return from main"
    | .err e => "err:" ++ e.name
    | .unspecified w => "unspecified:" ++ w
    | .outOfFuel => "unspecified:out of fuel"
  { result := res, globals := s.globals.map (fun (n, v) => (n, Sem.deepV s v)), log := s.log,
    stmtValue := s.stmtValue, fewArgs := s.fewArgs }

theorem joinNs_nil (n : String) : Sem.joinNs [] n = n := by
  simp [Sem.joinNs, String.join]

def mkFn (imports : List (String × String)) (p : String × Func) : Sem.FnDef :=
  { fullName := Sem.joinNs [] p.1, ns := [], imports := imports, params := p.2.arguments, cards := p.2.cards }

theorem sem_run_main' {m std : Module} {i : Nat} {nf : String × Func}
    (hi : m.functions.findIdx? (fun p => p.1 == "main") = some i) (hf : m.functions[i]? = some nf) :
    ∃ cx : Sem.Ctx, cx.outer = [] ∧
      ∀ fuel, Sem.run m std fuel = render (Sem.execList cx fuel [[]] {} nf.2.cards) := by
  have hlt : i < m.functions.length := by
    rcases Nat.lt_or_ge i m.functions.length with h' | h'
    · exact h'
    · rw [List.getElem?_eq_none h'] at hf; cases hf
  -- the flattened program starts with the functions of the root module
  generalize hfl : Sem.flattenFns (Module.mk (m.submodules ++ [("std", std)]) m.functions m.imports) [] = fl
  have hfl' : ∃ imports rest, fl = m.functions.map (mkFn imports) ++ rest := by
    rw [← hfl]
    simp only [Sem.flattenFns]
    exact ⟨_, _, rfl⟩
  obtain ⟨imports, rest, hfl'⟩ := hfl'
  have hidx : fl.toArray.findIdx? (fun f => f.fullName == "main") = some i := by
    rw [List.findIdx?_toArray, hfl', List.findIdx?_append, List.findIdx?_map]
    have : ((fun (f : Sem.FnDef) => f.fullName == "main") ∘ mkFn imports) = fun p => p.1 == "main" := by
      funext p
      simp only [Function.comp, mkFn, joinNs_nil]
    rw [this, hi]
    rfl
  have hget : fl.toArray[i]! = mkFn imports nf := by
    rw [getElem!_def]
    simp only [List.getElem?_toArray]
    rw [hfl', List.getElem?_append_left (by simpa using hlt), List.getElem?_map, hf]
    rfl
  refine ⟨{ fns := fl.toArray, home := i, outer := [] }, rfl, fun fuel => ?_⟩
  unfold Sem.run
  simp only [hfl, hidx, hget]
  rfl

theorem sem_run_main {m std : Module} {fuel i : Nat} {nf : String × Func}
    (hi : m.functions.findIdx? (fun p => p.1 == "main") = some i) (hf : m.functions[i]? = some nf) :
    ∃ cx : Sem.Ctx, cx.outer = [] ∧
      Sem.run m std fuel = render (Sem.execList cx fuel [[]] {} nf.2.cards) := by
  obtain ⟨cx, h1, h2⟩ := sem_run_main' (std := std) hi hf
  exact ⟨cx, h1, h2 fuel⟩


/-- the machine state in which `Vm.run` starts the dispatch loop on a fresh VM -/
def startState (cfg : Config) (maxInstr : Nat) : VmState :=
  { VmState.fresh cfg with
    frames := (VmState.fresh cfg).frames ++ [{ src := 0, dst := 0, stackOffset := 0, closure := none }],
    remaining := maxInstr, dispatches := 0 }

theorem vm_run_of_reach {P : Prog} {cfg : Config} {maxInstr n mainEnd : Nat} {vsK : VmState}
    (hcs : 0 < cfg.callStackSize)
    (hr : Reach P n 0 (startState cfg maxInstr) mainEnd vsK)
    (hexit : P.bytecode.getD mainEnd 0 = Compiler.op.exit) (hin : mainEnd < P.bytecode.size)
    (hbud : n + 2 ≤ maxInstr) :
    Vm.run P maxInstr (VmState.fresh cfg) =
      ({ tick vsK with frames := (tick vsK).frames.take 0, guards := (VmState.fresh cfg).guards }, none) := by
  unfold Vm.run
  have hf : ¬ ((VmState.fresh cfg).frames.length ≥ (VmState.fresh cfg).frameCap) := by
    simp [VmState.fresh]; omega
  rw [if_neg hf]
  simp only
  have hstart : ({ VmState.fresh cfg with
      frames := (VmState.fresh cfg).frames ++ [{ src := 0, dst := 0, stackOffset := 0, closure := none }],
      remaining := maxInstr, dispatches := 0 } : VmState) = startState cfg maxInstr := rfl
  rw [hstart]
  have hrem : (startState cfg maxInstr).remaining = maxInstr := rfl
  have hgas : ∃ g, gasFor (startState cfg maxInstr) maxInstr = (g + 1) + n :=
    ⟨gasFor (startState cfg maxInstr) maxInstr - n - 1, by unfold gasFor; omega⟩
  obtain ⟨g, hg⟩ := hgas
  have hK := hr.remaining
  have e1 : exec P (gasFor (startState cfg maxInstr) maxInstr) (.loop 0) (startState cfg maxInstr) =
      (tick vsK, .ok none) := by
    rw [hg, exec_reach hr (by rw [hrem]; omega), exec_exit hin hexit (by rw [hK, hrem]; omega)]
  unfold runLoop
  rw [e1]
  rfl


/-! ## the fragment never yields an error, a `Return` or an `Abort` -/

/-- results that are not an error, a `Return` or an `Abort` -/
def benign {α : Type} : Sem.Res α → Prop
  | .ok _ | .unspecified _ | .outOfFuel => True
  | _ => False

theorem readVar_benign (cx : Sem.Ctx) (env : Sem.Env) (σ : Sem.St) {n : String} (hn : simpleName n = true) :
    benign (Sem.readVar cx env σ n).2.2 := by
  simp only [simpleName, Bool.and_eq_true, decide_eq_true_eq, Bool.not_eq_true'] at hn
  obtain ⟨hsplit, hne⟩ := hn
  unfold Sem.readVar
  simp only [hsplit, List.filter_nil, hne, Bool.false_eq_true, if_false, List.foldl_nil]
  split <;> rename_i h
  · trivial
  · rename_i r
    revert h
    split
    · intro h; exact absurd rfl (h _)
    · split
      · intro h; exact absurd rfl (h _)
      · split
        · intro h; exact absurd rfl (h _)
        · intro _; trivial

theorem eval_benign (cx : Sem.Ctx) : ∀ (e : Card), isExpr e = true → ∀ (fuel : Nat) (env : Sem.Env) (σ : Sem.St),
    benign (Sem.eval cx fuel env σ e).2.2
  | .scalarInt _ => by intro _ fuel env σ; cases fuel <;> trivial
  | .scalarFloat _ => by intro _ fuel env σ; cases fuel <;> trivial
  | .scalarNil => by intro _ fuel env σ; cases fuel <;> trivial
  | .readVar n => by
    intro he fuel env σ
    cases fuel with
    | zero => trivial
    | succ f => rw [eval_readVar]; exact readVar_benign cx env σ he
  | .un .not c => by
    intro he fuel env σ
    simp only [isExpr] at he
    cases fuel with
    | zero => trivial
    | succ f =>
      rw [eval_not]
      have := eval_benign cx c he f env σ
      rcases hc : Sem.eval cx f env σ c with ⟨σ1, env1, r1⟩
      rw [hc] at this
      cases r1 <;> first | trivial | exact this
  | .bin k a b => by
    intro he fuel env σ
    simp only [isExpr, Bool.and_eq_true] at he
    obtain ⟨⟨hk, hea⟩, heb⟩ := he
    cases fuel with
    | zero => trivial
    | succ f =>
      rw [eval_bin _ _ _ _ k hk]
      have ha := eval_benign cx a hea f env σ
      rcases hc : Sem.eval cx f env σ a with ⟨σ1, env1, r1⟩
      rw [hc] at ha
      cases r1 with
      | ok va =>
        simp only
        have hb := eval_benign cx b heb f env1 σ1
        rcases hc2 : Sem.eval cx f env1 σ1 b with ⟨σ2, env2, r2⟩
        rw [hc2] at hb
        cases r2 <;> first | trivial | exact hb
      | _ => first | trivial | exact ha
  | .un .ret _ | .un .len _ | .un .popTable _ | .tri _ _ _ _ | .createTable | .abort | .stringLiteral _
  | .comment _ | .function _ | .nativeFunction _ | .setVar _ _ | .setGlobalVar _ _ | .callNative _ _
  | .call _ _ | .repeat _ _ _ | .forEach _ _ _ _ _ | .composite _ _ | .dynamicCall _ _ | .array _
  | .closure _ _ => by
    intro he
    simp [isExpr] at he

theorem execList_benign {ex : Sem.Env → Sem.St → Card → Sem.St × Sem.Env × Sem.Res Unit}
    : ∀ (cs : List Card), (∀ c ∈ cs, ∀ env σ, benign (ex env σ c).2.2) → ∀ (env : Sem.Env) (σ : Sem.St),
      benign (Sem.execListWith ex env σ cs).2.2
  | [], _, env, σ => trivial
  | c :: cs, h, env, σ => by
    simp only [Sem.execListWith]
    have hc := h c (List.mem_cons_self ..) env σ
    rcases he : ex env σ c with ⟨σ1, env1, r1⟩
    rw [he] at hc
    cases r1 with
    | ok u => cases u; exact execList_benign cs (fun c hc => h c (List.mem_cons_of_mem _ hc)) env1 σ1
    | _ => first | trivial | exact hc

theorem isStmts_mem : ∀ {cs : List Card}, isStmts cs = true → ∀ c ∈ cs, isStmt c = true
  | [], _, c, hc => by cases hc
  | x :: xs, h, c, hc => by
    simp only [isStmts, Bool.and_eq_true] at h
    rcases List.mem_cons.1 hc with rfl | hc
    · exact h.1
    · exact isStmts_mem h.2 c hc

theorem exec_benign (cx : Sem.Ctx) : ∀ (fuel : Nat) (c : Card), isStmt c = true → ∀ (env : Sem.Env) (σ : Sem.St),
    benign (Sem.exec cx fuel env σ c).2.2 := by
  intro fuel
  induction fuel with
  | zero => intro c _ env σ; rw [exec_zero]; trivial
  | succ f ih =>
    intro c hs env σ
    cases c with
    | comment t => trivial
    | composite t cs =>
      rw [exec_composite]
      simp only [isStmt] at hs
      exact execList_benign cs (fun c hc env σ => ih c (isStmts_mem hs c hc) env σ) env σ
    | setGlobalVar n e =>
      simp only [isStmt, Bool.and_eq_true, Bool.not_eq_true'] at hs
      rw [exec_setGlobal]
      have he := eval_benign cx e hs.2 f env σ
      rcases hc : Sem.eval cx f env σ e with ⟨σ1, env1, r1⟩
      rw [hc] at he
      cases r1 with
      | ok x => simp only [hs.1]; trivial
      | _ => first | trivial | exact he
    | tri k a b c =>
      cases k with
      | setProperty => simp [isStmt] at hs
      | ifElse =>
        simp only [isStmt, Bool.and_eq_true] at hs
        rw [exec_ifElse]
        have he := eval_benign cx a hs.1.1 f env σ
        rcases hc : Sem.eval cx f env σ a with ⟨σ1, env1, r1⟩
        rw [hc] at he
        cases r1 with
        | ok x =>
          simp only
          split
          · exact ih b hs.1.2 env1 σ1
          · exact ih c hs.2 env1 σ1
        | _ => first | trivial | exact he
    | bin k a b =>
      cases k with
      | ifTrue =>
        simp only [isStmt, Bool.and_eq_true] at hs
        rw [exec_ifTrue]
        have he := eval_benign cx a hs.1 f env σ
        rcases hc : Sem.eval cx f env σ a with ⟨σ1, env1, r1⟩
        rw [hc] at he
        cases r1 with
        | ok x =>
          simp only
          split
          · exact ih b hs.2 env1 σ1
          · trivial
        | _ => first | trivial | exact he
      | ifFalse =>
        simp only [isStmt, Bool.and_eq_true] at hs
        rw [exec_ifFalse]
        have he := eval_benign cx a hs.1 f env σ
        rcases hc : Sem.eval cx f env σ a with ⟨σ1, env1, r1⟩
        rw [hc] at he
        cases r1 with
        | ok x =>
          simp only
          split
          · trivial
          · exact ih b hs.2 env1 σ1
        | _ => first | trivial | exact he
      | «while» =>
        have hs0 := hs
        simp only [isStmt, Bool.and_eq_true] at hs
        rw [exec_while]
        have he := eval_benign cx a hs.1 f env σ
        rcases hc : Sem.eval cx f env σ a with ⟨σ1, env1, r1⟩
        rw [hc] at he
        cases r1 with
        | ok x =>
          simp only
          split
          · have hb := ih b hs.2 ([] :: env1) σ1
            rcases hc2 : Sem.exec cx f ([] :: env1) σ1 b with ⟨σ2, env2, r2⟩
            rw [hc2] at hb
            cases r2 with
            | ok u => cases u; exact ih _ hs0 env1 σ2
            | _ => first | trivial | exact hb
          · trivial
        | _ => first | trivial | exact he
      | _ => simp [isStmt] at hs
    | _ => simp [isStmt] at hs


/-! ## the fragments and the observations -/

/-- the function `main` of the root module (the first one with that name) -/
def mainFn (m : Module) : Option Func :=
  (m.functions.findIdx? (fun p => p.1 == "main")).bind fun i => m.functions[i]?.map (·.2)

/-- value of the global `n` after a VM run, as a deep value (`nil` if it was never assigned) -/
def vmGlobal (p : Program) (vs : VmState) (n : String) : OVal :=
  match gidOf p.varIds n with
  | some id => ((vs.globals[id]?).map (ownD vs.heap)).getD .nil
  | none => .nil

/-- value of the global `n` in the outcome of the reference semantics (`nil` if absent) -/
def semGlobal (o : Sem.Outcome) (n : String) : OVal :=
  ((o.globals.find? (fun p => p.1 == n)).map (·.2)).getD .nil

theorem unspecified_ne_ok (w : String) : "unspecified:" ++ w ≠ "ok" := by
  intro h
  have := congrArg String.length h
  rw [String.length_append] at this
  have e1 : "unspecified:".length = 12 := by decide
  have e2 : "ok".length = 2 := by decide
  omega

theorem render_ok {x : Sem.St × Sem.Env × Sem.Res Unit} (hb : benign x.2.2) (h : (render x).result = "ok") :
    x.2.2 = .ok () := by
  obtain ⟨s, env, r⟩ := x
  cases r with
  | ok u => cases u; rfl
  | unspecified w => exact absurd h (unspecified_ne_ok w)
  | outOfFuel =>
    have : ("unspecified:out of fuel" : String) ≠ "ok" := by decide
    exact absurd h this
  | ret _ | exit | err _ => exact absurd hb id

theorem semGlobal_render (σ : Sem.St) (env : Sem.Env) (r : Sem.Res Unit) (n : String) :
    semGlobal (render (σ, env, r)) n = ((glookup σ.globals n).map (Sem.deepV σ)).getD .nil := by
  unfold semGlobal render glookup
  simp only [List.find?_map]
  have hcomp : ((fun (p : String × OVal) => p.1 == n) ∘ fun (x : String × Val) =>
      (match x with | (n, v) => (n, Sem.deepV σ v) : String × OVal)) = fun p => p.1 == n := by
    funext p; rfl
  rw [hcomp]
  rcases List.find? (fun (p : String × Val) => p.1 == n) σ.globals with _ | ⟨a, b⟩ <;> rfl

theorem mainFn_some {m : Module} {f : Func} (h : mainFn m = some f) :
    ∃ i nf, m.functions.findIdx? (fun p => p.1 == "main") = some i ∧ m.functions[i]? = some nf ∧ nf.2 = f := by
  unfold mainFn at h
  rcases hi : m.functions.findIdx? (fun p => p.1 == "main") with _ | i
  · rw [hi] at h; cases h
  · rw [hi] at h
    simp only [Option.bind_some] at h
    rcases hf : m.functions[i]? with _ | nf
    · rw [hf] at h; cases h
    · rw [hf] at h
      simp only [Option.map_some, Option.some.injEq] at h
      exact ⟨i, nf, hi, hf, h⟩

theorem stackIs_new (size : Nat) : StackIs (VStack.new size : VStack Val) size [] :=
  ⟨rfl, by simp [VStack.new], by simp [VStack.new]⟩

theorem grel_empty (F : List (UInt32 × Nat)) (N : String → Prop) : GRel F N [] [] :=
  ⟨fun n v h => (by cases h), fun id v h => (by simp at h)⟩

/-- The core of the compile-correctness theorems: when the reference outcome is `ok`, there is a
    number `n` of VM dispatches (at most the end address of `main` when `main` has no loop) such
    that every run with a budget of at least `n + 2` instructions succeeds with the same log and
    the same globals. -/
theorem compile_correct_core (m std : Module) (limit fuel : Nat) (cfg : Config) (p : Program) (f : Func)
    (hmain : mainFn m = some f) (hargs : f.arguments = []) (hfrag : isStmts f.cards = true)
    (hinj : HInj (· ∈ snamess f.cards))
    (hc : compile m std limit = .ok p)
    (hB : p.bytecode.size < 4294967296) (hV : p.varIds.length < 4294967296)
    (hstack : sdepths f.cards < cfg.stackSize) (hcalls : 0 < cfg.callStackSize)
    (hsem : (Sem.run m std fuel).result = "ok") :
    ∃ n, (loopFrees f.cards = true → n + 2 ≤ p.bytecode.size + 1) ∧
      ∀ maxInstr, n + 2 ≤ maxInstr →
        (Vm.run (Prog.ofProgram p) maxInstr (VmState.fresh cfg)).2.isNone = true ∧
        (Vm.run (Prog.ofProgram p) maxInstr (VmState.fresh cfg)).1.hostLog = (Sem.run m std fuel).log ∧
        ∀ g ∈ snamess f.cards,
          vmGlobal p (Vm.run (Prog.ofProgram p) maxInstr (VmState.fresh cfg)).1 g =
            semGlobal (Sem.run m std fuel) g := by
  obtain ⟨i, nf, hi, hf, rfl⟩ := mainFn_some hmain
  obtain ⟨mainEnd, hcode, hexit, hend, hFinj⟩ := compile_main hc hi hf hargs hfrag hB hV
  obtain ⟨cx, hout, hrun⟩ := sem_run_main (std := std) (fuel := fuel) hi hf
  rw [hrun] at hsem ⊢
  have hben : benign (Sem.execList cx fuel [[]] {} nf.2.cards).2.2 :=
    execList_benign _ (fun c hc env σ => exec_benign cx fuel c (isStmts_mem hfrag c hc) env σ) _ _
  have hok := render_ok hben hsem
  rcases hex : Sem.execList cx fuel [[]] {} nf.2.cards with ⟨σ', env', r⟩
  rw [hex] at hok
  simp only at hok
  subst hok
  obtain ⟨_, hσ, n, hn, hsim⟩ := stmts_sim (P := Prog.ofProgram p) (F := p.varIds) (N := (· ∈ snamess nf.2.cards))
    (exec_sim hout hFinj hinj fuel) nf.2.cards hfrag [[]] noEnv_base {} σ' env' 0 mainEnd hex hcode (Nat.le_of_lt hend)
    (fun n hn => hn)
  refine ⟨n, fun hl => by have := hn hl; omega, fun maxInstr hmax => ?_⟩
  obtain ⟨vsK, hr, hstK, hsameK, hgK⟩ := hsim (startState cfg maxInstr) cfg.stackSize
    (stackIs_new _) hstack (grel_empty _ _)
  rw [vm_run_of_reach hcalls hr hexit hend hmax]
  have hlog : vsK.hostLog = [] := by rw [hsameK]; rfl
  have hheap : vsK.heap = {} := by rw [hsameK]; rfl
  have hσlog : σ'.log = [] := by rw [hσ]
  refine ⟨rfl, ?_, fun g hg => ?_⟩
  · show vsK.hostLog = σ'.log
    rw [hlog, hσlog]
  · rw [semGlobal_render]
    show (match gidOf p.varIds g with
      | some id => ((vsK.globals[id]?).map (ownD vsK.heap)).getD .nil
      | none => .nil) = _
    rcases hl : glookup σ'.globals g with _ | v
    · simp only [Option.map_none, Option.getD_none]
      rcases hid : gidOf p.varIds g with _ | id
      · rfl
      · simp only
        rcases hv : vsK.globals[id]? with _ | v
        · rfl
        · simp only [Option.map_some, Option.getD_some]
          by_cases hnil : v = .nil
          · subst hnil; rfl
          · obtain ⟨g', hl', hid'⟩ := hgK.vm_sem id v hv hnil
            obtain ⟨hg', _, _⟩ := hgK.sem_vm g' v hl'
            have := gidOf_inj hFinj hinj hg' hg hid' hid
            subst this
            rw [hl] at hl'; cases hl'
    · obtain ⟨_, hsv, id, hid, hv⟩ := hgK.sem_vm g v hl
      simp only [hid, hv, Option.map_some, Option.getD_some]
      exact ownD_scalar hsv _ _


/-- the cards of `main` -/
def mainCards (m : Module) : List Card :=
  match mainFn m with
  | some f => f.cards
  | none => []

/-- statements of fragment F0: assignments of operator expressions to globals (and comments) -/
def isF0Stmts : List Card → Bool
  | [] => true
  | .setGlobalVar n e :: cs => !n.isEmpty && isExpr e && isF0Stmts cs
  | .comment _ :: cs => isF0Stmts cs
  | _ => false

/-- **Fragment F1**: `main` has no parameters and consists of statement cards built from
    `SetGlobalVar`, `IfTrue`, `IfFalse`, `IfElse`, `While`, `CompositeCard`, `Comment` over
    expressions built from `ScalarInt`, `ScalarFloat`, `ScalarNil`, `Not`, the eleven two-operand
    operator cards and `ReadVar` of a simple (global) name. The other functions of the program
    (and the standard library) are arbitrary. -/
def InF1 (m : Module) : Bool :=
  match mainFn m with
  | some f => f.arguments.isEmpty && isStmts f.cards
  | none => false

/-- **Fragment F0**: straight-line `main`: a sequence of `SetGlobalVar` of operator expressions -/
def InF0 (m : Module) : Bool :=
  match mainFn m with
  | some f => f.arguments.isEmpty && isF0Stmts f.cards
  | none => false

/-- the assigned global names have pairwise distinct 32-bit handles (checkable) -/
def handlesDistinct (names : List String) : Bool :=
  names.all fun a => names.all fun b => hName a != hName b || a == b

theorem hinj_of_handlesDistinct {names : List String} (h : handlesDistinct names = true) :
    HInj (· ∈ names) := by
  intro a b ha hb hab
  unfold handlesDistinct at h
  rw [List.all_eq_true] at h
  have := h a ha
  rw [List.all_eq_true] at this
  have := this b hb
  simp only [Bool.or_eq_true, bne_iff_ne, ne_eq, beq_iff_eq] at this
  rcases this with h1 | h1
  · exact absurd hab h1
  · exact h1

theorem isF0Stmts_isStmts : ∀ (cs : List Card), isF0Stmts cs = true → isStmts cs = true ∧ loopFrees cs = true
  | [] => fun _ => ⟨rfl, rfl⟩
  | .setGlobalVar n e :: cs => fun h => by
    simp only [isF0Stmts, Bool.and_eq_true] at h
    obtain ⟨h1, h2⟩ := isF0Stmts_isStmts cs h.2
    simp only [isStmts, isStmt, loopFrees, loopFree, Bool.and_eq_true]
    exact ⟨⟨⟨h.1.1, h.1.2⟩, h1⟩, ⟨noCall_expr h.1.2, h2⟩⟩
  | .comment _ :: cs => fun h => by
    simp only [isF0Stmts] at h
    obtain ⟨h1, h2⟩ := isF0Stmts_isStmts cs h
    simp only [isStmts, isStmt, loopFrees, loopFree, Bool.and_eq_true]
    exact ⟨⟨trivial, h1⟩, ⟨trivial, h2⟩⟩
  | .bin _ _ _ :: _ | .un _ _ :: _ | .tri _ _ _ _ :: _ | .scalarNil :: _ | .createTable :: _ | .abort :: _
  | .scalarInt _ :: _ | .scalarFloat _ :: _ | .stringLiteral _ :: _ | .function _ :: _ | .nativeFunction _ :: _
  | .readVar _ :: _ | .setVar _ _ :: _ | .callNative _ _ :: _ | .call _ _ :: _ | .repeat _ _ _ :: _
  | .forEach _ _ _ _ _ :: _ | .composite _ _ :: _ | .dynamicCall _ _ :: _ | .array _ :: _
  | .closure _ _ :: _ => fun h => by simp [isF0Stmts] at h

/-- what `Vm.run` on a fresh VM and `Sem.run` agree on: success, the host log, and the value of
    every global assigned by `main` -/
structure Agree (p : Program) (names : List String) (r : VmState × Option RunErr) (o : Sem.Outcome) : Prop where
  ok : r.2.isNone = true ∧ o.result = "ok"
  log : r.1.hostLog = o.log
  globals : ∀ g ∈ names, vmGlobal p r.1 g = semGlobal o g

theorem inF1_main {m : Module} (h : InF1 m = true) :
    ∃ f, mainFn m = some f ∧ f.arguments = [] ∧ isStmts f.cards = true ∧ mainCards m = f.cards := by
  unfold InF1 at h
  unfold mainCards
  rcases hm : mainFn m with _ | f
  · rw [hm] at h; cases h
  · rw [hm] at h
    simp only [Bool.and_eq_true, List.isEmpty_iff] at h
    exact ⟨f, rfl, h.1, h.2, rfl⟩

/-- **C01 for fragment F1 (with loops).** If the reference semantics says `ok`, then for every
    sufficiently large instruction budget the compiled program runs to completion on a fresh VM
    with the same host log and the same final globals. -/
theorem compile_correct_F1 (m std : Module) (limit fuel : Nat) (cfg : Config) (p : Program)
    (hfrag : InF1 m = true) (hnames : handlesDistinct (snamess (mainCards m)) = true)
    (hc : compile m std limit = .ok p)
    (hB : p.bytecode.size < 4294967296) (hV : p.varIds.length < 4294967296)
    (hstack : sdepths (mainCards m) < cfg.stackSize) (hcalls : 0 < cfg.callStackSize)
    (hsem : (Sem.run m std fuel).result = "ok") :
    ∃ budget, ∀ maxInstr, budget ≤ maxInstr →
      Agree p (snamess (mainCards m)) (Vm.run (Prog.ofProgram p) maxInstr (VmState.fresh cfg))
        (Sem.run m std fuel) := by
  obtain ⟨f, hmain, hargs, hst, hcards⟩ := inF1_main hfrag
  rw [hcards] at hnames hstack ⊢
  obtain ⟨n, _, hall⟩ := compile_correct_core m std limit fuel cfg p f hmain hargs hst
    (hinj_of_handlesDistinct hnames) hc hB hV hstack hcalls hsem
  refine ⟨n + 2, fun maxInstr hmax => ?_⟩
  obtain ⟨h1, h2, h3⟩ := hall maxInstr hmax
  exact ⟨⟨h1, hsem⟩, h2, h3⟩

/-- **C01 for the loop-free part of F1 (`If*` but no `While`).** The budget is explicit: more
    instructions than the program has bytes. -/
theorem compile_correct_F1_loopFree (m std : Module) (limit fuel maxInstr : Nat) (cfg : Config) (p : Program)
    (hfrag : InF1 m = true) (hlf : loopFrees (mainCards m) = true)
    (hnames : handlesDistinct (snamess (mainCards m)) = true)
    (hc : compile m std limit = .ok p)
    (hB : p.bytecode.size < 4294967296) (hV : p.varIds.length < 4294967296)
    (hbudget : p.bytecode.size < maxInstr)
    (hstack : sdepths (mainCards m) < cfg.stackSize) (hcalls : 0 < cfg.callStackSize)
    (hsem : (Sem.run m std fuel).result = "ok") :
    Agree p (snamess (mainCards m)) (Vm.run (Prog.ofProgram p) maxInstr (VmState.fresh cfg))
      (Sem.run m std fuel) := by
  obtain ⟨f, hmain, hargs, hst, hcards⟩ := inF1_main hfrag
  rw [hcards] at hnames hstack hlf ⊢
  obtain ⟨n, hn, hall⟩ := compile_correct_core m std limit fuel cfg p f hmain hargs hst
    (hinj_of_handlesDistinct hnames) hc hB hV hstack hcalls hsem
  obtain ⟨h1, h2, h3⟩ := hall maxInstr (by have := hn hlf; omega)
  exact ⟨⟨h1, hsem⟩, h2, h3⟩

theorem inF0_inF1 {m : Module} (h : InF0 m = true) : InF1 m = true ∧ loopFrees (mainCards m) = true := by
  unfold InF0 at h
  unfold InF1 mainCards
  rcases hm : mainFn m with _ | f
  · rw [hm] at h; cases h
  · rw [hm] at h
    simp only [Bool.and_eq_true] at h ⊢
    obtain ⟨h1, h2⟩ := isF0Stmts_isStmts f.cards h.2
    exact ⟨⟨h.1, h1⟩, h2⟩

/-- **C01 for fragment F0** (straight-line expressions over globals). -/
theorem compile_correct_F0 (m std : Module) (limit fuel maxInstr : Nat) (cfg : Config) (p : Program)
    (hfrag : InF0 m = true) (hnames : handlesDistinct (snamess (mainCards m)) = true)
    (hc : compile m std limit = .ok p)
    (hB : p.bytecode.size < 4294967296) (hV : p.varIds.length < 4294967296)
    (hbudget : p.bytecode.size < maxInstr)
    (hstack : sdepths (mainCards m) < cfg.stackSize) (hcalls : 0 < cfg.callStackSize)
    (hsem : (Sem.run m std fuel).result = "ok") :
    Agree p (snamess (mainCards m)) (Vm.run (Prog.ofProgram p) maxInstr (VmState.fresh cfg))
      (Sem.run m std fuel) :=
  compile_correct_F1_loopFree m std limit fuel maxInstr cfg p (inF0_inF1 hfrag).1 (inF0_inF1 hfrag).2 hnames hc hB hV
    hbudget hstack hcalls hsem


/-! ## the reference semantics does not depend on the fuel (on the fragment) -/

def isOOF {α : Type} : Sem.Res α → Prop
  | .outOfFuel => True
  | _ => False

theorem eval_fuel_mono (cx : Sem.Ctx) : ∀ (e : Card), isExpr e = true → ∀ (f : Nat) (env : Sem.Env) (σ : Sem.St),
    ¬ isOOF (Sem.eval cx f env σ e).2.2 → ∀ f', f ≤ f' → Sem.eval cx f' env σ e = Sem.eval cx f env σ e
  | .scalarInt _ => by
    intro _ f env σ h f' hf
    cases f with
    | zero => exact absurd trivial h
    | succ f => obtain ⟨k, rfl⟩ : ∃ k, f' = k + 1 := ⟨f' - 1, by omega⟩; rfl
  | .scalarFloat _ => by
    intro _ f env σ h f' hf
    cases f with
    | zero => exact absurd trivial h
    | succ f => obtain ⟨k, rfl⟩ : ∃ k, f' = k + 1 := ⟨f' - 1, by omega⟩; rfl
  | .scalarNil => by
    intro _ f env σ h f' hf
    cases f with
    | zero => exact absurd trivial h
    | succ f => obtain ⟨k, rfl⟩ : ∃ k, f' = k + 1 := ⟨f' - 1, by omega⟩; rfl
  | .readVar _ => by
    intro _ f env σ h f' hf
    cases f with
    | zero => exact absurd trivial h
    | succ f => obtain ⟨k, rfl⟩ : ∃ k, f' = k + 1 := ⟨f' - 1, by omega⟩; rfl
  | .un .not c => by
    intro he f env σ h f' hf
    simp only [isExpr] at he
    cases f with
    | zero => exact absurd trivial h
    | succ f =>
      obtain ⟨k, rfl⟩ : ∃ k, f' = k + 1 := ⟨f' - 1, by omega⟩
      rw [eval_not] at h ⊢
      rw [eval_not]
      have ih := eval_fuel_mono cx c he f env σ
      rcases hc : Sem.eval cx f env σ c with ⟨σ1, env1, r1⟩
      rw [hc] at h ih
      rw [ih (by cases r1 <;> first | exact h | exact fun x => x) k (by omega)]
  | .bin op a b => by
    intro he f env σ h f' hf
    simp only [isExpr, Bool.and_eq_true] at he
    obtain ⟨⟨hk, hea⟩, heb⟩ := he
    cases f with
    | zero => exact absurd trivial h
    | succ f =>
      obtain ⟨k, rfl⟩ : ∃ k, f' = k + 1 := ⟨f' - 1, by omega⟩
      rw [eval_bin _ _ _ _ op hk] at h ⊢
      rw [eval_bin _ _ _ _ op hk]
      have iha := eval_fuel_mono cx a hea f env σ
      rcases hc : Sem.eval cx f env σ a with ⟨σ1, env1, r1⟩
      rw [hc] at h iha
      rw [iha (by cases r1 <;> first | exact h | exact fun x => x) k (by omega)]
      cases r1 with
      | ok va =>
        simp only at h ⊢
        have ihb := eval_fuel_mono cx b heb f env1 σ1
        rcases hc2 : Sem.eval cx f env1 σ1 b with ⟨σ2, env2, r2⟩
        rw [hc2] at h ihb
        rw [ihb (by cases r2 <;> first | exact h | exact fun x => x) k (by omega)]
      | _ => rfl
  | .un .ret _ | .un .len _ | .un .popTable _ | .tri _ _ _ _ | .createTable | .abort | .stringLiteral _
  | .comment _ | .function _ | .nativeFunction _ | .setVar _ _ | .setGlobalVar _ _ | .callNative _ _
  | .call _ _ | .repeat _ _ _ | .forEach _ _ _ _ _ | .composite _ _ | .dynamicCall _ _ | .array _
  | .closure _ _ => by
    intro he
    simp [isExpr] at he

theorem execList_fuel_mono {ex ex' : Sem.Env → Sem.St → Card → Sem.St × Sem.Env × Sem.Res Unit} :
    ∀ (cs : List Card), (∀ c ∈ cs, ∀ env σ, ¬ isOOF (ex env σ c).2.2 → ex' env σ c = ex env σ c) →
      ∀ (env : Sem.Env) (σ : Sem.St), ¬ isOOF (Sem.execListWith ex env σ cs).2.2 →
        Sem.execListWith ex' env σ cs = Sem.execListWith ex env σ cs
  | [], _, _, _, _ => rfl
  | c :: cs, h, env, σ, hn => by
    simp only [Sem.execListWith] at hn ⊢
    have hc := h c (List.mem_cons_self ..) env σ
    rcases he : ex env σ c with ⟨σ1, env1, r1⟩
    rw [he] at hn hc
    rw [hc (by cases r1 <;> first | exact hn | exact fun x => x)]
    cases r1 with
    | ok u =>
      cases u
      simp only at hn ⊢
      exact execList_fuel_mono cs (fun c hc => h c (List.mem_cons_of_mem _ hc)) env1 σ1 hn
    | _ => rfl

theorem exec_fuel_mono (cx : Sem.Ctx) : ∀ (f : Nat) (c : Card), isStmt c = true → ∀ (env : Sem.Env) (σ : Sem.St),
    ¬ isOOF (Sem.exec cx f env σ c).2.2 → ∀ f', f ≤ f' → Sem.exec cx f' env σ c = Sem.exec cx f env σ c := by
  intro f
  induction f with
  | zero => intro c _ env σ h; rw [exec_zero] at h; exact absurd trivial h
  | succ f ih =>
    intro c hs env σ h f' hf
    obtain ⟨k, rfl⟩ : ∃ k, f' = k + 1 := ⟨f' - 1, by omega⟩
    have hk : f ≤ k := by omega
    cases c with
    | comment t => rfl
    | composite t cs =>
      rw [exec_composite] at h ⊢
      rw [exec_composite]
      simp only [isStmt] at hs
      exact execList_fuel_mono cs (fun c hc env σ hn => ih c (isStmts_mem hs c hc) env σ hn k hk) env σ h
    | setGlobalVar n e =>
      simp only [isStmt, Bool.and_eq_true, Bool.not_eq_true'] at hs
      rw [exec_setGlobal] at h ⊢
      rw [exec_setGlobal]
      have ihe := eval_fuel_mono cx e hs.2 f env σ
      rcases hc : Sem.eval cx f env σ e with ⟨σ1, env1, r1⟩
      rw [hc] at h ihe
      rw [ihe (by cases r1 <;> first | exact h | exact fun x => x) k hk]
    | tri kk a b c =>
      cases kk with
      | setProperty => simp [isStmt] at hs
      | ifElse =>
        simp only [isStmt, Bool.and_eq_true] at hs
        rw [exec_ifElse] at h ⊢
        rw [exec_ifElse]
        have ihe := eval_fuel_mono cx a hs.1.1 f env σ
        rcases hc : Sem.eval cx f env σ a with ⟨σ1, env1, r1⟩
        rw [hc] at h ihe
        rw [ihe (by cases r1 <;> first | exact h | exact fun x => x) k hk]
        cases r1 with
        | ok x =>
          simp only at h ⊢
          split at h
          · rename_i ht; simp only [if_pos ht]; exact ih b hs.1.2 env1 σ1 h k hk
          · rename_i ht; simp only [if_neg ht]; exact ih c hs.2 env1 σ1 h k hk
        | _ => rfl
    | bin kk a b =>
      cases kk with
      | ifTrue =>
        simp only [isStmt, Bool.and_eq_true] at hs
        rw [exec_ifTrue] at h ⊢
        rw [exec_ifTrue]
        have ihe := eval_fuel_mono cx a hs.1 f env σ
        rcases hc : Sem.eval cx f env σ a with ⟨σ1, env1, r1⟩
        rw [hc] at h ihe
        rw [ihe (by cases r1 <;> first | exact h | exact fun x => x) k hk]
        cases r1 with
        | ok x =>
          simp only at h ⊢
          split at h
          · rename_i ht; simp only [if_pos ht]; exact ih b hs.2 env1 σ1 h k hk
          · rename_i ht; simp only [if_neg ht]
        | _ => rfl
      | ifFalse =>
        simp only [isStmt, Bool.and_eq_true] at hs
        rw [exec_ifFalse] at h ⊢
        rw [exec_ifFalse]
        have ihe := eval_fuel_mono cx a hs.1 f env σ
        rcases hc : Sem.eval cx f env σ a with ⟨σ1, env1, r1⟩
        rw [hc] at h ihe
        rw [ihe (by cases r1 <;> first | exact h | exact fun x => x) k hk]
        cases r1 with
        | ok x =>
          simp only at h ⊢
          split at h
          · rename_i ht; simp only [if_pos ht]
          · rename_i ht; simp only [if_neg ht]; exact ih b hs.2 env1 σ1 h k hk
        | _ => rfl
      | «while» =>
        have hs0 := hs
        simp only [isStmt, Bool.and_eq_true] at hs
        rw [exec_while] at h ⊢
        rw [exec_while]
        have ihe := eval_fuel_mono cx a hs.1 f env σ
        rcases hc : Sem.eval cx f env σ a with ⟨σ1, env1, r1⟩
        rw [hc] at h ihe
        rw [ihe (by cases r1 <;> first | exact h | exact fun x => x) k hk]
        cases r1 with
        | ok x =>
          simp only at h ⊢
          split at h
          · rename_i ht
            simp only [if_pos ht]
            have ihb := ih b hs.2 ([] :: env1) σ1
            rcases hc2 : Sem.exec cx f ([] :: env1) σ1 b with ⟨σ2, env2, r2⟩
            rw [hc2] at h ihb
            rw [ihb (by cases r2 <;> first | exact h | exact fun x => x) k hk]
            cases r2 with
            | ok u => cases u; simp only at h ⊢; exact ih _ hs0 env1 σ2 h k hk
            | _ => rfl
          · rename_i ht; simp only [if_neg ht]
        | _ => rfl
      | _ => simp [isStmt] at hs
    | _ => simp [isStmt] at hs

/-- **Fuel independence on F1**: if a run of the reference semantics does not run out of fuel, every
    run with more fuel has exactly the same outcome. -/
theorem sem_run_fuel_mono (m std : Module) (hfrag : InF1 m = true) (f f' : Nat) (hle : f ≤ f')
    (h : (Sem.run m std f).result ≠ "unspecified:out of fuel") : Sem.run m std f' = Sem.run m std f := by
  obtain ⟨fn, hmain, _, hst, _⟩ := inF1_main hfrag
  obtain ⟨i, nf, hi, hf, rfl⟩ := mainFn_some hmain
  obtain ⟨cx, _, hrun⟩ := sem_run_main' (std := std) hi hf
  rw [hrun f] at h
  rw [hrun f', hrun f]
  have hn : ¬ isOOF (Sem.execList cx f [[]] {} nf.2.cards).2.2 := by
    intro hoof
    rcases hx : Sem.execList cx f [[]] {} nf.2.cards with ⟨σ1, env1, r1⟩
    rw [hx] at h hoof
    cases r1 <;> first | exact hoof | exact h rfl
  have : Sem.execList cx f' [[]] {} nf.2.cards = Sem.execList cx f [[]] {} nf.2.cards :=
    execList_fuel_mono nf.2.cards
      (fun c hc env σ hnc => exec_fuel_mono cx f c (isStmts_mem hst c hc) env σ hnc f' hle) [[]] {} hn
  rw [this]


/-- On F1 the reference semantics never yields an error, a `Return` or an `Abort`: the outcome is
    `ok`, or the oracle abstains (`unspecified`: a global read before it was written, out of fuel). -/
theorem sem_run_benign_F1 (m std : Module) (hfrag : InF1 m = true) (fuel : Nat) :
    ∃ x, Sem.run m std fuel = render x ∧ benign x.2.2 := by
  obtain ⟨fn, hmain, _, hst, _⟩ := inF1_main hfrag
  obtain ⟨i, nf, hi, hf, rfl⟩ := mainFn_some hmain
  obtain ⟨cx, _, hrun⟩ := sem_run_main (std := std) (fuel := fuel) hi hf
  exact ⟨_, hrun, execList_benign _ (fun c hc env σ => exec_benign cx fuel c (isStmts_mem hst c hc) env σ) _ _⟩

/-! ## the full statement, and what is proved of it -/

/-- the result string of a VM run, in the vocabulary of `Sem.Outcome.result` -/
def vmResult (e : Option RunErr) : String :=
  match e with
  | none => "ok"
  | some e => "err:" ++ e.kind.name

/-- the reference semantics gives a definite verdict (the oracle does not abstain) -/
def Definite (o : Sem.Outcome) : Prop :=
  (o.result = "ok" ∨ ∃ e : Sem.Err, o.result = "err:" ++ e.name) ∧ o.stmtValue = false

/-- **The full statement of C01**, for a notion `WellScoped` of well-scoped programs: whenever the
reference semantics gives a definite verdict, every run of the compiled program with enough
instruction budget and stack gives the same verdict (success or the same error kind), the same host
log and the same final globals.

What is proved (`compile_correct_F0`, `compile_correct_F1_loopFree`, `compile_correct_F1`), for
programs whose `main` (without parameters) is made of
* statements: `SetGlobalVar`, `IfTrue`, `IfFalse`, `IfElse`, `While`, `CompositeCard`, `Comment`;
* expressions: `ScalarInt`, `ScalarFloat`, `ScalarNil`, `Not`, `Add Sub Mul Div Less LessOrEq Equals
  NotEquals And Or Xor` (with the numeric coercions of `OVal.arith` / `vlt` / `vle` / `veq` /
  `asBool`, shared by both sides), `ReadVar` of a global;
the other functions of the module and the standard library are arbitrary (they are compiled but
not run). On this fragment no error can occur on either side (`sem_run_benign_F1`), so the verdict
is `ok`; the hypotheses are: the assigned global names have distinct 32-bit handles
(`handlesDistinct`, decidable), the program and its variable table fit 32-bit operands, the
instruction budget exceeds the bytecode size (loop-free programs) or is large enough (`While`),
the value stack has room for the deepest expression, the call stack has one frame.

Missing: `StringLiteral` and everything that allocates (tables, function values), locals
(`SetVar`/`ReadVar` of locals, `Repeat`, `ForEach`), `Return`/`Abort`, calls (static, dynamic,
native), closures.

`WellScoped` must at least exclude (these are *disagreements* between the reference semantics and
compiler + VM):
* value-producing cards in statement position (`Sem.Outcome.stmtValue`; the compiler leaks a stack
  slot, known finding K1);
* a `SetVar` that introduces a local inside a branch or loop body that may be skipped, followed by
  another declaration (`findingCondLocal` below: the reference semantics says `ok`, the VM fails
  with `VarNotFound` because the compiler numbered the skipped local);
* distinct global names with the same 32-bit handle (they share one VM slot). -/
def compile_correct_Full (WellScoped : Module → Prop) : Prop :=
  ∀ (m std : Module) (limit fuel : Nat) (p : Program),
    WellScoped m → compile m std limit = .ok p → Definite (Sem.run m std fuel) →
    ∃ budget stack calls, ∀ (cfg : Config) (maxInstr : Nat),
      budget ≤ maxInstr → stack ≤ cfg.stackSize → calls ≤ cfg.callStackSize →
      vmResult (Vm.run (Prog.ofProgram p) maxInstr (VmState.fresh cfg)).2 = (Sem.run m std fuel).result ∧
      (Vm.run (Prog.ofProgram p) maxInstr (VmState.fresh cfg)).1.hostLog = (Sem.run m std fuel).log ∧
      ∀ g, vmGlobal p (Vm.run (Prog.ofProgram p) maxInstr (VmState.fresh cfg)).1 g =
        semGlobal (Sem.run m std fuel) g

/-! ## non-vacuity: concrete programs -/

/-- the empty standard library used in the examples (`Gen.stdlib` is large) -/
def stdE : Module := Module.mk [] [] []

/-- F0: `g0 = 1 + 2; g1 = (3 < 2.5) xor !nil` -/
def exF0 : Module := Module.mk [] [("main", { arguments := [], cards := [
  .setGlobalVar "g0" (.bin .add (.scalarInt 1) (.scalarInt 2)),
  .setGlobalVar "g1" (.bin .xor (.bin .less (.scalarInt 3) (.scalarFloat 0x4004000000000000)) (.un .not .scalarNil))] })] []

/-- what a compiled example must satisfy for the theorems to apply with the default VM -/
def exampleOk (m : Module) (budget : Nat) (vmGlobals : List Val) : Bool :=
  match compile m stdE with
  | .ok p =>
    decide (p.bytecode.size < 4294967296) && decide (p.varIds.length < 4294967296) &&
    decide (p.bytecode.size < budget) &&
    decide ((Vm.run (Prog.ofProgram p) budget (VmState.fresh {})).1.globals = vmGlobals) &&
    (Vm.run (Prog.ofProgram p) budget (VmState.fresh {})).2.isNone
  | .error _ => false

theorem exF0_inF0 : InF0 exF0 = true := by decide +kernel
theorem exF0_names : handlesDistinct (snamess (mainCards exF0)) = true := by decide +kernel
theorem exF0_sem : (Sem.run exF0 stdE 10).result = "ok" ∧
    (Sem.run exF0 stdE 10).globals = [("g0", .int 3), ("g1", .int 1)] := by decide +kernel
theorem exF0_vm : exampleOk exF0 1000 [.int 3, .int 1] = true := by decide +kernel

/-- all hypotheses of `compile_correct_F0` hold for `exF0` with the default VM configuration -/
theorem exF0_correct : ∃ p, compile exF0 stdE = .ok p ∧
    Agree p ["g0", "g1"] (Vm.run (Prog.ofProgram p) 1000 (VmState.fresh {})) (Sem.run exF0 stdE 10) := by
  have h := exF0_vm
  unfold exampleOk at h
  rcases hc : compile exF0 stdE with _ | p
  · rw [hc] at h; cases h
  · rw [hc] at h
    simp only [Bool.and_eq_true, decide_eq_true_eq] at h
    obtain ⟨⟨⟨⟨h1, h2⟩, h3⟩, _⟩, _⟩ := h
    exact ⟨p, rfl, compile_correct_F0 exF0 stdE Gen.recursionLimit 10 1000 {} p exF0_inF0 exF0_names hc h1 h2 h3
      (by decide +kernel) (by decide +kernel) exF0_sem.1⟩


/-- F1 (jumps in both directions, no variable reads):
    `if 1 < 2 { g0 = 10 } else { g0 = 20 }; iftrue nil { g1 = 1 }; while 0.0 { g1 = 2 }; g2 = 5` -/
def exF1 : Module := Module.mk [] [("main", { arguments := [], cards := [
  .tri .ifElse (.bin .less (.scalarInt 1) (.scalarInt 2))
    (.setGlobalVar "g0" (.scalarInt 10)) (.setGlobalVar "g0" (.scalarInt 20)),
  .bin .ifTrue .scalarNil (.setGlobalVar "g1" (.scalarInt 1)),
  .bin .while (.scalarFloat 0) (.composite "block" [.setGlobalVar "g1" (.scalarInt 2)]),
  .setGlobalVar "g2" (.scalarInt 5)] })] []

theorem exF1_inF1 : InF1 exF1 = true := by decide +kernel
theorem exF1_names : handlesDistinct (snamess (mainCards exF1)) = true := by decide +kernel
theorem exF1_sem : (Sem.run exF1 stdE 10).result = "ok" ∧
    (Sem.run exF1 stdE 10).globals = [("g0", .int 10), ("g2", .int 5)] := by decide +kernel
theorem exF1_vm : exampleOk exF1 1000 [.int 10, .nil, .int 5] = true := by decide +kernel

/-- all hypotheses of `compile_correct_F1` hold for `exF1` with the default VM configuration -/
theorem exF1_correct : ∃ p, compile exF1 stdE = .ok p ∧ ∃ budget, ∀ maxInstr, budget ≤ maxInstr →
    Agree p ["g0", "g0", "g1", "g1", "g2"] (Vm.run (Prog.ofProgram p) maxInstr (VmState.fresh {}))
      (Sem.run exF1 stdE 10) := by
  have h := exF1_vm
  unfold exampleOk at h
  rcases hc : compile exF1 stdE with _ | p
  · rw [hc] at h; cases h
  · rw [hc] at h
    simp only [Bool.and_eq_true, decide_eq_true_eq] at h
    obtain ⟨⟨⟨⟨h1, h2⟩, h3⟩, _⟩, _⟩ := h
    exact ⟨p, rfl, compile_correct_F1 exF1 stdE Gen.recursionLimit 10 {} p exF1_inF1 exF1_names hc h1 h2
      (by decide +kernel) (by decide +kernel) exF1_sem.1⟩


/-! ## a disagreement between the reference semantics and compiler + VM (finding) -/

/-- `iftrue nil { x = 1 }; y = 2; out = y` — the branch is not taken, so the local `x` never gets
    its stack slot, but the compiler has numbered it: `y` is compiled as local 1 and
    `SetLocalVar 1` on a stack of height 0 fails. -/
def findingCondLocal : Module := Module.mk [] [("main", { arguments := [], cards := [
  .bin .ifTrue .scalarNil (.setVar "x" (.scalarInt 1)),
  .setVar "y" (.scalarInt 2),
  .setGlobalVar "out" (.readVar "y")] })] []

/-- both sides of a program, as the drivers print them -/
def showBoth (m : Module) : String :=
  let o := Sem.run m stdE 1000
  let semS := o.result ++ " " ++ toString (o.globals.map (fun p => (p.1, p.2.toTok)))
  match compile m stdE with
  | .ok p =>
    let (s, e) := Vm.run (Prog.ofProgram p) 10000 (VmState.fresh {})
    "SEM: " ++ semS ++ " | VM: " ++ vmResult e ++ " " ++ toString (s.globals.map Val.toTok)
  | .error _ => "SEM: " ++ semS ++ " | compile error"

/- (`String.splitOn`, used by `SetVar`/`ReadVar` on both sides, is defined by well-founded recursion and
   does not reduce in the kernel, so this is an evaluation, not a `decide` proof)
   expected: "SEM: ok [(out, i2)] | VM: err:VarNotFound []" -/
#eval showBoth findingCondLocal

/-! ### a program that reads variables and loops

`String.splitOn` (used by `ReadVar`/`SetVar` on both sides) does not reduce in the kernel, so membership in
the fragment is proved with `simp`, and the two sides are shown by evaluation. -/

set_option maxRecDepth 10000 in
theorem splitOn_i : ("i" : String).splitOn "." = ["i"] := by
  simp (config := {decide := true}) [String.splitOn, String.splitOnAux]

theorem simpleName_i : simpleName "i" = true := by
  unfold simpleName
  rw [splitOn_i]
  decide

/-- a real loop: `i = 0; while i < 3 { i = i + 1 }` -/
def exLoop : Module := Module.mk [] [("main", { arguments := [], cards := [
  .setGlobalVar "i" (.scalarInt 0),
  .bin .while (.bin .less (.readVar "i") (.scalarInt 3))
    (.setGlobalVar "i" (.bin .add (.readVar "i") (.scalarInt 1)))] })] []

theorem exLoop_inF1 : InF1 exLoop = true := by
  have hm : mainFn exLoop = some { arguments := [], cards := [
      .setGlobalVar "i" (.scalarInt 0),
      .bin .while (.bin .less (.readVar "i") (.scalarInt 3))
        (.setGlobalVar "i" (.bin .add (.readVar "i") (.scalarInt 1)))] } := by rfl
  unfold InF1
  rw [hm]
  simp [isStmts, isStmt, isExpr, isValOp, simpleName_i]

/- expected: "SEM: ok [(i, i3)] | VM: ok [i3]" -/
#eval showBoth exLoop

end Cao.C01
