import CaoProofs.Props.C10b
import CaoProofs.Props.C04
/-!
# C04b — control-flow integrity and the excluded panics, for COMPILED programs

`Props/C04.lean` proves its run-time theorems for every program accepted by the checker
(`Bytecode.WF p`); `Props/C10b.lean` proves that the checker accepts every compiled program
(`C10b.compile_wf`, under four hypotheses). Both files can now be imported together (the Wf lemma
family lives in `Cao.Compiler.Wf`), so the `WF` hypothesis is discharged here:

* `compiled_run_no_panic` — a run of a compiled program from a machine whose call stack holds
  instruction starts reports at worst an error whose root cause is one of the three
  `C04.residualPanics`, and never the fuel panic itself; `compiled_run_no_panic_of_no_frames` is the
  instance `s.frames = []` (fresh, cleared, after any earlier run);
* `compiled_run_no_invalid_opcode`, `compiled_run_no_empty_call_stack`;
* `compiled_loop_cfi`, `compiled_call_cfi`, `compiled_frames_nonempty`;
* `compiled_run_no_panic_Full` — the statement that also excludes the two capture panics (a `def`,
  not proved here).

The four hypotheses (those of `C10b.compile_wf`) are bundled in `CompiledOK`; `hypsOK2` is an
executable sufficient condition for them (it generalises `C10b.hypsOK`: function pointers are
allowed as long as none carries the entry function's handle), `hypsOK2_sound` its soundness.
-/
namespace Cao.C04b
open Cao Cao.Vm Cao.Compiler Cao.Bytecode
set_option linter.unusedVariables false

/-! ## 0. the hypotheses -/

/-- `p` is the output of `compile m std limit`, and the four hypotheses of `C10b.compile_wf` hold:
the code fits 31-bit jump operands, the data fits 32-bit string offsets, no `FunctionPointer`
carries the handle of the (unlabelled) entry function, and the 32-bit handles of closure labels do
not collide with other label handles. -/
structure CompiledOK (m std : Module) (limit : Nat) (p : Program) : Prop where
  compiled : compile m std limit = .ok p
  code_small : p.bytecode.size < 2 ^ 31
  data_small : p.data.size < 2 ^ 32
  no_entry_ref : C10.NoEntryRef m std limit p
  closure_handles : C10b.ClosureHandlesDistinct m std limit p

/-- every compiled program (under the four hypotheses) is accepted by the checker -/
theorem CompiledOK.wf {m std : Module} {limit : Nat} {p : Program} (h : CompiledOK m std limit p) : WF p :=
  C10b.compile_wf h.compiled h.code_small h.data_small h.no_entry_ref h.closure_handles

/-! ## 1. the theorems of C04 without `WF` -/

/-- **`compiled_run_no_panic`** (= `C04.run_no_panic_partial` for compiled programs): a run of a
    compiled program, from a machine whose call stack holds instruction starts, reports at worst an
    error whose root cause is one of the three `residualPanics`; and the reported error itself is
    not the fuel panic. -/
theorem compiled_run_no_panic {m std : Module} {limit : Nat} {p : Program}
    (hc : compile m std limit = .ok p) (hsz : p.bytecode.size < 2 ^ 31) (hdata : p.data.size < 2 ^ 32)
    (hentry : C10.NoEntryRef m std limit p) (hd : C10b.ClosureHandlesDistinct m std limit p)
    (n : Nat) (s : VmState) (hg : C04.GoodFrames p s) (e : RunErr)
    (he : (run (Prog.ofProgram p) n s).2 = some e) :
    C04.Allowed e.kind ∧ e.kind ≠ .panic "gas exhausted" :=
  C04.run_no_panic_partial (C10b.compile_wf hc hsz hdata hentry hd) n s hg e he

/-- … in particular from a machine without call frames (fresh, cleared, or left by any earlier `run`
    from such a machine: `C04.run_goodFrames`) -/
theorem compiled_run_no_panic_of_no_frames {m std : Module} {limit : Nat} {p : Program}
    (hc : compile m std limit = .ok p) (hsz : p.bytecode.size < 2 ^ 31) (hdata : p.data.size < 2 ^ 32)
    (hentry : C10.NoEntryRef m std limit p) (hd : C10b.ClosureHandlesDistinct m std limit p)
    (n : Nat) (s : VmState) (hs : s.frames = []) (e : RunErr)
    (he : (run (Prog.ofProgram p) n s).2 = some e) :
    C04.Allowed e.kind ∧ e.kind ≠ .panic "gas exhausted" :=
  compiled_run_no_panic hc hsz hdata hentry hd n s (C04.goodFrames_nil p s hs) e he

/-- **`"invalid opcode"` is unreachable** in a run of a compiled program -/
theorem compiled_run_no_invalid_opcode {m std : Module} {limit : Nat} {p : Program}
    (hc : compile m std limit = .ok p) (hsz : p.bytecode.size < 2 ^ 31) (hdata : p.data.size < 2 ^ 32)
    (hentry : C10.NoEntryRef m std limit p) (hd : C10b.ClosureHandlesDistinct m std limit p)
    (n : Nat) (s : VmState) (hg : C04.GoodFrames p s) (e : RunErr)
    (he : (run (Prog.ofProgram p) n s).2 = some e) :
    rootCause e.kind ≠ .panic "invalid opcode" :=
  C04.run_no_invalid_opcode (C10b.compile_wf hc hsz hdata hentry hd) n s hg e he

/-- **the two "call stack is empty" panics are unreachable** in a run of a compiled program -/
theorem compiled_run_no_empty_call_stack {m std : Module} {limit : Nat} {p : Program}
    (hc : compile m std limit = .ok p) (hsz : p.bytecode.size < 2 ^ 31) (hdata : p.data.size < 2 ^ 32)
    (hentry : C10.NoEntryRef m std limit p) (hd : C10b.ClosureHandlesDistinct m std limit p)
    (n : Nat) (s : VmState) (hg : C04.GoodFrames p s) (e : RunErr)
    (he : (run (Prog.ofProgram p) n s).2 = some e) :
    rootCause e.kind ≠ .panic "call stack is empty" ∧ rootCause e.kind ≠ .panic "Call stack was empty" :=
  C04.run_no_empty_call_stack (C10b.compile_wf hc hsz hdata hentry hd) n s hg e he

/-- **control-flow integrity of the dispatch loop** for compiled programs (= `C04.loop_cfi`): started
    at an instruction start on a call stack of instruction starts, with protected base `B` and any
    fuel, the loop either returns — with a non-empty call stack that extends `B` and consists of
    instruction starts — or fails with an `Allowed` error. -/
theorem compiled_loop_cfi {m std : Module} {limit : Nat} {p : Program}
    (hc : compile m std limit = .ok p) (hsz : p.bytecode.size < 2 ^ 31) (hdata : p.data.size < 2 ^ 32)
    (hentry : C10.NoEntryRef m std limit p) (hd : C10b.ClosureHandlesDistinct m std limit p)
    (gas : Nat) (B : List Frame) (ip : Nat) (s : VmState)
    (hB : BaseExit (Prog.ofProgram p) B) (hg : C04.GoodFrames p s) (hip : C04.Start p ip)
    (hat : AtBase (Prog.ofProgram p) B s.frames ip) :
    ExecPost (fun fs' => B <+: fs' ∧ Good (C04.Start p) fs' ∧ fs' ≠ []) C04.Allowed
      (exec (Prog.ofProgram p) gas (.loop ip) s) :=
  C04.loop_cfi (C10b.compile_wf hc hsz hdata hentry hd) gas B ip s hB hg hip hat

/-- the same for `run_function` (= `C04.call_cfi`) -/
theorem compiled_call_cfi {m std : Module} {limit : Nat} {p : Program}
    (hc : compile m std limit = .ok p) (hsz : p.bytecode.size < 2 ^ 31) (hdata : p.data.size < 2 ^ 32)
    (hentry : C10.NoEntryRef m std limit p) (hd : C10b.ClosureHandlesDistinct m std limit p)
    (gas : Nat) (f : Val) (s : VmState) (hg : C04.GoodFrames p s) :
    ExecPost (fun fs' => s.frames <+: fs' ∧ Good (C04.Start p) fs') C04.Allowed
      (exec (Prog.ofProgram p) gas (.call f) s) :=
  C04.call_cfi (C10b.compile_wf hc hsz hdata hentry hd) gas f s hg

/-- the sharper form (= `C04.call_cfi_eq`): `run_function` returns with exactly the call stack it
    was called on -/
theorem compiled_call_cfi_eq {m std : Module} {limit : Nat} {p : Program}
    (hc : compile m std limit = .ok p) (hsz : p.bytecode.size < 2 ^ 31) (hdata : p.data.size < 2 ^ 32)
    (hentry : C10.NoEntryRef m std limit p) (hd : C10b.ClosureHandlesDistinct m std limit p)
    (gas : Nat) (f : Val) (s : VmState) (hg : C04.GoodFrames p s) :
    ExecPost (fun fs' => fs' = s.frames ∧ Good (C04.Start p) fs') C04.Allowed
      (exec (Prog.ofProgram p) gas (.call f) s) :=
  C04.call_cfi_eq (C10b.compile_wf hc hsz hdata hentry hd) gas f s hg

/-- the loop `run` starts ends with a non-empty call stack, unless it fails (= `C04.frames_nonempty`) -/
theorem compiled_frames_nonempty {m std : Module} {limit : Nat} {p : Program}
    (hc : compile m std limit = .ok p) (hsz : p.bytecode.size < 2 ^ 31) (hdata : p.data.size < 2 ^ 32)
    (hentry : C10.NoEntryRef m std limit p) (hd : C10b.ClosureHandlesDistinct m std limit p)
    (n : Nat) (s : VmState) (hg : C04.GoodFrames p s) :
    ExecPost (fun fs' => fs' ≠ [] ∧ Good (C04.Start p) fs') C04.Allowed
      (exec (Prog.ofProgram p) (gasFor (started n s) n) (.loop 0) (started n s)) :=
  C04.frames_nonempty (C10b.compile_wf hc hsz hdata hentry hd) n s hg

/-- the entry point and every label of a compiled program are instruction starts, and the
    interpreter's control-flow-integrity premise holds (`C04.wf_cfi`) -/
theorem compiled_cfi {m std : Module} {limit : Nat} {p : Program}
    (hc : compile m std limit = .ok p) (hsz : p.bytecode.size < 2 ^ 31) (hdata : p.data.size < 2 ^ 32)
    (hentry : C10.NoEntryRef m std limit p) (hd : C10b.ClosureHandlesDistinct m std limit p) :
    Cfi (Prog.ofProgram p) (C04.Start p) ∧ C04.Start p 0 :=
  C04.wf_cfi (C10b.compile_wf hc hsz hdata hentry hd)

/-! ## 2. the full statement -/

/-- **the statement one would like** (not proved here; another file works on it): no panic at all is
    reported by a run of a compiled program on a fresh machine, except — below a host function — the
    model's own fuel panic. With respect to `compiled_run_no_panic` the conclusion also excludes the two
    capture panics `"closure not found for capture"` and `"upvalue index out of bounds"` of
    `RegisterUpvalue`. `C04.not_run_no_panic_Full` shows that `WF p` alone does not suffice (a
    hand-written well-formed program jumps into a closure body); what is missing for compiled
    programs is the dynamic half of the argument: frames whose code lies in a closure-body region were
    entered through a call of that closure, whose object carries all its upvalues by then
    (`C10b.compile_upvalues_checked` is the static half). It is stated for a fresh machine: a start
    state with an arbitrary heap may hold closure objects the program never created. -/
def compiled_run_no_panic_Full : Prop :=
  ∀ (m std : Module) (limit : Nat) (p : Program), compile m std limit = .ok p →
    p.bytecode.size < 2 ^ 31 → p.data.size < 2 ^ 32 → C10.NoEntryRef m std limit p →
    C10b.ClosureHandlesDistinct m std limit p →
    ∀ (n : Nat) (c : Config) (e : RunErr), (run (Prog.ofProgram p) n (VmState.fresh c)).2 = some e →
      (∀ w, rootCause e.kind = .panic w → w = "gas exhausted") ∧ e.kind ≠ .panic "gas exhausted"

/-- what `compiled_run_no_panic` leaves open with respect to `compiled_run_no_panic_Full`: exactly
    the two capture panics -/
theorem compiled_run_no_panic_gap {m std : Module} {limit : Nat} {p : Program}
    (hc : compile m std limit = .ok p) (hsz : p.bytecode.size < 2 ^ 31) (hdata : p.data.size < 2 ^ 32)
    (hentry : C10.NoEntryRef m std limit p) (hd : C10b.ClosureHandlesDistinct m std limit p)
    (n : Nat) (s : VmState) (hg : C04.GoodFrames p s) (e : RunErr)
    (he : (run (Prog.ofProgram p) n s).2 = some e) (w : String) (hw : rootCause e.kind = .panic w) :
    w = "gas exhausted" ∨ w = "closure not found for capture" ∨ w = "upvalue index out of bounds" := by
  have h := (compiled_run_no_panic hc hsz hdata hentry hd n s hg e he).1 w hw
  simpa [C04.residualPanics] using h

/-! ## 3. an executable sufficient condition for the four hypotheses -/

/-- the program compiles, is small, no decoded `FunctionPointer` instruction carries the handle of
    the entry function `unit[0]`, and the handles of the label log are pairwise different
    (`C10b.hypsOK` with an arbitrary standard library and limit, and with function pointers allowed) -/
def hypsOK2 (m std : Module) (limit : Nat) : Bool :=
  match compile m std limit, intoIrStream m std limit with
  | .ok p, .ok unit =>
    decide (p.bytecode.size < 2 ^ 31) && decide (p.data.size < 2 ^ 32) &&
    (match decodeAll p.bytecode (p.bytecode.size + 1) 0 [] with
     | .ok l => l.all (fun x => x.2 != op.functionPointer ||
                  UInt32.ofNat (Bytecode.rdU32 p.bytecode (x.1 + 1)) != unit[0]!.handle)
     | .error _ => false) &&
    decide (((C10b.labelLog m std limit).map (·.1)).Pairwise (· ≠ ·))
  | _, _ => false

theorem hypsOK2_sound {m std : Module} {limit : Nat} (h : hypsOK2 m std limit = true) :
    ∃ p, CompiledOK m std limit p := by
  unfold hypsOK2 at h
  split at h
  · rename_i p unit hp hu
    simp only [Bool.and_eq_true, decide_eq_true_eq] at h
    obtain ⟨⟨⟨h1, h2⟩, h3⟩, h4⟩ := h
    refine ⟨p, hp, h1, h2, ?_, (C10b.LabelHandlesDistinct.closure (C10b.functional_of_pairwise _ h4) p)⟩
    intro unit' hu' pos hi
    rw [hu] at hu'
    cases hu'
    obtain ⟨l, hl, hmem, _⟩ := C10.compile_decodes hp
    rw [hl] at h3
    have := List.all_eq_true.1 h3 _ ((hmem _ _).2 hi)
    simpa using this
  · cases h

/-! ## 4. non-vacuity

`main` calls `f(7)`; `f(x)` calls the host function `fail` (which the default machine does not
have: `ProcedureNotFound`). The program contains a `FunctionPointer` (to `f`, not to `main`), so
`C10b.hypsOK` rejects it and `hypsOK2` accepts it. -/

def exM : Module :=
  Module.mk [] [("main", ⟨[], [.call "f" [.scalarInt 7]]⟩), ("f", ⟨["x"], [.callNative "fail" []]⟩)] []
def exStd : Module := Module.mk [] [] []

theorem exM_hyps : hypsOK2 exM exStd Gen.recursionLimit = true := by decide +kernel

/-- the four hypotheses are satisfiable … -/
theorem exM_ok : ∃ p, CompiledOK exM exStd Gen.recursionLimit p := hypsOK2_sound exM_hyps

/-- … by a program with a failing run from a fresh machine (so that the theorems above say something
    about an actual error) -/
def exRuns : Bool :=
  match compile exM exStd with
  | .error _ => false
  | .ok p => (run (Prog.ofProgram p) 1000 (VmState.fresh {})).2.isSome

theorem exRuns_true : exRuns = true := by decide +kernel

theorem example_error : ∃ p e, CompiledOK exM exStd Gen.recursionLimit p ∧ C04.GoodFrames p (VmState.fresh {}) ∧
    (run (Prog.ofProgram p) 1000 (VmState.fresh {})).2 = some e ∧
    C04.Allowed e.kind ∧ e.kind ≠ .panic "gas exhausted" := by
  obtain ⟨p, hp⟩ := exM_ok
  have h := exRuns_true
  unfold exRuns at h
  have hc : compile exM exStd = .ok p := hp.compiled
  rw [hc] at h
  obtain ⟨e, he⟩ := Option.isSome_iff_exists.1 h
  exact ⟨p, e, hp, C04.goodFrames_fresh _ _, he,
    compiled_run_no_panic hp.compiled hp.code_small hp.data_small hp.no_entry_ref hp.closure_handles
      1000 _ (C04.goodFrames_fresh _ _) e he⟩

/-- the two-level closure of `C10b` satisfies the hypotheses too (a program with `Closure` and
    `RegisterUpvalue` instructions, the ones the two residual capture panics belong to) -/
example : ∃ p, CompiledOK C10b.twoLevel C10b.stdE Gen.recursionLimit p := by
  obtain ⟨p, h, h1, h2, h3, h4⟩ := C10b.hypsOK_sound C10b.twoLevel_hyps
  exact ⟨p, h, h1, h2, h3, h4⟩

end Cao.C04b
