import CaoProofs.Lemmas.NoPanicExec
import CaoProofs.Lemmas.NoPanicMsg
import CaoProofs.Lemmas.CompilerNoPanic
import CaoProofs.Props.C05
import CaoProofs.Props.C03
import CaoProofs.Props.C17
import CaoModel.Bytecode
import CaoModel.CardOps
/-!
# C04 — compiling and running are total: errors are values, never crashes

"Compiling and running are total: errors are values, never crashes or hangs."

Termination is by construction (`compile`, `exec`, `run` are structurally recursive functions);
what is proved here is which of the explicit `panic` outcomes of the models are reachable.

* §1 `wf_cfi`: a `Bytecode.WF` program has control-flow integrity (`Cfi`): instruction starts
  (`Start`) are closed under sequential flow, jumps, labels, and the final `Exit`.
* §2 `loop_cfi`, `call_cfi`, `frames_nonempty`, `run_no_panic_partial`, `run_no_invalid_opcode`,
  `run_no_empty_call_stack`: for well-formed programs the loop only dispatches at instruction
  starts and never on an empty call stack; the panics left are `residualPanics`.
  `not_run_no_panic_Full`: `WF` alone does not exclude the capture panic (`jumpIntoClosure`).
* §3 `step_panics_only`, `step_panic_cond`: the panic messages of one instruction and when they arise.
* §4 resource / type errors are values: `push_full`, `callScript_full`, `alloc_oom_iff`,
  `call_non_function`, `int_add_wraps`, …
* §5 the compiler: `compile_total`, `compile_panic_messages`, `insertLabel_panic_iff`, `globalId_panic_iff`.
* §6 `run_total`, `run_bounded`.

The logic (`Fr`, `Quiet`, `fr_auto`) is in `Lemmas/NoPanic.lean`; `fr_step_cfi` in
`Lemmas/NoPanicStep.lean`; `exec_cfi`, `run_cfi` in `Lemmas/NoPanicExec.lean`;
`step_panic_conditions` in `Lemmas/NoPanicMsg.lean`; `CT`, `compile_handlePanic` in
`Lemmas/CompilerNoPanic.lean`.
-/
namespace Cao.C04
open Cao Cao.Vm Cao.Bytecode
set_option linter.unusedVariables false

/-! ## 1. well-formed bytecode: instruction starts -/

/-- the decoded instructions of a program (`[]` if it does not decode) -/
def instrs (p : Compiler.Program) : List (Nat × UInt8) :=
  match decodeAll p.bytecode (p.bytecode.size + 1) 0 [] with
  | .ok l => l
  | .error _ => []

/-- `a` is the address of an instruction of `p` (in the front-to-back decoding) -/
def Start (p : Compiler.Program) (a : Nat) : Prop := a ∈ (instrs p).map (·.1)

instance (p : Compiler.Program) (a : Nat) : Decidable (Start p a) := inferInstanceAs (Decidable (_ ∈ _))

/-- a front-to-back decoding from `pos` to the end of the code -/
inductive Chain (bc : Array UInt8) : Nat → List (Nat × UInt8) → Prop
  | done : Chain bc bc.size []
  | cons {pos sp : Nat} {rest : List (Nat × UInt8)} : pos < bc.size →
      Gen.spanOf (bc.getD pos 0) = some sp → pos + sp ≤ bc.size → Chain bc (pos + sp) rest →
      Chain bc pos ((pos, bc.getD pos 0) :: rest)

theorem decodeAll_chain (bc : Array UInt8) : ∀ (fuel pos : Nat) (acc l : List (Nat × UInt8)),
    decodeAll bc fuel pos acc = .ok l → ∃ ch, l = acc.reverse ++ ch ∧ Chain bc pos ch := by
  intro fuel
  induction fuel with
  | zero => intro pos acc l h; simp [decodeAll] at h
  | succ fuel ih =>
    intro pos acc l h
    unfold decodeAll at h
    split at h
    · next heq =>
      simp only [Except.ok.injEq] at h
      have : pos = bc.size := by simpa using heq
      subst this
      exact ⟨[], by simp [h], .done⟩
    split at h
    · cases h
    dsimp only at h
    split at h
    · cases h
    next hne hgt _ sp hsp =>
    split at h
    · cases h
    next hle =>
    obtain ⟨ch, hl, hch⟩ := ih _ _ _ h
    refine ⟨(pos, bc.getD pos 0) :: ch, by simp [hl], .cons ?_ hsp (by omega) hch⟩
    have : pos ≠ bc.size := by simpa using hne
    omega

theorem Chain.at_end {bc : Array UInt8} {ch : List (Nat × UInt8)} (h : Chain bc bc.size ch) : ch = [] := by
  cases h with
  | done => rfl
  | cons hlt _ _ _ => omega

theorem Chain.head {bc : Array UInt8} {pos : Nat} {ch : List (Nat × UInt8)} (h : Chain bc pos ch)
    (hne : pos ≠ bc.size) : ∃ rest, ch = (pos, bc.getD pos 0) :: rest := by
  cases h with
  | done => exact absurd rfl hne
  | cons _ _ _ _ => exact ⟨_, rfl⟩

/-- what a decoding knows about each of its instructions -/
theorem Chain.mem {bc : Array UInt8} {pos : Nat} {ch : List (Nat × UInt8)} (h : Chain bc pos ch) :
    ∀ a o, (a, o) ∈ ch → o = bc.getD a 0 ∧ a < bc.size ∧ ∃ sp, Gen.spanOf o = some sp ∧
      ((a + sp = bc.size ∧ ch.getLast? = some (a, o)) ∨ (a + sp < bc.size ∧ (a + sp) ∈ ch.map (·.1))) := by
  induction h with
  | done => intro a o h; cases h
  | @cons pos sp rest hlt hsp hle hch ih =>
    intro a o hm
    rcases List.mem_cons.1 hm with he | hm
    · simp only [Prod.mk.injEq] at he
      obtain ⟨rfl, rfl⟩ := he
      refine ⟨rfl, hlt, sp, hsp, ?_⟩
      by_cases hend : a + sp = bc.size
      · left
        rw [hend] at hch
        rw [hch.at_end]
        exact ⟨hend, rfl⟩
      · right
        obtain ⟨r, hr⟩ := hch.head hend
        exact ⟨by omega, by rw [hr]; simp⟩
    · obtain ⟨h1, h2, sp', h3, h4⟩ := ih a o hm
      refine ⟨h1, h2, sp', h3, ?_⟩
      rcases h4 with ⟨h4, h5⟩ | ⟨h4, h5⟩
      · left
        refine ⟨h4, ?_⟩
        rw [List.getLast?_cons_of_ne_nil (List.ne_nil_of_mem hm)]
        exact h5
      · right; exact ⟨h4, List.mem_cons_of_mem _ h5⟩


/-- what the interpreter relies on, read off the decidable check `wfReason` -/
theorem wf_facts {p : Compiler.Program} (h : WF p) :
    ∃ l, decodeAll p.bytecode (p.bytecode.size + 1) 0 [] = .ok l ∧
      (∃ a, l.getLast? = some (a, Compiler.op.exit)) ∧
      (∀ a o, (a, o) ∈ l → (o = Compiler.op.goto ∨ o = Compiler.op.gotoIfTrue ∨ o = Compiler.op.gotoIfFalse) →
        Bytecode.rdU32 p.bytecode (a + 1) ∈ l.map (·.1)) ∧
      (∀ lab ∈ p.labels, lab.2 ∈ l.map (·.1)) := by
  unfold WF wfReason at h
  split at h
  · cases h
  next l hl =>
  refine ⟨l, hl, ?_⟩
  dsimp only at h
  split at h
  · cases h
  next a lastOp hlast =>
  split at h
  · cases h
  next hexit =>
  split at h
  · cases h
  next hci =>
  split at h
  · cases h
  split at h
  · cases h
  next hlab =>
  clear h
  refine ⟨⟨a, ?_⟩, ?_, ?_⟩
  · have : lastOp = Compiler.op.exit := by simpa using hexit
    rw [hlast, this]
  · intro a o hm ho
    rw [List.findSome?_eq_none_iff] at hci
    have := hci (a, o) hm
    dsimp only at this
    have hcond : (o == Compiler.op.goto || o == Compiler.op.gotoIfTrue || o == Compiler.op.gotoIfFalse) = true := by
      rcases ho with rfl | rfl | rfl <;> decide
    rw [if_pos hcond] at this
    split at this
    · next hcont => exact List.contains_iff_mem.1 hcont
    · cases this
  · intro lab hm
    rw [List.find?_eq_none] at hlab
    have := hlab lab hm
    simp only [Bool.not_eq_true', Bool.not_eq_false] at this
    exact List.contains_iff_mem.1 (by simpa using this)


theorem Chain.nil_pos {bc : Array UInt8} {q : Nat} (h : Chain bc q []) : q = bc.size := by
  generalize hc : ([] : List (Nat × UInt8)) = ch at h
  cases h with
  | done => rfl
  | cons _ _ _ _ => cases hc

theorem Chain.last {bc : Array UInt8} {pos : Nat} {ch : List (Nat × UInt8)} (h : Chain bc pos ch) :
    ∀ a o, ch.getLast? = some (a, o) → o = bc.getD a 0 ∧ ∃ sp, Gen.spanOf o = some sp ∧ a + sp = bc.size := by
  induction h with
  | done => intro a o h; cases h
  | @cons pos sp rest hlt hsp hle hch ih =>
    intro a o hl
    cases rest with
    | nil =>
      simp only [List.getLast?_singleton, Option.some.injEq, Prod.mk.injEq] at hl
      obtain ⟨rfl, rfl⟩ := hl
      refine ⟨rfl, sp, hsp, ?_⟩
      exact hch.nil_pos
    | cons x xs =>
      rw [List.getLast?_cons_of_ne_nil (by simp)] at hl
      exact ih a o hl

/-- **a well-formed program has control-flow integrity**: the facts `step`/`exec` rely on -/
theorem wf_cfi {p : Compiler.Program} (h : WF p) : Cfi (Prog.ofProgram p) (Start p) ∧ Start p 0 := by
  obtain ⟨l, hl, ⟨a, hlast⟩, hjump, hlab⟩ := wf_facts h
  obtain ⟨ch, hch0, hchain⟩ := decodeAll_chain _ _ _ _ _ hl
  simp only [List.reverse_nil, List.nil_append] at hch0
  subst hch0
  have hinstrs : instrs p = l := by unfold instrs; rw [hl]
  have hstart : ∀ x, Start p x ↔ ∃ o, (x, o) ∈ l := by
    intro x
    unfold Start
    rw [hinstrs]
    simp
  have hbc : (Prog.ofProgram p).bytecode = p.bytecode := rfl
  obtain ⟨hlo, spl, hspl, hsize⟩ := hchain.last a _ hlast
  have hspl1 : spl = 1 := by
    have : Gen.spanOf Compiler.op.exit = some 1 := by decide
    rw [this] at hspl
    exact (Option.some.inj hspl).symm
  subst hspl1
  have ha : a = p.bytecode.size - 1 := by omega
  refine ⟨⟨?_, ?_, ?_, ?_, ?_, ?_⟩, ?_⟩
  · intro src hs
    obtain ⟨o, hm⟩ := (hstart src).1 hs
    obtain ⟨ho, _, sp, hsp, _⟩ := hchain.mem src o hm
    rw [hbc, ← ho, hsp]
    simp
  · intro src sp hs hsp hx
    obtain ⟨o, hm⟩ := (hstart src).1 hs
    obtain ⟨ho, _, sp', hsp', hcase⟩ := hchain.mem src o hm
    rw [hbc, ← ho] at hsp hx
    rw [hsp'] at hsp
    have : sp' = sp := Option.some.inj hsp
    subst this
    rcases hcase with ⟨_, hl'⟩ | ⟨_, hm'⟩
    · rw [hlast] at hl'
      simp only [Option.some.injEq, Prod.mk.injEq] at hl'
      exact absurd hl'.2.symm hx
    · unfold Start; rw [hinstrs]; exact hm'
  · intro src hs hop
    obtain ⟨o, hm⟩ := (hstart src).1 hs
    obtain ⟨ho, _⟩ := hchain.mem src o hm
    rw [hbc, ← ho] at hop
    have := hjump src o hm hop
    unfold Start; rw [hinstrs]; exact this
  · intro lab hm
    have := hlab lab hm
    unfold Start; rw [hinstrs]; exact this
  · rw [hbc, ← ha]
    exact (hstart a).2 ⟨_, List.mem_of_getLast? hlast⟩
  · rw [hbc, ← ha]
    exact hlo.symm
  · have hne : l ≠ [] := by intro h0; rw [h0] at hlast; cases hlast
    have h0 : (0 : Nat) ≠ p.bytecode.size := by
      intro h0
      rw [h0] at hchain
      exact hne hchain.at_end
    obtain ⟨rest, hr⟩ := hchain.head h0
    exact (hstart 0).2 ⟨p.bytecode.getD 0 0, by rw [hr]; exact List.mem_cons_self⟩


/-! ## 2. running a well-formed program: which panics are left -/

/-- the panic outcomes of the interpreter model that the theorems below do **not** exclude:
    the model's own fuel (only below a native, see `C03.not_gas_suffices_Full`) and the two
    assertions of `RegisterUpvalue` for a non-local capture -/
def residualPanics : List String :=
  ["gas exhausted", "closure not found for capture", "upvalue index out of bounds"]

/-- an error whose root cause (below the `TaskFailure` wrappers of natives) is not a panic, or is
    one of the `residualPanics` -/
def Allowed (e : ErrKind) : Prop := ∀ w, rootCause e = .panic w → w ∈ residualPanics

instance : ExecErr Allowed where
  calm h w hw := absurd hw (h w)
  wrap h := h
  capture w hw := by
    simp only [rootCause, ErrKind.panic.injEq] at hw
    subst hw; decide
  index w hw := by
    simp only [rootCause, ErrKind.panic.injEq] at hw
    subst hw; decide
  gas w hw := by
    simp only [rootCause, ErrKind.panic.injEq] at hw
    subst hw; decide

/-- the return addresses on the call stack are instruction starts (`[]` for a fresh / cleared VM) -/
def GoodFrames (p : Compiler.Program) (s : VmState) : Prop := Good (Start p) s.frames

theorem goodFrames_nil (p : Compiler.Program) (s : VmState) (h : s.frames = []) : GoodFrames p s := by
  intro f hf; rw [h] at hf; cases hf

theorem goodFrames_fresh (p : Compiler.Program) (c : Config) : GoodFrames p (VmState.fresh c) :=
  goodFrames_nil p _ rfl

/-- **`frames_nonempty` / control-flow integrity of the loop** (items 3 and 4): for a well-formed
    program, the dispatch loop started at an instruction start on a non-empty call stack of
    instruction starts, and protected base `B` (`B = []` at top level), with any fuel,
    either returns — then with a non-empty call stack that still extends `B` and consists of
    instruction starts — or fails with an `Allowed` error. In particular it never dispatches at a
    non-start (`"invalid opcode"`) and never finds the call stack empty. -/
theorem loop_cfi {p : Compiler.Program} (h : WF p) (gas : Nat) (B : List Frame) (ip : Nat) (s : VmState)
    (hB : BaseExit (Prog.ofProgram p) B) (hg : GoodFrames p s) (hip : Start p ip)
    (hat : AtBase (Prog.ofProgram p) B s.frames ip) :
    ExecPost (fun fs' => B <+: fs' ∧ Good (Start p) fs' ∧ fs' ≠ []) Allowed
      (exec (Prog.ofProgram p) gas (.loop ip) s) :=
  (exec_cfi (E := Allowed) _ (wf_cfi h).1 gas).1 B ip s hB hg hip hat

/-- the same for `run_function`: it returns with a call stack that extends the one it was called on -/
theorem call_cfi {p : Compiler.Program} (h : WF p) (gas : Nat) (f : Val) (s : VmState) (hg : GoodFrames p s) :
    ExecPost (fun fs' => s.frames <+: fs' ∧ Good (Start p) fs') Allowed
      (exec (Prog.ofProgram p) gas (.call f) s) :=
  (exec_cfi (E := Allowed) _ (wf_cfi h).1 gas).2.prefix f s hg

/-- (after the repair of `run_function`, which pops the call stack back to its entry depth) the
    sharper form: `run_function` returns with exactly the call stack it was called on -/
theorem call_cfi_eq {p : Compiler.Program} (h : WF p) (gas : Nat) (f : Val) (s : VmState) (hg : GoodFrames p s) :
    ExecPost (fun fs' => fs' = s.frames ∧ Good (Start p) fs') Allowed
      (exec (Prog.ofProgram p) gas (.call f) s) :=
  (exec_cfi (E := Allowed) _ (wf_cfi h).1 gas).2 f s hg

/-- **`frames_nonempty`** for `run`: the loop `run` starts ends with a non-empty call stack (which
    `run` then truncates), unless it fails -/
theorem frames_nonempty {p : Compiler.Program} (h : WF p) (n : Nat) (s : VmState) (hg : GoodFrames p s) :
    ExecPost (fun fs' => fs' ≠ [] ∧ Good (Start p) fs') Allowed
      (exec (Prog.ofProgram p) (gasFor (started n s) n) (.loop 0) (started n s)) :=
  runLoop_frames (E := Allowed) _ (wf_cfi h).1 (wf_cfi h).2 n s hg

/-- **`run_no_panic_partial`** (item 5): a run of a well-formed program, from a machine whose call
    stack holds instruction starts (e.g. none: fresh, cleared, or after any earlier `run` from
    such a machine), reports at worst an error whose root cause is one of the three
    `residualPanics`; and the reported error itself is not the fuel panic. -/
theorem run_no_panic_partial {p : Compiler.Program} (h : WF p) (n : Nat) (s : VmState)
    (hg : GoodFrames p s) (e : RunErr) (he : (run (Prog.ofProgram p) n s).2 = some e) :
    Allowed e.kind ∧ e.kind ≠ .panic "gas exhausted" :=
  ⟨run_cfi (E := Allowed) _ (wf_cfi h).1 (wf_cfi h).2 n s hg e he, C03.gas_suffices_toplevel _ n s e he⟩

/-- item 4: **`"invalid opcode"` is unreachable** -/
theorem run_no_invalid_opcode {p : Compiler.Program} (h : WF p) (n : Nat) (s : VmState)
    (hg : GoodFrames p s) (e : RunErr) (he : (run (Prog.ofProgram p) n s).2 = some e) :
    rootCause e.kind ≠ .panic "invalid opcode" := by
  intro hk
  have := (run_no_panic_partial h n s hg e he).1 _ hk
  revert this; decide

/-- item 3: **the two "call stack is empty" panics are unreachable** -/
theorem run_no_empty_call_stack {p : Compiler.Program} (h : WF p) (n : Nat) (s : VmState)
    (hg : GoodFrames p s) (e : RunErr) (he : (run (Prog.ofProgram p) n s).2 = some e) :
    rootCause e.kind ≠ .panic "call stack is empty" ∧ rootCause e.kind ≠ .panic "Call stack was empty" := by
  constructor <;> intro hk <;> have := (run_no_panic_partial h n s hg e he).1 _ hk <;> revert this <;> decide

/-- a machine without call frames stays one: the hypothesis `GoodFrames` is an invariant of use -/
theorem run_goodFrames {p : Compiler.Program} (q : Prog) (n : Nat) (s : VmState) (hs : s.frames = []) :
    GoodFrames p (run q n s).1 :=
  goodFrames_nil p _ (C17.run_frames_nil q n s hs)

/-- the statement one would like: no panic at all. Missing: (1) the two capture panics need
    "`RegisterUpvalue` with a non-local flag is only executed in a frame entered through a closure
    call whose closure has enough upvalues" — `wfReason` checks the static half (`checkUp`: such
    instructions lie in a closure-body region and the index is below the number of upvalues the
    region's `Closure` instruction registers), what is missing is the dynamic half: frames whose
    code lies in a closure-body region were entered through that closure (a code-region
    invariant of the call stack) and the closure object carries all its upvalues by then;
    (2) the fuel panic below natives is reachable from ill-behaved start states
    (`C03.not_gas_suffices_Full`), so this needs the stack-neutrality assumption on host functions. -/
def run_no_panic_Full : Prop :=
  ∀ (p : Compiler.Program), WF p → ∀ (n : Nat) (c : Config) (e : RunErr),
    (run (Prog.ofProgram p) n (VmState.fresh c)).2 = some e → ∀ w, rootCause e.kind ≠ .panic w


/-! ### `run_no_panic_Full` is false for `WF` as it stands

`Bytecode.WF` is structural: jumps must land on instruction starts, but nothing keeps a jump of
one function from landing inside the body of a closure. The program below does that: `main` jumps
into a closure-body region, creates a closure there and captures a non-local upvalue for it — in a
frame that was not entered through a closure call. The model (like the Rust, which `expect`s)
panics. Compiled programs never contain such a jump, so the capture panics are excluded for them
by a stronger well-formedness predicate (jumps stay inside their function's code region), not by
`WF`. -/

private def t0 : Compiler.Trace := { ns := [], function := 0, indices := [] }

/-- `0: Goto 5; 5 (label 7): Closure 7 0; 14: CopyLast; 15: RegisterUpvalue 0 nonlocal; 18: Exit;
    19: Closure 7 0; 28: CopyLast; 29: RegisterUpvalue 0 local; 32: Exit` -/
def jumpIntoClosure : Compiler.Program :=
  { bytecode := #[28, 5, 0, 0, 0,
                  42, 7, 0, 0, 0, 0, 0, 0, 0,
                  9,
                  45, 0, 0,
                  10,
                  42, 7, 0, 0, 0, 0, 0, 0, 0,
                  9,
                  45, 0, 1,
                  10],
    data := #[], labels := [(7, 5)], varIds := [], varNames := [],
    trace := [(0, t0), (5, t0), (14, t0), (15, t0), (18, t0), (19, t0), (28, t0), (29, t0), (32, t0)] }

theorem jumpIntoClosure_wf : WF jumpIntoClosure := by decide +kernel

private def jumpCheck : Bool :=
  match (run (Prog.ofProgram jumpIntoClosure) 100 (VmState.fresh {})).2 with
  | some e => (match e.kind with | .panic w => w == "closure not found for capture" | _ => false)
  | none => false

private theorem jumpCheck_true : jumpCheck = true := by decide +kernel

/-- a well-formed (but not compiler-generated) program that panics -/
theorem jumpIntoClosure_panics :
    ∃ e, (run (Prog.ofProgram jumpIntoClosure) 100 (VmState.fresh {})).2 = some e ∧
      e.kind = .panic "closure not found for capture" := by
  have h := jumpCheck_true
  unfold jumpCheck at h
  split at h
  · next e he =>
    refine ⟨e, he, ?_⟩
    split at h
    · next w hw => rw [hw]; simp only [beq_iff_eq] at h; rw [h]
    · cases h
  · cases h

theorem not_run_no_panic_Full : ¬ run_no_panic_Full := by
  intro h
  obtain ⟨e, he, hk⟩ := jumpIntoClosure_panics
  exact h jumpIntoClosure jumpIntoClosure_wf 100 {} e he "closure not found for capture" (by rw [hk]; rfl)

/-! ### non-vacuity -/

/-- `ScalarNil; Pop; Exit` -/
def tinyProgram : Compiler.Program :=
  { bytecode := #[7, 16, 10], data := #[], labels := [], varIds := [], varNames := [],
    trace := [(0, t0), (2, t0)] }

example : WF tinyProgram := by decide +kernel
example : Start tinyProgram 0 ∧ Start tinyProgram 1 ∧ Start tinyProgram 2 ∧ ¬ Start tinyProgram 3 := by
  decide +kernel
example : GoodFrames tinyProgram (VmState.fresh {}) := goodFrames_fresh _ _
example : (run (Prog.ofProgram tinyProgram) 10 (VmState.fresh {})).2.isNone = true := by decide +kernel
/-- the hypotheses of `run_no_panic_partial` are satisfiable together with an error outcome -/
example : ∃ e, (run (Prog.ofProgram tinyProgram) 2 (VmState.fresh {})).2 = some e := by
  have : (run (Prog.ofProgram tinyProgram) 2 (VmState.fresh {})).2.isSome = true := by decide +kernel
  exact Option.isSome_iff_exists.1 this


/-! ## 3. which panics one instruction can raise, and when (item 2) -/

/-- the only panic messages an instruction raises by itself (`Throws` form, any callback) -/
theorem step_panics_only (p : Prog) (re : Reenter) (src : Nat) :
    Throws (fun e => ∀ w, e = .panic w → w ∈ stepPanics) (step p re src) :=
  Cao.Vm.step_panics_only p re src

/-- … and the condition for each: `"call stack is empty"` / `"Call stack was empty"` only if
    `s.frames = []`; `"invalid opcode"` only if the byte at `src` is not in the instruction table;
    the two capture messages only at a `RegisterUpvalue` with flag byte 0 (non-local capture) -/
theorem step_panic_cond (p : Prog) (re : Reenter) (src : Nat) (s s' : VmState) (e : ErrKind)
    (h : (step p re src).go s = (.error e, s')) : PanicCond p src s.frames e :=
  (step_panic_conditions p re src s.frames).err s e s' rfl h

theorem step_empty_stack_only (p : Prog) (re : Reenter) (src : Nat) (s s' : VmState) (e : ErrKind)
    (h : (step p re src).go s = (.error e, s'))
    (he : e = .panic "call stack is empty" ∨ e = .panic "Call stack was empty") : s.frames = [] :=
  (step_panic_cond p re src s s' e h).1 he

theorem step_invalid_opcode_only (p : Prog) (re : Reenter) (src : Nat) (s s' : VmState)
    (h : (step p re src).go s = (.error (.panic "invalid opcode"), s')) :
    Gen.spanOf (p.bytecode.getD src 0) = none :=
  (step_panic_cond p re src s s' _ h).2.1 rfl

theorem step_capture_only (p : Prog) (re : Reenter) (src : Nat) (s s' : VmState) (e : ErrKind)
    (h : (step p re src).go s = (.error e, s'))
    (he : e = .panic "closure not found for capture" ∨ e = .panic "upvalue index out of bounds") :
    p.bytecode.getD src 0 = Compiler.op.registerUpvalue ∧ p.bytecode.getD (src + 2) 0 = 0 :=
  (step_panic_cond p re src s s' e h).2.2.1 he

/-! ## 4. resource errors and type errors are values (item 6) -/

/-- the value stack holds `cap - 1` values; pushing onto a full one is `Stackoverflow` and leaves
    the machine alone -/
theorem push_full (v : Val) (s : VmState) (h : ¬ s.stack.count + 1 < s.stack.data.length) :
    (push v).go s = (.error .stackoverflow, s) := by
  unfold push
  rw [go_bind]
  simp only [go_get, VStack.push, h, if_false]
  rfl

theorem push_fits (v : Val) (s : VmState) (h : s.stack.count + 1 < s.stack.data.length) :
    (push v).go s = (.ok (), { s with stack := { count := s.stack.count + 1, data := s.stack.data.set s.stack.count v } }) := by
  unfold push
  rw [go_bind]
  simp only [go_get, VStack.push, h, if_true]
  rfl

/-- a script call on a full call stack is `CallStackOverflow` and leaves the machine alone -/
theorem callScript_full (p : Prog) (src ip : Nat) (l : UInt32) (ar : Nat) (c : Option Nat) (s : VmState)
    (hne : s.frames ≠ []) (har : ar ≤ s.stack.count) (hfull : s.frameCap ≤ s.frames.length) :
    (step.callScript p src ip l ar c).go s = (.error .callStackOverflow, s) := by
  unfold step.callScript
  rw [go_bind]
  simp only [go_get]
  have h1 : ¬ (s.frames.isEmpty = true) := by
    cases hf : s.frames with
    | nil => exact absurd hf hne
    | cons => simp
  have h2 : ¬ (s.stack.count < ar) := by omega
  have h3 : s.frames.length ≥ s.frameCap := hfull
  rw [if_neg h1, if_neg h2, if_pos h3]
  rfl

/-- `run` on a full call stack (`C17.run_full_stack`) -/
theorem run_full (p : Prog) (n : Nat) (s : VmState) (h : s.frames.length ≥ s.frameCap) :
    run p n s = (s, some ⟨.callStackOverflow, 0, []⟩) := run_no_room p n s h

/-- every error of the allocator is `OutOfMemory` -/
theorem throws_allocBytes_oom (c : Nat) : Throws (fun e => e = .outOfMemory) (allocBytes c) := by
  unfold allocBytes; throws_auto

/-- **the allocator fails exactly when the live objects plus the request exceed the limit, and
    then with `OutOfMemory`** (under the ledger invariant of C05) -/
theorem alloc_oom_iff (c : Nat) (s : VmState) (h : C05.Ledger s) :
    (∃ s', (allocBytes c).go s = (.error .outOfMemory, s')) ↔ s.mem.limit < C05.liveCharge s + c := by
  have hiff := C05.alloc_outcome_iff c s h
  rw [run_run_eq_go] at hiff
  rcases hgo : (allocBytes c).go s with ⟨r, s'⟩
  cases r with
  | ok u =>
    have : C05.liveCharge s + c ≤ s.mem.limit := hiff.1 ⟨s', by rw [hgo]⟩
    constructor
    · rintro ⟨s'', hs''⟩; cases hs''
    · intro hlt; omega
  | error e =>
    have he : e = .outOfMemory := (throws_allocBytes_oom c).err s e (by rw [hgo])
    subst he
    constructor
    · intro _
      apply Nat.lt_of_not_le
      intro hle
      obtain ⟨s'', hs''⟩ := hiff.2 hle
      rw [hgo] at hs''; cases hs''
    · intro _; exact ⟨s', rfl⟩

/-- calling something that is not an object is `InvalidArgument` (`run_function`) -/
theorem call_non_object (p : Prog) (gas : Nat) (f : Val) (s : VmState) (h : ∀ a, f ≠ .obj a) :
    exec p (gas + 1) (.call f) s = (s, .error ⟨.invalidArgument, 0, s.frames⟩) := by
  rw [exec_call]
  cases f with
  | obj a => exact absurd rfl (h a)
  | nil => rfl
  | int _ => rfl
  | real _ => rfl

/-- calling an object that is not a function (a string, a table, an upvalue, or a dangling address) -/
theorem call_non_function (p : Prog) (gas : Nat) (a : Nat) (s : VmState)
    (h : ∀ o, s.heap.get a = some o → (∀ x, o ≠ .native x) ∧ (∀ x y, o ≠ .fn x y) ∧ (∀ x y z, o ≠ .closure x y z)) :
    exec p (gas + 1) (.call (.obj a)) s = (s, .error ⟨.invalidArgument, 0, s.frames⟩) := by
  rw [exec_call]
  dsimp only
  split
  · next h' hh => exact absurd rfl ((h _ hh).1 _)
  · next hh => exact absurd rfl ((h _ hh).2.1 _ _)
  · next hh => exact absurd rfl ((h _ hh).2.2 _ _ _)
  · rfl

/-- integer arithmetic is total and wraps (two's complement, 64 bit) -/
theorem int_add_wraps (F : F64Ops) (x y : Int64) :
    OVal.arith F .add (.int x) (.int y) = .int (x + y) ∧
    (x + y).toInt = (x.toInt + y.toInt).bmod (2 ^ 64) := ⟨rfl, Int64.toInt_add x y⟩

theorem int_sub_wraps (F : F64Ops) (x y : Int64) :
    OVal.arith F .sub (.int x) (.int y) = .int (x - y) ∧
    (x - y).toInt = (x.toInt - y.toInt).bmod (2 ^ 64) := ⟨rfl, Int64.toInt_sub x y⟩

theorem int_mul_wraps (F : F64Ops) (x y : Int64) :
    OVal.arith F .mul (.int x) (.int y) = .int (x * y) ∧
    (x * y).toInt = (x.toInt * y.toInt).bmod (2 ^ 64) := ⟨rfl, Int64.toInt_mul x y⟩

/-- integer division is a real division of the converted operands — also by zero: a real
    (IEEE infinity or NaN), not an error -/
theorem int_div_is_real (F : F64Ops) (x y : Int64) :
    OVal.arith F .div (.int x) (.int y) = .real (F.div (F.ofInt x) (F.ofInt y)) := rfl

/-- arithmetic on values that are neither numbers nor convertible is `nil` (the VM pushes `nil`) -/
theorem arith_other (F : F64Ops) (op : OVal.ArithOp) (a b : OVal)
    (h : OVal.castMatch F a b = .other) : OVal.arith F op a b = .nil := by
  unfold OVal.arith; rw [h]


/-! ## 5. the compiler (item 1)

`compile` is a total function (structural recursion, kernel-checked), so "compilation terminates"
is part of the model being accepted. Its outcome is a program, a compilation error `CErr.err`, or
— only where the Rust `HandleTable` asserts a non-zero key — `CErr.panic`. A zero handle is a
1-in-2³² event of the 32-bit hashes (`Hash.handleFromU64 i` for a function index,
`indexHandle f idx` for a card index, the closure handle, `Hash.handleFromBytes name` for a
global variable); the Rust `assert!`s on it, the model reports it as `panic`. -/

open Cao.Compiler in
/-- **the only panic outcomes of `compile` are the two zero-handle assertions** -/
theorem compile_panic_messages (m std : Module) (limit : Nat) (w : String)
    (h : compile m std limit = .error (.panic w)) :
    w = "HandleTable::insert with handle 0" ∨ w = "HandleTable::entry with handle 0" := by
  have := compile_handlePanic m std limit _ h w rfl
  simpa [handlePanics] using this

open Cao.Compiler in
/-- **compiling is total and its errors are values** -/
theorem compile_total (m std : Module) (limit : Nat) :
    (∃ p, compile m std limit = .ok p) ∨ (∃ k loc, compile m std limit = .error (.err k loc)) ∨
    (∃ w, w ∈ handlePanics ∧ compile m std limit = .error (.panic w)) := by
  rcases hc : compile m std limit with e | p
  · cases e with
    | err k loc => exact .inr (.inl ⟨k, loc, rfl⟩)
    | panic w => exact .inr (.inr ⟨w, compile_handlePanic m std limit _ hc w rfl, rfl⟩)
  · exact .inl ⟨p, rfl⟩

open Cao.Compiler in
/-- where the first message comes from: the label table is asked to insert the key 0 — exactly then -/
theorem insertLabel_panic_iff (h : UInt32) (pos : Nat) (s : CState) (w : String) :
    insertLabel h pos s = .error (.panic w) ↔ h = 0 ∧ w = "HandleTable::insert with handle 0" :=
  Cao.Compiler.insertLabel_panic_iff h pos s w

open Cao.Compiler in
/-- where the second message comes from: the name of a global variable hashes to 0 — exactly then -/
theorem globalId_panic_iff (name : String) (s : CState) (w : String) :
    globalId name s = .error (.panic w) ↔
      Hash.handleFromBytes name.toUTF8.toList = 0 ∧ w = "HandleTable::entry with handle 0" :=
  Cao.Compiler.globalId_panic_iff name s w

/-- the full statement of item 1: a panic outcome exhibits a zero handle *of the program being
    compiled* — the handle of one of its functions, the handle of the index of one of its cards
    (`CardOps`' `walk` enumerates `(function, path)`; the compiler additionally labels the hidden
    `Abort` after `main` at `[main.cards.length]`), the handle of one of its closures, or the hash
    of one of its global-variable names. Proved: `compile_panic_messages` + `insertLabel_panic_iff`
    + `globalId_panic_iff` (a panic is a zero key passed to one of the two tables). Missing: that
    the key passed at that moment, which is computed from the compiler state
    (`curFunction`, `curIndices`, `fnHandle`), belongs to a card of the input — the invariant
    "`(curFunction, curIndices)` is the index of the card being processed" of the trace proofs
    (`Lemmas/TraceLemmas.lean`, `At`/`AtF`) would have to be threaded through `CT`. -/
def compile_no_panic_Full : Prop :=
  ∀ (m std : Module) (limit : Nat) (w : String), Compiler.compile m std limit = .error (.panic w) →
    ∃ unit, Compiler.intoIrStream m std limit = .ok unit ∧
      ((∃ f ∈ unit.toList, f.handle = 0) ∨
       (∃ f ∈ unit.toList, ∃ idx : List Nat,
          (idx = [f.cards.length] ∨ ∃ i c path, f.cards[i]? = some c ∧ (Card.getPath c path).isSome ∧ idx = i :: path) ∧
          (Compiler.indexHandle f.functionIndex idx = 0 ∨
           f.handle ^^^ Hash.handleFromBytes (idx.flatMap (fun i => Compiler.le32 (UInt32.ofNat i)))
             ^^^ Hash.handleFromU64 Compiler.closureMask = 0)) ∨
       (∃ name : String, Hash.handleFromBytes name.toUTF8.toList = 0))

/-- the hypothesis under which the Rust assertions cannot fire, as far as it is proved: no key that
    reaches one of the two tables is 0. (`compile_no_panic_Full` would turn it into a condition on
    the input.) -/
theorem compile_no_panic_of_messages (m std : Module) (limit : Nat)
    (h : ∀ w, w ∈ Compiler.handlePanics → Compiler.compile m std limit ≠ .error (.panic w)) :
    ∀ w, Compiler.compile m std limit ≠ .error (.panic w) := by
  intro w hw
  exact h w (Compiler.compile_handlePanic m std limit _ hw w rfl) hw

/-! ## 6. running is total -/

/-- `run` is a total function; it returns the machine and either nothing (`Ok`) or an error value -/
theorem run_total (p : Prog) (n : Nat) (s : VmState) :
    (∃ s', run p n s = (s', none)) ∨ (∃ s' e, run p n s = (s', some e)) := by
  rcases h : run p n s with ⟨s', r⟩
  cases r with
  | none => exact .inl ⟨s', rfl⟩
  | some e => exact .inr ⟨s', e, rfl⟩

/-- … and never "hangs": at most `n` instructions are dispatched (C03) -/
theorem run_bounded (p : Prog) (n : Nat) (s : VmState) :
    (run p n s).1 = s ∨ (run p n s).1.dispatches + (run p n s).1.remaining ≤ n :=
  C03.budget_bound' p n s

end Cao.C04
