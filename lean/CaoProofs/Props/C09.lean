import CaoProofs.Lemmas.NativeLemmas
import CaoProofs.Props.C19
import CaoModel.Generated.Stdlib
/-!
# C09 — standard library contracts

The native-backed part of the library (`__to_array`, `__min`, `__max`, `__sort` in
`callNativeBody`) is specified for an ABSTRACT well-behaved callback: `PureCallback re f φ`
(`Lemmas/NativeLemmas.lean`) says that `re f`, when it returns, has popped the key and the value the
native pushed, returns `φ key value` and has changed neither the heap nor the roots (budget
counters, host log, allocator counters are free). All statements are partial-correctness
statements about a *successful* run `(callNativeBody re name).go s = (.ok r, s')`; allocation may
collect at any point (any schedule) — the proofs carry the invariant `Grown s t` ("`t` is `s` plus
private, rooted objects; everything reachable in `s` is untouched").

* (a) `to_array_spec`, `to_array_non_table`
* (b) `scan`, `argBest`, `scan_later`, `scan_first`, `argBest_spec` (pure), `mkRow_ok`,
  `minmaxBody_spec`, `min_spec`, `max_spec`, `min_max_degenerate`; `SWO`, `swo_int_keys`,
  `swo_of_negtrans`
* (c) `sortedEntries`, `sortedEntries_perm`, `sortedEntries_sorted`, `sortedEntries_stable`,
  `totalPreorder_int_keys` (pure; `pairwise_mergeSort_on`, `sublist_mergeSort_on` lift the core
  lemmas to comparisons that are total preorders on the elements only), `sort_spec`,
  `sort_non_table`
* the rows a native copied are guarded while the key function runs (`guardRows es` …
  `unguardRows es` in `callNativeBody`): `minmaxCore` / `sortCore` are the bodies without these two
  calls, `minmaxBody_ok` / `sortBody_ok` say that the real body is `guardRows es`, the core,
  `unguardRows es`; the `*Core_spec*` theorems are proved for the cores and lifted
  (`Grown.rows`, `Grown.unrow`, `unrow_rowGuards` in `Lemmas/NativeLemmas.lean`: the guard list after
  the native is EQUAL to the one before)
* non-vacuity: `idealCallback`, `pureCallback_ideal`, evaluated runs on `demo1` / `demo2` / `demo3`
* (d) the generated card-level wrappers, pinned by `rfl`.

Not proved (no `_Full` constant: the statement needs the compiler and the reference semantics):
the card-level functions `std.filter`, `std.map`, `std.any` (loops in card code) and the
instantiation of `PureCallback` with the real `run_function` (`reenterOf p gas`) on a compiled
key function such as `row_to_value` — that is a compiler-correctness statement (balanced code,
C10/C11 territory); `Sem.lean` is made of `partial def`s. The wrappers are pinned in section (d)
so that a change of the generated library breaks this file.
-/
namespace Cao.C09
open Cao Cao.Vm Cao.Gc Cao.C02 Cao.C05 Cao.Native
set_option linter.unusedVariables false

/-! ## (a) `__to_array` -/

/-- the values re-keyed `0 … n-1` -/
def arrayOf (vs : List Val) : List (Val × Val) :=
  vs.zipIdx.map (fun p => (Val.int (Int64.ofNat p.2), p.1))

theorem arrayOf_snoc (vs : List Val) (v : Val) :
    arrayOf (vs ++ [v]) = arrayOf vs ++ [(.int (Int64.ofNat vs.length), v)] := by
  simp [arrayOf, List.zipIdx_append]

theorem mem_arrayOf {vs : List Val} {e : Val × Val} (he : e ∈ arrayOf vs) :
    ∃ j, j < vs.length ∧ e.1 = .int (Int64.ofNat j) := by
  unfold arrayOf at he
  obtain ⟨p, hp, rfl⟩ := List.mem_map.mp he
  have := List.mem_zipIdx hp
  exact ⟨p.2, by omega, rfl⟩

def toArrayStep (out : Nat) (x : Val × Val) (i : Nat) : M (ForInStep Nat) := do
  tableInsert out (.int (Int64.ofNat i)) x.2
  pure (ForInStep.yield (i + 1))

/-- the body of `__to_array`, loop body named -/
def toArrayBody : M Val := do
  let h := (← get).heap
  let iterable ← peek 0
  match isTable h iterable with
  | none => return iterable
  | some es => do
    let out ← initTable
    let _ ← forIn es 0 (toArrayStep out)
    dropGuard out
    return .obj out

theorem callNativeBody_to_array (re : Reenter) : callNativeBody re "__to_array" = toArrayBody := by
  unfold callNativeBody
  simp (config := { decide := true }) only []
  rfl


/-- a non-table argument is returned unchanged, and nothing happens -/
theorem to_array_non_table (re : Reenter) (s : VmState)
    (h : isTable s.heap (s.stack.peekLast 0) = none) :
    (callNativeBody re "__to_array").go s = (.ok (s.stack.peekLast 0), s) := by
  rw [callNativeBody_to_array]
  unfold toArrayBody
  rw [go_bind_ok (go_get s), go_bind_ok (go_peek 0 s)]
  simp only [h]
  rfl

/-- **`__to_array`**: on a table with entries `es` the result is a NEW table (`out`, the fresh
    address) whose entries are `[(0, v₀), …, (n-1, v_{n-1})]` in order; the machine is otherwise
    as before (`Grown`: live stack, frames, globals, upvalues and every object reachable before —
    in particular the input table and everything below it — are unchanged; no guard is leaked) -/
theorem to_array_spec (re : Reenter) {s s' : VmState} {r : Val} {a cap : Nat}
    {es : List (Val × Val)} (hf : FreshNext s.heap) (htop : s.stack.peekLast 0 = .obj a)
    (ha : s.heap.get a = some (.table cap es)) (hlen : es.length ≤ 2 ^ 64)
    (hok : (callNativeBody re "__to_array").go s = (.ok r, s')) :
    r = .obj s.heap.next ∧ s.heap.get s.heap.next = none ∧
    (∃ cap', s'.heap.get s.heap.next = some (.table cap' (arrayOf (es.map (·.2))))) ∧
    s'.heap.get a = some (.table cap es) ∧ Grown s s' ∧ s'.guards = s.guards := by
  rw [callNativeBody_to_array] at hok
  unfold toArrayBody at hok
  rw [go_bind_ok (go_get s), go_bind_ok (go_peek 0 s), htop] at hok
  simp only [isTable_of_get ha] at hok
  obtain ⟨out, s₁, hinit, hok⟩ := ok_bind hok
  obtain ⟨_, s₂, hloop, hok⟩ := ok_bind hok
  rw [go_bind_ok (go_dropGuard out s₂), go_pure] at hok
  simp only [Prod.mk.injEq, Except.ok.injEq] at hok
  obtain ⟨hr, hs'⟩ := hok
  -- the new table
  obtain ⟨hG1, hget1, hgu1, hle1, hnone, -⟩ := (Grown.refl s hf).alloc2 (initTable_ok hinit)
  have hout : out = s.heap.next := (initTable_ok hinit).elim fun _ h => h.2.1
  subst hout
  -- the loop
  have hI := forIn_inv' es
    (fun i b t => b = i ∧ Grown s t ∧ t.guards = s.heap.next :: s.guards ∧
      ∃ cap', t.heap.get s.heap.next = some (.table cap' (arrayOf ((es.take i).map (·.2)))))
    (toArrayStep s.heap.next) (b := 0) (s := s₁) ?_ ⟨rfl, hG1, hgu1, Gen.tableInitCap, hget1⟩ hloop
  · obtain ⟨-, hG2, hgu2, cap', hget2⟩ := hI
    rw [List.take_length] at hget2
    subst hs'
    refine ⟨hr.symm, hnone, ⟨cap', hget2⟩, ?_, ?_, ?_⟩
    · exact hG2.keep a _ (reach_peek htop) ha
    · exact hG2.dropGuard _ (fun g hg => by
        show g ∈ s₂.guards.erase s.heap.next
        rw [hgu2, List.erase_cons_head]; exact hg)
    · show s₂.guards.erase s.heap.next = s.guards
      rw [hgu2, List.erase_cons_head]
  · intro i x b t r' t' hx ⟨hb, hG, hgu, cap', hget⟩ hstep
    subst hb
    unfold toArrayStep at hstep
    obtain ⟨u, t₁, hins, hstep⟩ := ok_bind hstep
    simp only [go_pure, Prod.mk.injEq, Except.ok.injEq] at hstep
    obtain ⟨hr', ht'⟩ := hstep
    subst ht'
    obtain ⟨hG', ⟨cap'', hget'⟩, hgu', -⟩ := hG.tableInsert (Nat.le_refl _) hget
      (reach_guard (by rw [hgu]; exact List.mem_cons_self)) hins
    refine ⟨b + 1, hr'.symm, rfl, hG', by rw [hgu', hgu], cap'', ?_⟩
    have hlt : b < es.length := by
      rcases Nat.lt_or_ge b es.length with h | h
      · exact h
      · rw [List.getElem?_eq_none h] at hx; cases hx
    have hlen' : ((es.take b).map (·.2)).length = b := by
      rw [List.length_map, List.length_take]; omega
    rw [hget', tinsert_new, List.take_add_one, hx]
    · simp only [Option.toList_some, List.map_append, List.map_cons, List.map_nil]
      rw [arrayOf_snoc, hlen']
    · intro e he
      obtain ⟨j, hj, hje⟩ := mem_arrayOf he
      rw [hje, ownD_int, ownD_int]
      intro hc
      rw [hlen'] at hj
      have := int64_ofNat_inj (i := j) (j := b) (by omega) (by omega) (OVal.int.inj hc)
      omega


/-! ## (b) `__min` / `__max` -/

section scan
variable {α : Type}

/-- the scan of `native_minmax`: state `(best key, index of the best, next index)`; an entry
    replaces the best only when it is *strictly* better -/
def scan (lt : α → α → Bool) : List α → α × Nat × Nat → α × Nat × Nat
  | [], st => st
  | x :: xs, st =>
    if lt x st.1 then scan lt xs (x, st.2.2, st.2.2 + 1) else scan lt xs (st.1, st.2.1, st.2.2 + 1)

/-- the index chosen by the scan (`lt x y`: "`x` is strictly better than `y`") -/
def argBest (lt : α → α → Bool) : List α → Nat
  | [] => 0
  | k₀ :: ks => (scan lt ks (k₀, 0, 1)).2.1

/-- unconditional characterisation: the result is the last index at which the scan replaced its
    candidate — no later entry is strictly better than the chosen one -/
theorem scan_later (lt : α → α → Bool) (K : List α) :
    ∀ (ks pre : List α) (best : α) (idx : Nat), pre ++ ks = K → pre[idx]? = some best →
      (∀ m x, idx < m → pre[m]? = some x → lt x best = false) →
      K[(scan lt ks (best, idx, pre.length)).2.1]? = some (scan lt ks (best, idx, pre.length)).1 ∧
      ∀ m x, (scan lt ks (best, idx, pre.length)).2.1 < m → K[m]? = some x →
        lt x (scan lt ks (best, idx, pre.length)).1 = false := by
  intro ks
  induction ks with
  | nil =>
    intro pre best idx hK hb hl
    rw [List.append_nil] at hK; subst hK
    exact ⟨hb, hl⟩
  | cons x xs ih =>
    intro pre best idx hK hb hl
    have hidx : idx < pre.length := by
      rcases Nat.lt_or_ge idx pre.length with h | h
      · exact h
      · rw [List.getElem?_eq_none h] at hb; cases hb
    have hK' : (pre ++ [x]) ++ xs = K := by rw [List.append_assoc]; exact hK
    have hlen : (pre ++ [x]).length = pre.length + 1 := by simp
    unfold scan
    dsimp only
    split
    · rw [← hlen]
      refine ih (pre ++ [x]) x pre.length hK' (by simp) ?_
      intro m y hm hy
      rw [List.getElem?_eq_none (by rw [hlen]; omega)] at hy; cases hy
    · rename_i hlt
      rw [← hlen]
      refine ih (pre ++ [x]) best idx hK' (by rw [List.getElem?_append_left hidx]; exact hb) ?_
      intro m y hm hy
      rcases Nat.lt_trichotomy m pre.length with h | h | h
      · rw [List.getElem?_append_left h] at hy; exact hl m y hm hy
      · subst h
        simp only [List.getElem?_concat_length, Option.some.injEq] at hy
        subst hy; simpa using hlt
      · rw [List.getElem?_eq_none (by rw [hlen]; omega)] at hy; cases hy

/-- "strictly better" is a strict weak order on the keys of the table -/
structure SWO (lt : α → α → Bool) (K : List α) : Prop where
  asymm : ∀ a ∈ K, ∀ b ∈ K, lt a b = true → lt b a = false
  negtrans : ∀ a ∈ K, ∀ b ∈ K, ∀ c ∈ K, lt a b = false → lt b c = false → lt a c = false

theorem SWO.irrefl {lt : α → α → Bool} {K : List α} (h : SWO lt K) (a : α) (ha : a ∈ K) :
    lt a a = false := by
  cases hl : lt a a with
  | false => rfl
  | true => have := h.asymm a ha a ha hl; rw [hl] at this; exact this

/-- under a strict weak order: nothing is strictly better than the chosen entry, and every
    earlier entry is strictly worse — the chosen entry is the FIRST optimal one -/
theorem scan_first (lt : α → α → Bool) (K : List α) (hswo : SWO lt K) :
    ∀ (ks pre : List α) (best : α) (idx : Nat), pre ++ ks = K → pre[idx]? = some best →
      (∀ (m : Nat) x, pre[m]? = some x → lt x best = false) →
      (∀ m x, m < idx → pre[m]? = some x → lt best x = true) →
      (∀ (m : Nat) x, K[m]? = some x → lt x (scan lt ks (best, idx, pre.length)).1 = false) ∧
      ∀ m x, m < (scan lt ks (best, idx, pre.length)).2.1 → K[m]? = some x →
        lt (scan lt ks (best, idx, pre.length)).1 x = true := by
  intro ks
  induction ks with
  | nil =>
    intro pre best idx hK hb h1 h2
    rw [List.append_nil] at hK; subst hK
    exact ⟨h1, h2⟩
  | cons x xs ih =>
    intro pre best idx hK hb h1 h2
    have hidx : idx < pre.length := by
      rcases Nat.lt_or_ge idx pre.length with h | h
      · exact h
      · rw [List.getElem?_eq_none h] at hb; cases hb
    have hK' : (pre ++ [x]) ++ xs = K := by rw [List.append_assoc]; exact hK
    have hlen : (pre ++ [x]).length = pre.length + 1 := by simp
    have hxK : x ∈ K := by rw [← hK]; simp
    have hbK : best ∈ K := by
      rw [← hK]; exact List.mem_append_left _ (List.mem_of_getElem? hb)
    have hpK : ∀ (m : Nat) y, pre[m]? = some y → y ∈ K := fun m y hy => by
      rw [← hK]; exact List.mem_append_left _ (List.mem_of_getElem? hy)
    unfold scan
    dsimp only
    split
    · rename_i hlt
      -- `x` is strictly better than the best so far, hence than everything before
      have hall : ∀ (m : Nat) y, pre[m]? = some y → lt x y = true := by
        intro m y hy
        cases hxy : lt x y with
        | true => rfl
        | false =>
          have := hswo.negtrans x hxK y (hpK m y hy) best hbK hxy (h1 m y hy)
          rw [hlt] at this; cases this
      rw [← hlen]
      refine ih (pre ++ [x]) x pre.length hK' (by simp) ?_ ?_
      · intro m y hy
        rcases Nat.lt_trichotomy m pre.length with h | h | h
        · rw [List.getElem?_append_left h] at hy
          exact hswo.asymm x hxK y (hpK m y hy) (hall m y hy)
        · subst h
          simp only [List.getElem?_concat_length, Option.some.injEq] at hy
          subst hy; exact hswo.irrefl _ hxK
        · rw [List.getElem?_eq_none (by rw [hlen]; omega)] at hy; cases hy
      · intro m y hm hy
        rw [List.getElem?_append_left hm] at hy
        exact hall m y hy
    · rename_i hlt
      rw [← hlen]
      refine ih (pre ++ [x]) best idx hK' (by rw [List.getElem?_append_left hidx]; exact hb) ?_ ?_
      · intro m y hy
        rcases Nat.lt_trichotomy m pre.length with h | h | h
        · rw [List.getElem?_append_left h] at hy; exact h1 m y hy
        · subst h
          simp only [List.getElem?_concat_length, Option.some.injEq] at hy
          subst hy; simpa using hlt
        · rw [List.getElem?_eq_none (by rw [hlen]; omega)] at hy; cases hy
      · intro m y hm hy
        rw [List.getElem?_append_left (Nat.lt_trans hm hidx)] at hy
        exact h2 m y hm hy

/-- what `argBest` returns on a non-empty list -/
theorem argBest_spec (lt : α → α → Bool) (k₀ : α) (ks : List α) :
    ∃ best, (k₀ :: ks)[argBest lt (k₀ :: ks)]? = some best ∧
      (∀ m x, argBest lt (k₀ :: ks) < m → (k₀ :: ks)[m]? = some x → lt x best = false) ∧
      (SWO lt (k₀ :: ks) →
        (∀ (m : Nat) x, (k₀ :: ks)[m]? = some x → lt x best = false) ∧
        (∀ m x, m < argBest lt (k₀ :: ks) → (k₀ :: ks)[m]? = some x → lt best x = true)) := by
  have h1 := scan_later lt (k₀ :: ks) ks [k₀] k₀ 0 rfl rfl (fun m x hm hx => by
    rw [List.getElem?_eq_none (by simp only [List.length_singleton]; omega)] at hx; cases hx)
  refine ⟨(scan lt ks (k₀, 0, 1)).1, h1.1, h1.2, fun hswo => ?_⟩
  exact scan_first lt (k₀ :: ks) hswo ks [k₀] k₀ 0 rfl rfl
    (fun m x hx => by
      cases m with
      | zero => simp at hx; subst hx; exact hswo.irrefl _ (by simp)
      | succ m => simp at hx)
    (fun m x hm _ => by omega)

end scan


/-- is `x` strictly better than the current best `y`? (`__min`: smaller, `__max`: larger) -/
def better (isMin : Bool) (h : Heap) (x y : Val) : Bool :=
  if isMin then OVal.vlt hostF64 (ownD h x) (ownD h y) else OVal.vlt hostF64 (ownD h y) (ownD h x)

def scanStep (isMin : Bool) (re : Reenter) (keyFn : Val) (x : Val × Val) (st : Val × Nat × Nat) :
    M (ForInStep (Val × Nat × Nat)) := do
  push x.2; push x.1
  let key ← re keyFn
  let h := (← get).heap
  if better isMin h key st.1 then do
    unguardVal st.1
    guardVal key
    pure (.yield (key, st.2.2, st.2.2 + 1))
  else pure (.yield (st.1, st.2.1, st.2.2 + 1))

/-- the result row `{ "key": k, "value": v }`; the guard of the best key is released last (it lives
    until the native returns) -/
def mkRow (k v best : Val) : M Val := do
  let row ← initTable
  let ks ← initString "key".toUTF8.toList
  tableInsert row (.obj ks) k
  dropGuard ks
  let vs ← initString "value".toUTF8.toList
  tableInsert row (.obj vs) v
  dropGuard vs
  dropGuard row
  unguardVal best
  return .obj row

/-- `__min` / `__max` without the guards of the copied rows: what runs between `guardRows es` and
    `unguardRows es` (up to the place of the final `return`, see `minmaxBody_ok`) -/
def minmaxCore (isMin : Bool) (re : Reenter) : M Val := do
  let h := (← get).heap
  let keyFn ← peek 0
  let iterable ← peek 1
  match isTable h iterable with
  | none => return iterable
  | some es =>
    match es with
    | [] => return .nil
    | (k0, v0) :: rest => do
      push v0; push k0
      let best ← re keyFn
      guardVal best
      let st ← forIn rest (best, 0, 1) (scanStep isMin re keyFn)
      mkRow (es.getD st.2.1 (.nil, .nil)).1 (es.getD st.2.1 (.nil, .nil)).2 st.1

/-- `mkRow`, then the guards of the copied rows are released -/
def mkRowG (es : List (Val × Val)) (k v best : Val) : M Val := do
  let row ← initTable
  let ks ← initString "key".toUTF8.toList
  tableInsert row (.obj ks) k
  dropGuard ks
  let vs ← initString "value".toUTF8.toList
  tableInsert row (.obj vs) v
  dropGuard vs
  dropGuard row
  unguardVal best
  unguardRows es
  return .obj row

/-- the body of `__min` (`isMin = true`) and `__max` (`isMin = false`) -/
def minmaxBody (isMin : Bool) (re : Reenter) : M Val := do
  let h := (← get).heap
  let keyFn ← peek 0
  let iterable ← peek 1
  match isTable h iterable with
  | none => return iterable
  | some es =>
    match es with
    | [] => return .nil
    | (k0, v0) :: rest => do
      guardRows es
      push v0; push k0
      let best ← re keyFn
      guardVal best
      let st ← forIn rest (best, 0, 1) (scanStep isMin re keyFn)
      mkRowG es (es.getD st.2.1 (.nil, .nil)).1 (es.getD st.2.1 (.nil, .nil)).2 st.1

theorem callNativeBody_min (re : Reenter) : callNativeBody re "__min" = minmaxBody true re := by
  unfold callNativeBody
  simp (config := { decide := true }) only []
  rfl
theorem callNativeBody_max (re : Reenter) : callNativeBody re "__max" = minmaxBody false re := by
  unfold callNativeBody
  simp (config := { decide := true }) only []
  rfl

theorem go_callKV_bind {β : Type} (re : Reenter) (f k v : Val) (g : Val → M β) (t : VmState) :
    (push v >>= fun _ => push k >>= fun _ => re f >>= g).go t = (callKV re f k v >>= g).go t := by
  simp [callKV, bind_assoc]

/-- `mkRowG es` is `mkRow` followed by `unguardRows es` -/
theorem mkRowG_ok {es : List (Val × Val)} {k v best r : Val} {t t' : VmState}
    (hok : (mkRowG es k v best).go t = (.ok r, t')) :
    ∃ t₁, (mkRow k v best).go t = (.ok r, t₁) ∧ t' = { t₁ with guards := unrow es t₁.guards } := by
  have e : mkRowG es k v best = (mkRow k v best >>= fun r => unguardRows es >>= fun _ => pure r) := by
    unfold mkRowG mkRow
    simp only [bind_assoc, pure_bind]
  rw [e] at hok
  obtain ⟨r', t₁, h1, hok⟩ := ok_bind hok
  rw [go_bind_ok (go_unguardRows es t₁), go_pure] at hok
  simp only [Prod.mk.injEq, Except.ok.injEq] at hok
  obtain ⟨rfl, rfl⟩ := hok
  exact ⟨t₁, h1, rfl⟩

/-- **the shape of `__min` / `__max` on a non-empty table**: `guardRows es`, then the scan and the
    result row as before the rows were guarded (`minmaxCore`), then `unguardRows es` -/
theorem minmaxBody_ok {isMin : Bool} {re : Reenter} {s s' : VmState} {r : Val} {a cap : Nat}
    {e₀ : Val × Val} {rest : List (Val × Val)} (hit : s.stack.peekLast 1 = .obj a)
    (ha : s.heap.get a = some (.table cap (e₀ :: rest)))
    (hok : (minmaxBody isMin re).go s = (.ok r, s')) :
    ∃ s₁, (minmaxCore isMin re).go { s with guards := rowGuards (e₀ :: rest) ++ s.guards } = (.ok r, s₁) ∧
      s' = { s₁ with guards := unrow (e₀ :: rest) s₁.guards } := by
  obtain ⟨k0, v0⟩ := e₀
  unfold minmaxBody at hok
  rw [go_bind_ok (go_get s), go_bind_ok (go_peek 0 s), go_bind_ok (go_peek 1 s), hit] at hok
  simp only [isTable_of_get ha] at hok
  rw [go_bind_ok (go_guardRows _ s)] at hok
  obtain ⟨_, t1, h1, hok⟩ := ok_bind hok
  obtain ⟨_, t2, h2, hok⟩ := ok_bind hok
  obtain ⟨best, t3, h3, hok⟩ := ok_bind hok
  obtain ⟨_, t4, h4, hok⟩ := ok_bind hok
  obtain ⟨st, t5, h5, hok⟩ := ok_bind hok
  obtain ⟨t6, h6, rfl⟩ := mkRowG_ok hok
  refine ⟨t6, ?_, rfl⟩
  unfold minmaxCore
  rw [go_bind_ok (go_get _), go_bind_ok (go_peek 0 _), go_bind_ok (go_peek 1 _)]
  dsimp only
  rw [hit]
  simp only [isTable_of_get ha]
  rw [go_bind_ok h1, go_bind_ok h2, go_bind_ok h3, go_bind_ok h4, go_bind_ok h5]
  exact h6

theorem key_ne_value : "key".toUTF8.toList ≠ "value".toUTF8.toList := by decide +kernel

/-- **the result row**: `mkRow k v best` allocates three new objects at the next three addresses —
    the row table with exactly the entries `"key" ↦ k`, `"value" ↦ v` (in this order) and the two
    key strings — releases the guard of `best` and changes nothing else -/
theorem mkRow_ok {s₀ t t' : VmState} {r k v best : Val} (hG : Grown s₀ t)
    (hbg : ∀ g ∈ s₀.guards, g ∈ unguard best t.guards)
    (hok : (mkRow k v best).go t = (.ok r, t')) :
    r = .obj t.heap.next ∧ t.heap.get t.heap.next = none ∧ s₀.heap.next ≤ t.heap.next ∧
    Grown s₀ t' ∧ t'.guards = unguard best t.guards ∧
    (∃ cap', t'.heap.get t.heap.next =
      some (.table cap' [(.obj (t.heap.next + 1), k), (.obj (t.heap.next + 2), v)])) ∧
    t'.heap.get (t.heap.next + 1) = some (.str "key".toUTF8.toList) ∧
    t'.heap.get (t.heap.next + 2) = some (.str "value".toUTF8.toList) := by
  unfold mkRow at hok
  obtain ⟨row, t1, h1, hok⟩ := ok_bind hok
  obtain ⟨ks, t2, h2, hok⟩ := ok_bind hok
  obtain ⟨_, t3, h3, hok⟩ := ok_bind hok
  rw [go_bind_ok (go_dropGuard ks t3)] at hok
  obtain ⟨vs, t5, h5, hok⟩ := ok_bind hok
  obtain ⟨_, t6, h6, hok⟩ := ok_bind hok
  rw [go_bind_ok (go_dropGuard vs t6), go_bind_ok (go_dropGuard row _),
    go_bind_ok (go_unguardVal best _), go_pure] at hok
  simp only [Prod.mk.injEq, Except.ok.injEq] at hok
  obtain ⟨hr, ht'⟩ := hok
  -- 1. the row table
  have e1 := initTable_ok h1
  obtain ⟨G1, get1, gu1, le1, none1, keep1, next1⟩ := hG.alloc2 e1
  have hrow : row = t.heap.next := e1.elim fun _ h => h.2.1
  -- 2. the string "key"
  have e2 := initString_ok h2
  obtain ⟨G2, get2, gu2, -, -, keep2, next2⟩ := G1.alloc2 e2
  have hks : ks = row + 1 := by rw [← next1]; exact e2.elim fun _ h => h.2.1
  have hksrow : ks ≠ row := by omega
  have getrow2 : t2.heap.get row = some (.table Gen.tableInitCap []) :=
    keep2 row _ (reach_guard (by rw [gu1]; exact List.mem_cons_self)) get1
  -- 3. row["key"] := k
  obtain ⟨G3, ⟨c3, get3⟩, gu3, keep3, next3⟩ := G2.tableInsert le1 getrow2
    (reach_guard (by rw [gu2, gu1]; simp)) h3
  rw [tinsert_new (by intro e he; cases he), List.nil_append] at get3
  have getks3 : t3.heap.get ks = some (.str "key".toUTF8.toList) := by
    rw [keep3 ks hksrow (reach_guard (by rw [gu2]; exact List.mem_cons_self))]; exact get2
  have gu3' : t3.guards = ks :: row :: t.guards := by rw [gu3, gu2, gu1]
  -- 4. drop the guard of "key": it stays reachable through the row
  have G4 : Grown s₀ { t3 with guards := t3.guards.erase ks } :=
    G3.dropGuard ks (fun g hg => by
      rw [gu3', List.erase_cons_head]; exact List.mem_cons_of_mem _ (hG.guards g hg))
  have gu4 : ({ t3 with guards := t3.guards.erase ks } : VmState).guards = row :: t.guards := by
    show t3.guards.erase ks = _
    rw [gu3', List.erase_cons_head]
  have rrow4 : Reach ({ t3 with guards := t3.guards.erase ks } : VmState).heap
      (rootAddrs { t3 with guards := t3.guards.erase ks }) row :=
    reach_guard (by rw [gu4]; exact List.mem_cons_self)
  have rks4 : Reach ({ t3 with guards := t3.guards.erase ks } : VmState).heap
      (rootAddrs { t3 with guards := t3.guards.erase ks }) ks :=
    Reach.step rrow4 get3 (by simp [Heap.children])
  -- 5. the string "value"
  have e5 := initString_ok h5
  obtain ⟨G5, get5, gu5, -, -, keep5, next5⟩ := G4.alloc2 e5
  have hvs : vs = row + 2 := by
    have : vs = t3.heap.next := e5.elim fun _ h => h.2.1
    rw [this, next3, next2, hks]
  have getrow5 : t5.heap.get row = some (.table c3 [(.obj ks, k)]) := keep5 row _ rrow4 get3
  have getks5 : t5.heap.get ks = some (.str "key".toUTF8.toList) := keep5 ks _ rks4 getks3
  have gu5' : t5.guards = vs :: row :: t.guards := by rw [gu5, gu4]
  have rrow5 : Reach t5.heap (rootAddrs t5) row := reach_guard (by rw [gu5']; simp)
  -- 6. row["value"] := v
  obtain ⟨G6, ⟨c6, get6⟩, gu6, keep6, next6⟩ := G5.tableInsert le1 getrow5 rrow5 h6
  rw [tinsert_new (by
    intro e he
    simp only [List.mem_singleton] at he
    subst he
    rw [ownD_str getks5, ownD_str get5]
    intro hc
    exact key_ne_value (OVal.str.inj hc))] at get6
  have getks6 : t6.heap.get ks = some (.str "key".toUTF8.toList) := by
    rw [keep6 ks hksrow (Reach.step rrow5 getrow5 (by simp [Heap.children]))]; exact getks5
  have getvs6 : t6.heap.get vs = some (.str "value".toUTF8.toList) := by
    rw [keep6 vs (by omega) (reach_guard (by rw [gu5']; exact List.mem_cons_self))]; exact get5
  have gu6' : t6.guards = vs :: row :: t.guards := by rw [gu6, gu5']
  -- 7. drop the remaining guards
  subst ht'
  subst hrow
  refine ⟨hr.symm, none1, le1, ?_, ?_, ⟨c6, ?_⟩, ?_, ?_⟩
  · have hfin : (t6.guards.erase vs).erase t.heap.next = t.guards := by
      rw [gu6', List.erase_cons_head, List.erase_cons_head]
    show Grown s₀ { t6 with guards := unguard best ((t6.guards.erase vs).erase t.heap.next) }
    exact G6.setGuards _ (fun g hg => by rw [hfin]; exact hbg g hg)
  · show unguard best ((t6.guards.erase vs).erase t.heap.next) = unguard best t.guards
    rw [gu6', List.erase_cons_head, List.erase_cons_head]
  · show t6.heap.get t.heap.next = _
    rw [get6, hks, hvs]; rfl
  · show t6.heap.get (t.heap.next + 1) = _
    rw [← hks]; exact getks6
  · show t6.heap.get (t.heap.next + 2) = _
    rw [← hvs]; exact getvs6


theorem scan_snoc {α : Type} (lt : α → α → Bool) (ks : List α) (x : α) (st : α × Nat × Nat) :
    scan lt (ks ++ [x]) st =
      if lt x (scan lt ks st).1 then (x, (scan lt ks st).2.2, (scan lt ks st).2.2 + 1)
      else ((scan lt ks st).1, (scan lt ks st).2.1, (scan lt ks st).2.2 + 1) := by
  induction ks generalizing st with
  | nil => by_cases h : lt x st.1 = true <;> simp [scan, h]
  | cons y ys ih =>
    simp only [List.cons_append, scan]
    split <;> exact ih _

/-- the keys the callback computes, in table order -/
def keysOf (φ : Val → Val → Val) (es : List (Val × Val)) : List Val := es.map (fun e => φ e.1 e.2)

/-- a non-table argument is returned unchanged, and nothing happens -/
theorem minmax_non_table (isMin : Bool) (re : Reenter) (s : VmState)
    (h : isTable s.heap (s.stack.peekLast 1) = none) :
    (minmaxBody isMin re).go s = (.ok (s.stack.peekLast 1), s) := by
  unfold minmaxBody
  rw [go_bind_ok (go_get s), go_bind_ok (go_peek 0 s), go_bind_ok (go_peek 1 s)]
  simp only [h]
  rfl

/-- the empty table: `nil`, and nothing happens -/
theorem minmax_empty (isMin : Bool) (re : Reenter) (s : VmState) {a cap : Nat}
    (hit : s.stack.peekLast 1 = .obj a) (ha : s.heap.get a = some (.table cap [])) :
    (minmaxBody isMin re).go s = (.ok .nil, s) := by
  unfold minmaxBody
  rw [go_bind_ok (go_get s), go_bind_ok (go_peek 0 s), go_bind_ok (go_peek 1 s), hit]
  simp only [isTable_of_get ha]
  rfl

/-- **`__min` / `__max` on a non-empty table**, for a callback that behaves like the pure
    function `φ`: the result is a new row `{"key": kᵢ, "value": vᵢ}` where `i` is the index the
    scan `argBest` selects among the keys `φ k v` (compared by `vlt` on their deep values); the
    input table and everything else reachable before is unchanged -/
theorem minmaxCore_spec (isMin : Bool) {re : Reenter} {φ : Val → Val → Val} {s s' : VmState}
    {r keyFn : Val} {a cap : Nat} {e₀ : Val × Val} {rest : List (Val × Val)}
    (hf : FreshNext s.heap) (hkf : s.stack.peekLast 0 = keyFn) (hit : s.stack.peekLast 1 = .obj a)
    (ha : s.heap.get a = some (.table cap (e₀ :: rest))) (hcb : PureCallback re keyFn φ)
    (hok : (minmaxCore isMin re).go s = (.ok r, s')) :
    let i := argBest (better isMin s.heap) (keysOf φ (e₀ :: rest))
    let e := (e₀ :: rest).getD i (.nil, .nil)
    i < (e₀ :: rest).length ∧ r = .obj s.heap.next ∧ s.heap.get s.heap.next = none ∧
    (∃ cap', s'.heap.get s.heap.next =
      some (.table cap' [(.obj (s.heap.next + 1), e.1), (.obj (s.heap.next + 2), e.2)])) ∧
    s'.heap.get (s.heap.next + 1) = some (.str "key".toUTF8.toList) ∧
    s'.heap.get (s.heap.next + 2) = some (.str "value".toUTF8.toList) ∧
    s'.heap.get a = some (.table cap (e₀ :: rest)) ∧ Grown s s' ∧ s'.guards = s.guards := by
  intro i e
  obtain ⟨k0, v0⟩ := e₀
  unfold minmaxCore at hok
  rw [go_bind_ok (go_get s), go_bind_ok (go_peek 0 s), go_bind_ok (go_peek 1 s), hit, hkf] at hok
  simp only [isTable_of_get ha] at hok
  rw [go_callKV_bind] at hok
  obtain ⟨best, t0, hcall, hok⟩ := ok_bind hok
  rw [go_bind_ok (go_guardVal best t0)] at hok
  obtain ⟨st, t1, hloop, hok⟩ := ok_bind hok
  obtain ⟨hbest, hst0, hheap0, hgu0, hfr0, hgl0, hup0⟩ := callKV_ok hcb hcall
  have G0 : Grown s t0 := (Grown.refl s hf).same_heap hst0 hheap0 hgu0 hfr0 hgl0 hup0
  -- the scan
  have hI := forIn_inv' rest
    (fun i st t => st = scan (better isMin s.heap) ((keysOf φ rest).take i) (φ k0 v0, 0, 1) ∧
      Grown s t ∧ t.heap = s.heap ∧ t.guards = guardOf st.1 ++ s.guards)
    (scanStep isMin re keyFn) (b := (best, 0, 1)) (s := { t0 with guards := guardOf best ++ t0.guards }) ?_
    ⟨by rw [hbest]; rfl, G0.setGuards _ (fun g hg => List.mem_append_right _ (G0.guards g hg)), hheap0,
      by show guardOf best ++ t0.guards = _; rw [hgu0]⟩ hloop
  · obtain ⟨hst, G1, hheap1, hgu1⟩ := hI
    have hlen : (keysOf φ rest).length = rest.length := by simp [keysOf]
    rw [← hlen, List.take_length] at hst
    have hi : st.2.1 = i := by rw [hst]; rfl
    obtain ⟨bk, hbk, -⟩ := argBest_spec (better isMin s.heap) (φ k0 v0) (keysOf φ rest)
    have hilt : i < ((k0, v0) :: rest).length := by
      have : i < (keysOf φ ((k0, v0) :: rest)).length := by
        rcases Nat.lt_or_ge i (keysOf φ ((k0, v0) :: rest)).length with h | h
        · exact h
        · have hbk' : (keysOf φ ((k0, v0) :: rest))[i]? = some bk := hbk
          rw [List.getElem?_eq_none h] at hbk'; cases hbk'
      simpa [keysOf] using this
    rw [hi] at hok
    obtain ⟨hr, hnone, -, G2, hgu2, hrow, hks, hvs⟩ := mkRow_ok G1
      (fun g hg => by rw [hgu1, unguard_guardOf]; exact hg) hok
    rw [hheap1] at hr hnone hrow hks hvs
    refine ⟨hilt, hr, hnone, hrow, hks, hvs, G2.keep a _ (reach_peek hit) ha, G2, ?_⟩
    rw [hgu2, hgu1, unguard_guardOf]
  · intro j x st t r' t' hx ⟨hst, G, hheap, hgu⟩ hstep
    unfold scanStep at hstep
    rw [go_callKV_bind] at hstep
    obtain ⟨key, t₁, hcall', hstep⟩ := ok_bind hstep
    obtain ⟨hkey, hst', hheap', hgu', hfr', hgl', hup'⟩ := callKV_ok hcb hcall'
    rw [go_bind_ok (go_get t₁)] at hstep
    have hG' : Grown s t₁ := G.same_heap hst' hheap' hgu' hfr' hgl' hup'
    have hk : (keysOf φ rest)[j]? = some key := by
      rw [hkey]; simp [keysOf, hx]
    have htake : (keysOf φ rest).take (j + 1) = (keysOf φ rest).take j ++ [key] := by
      rw [List.take_add_one, hk]; rfl
    have hh : t₁.heap = s.heap := hheap'.trans hheap
    rw [hh] at hstep
    by_cases hb : better isMin s.heap key st.1 = true
    · rw [if_pos hb, go_bind_ok (go_unguardVal st.1 t₁), go_bind_ok (go_guardVal key _)] at hstep
      simp only [go_pure, Prod.mk.injEq, Except.ok.injEq] at hstep
      have hgu1 : unguard st.1 t₁.guards = s.guards := by rw [hgu', hgu, unguard_guardOf]
      refine ⟨_, hstep.1.symm, ?_, ?_, hstep.2 ▸ hh, ?_⟩
      · rw [htake, scan_snoc, ← hst, if_pos hb]
      · rw [← hstep.2]
        exact (hG'.setGuards _ (fun g hg => by
          show g ∈ guardOf key ++ unguard st.1 t₁.guards
          rw [hgu1]; exact List.mem_append_right _ hg))
      · rw [← hstep.2]
        show guardOf key ++ unguard st.1 t₁.guards = guardOf key ++ s.guards
        rw [hgu1]
    · rw [if_neg hb] at hstep
      simp only [go_pure, Prod.mk.injEq, Except.ok.injEq] at hstep
      refine ⟨_, hstep.1.symm, ?_, hstep.2 ▸ hG', hstep.2 ▸ hh, hstep.2 ▸ (hgu'.trans hgu)⟩
      rw [htake, scan_snoc, ← hst, if_neg hb]


/-- **`__min` / `__max` on a non-empty table**, for a callback that behaves like the pure
    function `φ` (`minmaxCore_spec` between `guardRows` and `unguardRows`): the result is a new row
    `{"key": kᵢ, "value": vᵢ}` where `i` is the index the scan `argBest` selects; the input table and
    everything else reachable before is unchanged; the guard list is as before -/
theorem minmaxBody_spec (isMin : Bool) {re : Reenter} {φ : Val → Val → Val} {s s' : VmState}
    {r keyFn : Val} {a cap : Nat} {e₀ : Val × Val} {rest : List (Val × Val)}
    (hf : FreshNext s.heap) (hkf : s.stack.peekLast 0 = keyFn) (hit : s.stack.peekLast 1 = .obj a)
    (ha : s.heap.get a = some (.table cap (e₀ :: rest))) (hcb : PureCallback re keyFn φ)
    (hok : (minmaxBody isMin re).go s = (.ok r, s')) :
    let i := argBest (better isMin s.heap) (keysOf φ (e₀ :: rest))
    let e := (e₀ :: rest).getD i (.nil, .nil)
    i < (e₀ :: rest).length ∧ r = .obj s.heap.next ∧ s.heap.get s.heap.next = none ∧
    (∃ cap', s'.heap.get s.heap.next =
      some (.table cap' [(.obj (s.heap.next + 1), e.1), (.obj (s.heap.next + 2), e.2)])) ∧
    s'.heap.get (s.heap.next + 1) = some (.str "key".toUTF8.toList) ∧
    s'.heap.get (s.heap.next + 2) = some (.str "value".toUTF8.toList) ∧
    s'.heap.get a = some (.table cap (e₀ :: rest)) ∧ Grown s s' ∧ s'.guards = s.guards := by
  intro i e
  obtain ⟨s₁, hcore, rfl⟩ := minmaxBody_ok hit ha hok
  obtain ⟨h1, h2, h3, h4, h5, h6, h7, hG, hgu⟩ :=
    minmaxCore_spec isMin (s := { s with guards := rowGuards (e₀ :: rest) ++ s.guards }) hf hkf hit ha hcb hcore
  obtain ⟨hG', hgu'⟩ := Grown.unrow hf hG hgu
  exact ⟨h1, h2, h3, h4, h5, h6, h7, hG', hgu'⟩

/-- `r` is a NEW row table `{"key": e.1, "value": e.2}` (three new objects: the table and the two
    key strings) and the machine is otherwise unchanged (`Grown`: live stack, frames, globals,
    open upvalues and every object reachable before; no guard leaked) -/
structure RowResult (s s' : VmState) (r : Val) (e : Val × Val) : Prop where
  val : r = .obj s.heap.next
  new : s.heap.get s.heap.next = none
  row : ∃ cap', s'.heap.get s.heap.next =
    some (.table cap' [(.obj (s.heap.next + 1), e.1), (.obj (s.heap.next + 2), e.2)])
  key : s'.heap.get (s.heap.next + 1) = some (.str "key".toUTF8.toList)
  value : s'.heap.get (s.heap.next + 2) = some (.str "value".toUTF8.toList)
  grown : Grown s s'
  guards : s'.guards = s.guards

/-- the order `__min` / `__max` / `__sort` compare keys with: `<` of the deep values -/
def keyLt (h : Heap) (x y : Val) : Bool := OVal.vlt hostF64 (ownD h x) (ownD h y)

theorem better_true (h : Heap) : better true h = keyLt h := rfl
theorem better_false (h : Heap) : better false h = fun x y => keyLt h y x := rfl

theorem SWO.flip {α : Type} {lt : α → α → Bool} {K : List α} (h : SWO lt K) :
    SWO (fun x y => lt y x) K :=
  ⟨fun a ha b hb hab => h.asymm b hb a ha hab,
   fun a ha b hb c hc hab hbc => h.negtrans c hc b hb a ha hbc hab⟩

/-- `<` on integer keys is a strict weak order (no hypothesis on the floating point unit) -/
theorem swo_int_keys (h : Heap) (K : List Val) (hK : ∀ k ∈ K, ∃ i, k = Val.int i) :
    SWO (keyLt h) K := by
  constructor
  · intro a ha b hb hab
    obtain ⟨i, rfl⟩ := hK a ha
    obtain ⟨j, rfl⟩ := hK b hb
    simp only [keyLt, ownD_int, C19.vlt_int_int, decide_eq_true_eq, decide_eq_false_iff_not] at hab ⊢
    omega
  · intro a ha b hb c hc hab hbc
    obtain ⟨i, rfl⟩ := hK a ha
    obtain ⟨j, rfl⟩ := hK b hb
    obtain ⟨k, rfl⟩ := hK c hc
    simp only [keyLt, ownD_int, C19.vlt_int_int, decide_eq_false_iff_not] at hab hbc ⊢
    omega

/-- in general `<` is asymmetric (C19, under the IEEE laws); negative transitivity is what mixed
    key types can break and has to be assumed -/
theorem swo_of_negtrans (hF : LawfulF64 hostF64) (h : Heap) (K : List Val)
    (hnt : ∀ a ∈ K, ∀ b ∈ K, ∀ c ∈ K, keyLt h a b = false → keyLt h b c = false → keyLt h a c = false) :
    SWO (keyLt h) K :=
  ⟨fun a _ b _ hab => C19.vlt_asymm hF _ _ hab, hnt⟩

theorem getElem?_keysOf {φ : Val → Val → Val} {es : List (Val × Val)} {m : Nat} {e : Val × Val}
    (h : es[m]? = some e) : (keysOf φ es)[m]? = some (φ e.1 e.2) := by
  simp [keysOf, h]

/-- the order-theoretic content of `argBest` on the entries of a table -/
theorem argBest_entries (lt : Val → Val → Bool) (φ : Val → Val → Val) (e₀ : Val × Val)
    (rest : List (Val × Val)) :
    let es := e₀ :: rest
    let i := argBest lt (keysOf φ es)
    ∃ e, es[i]? = some e ∧ es.getD i (.nil, .nil) = e ∧
      (∀ m e', i < m → es[m]? = some e' → lt (φ e'.1 e'.2) (φ e.1 e.2) = false) ∧
      (SWO lt (keysOf φ es) →
        (∀ (m : Nat) e', es[m]? = some e' → lt (φ e'.1 e'.2) (φ e.1 e.2) = false) ∧
        (∀ m e', m < i → es[m]? = some e' → lt (φ e.1 e.2) (φ e'.1 e'.2) = true)) := by
  intro es i
  obtain ⟨bk, hbk, hlater, hswo⟩ := argBest_spec lt (φ e₀.1 e₀.2) (keysOf φ rest)
  have hbk' : (keysOf φ es)[i]? = some bk := hbk
  have hi : i < es.length := by
    rcases Nat.lt_or_ge i es.length with h | h
    · exact h
    · rw [List.getElem?_eq_none (by simpa [keysOf] using h)] at hbk'; cases hbk'
  have he : es[i]? = some es[i] := List.getElem?_eq_getElem hi
  have hbke : bk = φ es[i].1 es[i].2 := by
    rw [getElem?_keysOf he] at hbk'; exact (Option.some.inj hbk').symm
  refine ⟨es[i], he, by rw [List.getD_eq_getElem?_getD, he]; rfl, ?_, ?_⟩
  · intro m e' hm he'
    rw [← hbke]; exact hlater m _ hm (getElem?_keysOf he')
  · intro h
    obtain ⟨h1, h2⟩ := hswo h
    exact ⟨fun m e' he' => by rw [← hbke]; exact h1 m _ (getElem?_keysOf he'),
           fun m e' hm he' => by rw [← hbke]; exact h2 m _ hm (getElem?_keysOf he')⟩

/-- **`__min`** (with `std.min` / `std.min_by_key` on top of it). For a table with entries
    `es = e₀ :: rest` and a callback behaving like `φ`, the result is a new row for the entry
    `e = es[i]` such that
    * (unconditionally) no LATER entry has a strictly smaller key — `i` is the last index at which
      the scan replaced its candidate;
    * if `<` is a strict weak order on the keys involved: NO entry has a strictly smaller key,
      and every EARLIER entry has a strictly larger key — `e` is the first entry with the
      smallest key.
    The input table (and every object reachable before the call) is unchanged. -/
theorem min_spec (re : Reenter) {φ : Val → Val → Val} {s s' : VmState} {r keyFn : Val}
    {a cap : Nat} {e₀ : Val × Val} {rest : List (Val × Val)}
    (hf : FreshNext s.heap) (hkf : s.stack.peekLast 0 = keyFn) (hit : s.stack.peekLast 1 = .obj a)
    (ha : s.heap.get a = some (.table cap (e₀ :: rest))) (hcb : PureCallback re keyFn φ)
    (hok : (callNativeBody re "__min").go s = (.ok r, s')) :
    ∃ (i : Nat) (e : Val × Val), (e₀ :: rest)[i]? = some e ∧ RowResult s s' r e ∧
      s'.heap.get a = some (.table cap (e₀ :: rest)) ∧
      (∀ (m : Nat) (e' : Val × Val), i < m → (e₀ :: rest)[m]? = some e' → keyLt s.heap (φ e'.1 e'.2) (φ e.1 e.2) = false) ∧
      (SWO (keyLt s.heap) (keysOf φ (e₀ :: rest)) →
        (∀ (m : Nat) (e' : Val × Val), (e₀ :: rest)[m]? = some e' → keyLt s.heap (φ e'.1 e'.2) (φ e.1 e.2) = false) ∧
        (∀ (m : Nat) (e' : Val × Val), m < i → (e₀ :: rest)[m]? = some e' → keyLt s.heap (φ e.1 e.2) (φ e'.1 e'.2) = true)) := by
  rw [callNativeBody_min] at hok
  obtain ⟨-, hr, hnew, hrow, hks, hvs, hin, hG, hgu⟩ := minmaxBody_spec true hf hkf hit ha hcb hok
  obtain ⟨e, he, hget, hlater, hswo⟩ := argBest_entries (better true s.heap) φ e₀ rest
  rw [hget] at hrow
  exact ⟨_, e, he, ⟨hr, hnew, hrow, hks, hvs, hG, hgu⟩, hin, hlater, hswo⟩

/-- **`__max`**: as `min_spec` with the order reversed — no later entry has a strictly larger
    key; under a strict weak order no entry at all has, and every earlier entry has a strictly
    smaller one (the FIRST entry with the largest key is chosen) -/
theorem max_spec (re : Reenter) {φ : Val → Val → Val} {s s' : VmState} {r keyFn : Val}
    {a cap : Nat} {e₀ : Val × Val} {rest : List (Val × Val)}
    (hf : FreshNext s.heap) (hkf : s.stack.peekLast 0 = keyFn) (hit : s.stack.peekLast 1 = .obj a)
    (ha : s.heap.get a = some (.table cap (e₀ :: rest))) (hcb : PureCallback re keyFn φ)
    (hok : (callNativeBody re "__max").go s = (.ok r, s')) :
    ∃ (i : Nat) (e : Val × Val), (e₀ :: rest)[i]? = some e ∧ RowResult s s' r e ∧
      s'.heap.get a = some (.table cap (e₀ :: rest)) ∧
      (∀ (m : Nat) (e' : Val × Val), i < m → (e₀ :: rest)[m]? = some e' → keyLt s.heap (φ e.1 e.2) (φ e'.1 e'.2) = false) ∧
      (SWO (keyLt s.heap) (keysOf φ (e₀ :: rest)) →
        (∀ (m : Nat) (e' : Val × Val), (e₀ :: rest)[m]? = some e' → keyLt s.heap (φ e.1 e.2) (φ e'.1 e'.2) = false) ∧
        (∀ (m : Nat) (e' : Val × Val), m < i → (e₀ :: rest)[m]? = some e' → keyLt s.heap (φ e'.1 e'.2) (φ e.1 e.2) = true)) := by
  rw [callNativeBody_max] at hok
  obtain ⟨-, hr, hnew, hrow, hks, hvs, hin, hG, hgu⟩ := minmaxBody_spec false hf hkf hit ha hcb hok
  obtain ⟨e, he, hget, hlater, hswo⟩ := argBest_entries (better false s.heap) φ e₀ rest
  rw [hget] at hrow
  exact ⟨_, e, he, ⟨hr, hnew, hrow, hks, hvs, hG, hgu⟩, hin, hlater, fun h => hswo h.flip⟩

/-- the empty table gives `nil`; a non-table first argument is returned unchanged; in both cases
    the machine state is untouched -/
theorem min_max_degenerate (re : Reenter) (s : VmState) :
    (isTable s.heap (s.stack.peekLast 1) = none →
      (callNativeBody re "__min").go s = (.ok (s.stack.peekLast 1), s) ∧
      (callNativeBody re "__max").go s = (.ok (s.stack.peekLast 1), s)) ∧
    (isTable s.heap (s.stack.peekLast 1) = some [] →
      (callNativeBody re "__min").go s = (.ok .nil, s) ∧
      (callNativeBody re "__max").go s = (.ok .nil, s)) := by
  rw [callNativeBody_min, callNativeBody_max]
  constructor
  · intro h; exact ⟨minmax_non_table true re s h, minmax_non_table false re s h⟩
  · intro h
    obtain ⟨a, cap, hv, hg⟩ := isTable_some h
    exact ⟨minmax_empty true re s hv hg, minmax_empty false re s hv hg⟩


/-! ## (c) `__sort` -/

section sortlemmas
variable {α : Type}

/-- `List.pairwise_mergeSort` when the comparison is only known to be a total preorder on the
    elements of the list -/
theorem pairwise_mergeSort_on (le : α → α → Bool) (l : List α)
    (trans : ∀ a ∈ l, ∀ b ∈ l, ∀ c ∈ l, le a b = true → le b c = true → le a c = true)
    (total : ∀ a ∈ l, ∀ b ∈ l, (le a b || le b a) = true) :
    (l.mergeSort le).Pairwise (fun a b => le a b = true) := by
  let le' : {x // x ∈ l} → {x // x ∈ l} → Bool := fun a b => le a.1 b.1
  have hmap : (l.attach.mergeSort le').map Subtype.val = l.mergeSort le := by
    rw [List.map_mergeSort (s := le) (fun a _ b _ => rfl), List.attach_map_subtype_val]
  have hp := List.pairwise_mergeSort (le := le')
    (fun a b c => trans a.1 a.2 b.1 b.2 c.1 c.2) (fun a b => total a.1 a.2 b.1 b.2) l.attach
  rw [← hmap, List.pairwise_map]
  exact hp

/-- stability, under the same restricted hypotheses -/
theorem sublist_mergeSort_on (le : α → α → Bool) (l : List α)
    (trans : ∀ a ∈ l, ∀ b ∈ l, ∀ c ∈ l, le a b = true → le b c = true → le a c = true)
    (total : ∀ a ∈ l, ∀ b ∈ l, (le a b || le b a) = true)
    {c : List α} (hc : c.Pairwise (fun a b => le a b = true)) (hsub : c.Sublist l) :
    c.Sublist (l.mergeSort le) := by
  let le' : {x // x ∈ l} → {x // x ∈ l} → Bool := fun a b => le a.1 b.1
  have hmap : (l.attach.mergeSort le').map Subtype.val = l.mergeSort le := by
    rw [List.map_mergeSort (s := le) (fun a _ b _ => rfl), List.attach_map_subtype_val]
  have hsub' : c.Sublist (l.attach.map Subtype.val) := by
    rw [List.attach_map_subtype_val]; exact hsub
  obtain ⟨c', hc', rfl⟩ := List.sublist_map_iff.mp hsub'
  have := List.sublist_mergeSort (le := le')
    (fun a b c => trans a.1 a.2 b.1 b.2 c.1 c.2) (fun a b => total a.1 a.2 b.1 b.2)
    (List.pairwise_map.mp hc) hc'
  rw [← hmap]
  exact this.map _

/-- erasing (in any order) exactly the elements that were put in front gives back the rest -/
theorem foldl_erase_perm {β : Type} [BEq β] [LawfulBEq β] :
    ∀ (P' P R : List β), P'.Perm P → P'.foldl List.erase (P ++ R) = R := by
  intro P'
  induction P' with
  | nil => intro P R h; rw [List.nil_perm.mp h]; rfl
  | cons x xs ih =>
    intro P R h
    have hx : x ∈ P := h.subset List.mem_cons_self
    have h' : xs.Perm (P.erase x) := by
      have := h.erase x
      rwa [List.erase_cons_head] at this
    rw [List.foldl_cons, List.erase_append_left _ hx]
    exact ih _ _ h'

theorem nodup_getElem_ne {l : List α} (h : l.Nodup) {i j : Nat} (hi : i < l.length)
    (hj : j < l.length) (hij : i < j) : l[i] ≠ l[j] :=
  (List.pairwise_iff_getElem.mp (List.nodup_iff_pairwise_ne.mp h)) i j hi hj hij

end sortlemmas

/-- `≤` on keys as `__sort` uses it: "not greater" on the deep values -/
def keyLe (h : Heap) (x y : Val) : Bool :=
  match OVal.vcmp hostF64 (ownD h x) (ownD h y) with
  | some .gt => false
  | _ => true

/-- the comparison of the keyed triples `(key, k, v)` -/
def sortLe (h : Heap) (a b : Val × Val × Val) : Bool :=
  match OVal.vcmp hostF64 (ownD h a.1) (ownD h b.1) with
  | some .gt => false
  | _ => true

theorem sortLe_eq (h : Heap) (a b : Val × Val × Val) : sortLe h a b = keyLe h a.1 b.1 := rfl

/-- the entries in the order `__sort` produces: a stable merge sort by `keyLe` on `φ k v` -/
def sortedEntries (φ : Val → Val → Val) (h : Heap) (es : List (Val × Val)) : List (Val × Val) :=
  es.mergeSort (fun e₁ e₂ => keyLe h (φ e₁.1 e₁.2) (φ e₂.1 e₂.2))

def keyed (φ : Val → Val → Val) (es : List (Val × Val)) : List (Val × Val × Val) :=
  es.map (fun e => (φ e.1 e.2, e.1, e.2))

theorem sorted_keyed (φ : Val → Val → Val) (h : Heap) (es : List (Val × Val)) :
    ((keyed φ es).mergeSort (sortLe h)).map (·.2) = sortedEntries φ h es := by
  unfold keyed sortedEntries
  rw [← List.map_mergeSort (r := fun e₁ e₂ => keyLe h (φ e₁.1 e₁.2) (φ e₂.1 e₂.2))
    (fun a _ b _ => rfl), List.map_map]
  have : ((fun x : Val × Val × Val => x.2) ∘ fun e : Val × Val => (φ e.1 e.2, e.1, e.2)) = id := by
    funext e; rfl
  rw [this, List.map_id]

/-- the output is a permutation of the input (unconditionally) -/
theorem sortedEntries_perm (φ : Val → Val → Val) (h : Heap) (es : List (Val × Val)) :
    (sortedEntries φ h es).Perm es := List.mergeSort_perm _ _

/-- keys on which "not greater" is a total preorder -/
structure TotalPreorderOn (le : Val → Val → Bool) (K : List Val) : Prop where
  trans : ∀ a ∈ K, ∀ b ∈ K, ∀ c ∈ K, le a b = true → le b c = true → le a c = true
  total : ∀ a ∈ K, ∀ b ∈ K, (le a b || le b a) = true

/-- ordered: no entry is followed (at any distance) by an entry with a strictly smaller key -/
theorem sortedEntries_sorted (φ : Val → Val → Val) (h : Heap) (es : List (Val × Val))
    (hto : TotalPreorderOn (keyLe h) (keysOf φ es)) :
    (sortedEntries φ h es).Pairwise (fun e₁ e₂ => keyLe h (φ e₁.1 e₁.2) (φ e₂.1 e₂.2) = true) := by
  have hm : ∀ e ∈ es, φ e.1 e.2 ∈ keysOf φ es := fun e he => List.mem_map.mpr ⟨e, he, rfl⟩
  exact pairwise_mergeSort_on _ es
    (fun a ha b hb c hc => hto.trans _ (hm a ha) _ (hm b hb) _ (hm c hc))
    (fun a ha b hb => hto.total _ (hm a ha) _ (hm b hb))

/-- stable: entries whose keys are in order (in particular: equal or incomparable keys that
    compare "not greater") keep their relative order; stated for arbitrary sublists -/
theorem sortedEntries_stable (φ : Val → Val → Val) (h : Heap) (es : List (Val × Val))
    (hto : TotalPreorderOn (keyLe h) (keysOf φ es)) {c : List (Val × Val)}
    (hc : c.Pairwise (fun e₁ e₂ => keyLe h (φ e₁.1 e₁.2) (φ e₂.1 e₂.2) = true))
    (hsub : c.Sublist es) : c.Sublist (sortedEntries φ h es) := by
  have hm : ∀ e ∈ es, φ e.1 e.2 ∈ keysOf φ es := fun e he => List.mem_map.mpr ⟨e, he, rfl⟩
  exact sublist_mergeSort_on _ es
    (fun a ha b hb c hc => hto.trans _ (hm a ha) _ (hm b hb) _ (hm c hc))
    (fun a ha b hb => hto.total _ (hm a ha) _ (hm b hb)) hc hsub

/-- integer keys: `keyLe` is `≤`, a total preorder (no hypothesis on the floating point unit) -/
theorem totalPreorder_int_keys (h : Heap) (K : List Val) (hK : ∀ k ∈ K, ∃ i, k = Val.int i) :
    TotalPreorderOn (keyLe h) K := by
  have hle : ∀ i j : Int64, keyLe h (.int i) (.int j) = decide (i.toInt ≤ j.toInt) := by
    intro i j
    unfold keyLe
    rw [ownD_int, ownD_int, C19.vcmp_int_int]
    rcases Int.lt_trichotomy i.toInt j.toInt with hlt | heq | hgt
    · rw [Int.compare_eq_lt.2 hlt]; simp; omega
    · rw [heq]; simp
    · rw [Int.compare_eq_gt.2 hgt]; simp; omega
  constructor
  · intro a ha b hb c hc hab hbc
    obtain ⟨i, rfl⟩ := hK a ha
    obtain ⟨j, rfl⟩ := hK b hb
    obtain ⟨k, rfl⟩ := hK c hc
    rw [hle] at hab hbc ⊢
    simp only [decide_eq_true_eq] at hab hbc ⊢
    omega
  · intro a ha b hb
    obtain ⟨i, rfl⟩ := hK a ha
    obtain ⟨j, rfl⟩ := hK b hb
    rw [hle, hle]
    simp only [Bool.or_eq_true, decide_eq_true_eq]
    omega


def sortKeyStep (re : Reenter) (keyFn : Val) (x : Val × Val) (acc : List (Val × Val × Val)) :
    M (ForInStep (List (Val × Val × Val))) := do
  push x.2; push x.1
  let key ← re keyFn
  modify fun s => { s with guards := (match key with | .obj a => [a] | _ => []) ++ s.guards }
  pure (.yield (acc ++ [(key, x.1, x.2)]))

def sortInsertStep (out : Nat) (x : Val × Val × Val) (_u : PUnit) : M (ForInStep PUnit) := do
  tableInsert out x.2.1 x.2.2
  pure (.yield ⟨⟩)

def sortDropStep (x : Val × Val × Val) (_u : PUnit) : M (ForInStep PUnit) :=
  match x.1 with
  | .obj a => do dropGuard a; pure (.yield ⟨⟩)
  | _ => pure (.yield ⟨⟩)

/-- `__sort` after the keys have been computed: sort, build the output table, release the keys -/
def sortTail (kd : List (Val × Val × Val)) (h : Heap) : M Val := do
  let out ← initTable
  forIn (kd.mergeSort (sortLe h)) PUnit.unit (sortInsertStep out)
  forIn kd PUnit.unit sortDropStep
  dropGuard out
  return .obj out

/-- `__sort` without the guards of the copied rows: what runs between `guardRows es` and
    `unguardRows es` (up to the place of the final `dropGuard out`, see `sortBody_ok`) -/
def sortCore (re : Reenter) : M Val := do
  let h := (← get).heap
  let keyFn ← peek 0
  let iterable ← peek 1
  match isTable h iterable with
  | none => return iterable
  | some es => do
    let kd ← forIn es [] (sortKeyStep re keyFn)
    let h := (← get).heap
    sortTail kd h

/-- `sortTail`, with the guards of the copied rows released after those of the keys -/
def sortTailG (es : List (Val × Val)) (kd : List (Val × Val × Val)) (h : Heap) : M Val := do
  let out ← initTable
  forIn (kd.mergeSort (sortLe h)) PUnit.unit (sortInsertStep out)
  forIn kd PUnit.unit sortDropStep
  unguardRows es
  dropGuard out
  return .obj out

/-- the body of `__sort`, loop bodies named -/
def sortBody (re : Reenter) : M Val := do
  let h := (← get).heap
  let keyFn ← peek 0
  let iterable ← peek 1
  match isTable h iterable with
  | none => return iterable
  | some es => do
    guardRows es
    let kd ← forIn es [] (sortKeyStep re keyFn)
    let h := (← get).heap
    sortTailG es kd h

theorem callNativeBody_sort (re : Reenter) : callNativeBody re "__sort" = sortBody re := by
  unfold callNativeBody
  simp (config := { decide := true }) only []
  rfl


/-- a key that is a scalar, or an allocated object other than a table (string, function value):
    its deep value is read off the object itself -/
def FlatKey (h : Heap) (v : Val) : Prop :=
  ∀ b, v = .obj b → ∃ o, h.get b = some o ∧ ∀ cap es, o ≠ .table cap es

/-- the deep value of a flat key of the (rooted) input table never changes while the native
    allocates -/
theorem ownD_key_stable {s t : VmState} (hG : Grown s t) {a cap : Nat} {es : List (Val × Val)}
    (hra : Reach s.heap (rootAddrs s) a) (ha : s.heap.get a = some (.table cap es))
    {e : Val × Val} (he : e ∈ es) (hfl : FlatKey s.heap e.1) :
    ownD t.heap e.1 = ownD s.heap e.1 := by
  apply ownD_congr_flat
  · intro b hb cap' es' hc
    obtain ⟨o, ho, hno⟩ := hfl b hb
    rw [ho] at hc
    exact hno cap' es' (Option.some.inj hc)
  · intro b hb
    obtain ⟨o, ho, -⟩ := hfl b hb
    have hrb : Reach s.heap (rootAddrs s) b := Reach.step hra ha (by
      simp only [Heap.children, List.mem_flatMap]
      exact ⟨e, he, by rw [hb]; simp⟩)
    rw [hG.keep b o hrb ho, ho]

theorem unguard_eq_foldl (v : Val) (g : List Nat) : unguard v g = (guardOf v).foldl List.erase g := by
  cases v <;> rfl

theorem go_sortDropStep (x : Val × Val × Val) (u : PUnit) (t : VmState) :
    (sortDropStep x u).go t = (.ok (.yield ⟨⟩), { t with guards := unguard x.1 t.guards }) := by
  obtain ⟨k, e⟩ := x
  cases k <;> rfl

theorem guards_perm (ks : List Val) :
    (ks.reverse.flatMap guardOf).Perm (ks.flatMap guardOf) := by
  induction ks with
  | nil => exact List.Perm.refl _
  | cons k ks ih =>
    rw [List.reverse_cons, List.flatMap_append, List.flatMap_cons, List.flatMap_cons,
      List.flatMap_nil, List.append_nil]
    exact List.perm_append_comm.trans (List.Perm.append_left _ ih)

theorem callKV_bind_eq {β : Type} (re : Reenter) (f k v : Val) (g : Val → M β) :
    (push v >>= fun _ => push k >>= fun _ => re f >>= g) = (callKV re f k v >>= g) := by
  simp [callKV, bind_assoc]

/-- `sortTailG es` is `sortTail` followed by `unguardRows es` (erasures commute) -/
theorem sortTailG_ok {es : List (Val × Val)} {kd : List (Val × Val × Val)} {h : Heap} {r : Val}
    {t t' : VmState} (hok : (sortTailG es kd h).go t = (.ok r, t')) :
    ∃ t₁, (sortTail kd h).go t = (.ok r, t₁) ∧ t' = { t₁ with guards := unrow es t₁.guards } := by
  unfold sortTailG at hok
  obtain ⟨out, ta, h1, hok⟩ := ok_bind hok
  obtain ⟨_, tb, h2, hok⟩ := ok_bind hok
  obtain ⟨_, tc, h3, hok⟩ := ok_bind hok
  rw [go_bind_ok (go_unguardRows es tc), go_bind_ok (go_dropGuard out _), go_pure] at hok
  simp only [Prod.mk.injEq, Except.ok.injEq] at hok
  obtain ⟨rfl, rfl⟩ := hok
  refine ⟨{ tc with guards := tc.guards.erase out }, ?_, ?_⟩
  · unfold sortTail
    rw [go_bind_ok h1, go_bind_ok h2, go_bind_ok h3, go_bind_ok (go_dropGuard out tc), go_pure]
  · show ({ tc with guards := (unrow es tc.guards).erase out } : VmState) =
      { tc with guards := unrow es (tc.guards.erase out) }
    rw [unrow_erase_comm]

/-- **the shape of `__sort` on a table**: `guardRows es`, then `sortCore`, then `unguardRows es` -/
theorem sortBody_ok {re : Reenter} {s s' : VmState} {r : Val} {a cap : Nat} {es : List (Val × Val)}
    (hit : s.stack.peekLast 1 = .obj a) (ha : s.heap.get a = some (.table cap es))
    (hok : (sortBody re).go s = (.ok r, s')) :
    ∃ s₁, (sortCore re).go { s with guards := rowGuards es ++ s.guards } = (.ok r, s₁) ∧
      s' = { s₁ with guards := unrow es s₁.guards } := by
  unfold sortBody at hok
  rw [go_bind_ok (go_get s), go_bind_ok (go_peek 0 s), go_bind_ok (go_peek 1 s), hit] at hok
  simp only [isTable_of_get ha] at hok
  rw [go_bind_ok (go_guardRows _ s)] at hok
  obtain ⟨kd, t1, h1, hok⟩ := ok_bind hok
  rw [go_bind_ok (go_get t1)] at hok
  obtain ⟨t2, h2, rfl⟩ := sortTailG_ok hok
  refine ⟨t2, ?_, rfl⟩
  unfold sortCore
  rw [go_bind_ok (go_get _), go_bind_ok (go_peek 0 _), go_bind_ok (go_peek 1 _)]
  dsimp only
  rw [hit]
  simp only [isTable_of_get ha]
  rw [go_bind_ok h1, go_bind_ok (go_get t1)]
  exact h2

/-- a non-table argument is returned unchanged, and nothing happens -/
theorem sort_non_table (re : Reenter) (s : VmState)
    (h : isTable s.heap (s.stack.peekLast 1) = none) :
    (callNativeBody re "__sort").go s = (.ok (s.stack.peekLast 1), s) := by
  rw [callNativeBody_sort]
  unfold sortBody
  rw [go_bind_ok (go_get s), go_bind_ok (go_peek 0 s), go_bind_ok (go_peek 1 s)]
  simp only [h]
  rfl

/-- the second half of `__sort`, from any state `t1` that is `s` plus the guarded keys -/
theorem sort_tail {φ : Val → Val → Val} {s t1 s' : VmState} {r : Val} {a cap : Nat}
    {es : List (Val × Val)} {kd : List (Val × Val × Val)}
    (hra : Reach s.heap (rootAddrs s) a) (ha : s.heap.get a = some (.table cap es))
    (hflat : ∀ e ∈ es, FlatKey s.heap e.1) (hdist : (es.map (fun e => ownD s.heap e.1)).Nodup)
    (hkd : kd = keyed φ es) (G1 : Grown s t1)
    (hgu1 : t1.guards = (keysOf φ es).reverse.flatMap guardOf ++ s.guards)
    (hsort : kd.mergeSort (sortLe t1.heap) = kd.mergeSort (sortLe s.heap))
    (hok : (sortTail kd t1.heap).go t1 = (.ok r, s')) :
    r = .obj t1.heap.next ∧ t1.heap.get t1.heap.next = none ∧ s.heap.next ≤ t1.heap.next ∧
    (∃ cap', s'.heap.get t1.heap.next = some (.table cap' (sortedEntries φ s.heap es))) ∧
    s'.heap.get a = some (.table cap es) ∧ Grown s s' ∧ s'.guards = s.guards := by
  unfold sortTail at hok
  obtain ⟨out, t1', hinit, hok⟩ := ok_bind hok
  obtain ⟨_, t2, hloop2, hok⟩ := ok_bind hok
  obtain ⟨_, t3, hloop3, hok⟩ := ok_bind hok
  rw [go_bind_ok (go_dropGuard out t3), go_pure] at hok
  simp only [Prod.mk.injEq, Except.ok.injEq] at hok
  obtain ⟨hr, hs'⟩ := hok
  -- the output table
  obtain ⟨G1', get1, gu1, le1, none1, keep1, next1⟩ := G1.alloc2 (initTable_ok hinit)
  have hout : out = t1.heap.next := (initTable_ok hinit).elim fun _ h => h.2.1
  -- the sorted list
  have hSE : (kd.mergeSort (sortLe t1.heap)).map (·.2) = sortedEntries φ s.heap es := by
    rw [hsort, hkd]; exact sorted_keyed φ s.heap es
  have hperm := sortedEntries_perm φ s.heap es
  have hnd : ((sortedEntries φ s.heap es).map (fun e => ownD s.heap e.1)).Nodup :=
    ((hperm.map _).nodup_iff).mpr hdist
  -- phase 2: the insertions
  have h2 := forIn_inv' (kd.mergeSort (sortLe t1.heap))
    (fun i _ t => Grown s t ∧ t.guards = out :: t1.guards ∧
      ∃ cap', t.heap.get out = some (.table cap' ((sortedEntries φ s.heap es).take i)))
    (sortInsertStep out) (b := PUnit.unit) (s := t1') ?_ ⟨G1', gu1, Gen.tableInitCap, get1⟩ hloop2
  rotate_left
  · intro i x u t r' t' hx ⟨hG, hgu, cap', hget⟩ hstep
    unfold sortInsertStep at hstep
    obtain ⟨_, t₁, hins, hstep⟩ := ok_bind hstep
    simp only [go_pure, Prod.mk.injEq, Except.ok.injEq] at hstep
    obtain ⟨hG', ⟨cap'', hget'⟩, hgu', -⟩ := hG.tableInsert le1 hget
      (reach_guard (by rw [hgu]; exact List.mem_cons_self)) hins
    have hxi : (sortedEntries φ s.heap es)[i]? = some x.2 := by
      rw [← hSE, List.getElem?_map, hx]; rfl
    have hilt : i < (sortedEntries φ s.heap es).length := by
      rcases Nat.lt_or_ge i (sortedEntries φ s.heap es).length with h | h
      · exact h
      · rw [List.getElem?_eq_none h] at hxi; cases hxi
    have hxe : (sortedEntries φ s.heap es)[i] = x.2 := by
      rw [List.getElem?_eq_getElem hilt] at hxi; exact Option.some.inj hxi
    have hstab : ∀ e ∈ sortedEntries φ s.heap es, ownD t.heap e.1 = ownD s.heap e.1 :=
      fun e he => ownD_key_stable hG hra ha (hperm.subset he) (hflat e (hperm.subset he))
    refine ⟨_, hstep.1.symm, hstep.2 ▸ hG', by rw [← hstep.2, hgu', hgu], cap'', ?_⟩
    rw [← hstep.2, hget', tinsert_new, List.take_add_one, hxi]
    · rfl
    · intro e he
      obtain ⟨j, hj, hje⟩ := List.mem_iff_getElem.mp he
      rw [List.length_take] at hj
      rw [List.getElem_take] at hje
      have hjlt : j < (sortedEntries φ s.heap es).length := by omega
      rw [← hje, ← hxe, hstab _ (List.getElem_mem hjlt), hstab _ (List.getElem_mem hilt)]
      have := nodup_getElem_ne hnd (i := j) (j := i) (by simpa using hjlt) (by simpa using hilt)
        (by omega)
      simpa using this
  obtain ⟨G2, gu2, cap2, get2⟩ := h2
  have hlen2 : (kd.mergeSort (sortLe t1.heap)).length = (sortedEntries φ s.heap es).length := by
    rw [← hSE, List.length_map]
  rw [hlen2, List.take_length] at get2
  -- phase 3: the guards of the keys are dropped
  have h3 := forIn_inv' kd
    (fun i _ t => t.heap = t2.heap ∧ t.stack = t2.stack ∧ t.frames = t2.frames ∧
      t.globals = t2.globals ∧ t.openUpvalues = t2.openUpvalues ∧
      t.guards = ((keysOf φ (es.take i)).flatMap guardOf).foldl List.erase t2.guards)
    sortDropStep (b := PUnit.unit) (s := t2) ?_ ⟨rfl, rfl, rfl, rfl, rfl, rfl⟩ hloop3
  rotate_left
  · intro i x u t r' t' hx ⟨hh, hst, hfr, hgl, hup, hgu⟩ hstep
    rw [go_sortDropStep] at hstep
    simp only [Prod.mk.injEq, Except.ok.injEq] at hstep
    have hxi : ∃ e, es[i]? = some e ∧ x.1 = φ e.1 e.2 := by
      rw [hkd, keyed, List.getElem?_map] at hx
      cases he : es[i]? with
      | none => rw [he] at hx; cases hx
      | some e => rw [he] at hx; exact ⟨e, rfl, by rw [← Option.some.inj hx]⟩
    obtain ⟨e, he, hxe⟩ := hxi
    have htake : es.take (i + 1) = es.take i ++ [e] := by rw [List.take_add_one, he]; rfl
    refine ⟨_, hstep.1.symm, ?_⟩
    rw [← hstep.2]
    refine ⟨hh, hst, hfr, hgl, hup, ?_⟩
    show unguard x.1 t.guards = _
    rw [unguard_eq_foldl, hgu, htake, hxe]
    simp [keysOf, List.flatMap_append, List.foldl_append]
  obtain ⟨hh3, hst3, hfr3, hgl3, hup3, hgu3⟩ := h3
  have hlen3 : kd.length = es.length := by rw [hkd]; simp [keyed]
  rw [hlen3, List.take_length] at hgu3
  -- the final guard list
  have hfinal : t3.guards.erase out = s.guards := by
    rw [hgu3, gu2, hgu1]
    have := foldl_erase_perm (keysOf φ es |>.flatMap guardOf |>.append [out])
      (out :: (keysOf φ es).reverse.flatMap guardOf) s.guards
      (List.perm_append_comm.trans (List.Perm.cons _ (guards_perm _).symm))
    simp only [List.append_eq, List.foldl_append, List.foldl_cons, List.foldl_nil,
      List.cons_append] at this
    exact this
  subst hs'
  subst hout
  refine ⟨hr.symm, none1, G1.next, ⟨cap2, by show t3.heap.get _ = _; rw [hh3]; exact get2⟩, ?_, ?_, hfinal⟩
  · show t3.heap.get a = _
    rw [hh3]; exact G2.keep a _ hra ha
  · exact G2.step (StackSame.of_eq hst3) hfr3 hgl3 hup3
      (fun g hg => by show g ∈ t3.guards.erase t1.heap.next; rw [hfinal]; exact hg)
      (fun b o _ ho => by show t3.heap.get b = _; rw [hh3]; exact ho)
      (by show t2.heap.next ≤ t3.heap.next; rw [hh3]; exact Nat.le_refl _)
      (by show FreshNext t3.heap; rw [hh3]; exact G2.fresh)



/-- **`__sort`**: for a callback behaving like `φ`, the result is a NEW table whose entry list is
    `sortedEntries φ s.heap es` — the stable merge sort of the input entries by "not greater" on
    the deep values of `φ k v` — provided the keys of the input table are flat and pairwise
    different (the table invariant); the input table and everything else reachable before is
    unchanged and no guard is leaked. -/
theorem sortCore_spec (re : Reenter) {φ : Val → Val → Val} {s s' : VmState} {r keyFn : Val}
    {a cap : Nat} {es : List (Val × Val)}
    (hf : FreshNext s.heap) (hkf : s.stack.peekLast 0 = keyFn) (hit : s.stack.peekLast 1 = .obj a)
    (ha : s.heap.get a = some (.table cap es)) (hcb : PureCallback re keyFn φ)
    (hflat : ∀ e ∈ es, FlatKey s.heap e.1) (hdist : (es.map (fun e => ownD s.heap e.1)).Nodup)
    (hok : (sortCore re).go s = (.ok r, s')) :
    r = .obj s.heap.next ∧ s.heap.get s.heap.next = none ∧
    (∃ cap', s'.heap.get s.heap.next = some (.table cap' (sortedEntries φ s.heap es))) ∧
    s'.heap.get a = some (.table cap es) ∧ Grown s s' ∧ s'.guards = s.guards := by
  unfold sortCore at hok
  rw [go_bind_ok (go_get s), go_bind_ok (go_peek 0 s), go_bind_ok (go_peek 1 s), hit, hkf] at hok
  simp only [isTable_of_get ha] at hok
  obtain ⟨kd, t1, hloop1, hok⟩ := ok_bind hok
  rw [go_bind_ok (go_get t1)] at hok
  have hra : Reach s.heap (rootAddrs s) a := reach_peek hit
  -- phase 1: the keys
  have h1 := forIn_inv' es
    (fun i kd t => kd = keyed φ (es.take i) ∧ Grown s t ∧ t.heap = s.heap ∧
      t.guards = (keysOf φ (es.take i)).reverse.flatMap guardOf ++ s.guards)
    (sortKeyStep re keyFn) (b := []) (s := s) ?_ ⟨rfl, Grown.refl s hf, rfl, rfl⟩ hloop1
  rotate_left
  · intro i x kd t r' t' hx ⟨hkd, hG, hheap, hgu⟩ hstep
    unfold sortKeyStep at hstep
    rw [callKV_bind_eq] at hstep
    obtain ⟨key, t₁, hcall, hstep⟩ := ok_bind hstep
    obtain ⟨hkey, hst', hheap', hgu', hfr', hgl', hup'⟩ := callKV_ok hcb hcall
    rw [go_bind_ok (go_modify _ t₁), go_pure] at hstep
    simp only [Prod.mk.injEq, Except.ok.injEq] at hstep
    have hG' : Grown s t₁ := hG.same_heap hst' hheap' hgu' hfr' hgl' hup'
    have htake : es.take (i + 1) = es.take i ++ [x] := by rw [List.take_add_one, hx]; rfl
    refine ⟨_, hstep.1.symm, ?_, ?_, ?_, ?_⟩
    · rw [hkd, htake, hkey]; simp [keyed]
    · rw [← hstep.2]
      exact hG'.setGuards _ (fun g hg => List.mem_append_right _ (hG'.guards g hg))
    · rw [← hstep.2]; exact hheap'.trans hheap
    · rw [← hstep.2]
      show guardOf key ++ t₁.guards = _
      rw [hgu', hgu, htake, hkey]
      simp [keysOf]
  rw [List.take_length] at h1
  obtain ⟨hkd, G1, hheap1, hgu1⟩ := h1
  obtain ⟨hr, hnone, -, hout, hin, hG, hgu⟩ := sort_tail hra ha hflat hdist hkd G1 hgu1
    (by rw [hheap1]) hok
  rw [hheap1] at hr hnone hout
  exact ⟨hr, hnone, hout, hin, hG, hgu⟩

/-- **`__sort`** (`sortCore_spec` between `guardRows` and `unguardRows`): for a callback behaving
    like `φ`, the result is a NEW table whose entry list is `sortedEntries φ s.heap es`, provided the
    keys of the input table are flat and pairwise different (the table invariant); the input table
    and everything else reachable before is unchanged and no guard is leaked. -/
theorem sort_spec (re : Reenter) {φ : Val → Val → Val} {s s' : VmState} {r keyFn : Val}
    {a cap : Nat} {es : List (Val × Val)}
    (hf : FreshNext s.heap) (hkf : s.stack.peekLast 0 = keyFn) (hit : s.stack.peekLast 1 = .obj a)
    (ha : s.heap.get a = some (.table cap es)) (hcb : PureCallback re keyFn φ)
    (hflat : ∀ e ∈ es, FlatKey s.heap e.1) (hdist : (es.map (fun e => ownD s.heap e.1)).Nodup)
    (hok : (callNativeBody re "__sort").go s = (.ok r, s')) :
    r = .obj s.heap.next ∧ s.heap.get s.heap.next = none ∧
    (∃ cap', s'.heap.get s.heap.next = some (.table cap' (sortedEntries φ s.heap es))) ∧
    s'.heap.get a = some (.table cap es) ∧ Grown s s' ∧ s'.guards = s.guards := by
  rw [callNativeBody_sort] at hok
  obtain ⟨s₁, hcore, rfl⟩ := sortBody_ok hit ha hok
  obtain ⟨h1, h2, h3, h4, hG, hgu⟩ :=
    sortCore_spec re (s := { s with guards := rowGuards es ++ s.guards }) hf hkf hit ha hcb hflat hdist hcore
  obtain ⟨hG', hgu'⟩ := Grown.unrow hf hG hgu
  exact ⟨h1, h2, h3, h4, hG', hgu'⟩

/-! ## non-vacuity: a callback satisfying `PureCallback`, and concrete runs -/

/-- the ideal callback: pop the key, pop the value, return `φ key value` -/
def idealCallback (φ : Val → Val → Val) : Reenter := fun _ => do
  let k ← pop
  let v ← pop
  pure (φ k v)

theorem pureCallback_ideal (φ : Val → Val → Val) (f : Val) : PureCallback (idealCallback φ) f φ := by
  constructor
  intro s r s' hc hl hok
  have hgo : (idealCallback φ f).go s =
      (.ok (φ s.stack.pop.2 s.stack.pop.1.pop.2), { s with stack := s.stack.pop.1.pop.1 }) := rfl
  rw [hgo] at hok
  simp only [Prod.mk.injEq, Except.ok.injEq] at hok
  obtain ⟨hr, hs'⟩ := hok
  subst hs'
  have hc0 : ¬ s.stack.count = 0 := by omega
  have hc1 : ¬ s.stack.count - 1 = 0 := by omega
  have hp1 : s.stack.pop = (⟨s.stack.count - 1, s.stack.data.set (s.stack.count - 1) default⟩,
      s.stack.data.getD (s.stack.count - 1) default) := by
    unfold VStack.pop; rw [if_neg hc0]
  have hp2 : s.stack.pop.1.pop = (⟨s.stack.count - 1 - 1,
      (s.stack.data.set (s.stack.count - 1) default).set (s.stack.count - 1 - 1) default⟩,
      (s.stack.data.set (s.stack.count - 1) default).getD (s.stack.count - 1 - 1) default) := by
    rw [hp1]; unfold VStack.pop; dsimp only; rw [if_neg hc1]
  refine ⟨?_, ?_, ?_, rfl, rfl, rfl, rfl, rfl⟩
  · rw [← hr, hp2, hp1]
    dsimp only
    unfold VStack.peekLast
    rw [if_pos (by omega), if_pos (by omega)]
    congr 1
    rw [List.getD_eq_getElem?_getD, List.getD_eq_getElem?_getD, List.getElem?_set]
    have : ¬ s.stack.count - 1 = s.stack.count - 1 - 1 := by omega
    simp only [this, if_false]
  · show Prefix s.stack.pop.1.pop.1 s.stack
    rw [hp2]
    refine ⟨by dsimp only; omega, by simp, fun i hi => ?_⟩
    dsimp only at hi ⊢
    rw [List.getElem?_set, List.getElem?_set]
    have h1 : ¬ s.stack.count - 1 - 1 = i := by omega
    have h2 : ¬ s.stack.count - 1 = i := by omega
    simp only [h1, h2, if_false]
  · show s.stack.pop.1.pop.1.count + 2 = s.stack.count
    rw [hp2]; dsimp only; omega

/-- a table `{10: 30, 11: 10, 12: 20, 13: 10}` at address 1 -/
def demoHeap : Heap :=
  { objs := [(1, .table 8 [(.int 10, .int 30), (.int 11, .int 10), (.int 12, .int 20), (.int 13, .int 10)])],
    next := 2 }

/-- the table below a key function: the argument layout of `__min`, `__max`, `__sort` -/
def demo2 : VmState :=
  { VmState.fresh { stackSize := 16 } with
    stack := ⟨2, [.obj 1, .nil] ++ List.replicate 14 .nil⟩, heap := demoHeap }
/-- the table on top: the argument layout of `__to_array` -/
def demo1 : VmState :=
  { VmState.fresh { stackSize := 16 } with
    stack := ⟨1, [.obj 1] ++ List.replicate 15 .nil⟩, heap := demoHeap }

def rowIs (s : VmState) (row : Nat) (k v : Val) : Bool :=
  match s.heap.get row with
  | some (.table _ [(.obj a, k'), (.obj b, v')]) =>
    k' == k && v' == v &&
    (match s.heap.get a, s.heap.get b with
     | some (.str x), some (.str y) => x == "key".toUTF8.toList && y == "value".toUTF8.toList
     | _, _ => false)
  | _ => false

def entriesAre (s : VmState) (a : Nat) (es : List (Val × Val)) : Bool :=
  match s.heap.get a with
  | some (.table _ es') => es' == es
  | _ => false

/-- the hypotheses of the four specifications hold on the demo machines -/
example : FreshNext demo2.heap ∧ demo2.stack.peekLast 1 = .obj 1 ∧
    (∃ cap es, demo2.heap.get 1 = some (.table cap es) ∧
      (∀ e ∈ es, FlatKey demo2.heap e.1) ∧ (es.map (fun e => ownD demo2.heap e.1)).Nodup) ∧
    PureCallback (idealCallback fun _ v => v) (demo2.stack.peekLast 0) (fun _ v => v) := by
  refine ⟨by unfold FreshNext; decide, by decide, ⟨8, _, rfl, ?_, ?_⟩, pureCallback_ideal _ _⟩
  · intro e he b hb
    simp only [List.mem_cons, List.not_mem_nil, or_false] at he
    rcases he with rfl | rfl | rfl | rfl <;> cases hb
  · simp only [List.map_cons, List.map_nil, ownD_int]
    decide

/-- `__min` picks the FIRST of the two entries with the smallest value (`11 ↦ 10`, not `13 ↦ 10`),
    and the input is unchanged -/
example : (match (callNativeBody (idealCallback fun _ v => v) "__min").go demo2 with
    | (.ok (.obj 2), s') => rowIs s' 2 (.int 11) (.int 10) &&
        entriesAre s' 1 [(.int 10, .int 30), (.int 11, .int 10), (.int 12, .int 20), (.int 13, .int 10)]
    | _ => false) = true := by decide +kernel
example : (match (callNativeBody (idealCallback fun _ v => v) "__max").go demo2 with
    | (.ok (.obj 2), s') => rowIs s' 2 (.int 10) (.int 30)
    | _ => false) = true := by decide +kernel
example : (match (callNativeBody (idealCallback fun _ v => v) "__to_array").go demo1 with
    | (.ok (.obj 2), s') =>
        entriesAre s' 2 [(.int 0, .int 30), (.int 1, .int 10), (.int 2, .int 20), (.int 3, .int 10)]
    | _ => false) = true := by decide +kernel
/- `List.mergeSort` is defined by well-founded recursion and does not reduce in the kernel, so
   the run of `__sort` is checked by evaluation at build time instead (stable: `11` before `13`) -/
#guard (match (callNativeBody (idealCallback fun _ v => v) "__sort").go demo2 with
    | (.ok (.obj 2), s') =>
        entriesAre s' 2 [(.int 11, .int 10), (.int 13, .int 10), (.int 12, .int 20), (.int 10, .int 30)]
    | _ => false)

/-- a table with STRING keys `{"a": 30, "b": 10}`, on a machine that already holds guards on the
    key strings (one of them twice): `guardRows` / `unguardRows` add and release further
    occurrences of the same addresses -/
def demoHeapS : Heap :=
  { objs := [(1, .table 8 [(.obj 2, .int 30), (.obj 3, .int 10)]), (2, .str [97]), (3, .str [98])],
    next := 4 }
def demo3 : VmState :=
  { VmState.fresh { stackSize := 16 } with
    stack := ⟨2, [.obj 1, .nil] ++ List.replicate 14 .nil⟩, heap := demoHeapS, guards := [3, 2, 3] }

/-- the guards of the copied rows: last row first; releasing them gives back EXACTLY the list
    before (not only a permutation), also when the same addresses occur in it -/
example : rowGuards [(.obj 5, .obj 6), (.int 1, .obj 7)] = [7, 6, 5] := by decide
example : unrow [(.obj 5, .obj 5), (.int 1, .obj 7)]
    (rowGuards [(.obj 5, .obj 5), (.int 1, .obj 7)] ++ [7, 5, 9]) = [7, 5, 9] := by decide
example : (match (callNativeBody (idealCallback fun _ v => v) "__min").go demo3 with
    | (.ok (.obj 4), s') => rowIs s' 4 (.obj 3) (.int 10) && s'.guards == [3, 2, 3]
    | _ => false) = true := by decide +kernel
#guard (match (callNativeBody (idealCallback fun _ v => v) "__sort").go demo3 with
    | (.ok (.obj 4), s') =>
        entriesAre s' 4 [(.obj 3, .int 10), (.obj 2, .int 30)] && s'.guards == [3, 2, 3]
    | _ => false)

/-! ## (b′), (c′) callbacks that allocate

`GcCallback` (`Lemmas/NativeLemmas.lean`) lets the callback allocate and collect: everything
reachable from the roots it leaves behind is unchanged, the rest of the heap is arbitrary. The
keys `φ k v` must then be values whose deep value cannot change under the native's feet
(`StableKey`: scalars, or reachable non-table objects — e.g. the table's own values, as with
`row_to_value`); the new objects are no longer at `s.heap.next` but at some later address. -/

/-- a scalar, or an allocated non-table object that is reachable from the roots of `s` -/
def StableKey (s : VmState) (v : Val) : Prop :=
  ∀ b, v = .obj b → Reach s.heap (rootAddrs s) b ∧
    ∃ o, s.heap.get b = some o ∧ ∀ cap es, o ≠ .table cap es

theorem ownD_stable {s t : VmState} (hG : Grown s t) {v : Val} (h : StableKey s v) :
    ownD t.heap v = ownD s.heap v := by
  apply ownD_congr_flat
  · intro b hb cap' es' hc
    obtain ⟨-, o, ho, hno⟩ := h b hb
    rw [ho] at hc
    exact hno cap' es' (Option.some.inj hc)
  · intro b hb
    obtain ⟨hr, o, ho, -⟩ := h b hb
    rw [hG.keep b o hr ho, ho]

theorem better_stable (isMin : Bool) {s t : VmState} (hG : Grown s t) {x y : Val}
    (hx : StableKey s x) (hy : StableKey s y) :
    better isMin t.heap x y = better isMin s.heap x y := by
  unfold better; rw [ownD_stable hG hx, ownD_stable hG hy]

theorem get_none_of_ge {h : Heap} (hf : FreshNext h) {a : Nat} (ha : h.next ≤ a) : h.get a = none := by
  cases hg : h.get a with
  | none => rfl
  | some o => exact absurd (get_lt_next hf hg) (by omega)

theorem mergeSort_congr {α : Type} {l : List α} {r r' : α → α → Bool}
    (h : ∀ a ∈ l, ∀ b ∈ l, r a b = r' a b) : l.mergeSort r = l.mergeSort r' := by
  have := List.map_mergeSort (f := id) (r := r) (s := r') (l := l) (by simpa using h)
  simpa using this

/-- `__min` / `__max` with an allocating callback -/
theorem minmaxCore_spec_gc (isMin : Bool) {re : Reenter} {φ : Val → Val → Val} {s s' : VmState}
    {r keyFn : Val} {a cap : Nat} {e₀ : Val × Val} {rest : List (Val × Val)}
    (hf : FreshNext s.heap) (hkf : s.stack.peekLast 0 = keyFn) (hit : s.stack.peekLast 1 = .obj a)
    (ha : s.heap.get a = some (.table cap (e₀ :: rest))) (hcb : GcCallback re keyFn φ)
    (hkeys : ∀ e ∈ e₀ :: rest, StableKey s (φ e.1 e.2))
    (hok : (minmaxCore isMin re).go s = (.ok r, s')) :
    let i := argBest (better isMin s.heap) (keysOf φ (e₀ :: rest))
    let e := (e₀ :: rest).getD i (.nil, .nil)
    ∃ row, s.heap.next ≤ row ∧
    i < (e₀ :: rest).length ∧ r = .obj row ∧ s.heap.get row = none ∧
    (∃ cap', s'.heap.get row =
      some (.table cap' [(.obj (row + 1), e.1), (.obj (row + 2), e.2)])) ∧
    s'.heap.get (row + 1) = some (.str "key".toUTF8.toList) ∧
    s'.heap.get (row + 2) = some (.str "value".toUTF8.toList) ∧
    s'.heap.get a = some (.table cap (e₀ :: rest)) ∧ Grown s s' ∧ s'.guards = s.guards := by
  intro i e
  obtain ⟨k0, v0⟩ := e₀
  unfold minmaxCore at hok
  rw [go_bind_ok (go_get s), go_bind_ok (go_peek 0 s), go_bind_ok (go_peek 1 s), hit, hkf] at hok
  simp only [isTable_of_get ha] at hok
  rw [go_callKV_bind] at hok
  obtain ⟨best, t0, hcall, hok⟩ := ok_bind hok
  rw [go_bind_ok (go_guardVal best t0)] at hok
  obtain ⟨st, t1, hloop, hok⟩ := ok_bind hok
  obtain ⟨hbest, G0, hgu0, -, -⟩ := (Grown.refl s hf).callKV hcb hcall
  -- the scan
  have hI := forIn_inv' rest
    (fun i st t => st = scan (better isMin s.heap) ((keysOf φ rest).take i) (φ k0 v0, 0, 1) ∧
      Grown s t ∧ t.guards = guardOf st.1 ++ s.guards ∧ StableKey s st.1)
    (scanStep isMin re keyFn) (b := (best, 0, 1)) (s := { t0 with guards := guardOf best ++ t0.guards }) ?_
    ⟨by rw [hbest]; rfl, G0.setGuards _ (fun g hg => List.mem_append_right _ (G0.guards g hg)),
      by show guardOf best ++ t0.guards = _; rw [hgu0],
      by rw [hbest]; exact hkeys (k0, v0) List.mem_cons_self⟩ hloop
  · obtain ⟨hst, G1, hgu1, -⟩ := hI
    have hlen : (keysOf φ rest).length = rest.length := by simp [keysOf]
    rw [← hlen, List.take_length] at hst
    have hi : st.2.1 = i := by rw [hst]; rfl
    obtain ⟨bk, hbk, -⟩ := argBest_spec (better isMin s.heap) (φ k0 v0) (keysOf φ rest)
    have hilt : i < ((k0, v0) :: rest).length := by
      have : i < (keysOf φ ((k0, v0) :: rest)).length := by
        rcases Nat.lt_or_ge i (keysOf φ ((k0, v0) :: rest)).length with h | h
        · exact h
        · have hbk' : (keysOf φ ((k0, v0) :: rest))[i]? = some bk := hbk
          rw [List.getElem?_eq_none h] at hbk'; cases hbk'
      simpa [keysOf] using this
    rw [hi] at hok
    obtain ⟨hr, -, hle, G2, hgu2, hrow, hks, hvs⟩ := mkRow_ok G1
      (fun g hg => by rw [hgu1, unguard_guardOf]; exact hg) hok
    refine ⟨t1.heap.next, hle, hilt, hr, get_none_of_ge hf hle, hrow, hks, hvs,
      G2.keep a _ (reach_peek hit) ha, G2, ?_⟩
    rw [hgu2, hgu1, unguard_guardOf]
  · intro j x st t r' t' hx ⟨hst, G, hgu, hsk⟩ hstep
    unfold scanStep at hstep
    rw [go_callKV_bind] at hstep
    obtain ⟨key, t₁, hcall', hstep⟩ := ok_bind hstep
    obtain ⟨hkey, hG', hgu', -, -⟩ := G.callKV hcb hcall'
    rw [go_bind_ok (go_get t₁)] at hstep
    have hxm : x ∈ (k0, v0) :: rest := List.mem_cons_of_mem _ (List.mem_of_getElem? hx)
    have hkst : StableKey s key := by rw [hkey]; exact hkeys x hxm
    have hk : (keysOf φ rest)[j]? = some key := by
      rw [hkey]; simp [keysOf, hx]
    have htake : (keysOf φ rest).take (j + 1) = (keysOf φ rest).take j ++ [key] := by
      rw [List.take_add_one, hk]; rfl
    dsimp only at hstep
    rw [better_stable isMin hG' hkst hsk] at hstep
    by_cases hb : better isMin s.heap key st.1 = true
    · rw [if_pos hb, go_bind_ok (go_unguardVal st.1 t₁), go_bind_ok (go_guardVal key _)] at hstep
      simp only [go_pure, Prod.mk.injEq, Except.ok.injEq] at hstep
      have hgu1 : unguard st.1 t₁.guards = s.guards := by rw [hgu', hgu, unguard_guardOf]
      refine ⟨_, hstep.1.symm, ?_, ?_, ?_, hkst⟩
      · rw [htake, scan_snoc, ← hst, if_pos hb]
      · rw [← hstep.2]
        exact (hG'.setGuards _ (fun g hg => by
          show g ∈ guardOf key ++ unguard st.1 t₁.guards
          rw [hgu1]; exact List.mem_append_right _ hg))
      · rw [← hstep.2]
        show guardOf key ++ unguard st.1 t₁.guards = guardOf key ++ s.guards
        rw [hgu1]
    · rw [if_neg hb] at hstep
      simp only [go_pure, Prod.mk.injEq, Except.ok.injEq] at hstep
      refine ⟨_, hstep.1.symm, ?_, hstep.2 ▸ hG', hstep.2 ▸ (hgu'.trans hgu), hsk⟩
      rw [htake, scan_snoc, ← hst, if_neg hb]

theorem StableKey.grown {s t : VmState} (hG : Grown s t) {v : Val} (h : StableKey s v) :
    StableKey t v := fun b hb => by
  obtain ⟨hr, o, ho, hno⟩ := h b hb
  exact ⟨hG.reach hr, o, hG.keep b o hr ho, hno⟩

/-- `__min` / `__max` with an allocating callback (`minmaxCore_spec_gc` between `guardRows` and
    `unguardRows`) -/
theorem minmaxBody_spec_gc (isMin : Bool) {re : Reenter} {φ : Val → Val → Val} {s s' : VmState}
    {r keyFn : Val} {a cap : Nat} {e₀ : Val × Val} {rest : List (Val × Val)}
    (hf : FreshNext s.heap) (hkf : s.stack.peekLast 0 = keyFn) (hit : s.stack.peekLast 1 = .obj a)
    (ha : s.heap.get a = some (.table cap (e₀ :: rest))) (hcb : GcCallback re keyFn φ)
    (hkeys : ∀ e ∈ e₀ :: rest, StableKey s (φ e.1 e.2))
    (hok : (minmaxBody isMin re).go s = (.ok r, s')) :
    let i := argBest (better isMin s.heap) (keysOf φ (e₀ :: rest))
    let e := (e₀ :: rest).getD i (.nil, .nil)
    ∃ row, s.heap.next ≤ row ∧
    i < (e₀ :: rest).length ∧ r = .obj row ∧ s.heap.get row = none ∧
    (∃ cap', s'.heap.get row =
      some (.table cap' [(.obj (row + 1), e.1), (.obj (row + 2), e.2)])) ∧
    s'.heap.get (row + 1) = some (.str "key".toUTF8.toList) ∧
    s'.heap.get (row + 2) = some (.str "value".toUTF8.toList) ∧
    s'.heap.get a = some (.table cap (e₀ :: rest)) ∧ Grown s s' ∧ s'.guards = s.guards := by
  intro i e
  obtain ⟨s₁, hcore, rfl⟩ := minmaxBody_ok hit ha hok
  obtain ⟨row, h0, h1, h2, h3, h4, h5, h6, h7, hG, hgu⟩ :=
    minmaxCore_spec_gc isMin (s := { s with guards := rowGuards (e₀ :: rest) ++ s.guards }) hf hkf hit ha hcb
      (fun e he => (hkeys e he).grown (Grown.rows s hf _)) hcore
  obtain ⟨hG', hgu'⟩ := Grown.unrow hf hG hgu
  exact ⟨row, h0, h1, h2, h3, h4, h5, h6, h7, hG', hgu'⟩

/-- `RowResult` with the new row at an address `row ≥ s.heap.next` -/
structure RowResultAt (s s' : VmState) (r : Val) (e : Val × Val) (row : Nat) : Prop where
  ge : s.heap.next ≤ row
  val : r = .obj row
  new : s.heap.get row = none
  table : ∃ cap', s'.heap.get row = some (.table cap' [(.obj (row + 1), e.1), (.obj (row + 2), e.2)])
  key : s'.heap.get (row + 1) = some (.str "key".toUTF8.toList)
  value : s'.heap.get (row + 2) = some (.str "value".toUTF8.toList)
  grown : Grown s s'
  guards : s'.guards = s.guards

/-- **`__min` with an allocating callback**: `min_spec` with `GcCallback` instead of
    `PureCallback`, for keys that are scalars or reachable non-table objects -/
theorem min_spec_gc (re : Reenter) {φ : Val → Val → Val} {s s' : VmState} {r keyFn : Val}
    {a cap : Nat} {e₀ : Val × Val} {rest : List (Val × Val)}
    (hf : FreshNext s.heap) (hkf : s.stack.peekLast 0 = keyFn) (hit : s.stack.peekLast 1 = .obj a)
    (ha : s.heap.get a = some (.table cap (e₀ :: rest))) (hcb : GcCallback re keyFn φ)
    (hkeys : ∀ e ∈ e₀ :: rest, StableKey s (φ e.1 e.2))
    (hok : (callNativeBody re "__min").go s = (.ok r, s')) :
    ∃ (i : Nat) (e : Val × Val) (row : Nat), (e₀ :: rest)[i]? = some e ∧ RowResultAt s s' r e row ∧
      s'.heap.get a = some (.table cap (e₀ :: rest)) ∧
      (∀ (m : Nat) (e' : Val × Val), i < m → (e₀ :: rest)[m]? = some e' → keyLt s.heap (φ e'.1 e'.2) (φ e.1 e.2) = false) ∧
      (SWO (keyLt s.heap) (keysOf φ (e₀ :: rest)) →
        (∀ (m : Nat) (e' : Val × Val), (e₀ :: rest)[m]? = some e' → keyLt s.heap (φ e'.1 e'.2) (φ e.1 e.2) = false) ∧
        (∀ (m : Nat) (e' : Val × Val), m < i → (e₀ :: rest)[m]? = some e' → keyLt s.heap (φ e.1 e.2) (φ e'.1 e'.2) = true)) := by
  rw [callNativeBody_min] at hok
  obtain ⟨row, hge, -, hr, hnew, hrow, hks, hvs, hin, hG, hgu⟩ :=
    minmaxBody_spec_gc true hf hkf hit ha hcb hkeys hok
  obtain ⟨e, he, hget, hlater, hswo⟩ := argBest_entries (better true s.heap) φ e₀ rest
  rw [hget] at hrow
  exact ⟨_, e, row, he, ⟨hge, hr, hnew, hrow, hks, hvs, hG, hgu⟩, hin, hlater, hswo⟩

/-- **`__max` with an allocating callback** -/
theorem max_spec_gc (re : Reenter) {φ : Val → Val → Val} {s s' : VmState} {r keyFn : Val}
    {a cap : Nat} {e₀ : Val × Val} {rest : List (Val × Val)}
    (hf : FreshNext s.heap) (hkf : s.stack.peekLast 0 = keyFn) (hit : s.stack.peekLast 1 = .obj a)
    (ha : s.heap.get a = some (.table cap (e₀ :: rest))) (hcb : GcCallback re keyFn φ)
    (hkeys : ∀ e ∈ e₀ :: rest, StableKey s (φ e.1 e.2))
    (hok : (callNativeBody re "__max").go s = (.ok r, s')) :
    ∃ (i : Nat) (e : Val × Val) (row : Nat), (e₀ :: rest)[i]? = some e ∧ RowResultAt s s' r e row ∧
      s'.heap.get a = some (.table cap (e₀ :: rest)) ∧
      (∀ (m : Nat) (e' : Val × Val), i < m → (e₀ :: rest)[m]? = some e' → keyLt s.heap (φ e.1 e.2) (φ e'.1 e'.2) = false) ∧
      (SWO (keyLt s.heap) (keysOf φ (e₀ :: rest)) →
        (∀ (m : Nat) (e' : Val × Val), (e₀ :: rest)[m]? = some e' → keyLt s.heap (φ e.1 e.2) (φ e'.1 e'.2) = false) ∧
        (∀ (m : Nat) (e' : Val × Val), m < i → (e₀ :: rest)[m]? = some e' → keyLt s.heap (φ e'.1 e'.2) (φ e.1 e.2) = true)) := by
  rw [callNativeBody_max] at hok
  obtain ⟨row, hge, -, hr, hnew, hrow, hks, hvs, hin, hG, hgu⟩ :=
    minmaxBody_spec_gc false hf hkf hit ha hcb hkeys hok
  obtain ⟨e, he, hget, hlater, hswo⟩ := argBest_entries (better false s.heap) φ e₀ rest
  rw [hget] at hrow
  exact ⟨_, e, row, he, ⟨hge, hr, hnew, hrow, hks, hvs, hG, hgu⟩, hin, hlater, fun h => hswo h.flip⟩

/-- **`__sort` with an allocating callback**: the output table is at some address
    `out ≥ s.heap.next`; otherwise as `sort_spec` -/
theorem sortCore_spec_gc (re : Reenter) {φ : Val → Val → Val} {s s' : VmState} {r keyFn : Val}
    {a cap : Nat} {es : List (Val × Val)}
    (hf : FreshNext s.heap) (hkf : s.stack.peekLast 0 = keyFn) (hit : s.stack.peekLast 1 = .obj a)
    (ha : s.heap.get a = some (.table cap es)) (hcb : GcCallback re keyFn φ)
    (hkeys : ∀ e ∈ es, StableKey s (φ e.1 e.2))
    (hflat : ∀ e ∈ es, FlatKey s.heap e.1) (hdist : (es.map (fun e => ownD s.heap e.1)).Nodup)
    (hok : (sortCore re).go s = (.ok r, s')) :
    ∃ out, s.heap.next ≤ out ∧ r = .obj out ∧ s.heap.get out = none ∧
    (∃ cap', s'.heap.get out = some (.table cap' (sortedEntries φ s.heap es))) ∧
    s'.heap.get a = some (.table cap es) ∧ Grown s s' ∧ s'.guards = s.guards := by
  unfold sortCore at hok
  rw [go_bind_ok (go_get s), go_bind_ok (go_peek 0 s), go_bind_ok (go_peek 1 s), hit, hkf] at hok
  simp only [isTable_of_get ha] at hok
  obtain ⟨kd, t1, hloop1, hok⟩ := ok_bind hok
  rw [go_bind_ok (go_get t1)] at hok
  have hra : Reach s.heap (rootAddrs s) a := reach_peek hit
  have h1 := forIn_inv' es
    (fun i kd t => kd = keyed φ (es.take i) ∧ Grown s t ∧
      t.guards = (keysOf φ (es.take i)).reverse.flatMap guardOf ++ s.guards)
    (sortKeyStep re keyFn) (b := []) (s := s) ?_ ⟨rfl, Grown.refl s hf, rfl⟩ hloop1
  rotate_left
  · intro i x kd t r' t' hx ⟨hkd, hG, hgu⟩ hstep
    unfold sortKeyStep at hstep
    rw [callKV_bind_eq] at hstep
    obtain ⟨key, t₁, hcall, hstep⟩ := ok_bind hstep
    obtain ⟨hkey, hG', hgu', -, -⟩ := hG.callKV hcb hcall
    rw [go_bind_ok (go_modify _ t₁), go_pure] at hstep
    simp only [Prod.mk.injEq, Except.ok.injEq] at hstep
    have htake : es.take (i + 1) = es.take i ++ [x] := by rw [List.take_add_one, hx]; rfl
    refine ⟨_, hstep.1.symm, ?_, ?_, ?_⟩
    · rw [hkd, htake, hkey]; simp [keyed]
    · rw [← hstep.2]
      exact hG'.setGuards _ (fun g hg => List.mem_append_right _ (hG'.guards g hg))
    · rw [← hstep.2]
      show guardOf key ++ t₁.guards = _
      rw [hgu', hgu, htake, hkey]
      simp [keysOf]
  rw [List.take_length] at h1
  obtain ⟨hkd, G1, hgu1⟩ := h1
  have hsort : kd.mergeSort (sortLe t1.heap) = kd.mergeSort (sortLe s.heap) := by
    apply mergeSort_congr
    intro x hx y hy
    have hst : ∀ z ∈ kd, StableKey s z.1 := by
      intro z hz
      rw [hkd] at hz
      obtain ⟨e, he, rfl⟩ := List.mem_map.mp hz
      exact hkeys e he
    unfold sortLe
    rw [ownD_stable G1 (hst x hx), ownD_stable G1 (hst y hy)]
  obtain ⟨hr, -, hle, hout, hin, hG, hgu⟩ := sort_tail hra ha hflat hdist hkd G1 hgu1 hsort hok
  exact ⟨t1.heap.next, hle, hr, get_none_of_ge hf hle, hout, hin, hG, hgu⟩

/-- **`__sort` with an allocating callback** (`sortCore_spec_gc` between `guardRows` and
    `unguardRows`): the output table is at some address `out ≥ s.heap.next`; otherwise as `sort_spec` -/
theorem sort_spec_gc (re : Reenter) {φ : Val → Val → Val} {s s' : VmState} {r keyFn : Val}
    {a cap : Nat} {es : List (Val × Val)}
    (hf : FreshNext s.heap) (hkf : s.stack.peekLast 0 = keyFn) (hit : s.stack.peekLast 1 = .obj a)
    (ha : s.heap.get a = some (.table cap es)) (hcb : GcCallback re keyFn φ)
    (hkeys : ∀ e ∈ es, StableKey s (φ e.1 e.2))
    (hflat : ∀ e ∈ es, FlatKey s.heap e.1) (hdist : (es.map (fun e => ownD s.heap e.1)).Nodup)
    (hok : (callNativeBody re "__sort").go s = (.ok r, s')) :
    ∃ out, s.heap.next ≤ out ∧ r = .obj out ∧ s.heap.get out = none ∧
    (∃ cap', s'.heap.get out = some (.table cap' (sortedEntries φ s.heap es))) ∧
    s'.heap.get a = some (.table cap es) ∧ Grown s s' ∧ s'.guards = s.guards := by
  rw [callNativeBody_sort] at hok
  obtain ⟨s₁, hcore, rfl⟩ := sortBody_ok hit ha hok
  obtain ⟨out, h0, h1, h2, h3, h4, hG, hgu⟩ :=
    sortCore_spec_gc re (s := { s with guards := rowGuards es ++ s.guards }) hf hkf hit ha hcb
      (fun e he => (hkeys e he).grown (Grown.rows s hf _)) hflat hdist hcore
  obtain ⟨hG', hgu'⟩ := Grown.unrow hf hG hgu
  exact ⟨out, h0, h1, h2, h3, h4, hG', hgu'⟩

/-- non-vacuity: a callback that allocates (and immediately abandons) a string on every call -/
def garbageCallback (φ : Val → Val → Val) : Reenter := fun _ => do
  let k ← pop
  let v ← pop
  let a ← initString []
  dropGuard a
  pure (φ k v)

theorem pop_pop_facts (st : VStack Val) (hc : 2 ≤ st.count) :
    st.pop.2 = st.peekLast 0 ∧ st.pop.1.pop.2 = st.peekLast 1 ∧ Prefix st.pop.1.pop.1 st ∧
    st.pop.1.pop.1.count + 2 = st.count := by
  have hc0 : ¬ st.count = 0 := by omega
  have hc1 : ¬ st.count - 1 = 0 := by omega
  have hp1 : st.pop = (⟨st.count - 1, st.data.set (st.count - 1) default⟩,
      st.data.getD (st.count - 1) default) := by
    unfold VStack.pop; rw [if_neg hc0]
  have hp2 : st.pop.1.pop = (⟨st.count - 1 - 1,
      (st.data.set (st.count - 1) default).set (st.count - 1 - 1) default⟩,
      (st.data.set (st.count - 1) default).getD (st.count - 1 - 1) default) := by
    rw [hp1]; unfold VStack.pop; dsimp only; rw [if_neg hc1]
  refine ⟨?_, ?_, ?_, ?_⟩
  · rw [hp1]; unfold VStack.peekLast; rw [if_pos (by omega)]; rfl
  · rw [hp2]
    dsimp only
    unfold VStack.peekLast
    rw [if_pos (by omega)]
    rw [List.getD_eq_getElem?_getD, List.getD_eq_getElem?_getD, List.getElem?_set]
    have : ¬ st.count - 1 = st.count - 1 - 1 := by omega
    simp only [this, if_false]
  · rw [hp2]
    refine ⟨by dsimp only; omega, by simp, fun i hi => ?_⟩
    dsimp only at hi ⊢
    rw [List.getElem?_set, List.getElem?_set]
    have h1 : ¬ st.count - 1 - 1 = i := by omega
    have h2 : ¬ st.count - 1 = i := by omega
    simp only [h1, h2, if_false]
  · rw [hp2]; dsimp only; omega

theorem gcCallback_garbage (φ : Val → Val → Val) (f : Val) : GcCallback (garbageCallback φ) f φ := by
  constructor
  intro s r s' hc hl hf hok
  obtain ⟨hk, hv, hpre, hcnt⟩ := pop_pop_facts s.stack hc
  unfold garbageCallback at hok
  rw [go_bind_ok (go_pop s), go_bind_ok (go_pop _)] at hok
  obtain ⟨a, t, hinit, hok⟩ := ok_bind hok
  rw [go_bind_ok (go_dropGuard a t), go_pure] at hok
  simp only [Prod.mk.injEq, Except.ok.injEq] at hok
  obtain ⟨hr, hs'⟩ := hok
  obtain ⟨s₂, q, ha, ht⟩ := initString_ok hinit
  subst ht
  subst hs'
  have hf2 : FreshNext s₂.heap := q.fresh hf
  have hgu : (Gc.withObject (.str []) s₂).guards.erase a = s.guards := by
    show (s₂.heap.next :: s₂.guards).erase a = _
    rw [ha, ← q.obs.next, List.erase_cons_head, q.obs.guards]
  refine ⟨?_, ?_, ?_, hgu, q.obs.frames, q.obs.globals, q.obs.openUpvalues, ?_, ?_,
    withObject_fresh _ _ hf2⟩
  · rw [← hr, hk, hv]
  · show Prefix s₂.stack s.stack
    rw [q.obs.stack]; exact hpre
  · show s₂.stack.count + 2 = s.stack.count
    rw [q.obs.stack]; exact hcnt
  · intro b o hb ho
    have hroots : rootAddrs ({ Gc.withObject (.str []) s₂ with
        guards := (Gc.withObject (.str []) s₂).guards.erase a } : VmState) =
        rootAddrs ({ s with stack := s.stack.pop.1.pop.1 } : VmState) :=
      rootAddrs_congr (by show s₂.stack.contents = _; rw [q.obs.stack]) q.obs.globals q.obs.frames
        q.obs.openUpvalues hgu
    rw [hroots] at hb
    have h2 : s₂.heap.get b = some o := by rw [q.get hb]; exact ho
    show (Gc.withObject (.str []) s₂).heap.get b = some o
    rw [get_withObject_old _ _ _ (Nat.ne_of_lt (get_lt_next hf2 h2))]; exact h2
  · show s.heap.next ≤ s₂.heap.next + 1
    rw [q.obs.next]; exact Nat.le_succ _

/-- a run with a collection forced at EVERY allocation and a callback that allocates garbage:
    the first minimum is still found, the row is built at a later address, the input survives -/
example : (match (callNativeBody (garbageCallback fun _ v => v) "__min").go
      { demo2 with sched := .every } with
    | (.ok (.obj row), s') => decide (2 ≤ row) && rowIs s' row (.int 11) (.int 10) &&
        entriesAre s' 1 [(.int 10, .int 30), (.int 11, .int 10), (.int 12, .int 20), (.int 13, .int 10)]
    | _ => false) = true := by decide +kernel

/-! ## (d) the card-level wrappers of the generated standard library, pinned -/

def stdFn (name : String) : Option Func := (Gen.stdlib.functions.find? (fun p => p.1 == name)).map (·.2)
def fnToks (name : String) : Option (List String × List String) :=
  (stdFn name).map (fun f => (f.arguments, f.cards.map Card.toTok))

/-- which native each wrapper calls, with which arguments in which order -/
example : (stdFn "to_array").map (fun f => (f.arguments, f.cards.length)) = some (["iterable"], 1) := by decide
example : ∃ f, stdFn "to_array" = some f ∧
    f.cards = [.un .ret (.callNative "__to_array" [.readVar "iterable"])] := ⟨_, rfl, rfl⟩
example : ∃ f, stdFn "min_by_key" = some f ∧ f.arguments = ["iterable", "key_function"] ∧
    f.cards = [.un .ret (.callNative "__min" [.readVar "iterable", .readVar "key_function"])] :=
  ⟨_, rfl, rfl, rfl⟩
example : ∃ f, stdFn "max_by_key" = some f ∧ f.arguments = ["iterable", "key_function"] ∧
    f.cards = [.un .ret (.callNative "__max" [.readVar "iterable", .readVar "key_function"])] :=
  ⟨_, rfl, rfl, rfl⟩
example : ∃ f, stdFn "sorted_by_key" = some f ∧ f.arguments = ["iterable", "key_function"] ∧
    f.cards = [.un .ret (.callNative "__sort" [.readVar "iterable", .readVar "key_function"])] :=
  ⟨_, rfl, rfl, rfl⟩
/-- `min`, `max`, `sorted` are the `_by_key` variants with `row_to_value` (call arguments bind in
    reverse declaration order: the first supplied argument is the key function) -/
example : ∃ f, stdFn "min" = some f ∧ f.arguments = ["iterable"] ∧
    f.cards = [.un .ret (.call "min_by_key" [.function "row_to_value", .readVar "iterable"])] :=
  ⟨_, rfl, rfl, rfl⟩
example : ∃ f, stdFn "max" = some f ∧ f.arguments = ["iterable"] ∧
    f.cards = [.un .ret (.call "max_by_key" [.function "row_to_value", .readVar "iterable"])] :=
  ⟨_, rfl, rfl, rfl⟩
example : ∃ f, stdFn "sorted" = some f ∧ f.arguments = ["iterable"] ∧
    f.cards = [.un .ret (.call "sorted_by_key" [.function "row_to_value", .readVar "iterable"])] :=
  ⟨_, rfl, rfl, rfl⟩
/-- `row_to_value(_key, val) = val`: the key function of `min`/`max`/`sorted` is `φ k v = v` -/
example : ∃ f, stdFn "row_to_value" = some f ∧ f.arguments = ["_key", "val"] ∧
    f.cards = [.un .ret (.readVar "val")] := ⟨_, rfl, rfl, rfl⟩
/-- `filter`, `any`, `map` are loops in card code: `for (i, k, v) in iterable` calling
    `callback(k, v, i)` (supplied in the order `i, v, k`) -/
example : ∃ f, stdFn "filter" = some f ∧ f.arguments = ["iterable", "callback"] ∧ f.cards =
    [.setVar "res" .createTable,
     .forEach (some "i") (some "k") (some "v") (.readVar "iterable") (.composite "_"
       [.bin .ifTrue (.dynamicCall [.readVar "i", .readVar "v", .readVar "k"] (.readVar "callback"))
         (.tri .setProperty (.readVar "v") (.readVar "res") (.readVar "k"))]),
     .un .ret (.readVar "res")] := ⟨_, rfl, rfl, rfl⟩
example : ∃ f, stdFn "any" = some f ∧ f.arguments = ["iterable", "callback"] ∧ f.cards =
    [.setVar "res" .createTable,
     .forEach (some "i") (some "k") (some "v") (.readVar "iterable") (.composite "_"
       [.bin .ifTrue (.dynamicCall [.readVar "i", .readVar "v", .readVar "k"] (.readVar "callback"))
         (.un .ret (.readVar "k"))]),
     .un .ret .scalarNil] := ⟨_, rfl, rfl, rfl⟩
example : ∃ f, stdFn "map" = some f ∧ f.arguments = ["iterable", "callback"] ∧ f.cards =
    [.setVar "res" .createTable,
     .forEach (some "i") (some "k") (some "v") (.readVar "iterable") (.composite "_"
       [.tri .setProperty (.composite ""
          [.dynamicCall [.readVar "i", .readVar "v", .readVar "k"] (.readVar "callback")])
          (.readVar "res") (.readVar "k")]),
     .un .ret (.readVar "res")] := ⟨_, rfl, rfl, rfl⟩
/-- nothing else is in the library -/
example : Gen.stdlib.functions.map (·.1) =
    ["to_array", "filter", "any", "map", "min", "max", "min_by_key", "max_by_key", "sorted_by_key",
     "sorted", "row_to_value"] := by decide

end Cao.C09
