import CaoProofs.Props.C01
import CaoProofs.Lemmas.SimLocals
/-!
# C01, continued: locals of `main` (`SetVar` / `ReadVar` of locals)

The value stack holds the locals at the bottom (slot `i` = local `i`, the frame of `main` has
`stackOffset = 0`) and the temporaries of the expression being evaluated above them.
-/
namespace Cao.C01
open Cao Cao.Vm Cao.Sim Cao.Compiler

/-- the scope of the reference semantics that corresponds to the locals `L`: cell `i` for local `i` -/
def scopeOf (L : LCtx) : List (String × Nat) := (L.map (·.1)).zipIdx

theorem find?_congr' {α : Type} {p q : α → Bool} : ∀ {l : List α}, (∀ x ∈ l, p x = q x) → l.find? p = l.find? q
  | [], _ => rfl
  | x :: l, h => by
    rw [List.find?_cons, List.find?_cons, h x (List.mem_cons_self ..),
      find?_congr' fun y hy => h y (List.mem_cons_of_mem _ hy)]

theorem lookup_zipIdx (names : List String) (n : String) :
    ((names.zipIdx.reverse.find? (fun p => p.1 == n)).map (·.2)) =
      (List.range names.length).reverse.find? (fun i => names.getD i "" == n) := by
  suffices h : ∀ (r : List String), ((r.reverse.zipIdx.reverse.find? (fun p => p.1 == n)).map (·.2)) =
      (List.range r.reverse.length).reverse.find? (fun i => r.reverse.getD i "" == n) by
    have := h names.reverse
    rwa [List.reverse_reverse] at this
  intro r
  induction r with
  | nil => rfl
  | cons a r ih =>
    rw [List.reverse_cons]
    generalize r.reverse = xs at ih ⊢
    rw [List.zipIdx_append, List.reverse_append, List.length_append, List.length_singleton, List.range_succ,
      List.reverse_append]
    simp only [List.zipIdx_singleton, List.reverse_singleton, List.singleton_append, List.find?_cons, Nat.zero_add]
    have ha : (xs ++ [a]).getD xs.length "" = a := by simp
    rw [ha]
    by_cases h : (a == n) = true
    · simp [h]
    · simp only [h]
      rw [ih]
      refine find?_congr' fun i hi => ?_
      simp only [List.mem_reverse, List.mem_range] at hi
      simp [List.getD_eq_getElem?_getD, List.getElem?_append_left hi]

theorem lookupEnv_scopeOf (L : LCtx) (n : String) : Sem.lookupEnv [scopeOf L] n = lidx L n := by
  unfold Sem.lookupEnv scopeOf lidx
  simp only [List.findSome?_cons, List.findSome?_nil]
  rw [lookup_zipIdx]
  have : (fun i => ((L.map (·.1)).getD i "" == n)) = fun i => ((L.getD i ("", 0)).1 == n) := by
    funext i
    simp only [List.getD_eq_getElem?_getD, List.getElem?_map]
    rcases L[i]? with _ | p <;> rfl
  rw [this, List.length_map]
  rcases List.find? (fun i => (L.getD i ("", 0)).1 == n) (List.range L.length).reverse with _ | i <;> rfl

/-- an environment whose only declarations are the locals `L` (in its outermost scope) -/
def EnvL (L : LCtx) (env : Sem.Env) : Prop := ∃ k, env = List.replicate k [] ++ [scopeOf L]

theorem envL_base (L : LCtx) : EnvL L [scopeOf L] := ⟨0, rfl⟩

theorem envL_cons {L : LCtx} {env : Sem.Env} (h : EnvL L env) : EnvL L ([] :: env) := by
  obtain ⟨k, rfl⟩ := h
  exact ⟨k + 1, rfl⟩

theorem lookupEnv_envL {L : LCtx} {env : Sem.Env} (h : EnvL L env) (n : String) :
    Sem.lookupEnv env n = lidx L n := by
  obtain ⟨k, rfl⟩ := h
  induction k with
  | zero => exact lookupEnv_scopeOf L n
  | succ k ih =>
    rw [List.replicate_succ, List.cons_append]
    unfold Sem.lookupEnv at ih ⊢
    rw [List.findSome?_cons]
    exact ih

/-- the innermost call frame is the one of `main` (stack offset 0) -/
def FrameOk (vs : VmState) : Prop := ∃ f, vs.frames.getLast? = some f ∧ f.stackOffset = 0

theorem SameRest.frameOk {a b : VmState} (h : SameRest a b) (hf : FrameOk a) : FrameOk b := by
  unfold SameRest at h
  unfold FrameOk
  rw [h]; exact hf

section instrL
variable {P : Prog}

theorem reach_readLocal {ip i : Nat} {vs : VmState} {cap : Nat} {stk : List Val}
    (hin : ip < P.bytecode.size) (hop : P.bytecode.getD ip 0 = Compiler.op.readLocalVar)
    (hi : rdU32 P.bytecode (ip + 1) = i) (hf : FrameOk vs)
    (hst : StackIs vs.stack cap stk) (hlt : i < stk.length) (hroom : stk.length + 1 < cap) :
    ∃ vs', Reach P 1 ip vs (ip + 5) vs' ∧ StackIs vs'.stack cap (stk.reverse.getD i .nil :: stk) ∧
      SameRest vs vs' ∧ vs'.globals = vs.globals := by
  obtain ⟨f, hf1, hf2⟩ := hf
  refine reach_push (P := P) (stk.reverse.getD i .nil) hin hst hroom fun re st' hp => ?_
  exact step_readLocalVar (s := tick vs) (f := f) hop hf1 (by
    rw [hf2, hi, Nat.zero_add]
    show vs.stack.push (vs.stack.get i) = _
    rw [hst.get hlt]; exact hp)

theorem reach_setLocal_old {ip i : Nat} {vs : VmState} {cap : Nat} {stk : List Val} {x : Val}
    (hin : ip < P.bytecode.size) (hop : P.bytecode.getD ip 0 = Compiler.op.setLocalVar)
    (hi : rdU32 P.bytecode (ip + 1) = i) (hf : FrameOk vs)
    (hst : StackIs vs.stack cap (x :: stk)) (hlt : i < stk.length) :
    ∃ vs', Reach P 1 ip vs (ip + 5) vs' ∧ StackIs vs'.stack cap ((stk.reverse.set i x).reverse) ∧
      SameRest vs vs' ∧ vs'.globals = vs.globals := by
  obtain ⟨f, hf1, hf2⟩ := hf
  obtain ⟨hv, hst1⟩ := hst.popW0
  obtain ⟨old, hset, hst2⟩ := hst1.setAt x hlt
  refine ⟨{ tick vs with stack := { (vs.stack.popWOffset 0).1 with data := (vs.stack.popWOffset 0).1.data.set i x } },
    Reach.one ⟨hin, rfl, fun re => ?_⟩, hst2, rfl, rfl⟩
  exact step_setLocalVar (s := tick vs) (f := f) (old := old) hop hf1 (by
    rw [hf2, hi, Nat.zero_add]
    show (vs.stack.popWOffset 0).1.set i (vs.stack.popWOffset 0).2 = _
    rw [hv]; exact hset)

theorem reach_setLocal_new {ip : Nat} {vs : VmState} {cap : Nat} {stk : List Val} {x : Val}
    (hin : ip < P.bytecode.size) (hop : P.bytecode.getD ip 0 = Compiler.op.setLocalVar)
    (hi : rdU32 P.bytecode (ip + 1) = stk.length) (hf : FrameOk vs)
    (hst : StackIs vs.stack cap (x :: stk)) (hroom : stk.length + 1 < cap) :
    ∃ vs', Reach P 1 ip vs (ip + 5) vs' ∧ StackIs vs'.stack cap (x :: stk) ∧
      SameRest vs vs' ∧ vs'.globals = vs.globals := by
  obtain ⟨f, hf1, hf2⟩ := hf
  obtain ⟨hv, hst1⟩ := hst.popW0
  obtain ⟨st', hset, hst2⟩ := hst1.setTop x hroom
  refine ⟨{ tick vs with stack := st' }, Reach.one ⟨hin, rfl, fun re => ?_⟩, hst2, rfl, rfl⟩
  exact step_setLocalVar (s := tick vs) (f := f) (old := default) hop hf1 (by
    rw [hf2, hi, Nat.zero_add]
    show (vs.stack.popWOffset 0).1.set stk.length (vs.stack.popWOffset 0).2 = _
    rw [hv]; exact hset)

theorem reach_pop {ip : Nat} {vs : VmState} {cap : Nat} {stk : List Val} {x : Val}
    (hin : ip < P.bytecode.size) (hop : P.bytecode.getD ip 0 = Compiler.op.pop)
    (hst : StackIs vs.stack cap (x :: stk)) :
    ∃ vs', Reach P 1 ip vs (ip + 1) vs' ∧ StackIs vs'.stack cap stk ∧ SameRest vs vs' ∧
      vs'.globals = vs.globals := by
  obtain ⟨_, hst1⟩ := hst.pop
  exact ⟨{ tick vs with stack := vs.stack.pop.1 }, Reach.one ⟨hin, rfl, fun _ => step_pop (s := tick vs) hop⟩,
    hst1, rfl, rfl⟩

end instrL

theorem readVar_scope {cx : Sem.Ctx} (hout : cx.outer = []) {n : String} (hn : simpleName n = true)
    {L : LCtx} {env : Sem.Env} (henv : EnvL L env) (s : Sem.St) :
    Sem.readVar cx env s n = (s, env, match lidx L n with
      | some c => .ok (s.cells[c]?.getD .nil)
      | none => match glookup s.globals n with
        | some x => .ok x
        | none => .unspecified "read of a global that was never written") := by
  simp only [simpleName, Bool.and_eq_true, decide_eq_true_eq, Bool.not_eq_true'] at hn
  obtain ⟨hsplit, hne⟩ := hn
  unfold Sem.readVar
  simp only [hsplit, List.filter_nil, hne, Bool.false_eq_true, if_false, hout, lookupEnv_envL henv, List.foldl_nil]
  rcases lidx L n with _ | c
  · simp only [Sem.lookupEnv, List.findSome?_nil]
    unfold glookup
    rcases hfind : List.find? (fun p => p.fst == n) s.globals with _ | ⟨a, b⟩ <;> simp only [hfind] <;> rfl
  · rfl

/-- the store of the reference semantics holds one cell per local, all scalar -/
structure LRel (L : LCtx) (σ : Sem.St) : Prop where
  size : σ.cells.size = L.length
  scalar : ∀ (i : Nat) (v : Val), σ.cells[i]? = some v → Scalar v
  gscalar : ∀ (n : String) (v : Val), glookup σ.globals n = some v → Scalar v

theorem ecodeL_lt {B : Array UInt8} {F : List (UInt32 × Nat)} {L : LCtx} :
    ∀ {e : Card} {pc pc' : Nat}, ECodeL B F L e pc pc' → pc < pc'
  | .scalarInt _, _, _, h => by simp only [ECodeL] at h; omega
  | .scalarFloat _, _, _, h => by simp only [ECodeL] at h; omega
  | .scalarNil, _, _, h => by simp only [ECodeL] at h; omega
  | .un .not c, _, _, h => by
    simp only [ECodeL] at h
    obtain ⟨m, h1, _, h3⟩ := h
    have := ecodeL_lt h1; omega
  | .bin k a b, _, _, h => by
    simp only [ECodeL] at h
    obtain ⟨m1, m2, h1, h2, _, h3⟩ := h
    have := ecodeL_lt h1; have := ecodeL_lt h2; omega
  | .readVar n, _, _, h => by
    simp only [ECodeL] at h
    rcases hli : lidx L n with _ | i <;> rw [hli] at h
    · obtain ⟨_, _, _, _, h⟩ := h; omega
    · obtain ⟨_, _, h⟩ := h; omega
  | .un .ret _, _, _, h | .un .len _, _, _, h | .un .popTable _, _, _, h | .tri _ _ _ _, _, _, h
  | .createTable, _, _, h | .abort, _, _, h | .stringLiteral _, _, _, h
  | .comment _, _, _, h | .function _, _, _, h | .nativeFunction _, _, _, h | .setVar _ _, _, _, h
  | .setGlobalVar _ _, _, _, h | .callNative _ _, _, _, h
  | .call _ _, _, _, h | .repeat _ _ _, _, _, h | .forEach _ _ _ _ _, _, _, h | .composite _ _, _, _, h
  | .dynamicCall _ _, _, _, h | .array _, _, _, h
  | .closure _ _, _, _, h => by simp [ECodeL] at h

section simL
variable {P : Prog} {F : List (UInt32 × Nat)} {N : String → Prop} {cx : Sem.Ctx} (hout : cx.outer = [])
include hout

theorem eval_simL (L : LCtx) (env : Sem.Env) (henv : EnvL L env) :
    ∀ (e : Card), isExpr e = true → ∀ (fuel : Nat) (σ σ' : Sem.St) (env' : Sem.Env) (v : Val) (pc pc' : Nat),
      Sem.eval cx fuel env σ e = (σ', env', .ok v) → ECodeL P.bytecode F L e pc pc' → pc' ≤ P.bytecode.size →
      σ' = σ ∧ env = env' ∧ ∃ n, n ≤ pc' - pc ∧
        ∀ (vs : VmState) (cap : Nat) (stk : List Val), StackIs vs.stack cap stk → stk.length + edepth e < cap →
          GRel F N σ.globals vs.globals → FrameOk vs → LRel L σ →
          (∃ temps, stk = temps ++ σ.cells.toList.reverse) →
          Scalar v ∧ ∃ vs', Reach P n pc vs pc' vs' ∧ StackIs vs'.stack cap (v :: stk) ∧ SameRest vs vs' ∧
            vs'.globals = vs.globals
  | .scalarInt i => by
    intro _ fuel σ σ' env' v pc pc' hev hcode hsz
    cases fuel with
    | zero => rw [eval_zero] at hev; cases hev
    | succ f =>
      rw [eval_scalarInt] at hev
      simp only [Prod.mk.injEq, Sem.Res.ok.injEq] at hev
      obtain ⟨rfl, rfl, rfl⟩ := hev
      simp only [ECodeL] at hcode
      obtain ⟨h1, h2, rfl⟩ := hcode
      refine ⟨rfl, rfl, 1, by omega, fun vs cap stk hst hroom _ _ _ _ => ?_⟩
      simp only [edepth] at hroom
      obtain ⟨vs', hr, hs', hsame, hg⟩ := reach_push (P := P) (ip := pc) (ip' := pc + 9) (.int i) (by omega) hst hroom
        (fun re st' hp => by
          have := step_scalarInt (re := re) h1 (s := tick vs) (st' := st')
            (by rw [h2, Int64.toInt64_toUInt64]; exact hp)
          exact this)
      exact ⟨trivial, vs', hr, hs', hsame, hg⟩
  | .scalarFloat b => by
    intro _ fuel σ σ' env' v pc pc' hev hcode hsz
    cases fuel with
    | zero => rw [eval_zero] at hev; cases hev
    | succ f =>
      rw [eval_scalarFloat] at hev
      simp only [Prod.mk.injEq, Sem.Res.ok.injEq] at hev
      obtain ⟨rfl, rfl, rfl⟩ := hev
      simp only [ECodeL] at hcode
      obtain ⟨h1, h2, rfl⟩ := hcode
      refine ⟨rfl, rfl, 1, by omega, fun vs cap stk hst hroom _ _ _ _ => ?_⟩
      simp only [edepth] at hroom
      obtain ⟨vs', hr, hs', hsame, hg⟩ := reach_push (P := P) (ip := pc) (ip' := pc + 9) (.real b) (by omega) hst hroom
        (fun re st' hp => by
          have := step_scalarFloat (re := re) h1 (s := tick vs) (st' := st') (by rw [h2]; exact hp)
          exact this)
      exact ⟨trivial, vs', hr, hs', hsame, hg⟩
  | .scalarNil => by
    intro _ fuel σ σ' env' v pc pc' hev hcode hsz
    cases fuel with
    | zero => rw [eval_zero] at hev; cases hev
    | succ f =>
      rw [eval_scalarNil] at hev
      simp only [Prod.mk.injEq, Sem.Res.ok.injEq] at hev
      obtain ⟨rfl, rfl, rfl⟩ := hev
      simp only [ECodeL] at hcode
      obtain ⟨h1, rfl⟩ := hcode
      refine ⟨rfl, rfl, 1, by omega, fun vs cap stk hst hroom _ _ _ _ => ?_⟩
      simp only [edepth] at hroom
      obtain ⟨vs', hr, hs', hsame, hg⟩ := reach_push (P := P) (ip := pc) (ip' := pc + 1) .nil (by omega) hst hroom
        (fun re st' hp => step_scalarNil (re := re) h1 (s := tick vs) (st' := st') hp)
      exact ⟨trivial, vs', hr, hs', hsame, hg⟩
  | .un .not c => by
    intro he fuel σ σ' env' v pc pc' hev hcode hsz
    simp only [isExpr] at he
    cases fuel with
    | zero => rw [eval_zero] at hev; cases hev
    | succ f =>
      rw [eval_not] at hev
      simp only [ECodeL] at hcode
      obtain ⟨m, hc1, hop, rfl⟩ := hcode
      rcases hc : Sem.eval cx f env σ c with ⟨σ1, env1, r1⟩
      rw [hc] at hev
      cases r1 with
      | ok v1 =>
        simp only [Prod.mk.injEq, Sem.Res.ok.injEq] at hev
        obtain ⟨rfl, rfl, rfl⟩ := hev
        obtain ⟨rfl, rfl, n1, hn1, hsim1⟩ := eval_simL L env henv c he f σ σ1 env1 v1 pc m hc hc1 (by omega)
        have hlt := ecodeL_lt hc1
        refine ⟨rfl, rfl, n1 + 1, by omega, fun vs cap stk hst hroom hg hfr hlr hbase => ?_⟩
        simp only [edepth] at hroom
        obtain ⟨hs1, vs1, hr1, hst1, hsame1, hg1⟩ := hsim1 vs cap stk hst hroom hg hfr hlr hbase
        have hpos := edepth_pos c
        obtain ⟨vs2, hr2, hst2, hsame2, hg2⟩ := reach_not (P := P) (ip := m) (by omega) hop hst1 (by omega)
        rw [ownD_scalar hs1 vs1.heap σ1] at hst2
        exact ⟨trivial, vs2, hr1.trans hr2 rfl, hst2, hsame1.trans hsame2, hg2.trans hg1⟩
      | outOfFuel | ret _ | exit | err _ | unspecified _ =>
        simp only [Prod.mk.injEq] at hev
        obtain ⟨_, _, h⟩ := hev
        cases h
  | .bin k a b => by
    intro he fuel σ σ' env' v pc pc' hev hcode hsz
    simp only [isExpr, Bool.and_eq_true] at he
    obtain ⟨⟨hk, hea⟩, heb⟩ := he
    cases fuel with
    | zero => rw [eval_zero] at hev; cases hev
    | succ f =>
      rw [eval_bin _ _ _ _ k hk] at hev
      simp only [ECodeL] at hcode
      obtain ⟨m1, m2, hc1, hc2, hop, rfl⟩ := hcode
      have hlt1 := ecodeL_lt hc1
      have hlt2 := ecodeL_lt hc2
      rcases hca : Sem.eval cx f env σ a with ⟨σ1, env1, r1⟩
      rw [hca] at hev
      cases r1 with
      | ok va =>
        simp only at hev
        obtain ⟨rfl, rfl, n1, hn1, hsim1⟩ := eval_simL L env henv a hea f σ σ1 env1 va pc m1 hca hc1 (by omega)
        rcases hcb : Sem.eval cx f env σ1 b with ⟨σ2, env2, r2⟩
        rw [hcb] at hev
        cases r2 with
        | ok vb =>
          simp only [Prod.mk.injEq, Sem.Res.ok.injEq] at hev
          obtain ⟨rfl, rfl, rfl⟩ := hev
          obtain ⟨rfl, rfl, n2, hn2, hsim2⟩ := eval_simL L env henv b heb f σ1 σ2 env2 vb m1 m2 hcb hc2 (by omega)
          refine ⟨rfl, rfl, n1 + n2 + 1, by omega, fun vs cap stk hst hroom hg hfr hlr hbase => ?_⟩
          simp only [edepth] at hroom
          obtain ⟨hsa, vs1, hr1, hst1, hsame1, hg1⟩ := hsim1 vs cap stk hst (by omega) hg hfr hlr hbase
          obtain ⟨hsb, vs2, hr2, hst2, hsame2, hg2⟩ := hsim2 vs1 cap (va :: stk) hst1
            (by simp only [List.length_cons]; omega) (by rw [hg1]; exact hg) (hsame1.frameOk hfr) hlr
            (by obtain ⟨temps, ht⟩ := hbase; exact ⟨va :: temps, by rw [ht]; rfl⟩)
          obtain ⟨vs3, hr3, hst3, hsame3, hg3⟩ := reach_bin (P := P) (ip := m2) k hk (by omega) hop hst2 (by omega)
          rw [ownD_scalar hsa vs2.heap σ2, ownD_scalar hsb vs2.heap σ2] at hst3
          exact ⟨scalar_binVal _ _ _, vs3, (hr1.trans hr2 rfl).trans hr3 rfl, hst3,
            (hsame1.trans hsame2).trans hsame3, (hg3.trans hg2).trans hg1⟩
        | outOfFuel | ret _ | exit | err _ | unspecified _ =>
          simp only [Prod.mk.injEq] at hev
          obtain ⟨_, _, h⟩ := hev
          cases h
      | outOfFuel | ret _ | exit | err _ | unspecified _ =>
        simp only [Prod.mk.injEq] at hev
        obtain ⟨_, _, h⟩ := hev
        cases h
  | .readVar n => by
    intro he fuel σ σ' env' v pc pc' hev hcode hsz
    simp only [isExpr] at he
    cases fuel with
    | zero => rw [eval_zero] at hev; cases hev
    | succ f =>
      rw [eval_readVar, readVar_scope hout he henv] at hev
      simp only [ECodeL] at hcode
      rcases hli : lidx L n with _ | i
      · rw [hli] at hev hcode
        simp only at hev hcode
        obtain ⟨id, hid, hop, hrd, rfl⟩ := hcode
        rcases hl : glookup σ.globals n with _ | x
        · rw [hl] at hev
          simp only [Prod.mk.injEq] at hev
          obtain ⟨_, _, h⟩ := hev
          cases h
        · rw [hl] at hev
          simp only [Prod.mk.injEq, Sem.Res.ok.injEq] at hev
          obtain ⟨rfl, rfl, rfl⟩ := hev
          refine ⟨rfl, rfl, 1, by omega, fun vs cap stk hst hroom hg _ _ _ => ?_⟩
          simp only [edepth] at hroom
          obtain ⟨_, hsx, id', hid', hv⟩ := hg.sem_vm n x hl
          rw [hid] at hid'
          cases hid'
          obtain ⟨vs', hr, hs', hsame, hg'⟩ := reach_push (P := P) (ip := pc) (ip' := pc + 5) x (by omega) hst hroom
            (fun re st' hp => step_readGlobalVar (re := re) hop (s := tick vs) (st' := st') (v := x)
              (by rw [hrd]; exact hv) hp)
          exact ⟨hsx, vs', hr, hs', hsame, hg'⟩
      · rw [hli] at hev hcode
        simp only [Prod.mk.injEq, Sem.Res.ok.injEq] at hev hcode
        obtain ⟨rfl, rfl, rfl⟩ := hev
        obtain ⟨hop, hrd, rfl⟩ := hcode
        refine ⟨rfl, rfl, 1, by omega, fun vs cap stk hst hroom hg hfr hlr hbase => ?_⟩
        simp only [edepth] at hroom
        obtain ⟨temps, rfl⟩ := hbase
        have hi := lidx_lt hli
        have hlen : i < (temps ++ σ.cells.toList.reverse).length := by
          simp only [List.length_append, List.length_reverse, Array.length_toList, hlr.size]; omega
        obtain ⟨vs', hr, hs', hsame, hg'⟩ := reach_readLocal (P := P) (ip := pc) (by omega) hop hrd hfr hst hlen hroom
        have hval : (temps ++ σ.cells.toList.reverse).reverse.getD i .nil = σ.cells[i]?.getD .nil := by
          rw [List.reverse_append, List.reverse_reverse, List.getD_eq_getElem?_getD,
            List.getElem?_append_left (by rw [Array.length_toList, hlr.size]; exact hi), Array.getElem?_toList]
        rw [hval] at hs'
        have hsc : Scalar (σ.cells[i]?.getD .nil) := by
          rcases hc : σ.cells[i]? with _ | v
          · trivial
          · exact hlr.scalar i v hc
        exact ⟨hsc, vs', hr, hs', hsame, hg'⟩
  | .un .ret _ | .un .len _ | .un .popTable _ | .tri _ _ _ _ | .createTable | .abort | .stringLiteral _
  | .comment _ | .function _ | .nativeFunction _ | .setVar _ _ | .setGlobalVar _ _ | .callNative _ _
  | .call _ _ | .repeat _ _ _ | .forEach _ _ _ _ _ | .composite _ _ | .dynamicCall _ _ | .array _
  | .closure _ _ => by
    intro he
    simp [isExpr] at he
end simL

theorem exec_setVar (cx : Sem.Ctx) (hout : cx.outer = []) (f : Nat) (env : Sem.Env) (s : Sem.St) {n : String}
    (e : Card) (hn : simpleName n = true) :
    Sem.exec cx (f + 1) env s (.setVar n e) =
    (match Sem.eval cx f env s e with
      | (s, env, .ok v) =>
        match Sem.lookupEnv env n with
        | some c => ({ s with cells := s.cells.set! c v }, env, .ok ())
        | none =>
          match env with
          | scope :: rest => ((Sem.newCell s v).1, (scope ++ [(n, (Sem.newCell s v).2)]) :: rest, .ok ())
          | [] => ((Sem.newCell s v).1, [[(n, (Sem.newCell s v).2)]], .ok ())
      | (s, env, .ret v) => (s, env, .ret v)
      | (s, env, .exit) => (s, env, .exit)
      | (s, env, .err e) => (s, env, .err e)
      | (s, env, .unspecified w) => (s, env, .unspecified w)
      | (s, env, .outOfFuel) => (s, env, .outOfFuel)) := by
  simp only [simpleName, Bool.and_eq_true, decide_eq_true_eq, Bool.not_eq_true'] at hn
  obtain ⟨hsplit, hne⟩ := hn
  have hnone : Sem.lookupEnv [] n = none := rfl
  simp only [Sem.exec, hsplit, hne, hout, Bool.false_eq_true, if_false, hnone]
  rcases Sem.eval cx f env s e with ⟨s1, env1, r⟩
  cases r <;> rfl

mutual
  /-- stack slots needed (above the locals) to execute the statement card -/
  def sdepthL : Card → Nat
    | .setGlobalVar _ e => edepth e
    | .setVar _ e => edepth e
    | .bin _ c b => max (edepth c) (sdepthL b)
    | .tri _ c t e => max (edepth c) (max (sdepthL t) (sdepthL e))
    | .composite _ cs => sdepthsL cs
    | _ => 0
  def sdepthsL : List Card → Nat
    | [] => 0
    | c :: cs => max (sdepthL c) (sdepthsL cs)
end

/-- expressions of the fragment evaluate to scalars -/
theorem eval_scalar {cx : Sem.Ctx} (hout : cx.outer = []) (L : LCtx) (env : Sem.Env) (henv : EnvL L env) :
    ∀ (e : Card), isExpr e = true → ∀ (fuel : Nat) (σ σ' : Sem.St) (env' : Sem.Env) (v : Val),
      Sem.eval cx fuel env σ e = (σ', env', .ok v) → LRel L σ → Scalar v
  | .scalarInt i => by
    intro _ fuel σ σ' env' v hev _
    cases fuel with
    | zero => rw [eval_zero] at hev; cases hev
    | succ f => rw [eval_scalarInt] at hev; cases hev; trivial
  | .scalarFloat b => by
    intro _ fuel σ σ' env' v hev _
    cases fuel with
    | zero => rw [eval_zero] at hev; cases hev
    | succ f => rw [eval_scalarFloat] at hev; cases hev; trivial
  | .scalarNil => by
    intro _ fuel σ σ' env' v hev _
    cases fuel with
    | zero => rw [eval_zero] at hev; cases hev
    | succ f => rw [eval_scalarNil] at hev; cases hev; trivial
  | .un .not c => by
    intro _ fuel σ σ' env' v hev _
    cases fuel with
    | zero => rw [eval_zero] at hev; cases hev
    | succ f =>
      rw [eval_not] at hev
      rcases hc : Sem.eval cx f env σ c with ⟨σ1, env1, r1⟩
      rw [hc] at hev
      cases r1 <;> simp only [Prod.mk.injEq, Sem.Res.ok.injEq] at hev <;> try (obtain ⟨_, _, h⟩ := hev; cases h)
      trivial
  | .bin k a b => by
    intro he fuel σ σ' env' v hev _
    simp only [isExpr, Bool.and_eq_true] at he
    cases fuel with
    | zero => rw [eval_zero] at hev; cases hev
    | succ f =>
      rw [eval_bin _ _ _ _ k he.1.1] at hev
      rcases hca : Sem.eval cx f env σ a with ⟨σ1, env1, r1⟩
      rw [hca] at hev
      cases r1 <;> simp only [Prod.mk.injEq] at hev <;> try (obtain ⟨_, _, h⟩ := hev; cases h)
      rcases hcb : Sem.eval cx f env1 σ1 b with ⟨σ2, env2, r2⟩
      rw [hcb] at hev
      cases r2 <;> simp only [Prod.mk.injEq, Sem.Res.ok.injEq] at hev <;> try (obtain ⟨_, _, h⟩ := hev; cases h)
      exact scalar_binVal _ _ _
  | .readVar n => by
    intro he fuel σ σ' env' v hev hlr
    simp only [isExpr] at he
    cases fuel with
    | zero => rw [eval_zero] at hev; cases hev
    | succ f =>
      rw [eval_readVar, readVar_scope hout he henv] at hev
      rcases hli : lidx L n with _ | i
      · rw [hli] at hev
        simp only at hev
        rcases hl : glookup σ.globals n with _ | x
        · rw [hl] at hev; simp only [Prod.mk.injEq] at hev; obtain ⟨_, _, h⟩ := hev; cases h
        · rw [hl] at hev
          simp only [Prod.mk.injEq, Sem.Res.ok.injEq] at hev
          obtain ⟨_, _, rfl⟩ := hev
          exact hlr.gscalar n x hl
      · rw [hli] at hev
        simp only [Prod.mk.injEq, Sem.Res.ok.injEq] at hev
        obtain ⟨_, _, rfl⟩ := hev
        rcases hc : σ.cells[i]? with _ | v
        · trivial
        · exact hlr.scalar i v hc
  | .un .ret _ | .un .len _ | .un .popTable _ | .tri _ _ _ _ | .createTable | .abort | .stringLiteral _
  | .comment _ | .function _ | .nativeFunction _ | .setVar _ _ | .setGlobalVar _ _ | .callNative _ _
  | .call _ _ | .repeat _ _ _ | .forEach _ _ _ _ _ | .composite _ _ | .dynamicCall _ _ | .array _
  | .closure _ _ => by
    intro he
    simp [isExpr] at he

mutual
theorem scodeL_le {B : Array UInt8} {F : List (UInt32 × Nat)} {L : LCtx} :
    ∀ {c : Card} {pc pc' : Nat}, isStmtL L c = true → SCodeL B F L c pc pc' → pc ≤ pc'
  | .setGlobalVar _ e, _, _, _, h => by
    simp only [SCodeL] at h
    obtain ⟨m, id, h1, _, _, _, rfl⟩ := h
    have := ecodeL_lt h1; omega
  | .setVar _ e, _, _, _, h => by
    simp only [SCodeL] at h
    obtain ⟨m, i, _, h1, _, _, rfl⟩ := h
    have := ecodeL_lt h1; omega
  | .bin .ifTrue c b, _, _, hs, h => by
    simp only [SCodeL] at h
    simp only [isStmtL, Bool.and_eq_true] at hs
    obtain ⟨m, h1, _, _, h2⟩ := h
    have := ecodeL_lt h1; have := scodeL_le hs.2 h2; omega
  | .bin .ifFalse c b, _, _, hs, h => by
    simp only [SCodeL] at h
    simp only [isStmtL, Bool.and_eq_true] at hs
    obtain ⟨m, h1, _, _, h2⟩ := h
    have := ecodeL_lt h1; have := scodeL_le hs.2 h2; omega
  | .bin .while c b, _, _, hs, h => by
    simp only [SCodeL] at h
    simp only [isStmtL, Bool.and_eq_true] at hs
    obtain ⟨m1, m2, h1, _, _, h2, _, _, rfl⟩ := h
    have := ecodeL_lt h1; have := scodeL_le hs.2 h2; omega
  | .tri .ifElse c t e, _, _, hs, h => by
    simp only [SCodeL] at h
    simp only [isStmtL, Bool.and_eq_true] at hs
    obtain ⟨m1, m2, h1, _, _, h2, _, _, h3⟩ := h
    have := ecodeL_lt h1; have := scodeL_le hs.1.2 h2; have := scodeL_le hs.2 h3; omega
  | .composite _ cs, _, _, hs, h => by
    simp only [SCodeL] at h
    simp only [isStmtL] at hs
    exact scodesL_le hs h
  | .comment _, _, _, _, h => by simp only [SCodeL] at h; omega
  | .bin .add _ _, _, _, hs, _ | .bin .sub _ _, _, _, hs, _ | .bin .mul _ _, _, _, hs, _ | .bin .div _ _, _, _, hs, _
  | .bin .less _ _, _, _, hs, _ | .bin .lessOrEq _ _, _, _, hs, _
  | .bin .equals _ _, _, _, hs, _ | .bin .notEquals _ _, _, _, hs, _ | .bin .and _ _, _, _, hs, _
  | .bin .or _ _, _, _, hs, _ | .bin .xor _ _, _, _, hs, _
  | .bin .getProperty _ _, _, _, hs, _ | .bin .get _ _, _, _, hs, _ | .bin .appendTable _ _, _, _, hs, _
  | .un _ _, _, _, hs, _ | .tri .setProperty _ _ _, _, _, hs, _ | .scalarNil, _, _, hs, _ | .createTable, _, _, hs, _
  | .abort, _, _, hs, _ | .scalarInt _, _, _, hs, _ | .scalarFloat _, _, _, hs, _
  | .stringLiteral _, _, _, hs, _ | .function _, _, _, hs, _ | .nativeFunction _, _, _, hs, _
  | .readVar _, _, _, hs, _ | .callNative _ _, _, _, hs, _
  | .call _ _, _, _, hs, _ | .repeat _ _ _, _, _, hs, _ | .forEach _ _ _ _ _, _, _, hs, _
  | .dynamicCall _ _, _, _, hs, _ | .array _, _, _, hs, _ | .closure _ _, _, _, hs, _ => by
    simp [isStmtL] at hs
theorem scodesL_le {B : Array UInt8} {F : List (UInt32 × Nat)} {L : LCtx} :
    ∀ {cs : List Card} {pc pc' : Nat}, isStmtsL L cs = true → SCodesL B F L cs pc pc' → pc ≤ pc'
  | [], _, _, _, h => by simp only [SCodesL] at h; omega
  | c :: cs, _, _, hs, h => by
    simp only [SCodesL] at h
    simp only [isStmtsL, Bool.and_eq_true] at hs
    obtain ⟨m, h1, h2⟩ := h
    have := scodeL_le hs.1 h1; have := scodesL_le hs.2 h2; omega
end

section stmtsimL
variable (P : Prog) (F : List (UInt32 × Nat)) (N : String → Prop) (cx : Sem.Ctx)

/-- the reference semantics only changed the globals and the cells of the locals (and counted the
    calls of script functions) -/
structure SemFrame (σ σ' : Sem.St) : Prop where
  eq : σ' = { σ with globals := σ'.globals, cells := σ'.cells, calls := σ'.calls }
  calls : σ.calls ≤ σ'.calls

theorem SemFrame.refl (σ : Sem.St) : SemFrame σ σ := ⟨rfl, Nat.le_refl _⟩
theorem SemFrame.trans {a b c : Sem.St} (h1 : SemFrame a b) (h2 : SemFrame b c) : SemFrame a c := by
  refine ⟨?_, Nat.le_trans h1.calls h2.calls⟩
  have e1 := h1.eq
  have e2 := h2.eq
  rw [e1] at e2
  exact e2
/-- a step that only changes the globals and the cells -/
theorem SemFrame.of_eq {σ σ' : Sem.St} (h : σ' = { σ with globals := σ'.globals, cells := σ'.cells }) :
    SemFrame σ σ' := by
  refine ⟨?_, ?_⟩
  · rw [h]
  · rw [h]; exact Nat.le_refl _

/-- what the VM does for a piece of code `[pc, pc')` when the locals live at the bottom of the value
    stack -/
def VmSimL (σ σ' : Sem.St) (pc pc' : Nat) (depth : Nat) (lf : Bool) : Prop :=
  ∃ n, (lf = true → n ≤ pc' - pc) ∧
    ∀ (vs : VmState) (cap : Nat), StackIs vs.stack cap σ.cells.toList.reverse → σ.cells.size + depth < cap →
      GRel F N σ.globals vs.globals → FrameOk vs →
      ∃ vs', Reach P n pc vs pc' vs' ∧ StackIs vs'.stack cap σ'.cells.toList.reverse ∧ SameRest vs vs' ∧
        GRel F N σ'.globals vs'.globals

/-- the simulation statement for one statement card (which declares no local) at fuel `f` -/
def StmtSimL (f : Nat) (L : LCtx) (c : Card) : Prop :=
  isStmtL L c = true → ∀ (env : Sem.Env), EnvL L env → ∀ (σ σ' : Sem.St) (env' : Sem.Env) (pc pc' : Nat),
    Sem.exec cx f env σ c = (σ', env', .ok ()) → SCodeL P.bytecode F L c pc pc' →
    pc' ≤ P.bytecode.size → (∀ n ∈ snames c, N n) → LRel L σ →
      env = env' ∧ SemFrame σ σ' ∧ LRel L σ' ∧ VmSimL P F N σ σ' pc pc' (sdepthL c) (loopFree c)

def StmtsSimL (f : Nat) (L : LCtx) (cs : List Card) : Prop :=
  isStmtsL L cs = true → ∀ (env : Sem.Env), EnvL L env → ∀ (σ σ' : Sem.St) (env' : Sem.Env) (pc pc' : Nat),
    Sem.execListWith (Sem.exec cx f) env σ cs = (σ', env', .ok ()) → SCodesL P.bytecode F L cs pc pc' →
    pc' ≤ P.bytecode.size → (∀ n ∈ snamess cs, N n) → LRel L σ →
      env = env' ∧ SemFrame σ σ' ∧ LRel L σ' ∧ VmSimL P F N σ σ' pc pc' (sdepthsL cs) (loopFrees cs)

variable {P F N cx}

theorem stmts_simL {f : Nat} {L : LCtx} (ih : ∀ c, StmtSimL P F N cx f L c) : ∀ cs, StmtsSimL P F N cx f L cs
  | [] => by
    intro _ env henv σ σ' env' pc pc' hex hcode _ _ hlr
    simp only [Sem.execListWith, Prod.mk.injEq] at hex
    obtain ⟨rfl, rfl, _⟩ := hex
    simp only [SCodesL] at hcode
    subst hcode
    exact ⟨rfl, SemFrame.refl _, hlr, 0, fun _ => Nat.zero_le _, fun vs cap hst _ hg _ =>
      ⟨vs, Reach.refl _ _, hst, SameRest.refl _, hg⟩⟩
  | c :: cs => by
    intro hs env henv σ σ' env' pc pc' hex hcode hsz hN hlr
    simp only [isStmtsL, Bool.and_eq_true] at hs
    simp only [SCodesL] at hcode
    obtain ⟨m, hc1, hc2⟩ := hcode
    simp only [snamess, List.mem_append] at hN
    have hle2 := scodesL_le hs.2 hc2
    have hle1 := scodeL_le hs.1 hc1
    simp only [Sem.execListWith] at hex
    rcases hc : Sem.exec cx f env σ c with ⟨σ1, env1, r1⟩
    rw [hc] at hex
    cases r1 with
    | ok u =>
      cases u
      simp only at hex
      obtain ⟨rfl, e1, hlr1, n1, hn1, hsim1⟩ :=
        ih c hs.1 env henv σ σ1 env1 pc m hc hc1 (by omega) (fun n hn => hN n (Or.inl hn)) hlr
      obtain ⟨rfl, e2, hlr2, n2, hn2, hsim2⟩ :=
        stmts_simL ih cs hs.2 env henv σ1 σ' env' m pc' hex hc2 hsz (fun n hn => hN n (Or.inr hn)) hlr1
      refine ⟨rfl, e1.trans e2, hlr2, n1 + n2, ?_, fun vs cap hst hd hg hfr => ?_⟩
      · intro hl
        simp only [loopFrees, Bool.and_eq_true] at hl
        have := hn1 hl.1; have := hn2 hl.2; omega
      · simp only [sdepthsL] at hd
        have := hlr.size; have := hlr1.size
        obtain ⟨vs1, hr1, hst1, hsame1, hg1⟩ := hsim1 vs cap hst (by omega) hg hfr
        obtain ⟨vs2, hr2, hst2, hsame2, hg2⟩ := hsim2 vs1 cap hst1 (by omega) hg1 (hsame1.frameOk hfr)
        exact ⟨vs2, hr1.trans hr2 rfl, hst2, hsame1.trans hsame2, hg2⟩
    | outOfFuel | ret _ | exit | err _ | unspecified _ =>
      simp only [Prod.mk.injEq] at hex
      obtain ⟨_, _, h⟩ := hex
      cases h

variable (hout : cx.outer = []) (hFinj : FInj F) (hNinj : HInj N)
include hout hFinj hNinj

theorem simL_setGlobal (f : Nat) (L : LCtx) (n : String) (e : Card) : StmtSimL P F N cx (f + 1) L (.setGlobalVar n e) := by
  intro hs env henv σ σ' env' pc pc' hex hcode hsz hN hlr
  simp only [isStmtL, Bool.and_eq_true, Bool.not_eq_true'] at hs
  obtain ⟨hne, he⟩ := hs
  rw [exec_setGlobal] at hex
  simp only [SCodeL] at hcode
  obtain ⟨m, id, hc1, hop, hid, hrd, rfl⟩ := hcode
  rcases hc : Sem.eval cx f env σ e with ⟨σ1, env1, r1⟩
  rw [hc] at hex
  cases r1 with
  | ok x =>
    simp only [hne, Bool.false_eq_true, if_false, Prod.mk.injEq, and_true] at hex
    obtain ⟨rfl, rfl⟩ := hex
    have hsx0 := eval_scalar hout L env henv e he f σ σ1 env1 x hc hlr
    obtain ⟨rfl, rfl, n1, hn1, hsim1⟩ := eval_simL hout L env henv e he f σ σ1 env1 x pc m hc hc1 (by omega)
    have hlt := ecodeL_lt hc1
    refine ⟨rfl, SemFrame.of_eq rfl, ⟨hlr.size, hlr.scalar, fun n' v hl => ?_⟩, n1 + 1, fun _ => by omega,
      fun vs cap hst hd hg hfr => ?_⟩
    · rw [glookup_gupd] at hl
      by_cases hnn : n' = n
      · rw [if_pos hnn] at hl; cases hl; exact hsx0
      · rw [if_neg hnn] at hl; exact hlr.gscalar n' v hl
    simp only [sdepthL] at hd
    obtain ⟨hsx, vs1, hr1, hst1, hsame1, hg1⟩ := hsim1 vs cap _ hst (by simp only [List.length_reverse, Array.length_toList]; omega) hg hfr hlr ⟨[], rfl⟩
    obtain ⟨vs2, hr2, hst2, hsame2, hg2⟩ := reach_setGlobal (P := P) (ip := m) (by omega) hop hrd hst1
    refine ⟨vs2, hr1.trans hr2 rfl, hst2, hsame1.trans hsame2, ?_⟩
    rw [hg2, hg1]
    exact hg.set hFinj hNinj (hN n (by simp [snames])) hsx hid
  | outOfFuel | ret _ | exit | err _ | unspecified _ =>
    simp only [Prod.mk.injEq] at hex
    obtain ⟨_, _, h⟩ := hex
    cases h

omit hFinj hNinj in
theorem simL_ifTrue (f : Nat) (L : LCtx) (ih : ∀ c, StmtSimL P F N cx f L c) (c b : Card) :
    StmtSimL P F N cx (f + 1) L (.bin .ifTrue c b) := by
  intro hs env henv σ σ' env' pc pc' hex hcode hsz hN hlr
  simp only [isStmtL, Bool.and_eq_true] at hs
  obtain ⟨hec, hsb⟩ := hs
  rw [exec_ifTrue] at hex
  simp only [SCodeL] at hcode
  obtain ⟨m, hc1, hop, hrd, hc2⟩ := hcode
  have hlt := ecodeL_lt hc1
  have hle := scodeL_le hsb hc2
  rcases hc : Sem.eval cx f env σ c with ⟨σ1, env1, r1⟩
  rw [hc] at hex
  cases r1 with
  | ok x =>
    simp only at hex
    obtain ⟨rfl, rfl, n1, hn1, hsim1⟩ := eval_simL hout L env henv c hec f σ σ1 env1 x pc m hc hc1 (by omega)
    by_cases ht : Sem.truthy σ1 x = true
    · rw [if_pos ht] at hex
      obtain ⟨rfl, e2, hlr2, n3, hn3, hsim3⟩ :=
        ih b hsb env henv σ1 σ' env' (m + 5) pc' hex hc2 hsz (fun n hn => hN n (by simpa [snames] using hn)) hlr
      refine ⟨rfl, e2, hlr2, n1 + 1 + n3, ?_, fun vs cap hst hd hg hfr => ?_⟩
      · intro hl
        have := hn3 (by simpa [loopFree] using hl)
        omega
      · simp only [sdepthL] at hd
        obtain ⟨hsx, vs1, hr1, hst1, hsame1, hg1⟩ := hsim1 vs cap _ hst (by simp only [List.length_reverse, Array.length_toList]; omega) hg hfr hlr ⟨[], rfl⟩
        obtain ⟨vs2, hr2, hst2, hsame2, hg2⟩ := reach_gotoIfFalse (P := P) (ip := m) (by omega) hop hst1
        rw [truthy_eq hsx vs1.heap σ1, if_pos ht] at hr2
        obtain ⟨vs3, hr3, hst3, hsame3, hg3⟩ := hsim3 vs2 cap hst2 (by omega) (by rw [hg2, hg1]; exact hg) ((hsame1.trans hsame2).frameOk hfr)
        exact ⟨vs3, (hr1.trans hr2 rfl).trans hr3 rfl, hst3, (hsame1.trans hsame2).trans hsame3, hg3⟩
    · rw [if_neg ht] at hex
      simp only [Prod.mk.injEq, and_true] at hex
      obtain ⟨rfl, rfl⟩ := hex
      refine ⟨rfl, SemFrame.refl _, hlr, n1 + 1, fun _ => by omega, fun vs cap hst hd hg hfr => ?_⟩
      simp only [sdepthL] at hd
      obtain ⟨hsx, vs1, hr1, hst1, hsame1, hg1⟩ := hsim1 vs cap _ hst (by simp only [List.length_reverse, Array.length_toList]; omega) hg hfr hlr ⟨[], rfl⟩
      obtain ⟨vs2, hr2, hst2, hsame2, hg2⟩ := reach_gotoIfFalse (P := P) (ip := m) (by omega) hop hst1
      rw [truthy_eq hsx vs1.heap σ1, if_neg ht, hrd] at hr2
      exact ⟨vs2, hr1.trans hr2 rfl, hst2, hsame1.trans hsame2, by rw [hg2, hg1]; exact hg⟩
  | outOfFuel | ret _ | exit | err _ | unspecified _ =>
    simp only [Prod.mk.injEq] at hex
    obtain ⟨_, _, h⟩ := hex
    cases h

omit hFinj hNinj in
theorem simL_ifFalse (f : Nat) (L : LCtx) (ih : ∀ c, StmtSimL P F N cx f L c) (c b : Card) :
    StmtSimL P F N cx (f + 1) L (.bin .ifFalse c b) := by
  intro hs env henv σ σ' env' pc pc' hex hcode hsz hN hlr
  simp only [isStmtL, Bool.and_eq_true] at hs
  obtain ⟨hec, hsb⟩ := hs
  rw [exec_ifFalse] at hex
  simp only [SCodeL] at hcode
  obtain ⟨m, hc1, hop, hrd, hc2⟩ := hcode
  have hlt := ecodeL_lt hc1
  have hle := scodeL_le hsb hc2
  rcases hc : Sem.eval cx f env σ c with ⟨σ1, env1, r1⟩
  rw [hc] at hex
  cases r1 with
  | ok x =>
    simp only at hex
    obtain ⟨rfl, rfl, n1, hn1, hsim1⟩ := eval_simL hout L env henv c hec f σ σ1 env1 x pc m hc hc1 (by omega)
    by_cases ht : Sem.truthy σ1 x = true
    · rw [if_pos ht] at hex
      simp only [Prod.mk.injEq, and_true] at hex
      obtain ⟨rfl, rfl⟩ := hex
      refine ⟨rfl, SemFrame.refl _, hlr, n1 + 1, fun _ => by omega, fun vs cap hst hd hg hfr => ?_⟩
      simp only [sdepthL] at hd
      obtain ⟨hsx, vs1, hr1, hst1, hsame1, hg1⟩ := hsim1 vs cap _ hst (by simp only [List.length_reverse, Array.length_toList]; omega) hg hfr hlr ⟨[], rfl⟩
      obtain ⟨vs2, hr2, hst2, hsame2, hg2⟩ := reach_gotoIfTrue (P := P) (ip := m) (by omega) hop hst1
      rw [truthy_eq hsx vs1.heap σ1, if_pos ht, hrd] at hr2
      exact ⟨vs2, hr1.trans hr2 rfl, hst2, hsame1.trans hsame2, by rw [hg2, hg1]; exact hg⟩
    · rw [if_neg ht] at hex
      obtain ⟨rfl, e2, hlr2, n3, hn3, hsim3⟩ :=
        ih b hsb env henv σ1 σ' env' (m + 5) pc' hex hc2 hsz (fun n hn => hN n (by simpa [snames] using hn)) hlr
      refine ⟨rfl, e2, hlr2, n1 + 1 + n3, ?_, fun vs cap hst hd hg hfr => ?_⟩
      · intro hl
        have := hn3 (by simpa [loopFree] using hl)
        omega
      · simp only [sdepthL] at hd
        obtain ⟨hsx, vs1, hr1, hst1, hsame1, hg1⟩ := hsim1 vs cap _ hst (by simp only [List.length_reverse, Array.length_toList]; omega) hg hfr hlr ⟨[], rfl⟩
        obtain ⟨vs2, hr2, hst2, hsame2, hg2⟩ := reach_gotoIfTrue (P := P) (ip := m) (by omega) hop hst1
        rw [truthy_eq hsx vs1.heap σ1, if_neg ht] at hr2
        obtain ⟨vs3, hr3, hst3, hsame3, hg3⟩ := hsim3 vs2 cap hst2 (by omega) (by rw [hg2, hg1]; exact hg) ((hsame1.trans hsame2).frameOk hfr)
        exact ⟨vs3, (hr1.trans hr2 rfl).trans hr3 rfl, hst3, (hsame1.trans hsame2).trans hsame3, hg3⟩
  | outOfFuel | ret _ | exit | err _ | unspecified _ =>
    simp only [Prod.mk.injEq] at hex
    obtain ⟨_, _, h⟩ := hex
    cases h

omit hFinj hNinj in
theorem simL_ifElse (f : Nat) (L : LCtx) (ih : ∀ c, StmtSimL P F N cx f L c) (c t e : Card) :
    StmtSimL P F N cx (f + 1) L (.tri .ifElse c t e) := by
  intro hs env henv σ σ' env' pc pc' hex hcode hsz hN hlr
  simp only [isStmtL, Bool.and_eq_true] at hs
  obtain ⟨⟨hec, hst_⟩, hse⟩ := hs
  rw [exec_ifElse] at hex
  simp only [SCodeL] at hcode
  obtain ⟨m1, m2, hc1, hop1, hrd1, hc2, hop2, hrd2, hc3⟩ := hcode
  have hlt := ecodeL_lt hc1
  have hle2 := scodeL_le hst_ hc2
  have hle3 := scodeL_le hse hc3
  rcases hc : Sem.eval cx f env σ c with ⟨σ1, env1, r1⟩
  rw [hc] at hex
  cases r1 with
  | ok x =>
    simp only at hex
    obtain ⟨rfl, rfl, n1, hn1, hsim1⟩ := eval_simL hout L env henv c hec f σ σ1 env1 x pc m1 hc hc1 (by omega)
    by_cases ht : Sem.truthy σ1 x = true
    · rw [if_pos ht] at hex
      obtain ⟨rfl, e2, hlr2, n3, hn3, hsim3⟩ :=
        ih t hst_ env henv σ1 σ' env' (m1 + 5) m2 hex hc2 (by omega)
          (fun n hn => hN n (by simp only [snames, List.mem_append]; exact Or.inl hn)) hlr
      refine ⟨rfl, e2, hlr2, n1 + 1 + n3 + 1, ?_, fun vs cap hst hd hg hfr => ?_⟩
      · intro hl
        simp only [loopFree, Bool.and_eq_true] at hl
        have := hn3 hl.1
        omega
      · simp only [sdepthL] at hd
        obtain ⟨hsx, vs1, hr1, hst1, hsame1, hg1⟩ := hsim1 vs cap _ hst (by simp only [List.length_reverse, Array.length_toList]; omega) hg hfr hlr ⟨[], rfl⟩
        obtain ⟨vs2, hr2, hst2, hsame2, hg2⟩ := reach_gotoIfFalse (P := P) (ip := m1) (by omega) hop1 hst1
        rw [truthy_eq hsx vs1.heap σ1, if_pos ht] at hr2
        obtain ⟨vs3, hr3, hst3, hsame3, hg3⟩ := hsim3 vs2 cap hst2 (by omega) (by rw [hg2, hg1]; exact hg) ((hsame1.trans hsame2).frameOk hfr)
        obtain ⟨vs4, hr4, hst4, hsame4, hg4⟩ := reach_goto (P := P) (ip := m2) (vs := vs3) (by omega) hop2
        rw [hrd2] at hr4
        exact ⟨vs4, ((hr1.trans hr2 rfl).trans hr3 rfl).trans hr4 rfl, by rw [hst4]; exact hst3,
          ((hsame1.trans hsame2).trans hsame3).trans hsame4, by rw [hg4]; exact hg3⟩
    · rw [if_neg ht] at hex
      obtain ⟨rfl, e2, hlr2, n3, hn3, hsim3⟩ :=
        ih e hse env henv σ1 σ' env' (m2 + 5) pc' hex hc3 hsz
          (fun n hn => hN n (by simp only [snames, List.mem_append]; exact Or.inr hn)) hlr
      refine ⟨rfl, e2, hlr2, n1 + 1 + n3, ?_, fun vs cap hst hd hg hfr => ?_⟩
      · intro hl
        simp only [loopFree, Bool.and_eq_true] at hl
        have := hn3 hl.2
        omega
      · simp only [sdepthL] at hd
        obtain ⟨hsx, vs1, hr1, hst1, hsame1, hg1⟩ := hsim1 vs cap _ hst (by simp only [List.length_reverse, Array.length_toList]; omega) hg hfr hlr ⟨[], rfl⟩
        obtain ⟨vs2, hr2, hst2, hsame2, hg2⟩ := reach_gotoIfFalse (P := P) (ip := m1) (by omega) hop1 hst1
        rw [truthy_eq hsx vs1.heap σ1, if_neg ht, hrd1] at hr2
        obtain ⟨vs3, hr3, hst3, hsame3, hg3⟩ := hsim3 vs2 cap hst2 (by omega) (by rw [hg2, hg1]; exact hg) ((hsame1.trans hsame2).frameOk hfr)
        exact ⟨vs3, (hr1.trans hr2 rfl).trans hr3 rfl, hst3, (hsame1.trans hsame2).trans hsame3, hg3⟩
  | outOfFuel | ret _ | exit | err _ | unspecified _ =>
    simp only [Prod.mk.injEq] at hex
    obtain ⟨_, _, h⟩ := hex
    cases h

omit hFinj hNinj in
theorem simL_while (f : Nat) (L : LCtx) (ih : ∀ c, StmtSimL P F N cx f L c) (c b : Card) :
    StmtSimL P F N cx (f + 1) L (.bin .while c b) := by
  intro hs env henv σ σ' env' pc pc' hex hcode hsz hN hlr
  have hs0 := hs
  have hcode0 := hcode
  simp only [isStmtL, Bool.and_eq_true] at hs
  obtain ⟨hec, hsb⟩ := hs
  rw [exec_while] at hex
  simp only [SCodeL] at hcode
  obtain ⟨m1, m2, hc1, hop1, hrd1, hc2, hop2, hrd2, rfl⟩ := hcode
  have hlt := ecodeL_lt hc1
  have hle2 := scodeL_le hsb hc2
  rcases hc : Sem.eval cx f env σ c with ⟨σ1, env1, r1⟩
  rw [hc] at hex
  cases r1 with
  | ok x =>
    simp only at hex
    obtain ⟨rfl, rfl, n1, hn1, hsim1⟩ := eval_simL hout L env henv c hec f σ σ1 env1 x pc m1 hc hc1 (by omega)
    by_cases ht : Sem.truthy σ1 x = true
    · rw [if_pos ht] at hex
      rcases hb : Sem.exec cx f ([] :: env) σ1 b with ⟨σ2, env2, r2⟩
      rw [hb] at hex
      cases r2 with
      | ok u =>
        cases u
        simp only at hex
        obtain ⟨rfl, e2, hlr2, n3, hn3, hsim3⟩ :=
          ih b hsb ([] :: env) (envL_cons henv) σ1 σ2 env2 (m1 + 5) m2 hb hc2 (by omega) (fun n hn => hN n (by simpa [snames] using hn)) hlr
        obtain ⟨rfl, e5, hlr5, n5, hn5, hsim5⟩ :=
          ih (.bin .while c b) hs0 env henv σ2 σ' env' pc (m2 + 5) hex hcode0 hsz hN hlr2
        refine ⟨rfl, e2.trans e5, hlr5, n1 + 1 + n3 + 1 + n5, ?_, fun vs cap hst hd hg hfr => ?_⟩
        · intro hl
          simp [loopFree] at hl
        · have hd0 := hd
          simp only [sdepthL] at hd
          obtain ⟨hsx, vs1, hr1, hst1, hsame1, hg1⟩ := hsim1 vs cap _ hst (by simp only [List.length_reverse, Array.length_toList]; omega) hg hfr hlr ⟨[], rfl⟩
          obtain ⟨vs2, hr2, hst2, hsame2, hg2⟩ := reach_gotoIfFalse (P := P) (ip := m1) (by omega) hop1 hst1
          rw [truthy_eq hsx vs1.heap σ1, if_pos ht] at hr2
          obtain ⟨vs3, hr3, hst3, hsame3, hg3⟩ := hsim3 vs2 cap hst2 (by omega) (by rw [hg2, hg1]; exact hg) ((hsame1.trans hsame2).frameOk hfr)
          obtain ⟨vs4, hr4, hst4, hsame4, hg4⟩ := reach_goto (P := P) (ip := m2) (vs := vs3) (by omega) hop2
          rw [hrd2] at hr4
          obtain ⟨vs5, hr5, hst5, hsame5, hg5⟩ := hsim5 vs4 cap (by rw [hst4]; exact hst3) (by have := hlr.size; have := hlr2.size; omega)
            (by rw [hg4]; exact hg3) ((((hsame1.trans hsame2).trans hsame3).trans hsame4).frameOk hfr)
          exact ⟨vs5, ((((hr1.trans hr2 rfl).trans hr3 rfl).trans hr4 rfl).trans hr5 rfl), hst5,
            (((hsame1.trans hsame2).trans hsame3).trans hsame4).trans hsame5, hg5⟩
      | outOfFuel | ret _ | exit | err _ | unspecified _ =>
        simp only [Prod.mk.injEq] at hex
        obtain ⟨_, _, h⟩ := hex
        cases h
    · rw [if_neg ht] at hex
      simp only [Prod.mk.injEq, and_true] at hex
      obtain ⟨rfl, rfl⟩ := hex
      refine ⟨rfl, SemFrame.refl _, hlr, n1 + 1, ?_, fun vs cap hst hd hg hfr => ?_⟩
      · intro hl
        simp [loopFree] at hl
      · simp only [sdepthL] at hd
        obtain ⟨hsx, vs1, hr1, hst1, hsame1, hg1⟩ := hsim1 vs cap _ hst (by simp only [List.length_reverse, Array.length_toList]; omega) hg hfr hlr ⟨[], rfl⟩
        obtain ⟨vs2, hr2, hst2, hsame2, hg2⟩ := reach_gotoIfFalse (P := P) (ip := m1) (by omega) hop1 hst1
        rw [truthy_eq hsx vs1.heap σ1, if_neg ht, hrd1] at hr2
        exact ⟨vs2, hr1.trans hr2 rfl, hst2, hsame1.trans hsame2, by rw [hg2, hg1]; exact hg⟩
  | outOfFuel | ret _ | exit | err _ | unspecified _ =>
    simp only [Prod.mk.injEq] at hex
    obtain ⟨_, _, h⟩ := hex
    cases h

omit hFinj hNinj in
theorem simL_setVar (f : Nat) (L : LCtx) (n : String) (e : Card) : StmtSimL P F N cx (f + 1) L (.setVar n e) := by
  intro hs env henv σ σ' env' pc pc' hex hcode hsz hN hlr
  simp only [isStmtL, Bool.and_eq_true] at hs
  obtain ⟨⟨hn, hsome⟩, he⟩ := hs
  rw [exec_setVar cx hout f _ σ e hn] at hex
  simp only [SCodeL] at hcode
  obtain ⟨m, i, hli, hc1, hop, hrd, rfl⟩ := hcode
  rcases hc : Sem.eval cx f env σ e with ⟨σ1, env1, r1⟩
  rw [hc] at hex
  cases r1 with
  | ok x =>
    have hsx0 := eval_scalar hout L env henv e he f σ σ1 env1 x hc hlr
    obtain ⟨rfl, rfl, n1, hn1, hsim1⟩ := eval_simL hout L env henv e he f σ σ1 env1 x pc m hc hc1 (by omega)
    simp only [lookupEnv_envL henv, hli, Prod.mk.injEq, and_true] at hex
    obtain ⟨rfl, rfl⟩ := hex
    have hlt := ecodeL_lt hc1
    have hi := lidx_lt hli
    refine ⟨rfl, SemFrame.of_eq rfl, ⟨?_, ?_, hlr.gscalar⟩, n1 + 1, fun _ => by omega, fun vs cap hst hd hg hfr => ?_⟩
    · show (σ1.cells.set! i x).size = L.length
      simp [hlr.size]
    · intro j v hj
      simp only [Array.set!_eq_setIfInBounds, Array.getElem?_setIfInBounds] at hj
      split at hj
      · split at hj
        · cases hj; exact hsx0
        · cases hj
      · exact hlr.scalar j v hj
    · simp only [sdepthL] at hd
      obtain ⟨hsx, vs1, hr1, hst1, hsame1, hg1⟩ := hsim1 vs cap _ hst (by simp only [List.length_reverse, Array.length_toList]; omega) hg hfr hlr ⟨[], rfl⟩
      obtain ⟨vs2, hr2, hst2, hsame2, hg2⟩ := reach_setLocal_old (P := P) (ip := m) (by omega) hop hrd
        (hsame1.frameOk hfr) hst1 (by simp only [List.length_reverse, Array.length_toList, hlr.size]; exact hi)
      refine ⟨vs2, hr1.trans hr2 rfl, ?_, hsame1.trans hsame2, by rw [hg2, hg1]; exact hg⟩
      have : (σ1.cells.toList.reverse.reverse.set i x).reverse = (σ1.cells.set! i x).toList.reverse := by
        rw [List.reverse_reverse]; simp
      rw [this] at hst2
      exact hst2
  | outOfFuel | ret _ | exit | err _ | unspecified _ =>
    simp only [Prod.mk.injEq] at hex
    obtain ⟨_, _, h⟩ := hex
    cases h

/-- the simulation of statement cards -/
theorem exec_simL (L : LCtx) : ∀ (f : Nat) (c : Card), StmtSimL P F N cx f L c := by
  intro f
  induction f with
  | zero =>
    intro c _ env henv σ σ' env' pc pc' hex
    rw [exec_zero] at hex
    simp only [Prod.mk.injEq] at hex
    obtain ⟨_, _, h⟩ := hex
    cases h
  | succ f ih =>
    intro c
    cases c with
    | setGlobalVar n e => exact simL_setGlobal hout hFinj hNinj f L n e
    | setVar n e => exact simL_setVar hout f L n e
    | comment t =>
      intro _ env henv σ σ' env' pc pc' hex hcode _ _ hlr
      rw [exec_comment] at hex
      simp only [Prod.mk.injEq, and_true] at hex
      obtain ⟨rfl, rfl⟩ := hex
      simp only [SCodeL] at hcode
      subst hcode
      exact ⟨rfl, SemFrame.refl _, hlr, 0, fun _ => Nat.zero_le _, fun vs cap hst _ hg _ =>
        ⟨vs, Reach.refl _ _, hst, SameRest.refl _, hg⟩⟩
    | composite t cs =>
      intro hs env henv σ σ' env' pc pc' hex hcode hsz hN hlr
      rw [exec_composite] at hex
      simp only [isStmtL] at hs
      simp only [SCodeL] at hcode
      simp only [snames] at hN
      have := stmts_simL ih cs hs env henv σ σ' env' pc pc' hex hcode hsz hN hlr
      simpa only [loopFree, sdepthL] using this
    | tri k a b c =>
      cases k with
      | ifElse => exact simL_ifElse hout f L ih a b c
      | setProperty => intro hs; simp [isStmtL] at hs
    | bin k a b =>
      cases k with
      | ifTrue => exact simL_ifTrue hout f L ih a b
      | ifFalse => exact simL_ifFalse hout f L ih a b
      | «while» => exact simL_while hout f L ih a b
      | _ => intro hs; simp [isStmtL] at hs
    | _ => intro hs; simp [isStmtL] at hs


end stmtsimL

/-- stack slots needed above the locals that are in scope at the beginning of the cards -/
def tdepths (d : Int) : LCtx → List Card → Nat
  | _, [] => 0
  | L, c :: cs =>
    match declOf L c with
    | some (n, e) => max (edepth e) (1 + tdepths d (L ++ [(n, d)]) cs)
    | none => max (sdepthL c) (tdepths d L cs)

theorem scopeOf_append (L : LCtx) (n : String) (d : Int) :
    scopeOf (L ++ [(n, d)]) = scopeOf L ++ [(n, L.length)] := by
  unfold scopeOf
  rw [List.map_append, List.zipIdx_append]
  simp

theorem tcodes_le {B : Array UInt8} {F : List (UInt32 × Nat)} {d : Int} :
    ∀ {cs : List Card} {L : LCtx} {pc pc' : Nat}, isTops d L cs = true → TCodes B F d L cs pc pc' → pc ≤ pc'
  | [], _, _, _, _, h => by simp only [TCodes] at h; omega
  | c :: cs, L, _, _, hs, h => by
    simp only [TCodes] at h
    simp only [isTops] at hs
    rcases hdecl : declOf L c with _ | ⟨n, e⟩
    · simp only [hdecl, Bool.and_eq_true] at hs h
      obtain ⟨m, h1, h2⟩ := h
      have := scodeL_le hs.1 h1; have := tcodes_le hs.2 h2; omega
    · simp only [hdecl, Bool.and_eq_true] at hs h
      obtain ⟨m, h1, _, _, h2⟩ := h
      have := ecodeL_lt h1; have := tcodes_le hs.2 h2; omega

section topsim
variable {P : Prog} {F : List (UInt32 × Nat)} {N : String → Prop} {cx : Sem.Ctx} (hout : cx.outer = [])
include hout

theorem tops_sim (d : Int) (f : Nat) (hsim : ∀ L c, StmtSimL P F N cx f L c) :
    ∀ (cs : List Card) (L : LCtx), isTops d L cs = true → ∀ (σ σ' : Sem.St) (env' : Sem.Env) (pc pc' : Nat),
      Sem.execListWith (Sem.exec cx f) [scopeOf L] σ cs = (σ', env', .ok ()) →
      TCodes P.bytecode F d L cs pc pc' → pc' ≤ P.bytecode.size → (∀ n ∈ snamess cs, N n) → LRel L σ →
      [scopeOf (topsCtx d L cs)] = env' ∧ SemFrame σ σ' ∧ LRel (topsCtx d L cs) σ' ∧
        VmSimL P F N σ σ' pc pc' (tdepths d L cs) (loopFrees cs)
  | [], L => by
    intro _ σ σ' env' pc pc' hex hcode _ _ hlr
    simp only [Sem.execListWith, Prod.mk.injEq] at hex
    obtain ⟨rfl, rfl, _⟩ := hex
    simp only [TCodes] at hcode
    subst hcode
    exact ⟨rfl, SemFrame.refl _, hlr, 0, fun _ => Nat.zero_le _, fun vs cap hst _ hg _ =>
      ⟨vs, Reach.refl _ _, hst, SameRest.refl _, hg⟩⟩
  | c :: cs, L => by
    intro hs σ σ' env' pc pc' hex hcode hsz hN hlr
    simp only [isTops] at hs
    simp only [TCodes] at hcode
    simp only [snamess, List.mem_append] at hN
    simp only [topsCtx, tdepths]
    simp only [Sem.execListWith] at hex
    rcases hc : Sem.exec cx f [scopeOf L] σ c with ⟨σ1, env1, r1⟩
    rw [hc] at hex
    cases r1 with
    | ok u =>
      cases u
      simp only at hex
      rcases hdecl : declOf L c with _ | ⟨n, e⟩
      · simp only [hdecl, Bool.and_eq_true] at hs hcode ⊢
        obtain ⟨m, hc1, hc2⟩ := hcode
        have hle2 := tcodes_le hs.2 hc2
        obtain ⟨rfl, e1, hlr1, n1, hn1, hsim1⟩ :=
          hsim L c hs.1 [scopeOf L] (envL_base L) σ σ1 env1 pc m hc hc1 (by omega) (fun n hn => hN n (Or.inl hn)) hlr
        obtain ⟨rfl, e2, hlr2, n2, hn2, hsim2⟩ :=
          tops_sim d f hsim cs L hs.2 σ1 σ' env' m pc' hex hc2 hsz (fun n hn => hN n (Or.inr hn)) hlr1
        refine ⟨rfl, e1.trans e2, hlr2, n1 + n2, ?_, fun vs cap hst hd hg hfr => ?_⟩
        · intro hl
          simp only [loopFrees, Bool.and_eq_true] at hl
          have hle1 := scodeL_le hs.1 hc1
          have := hn1 hl.1; have := hn2 hl.2; omega
        · have := hlr.size; have := hlr1.size
          obtain ⟨vs1, hr1, hst1, hsame1, hg1⟩ := hsim1 vs cap hst (by omega) hg hfr
          obtain ⟨vs2, hr2, hst2, hsame2, hg2⟩ := hsim2 vs1 cap hst1 (by omega) hg1 (hsame1.frameOk hfr)
          exact ⟨vs2, hr1.trans hr2 rfl, hst2, hsame1.trans hsame2, hg2⟩
      · simp only [hdecl, Bool.and_eq_true] at hs hcode ⊢
        obtain ⟨rfl, hnone⟩ := declOf_some hdecl
        obtain ⟨m, hc1, hop, hrd, hc2⟩ := hcode
        have hle2 := tcodes_le hs.2 hc2
        have hlt := ecodeL_lt hc1
        cases f with
        | zero => rw [exec_zero] at hc; simp only [Prod.mk.injEq] at hc; obtain ⟨_, _, h⟩ := hc; cases h
        | succ f' =>
          rw [exec_setVar cx hout f' _ σ e hs.1.1] at hc
          rcases hce : Sem.eval cx f' [scopeOf L] σ e with ⟨σe, enve, re⟩
          rw [hce] at hc
          cases re with
          | ok x =>
            have hsx0 := eval_scalar hout L [scopeOf L] (envL_base L) e hs.1.2 f' σ σe enve x hce hlr
            obtain ⟨rfl, rfl, n1, hn1, hsim1⟩ := eval_simL (P := P) (F := F) (N := N) hout L [scopeOf L] (envL_base L) e hs.1.2 f' σ σe enve x pc m hce hc1 (by omega)
            simp only [lookupEnv_scopeOf, hnone, Prod.mk.injEq, and_true] at hc
            obtain ⟨rfl, rfl⟩ := hc
            have henv : [scopeOf L ++ [(n, (Sem.newCell σe x).2)]] = [scopeOf (L ++ [(n, d)])] := by
              rw [scopeOf_append]; show [scopeOf L ++ [(n, σe.cells.size)]] = _; rw [hlr.size]
            rw [henv] at hex
            have hlr1 : LRel (L ++ [(n, d)]) (Sem.newCell σe x).1 := by
              refine ⟨?_, ?_, hlr.gscalar⟩
              · show (σe.cells.push x).size = _
                simp [hlr.size]
              · intro j v hj
                have hj' : (σe.cells.push x)[j]? = some v := hj
                rw [Array.getElem?_push] at hj'
                split at hj'
                · cases hj'; exact hsx0
                · exact hlr.scalar j v hj'
            obtain ⟨rfl, e2, hlr2, n2, hn2, hsim2⟩ :=
              tops_sim d (f' + 1) hsim cs (L ++ [(n, d)]) hs.2 _ σ' env' (m + 5) pc' hex hc2 hsz
                (fun n hn => hN n (Or.inr hn)) hlr1
            refine ⟨rfl, SemFrame.trans (SemFrame.of_eq (σ := σe) (σ' := (Sem.newCell σe x).1) rfl) e2, hlr2, n1 + 1 + n2, ?_,
              fun vs cap hst hd hg hfr => ?_⟩
            · intro hl
              simp only [loopFrees, Bool.and_eq_true] at hl
              have := hn2 hl.2; omega
            · have hk := hlr.size
              have hpos := edepth_pos e
              obtain ⟨hsx, vs1, hr1, hst1, hsame1, hg1⟩ := hsim1 vs cap _ hst
                (by simp only [List.length_reverse, Array.length_toList]; omega) hg hfr hlr ⟨[], rfl⟩
              obtain ⟨vs2, hr2, hst2, hsame2, hg2⟩ := reach_setLocal_new (P := P) (ip := m) (by omega) hop
                (by simp only [List.length_reverse, Array.length_toList, hk]; exact hrd) (hsame1.frameOk hfr) hst1
                (by simp only [List.length_reverse, Array.length_toList]; omega)
              have hst2' : StackIs vs2.stack cap (Sem.newCell σe x).1.cells.toList.reverse := by
                show StackIs vs2.stack cap (σe.cells.push x).toList.reverse
                simpa using hst2
              obtain ⟨vs3, hr3, hst3, hsame3, hg3⟩ := hsim2 vs2 cap hst2'
                (by show (σe.cells.push x).size + _ < cap; simp only [Array.size_push]; omega)
                (by rw [hg2, hg1]; exact hg) ((hsame1.trans hsame2).frameOk hfr)
              exact ⟨vs3, (hr1.trans hr2 rfl).trans hr3 rfl, hst3, (hsame1.trans hsame2).trans hsame3, hg3⟩
          | outOfFuel | ret _ | exit | err _ | unspecified _ =>
            simp only [Prod.mk.injEq] at hc
            obtain ⟨_, _, h⟩ := hc
            cases h
    | outOfFuel | ret _ | exit | err _ | unspecified _ =>
      simp only [Prod.mk.injEq] at hex
      obtain ⟨_, _, h⟩ := hex
      cases h
end topsim

mutual
  /-- the cards of the fragment with locals, regardless of which locals are declared -/
  def isStmtB : Card → Bool
    | .setGlobalVar n e => !n.isEmpty && isExpr e
    | .setVar n e => simpleName n && isExpr e
    | .bin .ifTrue c b => isExpr c && isStmtB b
    | .bin .ifFalse c b => isExpr c && isStmtB b
    | .bin .while c b => isExpr c && isStmtB b
    | .repeat _ n b => isExpr n && isStmtB b
    | .tri .ifElse c t e => isExpr c && isStmtB t && isStmtB e
    | .composite _ cs => isStmtsB cs
    | .comment _ => true
    | _ => false
  def isStmtsB : List Card → Bool
    | [] => true
    | c :: cs => isStmtB c && isStmtsB cs
end

mutual
theorem isStmtL_B (L : LCtx) : ∀ (c : Card), isStmtL L c = true → isStmtB c = true
  | .setGlobalVar n e => fun h => by simpa only [isStmtL, isStmtB] using h
  | .setVar n e => fun h => by
    simp only [isStmtL, Bool.and_eq_true] at h
    simp only [isStmtB, Bool.and_eq_true]
    exact ⟨h.1.1, h.2⟩
  | .bin .ifTrue c b => fun h => by
    simp only [isStmtL, isStmtB, Bool.and_eq_true] at h ⊢
    exact ⟨h.1, isStmtL_B L b h.2⟩
  | .bin .ifFalse c b => fun h => by
    simp only [isStmtL, isStmtB, Bool.and_eq_true] at h ⊢
    exact ⟨h.1, isStmtL_B L b h.2⟩
  | .bin .while c b => fun h => by
    simp only [isStmtL, isStmtB, Bool.and_eq_true] at h ⊢
    exact ⟨h.1, isStmtL_B L b h.2⟩
  | .tri .ifElse c t e => fun h => by
    simp only [isStmtL, isStmtB, Bool.and_eq_true] at h ⊢
    exact ⟨⟨h.1.1, isStmtL_B L t h.1.2⟩, isStmtL_B L e h.2⟩
  | .composite _ cs => fun h => by
    simp only [isStmtL, isStmtB] at h ⊢
    exact isStmtsL_B L cs h
  | .comment _ => fun _ => rfl
  | .bin .add _ _ | .bin .sub _ _ | .bin .mul _ _ | .bin .div _ _ | .bin .less _ _ | .bin .lessOrEq _ _
  | .bin .equals _ _ | .bin .notEquals _ _ | .bin .and _ _ | .bin .or _ _ | .bin .xor _ _
  | .bin .getProperty _ _ | .bin .get _ _ | .bin .appendTable _ _
  | .un _ _ | .tri .setProperty _ _ _ | .scalarNil | .createTable | .abort | .scalarInt _ | .scalarFloat _
  | .stringLiteral _ | .function _ | .nativeFunction _ | .readVar _ | .callNative _ _
  | .call _ _ | .repeat _ _ _ | .forEach _ _ _ _ _ | .dynamicCall _ _ | .array _ | .closure _ _ => fun h => by
    simp [isStmtL] at h
theorem isStmtsL_B (L : LCtx) : ∀ (cs : List Card), isStmtsL L cs = true → isStmtsB cs = true
  | [] => fun _ => rfl
  | c :: cs => fun h => by
    simp only [isStmtsL, isStmtsB, Bool.and_eq_true] at h ⊢
    exact ⟨isStmtL_B L c h.1, isStmtsL_B L cs h.2⟩
end

theorem isTops_B (d : Int) : ∀ (cs : List Card) (L : LCtx), isTops d L cs = true → isStmtsB cs = true
  | [], _ => fun _ => rfl
  | c :: cs, L => fun h => by
    simp only [isTops] at h
    simp only [isStmtsB, Bool.and_eq_true]
    rcases hdecl : declOf L c with _ | ⟨n, e⟩
    · simp only [hdecl, Bool.and_eq_true] at h
      exact ⟨isStmtL_B L c h.1, isTops_B d cs L h.2⟩
    · simp only [hdecl, Bool.and_eq_true] at h
      obtain ⟨rfl, _⟩ := declOf_some hdecl
      refine ⟨?_, isTops_B d cs _ h.2⟩
      simp only [isStmtB, Bool.and_eq_true]
      exact h.1

theorem isStmtsB_mem : ∀ {cs : List Card}, isStmtsB cs = true → ∀ c ∈ cs, isStmtB c = true
  | [], _, c, hc => by cases hc
  | x :: xs, h, c, hc => by
    simp only [isStmtsB, Bool.and_eq_true] at h
    rcases List.mem_cons.1 hc with rfl | hc
    · exact h.1
    · exact isStmtsB_mem h.2 c hc

/-! ### `Repeat` in the reference semantics -/

theorem exec_repeat (cx : Sem.Ctx) (f : Nat) (env : Sem.Env) (s : Sem.St) (i : Option String) (n b : Card) :
    Sem.exec cx (f + 1) env s (.repeat i n b) =
    (match Sem.eval cx f env s n with
      | (s, env, .ok nv) =>
        match Sem.repeatLoop (fun scope s => Sem.exec cx f (scope :: env) s b) i nv f 0 s with
        | (s, r) => (s, env, r)
      | (s, env, .ret v) => (s, env, .ret v)
      | (s, env, .exit) => (s, env, .exit)
      | (s, env, .err e) => (s, env, .err e)
      | (s, env, .unspecified w) => (s, env, .unspecified w)
      | (s, env, .outOfFuel) => (s, env, .outOfFuel)) := rfl

/-- the store and the scope of one iteration: a fresh cell with a copy of the counter for the loop
    variable -/
def repScope (i : Option String) (k : Int64) (s : Sem.St) : Sem.St × List (String × Nat) :=
  match i with
  | some var => ((Sem.newCell s (.int k)).1, [(var, (Sem.newCell s (.int k)).2)])
  | none => (s, [])

theorem repeatLoop_succ (body : List (String × Nat) → Sem.St → Sem.St × Sem.Env × Sem.Res Unit) (i : Option String)
    (nv : Val) (gas : Nat) (k : Int64) (s : Sem.St) :
    Sem.repeatLoop body i nv (gas + 1) k s =
      if OVal.vlt Sem.F (.int k) (Sem.deepV s nv) then
        match body (repScope i k s).2 (repScope i k s).1 with
        | (s, _, .ok ()) => Sem.repeatLoop body i nv gas (k + 1) s
        | (s, _, .ret v) => (s, .ret v)
        | (s, _, .exit) => (s, .exit)
        | (s, _, .err e) => (s, .err e)
        | (s, _, .unspecified w) => (s, .unspecified w)
        | (s, _, .outOfFuel) => (s, .outOfFuel)
      else (s, .ok ()) := by
  cases i <;> rfl

theorem repeatLoop_benign {body : List (String × Nat) → Sem.St → Sem.St × Sem.Env × Sem.Res Unit}
    (hb : ∀ scope s, benign (body scope s).2.2) (i : Option String) (nv : Val) :
    ∀ (gas : Nat) (k : Int64) (s : Sem.St), benign (Sem.repeatLoop body i nv gas k s).2 := by
  intro gas
  induction gas with
  | zero => intro k s; trivial
  | succ gas ih =>
    intro k s
    rw [repeatLoop_succ]
    split
    · have h := hb (repScope i k s).2 (repScope i k s).1
      rcases hc : body (repScope i k s).2 (repScope i k s).1 with ⟨s2, e2, r2⟩
      rw [hc] at h
      cases r2 with
      | ok u => cases u; exact ih (k + 1) s2
      | _ => first | trivial | exact h
    · trivial

theorem repeatLoop_fuel_mono {body body' : List (String × Nat) → Sem.St → Sem.St × Sem.Env × Sem.Res Unit}
    (hb : ∀ scope s, ¬ isOOF (body scope s).2.2 → body' scope s = body scope s) (i : Option String) (nv : Val) :
    ∀ (gas : Nat) (k : Int64) (s : Sem.St), ¬ isOOF (Sem.repeatLoop body i nv gas k s).2 →
      ∀ gas', gas ≤ gas' → Sem.repeatLoop body' i nv gas' k s = Sem.repeatLoop body i nv gas k s := by
  intro gas
  induction gas with
  | zero => intro k s h; exact absurd trivial h
  | succ gas ih =>
    intro k s h gas' hg
    obtain ⟨g', rfl⟩ : ∃ g', gas' = g' + 1 := ⟨gas' - 1, by omega⟩
    rw [repeatLoop_succ] at h ⊢
    rw [repeatLoop_succ]
    split at h
    · rename_i ht
      simp only [if_pos ht]
      have hbb := hb (repScope i k s).2 (repScope i k s).1
      rcases hc : body (repScope i k s).2 (repScope i k s).1 with ⟨s2, e2, r2⟩
      rw [hc] at h hbb
      rw [hbb (by cases r2 <;> first | exact h | exact fun x => x)]
      cases r2 with
      | ok u => cases u; simp only at h ⊢; exact ih (k + 1) s2 h g' (by omega)
      | _ => rfl
    · rename_i ht; simp only [if_neg ht]

theorem exec_benignB (cx : Sem.Ctx) (hout : cx.outer = []) : ∀ (fuel : Nat) (c : Card), isStmtB c = true → ∀ (env : Sem.Env) (σ : Sem.St),
    benign (Sem.exec cx fuel env σ c).2.2 := by
  intro fuel
  induction fuel with
  | zero => intro c _ env σ; rw [exec_zero]; trivial
  | succ f ih =>
    intro c hs env σ
    cases c with
    | comment t => trivial
    | composite t cs =>
      rw [exec_composite]
      simp only [isStmtB] at hs
      exact execList_benign cs (fun c hc env σ => ih c (isStmtsB_mem hs c hc) env σ) env σ
    | setVar n e =>
      simp only [isStmtB, Bool.and_eq_true] at hs
      rw [exec_setVar cx hout f env σ e hs.1]
      have he := eval_benign cx e hs.2 f env σ
      rcases hc : Sem.eval cx f env σ e with ⟨σ1, env1, r1⟩
      rw [hc] at he
      cases r1 with
      | ok x =>
        simp only
        rcases Sem.lookupEnv env1 n with _ | c
        · cases env1 <;> trivial
        · trivial
      | _ => first | trivial | exact he
    | setGlobalVar n e =>
      simp only [isStmtB, Bool.and_eq_true, Bool.not_eq_true'] at hs
      rw [exec_setGlobal]
      have he := eval_benign cx e hs.2 f env σ
      rcases hc : Sem.eval cx f env σ e with ⟨σ1, env1, r1⟩
      rw [hc] at he
      cases r1 with
      | ok x => simp only [hs.1]; trivial
      | _ => first | trivial | exact he
    | tri k a b c =>
      cases k with
      | setProperty => simp [isStmtB] at hs
      | ifElse =>
        simp only [isStmtB, Bool.and_eq_true] at hs
        rw [exec_ifElse]
        have he := eval_benign cx a hs.1.1 f env σ
        rcases hc : Sem.eval cx f env σ a with ⟨σ1, env1, r1⟩
        rw [hc] at he
        cases r1 with
        | ok x =>
          simp only
          split
          · exact ih b hs.1.2 env1 σ1
          · exact ih c hs.2 env1 σ1
        | _ => first | trivial | exact he
    | bin k a b =>
      cases k with
      | ifTrue =>
        simp only [isStmtB, Bool.and_eq_true] at hs
        rw [exec_ifTrue]
        have he := eval_benign cx a hs.1 f env σ
        rcases hc : Sem.eval cx f env σ a with ⟨σ1, env1, r1⟩
        rw [hc] at he
        cases r1 with
        | ok x =>
          simp only
          split
          · exact ih b hs.2 env1 σ1
          · trivial
        | _ => first | trivial | exact he
      | ifFalse =>
        simp only [isStmtB, Bool.and_eq_true] at hs
        rw [exec_ifFalse]
        have he := eval_benign cx a hs.1 f env σ
        rcases hc : Sem.eval cx f env σ a with ⟨σ1, env1, r1⟩
        rw [hc] at he
        cases r1 with
        | ok x =>
          simp only
          split
          · trivial
          · exact ih b hs.2 env1 σ1
        | _ => first | trivial | exact he
      | «while» =>
        have hs0 := hs
        simp only [isStmtB, Bool.and_eq_true] at hs
        rw [exec_while]
        have he := eval_benign cx a hs.1 f env σ
        rcases hc : Sem.eval cx f env σ a with ⟨σ1, env1, r1⟩
        rw [hc] at he
        cases r1 with
        | ok x =>
          simp only
          split
          · have hb := ih b hs.2 ([] :: env1) σ1
            rcases hc2 : Sem.exec cx f ([] :: env1) σ1 b with ⟨σ2, env2, r2⟩
            rw [hc2] at hb
            cases r2 with
            | ok u => cases u; exact ih _ hs0 env1 σ2
            | _ => first | trivial | exact hb
          · trivial
        | _ => first | trivial | exact he
      | _ => simp [isStmtB] at hs
    | «repeat» i n b =>
      simp only [isStmtB, Bool.and_eq_true] at hs
      rw [exec_repeat]
      have he := eval_benign cx n hs.1 f env σ
      rcases hc : Sem.eval cx f env σ n with ⟨σ1, env1, r1⟩
      rw [hc] at he
      cases r1 with
      | ok nv =>
        simp only
        have hl := repeatLoop_benign (body := fun scope s => Sem.exec cx f (scope :: env1) s b)
          (fun scope s => ih b hs.2 (scope :: env1) s) i nv f 0 σ1
        rcases hc2 : Sem.repeatLoop (fun scope s => Sem.exec cx f (scope :: env1) s b) i nv f 0 σ1 with ⟨σ2, r2⟩
        rw [hc2] at hl
        exact hl
      | _ => first | trivial | exact he
    | _ => simp [isStmtB] at hs



theorem reach_pops {P : Prog} {cap : Nat} : ∀ (l : List Val) (pc : Nat) (vs : VmState),
    (∀ j, j < l.length → P.bytecode.getD (pc + j) 0 = Compiler.op.pop) → pc + l.length ≤ P.bytecode.size →
    StackIs vs.stack cap l →
    ∃ vs', Reach P l.length pc vs (pc + l.length) vs' ∧ StackIs vs'.stack cap [] ∧ SameRest vs vs' ∧
      vs'.globals = vs.globals
  | [], pc, vs, _, _, hst => ⟨vs, Reach.refl _ _, hst, SameRest.refl _, rfl⟩
  | x :: l, pc, vs, hpop, hsz, hst => by
    simp only [List.length_cons] at hpop hsz ⊢
    obtain ⟨vs1, hr1, hst1, hsame1, hg1⟩ := reach_pop (P := P) (ip := pc) (by omega)
      (by have := hpop 0 (by omega); simpa using this) hst
    obtain ⟨vs2, hr2, hst2, hsame2, hg2⟩ := reach_pops l (pc + 1) vs1
      (fun j hj => by have := hpop (j + 1) (by omega); rw [← this]; congr 1; omega) (by omega) hst1
    refine ⟨vs2, ?_, hst2, hsame1.trans hsame2, hg2.trans hg1⟩
    have := hr1.trans hr2 (Nat.add_comm _ _)
    rw [show pc + (l.length + 1) = pc + 1 + l.length by omega]
    exact this


theorem frameOk_start (cfg : Config) (maxInstr : Nat) : FrameOk (startState cfg maxInstr) :=
  ⟨{ src := 0, dst := 0, stackOffset := 0, closure := none }, by simp [startState, VmState.fresh], rfl⟩

theorem lrel_empty : LRel [] ({} : Sem.St) :=
  ⟨rfl, fun i v h => by simp at h, fun n v h => by cases h⟩

/-- agreement of the globals, from the relation at the end of the run -/
theorem globals_agree {p : Program} {N : String → Prop} {σ' : Sem.St} {env' : Sem.Env} {r : Sem.Res Unit}
    {vs : VmState} (hg : GRel p.varIds N σ'.globals vs.globals) (hFinj : FInj p.varIds) (hinj : HInj N)
    {g : String} (hgN : N g) :
    vmGlobal p vs g = semGlobal (render (σ', env', r)) g := by
  rw [semGlobal_render]
  show (match gidOf p.varIds g with
    | some id => ((vs.globals[id]?).map (ownD vs.heap)).getD .nil
    | none => .nil) = _
  rcases hl : glookup σ'.globals g with _ | v
  · simp only [Option.map_none, Option.getD_none]
    rcases hid : gidOf p.varIds g with _ | id
    · rfl
    · simp only
      rcases hv : vs.globals[id]? with _ | v
      · rfl
      · simp only [Option.map_some, Option.getD_some]
        by_cases hnil : v = .nil
        · subst hnil; rfl
        · obtain ⟨g', hl', hid'⟩ := hg.vm_sem id v hv hnil
          obtain ⟨hg', _, _⟩ := hg.sem_vm g' v hl'
          have := gidOf_inj hFinj hinj hg' hgN hid' hid
          subst this
          rw [hl] at hl'; cases hl'
  · obtain ⟨_, hsv, id, hid, hv⟩ := hg.sem_vm g v hl
    simp only [hid, hv, Option.map_some, Option.getD_some]
    exact ownD_scalar hsv _ _

/-- The core of the compile-correctness theorems for `main` with locals. -/
theorem compile_correct_coreL (m std : Module) (limit fuel : Nat) (cfg : Config) (p : Program) (f : Func)
    (hmain : mainFn m = some f) (hargs : f.arguments = []) (hfrag : isTops 1 [] f.cards = true)
    (hinj : HInj (· ∈ snamess f.cards))
    (hc : compile m std limit = .ok p)
    (hB : p.bytecode.size < 4294967296) (hV : p.varIds.length < 4294967296)
    (hstack : tdepths 1 [] f.cards < cfg.stackSize) (hcalls : 0 < cfg.callStackSize)
    (hsem : (Sem.run m std fuel).result = "ok") :
    ∃ n, (loopFrees f.cards = true → n + 2 ≤ p.bytecode.size + 1) ∧
      ∀ maxInstr, n + 2 ≤ maxInstr →
        (Vm.run (Prog.ofProgram p) maxInstr (VmState.fresh cfg)).2.isNone = true ∧
        (Vm.run (Prog.ofProgram p) maxInstr (VmState.fresh cfg)).1.hostLog = (Sem.run m std fuel).log ∧
        ∀ g ∈ snamess f.cards,
          vmGlobal p (Vm.run (Prog.ofProgram p) maxInstr (VmState.fresh cfg)).1 g =
            semGlobal (Sem.run m std fuel) g := by
  obtain ⟨i, nf, hi, hf, rfl⟩ := mainFn_some hmain
  obtain ⟨mainEnd, hcode, hpops, hexit, hend, hFinj⟩ := compile_mainL hc hi hf hargs hfrag hB hV
  obtain ⟨cx, hout, hrun⟩ := sem_run_main (std := std) (fuel := fuel) hi hf
  rw [hrun] at hsem ⊢
  have hB' := isTops_B 1 nf.2.cards [] hfrag
  have hben : benign (Sem.execList cx fuel [[]] {} nf.2.cards).2.2 :=
    execList_benign _ (fun c hc env σ => exec_benignB cx hout fuel c (isStmtsB_mem hB' c hc) env σ) _ _
  have hok := render_ok hben hsem
  rcases hex : Sem.execList cx fuel [[]] {} nf.2.cards with ⟨σ', env', r⟩
  rw [hex] at hok
  simp only at hok
  subst hok
  obtain ⟨_, hσ, hlr', n, hn, hsim⟩ := tops_sim (P := Prog.ofProgram p) (F := p.varIds)
    (N := (· ∈ snamess nf.2.cards)) hout 1 fuel (fun L c => exec_simL hout hFinj hinj L fuel c) nf.2.cards []
    hfrag {} σ' env' 0 mainEnd hex hcode (Nat.le_trans (Nat.le_add_right _ _) (Nat.le_of_lt hend)) (fun n hn => hn) lrel_empty
  have hk : σ'.cells.toList.reverse.length = (topsCtx 1 [] nf.2.cards).length := by
    simp [hlr'.size]
  refine ⟨n + (topsCtx 1 [] nf.2.cards).length, fun hl => by have := hn hl; omega, fun maxInstr hmax => ?_⟩
  obtain ⟨vsK, hr, hstK, hsameK, hgK⟩ := hsim (startState cfg maxInstr) cfg.stackSize
    (stackIs_new _) (by show 0 + _ < _; omega) (grel_empty _ _) (frameOk_start _ _)
  obtain ⟨vsP, hrP, hstP, hsameP, hgP⟩ := reach_pops (P := Prog.ofProgram p) σ'.cells.toList.reverse mainEnd vsK
    (fun j hj => hpops j (by rw [← hk]; exact hj)) (by rw [hk]; exact Nat.le_of_lt hend) hstK
  rw [hk] at hrP
  rw [vm_run_of_reach hcalls (hr.trans hrP rfl) hexit hend hmax]
  have hsame := hsameK.trans hsameP
  have hlog : vsP.hostLog = [] := by rw [hsame]; rfl
  have hσlog : σ'.log = [] := by rw [hσ.eq]
  refine ⟨rfl, ?_, fun g hg => ?_⟩
  · show vsP.hostLog = σ'.log
    rw [hlog, hσlog]
  · exact globals_agree (vs := { tick vsP with frames := (tick vsP).frames.take 0, guards := (VmState.fresh cfg).guards })
      (by show GRel _ _ _ vsP.globals; rw [hgP]; exact hgK) hFinj hinj hg


/-- **Fragment F2** = F1 plus locals of `main`: `SetVar n e` (simple name) declares the local `n`
    when it occurs directly in the card list of `main` and `n` is not yet a local, and assigns it
    otherwise; inside `If*` / `While` bodies and composites only declared locals may be assigned;
    `ReadVar n` reads the local `n` if it is declared and the global otherwise. -/
def InF2 (m : Module) : Bool :=
  match mainFn m with
  | some f => f.arguments.isEmpty && isTops 1 [] f.cards
  | none => false

theorem inF2_main {m : Module} (h : InF2 m = true) :
    ∃ f, mainFn m = some f ∧ f.arguments = [] ∧ isTops 1 [] f.cards = true ∧ mainCards m = f.cards := by
  unfold InF2 at h
  unfold mainCards
  rcases hm : mainFn m with _ | f
  · rw [hm] at h; cases h
  · rw [hm] at h
    simp only [Bool.and_eq_true, List.isEmpty_iff] at h
    exact ⟨f, rfl, h.1, h.2, rfl⟩

/-- **C01 for fragment F2 (locals of `main`, with loops).** -/
theorem compile_correct_F2 (m std : Module) (limit fuel : Nat) (cfg : Config) (p : Program)
    (hfrag : InF2 m = true) (hnames : handlesDistinct (snamess (mainCards m)) = true)
    (hc : compile m std limit = .ok p)
    (hB : p.bytecode.size < 4294967296) (hV : p.varIds.length < 4294967296)
    (hstack : tdepths 1 [] (mainCards m) < cfg.stackSize) (hcalls : 0 < cfg.callStackSize)
    (hsem : (Sem.run m std fuel).result = "ok") :
    ∃ budget, ∀ maxInstr, budget ≤ maxInstr →
      Agree p (snamess (mainCards m)) (Vm.run (Prog.ofProgram p) maxInstr (VmState.fresh cfg))
        (Sem.run m std fuel) := by
  obtain ⟨f, hmain, hargs, hst, hcards⟩ := inF2_main hfrag
  rw [hcards] at hnames hstack ⊢
  obtain ⟨n, _, hall⟩ := compile_correct_coreL m std limit fuel cfg p f hmain hargs hst
    (hinj_of_handlesDistinct hnames) hc hB hV hstack hcalls hsem
  refine ⟨n + 2, fun maxInstr hmax => ?_⟩
  obtain ⟨h1, h2, h3⟩ := hall maxInstr hmax
  exact ⟨⟨h1, hsem⟩, h2, h3⟩

/-- **C01 for the loop-free part of F2**, with the explicit budget "more instructions than bytes". -/
theorem compile_correct_F2_loopFree (m std : Module) (limit fuel maxInstr : Nat) (cfg : Config) (p : Program)
    (hfrag : InF2 m = true) (hlf : loopFrees (mainCards m) = true)
    (hnames : handlesDistinct (snamess (mainCards m)) = true)
    (hc : compile m std limit = .ok p)
    (hB : p.bytecode.size < 4294967296) (hV : p.varIds.length < 4294967296)
    (hbudget : p.bytecode.size < maxInstr)
    (hstack : tdepths 1 [] (mainCards m) < cfg.stackSize) (hcalls : 0 < cfg.callStackSize)
    (hsem : (Sem.run m std fuel).result = "ok") :
    Agree p (snamess (mainCards m)) (Vm.run (Prog.ofProgram p) maxInstr (VmState.fresh cfg))
      (Sem.run m std fuel) := by
  obtain ⟨f, hmain, hargs, hst, hcards⟩ := inF2_main hfrag
  rw [hcards] at hnames hstack hlf ⊢
  obtain ⟨n, hn, hall⟩ := compile_correct_coreL m std limit fuel cfg p f hmain hargs hst
    (hinj_of_handlesDistinct hnames) hc hB hV hstack hcalls hsem
  obtain ⟨h1, h2, h3⟩ := hall maxInstr (by have := hn hlf; omega)
  exact ⟨⟨h1, hsem⟩, h2, h3⟩

/-- on F2 the reference semantics never yields an error, a `Return` or an `Abort` -/
theorem sem_run_benign_F2 (m std : Module) (hfrag : InF2 m = true) (fuel : Nat) :
    ∃ x, Sem.run m std fuel = render x ∧ benign x.2.2 := by
  obtain ⟨fn, hmain, _, hst, _⟩ := inF2_main hfrag
  obtain ⟨i, nf, hi, hf, rfl⟩ := mainFn_some hmain
  obtain ⟨cx, hout, hrun⟩ := sem_run_main (std := std) (fuel := fuel) hi hf
  have hB' := isTops_B 1 nf.2.cards [] hst
  exact ⟨_, hrun, execList_benign _ (fun c hc env σ => exec_benignB cx hout fuel c (isStmtsB_mem hB' c hc) env σ) _ _⟩

theorem exec_fuel_monoB (cx : Sem.Ctx) (hout : cx.outer = []) : ∀ (f : Nat) (c : Card), isStmtB c = true → ∀ (env : Sem.Env) (σ : Sem.St),
    ¬ isOOF (Sem.exec cx f env σ c).2.2 → ∀ f', f ≤ f' → Sem.exec cx f' env σ c = Sem.exec cx f env σ c := by
  intro f
  induction f with
  | zero => intro c _ env σ h; rw [exec_zero] at h; exact absurd trivial h
  | succ f ih =>
    intro c hs env σ h f' hf
    obtain ⟨k, rfl⟩ : ∃ k, f' = k + 1 := ⟨f' - 1, by omega⟩
    have hk : f ≤ k := by omega
    cases c with
    | comment t => rfl
    | composite t cs =>
      rw [exec_composite] at h ⊢
      rw [exec_composite]
      simp only [isStmtB] at hs
      exact execList_fuel_mono cs (fun c hc env σ hn => ih c (isStmtsB_mem hs c hc) env σ hn k hk) env σ h
    | setVar n e =>
      simp only [isStmtB, Bool.and_eq_true] at hs
      rw [exec_setVar cx hout f env σ e hs.1] at h ⊢
      rw [exec_setVar cx hout k env σ e hs.1]
      have ihe := eval_fuel_mono cx e hs.2 f env σ
      rcases hc : Sem.eval cx f env σ e with ⟨σ1, env1, r1⟩
      rw [hc] at h ihe
      rw [ihe (by cases r1 <;> first | exact h | exact fun x => x) k hk]
    | setGlobalVar n e =>
      simp only [isStmtB, Bool.and_eq_true, Bool.not_eq_true'] at hs
      rw [exec_setGlobal] at h ⊢
      rw [exec_setGlobal]
      have ihe := eval_fuel_mono cx e hs.2 f env σ
      rcases hc : Sem.eval cx f env σ e with ⟨σ1, env1, r1⟩
      rw [hc] at h ihe
      rw [ihe (by cases r1 <;> first | exact h | exact fun x => x) k hk]
    | tri kk a b c =>
      cases kk with
      | setProperty => simp [isStmtB] at hs
      | ifElse =>
        simp only [isStmtB, Bool.and_eq_true] at hs
        rw [exec_ifElse] at h ⊢
        rw [exec_ifElse]
        have ihe := eval_fuel_mono cx a hs.1.1 f env σ
        rcases hc : Sem.eval cx f env σ a with ⟨σ1, env1, r1⟩
        rw [hc] at h ihe
        rw [ihe (by cases r1 <;> first | exact h | exact fun x => x) k hk]
        cases r1 with
        | ok x =>
          simp only at h ⊢
          split at h
          · rename_i ht; simp only [if_pos ht]; exact ih b hs.1.2 env1 σ1 h k hk
          · rename_i ht; simp only [if_neg ht]; exact ih c hs.2 env1 σ1 h k hk
        | _ => rfl
    | bin kk a b =>
      cases kk with
      | ifTrue =>
        simp only [isStmtB, Bool.and_eq_true] at hs
        rw [exec_ifTrue] at h ⊢
        rw [exec_ifTrue]
        have ihe := eval_fuel_mono cx a hs.1 f env σ
        rcases hc : Sem.eval cx f env σ a with ⟨σ1, env1, r1⟩
        rw [hc] at h ihe
        rw [ihe (by cases r1 <;> first | exact h | exact fun x => x) k hk]
        cases r1 with
        | ok x =>
          simp only at h ⊢
          split at h
          · rename_i ht; simp only [if_pos ht]; exact ih b hs.2 env1 σ1 h k hk
          · rename_i ht; simp only [if_neg ht]
        | _ => rfl
      | ifFalse =>
        simp only [isStmtB, Bool.and_eq_true] at hs
        rw [exec_ifFalse] at h ⊢
        rw [exec_ifFalse]
        have ihe := eval_fuel_mono cx a hs.1 f env σ
        rcases hc : Sem.eval cx f env σ a with ⟨σ1, env1, r1⟩
        rw [hc] at h ihe
        rw [ihe (by cases r1 <;> first | exact h | exact fun x => x) k hk]
        cases r1 with
        | ok x =>
          simp only at h ⊢
          split at h
          · rename_i ht; simp only [if_pos ht]
          · rename_i ht; simp only [if_neg ht]; exact ih b hs.2 env1 σ1 h k hk
        | _ => rfl
      | «while» =>
        have hs0 := hs
        simp only [isStmtB, Bool.and_eq_true] at hs
        rw [exec_while] at h ⊢
        rw [exec_while]
        have ihe := eval_fuel_mono cx a hs.1 f env σ
        rcases hc : Sem.eval cx f env σ a with ⟨σ1, env1, r1⟩
        rw [hc] at h ihe
        rw [ihe (by cases r1 <;> first | exact h | exact fun x => x) k hk]
        cases r1 with
        | ok x =>
          simp only at h ⊢
          split at h
          · rename_i ht
            simp only [if_pos ht]
            have ihb := ih b hs.2 ([] :: env1) σ1
            rcases hc2 : Sem.exec cx f ([] :: env1) σ1 b with ⟨σ2, env2, r2⟩
            rw [hc2] at h ihb
            rw [ihb (by cases r2 <;> first | exact h | exact fun x => x) k hk]
            cases r2 with
            | ok u => cases u; simp only at h ⊢; exact ih _ hs0 env1 σ2 h k hk
            | _ => rfl
          · rename_i ht; simp only [if_neg ht]
        | _ => rfl
      | _ => simp [isStmtB] at hs
    | «repeat» i n b =>
      simp only [isStmtB, Bool.and_eq_true] at hs
      rw [exec_repeat] at h ⊢
      rw [exec_repeat]
      have ihe := eval_fuel_mono cx n hs.1 f env σ
      rcases hc : Sem.eval cx f env σ n with ⟨σ1, env1, r1⟩
      rw [hc] at h ihe
      rw [ihe (by cases r1 <;> first | exact h | exact fun x => x) k hk]
      cases r1 with
      | ok nv =>
        simp only at h ⊢
        have hl := repeatLoop_fuel_mono (body := fun scope s => Sem.exec cx f (scope :: env1) s b)
          (body' := fun scope s => Sem.exec cx k (scope :: env1) s b)
          (fun scope s hn => ih b hs.2 (scope :: env1) s hn k hk) i nv f 0 σ1
        rcases hc2 : Sem.repeatLoop (fun scope s => Sem.exec cx f (scope :: env1) s b) i nv f 0 σ1 with ⟨σ2, r2⟩
        rw [hc2] at h hl
        rw [hl h k hk]
      | _ => rfl
    | _ => simp [isStmtB] at hs


/-- **Fuel independence on F2**. -/
theorem sem_run_fuel_mono_F2 (m std : Module) (hfrag : InF2 m = true) (f f' : Nat) (hle : f ≤ f')
    (h : (Sem.run m std f).result ≠ "unspecified:out of fuel") : Sem.run m std f' = Sem.run m std f := by
  obtain ⟨fn, hmain, _, hst, _⟩ := inF2_main hfrag
  obtain ⟨i, nf, hi, hf, rfl⟩ := mainFn_some hmain
  obtain ⟨cx, hout, hrun⟩ := sem_run_main' (std := std) hi hf
  rw [hrun f] at h
  rw [hrun f', hrun f]
  have hB' := isTops_B 1 nf.2.cards [] hst
  have hn : ¬ isOOF (Sem.execList cx f [[]] {} nf.2.cards).2.2 := by
    intro hoof
    rcases hx : Sem.execList cx f [[]] {} nf.2.cards with ⟨σ1, env1, r1⟩
    rw [hx] at h hoof
    cases r1 <;> first | exact hoof | exact h rfl
  have : Sem.execList cx f' [[]] {} nf.2.cards = Sem.execList cx f [[]] {} nf.2.cards :=
    execList_fuel_mono nf.2.cards
      (fun c hc env σ hnc => exec_fuel_monoB cx hout f c (isStmtsB_mem hB' c hc) env σ hnc f' hle) [[]] {} hn
  rw [this]

/-! ## the statements of the fragments without calls do not change the call counter -/

theorem readVar_state (cx : Sem.Ctx) (env : Sem.Env) (σ : Sem.St) {n : String} (hn : simpleName n = true) :
    (Sem.readVar cx env σ n).1 = σ := by
  simp only [simpleName, Bool.and_eq_true, decide_eq_true_eq, Bool.not_eq_true'] at hn
  obtain ⟨hsplit, hne⟩ := hn
  unfold Sem.readVar
  simp only [hsplit, List.filter_nil, hne, Bool.false_eq_true, if_false, List.foldl_nil]
  split <;> rfl

theorem eval_state (cx : Sem.Ctx) : ∀ (e : Card), isExpr e = true → ∀ (fuel : Nat) (env : Sem.Env) (σ : Sem.St),
    (Sem.eval cx fuel env σ e).1 = σ
  | .scalarInt _ => by intro _ fuel env σ; cases fuel <;> rfl
  | .scalarFloat _ => by intro _ fuel env σ; cases fuel <;> rfl
  | .scalarNil => by intro _ fuel env σ; cases fuel <;> rfl
  | .readVar n => by
    intro he fuel env σ
    cases fuel with
    | zero => rfl
    | succ f => rw [eval_readVar]; exact readVar_state cx env σ he
  | .un .not c => by
    intro he fuel env σ
    simp only [isExpr] at he
    cases fuel with
    | zero => rfl
    | succ f =>
      rw [eval_not]
      have := eval_state cx c he f env σ
      rcases hc : Sem.eval cx f env σ c with ⟨σ1, env1, r1⟩
      rw [hc] at this
      cases r1 <;> exact this
  | .bin k a b => by
    intro he fuel env σ
    simp only [isExpr, Bool.and_eq_true] at he
    obtain ⟨⟨hk, hea⟩, heb⟩ := he
    cases fuel with
    | zero => rfl
    | succ f =>
      rw [eval_bin _ _ _ _ k hk]
      have ha := eval_state cx a hea f env σ
      rcases hc : Sem.eval cx f env σ a with ⟨σ1, env1, r1⟩
      rw [hc] at ha
      simp only at ha
      subst ha
      cases r1 with
      | ok va =>
        simp only
        have hb := eval_state cx b heb f env1 σ1
        rcases hc2 : Sem.eval cx f env1 σ1 b with ⟨σ2, env2, r2⟩
        rw [hc2] at hb
        cases r2 <;> exact hb
      | _ => rfl
  | .un .ret _ | .un .len _ | .un .popTable _ | .tri _ _ _ _ | .createTable | .abort | .stringLiteral _
  | .comment _ | .function _ | .nativeFunction _ | .setVar _ _ | .setGlobalVar _ _ | .callNative _ _
  | .call _ _ | .repeat _ _ _ | .forEach _ _ _ _ _ | .composite _ _ | .dynamicCall _ _ | .array _
  | .closure _ _ => by
    intro he
    simp [isExpr] at he

theorem execList_calls {ex : Sem.Env → Sem.St → Card → Sem.St × Sem.Env × Sem.Res Unit}
    : ∀ (cs : List Card), (∀ c ∈ cs, ∀ env σ, (ex env σ c).1.calls = σ.calls) → ∀ (env : Sem.Env) (σ : Sem.St),
      (Sem.execListWith ex env σ cs).1.calls = σ.calls
  | [], _, env, σ => rfl
  | c :: cs, h, env, σ => by
    simp only [Sem.execListWith]
    have hc := h c (List.mem_cons_self ..) env σ
    rcases he : ex env σ c with ⟨σ1, env1, r1⟩
    rw [he] at hc
    cases r1 with
    | ok u =>
      cases u
      exact (execList_calls cs (fun c hc => h c (List.mem_cons_of_mem _ hc)) env1 σ1).trans hc
    | _ => exact hc

theorem repeatLoop_calls {body : List (String × Nat) → Sem.St → Sem.St × Sem.Env × Sem.Res Unit}
    (hb : ∀ scope s, (body scope s).1.calls = s.calls) (i : Option String) (nv : Val) :
    ∀ (gas : Nat) (k : Int64) (s : Sem.St), (Sem.repeatLoop body i nv gas k s).1.calls = s.calls := by
  intro gas
  induction gas with
  | zero => intro k s; rfl
  | succ gas ih =>
    intro k s
    rw [repeatLoop_succ]
    have hsc : (repScope i k s).1.calls = s.calls := by cases i <;> rfl
    split
    · have h := hb (repScope i k s).2 (repScope i k s).1
      rcases hc : body (repScope i k s).2 (repScope i k s).1 with ⟨s2, e2, r2⟩
      rw [hc] at h
      simp only at h
      cases r2 with
      | ok u => cases u; exact (ih (k + 1) s2).trans (h.trans hsc)
      | _ => exact h.trans hsc
    · rfl

theorem exec_callsB (cx : Sem.Ctx) (hout : cx.outer = []) : ∀ (fuel : Nat) (c : Card), isStmtB c = true →
    ∀ (env : Sem.Env) (σ : Sem.St), (Sem.exec cx fuel env σ c).1.calls = σ.calls := by
  intro fuel
  induction fuel with
  | zero => intro c _ env σ; rw [exec_zero]
  | succ f ih =>
    intro c hs env σ
    cases c with
    | comment t => rfl
    | composite t cs =>
      rw [exec_composite]
      simp only [isStmtB] at hs
      exact execList_calls cs (fun c hc env σ => ih c (isStmtsB_mem hs c hc) env σ) env σ
    | setVar n e =>
      simp only [isStmtB, Bool.and_eq_true] at hs
      rw [exec_setVar cx hout f env σ e hs.1]
      have he := eval_state cx e hs.2 f env σ
      rcases hc : Sem.eval cx f env σ e with ⟨σ1, env1, r1⟩
      rw [hc] at he
      simp only at he
      subst he
      cases r1 with
      | ok x =>
        simp only
        rcases Sem.lookupEnv env1 n with _ | c
        · cases env1 <;> rfl
        · rfl
      | _ => rfl
    | setGlobalVar n e =>
      simp only [isStmtB, Bool.and_eq_true, Bool.not_eq_true'] at hs
      rw [exec_setGlobal]
      have he := eval_state cx e hs.2 f env σ
      rcases hc : Sem.eval cx f env σ e with ⟨σ1, env1, r1⟩
      rw [hc] at he
      simp only at he
      subst he
      cases r1 with
      | ok x => simp only [hs.1]; rfl
      | _ => rfl
    | tri k a b c =>
      cases k with
      | setProperty => simp [isStmtB] at hs
      | ifElse =>
        simp only [isStmtB, Bool.and_eq_true] at hs
        rw [exec_ifElse]
        have he := eval_state cx a hs.1.1 f env σ
        rcases hc : Sem.eval cx f env σ a with ⟨σ1, env1, r1⟩
        rw [hc] at he
        simp only at he
        subst he
        cases r1 with
        | ok x =>
          simp only
          split
          · exact ih b hs.1.2 env1 σ1
          · exact ih c hs.2 env1 σ1
        | _ => rfl
    | bin k a b =>
      cases k with
      | ifTrue =>
        simp only [isStmtB, Bool.and_eq_true] at hs
        rw [exec_ifTrue]
        have he := eval_state cx a hs.1 f env σ
        rcases hc : Sem.eval cx f env σ a with ⟨σ1, env1, r1⟩
        rw [hc] at he
        simp only at he
        subst he
        cases r1 with
        | ok x =>
          simp only
          split
          · exact ih b hs.2 env1 σ1
          · rfl
        | _ => rfl
      | ifFalse =>
        simp only [isStmtB, Bool.and_eq_true] at hs
        rw [exec_ifFalse]
        have he := eval_state cx a hs.1 f env σ
        rcases hc : Sem.eval cx f env σ a with ⟨σ1, env1, r1⟩
        rw [hc] at he
        simp only at he
        subst he
        cases r1 with
        | ok x =>
          simp only
          split
          · rfl
          · exact ih b hs.2 env1 σ1
        | _ => rfl
      | «while» =>
        have hs0 := hs
        simp only [isStmtB, Bool.and_eq_true] at hs
        rw [exec_while]
        have he := eval_state cx a hs.1 f env σ
        rcases hc : Sem.eval cx f env σ a with ⟨σ1, env1, r1⟩
        rw [hc] at he
        simp only at he
        subst he
        cases r1 with
        | ok x =>
          simp only
          split
          · have hb := ih b hs.2 ([] :: env1) σ1
            rcases hc2 : Sem.exec cx f ([] :: env1) σ1 b with ⟨σ2, env2, r2⟩
            rw [hc2] at hb
            simp only at hb
            cases r2 with
            | ok u => cases u; exact (ih _ hs0 env1 σ2).trans hb
            | _ => exact hb
          · rfl
        | _ => rfl
      | _ => simp [isStmtB] at hs
    | «repeat» i n b =>
      simp only [isStmtB, Bool.and_eq_true] at hs
      rw [exec_repeat]
      have he := eval_state cx n hs.1 f env σ
      rcases hc : Sem.eval cx f env σ n with ⟨σ1, env1, r1⟩
      rw [hc] at he
      simp only at he
      subst he
      cases r1 with
      | ok nv =>
        simp only
        have hl := repeatLoop_calls (body := fun scope s => Sem.exec cx f (scope :: env1) s b)
          (fun scope s => ih b hs.2 (scope :: env1) s) i nv f 0 σ1
        rcases hc2 : Sem.repeatLoop (fun scope s => Sem.exec cx f (scope :: env1) s b) i nv f 0 σ1 with ⟨σ2, r2⟩
        rw [hc2] at hl
        exact hl
      | _ => rfl
    | _ => simp [isStmtB] at hs


/-! ### an example with locals (shown by evaluation: `String.splitOn` does not reduce in the kernel) -/

theorem splitOn_a : ("a" : String).splitOn "." = ["a"] := by
  simp (config := {decide := true}) [String.splitOn, String.splitOnAux]

theorem simpleName_a : simpleName "a" = true := by
  unfold simpleName; rw [splitOn_a]; decide

/-- `a = 0; i = 0; while i < 4 { a = a + i; i = i + 1 }; sum = a` with locals `a`, `i` -/
def exLocals : Module := Module.mk [] [("main", { arguments := [], cards := [
  .setVar "a" (.scalarInt 0),
  .setVar "i" (.scalarInt 0),
  .bin .while (.bin .less (.readVar "i") (.scalarInt 4)) (.composite "b" [
    .setVar "a" (.bin .add (.readVar "a") (.readVar "i")),
    .setVar "i" (.bin .add (.readVar "i") (.scalarInt 1))]),
  .setGlobalVar "sum" (.readVar "a")] })] []

theorem exLocals_inF2 : InF2 exLocals = true := by
  have hm : mainFn exLocals = some { arguments := [], cards := [
      .setVar "a" (.scalarInt 0),
      .setVar "i" (.scalarInt 0),
      .bin .while (.bin .less (.readVar "i") (.scalarInt 4)) (.composite "b" [
        .setVar "a" (.bin .add (.readVar "a") (.readVar "i")),
        .setVar "i" (.bin .add (.readVar "i") (.scalarInt 1))]),
      .setGlobalVar "sum" (.readVar "a")] } := by rfl
  have l1 : lidx [] "a" = none := by decide
  have l2 : lidx [("a", 1)] "i" = none := by decide
  have l3 : lidx [("a", 1), ("i", 1)] "a" = some 0 := by decide
  have l4 : lidx [("a", 1), ("i", 1)] "i" = some 1 := by decide
  unfold InF2
  rw [hm]
  simp [isTops, declOf, isStmtL, isStmtsL, isExpr, isValOp, simpleName_a, simpleName_i, l1, l2, l3, l4]

/- expected: "SEM: ok [(sum, i6)] | VM: ok [i6]" -/
#eval showBoth exLocals


/-! ### `While` bodies are scoped on both sides (former finding, now agreeing)

The repaired compiler pops the locals declared in a `While` body at the end of every iteration, and
(since the reference semantics was updated) `Sem.exec` runs the body in a fresh scope that is dropped
after each iteration: a local declared in the body is not visible after the loop on either side
(the read of `x` below is a read of a global that was never written). -/

/-- `i = 0; while i < 1 { x = 5; i = i + 1 }; out = x` -/
def exWhileScope : Module := Module.mk [] [("main", { arguments := [], cards := [
  .setGlobalVar "i" (.scalarInt 0),
  .bin .while (.bin .less (.readVar "i") (.scalarInt 1)) (.composite "b" [
    .setVar "x" (.scalarInt 5),
    .setGlobalVar "i" (.bin .add (.readVar "i") (.scalarInt 1))]),
  .setGlobalVar "out" (.readVar "x")] })] []

#eval showBoth exWhileScope

end Cao.C01
