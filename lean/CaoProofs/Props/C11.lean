import CaoProofs.Lemmas.SerdeLemmas
/-!
# C11 — serialization round-trips preserve programs and values

The text/binary formats (serde_json, serde_yaml, ciborium, bincode) are trusted. What the
project's own code does is modelled in `CaoProofs/Lemmas/Serde*.lean` on top of the table and VM
models:

1. **tables** — `HandleTable` / `CaoHashMap` are written as their entry sequence in iteration
   order and read back by `with_capacity(hint)` + one `insert` per entry:
   `ht_roundtrip`, `hm_roundtrip` (every table satisfying the representation invariant of
   C13 / C12, *every* requested capacity including 0 and 1, every allocation oracle),
   `ht_roundtrip_entries`, `hm_roundtrip_entries` (any sequence of distinct (non-null) keys).
2. **runtime values** — `Value → OwnedValue` is `own` / `ownD`, `OwnedValue → Value` is
   `insertValue` (`Vm::insert_value`): `insertValue_roundtrip`, `value_roundtrip`,
   `insertValue_order`, `insertValue_frame`, `insertValue_only_oom`, `insertValue_inv`,
   `value_roundtrip_keys`.
3. **compiled programs** — `program_roundtrip`, `equiv_run`, `program_roundtrip_run`.
4. **source modules** — `module_roundtrip` (`compile` is a function of the module tree),
   `module_tok_roundtrip` / `card_tok_roundtrip` (the harness' token syntax round-trips).
-/
namespace Cao.C11
open Cao Cao.Vm Cao.Gc Cao.C02 Cao.C05 Cao.Serde

/-! ## 1. tables -/
section Tables
variable {V : Type}

/-- every handle table the model can reach from `with_capacity(c)` satisfies the invariant of C13 -/
theorem htInv_reachable (c : Nat) (al al' : Alloc) (t : HTable V)
    (h0 : HTable.withCapacity c al = (al', .ok t)) (ops : List (C13.Op V)) :
    C13.HTInv (C13.finalModel t ops) := by
  have hI : C13.HTInv t := by
    have := C13.ht_withCapacity_inv (V := V) c al
    rw [h0] at this; exact this
  clear h0
  induction ops generalizing t with
  | nil => exact hI
  | cons op ops ih => exact ih _ (C13.step_refines (C13.R_canon hI) op).1.1

/-- **C11 (handle tables)**: for every handle table satisfying the representation invariant
    `C13.HTInv` (in particular every table reachable by the model's operations,
    `htInv_reachable`), every requested capacity `c` (0 and 1 included) and every allocation
    oracle: `deserialize (serialize t)` never panics, reports `allocErr` only when the oracle
    injects a failure, and otherwise yields a table that satisfies the invariant and is the same
    finite map: same `get` for every handle, same `len`, iteration list a permutation. -/
theorem ht_roundtrip {t : HTable V} (hI : C13.HTInv t) (c : Nat) (al : Alloc) :
    ∃ al' r, htDeserialize c (htSerialize t) al = (al', r) ∧ al'.failAt = al.failAt ∧
      ((r = .allocErr ∧ al.failAt ≠ none) ∨
       ∃ t', r = .ok t' ∧ C13.HTInv t' ∧ HTEquiv t t') := by
  obtain ⟨hnd, hnz, hlk, hlen⟩ := ht_toList_facts hI
  obtain ⟨al', r, hd, hfa, hr⟩ := ht_deserialize_list c t.toList al hnd hnz
  refine ⟨al', r, hd, hfa, ?_⟩
  rcases hr with h | ⟨t', h1, h2, h3, h4, h5⟩
  · exact Or.inl h
  · exact Or.inr ⟨t', h1, h2, ⟨fun k => by rw [h3, hlk], by rw [h4, hlen], h5⟩⟩

/-- the same when allocations succeed -/
theorem ht_roundtrip_ok {t : HTable V} (hI : C13.HTInv t) (c : Nat) (al : Alloc)
    (hal : al.failAt = none) :
    ∃ t' al', htDeserialize c (htSerialize t) al = (al', .ok t') ∧ al'.failAt = none ∧
      C13.HTInv t' ∧ HTEquiv t t' := by
  obtain ⟨al', r, hd, hfa, hr⟩ := ht_roundtrip hI c al
  rcases hr with ⟨_, h⟩ | ⟨t', rfl, h2, h3⟩
  · exact absurd hal h
  · exact ⟨t', al', hd, by rw [hfa, hal], h2, h3⟩

/-- with the size hint of any format (`none`: JSON / YAML; `some n`: bincode / CBOR) -/
theorem ht_roundtrip_hint {t : HTable V} (hI : C13.HTInv t) (hint : Option Nat) (al : Alloc)
    (hal : al.failAt = none) :
    ∃ t' al', htDeserialize (hintCap hint) (htSerialize t) al = (al', .ok t') ∧
      C13.HTInv t' ∧ HTEquiv t t' := by
  obtain ⟨t', al', h1, _, h2, h3⟩ := ht_roundtrip_ok hI (hintCap hint) al hal
  exact ⟨t', al', h1, h2, h3⟩

/-- **any sequence of pairwise distinct non-null handles** (the keys of a table) deserializes,
    for every requested capacity, to a table that maps exactly these handles -/
theorem ht_roundtrip_entries (c : Nat) (xs : List (UInt32 × V)) (al : Alloc)
    (hal : al.failAt = none) (hnd : (xs.map Prod.fst).Nodup) (hnz : ∀ kv ∈ xs, kv.1 ≠ 0) :
    ∃ t' al', htDeserialize c xs al = (al', .ok t') ∧ C13.HTInv t' ∧
      (∀ k, t'.get k = AL.lookup xs k) ∧ t'.count = xs.length ∧ t'.toList.Perm xs := by
  obtain ⟨al', r, hd, _, hr⟩ := ht_deserialize_list c xs al hnd hnz
  rcases hr with ⟨_, h⟩ | ⟨t', rfl, h2, h3, h4, h5⟩
  · exact absurd hal h
  · exact ⟨t', al', hd, h2, h3, h4, h5⟩

variable {K : Type} [DecidableEq K]

/-- final state of a `CaoHashMap` operation sequence -/
def hmFinal (hashOf : K → UInt64) (m : HMap K V) : List (C12.Op K V) → HMap K V
  | [] => m
  | op :: ops => hmFinal hashOf (C12.modelStep hashOf m op).1 ops

theorem hmInv_reachable (hashOf : K → UInt64) (c : Nat) (al al' : Alloc) (m : HMap K V)
    (h0 : HMap.withCapacity c al = (al', .ok m)) (ops : List (C12.Op K V)) :
    C12.HInv hashOf (hmFinal hashOf m ops) := by
  have hI : C12.HInv hashOf m := by
    have := C12.hm_withCapacity_inv (V := V) hashOf c al
    rw [h0] at this; exact this
  clear h0
  induction ops generalizing m with
  | nil => exact hI
  | cons op ops ih => exact ih _ (C12.step_refines (C12.R_canon hI) op).1.1

/-- **C11 (hash maps)**: the same for `CaoHashMap` with arbitrary keys and any hash function -/
theorem hm_roundtrip {hashOf : K → UInt64} {m : HMap K V} (hI : C12.HInv hashOf m) (c : Nat)
    (al : Alloc) :
    ∃ al' r, hmDeserialize hashOf c (hmSerialize m) al = (al', r) ∧ al'.failAt = al.failAt ∧
      ((r = .allocErr ∧ al.failAt ≠ none) ∨
       ∃ m', r = .ok m' ∧ C12.HInv hashOf m' ∧ HMEquiv hashOf m m') := by
  obtain ⟨hnd, hlk, hlen⟩ := hm_toList_facts hI
  obtain ⟨al', r, hd, hfa, hr⟩ := hm_deserialize_list hashOf c m.toList al hnd
  refine ⟨al', r, hd, hfa, ?_⟩
  rcases hr with h | ⟨m', h1, h2, h3, h4, h5⟩
  · exact Or.inl h
  · exact Or.inr ⟨m', h1, h2, ⟨fun k => by rw [h3, hlk], by rw [h4, hlen], h5⟩⟩

theorem hm_roundtrip_ok {hashOf : K → UInt64} {m : HMap K V} (hI : C12.HInv hashOf m) (c : Nat)
    (al : Alloc) (hal : al.failAt = none) :
    ∃ m' al', hmDeserialize hashOf c (hmSerialize m) al = (al', .ok m') ∧ al'.failAt = none ∧
      C12.HInv hashOf m' ∧ HMEquiv hashOf m m' := by
  obtain ⟨al', r, hd, hfa, hr⟩ := hm_roundtrip hI c al
  rcases hr with ⟨_, h⟩ | ⟨m', rfl, h2, h3⟩
  · exact absurd hal h
  · exact ⟨m', al', hd, by rw [hfa, hal], h2, h3⟩

theorem hm_roundtrip_entries (hashOf : K → UInt64) (c : Nat) (xs : List (K × V)) (al : Alloc)
    (hal : al.failAt = none) (hnd : (xs.map Prod.fst).Nodup) :
    ∃ m' al', hmDeserialize hashOf c xs al = (al', .ok m') ∧ C12.HInv hashOf m' ∧
      (∀ k, m'.get hashOf k = AL.lookup xs k) ∧ m'.count = xs.length ∧ m'.toList.Perm xs := by
  obtain ⟨al', r, hd, _, hr⟩ := hm_deserialize_list hashOf c xs al hnd
  rcases hr with ⟨_, h⟩ | ⟨m', rfl, h2, h3, h4, h5⟩
  · exact absurd hal h
  · exact ⟨m', al', hd, h2, h3, h4, h5⟩

end Tables

/-! ## 2. runtime values -/

/-- the heap part of the machine invariant of C05 is what `insertValue` needs -/
theorem heapOk_of_inv {s : VmState} (h : C05.Inv s) : HeapOk s := ⟨h.unique, h.fresh⟩

/-- **C11 (values, `insert_value`)**: in any state whose heap has unique addresses below `next`,
    for every storable tree `o` (nil / integers / reals / strings / tables of these with pairwise
    different keys; no function values) — if all allocations succeed, whatever collections they
    run — the inserted value unfolds to `o` again: deep equality, entries in the same order. The
    run leaves the stack, globals, frames, open upvalues and the guard list as they were, keeps
    the heap invariant, and the new value lives at fresh addresses. -/
theorem insertValue_roundtrip {s s' : VmState} {o : OVal} {v' : Val} (hok : HeapOk s)
    (hst : Storable o) (hrun : (insertValue o).run.run s = (.ok v', s')) :
    ownD s'.heap v' = o ∧ own s'.heap (ownFuel s'.heap) v' = some o ∧
    HeapOk s' ∧ s'.stack = s.stack ∧ s'.globals = s.globals ∧ s'.frames = s.frames ∧
    s'.openUpvalues = s.openUpvalues ∧ s'.guards = s.guards ∧
    (∀ a, v' = .obj a → s.heap.next ≤ a ∧ a < s'.heap.next) := by
  have h := insertValue_correct o s hok hst
  rw [hrun] at h
  obtain ⟨g, ho, _⟩ := h
  have ho' := Owns.of_above ho
  refine ⟨ho'.ownD, ho'.own_fuel, g.ok, g.roots.1, g.roots.2.1, g.roots.2.2.1, g.roots.2.2.2,
    g.guards, ?_⟩
  rintro a rfl
  obtain ⟨f, hf⟩ := ho
  cases f with
  | zero => rw [own_zero_obj] at hf; cases hf
  | succ f =>
    cases hg : (heapAbove s'.heap s.heap.next).get a with
    | none => rw [own_none hg] at hf; cases hf
    | some ob =>
      obtain ⟨h1, h2⟩ := heapAbove_sub _ _ _ _ hg
      exact ⟨h1, get_lt_next g.ok.fresh h2⟩

/-- **C11 (value round trip)**: a runtime value `v` of a VM with heap `h`, converted to its owned
    form (`ownD h v`), inserted into another VM (state `s`): the result is deeply equal to the
    original. (`ownD` of a value that does not unfold — cyclic or dangling — is `nil`, which
    round-trips as `nil`.) -/
theorem value_roundtrip (h : Heap) (v : Val) {s s' : VmState} {v' : Val} (hok : HeapOk s)
    (hst : Storable (ownD h v)) (hrun : (insertValue (ownD h v)).run.run s = (.ok v', s')) :
    ownD s'.heap v' = ownD h v :=
  (insertValue_roundtrip hok hst hrun).1

/-- the hypothesis `Storable` of `value_roundtrip` discharged from properties of the source heap:
    the value unfolds (it is acyclic, no dangling address), contains no function values, and the
    keys of every table of the source heap are pairwise different as deep values -/
theorem value_roundtrip_keys {h : Heap} {v : Val} {o : OVal} (hk : KeysDistinct h)
    (ho : own h (ownFuel h) v = some o) (hnf : NoFn o) {s s' : VmState} {v' : Val}
    (hok : HeapOk s) (hrun : (insertValue (ownD h v)).run.run s = (.ok v', s')) :
    ownD s'.heap v' = ownD h v ∧ ownD h v = o := by
  have hd : ownD h v = o := Owns.ownD ⟨_, ho⟩
  have hst : Storable (ownD h v) := by rw [hd]; exact storable_of_own hk _ _ _ ho hnf
  exact ⟨value_roundtrip h v hok hst hrun, hd⟩

/-- the only way `insert_value` of a storable tree fails is a refused allocation -/
theorem insertValue_only_oom {s s' : VmState} {o : OVal} {e : ErrKind} (hok : HeapOk s)
    (hst : Storable o) (hrun : (insertValue o).run.run s = (.error e, s')) : e = .outOfMemory := by
  have h := insertValue_correct o s hok hst
  rw [hrun] at h
  exact h.1

/-- **the accounting invariant of C05** (ledger balanced, within the limit, unique addresses below
    `next`, threshold) is preserved by `insert_value`, whether it succeeds or runs out of memory -/
theorem insertValue_inv {s : VmState} {o : OVal} (hst : Storable o) (hinv : C05.Inv s) :
    C05.Inv ((insertValue o).run.run s).2 := by
  have h := insertValue_correct o s (heapOk_of_inv hinv) hst
  rcases hr : (insertValue o).run.run s with ⟨r, s'⟩
  rw [hr] at h
  cases r with
  | error e => exact h.2 hinv
  | ok v => exact h.2.2 hinv

/-- **table order is preserved**: the table object that `insertValue (.table es)` returns lists,
    in its insertion order, entries whose keys and values unfold to `es`, one by one -/
theorem insertValue_order {s s' : VmState} {es : List (OVal × OVal)} {v' : Val} (hok : HeapOk s)
    (hst : Storable (.table es)) (hrun : (insertValue (.table es)).run.run s = (.ok v', s')) :
    ∃ a cap esV, v' = .obj a ∧ s'.heap.get a = some (.table cap esV) ∧
      esV.map (fun e => (ownD s'.heap e.1, ownD s'.heap e.2)) = es := by
  have h := insertValue_correct _ s hok hst
  rw [hrun] at h
  obtain ⟨g, ho, _⟩ := h
  have ho' := Owns.of_above ho
  obtain ⟨f, hf⟩ := ho'
  cases v' with
  | nil => rw [(own_scalar _ _).1] at hf; cases hf
  | int i => rw [(own_scalar _ _).2.1] at hf; cases hf
  | real b => rw [(own_scalar _ _).2.2] at hf; cases hf
  | obj a =>
    cases f with
    | zero => rw [own_zero_obj] at hf; cases hf
    | succ f =>
      cases hg : s'.heap.get a with
      | none => rw [own_none hg] at hf; cases hf
      | some ob =>
        by_cases hnt : ∀ cap es, ob ≠ .table cap es
        · rw [own_nontable hg hnt] at hf
          cases ob <;> simp [ownNT] at hf
        · have : ∃ cap esV, ob = .table cap esV := by
            cases ob with
            | table cap esV => exact ⟨cap, esV, rfl⟩
            | _ => exact absurd (fun _ _ h => by cases h) hnt
          obtain ⟨cap, esV, rfl⟩ := this
          obtain ⟨oes, hoes, hall⟩ := (own_table hg f _).mp hf
          cases hoes
          refine ⟨a, cap, esV, rfl, hg, ?_⟩
          exact all2_map_ownD hall

/-- **frame**: every value that was reachable from the roots (stack, globals, frames, open
    upvalues, guards) before the insertion has the same deep value afterwards, although the
    allocations may have run collections -/
theorem insertValue_frame {s s' : VmState} {o : OVal} {v' : Val} (hok : HeapOk s)
    (hst : Storable o) (hrun : (insertValue o).run.run s = (.ok v', s'))
    {w : Val} {ow : OVal} (hw : ∀ a, w = .obj a → Reach s.heap (rootAddrs s) a)
    (how : own s.heap (ownFuel s.heap) w = some ow) : ownD s'.heap w = ow := by
  have h := insertValue_correct o s hok hst
  rw [hrun] at h
  obtain ⟨g, _, _⟩ := h
  have : Owns s'.heap w ow := by
    apply Owns.keep (fun b => Reach s.heap (rootAddrs s) b) ?_ ?_ hw ⟨_, how⟩
    · intro b ob hb hg
      obtain ⟨ob', q1, q2, _⟩ := g.keeps b ob hb hg
      rw [q1, q2 (fun h => h)]
    · intro b ob c hb hg hc
      exact Reach.step hb hg hc
  exact this.ownD

/-- the host-level wrapper (guards released on error) returns the same on success -/
theorem insertValueHost_ok {s s' : VmState} {o : OVal} {v' : Val}
    (hrun : (insertValue o).run.run s = (.ok v', s')) :
    (insertValueHost o).run.run s = (.ok v', s') := by
  unfold insertValueHost
  simp only [run_bind, run_get, run_tryCatch, hrun]

/-- … and after a failure the guard list is what it was -/
theorem insertValueHost_err {s s' : VmState} {o : OVal} {e : ErrKind}
    (hrun : (insertValue o).run.run s = (.error e, s')) :
    (insertValueHost o).run.run s = (.error e, { s' with guards := s.guards }) := by
  unfold insertValueHost
  simp only [run_bind, run_get, run_tryCatch, hrun, run_modify, run_throw]

/-! ## 3. compiled programs -/

/-- **C11 (programs)**: `deserializeProgram (serializeProgram p) ≃ p` for every compiled program
    whose four tables satisfy their invariants, every hash function of the trace map, every
    format (size hints) — given that allocations succeed; the result satisfies the invariants. -/
theorem program_roundtrip (hashOf : Nat → UInt64) (fmt : Nat → Option Nat) {p : CProgram}
    (hw : p.WF hashOf) (al : Alloc) (hal : al.failAt = none) :
    ∃ p' al', deserializeProgram hashOf fmt (serializeProgram p) al = (al', .ok p') ∧
      p'.WF hashOf ∧ CProgram.Equiv hashOf p p' := by
  obtain ⟨l1, al1, h1, a1, i1, e1⟩ := ht_roundtrip_ok hw.labels
    (hintCap (fmt (htSerialize p.labels).length)) al hal
  obtain ⟨l2, al2, h2, a2, i2, e2⟩ := ht_roundtrip_ok hw.varIds
    (hintCap (fmt (htSerialize p.varIds).length)) al1 a1
  obtain ⟨l3, al3, h3, a3, i3, e3⟩ := ht_roundtrip_ok hw.varNames
    (hintCap (fmt (htSerialize p.varNames).length)) al2 a2
  obtain ⟨l4, al4, h4, a4, i4, e4⟩ := hm_roundtrip_ok hw.trace
    (hintCap (fmt (hmSerialize p.trace).length)) al3 a3
  refine ⟨{ bytecode := p.bytecode, data := p.data, labels := l1, varIds := l2, varNames := l3,
            version := p.version, trace := l4 }, al4, ?_, ⟨i1, i2, i3, i4⟩,
          ⟨rfl, rfl, rfl, e1, e2, e3, e4⟩⟩
  unfold deserializeProgram serializeProgram
  simp only [h1, h2, h3, h4]

/-- whatever the allocation oracle does, reading a program back never panics -/
theorem program_roundtrip_no_panic (hashOf : Nat → UInt64) (fmt : Nat → Option Nat) {p : CProgram}
    (hw : p.WF hashOf) (al : Alloc) :
    ∀ w, (deserializeProgram hashOf fmt (serializeProgram p) al).2 ≠ .panic w := by
  intro w
  unfold deserializeProgram serializeProgram
  simp only
  obtain ⟨al1, r1, h1, _, q1⟩ := ht_roundtrip hw.labels
    (hintCap (fmt (htSerialize p.labels).length)) al
  rw [h1]
  rcases q1 with ⟨rfl, _⟩ | ⟨l1, rfl, _, _⟩
  · simp
  obtain ⟨al2, r2, h2, _, q2⟩ := ht_roundtrip hw.varIds
    (hintCap (fmt (htSerialize p.varIds).length)) al1
  simp only [h2]
  rcases q2 with ⟨rfl, _⟩ | ⟨l2, rfl, _, _⟩
  · simp
  obtain ⟨al3, r3, h3, _, q3⟩ := ht_roundtrip hw.varNames
    (hintCap (fmt (htSerialize p.varNames).length)) al2
  simp only [h3]
  rcases q3 with ⟨rfl, _⟩ | ⟨l3, rfl, _, _⟩
  · simp
  obtain ⟨al4, r4, h4, _, q4⟩ := hm_roundtrip hw.trace
    (hintCap (fmt (hmSerialize p.trace).length)) al3
  simp only [h4]
  rcases q4 with ⟨rfl, _⟩ | ⟨l4, rfl, _, _⟩
  · simp
  · simp

/-- **equivalent programs run identically**: the same final machine state and outcome for every
    budget and start state, the same error traces, the same variable ids and names. No
    `NoDupKeys` side condition is needed: the entry lists come from tables satisfying their
    invariant, whose iteration lists have distinct keys. -/
theorem equiv_run {hashOf : Nat → UInt64} {p p' : CProgram} (hw : p.WF hashOf) (hw' : p'.WF hashOf)
    (h : CProgram.Equiv hashOf p p') :
    (∀ n s, run p.toProg n s = run p'.toProg n s) ∧
    (∀ gas t s, exec p.toProg gas t s = exec p'.toProg gas t s) ∧
    (∀ e, errTrace p.toProg e = errTrace p'.toProg e) ∧
    (∀ k, p'.variableId k = p.variableId k) ∧ (∀ k, p'.variableName k = p.variableName k) :=
  ⟨run_congr (h.progEq hw hw'), exec_congr (h.progEq hw hw'), errTrace_congr (h.progEq hw hw'),
   h.varIds.get, h.varNames.get⟩

/-- **a program written with any format and read back has the same bytecode, data, labels,
    variable names / ids and traces, and running it gives the same outcome as the original** -/
theorem program_roundtrip_run (hashOf : Nat → UInt64) (fmt : Nat → Option Nat) {p : CProgram}
    (hw : p.WF hashOf) (al : Alloc) (hal : al.failAt = none) :
    ∃ p' al', deserializeProgram hashOf fmt (serializeProgram p) al = (al', .ok p') ∧
      p'.bytecode = p.bytecode ∧ p'.data = p.data ∧ p'.version = p.version ∧
      (∀ k, p'.labels.get k = p.labels.get k) ∧ (∀ k, p'.varIds.get k = p.varIds.get k) ∧
      (∀ k, p'.varNames.get k = p.varNames.get k) ∧
      (∀ k, p'.trace.get hashOf k = p.trace.get hashOf k) ∧
      (∀ n s, run p'.toProg n s = run p.toProg n s) ∧
      (∀ e, errTrace p'.toProg e = errTrace p.toProg e) := by
  obtain ⟨p', al', hd, hw', he⟩ := program_roundtrip hashOf fmt hw al hal
  obtain ⟨r1, _, r3, _, _⟩ := equiv_run hw hw' he
  exact ⟨p', al', hd, he.bytecode, he.data, he.version, he.labels.get, he.varIds.get,
    he.varNames.get, he.trace.get, fun n s => (r1 n s).symm, fun e => (r3 e).symm⟩

/-- the link with the model compiler: a `CProgram` that holds the tables of `compile`'s output
    runs exactly like `Prog.ofProgram` of that output — and so does its round-tripped copy -/
theorem represents_run {hashOf : Nat → UInt64} {cp : CProgram} {prog : Compiler.Program}
    (hw : cp.WF hashOf) (hr : Represents hashOf cp prog) (n : Nat) (s : VmState) :
    run cp.toProg n s = run (Prog.ofProgram prog) n s :=
  run_congr (hr.progEq hw) n s

theorem represents_roundtrip_run (hashOf : Nat → UInt64) (fmt : Nat → Option Nat) {cp : CProgram}
    {prog : Compiler.Program} (hw : cp.WF hashOf) (hr : Represents hashOf cp prog) (al : Alloc)
    (hal : al.failAt = none) :
    ∃ cp' al', deserializeProgram hashOf fmt (serializeProgram cp) al = (al', .ok cp') ∧
      Represents hashOf cp' prog ∧
      ∀ n s, run cp'.toProg n s = run (Prog.ofProgram prog) n s := by
  obtain ⟨cp', al', hd, hw', he⟩ := program_roundtrip hashOf fmt hw al hal
  exact ⟨cp', al', hd, hr.of_equiv he, fun n s => run_congr ((hr.of_equiv he).progEq hw') n s⟩

/-- such a table form exists for every program whose table keys are pairwise distinct and whose
    handles are non-null (what the compiler's `HandleTable::insert`s require): build the tables
    by inserting the entries -/
theorem represents_exists (hashOf : Nat → UInt64) (prog : Compiler.Program)
    (hl : (prog.labels.map Prod.fst).Nodup) (hlz : ∀ kv ∈ prog.labels, kv.1 ≠ 0)
    (hi : (prog.varIds.map Prod.fst).Nodup) (hiz : ∀ kv ∈ prog.varIds, kv.1 ≠ 0)
    (hn : (prog.varNames.map Prod.fst).Nodup) (hnz : ∀ kv ∈ prog.varNames, kv.1 ≠ 0)
    (ht : (prog.trace.map Prod.fst).Nodup) (version : String) :
    ∃ cp : CProgram, cp.WF hashOf ∧ Represents hashOf cp prog ∧ cp.version = version := by
  obtain ⟨t1, _, _, i1, g1, _, _⟩ := ht_roundtrip_entries 0 prog.labels {} rfl hl hlz
  obtain ⟨t2, _, _, i2, g2, _, _⟩ := ht_roundtrip_entries 0 prog.varIds {} rfl hi hiz
  obtain ⟨t3, _, _, i3, g3, _, _⟩ := ht_roundtrip_entries 0 prog.varNames {} rfl hn hnz
  obtain ⟨t4, _, _, i4, g4, _, _⟩ := hm_roundtrip_entries hashOf 0 prog.trace {} rfl ht
  exact ⟨{ bytecode := prog.bytecode, data := prog.data, labels := t1, varIds := t2, varNames := t3,
           version := version, trace := t4 }, ⟨i1, i2, i3, i4⟩, ⟨rfl, rfl, g1, g2, g3, g4⟩, rfl⟩

/-! ## 4. source modules -/

/-- source modules are plain serde-derived trees: a module that is read back equal compiles to
    the very same result (`compile` is a function) — byte-identical program or the same error -/
theorem module_roundtrip (m m' std : Module) (l : Nat) (h : m = m') :
    Compiler.compile m std l = Compiler.compile m' std l := by rw [h]

/-- **the token syntax of the differential driver round-trips**: printing a module with
    `Module.toTok` and parsing it back with `Module.ofTok?` (fuel-based recursive descent, fuel =
    length + 1) gives the module back — names through their UTF-8 hex rendering, integers through
    their decimal rendering, floats through their 16 hex digits, nested card lists and
    submodules. Proved in `CaoProofs/Lemmas/SerdeTok.lean`. -/
theorem module_tok_roundtrip (m : Module) : Module.ofTok? (Module.toTok m) = some m :=
  Serde.module_tok_roundtrip m

theorem card_tok_roundtrip (c : Card) : Card.ofTok? (Card.toTok c) = some c :=
  Serde.card_tok_roundtrip c

/-- consequently a module that went through the token syntax compiles to the same result -/
theorem module_tok_roundtrip_compile (m std : Module) (l : Nat) :
    (Module.ofTok? (Module.toTok m)).map (fun m' => Compiler.compile m' std l) =
      some (Compiler.compile m std l) := by
  rw [module_tok_roundtrip]; rfl

/-! ## 5. non-vacuity -/

/-- a handle table reached through growth (2 → 4 → 8), a collision and a removal -/
private def exT : HTable Nat :=
  C13.finalModel ({ cap := 2, slots := OA.empty, count := 0 } : HTable Nat)
    [.insert 3 30 none, .insert 11 110 none, .insert 4 40 none, .remove 3]

/-- the hypothesis of `ht_roundtrip` is satisfiable -/
example : C13.HTInv exT := htInv_reachable 0 {} _ _ rfl _
example : htSerialize exT = [(11, 110), (4, 40)] := by decide +kernel

private def htView : Res (HTable Nat) → Option (Nat × Nat × List (Option Nat))
  | .ok t => some (t.cap, t.count, [t.get 4, t.get 11, t.get 3, t.get 0])
  | _ => none

/-- the round trip evaluated for the requested capacities 0, 1 (the degenerate hints) and for the
    default 128 of a format without a size hint -/
example : htView (htDeserialize 0 (htSerialize exT) {}).2 =
    some (4, 2, [some 40, some 110, none, none]) := by decide +kernel
example : htView (htDeserialize 1 (htSerialize exT) {}).2 =
    some (4, 2, [some 40, some 110, none, none]) := by decide +kernel
example : htView (htDeserialize (hintCap none) (htSerialize exT) {}).2 =
    some (128, 2, [some 40, some 110, none, none]) := by decide +kernel
/-- an empty table read back with hint 0: capacity 2, no panic -/
example : htView (htDeserialize (hintCap (some 0)) ([] : List (UInt32 × Nat)) {}).2 =
    some (2, 0, [none, none, none, none]) := by decide +kernel
/-- the null handle in the input is rejected (`expect` panics), an injected allocation failure is
    reported -/
example : (match (htDeserialize 0 [((0 : UInt32), (1 : Nat))] {}).2 with
    | .panic _ => true | _ => false) = true := by decide +kernel
example : (match (htDeserialize 0 (htSerialize exT) { failAt := some 3 }).2 with
    | .allocErr => true | _ => false) = true := by decide +kernel
/-- the hypotheses of `ht_roundtrip_entries` are satisfiable -/
example : let xs : List (UInt32 × Nat) := [(5, 50), (13, 130), (21, 210)]
    (xs.map Prod.fst).Nodup ∧ ∀ kv ∈ xs, kv.1 ≠ 0 := by decide

private def exHash : Nat → UInt64 := fun k => UInt64.ofNat (k + 1)

/-- a hash map grown from capacity 1, with colliding keys and a removal -/
private def exM : HMap Nat Nat :=
  hmFinal exHash ({ cap := 1, slots := OA.empty, count := 0 } : HMap Nat Nat)
    [.insert 1 10 none, .insert 9 90 none, .insert 17 170 none, .remove 9]

example : C12.HInv exHash exM := hmInv_reachable exHash 0 {} _ _ rfl _

private def hmView : Res (HMap Nat Nat) → Option (Nat × List (Option Nat))
  | .ok m => some (m.count, [m.get exHash 1, m.get exHash 17, m.get exHash 9])
  | _ => none

example : hmView (hmDeserialize exHash 0 (hmSerialize exM) {}).2 =
    some (2, [some 10, some 170, none]) := by decide +kernel
example : hmView (hmDeserialize exHash (hintCap (some 2)) (hmSerialize exM) {}).2 =
    some (2, [some 10, some 170, none]) := by decide +kernel

/-- a machine, and a nested owned value: strings, a table as a value, a table as a key -/
private def exS : VmState :=
  VmState.fresh { memLimit := 100000, stackSize := 4, callStackSize := 4, maxInstr := 10 }

private def exO : OVal :=
  .table [(.str [97], .int 1),
          (.int 2, .table [(.nil, .real 5), (.str [98, 99], .str [])]),
          (.table [(.int 1, .int 1)], .nil)]

/-- the hypotheses of `insertValue_roundtrip` are satisfiable -/
example : HeapOk exS := heapOk_of_inv (C05.fresh_inv _)
example : Storable exO := by decide +kernel

private def insView (s : VmState) (o : OVal) : Option (OVal × Nat × List Nat × Nat) :=
  match (insertValue o).run.run s with
  | (.ok v, s') => some (ownD s'.heap v, s'.heap.objs.length, s'.guards, s'.gcRuns)
  | _ => none

/-- the round trip evaluated: without a collection, and with a collection forced before every
    one of the 12 allocations (6 objects are built, all survive, no guard is left) -/
example : insView exS exO = some (exO, 6, [], 0) := by decide +kernel
example : insView { exS with sched := .every } exO = some (exO, 6, [], 12) := by decide +kernel

/-- a later equal key overwrites: a tree with a repeated key is not storable, and does not
    round-trip (the hypothesis `Storable` of `insertValue_roundtrip` is needed) -/
example : ¬ Storable (.table [(.int 1, .int 10), (.int 1, .int 11)]) := by
  simp [Storable, StorableL]
example : (insView exS (.table [(.int 1, .int 10), (.int 1, .int 11)])).map (·.1) =
    some (.table [(.int 1, .int 11)]) := by decide +kernel

/-- the same inside a heap: two different table objects used as keys of table 1 have become
    deeply equal (e.g. after `pop` on one of them). The owned form lists both entries; inserting it
    overwrites the first: the value does **not** round-trip. `KeysDistinct` fails for this heap.
    (The Rust does the same: `CaoLangTable::insert` overwrites on an equal key.) -/
private def exDup : Heap :=
  { objs := [(1, .table 8 [(.obj 2, .int 1), (.obj 3, .int 2)]), (2, .table 8 []), (3, .table 8 [])],
    next := 4 }

example : ownD exDup (.obj 1) = .table [(.table [], .int 1), (.table [], .int 2)] := by
  decide +kernel
example : ¬ Storable (ownD exDup (.obj 1)) := by decide +kernel
example : (insView exS (ownD exDup (.obj 1))).map (·.1) = some (.table [(.table [], .int 2)]) := by
  decide +kernel

/-- the hypotheses of `value_roundtrip_keys` are satisfiable: a heap with a nested table -/
private def exH : Heap :=
  { objs := [(1, .table 8 [(.obj 2, .int 1), (.int 7, .obj 3)]), (2, .str [107]),
             (3, .table 8 [(.nil, .real 9)])],
    next := 4 }

example : own exH (ownFuel exH) (.obj 1) =
    some (.table [(.str [107], .int 1), (.int 7, .table [(.nil, .real 9)])]) := by decide +kernel
example : KeysDistinct exH := by
  intro a cap es hg
  have hm := get_mem hg
  simp only [exH, List.mem_cons, Prod.mk.injEq, List.not_mem_nil, or_false] at hm
  rcases hm with ⟨_, h⟩ | ⟨_, h⟩ | ⟨_, h⟩
  · cases h; decide +kernel
  · cases h
  · cases h; decide +kernel

/-- a memory limit that is too small: the only error is `OutOfMemory` -/
example : (match (insertValue exO).run.run
      (VmState.fresh { memLimit := 900, stackSize := 4, callStackSize := 4, maxInstr := 10 }) with
    | (.error .outOfMemory, _) => true | _ => false) = true := by decide +kernel

/-- a compiled program with two labels, one global and two trace entries -/
private def exP : CProgram :=
  { bytecode := #[1, 2, 3], data := #[0],
    labels := C13.finalModel ({ cap := 2, slots := OA.empty, count := 0 } : HTable Nat)
      [.insert 7 0 none, .insert 9 12 none],
    varIds := C13.finalModel ({ cap := 2, slots := OA.empty, count := 0 } : HTable Nat)
      [.insert 5 0 none],
    varNames := C13.finalModel ({ cap := 2, slots := OA.empty, count := 0 } : HTable String)
      [.insert 5 "g" none],
    version := "0.2.6",
    trace := hmFinal exHash ({ cap := 1, slots := OA.empty, count := 0 } : HMap Nat Compiler.Trace)
      [.insert 0 ⟨[], 0, [0]⟩ none, .insert 9 ⟨["m"], 1, [0, 1]⟩ none] }

/-- the hypothesis of `program_roundtrip` is satisfiable -/
example : exP.WF exHash :=
  ⟨htInv_reachable 0 {} _ _ rfl _, htInv_reachable 0 {} _ _ rfl _, htInv_reachable 0 {} _ _ rfl _,
   hmInv_reachable exHash 0 {} _ _ rfl _⟩

private def progView : Res CProgram → Option (List (Option Nat) × Option Nat × Option String ×
    List (Option Compiler.Trace))
  | .ok p => some ([p.labels.get 7, p.labels.get 9, p.labels.get 8], p.varIds.get 5,
      p.varNames.get 5, [p.trace.get exHash 0, p.trace.get exHash 9, p.trace.get exHash 1])
  | _ => none

/-- bincode / CBOR (`some len`) and JSON / YAML (`none`) size hints -/
example : progView (deserializeProgram exHash some (serializeProgram exP) {}).2 =
    some ([some 0, some 12, none], some 0, some "g",
      [some ⟨[], 0, [0]⟩, some ⟨["m"], 1, [0, 1]⟩, none]) := by decide +kernel
example : progView (deserializeProgram exHash (fun _ => none) (serializeProgram exP) {}).2 =
    some ([some 0, some 12, none], some 0, some "g",
      [some ⟨[], 0, [0]⟩, some ⟨["m"], 1, [0, 1]⟩, none]) := by decide +kernel

end Cao.C11
