import CaoProofs.Lemmas.ResolveLemmas
/-!
# C08 — static calls and function references designate exactly one function

"A static call or function reference compiles only if its name designates exactly one function
under the resolution rules - absolute dotted path, then the caller's own module, then the caller
module's imports (function imports, module-prefix imports, with `super.` walking up) - and at run
time it executes that function's body and no other; names that resolve to nothing, invalid
function or module names, duplicate names, ambiguous or malformed imports and a user module named
like the injected standard library are compilation errors."

All statements are about the total compiler model `Cao.Compiler` and the reference resolution
`Cao.Sem.resolve`.  The pure specification `resolveSpec` / `resolveWith`, the tree predicates
(`anyMod`, `defect`, …) and the stream specification (`entries`, `withHandles`, `irStream`) are
defined in `CaoProofs/Lemmas/ResolveLemmas.lean`.
-/
namespace Cao.C08
open Cao Cao.Compiler

/-! ## 1. `resolveFunction` is the documented four-step lookup -/

/-- `curTrace` returns `traceOf s` (the location attached to resolution errors) -/
theorem curTrace_run (s : CState) : curTrace.run s = .ok (traceOf s, s) := rfl

/-- **(1)** the implementation's `resolveFunction` is the pure four-step lookup `resolveSpec`
(absolute path; caller's module; function import; module-prefix import — first match wins; too
many `super.` ⇒ `SuperLimitReached`; nothing ⇒ `InvalidJump`) over the current jump table,
namespace and imports. The state is unchanged on success; on failure the error carries the
current trace. -/
theorem resolveFunction_spec (name : String) (s : CState) :
    (resolveFunction name).run s =
      match resolveSpec s.jumpTable s.ns s.imports name with
      | .ok r => .ok (r, s)
      | .error k => .error (.err k (some (traceOf s))) := by
  show resolveFunction name s = _
  rw [resolveFunction_run]
  cases resolveSpec s.jumpTable s.ns s.imports name <;> rfl

/-- the four steps of `resolveSpec`, spelled out -/
theorem resolveSpec_unfold (jt : JumpTable) (ns : List String) (imports : List (String × String))
    (name : String) :
    resolveSpec jt ns imports name =
      match look jt name with
      | some r => .ok r
      | none =>
      match look jt (joinNs ns name) with
      | some r => .ok r
      | none =>
      match fnImportStep (look jt) ns imports name with
      | .error k => .error k
      | .ok (some r) => .ok r
      | .ok none =>
      match modImportStep (look jt) ns imports name with
      | .error k => .error k
      | .ok (some r) => .ok r
      | .ok none => .error .invalidJump := by
  unfold resolveSpec resolveWith stepThen
  cases look jt name with
  | some r => rfl
  | none =>
  cases look jt (joinNs ns name) with
  | some r => rfl
  | none =>
  rcases fnImportStep (look jt) ns imports name with e | _ | a
  · rfl
  · rcases modImportStep (look jt) ns imports name with e | _ | a <;> rfl
  · rfl

/-- the only resolution errors -/
theorem resolveSpec_error_kind {jt : JumpTable} {ns : List String} {imports : List (String × String)}
    {name : String} {k : CErrKind} (h : resolveSpec jt ns imports name = .error k) :
    k = .invalidJump ∨ k = .superLimitReached :=
  resolveWith_error_kind h

/-! ## 2. the compiler and the reference semantics designate the same function -/

theorem joinNs_agree : Sem.joinNs = Compiler.joinNs := rfl

/-- **(2, soundness — no hypothesis)** if the compiler resolves `name` (called from `fns[home]`,
over the jump table built from the stream `fns`) to `(h, a)`, then the reference resolution
`Sem.resolve` over the `FnDef` image of the same stream designates a function `j`, `h` is the
handle of `fns[j]` and `a` its arity. -/
theorem resolve_agrees_sound (fns : Array FunctionIr) (home : Nat) (hh : home < fns.size)
    (name : String) (h a : UInt32)
    (hr : resolveSpec (jumpTableOf fns.toList) fns[home].ns fns[home].imports name = .ok (h, a)) :
    ∃ j, ∃ hj : j < fns.size, Sem.resolve (fns.map toFnDef) home name = some j ∧
      fns[j].handle = h ∧ a = UInt32.ofNat fns[j].arguments.length := by
  rw [resolveSpec_eq_map] at hr
  cases hw : resolveWith (Sem.findFn (fns.map toFnDef)) fns[home].ns fns[home].imports name with
  | error k => rw [hw] at hr; cases hr
  | ok j =>
    rw [hw] at hr
    obtain ⟨n, hn⟩ := resolveWith_ok_lk hw
    have hj : j < fns.size := by simpa using findFn_lt hn
    refine ⟨j, hj, ?_, ?_⟩
    · rw [sem_resolve_stream fns home hh]; exact resolveWith_ok_sem hw
    · simp only [Except.map, Except.ok.injEq, getD_toList fns j hj, tgt, Prod.mk.injEq] at hr
      exact ⟨hr.1, hr.2.symm⟩

/-- **(2, completeness up to `SuperLimitReached`)** whatever function the reference resolution
designates, the compiler designates the same one, or rejects the program with
`SuperLimitReached` (where `Sem.resolve` silently skips an import with too many `super.`). -/
theorem resolve_agrees_complete (fns : Array FunctionIr) (home : Nat) (hh : home < fns.size)
    (name : String) (j : Nat) (hs : Sem.resolve (fns.map toFnDef) home name = some j) :
    ∃ hj : j < fns.size,
      resolveSpec (jumpTableOf fns.toList) fns[home].ns fns[home].imports name =
        .ok (fns[j].handle, UInt32.ofNat fns[j].arguments.length) ∨
      resolveSpec (jumpTableOf fns.toList) fns[home].ns fns[home].imports name =
        .error .superLimitReached := by
  rw [sem_resolve_stream fns home hh] at hs
  rw [resolveSpec_eq_map]
  rcases semWith_some hs with hw | hw
  · obtain ⟨n, hn⟩ := resolveWith_ok_lk hw
    have hj : j < fns.size := by simpa using findFn_lt hn
    refine ⟨hj, Or.inl ?_⟩
    rw [hw]; simp only [Except.map, getD_toList fns j hj, tgt]
  · -- `j` is still a valid index: it is a hit of `findFn`
    have hj : j < fns.size := by
      unfold semWith at hs
      have hfind : ∀ {o : Except CErrKind (Option Nat)} , optStep o = some j →
          (∀ v, o = .ok (some v) → ∃ n, Sem.findFn (fns.map toFnDef) n = some v) → j < fns.size := by
        intro o ho hv
        rcases o with e | _ | v
        · cases ho
        · cases ho
        · cases ho
          obtain ⟨n, hn⟩ := hv j rfl
          simpa using findFn_lt hn
      cases h1 : Sem.findFn (fns.map toFnDef) name with
      | some v => rw [h1] at hs; cases hs; simpa using findFn_lt h1
      | none =>
      rw [h1] at hs
      cases h2 : Sem.findFn (fns.map toFnDef) (joinNs fns[home].ns name) with
      | some v => rw [h2] at hs; cases hs; simpa using findFn_lt h2
      | none =>
      rw [h2] at hs
      simp only [Option.orElse_eq_or, Option.none_or] at hs
      cases h3 : optStep (fnImportStep (Sem.findFn (fns.map toFnDef)) fns[home].ns fns[home].imports name) with
      | some v =>
        rw [h3] at hs; cases hs
        refine hfind h3 ?_
        intro v hv
        unfold fnImportStep at hv
        split at hv
        · cases hv
        · cases hi : importTarget fns[home].ns _ _ with
          | error e => rw [hi] at hv; cases hv
          | ok t => rw [hi] at hv; simp only [Except.map, Except.ok.injEq] at hv; exact ⟨t, hv⟩
      | none =>
        rw [h3] at hs
        simp only [Option.none_or] at hs
        refine hfind hs ?_
        intro v hv
        unfold modImportStep at hv
        split at hv
        · split at hv
          · cases hv
          · cases hi : importTarget fns[home].ns _ _ with
            | error e => rw [hi] at hv; cases hv
            | ok t => rw [hi] at hv; simp only [Except.map, Except.ok.injEq] at hv; exact ⟨t, hv⟩
        · cases hv
    refine ⟨hj, Or.inr ?_⟩
    rw [hw]; rfl

/-- **(2)** with single-segment import keys (what `executeImports` produces: the key is the last
`.`-segment of the import path) the two resolutions agree exactly: the compiler resolves `name`
to `(h, a)` iff `Sem.resolve` designates a function with handle `h` and arity `a`. -/
theorem resolve_agrees (fns : Array FunctionIr) (home : Nat) (hh : home < fns.size)
    (hk : SimpleKeys fns[home].imports) (name : String) (h a : UInt32) :
    resolveSpec (jumpTableOf fns.toList) fns[home].ns fns[home].imports name = .ok (h, a) ↔
      ∃ j, ∃ hj : j < fns.size, Sem.resolve (fns.map toFnDef) home name = some j ∧
        fns[j].handle = h ∧ a = UInt32.ofNat fns[j].arguments.length := by
  constructor
  · exact resolve_agrees_sound fns home hh name h a
  · rintro ⟨j, hj, hs, rfl, rfl⟩
    obtain ⟨_, hr | hr⟩ := resolve_agrees_complete fns home hh name j hs
    · exact hr
    · -- impossible with simple keys: the compiler's error means the reference finds nothing
      rw [resolveSpec_eq_map] at hr
      have ht := resolveWith_toOption (lk := Sem.findFn (fns.map toFnDef)) (ns := fns[home].ns)
        (name := name) hk
      rw [← sem_resolve_stream fns home hh, hs] at ht
      cases hw : resolveWith (Sem.findFn (fns.map toFnDef)) fns[home].ns fns[home].imports name with
      | ok v => rw [hw] at hr; cases hr
      | error k => rw [hw] at ht; cases ht

/-- **(2)** `InvalidJump` is reported only for names the reference resolution cannot resolve -/
theorem resolve_invalidJump_sem (fns : Array FunctionIr) (home : Nat) (hh : home < fns.size)
    (name : String)
    (hr : resolveSpec (jumpTableOf fns.toList) fns[home].ns fns[home].imports name = .error .invalidJump) :
    Sem.resolve (fns.map toFnDef) home name = none := by
  rw [resolveSpec_eq_map] at hr
  rw [sem_resolve_stream fns home hh]
  cases hw : resolveWith (Sem.findFn (fns.map toFnDef)) fns[home].ns fns[home].imports name with
  | ok v => rw [hw] at hr; cases hr
  | error k =>
    rw [hw] at hr
    simp only [Except.map, Except.error.injEq] at hr
    subst hr
    exact resolveWith_invalidJump_sem hw

/-- **(2)** with single-segment import keys, every compiler error (`InvalidJump` *and*
`SuperLimitReached`) corresponds to an unresolvable name in the reference semantics -/
theorem resolve_error_sem (fns : Array FunctionIr) (home : Nat) (hh : home < fns.size)
    (hk : SimpleKeys fns[home].imports) (name : String) (k : CErrKind)
    (hr : resolveSpec (jumpTableOf fns.toList) fns[home].ns fns[home].imports name = .error k) :
    Sem.resolve (fns.map toFnDef) home name = none := by
  rw [resolveSpec_eq_map] at hr
  rw [sem_resolve_stream fns home hh, ← resolveWith_toOption hk]
  cases hw : resolveWith (Sem.findFn (fns.map toFnDef)) fns[home].ns fns[home].imports name with
  | ok v => rw [hw] at hr; cases hr
  | error k => rfl

/-- "exactly one": when the full names of the stream are pairwise distinct (which `compile`
enforces, see `compile_ok_names_unique`), a full name designates at most one function, so the
function found by `findFn` (first match) is the only one with that name. -/
theorem findFn_unique (fns : Array FunctionIr)
    (hd : (fns.toList.map FunctionIr.fullName).Pairwise (· ≠ ·)) (n : String) (j : Nat) (hj : j < fns.size) :
    Sem.findFn (fns.map toFnDef) n = some j ↔ fns[j].fullName = n := by
  unfold Sem.findFn
  rw [Array.findIdx?_eq_some_iff_getElem]
  simp only [Array.size_map, Array.getElem_map, toFnDef, beq_iff_eq, ← fullName_eq_joinNs]
  constructor
  · rintro ⟨_, h, _⟩; exact h
  · intro h
    refine ⟨hj, h, fun i hi he => ?_⟩
    have hp := List.pairwise_iff_getElem.1 hd i j (by simp; omega) (by simpa using hj) hi
    simp only [List.getElem_map, Array.getElem_toList] at hp
    exact hp (he.trans h.symm)

/-! ## 4. what `compile` rejects

`compile m std limit` first runs `intoIrStream` (which injects `std` as submodule `"std"`:
`withStd m std`), then `compileUnit`. The stages of `intoIrStream`, in order
(`intoIrStream_eq`): duplicate sibling modules anywhere in the tree ⇒ `DuplicateModule`; no
`main` in the root ⇒ `NoMain`; then the depth-first walk `flatten`, which reports the first of:
nesting ≥ `limit` ⇒ `RecursionLimitReached`, a rejected import list ⇒ `BadImport` /
`AmbigousImport`, an invalid function or submodule name ⇒ `BadFunctionName`.
`anyMod P M []` = "some module of the tree `M` (given its namespace) satisfies `P`". -/

/-- an error of `intoIrStream` is the error of `compile` (located at the root) -/
theorem compile_error_of_intoIrStream {m std : Module} {limit : Nat} {k : CErrKind}
    (h : intoIrStream m std limit = .error k) :
    compile m std limit = .error (.err k (some { ns := [], function := 0, indices := [] })) := by
  unfold compile; rw [h]

/-- the two stages of `compile` -/
theorem compile_ok_iff {m std : Module} {limit : Nat} {p : Program} :
    compile m std limit = .ok p ↔
      ∃ unit s', intoIrStream m std limit = .ok unit ∧ (compileUnit unit).run {} = .ok ((), s') ∧
        p = { bytecode := s'.bytecode, data := s'.data, labels := resolveLog s'.labels,
              varIds := s'.varIds, varNames := s'.varNames, trace := resolveLog s'.trace } := by
  unfold compile
  constructor
  · intro h
    split at h
    · cases h
    · rename_i unit hi
      split at h
      · cases h
      · rename_i s hc
        cases h
        exact ⟨unit, s, hi, hc, rfl⟩
  · rintro ⟨unit, s', hi, hc, rfl⟩
    simp only [hi, hc]

/-- **(4, success ⇒ well-formed)** if `intoIrStream` succeeds then: no two sibling modules have
the same name, the root has a `main`, and no module of the tree (with `std` injected) is nested
`≥ limit` deep, has a rejected import list, or has an invalid function / submodule name; and the
result is exactly `irStream`: every function of the tree, once, in walk order (`entries`), with
handle `from_u64(walk position)`, `main` swapped to position 0. -/
theorem intoIrStream_ok {m std : Module} {limit : Nat} {fns : Array FunctionIr}
    (h : intoIrStream m std limit = .ok fns) :
    anyMod (fun _ m => dupMods m) (withStd m std) [] = false ∧
    anyMod (fun ns _ => tooDeep limit ns) (withStd m std) [] = false ∧
    anyMod (fun _ m => importBad m) (withStd m std) [] = false ∧
    anyMod (fun _ m => badName m) (withStd m std) [] = false ∧
    ∃ mainIdx, m.functions.findIdx? (fun p => p.1 == "main") = some mainIdx ∧
      fns = irStream m std mainIdx := by
  obtain ⟨h1, h2, h3⟩ := (intoIrStream_ok_iff m std limit fns).1 h
  have hn : ∀ (P : List String → Module → Bool), (∀ ns m, P ns m = true → defect limit ns m = true) →
      anyMod P (withStd m std) [] = false := by
    intro P hP
    cases hp : anyMod P (withStd m std) [] with
    | false => rfl
    | true => rw [anyMod_mono hP hp] at h2; cases h2
  refine ⟨h1, hn _ ?_, hn _ ?_, hn _ ?_, h3⟩
  · intro ns m h; simp [defect, h]
  · intro ns m h; simp [defect, h]
  · intro ns m h; simp [defect, h]

/-- every defect of the tree is a compilation error -/
theorem compile_rejects_defect {m std : Module} {limit : Nat}
    (h : anyMod (fun _ m => dupMods m) (withStd m std) [] = true ∨
         m.functions.findIdx? (fun p => p.1 == "main") = none ∨
         anyMod (defect limit) (withStd m std) [] = true) :
    ∃ k, compile m std limit = .error (.err k (some { ns := [], function := 0, indices := [] })) := by
  cases hi : intoIrStream m std limit with
  | error k => exact ⟨k, compile_error_of_intoIrStream hi⟩
  | ok fns =>
    obtain ⟨h1, h2, mi, h3, _⟩ := (intoIrStream_ok_iff m std limit fns).1 hi
    rcases h with h | h | h
    · rw [h1] at h; cases h
    · rw [h3] at h; cases h
    · rw [h2] at h; cases h

/-- **(4a)** a function name or a module name with `isNameValid = false` anywhere in the tree is
a compilation error -/
theorem compile_rejects_bad_name {m std : Module} {limit : Nat}
    (h : anyMod (fun _ m => badName m) (withStd m std) [] = true) :
    ∃ k, compile m std limit = .error (.err k (some { ns := [], function := 0, indices := [] })) :=
  compile_rejects_defect (Or.inr (Or.inr (anyMod_mono (fun ns m h => by simp [defect, h]) h)))

/-- **(4d)** a module whose import list `executeImports` rejects is a compilation error -/
theorem compile_rejects_bad_imports {m std : Module} {limit : Nat}
    (h : anyMod (fun _ m => importBad m) (withStd m std) [] = true) :
    ∃ k, compile m std limit = .error (.err k (some { ns := [], function := 0, indices := [] })) :=
  compile_rejects_defect (Or.inr (Or.inr (anyMod_mono (fun ns m h => by simp [defect, h]) h)))

/-- **(4f)** a module nested `≥ limit` deep is a compilation error -/
theorem compile_rejects_too_deep {m std : Module} {limit : Nat}
    (h : anyMod (fun ns _ => tooDeep limit ns) (withStd m std) [] = true) :
    ∃ k, compile m std limit = .error (.err k (some { ns := [], function := 0, indices := [] })) :=
  compile_rejects_defect (Or.inr (Or.inr (anyMod_mono (fun ns m h => by simp [defect, h]) h)))

mutual
  /-- number of nesting levels of a module tree (a module without submodules has height 1) -/
  def height : Module → Nat
    | .mk subs _ _ => heightSubs subs + 1
  def heightSubs : List (String × Module) → Nat
    | [] => 0
    | (_, s) :: rest => max (height s) (heightSubs rest)
end

theorem tooDeep_iff_all (limit : Nat) :
    (∀ m ns, anyMod (fun ns _ => tooDeep limit ns) m ns = true ↔ limit < ns.length + height m) ∧
    (∀ subs ns, anyModSubs (fun ns _ => tooDeep limit ns) subs ns = true ↔
      1 ≤ heightSubs subs ∧ limit ≤ ns.length + heightSubs subs) := by
  apply Module.tree_induct
  · intro subs fns imps ih ns
    simp only [anyMod, height, Bool.or_eq_true, ih]
    simp only [tooDeep, decide_eq_true_eq]
    omega
  · intro ns
    simp [anyModSubs, heightSubs]
  · intro n s rest ih1 ih2 ns
    simp only [anyModSubs, heightSubs, Bool.or_eq_true, ih1, ih2, List.length_append, List.length_cons,
      List.length_nil]
    have : 1 ≤ height s := by cases s; simp [height]
    omega

/-- **(4f)** a tree (with `std` injected) with more than `limit` nesting levels is a compilation error -/
theorem compile_rejects_height {m std : Module} {limit : Nat} (h : limit < height (withStd m std)) :
    ∃ k, compile m std limit = .error (.err k (some { ns := [], function := 0, indices := [] })) :=
  compile_rejects_too_deep (((tooDeep_iff_all limit).1 _ []).2 (by simpa using h))

/-- **(4, which kind)** the error kind names a defect that is really there: `DuplicateModule` ⇒
duplicate sibling modules; `NoMain` ⇒ no `main`; `RecursionLimitReached` ⇒ a module nested too
deep; `BadFunctionName` ⇒ an invalid function / module name; `BadImport` / `AmbigousImport` ⇒ a
module whose import list is rejected with that error. `intoIrStream` has no other errors. -/
theorem intoIrStream_error_sound {m std : Module} {limit : Nat} {k : CErrKind}
    (h : intoIrStream m std limit = .error k) :
    (k = .duplicateModule ∧ anyMod (fun _ m => dupMods m) (withStd m std) [] = true) ∨
    (k = .noMain ∧ m.functions.findIdx? (fun p => p.1 == "main") = none) ∨
    (k = .recursionLimitReached ∧ anyMod (fun ns _ => tooDeep limit ns) (withStd m std) [] = true) ∨
    (k = .badFunctionName ∧ anyMod (fun _ m => badName m) (withStd m std) [] = true) ∨
    ((k = .badImport ∨ k = .ambigousImport) ∧
      anyMod (fun _ m => importErr k m) (withStd m std) [] = true) := by
  rcases intoIrStream_error h with h1 | h1 | h1
  · exact Or.inl h1
  · exact Or.inr (Or.inl h1)
  · right; right
    -- `defectK limit k` is `importErr k` for all kinds but two, and `importErr k` holds only for
    -- the two import errors
    have himp : ∀ m', importErr k m' = true → k = .badImport ∨ k = .ambigousImport := by
      intro m' hm
      unfold importErr at hm
      split at hm
      · rename_i k' he
        have hk : k' = k := by simpa using hm
        subst hk
        rcases executeImports_error he with ⟨rfl, _⟩ | ⟨rfl, _⟩
        · exact Or.inl rfl
        · exact Or.inr rfl
      · cases hm
    by_cases hk1 : k = .recursionLimitReached
    · subst hk1; exact Or.inl ⟨rfl, h1⟩
    by_cases hk2 : k = .badFunctionName
    · subst hk2; exact Or.inr (Or.inl ⟨rfl, h1⟩)
    have hdk : ∀ ns m', defectK limit k ns m' = importErr k m' := by
      intro ns m'; cases k <;> first | rfl | exact absurd rfl hk1 | exact absurd rfl hk2
    have h2 : anyMod (fun _ m => importErr k m) (withStd m std) [] = true :=
      anyMod_mono (fun ns m' hm => by rw [hdk] at hm; exact hm) h1
    refine Or.inr (Or.inr ⟨?_, h2⟩)
    -- some module has `importErr k`, so `k` is an import error
    have : ∀ M ns, anyMod (fun _ m => importErr k m) M ns = true → k = .badImport ∨ k = .ambigousImport := by
      have := (Module.tree_induct
        (P := fun M => ∀ ns, anyMod (fun _ m => importErr k m) M ns = true → k = .badImport ∨ k = .ambigousImport)
        (Q := fun l => ∀ ns, anyModSubs (fun _ m => importErr k m) l ns = true → k = .badImport ∨ k = .ambigousImport)
        (by
          intro subs fns imps ih ns
          simp only [anyMod, Bool.or_eq_true]
          rintro (hm | hm)
          · exact himp _ hm
          · exact ih ns hm)
        (by intro ns hm; simp [anyModSubs] at hm)
        (by
          intro n s rest ih1 ih2 ns
          simp only [anyModSubs, Bool.or_eq_true]
          rintro (hm | hm)
          · exact ih1 _ hm
          · exact ih2 _ hm)).1
      exact this
    exact this _ _ h2

/-- **(4, the kind when there is only one kind of defect)** if the tree has no duplicate sibling
modules and a `main`, and all the `flatten`-defects of the tree are of kind `k`, then the error is `k`. -/
theorem intoIrStream_error_only {m std : Module} {limit : Nat} {k : CErrKind}
    (hdup : anyMod (fun _ m => dupMods m) (withStd m std) [] = false)
    (hmain : m.functions.findIdx? (fun p => p.1 == "main") ≠ none)
    (hk : anyMod (defectK limit k) (withStd m std) [] = true)
    (honly : ∀ k', k' ≠ k → anyMod (defectK limit k') (withStd m std) [] = false) :
    intoIrStream m std limit = .error k := by
  cases hi : intoIrStream m std limit with
  | ok fns =>
    obtain ⟨_, h2, _⟩ := (intoIrStream_ok_iff m std limit fns).1 hi
    have hmono : ∀ ns m', defectK limit k ns m' = true → defect limit ns m' = true := by
      intro ns m' hm
      unfold defect
      cases k <;> simp only [defectK] at hm <;>
        first
        | (simp [hm]; done)
        | (have : importBad m' = true := by
              unfold importErr at hm; unfold importBad; split at hm <;> simp_all
           simp [this])
    rw [anyMod_mono hmono hk] at h2; cases h2
  | error k' =>
    rcases intoIrStream_error hi with ⟨_, h1⟩ | ⟨_, h1⟩ | h1
    · rw [hdup] at h1; cases h1
    · exact absurd h1 hmain
    · by_cases he : k' = k
      · rw [he]
      · rw [honly k' he] at h1; cases h1

/-- **(4c)** duplicate sibling module names (anywhere in the tree, with `std` injected at the
root) are reported as `DuplicateModule`, and that is the only source of this error -/
theorem intoIrStream_duplicateModule_iff {m std : Module} {limit : Nat} :
    intoIrStream m std limit = .error .duplicateModule ↔
      anyMod (fun _ m => dupMods m) (withStd m std) [] = true := by
  constructor
  · intro h
    rcases intoIrStream_error_sound h with ⟨_, h1⟩ | ⟨h1, _⟩ | ⟨h1, _⟩ | ⟨h1, _⟩ | ⟨h1 | h1, _⟩
    · exact h1
    all_goals cases h1
  · intro h
    rw [intoIrStream_eq, h]; rfl

/-- **(4c)** a user submodule of the root named `std` collides with the injected standard library -/
theorem compile_rejects_user_std {m std : Module} {limit : Nat}
    (h : "std" ∈ m.submodules.map (·.1)) :
    compile m std limit =
      .error (.err .duplicateModule (some { ns := [], function := 0, indices := [] })) := by
  apply compile_error_of_intoIrStream
  rw [intoIrStream_duplicateModule_iff]
  cases m with
  | mk subs fns imps =>
    simp only [withStd, Module.submodules, Module.functions, Module.imports, anyMod, dupMods,
      List.map_append, List.map_cons, List.map_nil, Bool.or_eq_true]
    exact Or.inl (dupNames_append_singleton h)

/-- **(4c)** two submodules with the same name in one module ⇒ `DuplicateModule` -/
theorem compile_rejects_dup_modules {m std : Module} {limit : Nat}
    (h : anyMod (fun _ m => dupMods m) (withStd m std) [] = true) :
    compile m std limit =
      .error (.err .duplicateModule (some { ns := [], function := 0, indices := [] })) :=
  compile_error_of_intoIrStream (intoIrStream_duplicateModule_iff.2 h)

/-- **(4e)** no `main` in the root module (and no duplicate sibling modules) ⇔ `NoMain` -/
theorem intoIrStream_noMain_iff {m std : Module} {limit : Nat} :
    intoIrStream m std limit = .error .noMain ↔
      anyMod (fun _ m => dupMods m) (withStd m std) [] = false ∧
      m.functions.findIdx? (fun p => p.1 == "main") = none := by
  constructor
  · intro h
    have hd : anyMod (fun _ m => dupMods m) (withStd m std) [] = false := by
      cases hd : anyMod (fun _ m => dupMods m) (withStd m std) [] with
      | false => rfl
      | true => rw [intoIrStream_duplicateModule_iff.2 hd] at h; cases h
    refine ⟨hd, ?_⟩
    rcases intoIrStream_error_sound h with ⟨h1, _⟩ | ⟨_, h1⟩ | ⟨h1, _⟩ | ⟨h1, _⟩ | ⟨h1 | h1, _⟩
    · cases h1
    · exact h1
    all_goals cases h1
  · rintro ⟨h1, h2⟩
    rw [intoIrStream_eq, h1, h2]; rfl

/-- **(4d)** the import lists `executeImports` accepts: every import has a dot (at least two
`.`-segments) and the last segments are pairwise distinct; the table maps the last segment to
the whole path -/
theorem executeImports_accepts (imps : List String) (l : List (String × String)) :
    executeImports imps = .ok l ↔
      (∀ imp ∈ imps, dotted imp = true) ∧ (imps.map lastSeg).Pairwise (· ≠ ·) ∧
      l = imps.map (fun imp => (lastSeg imp, imp)) :=
  executeImports_ok_iff imps l

/-- **(4d)** an import without a dot ⇒ the list is rejected; `BadImport` is reported only then -/
theorem executeImports_badImport {imps : List String} :
    (∃ imp ∈ imps, dotted imp = false) → ∃ k, executeImports imps = .error k := by
  rintro ⟨imp, hi, hd⟩
  cases h : executeImports imps with
  | error k => exact ⟨k, rfl⟩
  | ok l =>
    have := ((executeImports_ok_iff imps l).1 h).1 imp hi
    rw [hd] at this; cases this

/-- **(4d)** two imports with the same last segment ⇒ the list is rejected; `AmbigousImport` is
reported only then, `BadImport` only when some import has no dot -/
theorem executeImports_ambiguous {imps : List String} :
    ¬ (imps.map lastSeg).Pairwise (· ≠ ·) → ∃ k, executeImports imps = .error k := by
  intro hp
  cases h : executeImports imps with
  | error k => exact ⟨k, rfl⟩
  | ok l => exact absurd ((executeImports_ok_iff imps l).1 h).2.1 hp

theorem executeImports_error_kinds {imps : List String} {k : CErrKind} (h : executeImports imps = .error k) :
    (k = .badImport ∧ ∃ imp ∈ imps, dotted imp = false) ∨
    (k = .ambigousImport ∧ ¬ (imps.map lastSeg).Pairwise (· ≠ ·)) :=
  executeImports_error h

/-- the first malformed import is reported as `BadImport` when the imports before it are fine -/
theorem executeImports_single_bad (imp : String) (h : dotted imp = false) :
    executeImports [imp] = .error .badImport := by
  rw [executeImports_eq, List.foldlM_cons, importStep_eq, h]; rfl

/-- two imports with the same last segment, both dotted ⇒ `AmbigousImport` -/
theorem executeImports_pair_ambiguous (a b : String) (ha : dotted a = true) (hb : dotted b = true)
    (h : lastSeg a = lastSeg b) : executeImports [a, b] = .error .ambigousImport := by
  rw [executeImports_eq, List.foldlM_cons, importStep_eq, ha]
  simp only [Bool.true_eq_false, if_false, List.any_nil]
  show List.foldlM importStep ([] ++ [(lastSeg a, a)]) [b] = _
  rw [List.foldlM_cons, importStep_eq, hb]
  simp [h]

/-! ### duplicate function names -/

/-- **(4b)** `compile` succeeds only if the full dotted names of the stream are pairwise distinct
(so a full name designates exactly one function), and then no module of the tree has two
functions with the same name. -/
theorem compile_ok_names_unique {m std : Module} {limit : Nat} {p : Program}
    (h : compile m std limit = .ok p) :
    ∃ unit, intoIrStream m std limit = .ok unit ∧
      (unit.toList.map FunctionIr.fullName).Pairwise (· ≠ ·) ∧
      anyMod (fun _ m => dupFns m) (withStd m std) [] = false := by
  obtain ⟨unit, s', hi, hc, _⟩ := compile_ok_iff.1 h
  obtain ⟨hpos, hpw, _⟩ := compileUnit_spec hc
  refine ⟨unit, hi, hpw, ?_⟩
  cases hd : anyMod (fun _ m => dupFns m) (withStd m std) [] with
  | false => rfl
  | true =>
    exfalso
    obtain ⟨_, _, _, _, mi, hmi, rfl⟩ := intoIrStream_ok hi
    have hne := dupFns_entries_all.1 _ _ hd
    apply hne
    have hlen : mi < (entries (withStd m std) []).length := by
      -- the stream is not empty and `mainIdx` indexes the root's functions, which come first
      cases m with
      | mk subs fns imps =>
        have := (List.findIdx?_eq_some_iff_getElem.1 hmi).1
        simp only [withStd, entries, List.length_append, Module.functions] at this ⊢
        have hl : ∀ (l : List (String × Func)) (i : Nat) ns imports,
            (fnEntries ns imports l i).length = l.length := by
          intro l; induction l with
          | nil => intros; rfl
          | cons a l ih => intro i ns imports; obtain ⟨n, f⟩ := a; simp [fnEntries, ih]
        rw [hl]; omega
    have hperm := irStream_perm (m := m) (std := std) hlen
    have h2 := (hperm.map FunctionIr.fullName)
    rw [withHandles_fullName] at h2
    exact (h2.pairwise_iff (fun {a b} (hab : a ≠ b) => hab.symm)).1 hpw

/-- **(4b)** two functions with the same full dotted name — in particular two same-named
functions in one module — are reported as `DuplicateName` (when the tree is otherwise accepted
by `intoIrStream`) -/
theorem compile_rejects_dup_names {m std : Module} {limit : Nat} {unit : Array FunctionIr}
    (hi : intoIrStream m std limit = .ok unit)
    (hd : ¬ (unit.toList.map FunctionIr.fullName).Pairwise (· ≠ ·)) :
    compile m std limit =
      .error (.err .duplicateName (some { ns := [], function := 0, indices := [] })) := by
  unfold compile
  rw [hi]
  simp only
  cases hc : (compileUnit unit).run {} with
  | ok r =>
    obtain ⟨⟨⟩, s'⟩ := r
    exact absurd (compileUnit_spec hc).2.1 hd
  | error e =>
    simp only
    -- the only way `compileUnit` can fail before stage 2 is `addFunctions`
    have hne : unit.isEmpty = false := by
      obtain ⟨_, _, _, _, mi, hmi, rfl⟩ := intoIrStream_ok hi
      cases hemp : (irStream m std mi).isEmpty with
      | false => rfl
      | true =>
        exfalso
        apply hd
        have : (irStream m std mi).toList = [] := by simpa using hemp
        rw [this]; exact List.Pairwise.nil
    have hc' : compileUnit unit {} = .error e := hc
    unfold compileUnit at hc'
    simp only [hne, Bool.false_eq_true, if_false] at hc'
    cases ha : addFunctions unit.toList {} with
    | error e' =>
      have he := addFunctions_error _ _ _ ha
      have : e = e' := by
        have : (addFunctions unit.toList >>= fun _ => (_ : CM Unit)) {} = Except.error e := hc'
        show e = e'
        have h3 : (StateT.bind (addFunctions unit.toList) _ ({} : CState)) = Except.error e := hc'
        unfold StateT.bind at h3
        rw [ha] at h3
        simpa [bind, Except.bind] using h3.symm
      rw [this, he]; rfl
    | ok r =>
      obtain ⟨⟨⟩, s1⟩ := r
      exact absurd ((addFunctions_ok _ _ _).1 ha).2.1 hd

theorem compile_rejects_dup_fn_in_module {m std : Module} {limit : Nat} {unit : Array FunctionIr}
    (hi : intoIrStream m std limit = .ok unit)
    (hd : anyMod (fun _ m => dupFns m) (withStd m std) [] = true) :
    compile m std limit =
      .error (.err .duplicateName (some { ns := [], function := 0, indices := [] })) := by
  cases hc : compile m std limit with
  | ok p =>
    obtain ⟨_, _, _, h3⟩ := compile_ok_names_unique hc
    rw [hd] at h3; cases h3
  | error e =>
    by_cases hp : (unit.toList.map FunctionIr.fullName).Pairwise (· ≠ ·)
    · -- then `compile` cannot fail... it may (in stage 2); but the names are not distinct:
      exfalso
      obtain ⟨_, _, _, _, mi, hmi, rfl⟩ := intoIrStream_ok hi
      have hne := dupFns_entries_all.1 _ _ hd
      apply hne
      have hlen : mi < (entries (withStd m std) []).length := by
        cases m with
        | mk subs fns imps =>
          have := (List.findIdx?_eq_some_iff_getElem.1 hmi).1
          simp only [withStd, entries, List.length_append, Module.functions] at this ⊢
          have hl : ∀ (l : List (String × Func)) (i : Nat) ns imports,
              (fnEntries ns imports l i).length = l.length := by
            intro l; induction l with
            | nil => intros; rfl
            | cons a l ih => intro i ns imports; obtain ⟨n, f⟩ := a; simp [fnEntries, ih]
          rw [hl]; omega
      have h2 := ((irStream_perm (m := m) (std := std) hlen).map FunctionIr.fullName)
      rw [withHandles_fullName] at h2
      exact (h2.pairwise_iff (fun {a b} (hab : a ≠ b) => hab.symm)).1 hp
    · rw [← hc]; exact compile_rejects_dup_names hi hp

/-! ### success ⇒ the stream is the tree (converse soundness) -/

mutual
  /-- every function of a module tree with its namespace, in walk order (structural) -/
  def allFns : Module → List String → List (List String × String × Func)
    | .mk subs fns _, ns => fns.map (fun p => (ns, p.1, p.2)) ++ allFnsSubs subs ns
  def allFnsSubs : List (String × Module) → List String → List (List String × String × Func)
    | [], _ => []
    | (n, s) :: rest, ns => allFns s (ns ++ [n]) ++ allFnsSubs rest ns
end

/-- what a stream entry says about the source function -/
def srcOf (f : FunctionIr) : List String × String × Func := (f.ns, f.name, ⟨f.arguments, f.cards⟩)

theorem fnEntries_srcOf (ns : List String) (imports : List (String × String)) :
    ∀ (fns : List (String × Func)) (i : Nat),
      (fnEntries ns imports fns i).map srcOf = fns.map (fun p => (ns, p.1, p.2))
  | [], _ => rfl
  | (n, f) :: rest, i => by
    simp only [fnEntries, List.map_cons, fnEntries_srcOf ns imports rest (i + 1), srcOf]

theorem entries_srcOf_all :
    (∀ m ns, (entries m ns).map srcOf = allFns m ns) ∧
    (∀ subs ns, (entriesSubs subs ns).map srcOf = allFnsSubs subs ns) := by
  apply Module.tree_induct
  · intro subs fns imps ih ns
    simp only [entries, allFns, List.map_append, fnEntries_srcOf, ih]
  · intro ns; rfl
  · intro n s rest ih1 ih2 ns
    simp only [entriesSubs, allFnsSubs, List.map_append, ih1, ih2]

theorem withHandles_srcOf : ∀ (k : Nat) (l : List FunctionIr), (withHandles k l).map srcOf = l.map srcOf
  | _, [] => rfl
  | k, f :: l => by simp only [withHandles, List.map_cons, withHandles_srcOf (k + 1) l, srcOf]

/-- the position of `main` is inside the walk -/
theorem mainIdx_lt {m std : Module} {mi : Nat}
    (hmi : m.functions.findIdx? (fun p => p.1 == "main") = some mi) :
    mi < (entries (withStd m std) []).length := by
  cases m with
  | mk subs fns imps =>
    have := (List.findIdx?_eq_some_iff_getElem.1 hmi).1
    simp only [withStd, entries, List.length_append, Module.functions] at this ⊢
    have hl : ∀ (l : List (String × Func)) (i : Nat) ns imports,
        (fnEntries ns imports l i).length = l.length := by
      intro l; induction l with
      | nil => intros; rfl
      | cons a l ih => intro i ns imports; obtain ⟨n, f⟩ := a; simp [fnEntries, ih]
    rw [hl]; omega

/-- **(4, converse soundness)** if `intoIrStream` succeeds, the stream is a permutation of the
walk `withHandles 0 (entries (withStd m std) [])` (only `main` and the first function are
swapped): every function of the tree (`allFns`, `std` included) appears exactly once, with its
namespace, name, arguments and cards; `entries` also fixes its index within its module and the
imports of its module as computed by `executeImports`. -/
theorem intoIrStream_stream {m std : Module} {limit : Nat} {fns : Array FunctionIr}
    (h : intoIrStream m std limit = .ok fns) :
    fns.toList.Perm (withHandles 0 (entries (withStd m std) [])) ∧
    (fns.toList.map srcOf).Perm (allFns (withStd m std) []) := by
  obtain ⟨_, _, _, _, mi, hmi, rfl⟩ := intoIrStream_ok h
  have hp := irStream_perm (m := m) (std := std) (mainIdx_lt hmi)
  refine ⟨hp, ?_⟩
  have := hp.map srcOf
  rw [withHandles_srcOf, entries_srcOf_all.1] at this
  exact this

theorem withHandles_getElem? : ∀ (k : Nat) (l : List FunctionIr) (j : Nat),
    (withHandles k l)[j]? =
      l[j]?.map (fun f => { f with handle := Hash.handleFromU64 (UInt64.ofNat (k + j)) })
  | _, [], _ => by simp [withHandles]
  | k, f :: l, 0 => by simp [withHandles]
  | k, f :: l, j + 1 => by
    simp only [withHandles, List.getElem?_cons_succ, withHandles_getElem? (k + 1) l j]
    have : k + 1 + j = k + (j + 1) := by omega
    rw [this]

theorem fnEntries_getElem? (ns : List String) (imports : List (String × String)) :
    ∀ (l : List (String × Func)) (i j : Nat),
      (fnEntries ns imports l i)[j]? =
        l[j]?.map (fun p => { functionIndex := i + j, name := p.1, arguments := p.2.arguments,
                              cards := p.2.cards, ns := ns, imports := imports, handle := 0 })
  | [], _, _ => by simp [fnEntries]
  | (n, f) :: l, i, 0 => by simp [fnEntries]
  | (n, f) :: l, i, j + 1 => by
    simp only [fnEntries, List.getElem?_cons_succ, fnEntries_getElem? ns imports l (i + 1) j]
    have : i + 1 + j = i + (j + 1) := by omega
    rw [this]

/-- **(4)** `intoIrStream` moves `main` to index 0: the first function of the stream is the root
module's `main` (the first function of the root with that name), with the root's imports and
the handle of its position in the walk -/
theorem intoIrStream_main_first {m std : Module} {limit : Nat} {fns : Array FunctionIr}
    (h : intoIrStream m std limit = .ok fns) :
    ∃ mi f, m.functions[mi]? = some ("main", f) ∧
      fns[0]! = { functionIndex := mi, name := "main", arguments := f.arguments, cards := f.cards,
                  ns := [], imports := importsOf m.imports,
                  handle := Hash.handleFromU64 (UInt64.ofNat mi) } := by
  obtain ⟨_, _, _, _, mi, hmi, rfl⟩ := intoIrStream_ok h
  have hlen := mainIdx_lt (std := std) hmi
  obtain ⟨hlt, hname, _⟩ := List.findIdx?_eq_some_iff_getElem.1 hmi
  have hname' : (m.functions[mi]).1 = "main" := by simpa using hname
  refine ⟨mi, (m.functions[mi]).2, ?_, ?_⟩
  · rw [List.getElem?_eq_getElem hlt, ← hname']
  · -- element 0 of the swapped array is element `mi` of the walk
    unfold irStream
    generalize hl : withHandles 0 (entries (withStd m std) []) = l
    have hlen' : mi < l.length := by rw [← hl]; simpa using hlen
    have h0 : 0 < l.length := by omega
    have e0 : (((⟨l⟩ : Array FunctionIr).set! 0 (⟨l⟩ : Array FunctionIr)[mi]!).set! mi (⟨l⟩ : Array FunctionIr)[0]!)[0]!
        = (⟨l⟩ : Array FunctionIr)[mi]! := by
      simp only [Array.set!_eq_setIfInBounds]
      rw [getElem!_pos _ 0 (by simpa using h0)]
      by_cases hm : mi = 0
      · subst hm
        simp [getElem!_pos, h0]
      · rw [Array.getElem_setIfInBounds_ne (by simpa using h0) (by omega)]
        simp
    simp only [e0]
    rw [getElem!_pos (⟨l⟩ : Array FunctionIr) mi (by simpa using hlen')]
    have hl? : l[mi]? = some l[mi] := List.getElem?_eq_getElem hlen'
    have : l[mi]? = some {
        functionIndex := mi, name := "main", arguments := (m.functions[mi]).2.arguments,
        cards := (m.functions[mi]).2.cards, ns := [], imports := importsOf m.imports,
        handle := Hash.handleFromU64 (UInt64.ofNat mi) } := by
      rw [← hl, withHandles_getElem?]
      cases m with
      | mk subs fs imps =>
        simp only [withStd, entries, Module.functions, Module.imports] at hlt hname' ⊢
        rw [List.getElem?_append_left (by
          have hl2 : ∀ (l : List (String × Func)) (i : Nat) ns imports,
              (fnEntries ns imports l i).length = l.length := by
            intro l; induction l with
            | nil => intros; rfl
            | cons a l ih => intro i ns imports; obtain ⟨n, f⟩ := a; simp [fnEntries, ih]
          rw [hl2]; exact hlt)]
        rw [fnEntries_getElem?, List.getElem?_eq_getElem hlt]
        simp [hname']
    rw [hl?] at this
    simpa using this

/-- the reference function table (`Sem.flattenFns`, restated as the total `semFlatten`) lists the
same functions as the compiler's stream, up to the swap of `main` -/
theorem intoIrStream_semFlatten {m std : Module} {limit : Nat} {fns : Array FunctionIr}
    (h : intoIrStream m std limit = .ok fns) :
    (fns.toList.map toFnDef).Perm (semFlatten (withStd m std) []) := by
  obtain ⟨_, _, h3, _, mi, hmi, rfl⟩ := intoIrStream_ok h
  have hp := (irStream_perm (m := m) (std := std) (mainIdx_lt hmi)).map toFnDef
  rw [withHandles_toFnDef, entries_toFnDef_all.1 _ _ h3] at hp
  exact hp

/-! ## 5. the operand of a static call is the handle of the designated function, and the label
table maps that handle to the start of the function's body -/

/-- **(5)** on success `encodeJump name` appends exactly `le32 h ++ le32 arity` for the `(h, arity)`
the resolution designates, and changes nothing else -/
theorem encodeJump_emits_target (name : String) (s : CState) (h a : UInt32)
    (hr : resolveSpec s.jumpTable s.ns s.imports name = .ok (h, a)) :
    (encodeJump name).run s =
      .ok ((), { s with bytecode := s.bytecode ++ (le32 h).toArray ++ (le32 a).toArray }) := by
  show encodeJump name s = _
  rw [encodeJump_run, hr]

/-- **(5)** `encodeJump` succeeds only if the name resolves -/
theorem encodeJump_ok_iff (name : String) (s s' : CState) :
    (encodeJump name).run s = .ok ((), s') ↔
      ∃ h a, resolveSpec s.jumpTable s.ns s.imports name = .ok (h, a) ∧
        s' = { s with bytecode := s.bytecode ++ (le32 h).toArray ++ (le32 a).toArray } := by
  show encodeJump name s = _ ↔ _
  rw [encodeJump_run]
  cases hr : resolveSpec s.jumpTable s.ns s.imports name with
  | error k => simp
  | ok r =>
    obtain ⟨h, a⟩ := r
    simp only [Except.ok.injEq, Prod.mk.injEq, true_and]
    constructor
    · intro e; exact ⟨h, a, ⟨rfl, rfl⟩, e.symm⟩
    · rintro ⟨h', a', ⟨rfl, rfl⟩, e⟩; exact e.symm

/-- **(5)** a name that does not resolve is a compilation error with the resolution's kind
(`InvalidJump` or `SuperLimitReached`) at the current card -/
theorem encodeJump_error (name : String) (s : CState) (k : CErrKind)
    (hr : resolveSpec s.jumpTable s.ns s.imports name = .error k) :
    (encodeJump name).run s = .error (.err k (some (traceOf s))) := by
  show encodeJump name s = _
  rw [encodeJump_run, hr]

/-- both static-call cards go through `encodeJump`: `Call name args` emits the arguments, then
`FunctionPointer`, the jump operand, `CallFunction`; `Function name` emits `FunctionPointer` and
the jump operand -/
theorem callCode_eq (name : String) (args : CM Unit) :
    callCode name args = (do args; pushInstr op.functionPointer; encodeJump name; pushInstr op.callFunction) := rfl

theorem processCard_function_eq (name : String) :
    processCard (.function name) = (do cardLabel; pushInstr op.functionPointer; encodeJump name) := by
  simp only [processCard]

/-- everything the card compiler does keeps the jump table, the installed namespace and imports
(and only appends to the label log): inside the body of a function, every `encodeJump` resolves
against that function's own namespace and imports and the full jump table -/
theorem processCard_keeps {c : Card} {s s' : CState} (h : (processCard c).run s = .ok ((), s')) :
    s'.jumpTable = s.jumpTable ∧ s'.ns = s.ns ∧ s'.imports = s.imports ∧
    ∃ t, s'.labels = s.labels ++ t := by
  have := kp_run (processCard_kp c) h
  exact ⟨this.jt, this.ns, this.imports, this.labels⟩

/-- **(5, labels)** for a successful `compile`: there is the stream `unit` and the final compiler
state `s'` such that
* during the whole of stage 2 the jump table is `jumpTableOf unit` (one entry per function, keyed
  by its full name, holding its handle and arity);
* the body of `main = unit[0]` starts at position 0;
* for every other function `unit[i]` the label log contains `(unit[i].handle, pos)` where `pos` is
  the bytecode length when its body started (`BodyAt`: the cards of `unit[i]` were compiled from
  there, with `unit[i]`'s namespace and imports installed, and those bytes are still there at
  the end), its handle is not 0, and
* the program's label table maps a handle to its *last* insertion in the log; so if no other
  label (another function, a card, a closure) was inserted under the same 32-bit handle, the
  table maps `unit[i].handle` to `pos`. -/
theorem compile_function_labels {m std : Module} {limit : Nat} {p : Program}
    (h : compile m std limit = .ok p) :
    ∃ unit s', intoIrStream m std limit = .ok unit ∧ (compileUnit unit).run {} = .ok ((), s') ∧
      p.bytecode = s'.bytecode ∧
      (∀ hd, p.labels.find? (fun q => q.1 == hd) = s'.labels.reverse.find? (fun q => q.1 == hd)) ∧
      BodyAt (jumpTableOf unit.toList) unit[0]! 0 s' ∧
      ∀ i (hi : i < unit.size), 0 < i → unit[i].handle ≠ 0 ∧
        ∃ pos, (unit[i].handle, pos) ∈ s'.labels ∧
          BodyAt (jumpTableOf unit.toList) unit[i] pos s' ∧
          ((∀ q ∈ s'.labels, q.1 = unit[i].handle → q.2 = pos) →
            p.labels.find? (fun q => q.1 == unit[i].handle) = some (unit[i].handle, pos)) := by
  obtain ⟨unit, s', hi, hc, rfl⟩ := compile_ok_iff.1 h
  obtain ⟨_, _, _, hmain, hrest⟩ := compileUnit_spec hc
  refine ⟨unit, s', hi, hc, rfl, fun hd => resolveLog_find _ _, hmain, fun i hi hi0 => ?_⟩
  obtain ⟨hne, pos, hl, hb⟩ := hrest i hi hi0
  exact ⟨hne, pos, hl, hb, fun hu => resolveLog_find_of_unique hl hu⟩

/-! ## C08, assembled: a program compiles only if every static call designates exactly one
function — the one the reference semantics designates — and the label table leads to its body -/

/-- `calls c` / `callsList cs`: the names of all `Call` and `Function` cards in a card tree -/
example : calls (.call "f" [.function "g", .bin .add (.call "h" []) .scalarNil]) = ["f", "g", "h"] := rfl

/-- **(C08)** if `compile` succeeds then, for the stream `unit` of the program: the full names
are pairwise distinct, and every name `n` of a static call or function reference anywhere in the
body of any function `unit[i]` resolves — under the four-step rules, with `unit[i]`'s namespace and
imports — to the handle and arity of a function `unit[j]`, and `j` is the function the reference
semantics `Sem.resolve` designates for that call. (The jump operand emitted is that handle:
`encodeJump_emits_target`; where the handle leads: `compile_function_labels`.) -/
theorem compile_calls_resolve {m std : Module} {limit : Nat} {p : Program}
    (h : compile m std limit = .ok p) :
    ∃ unit, intoIrStream m std limit = .ok unit ∧
      (unit.toList.map FunctionIr.fullName).Pairwise (· ≠ ·) ∧
      ∀ i (hi : i < unit.size), ∀ n ∈ callsList unit[i].cards,
        ∃ j, ∃ hj : j < unit.size,
          resolveSpec (jumpTableOf unit.toList) unit[i].ns unit[i].imports n =
            .ok (unit[j].handle, UInt32.ofNat unit[j].arguments.length) ∧
          Sem.resolve (unit.map toFnDef) i n = some j ∧
          (∀ j' (hj' : j' < unit.size), unit[j'].fullName = unit[j].fullName → j' = j) := by
  obtain ⟨unit, s', hi, hc, rfl⟩ := compile_ok_iff.1 h
  obtain ⟨hpos, hpw, _, hmain, hrest⟩ := compileUnit_spec hc
  refine ⟨unit, hi, hpw, fun i hlt n hn => ?_⟩
  have hbody : ∃ pos, BodyAt (jumpTableOf unit.toList) unit[i] pos s' := by
    rcases Nat.eq_zero_or_pos i with rfl | h0
    · refine ⟨0, ?_⟩
      have : unit[0]! = unit[0] := getElem!_pos unit 0 hlt
      rw [this] at hmain; exact hmain
    · obtain ⟨_, pos, _, hb⟩ := hrest i hlt h0
      exact ⟨pos, hb⟩
  obtain ⟨pos, hb⟩ := hbody
  obtain ⟨⟨hd, a⟩, hr⟩ := hb.resolves n hn
  obtain ⟨j, hj, hs, rfl, rfl⟩ := resolve_agrees_sound unit i hlt n hd a hr
  refine ⟨j, hj, hr, hs, fun j' hj' he => ?_⟩
  -- distinct full names
  by_cases hjj : j' = j
  · exact hjj
  · exfalso
    have hp := List.pairwise_iff_getElem.1 hpw
    rcases Nat.lt_or_gt_of_ne hjj with hlt' | hlt'
    · have := hp j' j (by simpa using hj') (by simpa using hj) hlt'
      simp only [List.getElem_map, Array.getElem_toList] at this
      exact this he
    · have := hp j j' (by simpa using hj) (by simpa using hj') hlt'
      simp only [List.getElem_map, Array.getElem_toList] at this
      exact this he.symm

/-- **(C08, run-time half)** … and the designated function `unit[j]`, if it is not `main`, has its
handle in the label log at the position where its body starts; the program's label table maps
the handle there unless another label was later inserted under the same 32-bit handle. For
`j = 0` (`main`, whose body starts at position 0) the compiler inserts **no** label: a static
call of `main` compiles, but its handle is not in the label table (unless by collision). -/
theorem compile_call_target_labelled {m std : Module} {limit : Nat} {p : Program}
    (h : compile m std limit = .ok p) :
    ∃ unit s', intoIrStream m std limit = .ok unit ∧ (compileUnit unit).run {} = .ok ((), s') ∧
      p.bytecode = s'.bytecode ∧
      ∀ i (hi : i < unit.size), ∀ n ∈ callsList unit[i].cards,
        ∃ j, ∃ hj : j < unit.size,
          resolveSpec (jumpTableOf unit.toList) unit[i].ns unit[i].imports n =
            .ok (unit[j].handle, UInt32.ofNat unit[j].arguments.length) ∧
          (0 < j → ∃ pos, (unit[j].handle, pos) ∈ s'.labels ∧
            BodyAt (jumpTableOf unit.toList) unit[j] pos s' ∧
            ((∀ q ∈ s'.labels, q.1 = unit[j].handle → q.2 = pos) →
              p.labels.find? (fun q => q.1 == unit[j].handle) = some (unit[j].handle, pos))) := by
  obtain ⟨unit, hi, _, hres⟩ := compile_calls_resolve h
  obtain ⟨unit', s', hi', hc, hb, _, _, hrest⟩ := compile_function_labels h
  have : unit' = unit := by rw [hi] at hi'; cases hi'; rfl
  subst this
  refine ⟨unit', s', hi, hc, hb, fun i hlt n hn => ?_⟩
  obtain ⟨j, hj, hr, _, _⟩ := hres i hlt n hn
  refine ⟨j, hj, hr, fun h0 => ?_⟩
  obtain ⟨_, pos, h1, h2, h3⟩ := hrest j hj h0
  exact ⟨pos, h1, h2, h3⟩

/-! ## 3. handles

`compileUnit` has **no duplicate-handle check**: `insertLabel` only rejects the handle 0 (a
panic in the implementation), a second insertion under an existing handle silently overwrites
the first (`resolveLog`: later wins). The handles are `Hash.handleFromU64 (walk position)`, a
64→32 bit mixing hash: injectivity on stream positions is an *assumption* (`HandleInj`), it is
not provable from the definition (and false on all of `UInt64` by counting). -/

/-- **(3)** if `Handle::from_u64` is injective on the first `unit.size` positions, the function
handles of the stream are pairwise distinct -/
theorem handles_distinct {m std : Module} {limit : Nat} {unit : Array FunctionIr}
    (h : intoIrStream m std limit = .ok unit) (hinj : HandleInj unit.size) :
    (unit.toList.map (·.handle)).Pairwise (· ≠ ·) := by
  obtain ⟨hp, _⟩ := intoIrStream_stream h
  have hlen : unit.size = (entries (withStd m std) []).length := by
    have := hp.length_eq; simpa using this
  rw [hlen] at hinj
  have h1 := withHandles_handles_nodup hinj
  have h2 := hp.map (·.handle)
  exact (h2.pairwise_iff (fun {a b} (hab : a ≠ b) => hab.symm)).2 h1

set_option maxRecDepth 8192 in
/-- the assumption holds (by evaluation) for programs with up to 64 functions (`std` included) -/
theorem handleInj_64 : HandleInj 64 := by
  have h : ∀ i, i < 64 → ∀ j, j < 64 →
      Hash.handleFromU64 (UInt64.ofNat i) = Hash.handleFromU64 (UInt64.ofNat j) → i = j := by decide
  exact fun i j hi hj => h i hi j hj

theorem HandleInj.mono {n k : Nat} (h : HandleInj n) (hk : k ≤ n) : HandleInj k :=
  fun i j hi hj => h i j (by omega) (by omega)

/-- what the code does guarantee: every labelled function handle is non-zero -/
theorem compile_handles_nonzero {m std : Module} {limit : Nat} {p : Program}
    (h : compile m std limit = .ok p) :
    ∃ unit, intoIrStream m std limit = .ok unit ∧ ∀ i (hi : i < unit.size), 0 < i → unit[i].handle ≠ 0 := by
  obtain ⟨unit, s', hi, _, _, _, _, hrest⟩ := compile_function_labels h
  exact ⟨unit, hi, fun i h1 h2 => (hrest i h1 h2).1⟩

/-! ## non-vacuity: a small concrete program

`String.splitOn` is defined by well-founded recursion and does not reduce in the kernel, so the
few `splitOn` facts that are needed are proved by unfolding `splitOnAux` step by step
(`split_on_eval`); everything else is `simp` + `rfl`.

The tree (hand-flattened into `exFns`; handles are arbitrary distinct numbers):
```
root          main(), f(a)            imports lib.g, lib, lib.inner
└ lib         g(x,y), f()
  ├ inner     k()                     imports super.g, super.super.super.x, super.sib
  └ sib       q(z)
``` -/

set_option hygiene false in
macro "split_step" : tactic =>
  `(tactic| (rw [String.splitOnAux.eq_1]; simp (decide := true) only [↓reduceIte]))
/-- evaluate a closed `s.splitOn sep` -/
macro "split_on_eval" : tactic =>
  `(tactic| (unfold String.splitOn; rw [if_neg (by decide)]; repeat split_step))

def rootImps : List (String × String) := [("g", "lib.g"), ("lib", "lib"), ("inner", "lib.inner")]
def innerImps : List (String × String) :=
  [("g", "super.g"), ("x", "super.super.super.x"), ("sib", "super.sib")]

def mkFn (i : Nat) (name : String) (args : List String) (ns : List String)
    (imps : List (String × String)) (h : UInt32) : FunctionIr :=
  { functionIndex := i, name := name, arguments := args, cards := [], ns := ns, imports := imps, handle := h }

def exFns : Array FunctionIr := #[
  mkFn 0 "main" [] [] rootImps 10,
  mkFn 1 "f" ["a"] [] rootImps 11,
  mkFn 0 "g" ["x", "y"] ["lib"] [] 12,
  mkFn 1 "f" [] ["lib"] [] 13,
  mkFn 0 "k" [] ["lib", "inner"] innerImps 14,
  mkFn 0 "q" ["z"] ["lib", "sib"] [] 15]

theorem exJt : jumpTableOf exFns.toList =
    [("main", (10, 0)), ("f", (11, 1)), ("lib.g", (12, 2)), ("lib.f", (13, 0)),
     ("lib.inner.k", (14, 0)), ("lib.sib.q", (15, 1))] := by decide

/-- the import tables above are what `executeImports` computes -/
theorem so_g : "g".splitOn "." = ["g"] := by split_on_eval
theorem so_x : "x".splitOn "." = ["x"] := by split_on_eval
theorem so_nope : "nope".splitOn "." = ["nope"] := by split_on_eval
theorem so_inner_k : "inner.k".splitOn "." = ["inner", "k"] := by split_on_eval
theorem so_sib_q : "sib.q".splitOn "." = ["sib", "q"] := by split_on_eval
theorem so_libg : "lib.g".splitOn "." = ["lib", "g"] := by split_on_eval
theorem so_lib : "lib".splitOn "." = ["lib"] := by split_on_eval
theorem so_libinner : "lib.inner".splitOn "." = ["lib", "inner"] := by split_on_eval
theorem so_af : "a.f".splitOn "." = ["a", "f"] := by split_on_eval
theorem so_bf : "b.f".splitOn "." = ["b", "f"] := by split_on_eval
theorem sd_libg : superDepth "lib.g" = (0, none) := by
  have : "lib.g".splitOn "super." = ["lib.g"] := by split_on_eval
  unfold superDepth; rw [this]
theorem sd_libinner : superDepth "lib.inner" = (0, none) := by
  have : "lib.inner".splitOn "super." = ["lib.inner"] := by split_on_eval
  unfold superDepth; rw [this]
theorem sd_superg : superDepth "super.g" = (1, some "g") := by
  have : "super.g".splitOn "super." = ["", "g"] := by split_on_eval
  unfold superDepth; rw [this]; rfl
theorem sd_supersib : superDepth "super.sib" = (1, some "sib") := by
  have : "super.sib".splitOn "super." = ["", "sib"] := by split_on_eval
  unfold superDepth; rw [this]; rfl
theorem sd_super3x : superDepth "super.super.super.x" = (3, some "x") := by
  have : "super.super.super.x".splitOn "super." = ["", "", "", "x"] := by split_on_eval
  unfold superDepth; rw [this]; rfl

/-- absolute dotted path (from `main`) -/
theorem ex_absolute : resolveSpec (jumpTableOf exFns.toList) [] rootImps "lib.g" = .ok (12, 2) := by
  rw [exJt]; rfl

/-- the caller's own module (from `lib.f`): `g` is `lib.g` -/
theorem ex_same_module : resolveSpec (jumpTableOf exFns.toList) ["lib"] [] "g" = .ok (12, 2) := by
  rw [exJt]; rfl

/-- the absolute path is tried FIRST: from inside `lib`, the short name `f` designates the root
function `f` (handle 11, arity 1), not the caller's sibling `lib.f` (handle 13) — a root function
shadows a same-module function with the same short name (both in the compiler and in `Sem.resolve`) -/
theorem ex_root_shadows_same_module :
    resolveSpec (jumpTableOf exFns.toList) ["lib"] [] "f" = .ok (11, 1) := by
  rw [exJt]; rfl

/-- a function import (from `main`: `g` ↦ `lib.g`) -/
theorem ex_fn_import : resolveSpec (jumpTableOf exFns.toList) [] rootImps "g" = .ok (12, 2) := by
  rw [exJt]
  simp [resolveSpec, resolveWith, stepThen, look, fnImportStep, modImportStep, importTarget, sd_libg,
    so_g, rootImps, joinNs]
  rfl

/-- a function import with `super.` (from `lib.inner.k`: `g` ↦ `super.g` = `lib.g`) -/
theorem ex_fn_import_super :
    resolveSpec (jumpTableOf exFns.toList) ["lib", "inner"] innerImps "g" = .ok (12, 2) := by
  rw [exJt]
  simp [resolveSpec, resolveWith, stepThen, look, fnImportStep, modImportStep, importTarget, sd_superg,
    so_g, innerImps, joinNs]
  rfl

/-- a module-prefix import (from `main`: `inner` ↦ `lib.inner`, so `inner.k` is `lib.inner.k`) -/
theorem ex_mod_import : resolveSpec (jumpTableOf exFns.toList) [] rootImps "inner.k" = .ok (14, 0) := by
  rw [exJt]
  simp [resolveSpec, resolveWith, stepThen, look, fnImportStep, modImportStep, importTarget,
    sd_libinner, so_inner_k, rootImps, joinNs]
  rfl

/-- a module-prefix import through `super.` resolves (repaired; the pinned code looked up
`lib.super.sib.sib` — namespace ++ alias ++ "." ++ text after the last `super.` — and never found
`lib.sib.q`): from `lib.inner.k`, with the import `super.sib`, the call `sib.q` is `lib.sib.q`. -/
theorem ex_mod_import_super :
    resolveSpec (jumpTableOf exFns.toList) ["lib", "inner"] innerImps "sib.q" = .ok (15, 1) ∧
    look (jumpTableOf exFns.toList) "lib.sib.q" = some (15, 1) := by
  rw [exJt]
  refine ⟨?_, rfl⟩
  simp [resolveSpec, resolveWith, stepThen, look, fnImportStep, modImportStep, importTarget,
    sd_supersib, so_sib_q, innerImps, joinNs]
  rfl

/-- a name that resolves to nothing -/
theorem ex_unresolvable : resolveSpec (jumpTableOf exFns.toList) [] rootImps "nope" = .error .invalidJump := by
  rw [exJt]
  simp [resolveSpec, resolveWith, stepThen, look, fnImportStep, modImportStep, so_nope,
    rootImps, joinNs]

/-- too many `super.` -/
theorem ex_super_limit :
    resolveSpec (jumpTableOf exFns.toList) ["lib", "inner"] innerImps "x" = .error .superLimitReached := by
  rw [exJt]
  simp [resolveSpec, resolveWith, stepThen, look, fnImportStep, modImportStep, importTarget, sd_super3x,
    so_x, innerImps, joinNs]
  rfl

/-- … and `encodeJump` then emits exactly the handle and the arity -/
example (s : CState) (hjt : s.jumpTable = jumpTableOf exFns.toList) (hns : s.ns = []) (hi : s.imports = rootImps) :
    (encodeJump "inner.k").run s =
      .ok ((), { s with bytecode := s.bytecode ++ (le32 14).toArray ++ (le32 0).toArray }) :=
  encodeJump_emits_target _ _ _ _ (by rw [hjt, hns, hi]; exact ex_mod_import)

/-- the reference semantics designates a function with the same handle (via `resolve_agrees_sound`) -/
example : ∃ j, ∃ hj : j < exFns.size, Sem.resolve (exFns.map toFnDef) 0 "inner.k" = some j ∧
    exFns[j].handle = 14 ∧ (0 : UInt32) = UInt32.ofNat exFns[j].arguments.length :=
  resolve_agrees_sound exFns 0 (by decide) "inner.k" 14 0 ex_mod_import

example : Sem.resolve (exFns.map toFnDef) 0 "nope" = none :=
  resolve_invalidJump_sem exFns 0 (by decide) "nope" ex_unresolvable

example : ∃ j, ∃ hj : j < exFns.size, Sem.resolve (exFns.map toFnDef) 4 "sib.q" = some j ∧
    exFns[j].handle = 15 ∧ (1 : UInt32) = UInt32.ofNat exFns[j].arguments.length :=
  resolve_agrees_sound exFns 4 (by decide) "sib.q" 15 1 ex_mod_import_super.1

/-! ### the one place where the two lookup orders differ

`Sem.resolve` treats an import with too many `super.` as a miss and goes on with the next step;
the compiler stops with `SuperLimitReached`. With import keys that contain a dot (which
`executeImports` never produces: the key is the last `.`-segment) the reference can therefore
resolve a name the compiler rejects. At the level of the generic steps (`Sem.resolve` is
`semWith (Sem.findFn fns)`, `resolveSpec` is `resolveWith (look jt)`): -/

def cexLk (n : String) : Option Nat := if n = "m.b" then some 1 else none
def cexImps : List (String × String) := [("a.b", "super.x"), ("a", "m")]

theorem so_ab : "a.b".splitOn "." = ["a", "b"] := by split_on_eval
theorem sd_superx : superDepth "super.x" = (1, some "x") := by
  have : "super.x".splitOn "super." = ["", "x"] := by split_on_eval
  unfold superDepth; rw [this]; rfl
theorem sd_m : superDepth "m" = (0, none) := by
  have : "m".splitOn "super." = ["m"] := by split_on_eval
  unfold superDepth; rw [this]

theorem orders_differ_with_dotted_keys :
    resolveWith cexLk [] cexImps "a.b" = .error .superLimitReached ∧
    semWith cexLk [] cexImps "a.b" = some 1 := by
  constructor
  · simp [resolveWith, stepThen, cexLk, fnImportStep, modImportStep, importTarget, sd_superx, sd_m,
      so_ab, cexImps, joinNs]
    rfl
  · simp [semWith, optStep, cexLk, fnImportStep, modImportStep, importTarget, sd_superx, sd_m,
      so_ab, cexImps, joinNs, Except.map]

theorem orders_differ : resolveWith cexLk [] cexImps "a.b" ≠ (match semWith cexLk [] cexImps "a.b" with
    | some j => .ok j | none => .error .invalidJump) := by
  rw [orders_differ_with_dotted_keys.1, orders_differ_with_dotted_keys.2]
  intro h; cases h

/-- `cexImps` does not have single-segment keys, as it must -/
example : ¬ SimpleKeys cexImps := fun h => h ("a.b", "super.x") (by simp [cexImps]) "a" "b" [] so_ab

/-- unproven (needs a theory of `String.splitOn`): the keys `executeImports` produces are single
segments, i.e. the hypothesis `SimpleKeys` of `resolve_agrees` always holds for streams produced by
`intoIrStream`. It is checked on the example tables below. -/
def executeImports_simpleKeys_Full : Prop :=
  ∀ imps l, executeImports imps = .ok l → SimpleKeys l

example : SimpleKeys rootImps := by
  intro p hp pre x rest
  simp only [rootImps, List.mem_cons, List.not_mem_nil, or_false] at hp
  rcases hp with rfl | rfl | rfl <;> simp [so_g, so_lib, show "inner".splitOn "." = ["inner"] by split_on_eval]

/-- the import table of every function of a stream produced by `intoIrStream` is a result of
`executeImports` -/
theorem stream_imports {m std : Module} {limit : Nat} {unit : Array FunctionIr}
    (h : intoIrStream m std limit = .ok unit) (i : Nat) (hi : i < unit.size) :
    ∃ imps, executeImports imps = .ok unit[i].imports := by
  obtain ⟨hp, _⟩ := intoIrStream_stream h
  obtain ⟨_, _, h3, _⟩ := intoIrStream_ok h
  have hm : unit[i] ∈ unit.toList := by simp
  obtain ⟨g, hg, he⟩ := withHandles_mem_imports _ _ _ (hp.mem_iff.1 hm)
  obtain ⟨imps, hi'⟩ := entries_imports_all.1 _ _ h3 g hg
  exact ⟨imps, by rw [← he]; exact hi'⟩

/-- **(2, for compiled programs, modulo the string fact)** assuming
`executeImports_simpleKeys_Full`, on the stream of any program accepted by `intoIrStream` the
compiler's resolution and `Sem.resolve` agree exactly, for every caller and every name -/
theorem resolve_agrees_stream (hfull : executeImports_simpleKeys_Full)
    {m std : Module} {limit : Nat} {unit : Array FunctionIr}
    (h : intoIrStream m std limit = .ok unit) (home : Nat) (hh : home < unit.size) (name : String)
    (hd a : UInt32) :
    resolveSpec (jumpTableOf unit.toList) unit[home].ns unit[home].imports name = .ok (hd, a) ↔
      ∃ j, ∃ hj : j < unit.size, Sem.resolve (unit.map toFnDef) home name = some j ∧
        unit[j].handle = hd ∧ a = UInt32.ofNat unit[j].arguments.length := by
  obtain ⟨imps, hi⟩ := stream_imports h home hh
  exact resolve_agrees unit home hh (hfull imps _ hi) name hd a

/-! ### rejections on concrete inputs -/

example : isNameValid "super" = false := by decide
example : isNameValid "" = false := by decide
example : isNameValid "a.b" = false := by decide
example : isNameValid "foo_1" = true := by decide

/-- the import tables of the example tree are what `executeImports` computes -/
example : executeImports ["lib.g", "lib.inner"] = .ok [("g", "lib.g"), ("inner", "lib.inner")] := by
  rw [executeImports_accepts]
  simp [dotted, lastSeg, so_libg, so_libinner]

example : executeImports ["lib"] = .error .badImport :=
  executeImports_single_bad _ (by simp [dotted, so_lib])

example : executeImports ["a.f", "b.f"] = .error .ambigousImport :=
  executeImports_pair_ambiguous _ _ (by simp [dotted, so_af]) (by simp [dotted, so_bf])
    (by simp [lastSeg, so_af, so_bf])

/-- a user module called `std` -/
example (std : Module) (limit : Nat) :
    compile (.mk [("std", .mk [] [] [])] [("main", ⟨[], []⟩)] []) std limit =
      .error (.err .duplicateModule (some { ns := [], function := 0, indices := [] })) :=
  compile_rejects_user_std (by simp [Module.submodules])

/-- no `main` -/
example (limit : Nat) :
    intoIrStream (.mk [] [("start", ⟨[], []⟩)] []) (.mk [] [] []) limit = .error .noMain := by
  rw [intoIrStream_noMain_iff]
  constructor <;> decide

/-- an invalid function name (`limit ≥ 2`, so that the nesting is fine) -/
example : intoIrStream (.mk [] [("main", ⟨[], []⟩), ("a.b", ⟨[], []⟩)] []) (.mk [] [] []) 2 =
    .error .badFunctionName := by
  refine intoIrStream_error_only (by decide) (by decide) (by decide) ?_
  intro k' hk'
  cases k' <;> first | exact absurd rfl hk' | decide

/-- nesting deeper than the limit -/
example : intoIrStream (.mk [("a", .mk [("b", .mk [] [] [])] [] [])] [("main", ⟨[], []⟩)] []) (.mk [] [] []) 2 =
    .error .recursionLimitReached := by
  refine intoIrStream_error_only (by decide) (by decide) (by decide) ?_
  intro k' hk'
  cases k' <;> first | exact absurd rfl hk' | decide

/-- two functions with the same name in one module -/
example : ∃ unit, intoIrStream (.mk [] [("main", ⟨[], []⟩), ("f", ⟨[], []⟩), ("f", ⟨["x"], []⟩)] [])
      (.mk [] [] []) 2 = .ok unit ∧
    compile (.mk [] [("main", ⟨[], []⟩), ("f", ⟨[], []⟩), ("f", ⟨["x"], []⟩)] []) (.mk [] [] []) 2 =
      .error (.err .duplicateName (some { ns := [], function := 0, indices := [] })) := by
  have h : ∃ unit, intoIrStream (.mk [] [("main", ⟨[], []⟩), ("f", ⟨[], []⟩), ("f", ⟨["x"], []⟩)] [])
      (.mk [] [] []) 2 = .ok unit :=
    ⟨_, (intoIrStream_ok_iff _ _ _ _).2 ⟨by decide, by decide, 0, by decide, rfl⟩⟩
  obtain ⟨unit, hu⟩ := h
  exact ⟨unit, hu, compile_rejects_dup_fn_in_module hu (by decide)⟩

end Cao.C08
