import CaoProofs.Lemmas.UpvalueLemmas
import CaoProofs.Lemmas.CompilerLemmas
/-!
# C06 — closures capture variables by reference, with correct identity and lifetime

State/heap level laws of the capture mechanism of the (repaired) interpreter model
`CaoModel/Vm.lean`, for all machine states that satisfy the well-formedness invariant
`UpInv = UpCore ∧ UpBound` of `CaoProofs/Lemmas/UpvalueLemmas.lean`:

1. `register_shares` (+ `register_existing`, `register_fresh`, `register_outer`, `register_oom`,
   `register_no_slot`, `distinct_slots_distinct_objects`, `closed_slot_is_free`,
   `each_iteration_captures_fresh`) — `RegisterUpvalue` shares / separates / renews upvalue objects;
2. `open_read_write` (+ `readUpvalue_open`, `readLocalVar_slot`, `setUpvalue_open`,
   `setLocalVar_slot`) — an open upvalue *is* the stack slot;
3. `close_preserves_value`, `closed_read_write`, `shared_after_close` (+ `readUpvalue_closed`,
   `setUpvalue_closed`) — closing copies the value; afterwards the upvalue is independent of the
   stack and stays shared;
4. `frame_relative`, `oldSlot_differs` — the captured slot is relative to the running frame;
5. `return_closes_frame`, `push_inv`, `pop_inv`, `pop_breaks_bound`, `clearUntil_inv`,
   `closeUpvalue_inv`, `scope_end_closes_all` (`ScopeExit`), `closure_inv`, `readUpvalue_inv`,
   `setUpvalue_inv`, `step_core`,
   `exec_core'`, `run_core'`, `upInv_of_compiled_runs_Full` — the invariant is kept;
6. compiler side: `closure_label_unique_partial`, `closure_card_dispatch`, `closure_object`,
   `callScript_enters`, `closureHandle_same_fn`, `closureHandle_same_path`, `addUpvalue_index`,
   `emitUpvalues_bytes`, `upvalueBytes_get`, `resolveUpvalue_local`, `closure_dispatch_Full`;
7. non-vacuity: a machine with two frames and two sibling closures (`demo0` … `demo6`), a compiled
   closure expression (`demoClosure`).
-/
namespace Cao.C06
open Cao Cao.Vm Cao.Gc Cao.C02 Cao.C05 Cao.Upv
set_option linter.unusedSectionVars false
set_option linter.unusedVariables false
set_option linter.unusedSimpArgs false

/-! ## 0. running the primitives -/

theorem go_pop (s : VmState) : Vm.pop.go s = (.ok s.stack.pop.2, { s with stack := s.stack.pop.1 }) := rfl

theorem go_push (v : Val) (s : VmState) :
    (push v).go s = if s.stack.count + 1 < s.stack.data.length
      then (.ok ⟨⟩, { s with stack := { count := s.stack.count + 1, data := s.stack.data.set s.stack.count v } })
      else (.error .stackoverflow, s) := by
  unfold push
  simp only [go_bind, go_get, VStack.push]
  by_cases h : s.stack.count + 1 < s.stack.data.length
  · simp only [h, if_true]; rfl
  · simp only [h, if_false]; rfl

theorem go_readUpvalueLoc_open {s : VmState} {u i : Nat} (h : s.heap.get u = some (.upvalue (.stack i))) :
    (readUpvalueLoc u).go s = (.ok (s.stack.data.getD i .nil), s) := by
  unfold readUpvalueLoc
  simp only [go_bind, go_get, h, go_pure]

theorem go_readUpvalueLoc_closed {s : VmState} {u : Nat} {v : Val}
    (h : s.heap.get u = some (.upvalue (.closed v))) : (readUpvalueLoc u).go s = (.ok v, s) := by
  unfold readUpvalueLoc
  simp only [go_bind, go_get, h, go_pure]

theorem go_writeUpvalueLoc_open {s : VmState} {u i : Nat} (v : Val)
    (h : s.heap.get u = some (.upvalue (.stack i))) :
    (writeUpvalueLoc u v).go s =
      (.ok ⟨⟩, { s with stack := { s.stack with data := s.stack.data.set i v } }) := by
  unfold writeUpvalueLoc
  simp only [go_bind, go_get, h, go_set]

theorem go_writeUpvalueLoc_closed {s : VmState} {u : Nat} (v : Val) {w : Val}
    (h : s.heap.get u = some (.upvalue (.closed w))) :
    (writeUpvalueLoc u v).go s = (.ok ⟨⟩, { s with heap := s.heap.set u (.upvalue (.closed v)) }) := by
  unfold writeUpvalueLoc
  simp only [go_bind, go_get, h, go_set]

theorem go_readLocal (off idx : Nat) (s : VmState) :
    (readLocal off idx).go s = (.ok (s.stack.get (off + idx)), s) := rfl

theorem stack_get_lt {s : VmState} {i : Nat} (hi : i < s.stack.count) :
    s.stack.get i = s.stack.data.getD i .nil := by
  unfold VStack.get
  rw [if_neg (by omega)]; rfl

theorem stack_set_lt {s : VmState} {i : Nat} (v : Val) (hi : i < s.stack.count) :
    s.stack.set i v = ({ s.stack with data := s.stack.data.set i v }, .ok (s.stack.get i)) := by
  unfold VStack.set
  rw [if_neg (by omega), if_neg (by omega), stack_get_lt hi]; rfl

theorem go_writeLocal_lt (off idx : Nat) (v : Val) {s : VmState} (hi : off + idx < s.stack.count) :
    (writeLocal off idx v).go s =
      (.ok ⟨⟩, { s with stack := { s.stack with data := s.stack.data.set (off + idx) v } }) := by
  unfold writeLocal
  simp only [go_bind, go_get, stack_set_lt v hi, go_set]

/-! ## 2. `open_read_write`: an open upvalue is the stack slot -/

/-- **While an upvalue is open, reading it reads the stack slot and writing it writes the stack
    slot** — exactly what `ReadLocalVar`/`SetLocalVar` of the enclosing function do with the same
    slot (`readLocal`/`writeLocal` with `off + idx = i`), hence the enclosing scope and all
    closures that hold `u` see one variable.  After a write, every reader gets the new value. -/
theorem open_read_write {s : VmState} (hinv : UpInv s) {u i : Nat} (hu : u ∈ s.openUpvalues)
    (hs : upvalueSlot s.heap u = some i) (v : Val) :
    i < s.stack.count ∧
    (readUpvalueLoc u).go s = (.ok (s.stack.get i), s) ∧
    (writeUpvalueLoc u v).go s = (.ok ⟨⟩, { s with stack := (s.stack.set i v).1 }) ∧
    (s.stack.set i v).2 = .ok (s.stack.get i) ∧
    (∀ off idx, off + idx = i →
      (readUpvalueLoc u).go s = (readLocal off idx).go s ∧
      (writeUpvalueLoc u v).go s = (writeLocal off idx v).go s) ∧
    (i < s.stack.data.length →
      (readUpvalueLoc u).go ((writeUpvalueLoc u v).go s).2 = (.ok v, ((writeUpvalueLoc u v).go s).2) ∧
      ((writeUpvalueLoc u v).go s).2.stack.get i = v) := by
  have hi : i < s.stack.count := hinv.bound u hu i hs
  have hg := upvalueSlot_eq_some.mp hs
  have hr : (readUpvalueLoc u).go s = (.ok (s.stack.get i), s) := by
    rw [go_readUpvalueLoc_open hg, stack_get_lt hi]
  have hw : (writeUpvalueLoc u v).go s = (.ok ⟨⟩, { s with stack := (s.stack.set i v).1 }) := by
    rw [go_writeUpvalueLoc_open v hg, stack_set_lt v hi]
  refine ⟨hi, hr, hw, by rw [stack_set_lt v hi], ?_, ?_⟩
  · intro off idx hoi
    subst hoi
    refine ⟨by rw [hr, go_readLocal], ?_⟩
    rw [go_writeUpvalueLoc_open v hg, go_writeLocal_lt off idx v hi]
  · intro hlen
    rw [go_writeUpvalueLoc_open v hg]
    have hg' : ({ s with stack := { s.stack with data := s.stack.data.set i v } } : VmState).heap.get u =
        some (.upvalue (.stack i)) := hg
    rw [go_readUpvalueLoc_open hg']
    have : (s.stack.data.set i v).getD i .nil = v := by
      simp [List.getD_eq_getElem?_getD, hlen]
    refine ⟨by simp only [this], ?_⟩
    show VStack.get { s.stack with data := s.stack.data.set i v } i = v
    unfold VStack.get
    rw [if_neg (by simp only; omega)]
    exact this

/-! ### the instructions -/

theorem go_curFrame_some {s : VmState} {fr : Frame} (h : s.frames.getLast? = some fr) :
    curFrame.go s = (.ok fr, s) := by
  rw [go_curFrame, h]

/-- the running frame belongs to the closure `c`, whose `idx`-th upvalue is `u` -/
structure Running (s : VmState) (fr : Frame) (c : Nat) (idx u : Nat) : Prop where
  frame : s.frames.getLast? = some fr
  clo : fr.closure = some c
  ups : ∃ hd ar ups, s.heap.get c = some (.closure hd ar ups) ∧ ups[idx]? = some u

/-- `ReadUpvalue idx`, executed by a closure whose `idx`-th upvalue is open at slot `i`, pushes the
    current content of the stack slot `i` -/
theorem readUpvalue_open {s : VmState} {fr : Frame} {c idx u i : Nat} (hr : Running s fr c idx u)
    (hg : s.heap.get u = some (.upvalue (.stack i))) (hi : i < s.stack.count) (ip : Nat) :
    (Instr.readUpvalue idx ip).go s =
      (do push (s.stack.get i); pure ({ ip := ip + 4 } : Ctl) : M Ctl).go s := by
  obtain ⟨hd, ar, ups, hc, hidx⟩ := hr.ups
  unfold Instr.readUpvalue
  simp only [go_bind, go_curFrame_some hr.frame, hr.clo, go_get, hc, hidx, go_readUpvalueLoc_open hg,
    stack_get_lt hi]

/-- `ReadLocalVar h` in a frame at offset `off` pushes the content of slot `off + h`: the same
    value as `ReadUpvalue` of any closure that captured that slot -/
theorem readLocalVar_slot {s : VmState} {fr : Frame} (hf : s.frames.getLast? = some fr) (h ip : Nat) :
    (Instr.readLocalVar h ip).go s =
      (do push (s.stack.get (fr.stackOffset + h)); pure ({ ip := ip + 4 } : Ctl) : M Ctl).go s := by
  unfold Instr.readLocalVar
  simp only [go_bind, go_curFrame_some hf, go_readLocal]

/-- `ReadUpvalue` of a closed upvalue pushes the upvalue's own value -/
theorem readUpvalue_closed {s : VmState} {fr : Frame} {c idx u : Nat} {v : Val} (hr : Running s fr c idx u)
    (hg : s.heap.get u = some (.upvalue (.closed v))) (ip : Nat) :
    (Instr.readUpvalue idx ip).go s = (do push v; pure ({ ip := ip + 4 } : Ctl) : M Ctl).go s := by
  obtain ⟨hd, ar, ups, hc, hidx⟩ := hr.ups
  unfold Instr.readUpvalue
  simp only [go_bind, go_curFrame_some hr.frame, hr.clo, go_get, hc, hidx, go_readUpvalueLoc_closed hg]

/-- `SetUpvalue idx` pops the value and stores it into the stack slot of the open upvalue -/
theorem setUpvalue_open {s : VmState} {fr : Frame} {c idx u i : Nat} (hr : Running s fr c idx u)
    (hg : s.heap.get u = some (.upvalue (.stack i))) (hi : i < s.stack.count - 1) (ip : Nat) :
    (Instr.setUpvalue idx ip).go s =
      (.ok { ip := ip + 4 }, { s with stack := (s.stack.pop.1.set i s.stack.pop.2).1 }) := by
  obtain ⟨hd, ar, ups, hc, hidx⟩ := hr.ups
  have hcnt : s.stack.pop.1.count = s.stack.count - 1 := by
    unfold VStack.pop; split
    · next h0 => simp [h0]
    · rfl
  have hi' : i < ({ s with stack := s.stack.pop.1 } : VmState).stack.count := by
    show i < s.stack.pop.1.count; omega
  unfold Instr.setUpvalue
  simp only [go_bind, go_pop]
  have hf' : ({ s with stack := s.stack.pop.1 } : VmState).frames.getLast? = some fr := hr.frame
  have hc' : ({ s with stack := s.stack.pop.1 } : VmState).heap.get c = some (.closure hd ar ups) := hc
  have hg' : ({ s with stack := s.stack.pop.1 } : VmState).heap.get u = some (.upvalue (.stack i)) := hg
  have hset := stack_set_lt (s := { s with stack := s.stack.pop.1 }) s.stack.pop.2 hi'
  generalize hs1 : ({ s with stack := s.stack.pop.1 } : VmState) = s1 at hi' hf' hc' hg'
  simp only [go_curFrame_some hf', hr.clo]
  simp only [go_bind, go_get, hc', hidx, go_writeUpvalueLoc_open _ hg', go_pure]
  subst hs1
  rw [show s.stack.pop.1.set i s.stack.pop.2 = _ from hset]

/-- `SetLocalVar h` in a frame at offset `off` (with a value above the frame) pops the value and
    stores it into slot `off + h`: the same state change as `SetUpvalue` through an upvalue that is
    open at that slot -/
theorem setLocalVar_slot {s : VmState} {fr : Frame} (hf : s.frames.getLast? = some fr) (h ip : Nat)
    (hoff : fr.stackOffset < s.stack.count) (hi : fr.stackOffset + h < s.stack.count - 1) :
    (Instr.setLocalVar h ip).go s =
      (.ok { ip := ip + 4 },
       { s with stack := (s.stack.pop.1.set (fr.stackOffset + h) s.stack.pop.2).1 }) := by
  have hcnt : s.stack.pop.1.count = s.stack.count - 1 := by
    unfold VStack.pop; split
    · next h0 => simp [h0]
    · rfl
  have hpw : s.stack.popWOffset fr.stackOffset = s.stack.pop := by
    unfold VStack.popWOffset; rw [if_neg (by omega)]
  have hi' : fr.stackOffset + h < ({ s with stack := s.stack.pop.1 } : VmState).stack.count := by
    show _ < s.stack.pop.1.count; omega
  unfold Instr.setLocalVar
  simp only [go_bind, go_curFrame_some hf, go_get, hpw, go_set, go_writeLocal_lt _ _ _ hi', go_pure]
  rw [stack_set_lt _ hi']

/-- `SetUpvalue` of a closed upvalue stores into the upvalue object; the stack is only popped -/
theorem setUpvalue_closed {s : VmState} {fr : Frame} {c idx u : Nat} {w : Val} (hr : Running s fr c idx u)
    (hg : s.heap.get u = some (.upvalue (.closed w))) (ip : Nat) :
    (Instr.setUpvalue idx ip).go s =
      (.ok { ip := ip + 4 },
       { s with stack := s.stack.pop.1, heap := s.heap.set u (.upvalue (.closed s.stack.pop.2)) }) := by
  obtain ⟨hd, ar, ups, hc, hidx⟩ := hr.ups
  unfold Instr.setUpvalue
  simp only [go_bind, go_pop]
  have hf' : ({ s with stack := s.stack.pop.1 } : VmState).frames.getLast? = some fr := hr.frame
  have hc' : ({ s with stack := s.stack.pop.1 } : VmState).heap.get c = some (.closure hd ar ups) := hc
  have hg' : ({ s with stack := s.stack.pop.1 } : VmState).heap.get u = some (.upvalue (.closed w)) := hg
  generalize hs1 : ({ s with stack := s.stack.pop.1 } : VmState) = s1 at hf' hc' hg'
  simp only [go_curFrame_some hf', hr.clo]
  simp only [go_bind, go_get, hc', hidx, go_writeUpvalueLoc_closed _ hg', go_pure]
  subst hs1
  rfl

/-! ## 3. `close_preserves_value`, `closed_read_write` -/

/-- **`closeUpvalues k` turns every open upvalue with slot `≥ k` into a closed one that holds exactly
    the value the slot had at that moment, leaves those below `k` open, leaves every other object
    (in particular every closure object) and the rest of the machine unchanged.** -/
theorem close_preserves_value {s : VmState} (hinv : UpInv s) (k : Nat) :
    (closeUpvalues k).go s = (.ok ⟨⟩, closeState k s) ∧
    (closeState k s).stack = s.stack ∧ (closeState k s).frames = s.frames ∧
    (closeState k s).globals = s.globals ∧ (closeState k s).guards = s.guards ∧
    (∀ u ∈ s.openUpvalues, ∀ i, upvalueSlot s.heap u = some i → k ≤ i →
      (closeState k s).heap.get u = some (.upvalue (.closed (s.stack.get i))) ∧
      u ∉ (closeState k s).openUpvalues) ∧
    (∀ u ∈ s.openUpvalues, ∀ i, upvalueSlot s.heap u = some i → i < k →
      u ∈ (closeState k s).openUpvalues ∧ (closeState k s).heap.get u = s.heap.get u) ∧
    (∀ b, b ∉ s.openUpvalues → (closeState k s).heap.get b = s.heap.get b) ∧
    (closeState k s).openUpvalues = s.openUpvalues.filter (below s.heap k) ∧
    UpInv (closeState k s) ∧
    (∀ a ∈ (closeState k s).openUpvalues, ∀ i, upvalueSlot (closeState k s).heap a = some i → i < k) := by
  have hc := hinv.core
  refine ⟨go_closeUpvalues k s, rfl, rfl, rfl, rfl, ?_, ?_, ?_, closeState_open hc k, ⟨closeState_core hc k, ?_⟩, ?_⟩
  · intro u hu i hi hle
    rw [stack_get_lt (hinv.bound u hu i hi)]
    refine ⟨closeState_closed hc k hu hi hle, ?_⟩
    rw [closeState_open hc k, List.mem_filter]
    rintro ⟨_, hb⟩
    simp only [below, hi, decide_eq_true_eq] at hb
    omega
  · intro u hu i hi hlt
    have hb : below s.heap k u = true := by simp only [below, hi, decide_eq_true_eq]; exact hlt
    refine ⟨?_, closeState_other hc k (Or.inr hb)⟩
    rw [closeState_open hc k, List.mem_filter]
    exact ⟨hu, hb⟩
  · intro b hb
    exact closeState_other hc k (Or.inl hb)
  · intro a ha i hi
    have ha' := ha
    rw [closeState_open hc k, List.mem_filter] at ha'
    rw [upvalueSlot_congr (closeState_other hc k (Or.inr ha'.2))] at hi
    exact hinv.bound a ha'.1 i hi
  · intro a ha i hi
    exact closeState_below hc k ha hi

/-- **a closed upvalue is independent of the value stack**: reading returns its own value whatever
    the stack is, writing changes only the upvalue object, and a later read returns what was
    written -/
theorem closed_read_write {s : VmState} {u : Nat} {v : Val}
    (hg : s.heap.get u = some (.upvalue (.closed v))) (w : Val) (st : VStack Val) :
    (readUpvalueLoc u).go s = (.ok v, s) ∧
    (readUpvalueLoc u).go { s with stack := st } = (.ok v, { s with stack := st }) ∧
    (writeUpvalueLoc u w).go s = (.ok ⟨⟩, { s with heap := s.heap.set u (.upvalue (.closed w)) }) ∧
    ((writeUpvalueLoc u w).go s).2.stack = s.stack ∧
    (readUpvalueLoc u).go ((writeUpvalueLoc u w).go s).2 = (.ok w, ((writeUpvalueLoc u w).go s).2) := by
  have hg' : ({ s with stack := st } : VmState).heap.get u = some (.upvalue (.closed v)) := hg
  refine ⟨go_readUpvalueLoc_closed hg, go_readUpvalueLoc_closed hg', go_writeUpvalueLoc_closed w hg, ?_, ?_⟩
  · rw [go_writeUpvalueLoc_closed w hg]
  · rw [go_writeUpvalueLoc_closed w hg]
    exact go_readUpvalueLoc_closed (get_set_self _ _ _ _ hg)

/-- **closures that shared an open upvalue still share it after it was closed**: both closure
    objects are untouched by `closeUpvalues`, so both still refer to the same address `u`, which now
    holds the last value of the variable; a write through one is read through the other -/
theorem shared_after_close {s : VmState} (hinv : UpInv s) {k c₁ c₂ u i j₁ j₂ : Nat} {hd₁ ar₁ hd₂ ar₂ : UInt32}
    {ups₁ ups₂ : List Nat}
    (h₁ : s.heap.get c₁ = some (.closure hd₁ ar₁ ups₁)) (hj₁ : ups₁[j₁]? = some u)
    (h₂ : s.heap.get c₂ = some (.closure hd₂ ar₂ ups₂)) (hj₂ : ups₂[j₂]? = some u)
    (hu : u ∈ s.openUpvalues) (hs : upvalueSlot s.heap u = some i) (hk : k ≤ i) :
    (closeState k s).heap.get c₁ = some (.closure hd₁ ar₁ ups₁) ∧
    (closeState k s).heap.get c₂ = some (.closure hd₂ ar₂ ups₂) ∧
    (closeState k s).heap.get u = some (.upvalue (.closed (s.stack.get i))) ∧
    ∀ w, (((writeUpvalueLoc u w).go (closeState k s)).2.heap.get c₂ = some (.closure hd₂ ar₂ ups₂)) ∧
      (readUpvalueLoc u).go ((writeUpvalueLoc u w).go (closeState k s)).2 =
        (.ok w, ((writeUpvalueLoc u w).go (closeState k s)).2) := by
  have hc := hinv.core
  have hn : ∀ {c hd ar ups}, s.heap.get c = some (.closure hd ar ups) → ¬ IsUp s.heap c := by
    intro c hd ar ups h ⟨loc, hl⟩; rw [h] at hl; cases hl
  have hu' := ((close_preserves_value hinv k).2.2.2.2.2.1 u hu i hs hk).1
  have e₁ : (closeState k s).heap.get c₁ = _ := (closeState_notUp hc k (hn h₁)).trans h₁
  have e₂ : (closeState k s).heap.get c₂ = _ := (closeState_notUp hc k (hn h₂)).trans h₂
  refine ⟨e₁, e₂, hu', fun w => ?_⟩
  have hcw := closed_read_write hu' w s.stack
  refine ⟨?_, hcw.2.2.2.2⟩
  rw [hcw.2.2.1]
  show ((closeState k s).heap.set u _).get c₂ = _
  rw [get_set_ne _ _ _ _ (fun h => by subst h; rw [hu'] at e₂; cases e₂)]
  exact e₂

/-! ## 5. the invariant is kept -/

/-- no open upvalue captures the top slot of the value stack -/
def TopFree (s : VmState) : Prop :=
  ∀ a ∈ s.openUpvalues, upvalueSlot s.heap a ≠ some (s.stack.count - 1)

theorem UpBound.of_keep {s s' : VmState} (hb : UpBound s) (ho : s'.openUpvalues = s.openUpvalues)
    (hk : ∀ a ∈ s.openUpvalues, s'.heap.get a = s.heap.get a) (hcnt : s.stack.count ≤ s'.stack.count) :
    UpBound s' := by
  intro a ha i hi
  rw [ho] at ha
  rw [upvalueSlot_congr (hk a ha)] at hi
  exact Nat.lt_of_lt_of_le (hb a ha i hi) hcnt

/-- `push` keeps the invariant -/
theorem push_inv {s : VmState} (hinv : UpInv s) (v : Val) : UpInv ((push v).go s).2 := by
  rw [go_push]
  split
  · exact ⟨UpCore.congr (s := s) rfl rfl hinv.core,
      UpBound.congr (s := s) rfl rfl (Nat.le_succ _) hinv.bound⟩
  · exact hinv

theorem pop_count (st : VStack Val) : st.pop.1.count = st.count - 1 := by
  unfold VStack.pop; split
  · next h0 => simp [h0]
  · rfl

/-- when the top slot is not captured, shrinking the stack by one keeps the invariant -/
theorem shrink_inv {s s' : VmState} (hinv : UpInv s) (hfree : TopFree s) (hh : s'.heap = s.heap)
    (ho : s'.openUpvalues = s.openUpvalues) (hcnt : s'.stack.count = s.stack.count - 1) : UpInv s' := by
  refine ⟨UpCore.congr hh ho hinv.core, ?_⟩
  intro a ha i hi
  rw [ho] at ha; rw [hh] at hi
  have h1 := hinv.bound a ha i hi
  have h2 : i ≠ s.stack.count - 1 := fun h => hfree a ha (h ▸ hi)
  omega

/-- `pop` keeps the invariant when the top slot is not captured (scope exit emits `CloseUpvalue`
    instead of `Pop` for a captured local, which closes and removes the slot: `closeUpvalue_inv`,
    `scope_end_closes_all`) -/
theorem pop_inv {s : VmState} (hinv : UpInv s) (hfree : TopFree s) : UpInv (Vm.pop.go s).2 :=
  shrink_inv hinv hfree rfl rfl (pop_count _)

/-- `clear_until k` keeps the invariant when every open upvalue is below `k` (the new height is
    `min k height`: `clear_until` only truncates) -/
theorem clearUntil_inv {s : VmState} (hinv : UpInv s) (k : Nat)
    (hk : ∀ a ∈ s.openUpvalues, ∀ i, upvalueSlot s.heap a = some i → i < k) :
    UpInv { s with stack := (s.stack.clearUntil k).1 } :=
  ⟨UpCore.congr (s := s) rfl rfl hinv.core, fun a ha i hi => by
    have h1 := hk a ha i hi
    have h2 := hinv.bound a ha i hi
    show i < (s.stack.clearUntil k).1.count
    simp only [VStack.clearUntil]; split <;> omega⟩

theorem go_closeUpvalue (ip : Nat) (s : VmState) :
    (Instr.closeUpvalue ip).go s =
      if s.stack.count = 0 then (.error .invalidArgument, s)
      else (.ok { ip }, { closeState (s.stack.count - 1) s with stack := s.stack.pop.1 }) := by
  unfold Instr.closeUpvalue
  simp only [go_bind, go_get]
  by_cases h : s.stack.count = 0
  · have hb : (s.stack.count == 0) = true := by simp [h]
    rw [if_pos h]
    simp only [hb, if_true, go_bind, go_throwE]
  · have hb : (s.stack.count == 0) = false := by simp [h]
    rw [if_neg h]
    simp only [hb, Bool.false_eq_true, if_false, go_bind, go_pure, go_closeUpvalues, go_pop]
    rfl

/-- **`CloseUpvalue` (scope exit of a captured local; repaired: it also removes the slot) keeps the
    invariant without any side condition**: every open upvalue of the top slot is closed with the
    last value of the variable, then the slot is popped -/
theorem closeUpvalue_inv {s : VmState} (hinv : UpInv s) (ip : Nat) :
    UpInv ((Instr.closeUpvalue ip).go s).2 ∧
    (s.stack.count ≠ 0 → ((Instr.closeUpvalue ip).go s).2.stack.count = s.stack.count - 1) ∧
    (∀ u ∈ s.openUpvalues, upvalueSlot s.heap u = some (s.stack.count - 1) → s.stack.count ≠ 0 →
      ((Instr.closeUpvalue ip).go s).2.heap.get u = some (.upvalue (.closed s.stack.last)) ∧
      u ∉ ((Instr.closeUpvalue ip).go s).2.openUpvalues) := by
  rw [go_closeUpvalue]
  by_cases h : s.stack.count = 0
  · simp only [h, if_true]
    exact ⟨hinv, fun h0 => absurd rfl h0, fun _ _ _ h0 => absurd rfl h0⟩
  · simp only [h, if_false]
    have hcp := close_preserves_value hinv (s.stack.count - 1)
    have hfree : TopFree (closeState (s.stack.count - 1) s) := by
      intro a ha hs
      have := hcp.2.2.2.2.2.2.2.2.2.2 a ha _ hs
      exact absurd this (Nat.lt_irrefl _)
    refine ⟨shrink_inv hcp.2.2.2.2.2.2.2.2.2.1 hfree rfl rfl (pop_count _), fun _ => pop_count _, ?_⟩
    intro u hu hs _
    have h1 := hcp.2.2.2.2.2.1 u hu _ hs (Nat.le_refl _)
    have : s.stack.get (s.stack.count - 1) = s.stack.last := by
      unfold VStack.get VStack.last
      rw [if_neg (by omega), if_pos (by omega)]
    rw [this] at h1
    exact h1

/-- without `CloseUpvalue`, `Pop` of a captured slot breaks `UpBound`: the bound is *not* an
    invariant of arbitrary instruction sequences, only of well-scoped ones -/
def popDemo : VmState :=
  { stack := { count := 1, data := [.int 7, .nil] }, frameCap := 4, mem := Mem.new 1000,
    heap := { objs := [(1, .upvalue (.stack 0))], next := 2 }, openUpvalues := [1] }

theorem pop_breaks_bound : UpBound popDemo ∧ ¬ UpBound (Vm.pop.go popDemo).2 := by
  constructor
  · intro a ha i hi
    have : a = 1 := by simpa [popDemo] using ha
    subst this
    have : upvalueSlot popDemo.heap 1 = some 0 := by decide
    rw [this] at hi; cases hi; decide
  · intro h
    exact absurd (h 1 (by decide) 0 (by decide)) (by decide)

/-- the state in which `Return` pushes the result: frame popped, upvalues of the frame closed,
    stack cut back to the frame's offset -/
def retState (s : VmState) (fr : Frame) : VmState :=
  let s2 := closeState fr.stackOffset { s with frames := s.frames.dropLast }
  { s2 with stack := (s2.stack.clearUntil fr.stackOffset).1 }

theorem go_ret {s : VmState} {fr : Frame} (hf : s.frames.getLast? = some fr) :
    Instr.ret.go s = match s.frames.dropLast.getLast? with
      | none => (.error .badReturn, retState s fr)
      | some caller => (do push s.stack.last; pure ({ ip := caller.dst } : Ctl) : M Ctl).go (retState s fr) := by
  unfold Instr.ret
  simp only [go_bind, go_get, hf, go_set, go_closeUpvalues]
  simp only [VStack.clearUntil]
  have : (closeState fr.stackOffset { s with frames := s.frames.dropLast }).frames = s.frames.dropLast := rfl
  rw [this]
  cases s.frames.dropLast.getLast? with
  | none => rfl
  | some caller => simp only [go_bind]; rfl

/-- **`Return` closes all upvalues at or above the returning frame's offset before the frame's
    slots are discarded**: each of them keeps the last value of its variable, nothing open points at
    or above the frame's offset, the height becomes `min offset height` (the repaired `clear_until`
    only truncates) and the invariant holds again.  For the first three parts `UpBound` of the state
    before is not needed; for the invariant it is needed now unless the frame's offset is at or
    below the height (the old `clear_until` *raised* the height to the offset in the other case, so
    the bound held for free — by exposing stale slots): `return_needs_bound` is the counter-example. -/
theorem return_closes_frame {s : VmState} {fr : Frame} (hc : UpCore s) (hf : s.frames.getLast? = some fr) :
    (∀ u ∈ s.openUpvalues, ∀ i, upvalueSlot s.heap u = some i → fr.stackOffset ≤ i →
      (retState s fr).heap.get u = some (.upvalue (.closed (s.stack.data.getD i .nil))) ∧
      u ∉ (retState s fr).openUpvalues) ∧
    (∀ a ∈ (retState s fr).openUpvalues, ∀ i, upvalueSlot (retState s fr).heap a = some i →
      i < fr.stackOffset) ∧
    (retState s fr).stack.count = min fr.stackOffset s.stack.count ∧
    (UpBound s ∨ fr.stackOffset ≤ s.stack.count →
      UpInv (retState s fr) ∧ UpInv (Instr.ret.go s).2) := by
  have hc1 : UpCore ({ s with frames := s.frames.dropLast } : VmState) := UpCore.congr (s := s) rfl rfl hc
  have hcore : UpCore (retState s fr) :=
    UpCore.congr (s := closeState fr.stackOffset { s with frames := s.frames.dropLast }) rfl rfl
      (closeState_core hc1 _)
  have hbelow : ∀ a ∈ (retState s fr).openUpvalues, ∀ i, upvalueSlot (retState s fr).heap a = some i →
      i < fr.stackOffset := fun a ha i hi => closeState_below hc1 fr.stackOffset ha hi
  have hcount : (retState s fr).stack.count = min fr.stackOffset s.stack.count := by
    show (VStack.clearUntil s.stack fr.stackOffset).1.count = _
    simp only [VStack.clearUntil]; split <;> omega
  refine ⟨?_, hbelow, hcount, ?_⟩
  rotate_left
  · intro hb
    have hinv : UpInv (retState s fr) := by
      refine ⟨hcore, ?_⟩
      intro a ha i hi
      have h1 := hbelow a ha i hi
      show i < (retState s fr).stack.count
      rw [hcount]
      rcases hb with hb | hb
      · have ha' : a ∈ (closeState fr.stackOffset { s with frames := s.frames.dropLast }).openUpvalues := ha
        rw [closeState_open hc1, List.mem_filter] at ha'
        have hi' : upvalueSlot (closeState fr.stackOffset { s with frames := s.frames.dropLast }).heap a
            = some i := hi
        rw [upvalueSlot_congr (closeState_other hc1 fr.stackOffset (Or.inr ha'.2))] at hi'
        have h2 := hb a ha'.1 i hi'
        omega
      · omega
    refine ⟨hinv, ?_⟩
    rw [go_ret hf]
    split
    · exact hinv
    · simp only [go_bind]
      have := push_inv hinv s.stack.last
      rcases hgo : (push s.stack.last).go (retState s fr) with ⟨r, s'⟩
      rw [hgo] at this
      cases r <;> exact this
  · intro u hu i hi hle
    refine ⟨closeState_closed hc1 fr.stackOffset hu hi hle, ?_⟩
    show u ∉ (closeState fr.stackOffset { s with frames := s.frames.dropLast }).openUpvalues
    rw [closeState_open hc1, List.mem_filter]
    rintro ⟨_, hb⟩
    have hi' : upvalueSlot ({ s with frames := s.frames.dropLast } : VmState).heap u = some i := hi
    simp only [below, hi', decide_eq_true_eq] at hb
    omega

/-! ## 1. + 4. `RegisterUpvalue`: sharing, renewal, frame-relative slots -/

/-- what `RegisterUpvalue` expects: the closure object `c` under construction on top of the stack
    and a running frame `fr` -/
structure RegPre (s : VmState) (c : Nat) (hd ar : UInt32) (ups : List Nat) (fr : Frame) : Prop where
  top : s.stack.pop.2 = .obj c
  clo : s.heap.get c = some (.closure hd ar ups)
  frame : s.frames.getLast? = some fr

/-- the machine after the closure value has been popped -/
def popped (s : VmState) : VmState := { s with stack := s.stack.pop.1 }

theorem upvalueFor_popped (s : VmState) (slot : Nat) : upvalueFor (popped s) slot = upvalueFor s slot := rfl

/-- **case "already captured"**: the closure gets the existing open upvalue of the slot
    `fr.stackOffset + index`; nothing else changes -/
theorem register_existing {s : VmState} {c : Nat} {hd ar : UInt32} {ups : List Nat} {fr : Frame}
    (hp : RegPre s c hd ar ups fr) (index ip : Nat) {u : Nat}
    (hslot : fr.stackOffset + index < s.stack.count - 1)
    (hu : upvalueFor s (fr.stackOffset + index) = some u) :
    (Instr.registerUpvalue index true ip).go s =
      (.ok { ip := ip + 2 },
       { popped s with heap := s.heap.set c (.closure hd ar (ups ++ [u])) }) := by
  have hf' : (popped s).frames.getLast? = some fr := hp.frame
  have hc' : (popped s).heap.get c = some (.closure hd ar ups) := hp.clo
  have hcnt : ¬ (fr.stackOffset + index ≥ (popped s).stack.count) := by
    show ¬ (_ ≥ s.stack.pop.1.count); rw [pop_count]; omega
  have hfind : List.find? (fun a => upvalueSlot (popped s).heap a == some (fr.stackOffset + index))
      (popped s).openUpvalues = some u := hu
  unfold Instr.registerUpvalue
  simp only [go_bind, go_pop, hp.top]
  unfold popped at hf' hc' hcnt hfind
  generalize hs1 : ({ s with stack := s.stack.pop.1 } : VmState) = s1 at hf' hc' hcnt hfind
  repeat (simp only [go_bind, go_get, go_pure, go_modify, go_curFrame_some hf', hc', hcnt, hfind,
    if_true, if_false])
  subst hs1
  rfl

/-- **case "not captured (any more)"**: a new upvalue object is allocated (possibly after a
    collection) at the next free address, inserted into the sorted list, and given to the closure -/
theorem register_fresh {s : VmState} {c : Nat} {hd ar : UInt32} {ups : List Nat} {fr : Frame}
    (hp : RegPre s c hd ar ups fr) (index ip : Nat) {s0 : VmState}
    (hslot : fr.stackOffset + index < s.stack.count - 1)
    (hnone : upvalueFor s (fr.stackOffset + index) = none)
    (halloc : allocPure Heap.objCharge (popped s) = (.ok (), s0)) :
    (Instr.registerUpvalue index true ip).go s =
      (.ok { ip := ip + 2 }, captured s0 c hd ar ups (fr.stackOffset + index)) := by
  have hf' : (popped s).frames.getLast? = some fr := hp.frame
  have hc' : (popped s).heap.get c = some (.closure hd ar ups) := hp.clo
  have hcnt : ¬ (fr.stackOffset + index ≥ (popped s).stack.count) := by
    show ¬ (_ ≥ s.stack.pop.1.count); rw [pop_count]; omega
  have hfind : List.find? (fun a => upvalueSlot (popped s).heap a == some (fr.stackOffset + index))
      (popped s).openUpvalues = none := hnone
  unfold Instr.registerUpvalue
  simp only [go_bind, go_pop, hp.top]
  unfold popped at hf' hc' hcnt hfind halloc
  generalize hs1 : ({ s with stack := s.stack.pop.1 } : VmState) = s1 at hf' hc' hcnt hfind halloc
  repeat (simp only [go_bind, go_get, go_pure, go_modify, go_curFrame_some hf', hc', hcnt, hfind,
    if_true, if_false, go_initSimple, alloc1Pure, halloc, go_dropGuard])
  rfl

/-- the allocation of the upvalue object may fail; the machine is then left as the allocator
    left it -/
theorem register_oom {s : VmState} {c : Nat} {hd ar : UInt32} {ups : List Nat} {fr : Frame}
    (hp : RegPre s c hd ar ups fr) (index ip : Nat) {s0 : VmState} {e : ErrKind}
    (hslot : fr.stackOffset + index < s.stack.count - 1)
    (hnone : upvalueFor s (fr.stackOffset + index) = none)
    (halloc : allocPure Heap.objCharge (popped s) = (.error e, s0)) :
    (Instr.registerUpvalue index true ip).go s = (.error e, s0) := by
  have hf' : (popped s).frames.getLast? = some fr := hp.frame
  have hc' : (popped s).heap.get c = some (.closure hd ar ups) := hp.clo
  have hcnt : ¬ (fr.stackOffset + index ≥ (popped s).stack.count) := by
    show ¬ (_ ≥ s.stack.pop.1.count); rw [pop_count]; omega
  have hfind : List.find? (fun a => upvalueSlot (popped s).heap a == some (fr.stackOffset + index))
      (popped s).openUpvalues = none := hnone
  unfold Instr.registerUpvalue
  simp only [go_bind, go_pop, hp.top]
  unfold popped at hf' hc' hcnt hfind halloc
  generalize hs1 : ({ s with stack := s.stack.pop.1 } : VmState) = s1 at hf' hc' hcnt hfind halloc
  repeat (simp only [go_bind, go_get, go_pure, go_modify, go_curFrame_some hf', hc', hcnt, hfind,
    if_true, if_false, go_initSimple, alloc1Pure, halloc, go_dropGuard])

/-- the slot is gone (`index` does not denote a live slot of the running frame): an error -/
theorem register_no_slot {s : VmState} {c : Nat} {hd ar : UInt32} {ups : List Nat} {fr : Frame}
    (hp : RegPre s c hd ar ups fr) (index ip : Nat)
    (hslot : ¬ fr.stackOffset + index < s.stack.count - 1) :
    (Instr.registerUpvalue index true ip).go s = (.error .invalidArgument, popped s) := by
  have hf' : (popped s).frames.getLast? = some fr := hp.frame
  have hc' : (popped s).heap.get c = some (.closure hd ar ups) := hp.clo
  have hcnt : (fr.stackOffset + index ≥ (popped s).stack.count) := by
    show (_ ≥ s.stack.pop.1.count); rw [pop_count]; omega
  unfold Instr.registerUpvalue
  simp only [go_bind, go_pop, hp.top]
  unfold popped at hf' hc' hcnt
  generalize hs1 : ({ s with stack := s.stack.pop.1 } : VmState) = s1 at hf' hc' hcnt
  repeat (simp only [go_bind, go_get, go_pure, go_modify, go_curFrame_some hf', hc', hcnt,
    if_true, if_false, go_throwE])
  subst hs1; rfl

/-- **non-local capture**: the running closure `outer` passes on its own `index`-th upvalue — the
    same object, so that a variable captured through several levels is still one variable -/
theorem register_outer {s : VmState} {c : Nat} {hd ar : UInt32} {ups : List Nat} {fr : Frame}
    (hp : RegPre s c hd ar ups fr) (index ip : Nat) {outer u : Nat} {ohd oar : UInt32} {oups : List Nat}
    (hfc : fr.closure = some outer) (ho : s.heap.get outer = some (.closure ohd oar oups))
    (hidx : oups[index]? = some u) :
    (Instr.registerUpvalue index false ip).go s =
      (.ok { ip := ip + 2 },
       { popped s with heap := s.heap.set c (.closure hd ar (ups ++ [u])) }) := by
  have hf' : (popped s).frames.getLast? = some fr := hp.frame
  have hc' : (popped s).heap.get c = some (.closure hd ar ups) := hp.clo
  have ho' : (popped s).heap.get outer = some (.closure ohd oar oups) := ho
  unfold Instr.registerUpvalue
  simp only [go_bind, go_pop, hp.top]
  unfold popped at hf' hc' ho'
  generalize hs1 : ({ s with stack := s.stack.pop.1 } : VmState) = s1 at hf' hc' ho'
  repeat (simp only [go_bind, go_get, go_pure, go_modify, go_curFrame_some hf', hc', ho', hfc, hidx,
    if_true, if_false, Bool.false_eq_true])
  subst hs1; rfl

/-! ### facts about the state after a fresh capture -/

theorem upvalueSlot_set_closure {h : Heap} {c : Nat} {hd ar : UInt32} {ups ups' : List Nat}
    (hc : h.get c = some (.closure hd ar ups)) (a : Nat) :
    upvalueSlot (h.set c (.closure hd ar ups')) a = upvalueSlot h a := by
  by_cases hac : a = c
  · subst hac
    have h1 : upvalueSlot h a = none := by unfold upvalueSlot; rw [hc]
    have h2 : upvalueSlot (h.set a (.closure hd ar ups')) a = none := by
      unfold upvalueSlot; rw [get_set_self _ _ _ _ hc]
    rw [h1, h2]
  · exact upvalueSlot_congr (get_set_ne _ _ _ _ hac)

theorem upvalueFor_congr {s s' : VmState} (ho : s'.openUpvalues = s.openUpvalues)
    (hs : ∀ a, upvalueSlot s'.heap a = upvalueSlot s.heap a) (slot : Nat) :
    upvalueFor s' slot = upvalueFor s slot := by
  unfold upvalueFor
  rw [ho]
  congr 1
  funext a
  rw [hs a]

theorem mem_partition_insert {α : Type} (p : α → Bool) (l : List α) (x a : α) :
    a ∈ (l.partition p).1 ++ [x] ++ (l.partition p).2 ↔ a ∈ l ∨ a = x := by
  simp only [List.partition_eq_filter_filter, List.mem_append, List.mem_filter, List.mem_singleton,
    Function.comp]
  constructor
  · rintro ((⟨h, _⟩ | h) | ⟨h, _⟩)
    · exact Or.inl h
    · exact Or.inr h
    · exact Or.inl h
  · rintro (h | h)
    · cases hp : p a
      · exact Or.inr ⟨h, by simp⟩
      · exact Or.inl (Or.inl ⟨h, rfl⟩)
    · exact Or.inl (Or.inr h)

section capturedFacts
variable {s s0 : VmState} {c : Nat} {hd ar : UInt32} {ups : List Nat} {slot : Nat}
  (hc : UpCore s) (hrel : AllocRel s s0) (hc0 : UpCore s0)
  (hg : s.heap.get c = some (.closure hd ar ups))
include hc hrel hc0 hg

theorem captured_c_ne : c ≠ s0.heap.next := by
  have := get_lt_next hc.fresh hg
  rw [← hrel.next_eq] at this
  exact Nat.ne_of_lt this

theorem captured_get_new :
    (captured s0 c hd ar ups slot).heap.get s0.heap.next = some (.upvalue (.stack slot)) := by
  show ((Heap.add s0.heap _).set c _).get s0.heap.next = _
  rw [get_set_ne _ _ _ _ (captured_c_ne hc hrel hc0 hg).symm, get_add _ _ _ hc0.fresh, if_pos rfl]

theorem captured_get_old {a : Nat} (ha : a ∈ s.openUpvalues) :
    (captured s0 c hd ar ups slot).heap.get a = s.heap.get a := by
  obtain ⟨i, hi⟩ := hc.open_ a ha
  have h1 := upvalueSlot_eq_some.mp hi
  have hac : a ≠ c := by intro h; subst h; rw [hg] at h1; cases h1
  have h2 : s0.heap.get a = s.heap.get a := hrel.root_keep a (mem_rootAddrs_open ha)
  show ((Heap.add s0.heap _).set c _).get a = _
  rw [get_set_ne _ _ _ _ hac, get_add_of_some hc0.fresh _ (h2.trans h1), h1]

theorem captured_mem {a : Nat} :
    a ∈ (captured s0 c hd ar ups slot).openUpvalues ↔ a ∈ s.openUpvalues ∨ a = s0.heap.next := by
  show a ∈ (splitAt _ slot s0.openUpvalues).1 ++ [s0.heap.next] ++ (splitAt _ slot s0.openUpvalues).2 ↔ _
  unfold splitAt
  rw [mem_partition_insert, hrel.open_eq]

theorem captured_get_c :
    (s0.heap.get c = s.heap.get c →
      (captured s0 c hd ar ups slot).heap.get c = some (.closure hd ar (ups ++ [s0.heap.next]))) ∧
    ((captured s0 c hd ar ups slot).heap.get c = some (.closure hd ar (ups ++ [s0.heap.next])) ∨
     (captured s0 c hd ar ups slot).heap.get c = none) := by
  have hne := captured_c_ne hc hrel hc0 hg
  have key : (captured s0 c hd ar ups slot).heap.get c =
      (s0.heap.get c).map (fun _ => .closure hd ar (ups ++ [s0.heap.next])) := by
    show ((Heap.add s0.heap _).set c _).get c = _
    rw [get_set, if_pos rfl, get_add _ _ _ hc0.fresh, if_neg hne]
  constructor
  · intro h; rw [key, h, hg]; rfl
  · rcases hrel.get_sub c with h | h
    · left; rw [key, h, hg]; rfl
    · right; rw [key, h]; rfl

end capturedFacts

/-- **`register_shares`** — what a successful `RegisterUpvalue index (local)` does, for a closure
    object `c` on top of the stack, in a frame `fr`, in any well-formed state whose top slot is not
    itself captured:

    * (**frame-relative**) the captured slot is `fr.stackOffset + index`, a live slot below the
      popped closure value;
    * the closure's list is extended by `u`, *the* open upvalue of that slot in the new state
      (`c` itself may only have disappeared if it was unreachable once popped — with the copy that
      `CopyLast` leaves on the stack it is still there);
    * (**sharing**) if the slot already had an open upvalue `u₀` — a sibling closure, or the same
      closure expression evaluated before, while the variable is alive — then `u = u₀`: the same
      object, and the list of open upvalues is unchanged;
    * (**renewal**) if it had none — never captured, or the previous one was closed by
      `CloseUpvalue`/`Return` (next loop iteration) — `u` is a brand-new address;
    * (**separation**) the upvalues of all other slots are what they were;
    * the invariant holds again. -/
theorem register_shares {s : VmState} (hinv : UpInv s) (hfree : TopFree s) {c : Nat} {hd ar : UInt32}
    {ups : List Nat} {fr : Frame} (hp : RegPre s c hd ar ups fr) (index ip : Nat) {ctl : Ctl} {s' : VmState}
    (hgo : (Instr.registerUpvalue index true ip).go s = (.ok ctl, s')) :
    ∃ u,
      fr.stackOffset + index < s'.stack.count ∧ s'.stack = s.stack.pop.1 ∧ ctl.ip = ip + 2 ∧
      upvalueFor s' (fr.stackOffset + index) = some u ∧
      s'.heap.get u = some (.upvalue (.stack (fr.stackOffset + index))) ∧
      (s'.heap.get c = some (.closure hd ar (ups ++ [u])) ∨ s'.heap.get c = none) ∧
      (Val.obj c ∈ s.stack.pop.1.contents → s'.heap.get c = some (.closure hd ar (ups ++ [u]))) ∧
      (∀ u₀, upvalueFor s (fr.stackOffset + index) = some u₀ →
        u = u₀ ∧ s'.openUpvalues = s.openUpvalues) ∧
      (upvalueFor s (fr.stackOffset + index) = none →
        u = s.heap.next ∧ s.heap.get u = none ∧ u ∉ s.openUpvalues) ∧
      (∀ slot', slot' ≠ fr.stackOffset + index → upvalueFor s' slot' = upvalueFor s slot') ∧
      (∀ b o, b ≠ c → s.heap.get b = some o → s'.heap.get b = some o ∨ s'.heap.get b = none) ∧
      (∀ b ∈ rootAddrs (popped s), b ≠ c → ∀ o, s.heap.get b = some o → s'.heap.get b = some o) ∧
      UpInv s' := by
  have hcs := hinv.core
  have hslot : fr.stackOffset + index < s.stack.count - 1 := by
    by_cases h : fr.stackOffset + index < s.stack.count - 1
    · exact h
    · rw [register_no_slot hp index ip h] at hgo; cases hgo
  have hbound_old : ∀ a ∈ s.openUpvalues, ∀ i, upvalueSlot s.heap a = some i → i < s.stack.count - 1 := by
    intro a ha i hi
    have h1 := hinv.bound a ha i hi
    have h2 : i ≠ s.stack.count - 1 := fun h => hfree a ha (h ▸ hi)
    omega
  cases hfor : upvalueFor s (fr.stackOffset + index) with
  | some u₀ =>
    rw [register_existing hp index ip hslot hfor] at hgo
    simp only [Prod.mk.injEq, Except.ok.injEq] at hgo
    obtain ⟨rfl, rfl⟩ := hgo
    obtain ⟨hm, hgu⟩ := upvalueFor_some hfor
    have hslots : ∀ a, upvalueSlot (s.heap.set c (.closure hd ar (ups ++ [u₀]))) a = upvalueSlot s.heap a :=
      upvalueSlot_set_closure hp.clo
    have hne : u₀ ≠ c := by intro h; subst h; rw [hp.clo] at hgu; cases hgu
    have hcore' : UpCore ({ popped s with heap := s.heap.set c (.closure hd ar (ups ++ [u₀])) } : VmState) :=
      set_closure_core (s := popped s) (UpCore.congr (s := s) rfl rfl hcs) c hd ar ups u₀ (Or.inr hp.clo) ⟨_, hgu⟩
    have hfor' : ∀ slot', upvalueFor ({ popped s with heap := s.heap.set c (.closure hd ar (ups ++ [u₀])) } : VmState) slot'
        = upvalueFor s slot' := upvalueFor_congr rfl hslots
    refine ⟨u₀, ?_, rfl, rfl, ?_, ?_, Or.inl ?_, fun _ => ?_, ?_, ?_, fun slot' _ => hfor' slot',
      fun b o hb ho => Or.inl ((get_set_ne _ _ _ _ hb).trans ho), fun b _ hb o ho => (get_set_ne _ _ _ _ hb).trans ho, hcore', ?_⟩
    · show _ < s.stack.pop.1.count; rw [pop_count]; exact hslot
    · rw [hfor']; exact hfor
    · show (s.heap.set c _).get u₀ = _; rw [get_set_ne _ _ _ _ hne]; exact hgu
    · exact get_set_self _ _ _ _ hp.clo
    · exact get_set_self _ _ _ _ hp.clo
    · intro u1 h1; cases h1; exact ⟨rfl, rfl⟩
    · intro h; cases h
    · intro a ha i hi
      rw [show upvalueSlot _ a = upvalueSlot s.heap a from hslots a] at hi
      show i < s.stack.pop.1.count
      rw [pop_count]; exact hbound_old a ha i hi
  | none =>
    rcases halloc : allocPure Heap.objCharge (popped s) with ⟨r, s0⟩
    cases r with
    | error e => rw [register_oom hp index ip hslot hfor halloc] at hgo; cases hgo
    | ok x =>
      rw [register_fresh hp index ip hslot hfor halloc] at hgo
      simp only [Prod.mk.injEq, Except.ok.injEq] at hgo
      obtain ⟨rfl, rfl⟩ := hgo
      have hcp : UpCore (popped s) := UpCore.congr (s := s) rfl rfl hcs
      have hrel : AllocRel (popped s) s0 := by have := allocPure_rel Heap.objCharge (popped s); rw [halloc] at this; exact this
      have hc0 : UpCore s0 := by have := allocPure_core Heap.objCharge hcp; rw [halloc] at this; exact this
      have hgp : (popped s).heap.get c = some (.closure hd ar ups) := hp.clo
      have hnone := upvalueFor_none hfor
      have hcore' := captured_core hcp hrel hc0 hgp (slot := fr.stackOffset + index) hnone
      have hnew := captured_get_new (slot := fr.stackOffset + index) hcp hrel hc0 hgp
      have hold : ∀ a ∈ s.openUpvalues, (captured s0 c hd ar ups (fr.stackOffset + index)).heap.get a = s.heap.get a :=
        fun a ha => captured_get_old hcp hrel hc0 hgp ha
      have hmem : ∀ a, a ∈ (captured s0 c hd ar ups (fr.stackOffset + index)).openUpvalues ↔
          a ∈ s.openUpvalues ∨ a = s0.heap.next := fun a => captured_mem hcp hrel hc0 hgp
      have hnext : s0.heap.next = s.heap.next := hrel.next_eq
      have hunew : s.heap.get s0.heap.next = none := by rw [hnext]; exact get_next_none hcs.fresh
      have hnotin : s0.heap.next ∉ s.openUpvalues := by
        intro hm
        obtain ⟨i, hi⟩ := hcs.open_ _ hm
        rw [upvalueSlot_eq_some.mp hi] at hunew; cases hunew
      have hstack : (captured s0 c hd ar ups (fr.stackOffset + index)).stack = s.stack.pop.1 := hrel.stack_eq
      have hother : ∀ b o, b ≠ c → s.heap.get b = some o →
          (captured s0 c hd ar ups (fr.stackOffset + index)).heap.get b = s0.heap.get b := by
        intro b o hb ho
        show ((Heap.add s0.heap _).set c _).get b = _
        rw [get_set_ne _ _ _ _ hb, get_add _ _ _ hc0.fresh,
          if_neg (by rw [hnext]; exact Nat.ne_of_lt (get_lt_next hcs.fresh ho))]
      refine ⟨s0.heap.next, ?_, hstack, rfl, ?_, hnew, (captured_get_c hcp hrel hc0 hgp).2, ?_, ?_, ?_, ?_, ?_, ?_,
        hcore', ?_⟩
      · rw [hstack, pop_count]; exact hslot
      · exact (hcore'.upvalueFor_iff).mpr ⟨(hmem _).mpr (Or.inr rfl), upvalueSlot_eq_some.mpr hnew⟩
      · intro hroot
        exact (captured_get_c hcp hrel hc0 hgp).1 (hrel.root_keep c (mem_rootAddrs_stack hroot))
      · intro u1 h1; cases h1
      · intro _; exact ⟨hnext, hunew, hnotin⟩
      · intro slot' hne
        cases hf' : upvalueFor s slot' with
        | some a =>
          obtain ⟨ham, hag⟩ := upvalueFor_some hf'
          exact (hcore'.upvalueFor_iff).mpr ⟨(hmem a).mpr (Or.inl ham),
            upvalueSlot_eq_some.mpr ((hold a ham).trans hag)⟩
        | none =>
          cases hf'' : upvalueFor (captured s0 c hd ar ups (fr.stackOffset + index)) slot' with
          | none => rfl
          | some a =>
            exfalso
            obtain ⟨ham, hag⟩ := upvalueFor_some hf''
            rcases (hmem a).mp ham with h1 | h1
            · rw [hold a h1] at hag
              exact upvalueFor_none hf' a h1 (upvalueSlot_eq_some.mpr hag)
            · subst h1; rw [hnew] at hag; cases hag; exact hne rfl
      · intro b o hb ho
        rw [hother b o hb ho]
        rcases hrel.get_sub b with h1 | h1
        · exact Or.inl (h1.trans ho)
        · exact Or.inr h1
      · intro b hroot hb o ho
        rw [hother b o hb ho, hrel.root_keep b hroot]; exact ho
      · intro a ha i hi
        rw [hstack, pop_count]
        rcases (hmem a).mp ha with h1 | h1
        · rw [upvalueSlot_congr (hold a h1)] at hi
          exact hbound_old a h1 i hi
        · subst h1
          rw [upvalueSlot_eq_some.mpr hnew] at hi; cases hi
          exact hslot

/-- different slots have different upvalue objects -/
theorem distinct_slots_distinct_objects {s : VmState} {i j u u' : Nat} (hi : upvalueFor s i = some u)
    (hj : upvalueFor s j = some u') (hij : i ≠ j) : u ≠ u' := by
  intro h; subst h
  have h1 := (upvalueFor_some hi).2
  have h2 := (upvalueFor_some hj).2
  rw [h1] at h2
  cases h2
  exact hij rfl

/-- **scope exit renews the variable**: after `closeUpvalues k` (`CloseUpvalue` at the end of a loop
    body, or `Return`) the old upvalue `u₀` of a slot `≥ k` is closed, holds the variable's last
    value, and is no longer listed — so the slot has *no* open upvalue … -/
theorem closed_slot_is_free {s : VmState} (hinv : UpInv s) {k slot u₀ : Nat}
    (h0 : upvalueFor s slot = some u₀) (hk : k ≤ slot) :
    upvalueFor (closeState k s) slot = none ∧
    (closeState k s).heap.get u₀ = some (.upvalue (.closed (s.stack.get slot))) ∧
    u₀ ∉ (closeState k s).openUpvalues ∧ u₀ < (closeState k s).heap.next ∧ UpInv (closeState k s) := by
  have hcp := close_preserves_value hinv k
  obtain ⟨hm, hg⟩ := upvalueFor_some h0
  have h1 := hcp.2.2.2.2.2.1 u₀ hm slot (upvalueSlot_eq_some.mpr hg) hk
  have hinv' := hcp.2.2.2.2.2.2.2.2.2.1
  refine ⟨?_, h1.1, h1.2, get_lt_next hinv'.core.fresh h1.1, hinv'⟩
  cases hf : upvalueFor (closeState k s) slot with
  | none => rfl
  | some a =>
    obtain ⟨ham, hag⟩ := upvalueFor_some hf
    have := hcp.2.2.2.2.2.2.2.2.2.2 a ham slot (upvalueSlot_eq_some.mpr hag)
    omega

/-- … **and the next registration of that slot (the next loop iteration) captures a distinct
    variable**: a new object `u ≠ u₀`; the old one keeps the value it was closed with (unless
    nothing refers to it any more and a collection removed it) -/
theorem each_iteration_captures_fresh {s : VmState} (hinv : UpInv s) {k index u₀ : Nat} {c : Nat}
    {hd ar : UInt32} {ups : List Nat} {fr : Frame}
    (h0 : upvalueFor s (fr.stackOffset + index) = some u₀) (hk : k ≤ fr.stackOffset + index)
    (hp : RegPre (closeState k s) c hd ar ups fr) (hfree : TopFree (closeState k s)) (ip : Nat)
    {ctl : Ctl} {s' : VmState}
    (hgo : (Instr.registerUpvalue index true ip).go (closeState k s) = (.ok ctl, s')) :
    ∃ u, u ≠ u₀ ∧ upvalueFor s' (fr.stackOffset + index) = some u ∧
      s'.heap.get u = some (.upvalue (.stack (fr.stackOffset + index))) ∧
      (s'.heap.get u₀ = some (.upvalue (.closed (s.stack.get (fr.stackOffset + index)))) ∨
       s'.heap.get u₀ = none) ∧
      (u₀ ∈ rootAddrs (popped (closeState k s)) →
        s'.heap.get u₀ = some (.upvalue (.closed (s.stack.get (fr.stackOffset + index))))) := by
  obtain ⟨hnone, hold, hnotin, hlt, hinv'⟩ := closed_slot_is_free hinv h0 hk
  obtain ⟨u, _, _, _, hfor, hgu, _, _, _, hfresh, _, hoth, hroot, _⟩ :=
    register_shares hinv' hfree hp index ip hgo
  have huc : u₀ ≠ c := by intro h; subst h; rw [hp.clo] at hold; cases hold
  refine ⟨u, ?_, hfor, hgu, hoth u₀ _ huc hold, fun hr => hroot u₀ hr huc _ hold⟩
  have := (hfresh hnone).1
  omega

/-! ## 4. `frame_relative` -/

theorem pop_get_lt (st : VStack Val) {i : Nat} (hi : i < st.count - 1) : st.pop.1.get i = st.get i := by
  unfold VStack.pop
  split
  · rfl
  · unfold VStack.get
    simp only
    rw [if_neg (by omega), if_neg (by omega)]
    simp only [List.getD_eq_getElem?_getD]
    rw [List.getElem?_set_ne (by omega)]

/-- **the slot captured by `RegisterUpvalue index (local)` executed in a frame with
    `stackOffset = o` is `o + index`**: the variable of the function that is currently running,
    wherever its frame sits on the value stack — reading the new upvalue yields that variable -/
theorem frame_relative {s : VmState} (hinv : UpInv s) (hfree : TopFree s) {c : Nat} {hd ar : UInt32}
    {ups : List Nat} {fr : Frame} (hp : RegPre s c hd ar ups fr) (index ip : Nat) {ctl : Ctl} {s' : VmState}
    (hgo : (Instr.registerUpvalue index true ip).go s = (.ok ctl, s')) :
    ∃ u, s'.heap.get u = some (.upvalue (.stack (fr.stackOffset + index))) ∧
      (s'.heap.get c = some (.closure hd ar (ups ++ [u])) ∨ s'.heap.get c = none) ∧
      (readUpvalueLoc u).go s' = (.ok (s.stack.get (fr.stackOffset + index)), s') ∧
      (readLocal fr.stackOffset index).go s' = (.ok (s.stack.get (fr.stackOffset + index)), s') := by
  obtain ⟨u, hlt, hst, _, hfor, hgu, hc, _, _, _, _, _, _, hinv'⟩ := register_shares hinv hfree hp index ip hgo
  have horw := open_read_write hinv' (upvalueFor_some hfor).1 (upvalueSlot_eq_some.mpr hgu) .nil
  have hget : s'.stack.get (fr.stackOffset + index) = s.stack.get (fr.stackOffset + index) := by
    rw [hst]; apply pop_get_lt
    rw [hst, pop_count] at hlt; exact hlt
  refine ⟨u, hgu, hc, ?_, ?_⟩
  · rw [horw.2.1, hget]
  · rw [go_readLocal, hget]

/-- the pinned code computed the slot as `index`, ignoring the frame offset -/
def oldSlot (_fr : Frame) (index : Nat) : Nat := index

/-- … which is a different slot as soon as the frame does not start at the bottom of the stack -/
theorem oldSlot_differs (fr : Frame) (index : Nat) (h : fr.stackOffset > 0) :
    oldSlot fr index ≠ fr.stackOffset + index := by
  unfold oldSlot; omega

/-! ## 5a. `scope_end`: a run of `CloseUpvalue`/`Pop` instructions -/

/-- the instruction sequence `scope_end` emits for the locals that go out of scope, innermost
    first: `CloseUpvalue` (`true`) for a captured local, `Pop` (`false`) otherwise -/
def scopeExit : List Bool → M Unit
  | [] => pure ()
  | true :: r => do let _ ← Instr.closeUpvalue 0; scopeExit r
  | false :: r => do let _ ← Instr.pop 0; scopeExit r

/-- what leaving a scope with `n` locals does to the machine -/
structure ScopeExit (n : Nat) (s s' : VmState) : Prop where
  /-- the `n` slots are gone … -/
  count : s'.stack.count = s.stack.count - n
  /-- … everything below is untouched -/
  below_get : ∀ i, i < s.stack.count - n → s'.stack.get i = s.stack.get i
  frames_eq : s'.frames = s.frames
  globals_eq : s'.globals = s.globals
  /-- every upvalue of one of the `n` slots is closed, holding its slot's value -/
  closed : ∀ u ∈ s.openUpvalues, ∀ i, upvalueSlot s.heap u = some i → s.stack.count - n ≤ i →
    s'.heap.get u = some (.upvalue (.closed (s.stack.get i))) ∧ u ∉ s'.openUpvalues
  /-- every other open upvalue stays open and unchanged -/
  kept : ∀ u ∈ s.openUpvalues, ∀ i, upvalueSlot s.heap u = some i → i < s.stack.count - n →
    u ∈ s'.openUpvalues ∧ s'.heap.get u = s.heap.get u
  /-- every other object is unchanged -/
  other : ∀ b, b ∉ s.openUpvalues → s'.heap.get b = s.heap.get b
  open_eq : s'.openUpvalues = s.openUpvalues.filter (below s.heap (s.stack.count - n))
  inv : UpInv s'

theorem ScopeExit.zero {s : VmState} (hinv : UpInv s) : ScopeExit 0 s s where
  count := rfl
  below_get _ _ := rfl
  frames_eq := rfl
  globals_eq := rfl
  closed u hu i hi hle := by have := hinv.bound u hu i hi; omega
  kept u hu i hi _ := ⟨hu, rfl⟩
  other _ _ := rfl
  open_eq := by
    symm; apply List.filter_eq_self.mpr
    intro a ha
    obtain ⟨i, hi⟩ := hinv.core.open_ a ha
    have := hinv.bound a ha i hi
    simp only [below, hi, decide_eq_true_eq]; omega
  inv := hinv

/-- one `CloseUpvalue` -/
theorem ScopeExit.close {s : VmState} (hinv : UpInv s) (h0 : s.stack.count ≠ 0) :
    ScopeExit 1 s { closeState (s.stack.count - 1) s with stack := s.stack.pop.1 } := by
  have hcp := close_preserves_value hinv (s.stack.count - 1)
  have hfree : TopFree (closeState (s.stack.count - 1) s) := by
    intro a ha hs
    exact absurd (hcp.2.2.2.2.2.2.2.2.2.2 a ha _ hs) (Nat.lt_irrefl _)
  exact {
    count := pop_count _
    below_get := fun i hi => pop_get_lt _ hi
    frames_eq := rfl
    globals_eq := rfl
    closed := fun u hu i hi hle => hcp.2.2.2.2.2.1 u hu i hi hle
    kept := fun u hu i hi hlt => hcp.2.2.2.2.2.2.1 u hu i hi hlt
    other := fun b hb => hcp.2.2.2.2.2.2.2.1 b hb
    open_eq := hcp.2.2.2.2.2.2.2.2.1
    inv := shrink_inv hcp.2.2.2.2.2.2.2.2.2.1 hfree rfl rfl (pop_count _) }

/-- one `Pop` of a slot that is not captured -/
theorem ScopeExit.pop {s : VmState} (hinv : UpInv s) (hfree : TopFree s) :
    ScopeExit 1 s { s with stack := s.stack.pop.1 } := by
  have hlt : ∀ a ∈ s.openUpvalues, ∀ i, upvalueSlot s.heap a = some i → i < s.stack.count - 1 := by
    intro a ha i hi
    have h1 := hinv.bound a ha i hi
    have h2 : i ≠ s.stack.count - 1 := fun h => hfree a ha (h ▸ hi)
    omega
  exact {
    count := pop_count _
    below_get := fun i hi => pop_get_lt _ hi
    frames_eq := rfl
    globals_eq := rfl
    closed := fun u hu i hi hle => by have := hlt u hu i hi; omega
    kept := fun u hu i hi _ => ⟨hu, rfl⟩
    other := fun _ _ => rfl
    open_eq := by
      symm; apply List.filter_eq_self.mpr
      intro a ha
      obtain ⟨i, hi⟩ := hinv.core.open_ a ha
      simp only [below, hi, decide_eq_true_eq]; exact hlt a ha i hi
    inv := pop_inv hinv hfree }

/-- composition: one slot, then `n` more -/
theorem ScopeExit.cons {n : Nat} {s s1 s' : VmState} (hinv : UpInv s) (hn : n + 1 ≤ s.stack.count)
    (h1 : ScopeExit 1 s s1) (h2 : ScopeExit n s1 s') : ScopeExit (n + 1) s s' := by
  have hc1 : s1.stack.count = s.stack.count - 1 := h1.count
  have hsub : ∀ a ∈ s1.openUpvalues, a ∈ s.openUpvalues ∧ below s.heap (s.stack.count - 1) a = true := by
    intro a ha; rw [h1.open_eq, List.mem_filter] at ha; exact ha
  have hslot : ∀ a ∈ s.openUpvalues, ∀ i, upvalueSlot s.heap a = some i → i < s.stack.count - 1 →
      a ∈ s1.openUpvalues ∧ upvalueSlot s1.heap a = some i := by
    intro a ha i hi hlt
    obtain ⟨hm, hg⟩ := h1.kept a ha i hi hlt
    exact ⟨hm, by rw [upvalueSlot_congr hg]; exact hi⟩
  refine {
    count := by rw [h2.count, hc1]; omega
    below_get := fun i hi => by
      rw [h2.below_get i (by rw [hc1]; omega), h1.below_get i (by omega)]
    frames_eq := h2.frames_eq.trans h1.frames_eq
    globals_eq := h2.globals_eq.trans h1.globals_eq
    closed := ?_, kept := ?_, other := ?_, open_eq := ?_
    inv := h2.inv }
  · intro u hu i hi hle
    by_cases htop : s.stack.count - 1 ≤ i
    · obtain ⟨hg, hnot⟩ := h1.closed u hu i hi htop
      refine ⟨by rw [h2.other u hnot]; exact hg, ?_⟩
      intro hm
      rw [h2.open_eq] at hm
      exact hnot (List.mem_filter.mp hm).1
    · have hlt : i < s.stack.count - 1 := by omega
      obtain ⟨hm, hs1⟩ := hslot u hu i hi hlt
      have := h2.closed u hm i hs1 (by rw [hc1]; omega)
      rw [h1.below_get i hlt] at this
      exact this
  · intro u hu i hi hlt
    obtain ⟨hm, hs1⟩ := hslot u hu i hi (by omega)
    obtain ⟨hm', hg'⟩ := h2.kept u hm i hs1 (by rw [hc1]; omega)
    exact ⟨hm', hg'.trans (h1.kept u hu i hi (by omega)).2⟩
  · intro b hb
    have hb1 : b ∉ s1.openUpvalues := fun h => hb (hsub b h).1
    rw [h2.other b hb1, h1.other b hb]
  · rw [h2.open_eq, h1.open_eq, List.filter_filter]
    apply List.filter_congr
    intro a ha
    obtain ⟨i, hi⟩ := hinv.core.open_ a ha
    by_cases hlt : i < s.stack.count - 1
    · obtain ⟨_, hs1⟩ := hslot a ha i hi hlt
      simp only [below, hi, hs1, hc1]
      rw [Bool.eq_iff_iff]
      simp only [Bool.and_eq_true, decide_eq_true_eq]
      omega
    · have h3 : ¬ i < s.stack.count - (n + 1) := by omega
      simp only [below, hi, hlt, h3, decide_false, Bool.and_false]

theorem go_instrPop (ip : Nat) (s : VmState) :
    (Instr.pop ip).go s = (.ok { ip }, { s with stack := s.stack.pop.1 }) := by
  unfold Instr.pop
  simp only [go_bind, go_pop, go_pure]

/-- the slots that `scope_end` leaves to a plain `Pop` are not captured (the compiler emits
    `CloseUpvalue` for every captured local): the `j`-th instruction removes slot `count - 1 - j` -/
def PopsUncaptured (caps : List Bool) (s : VmState) : Prop :=
  ∀ j, caps[j]? = some false → ∀ a ∈ s.openUpvalues, upvalueSlot s.heap a ≠ some (s.stack.count - 1 - j)

/-- **`scope_end_closes_all`**: executing the `k` consecutive `CloseUpvalue`/`Pop` instructions that
    `scope_end` emits for `k` locals (captured ones as `CloseUpvalue`), from a well-formed state
    with the `k` locals on top of the stack, succeeds and

    * closes exactly the upvalues of those `k` slots — *all* of them, each holding its slot's value;
    * removes the `k` slots;
    * leaves everything below, all other upvalues (still open), every other object, the frames and
      the globals untouched, and the invariant intact.

    (On the pinned tree `CloseUpvalue` did not remove the slot, so a second `CloseUpvalue` looked at
    the same top slot and the lower captured local stayed open.) -/
theorem scope_end_closes_all : ∀ (caps : List Bool) {s : VmState}, UpInv s →
    caps.length ≤ s.stack.count → PopsUncaptured caps s →
    ∃ s', (scopeExit caps).go s = (.ok ⟨⟩, s') ∧ ScopeExit caps.length s s' := by
  intro caps
  induction caps with
  | nil => intro s hinv _ _; exact ⟨s, rfl, ScopeExit.zero hinv⟩
  | cons c rest ih =>
    intro s hinv hk hpops
    simp only [List.length_cons] at hk
    have h0 : s.stack.count ≠ 0 := by omega
    -- the state after the first instruction
    have hstep : ∃ s1, ScopeExit 1 s s1 ∧
        (scopeExit (c :: rest)).go s = (scopeExit rest).go s1 := by
      cases c with
      | true =>
        refine ⟨_, ScopeExit.close hinv h0, ?_⟩
        show (Instr.closeUpvalue 0 >>= fun _ => scopeExit rest).go s = _
        rw [go_bind, go_closeUpvalue, if_neg h0]
      | false =>
        have hfree : TopFree s := fun a ha => by
          have := hpops 0 rfl a ha
          simpa using this
        refine ⟨_, ScopeExit.pop hinv hfree, ?_⟩
        show (Instr.pop 0 >>= fun _ => scopeExit rest).go s = _
        rw [go_bind, go_instrPop]
    obtain ⟨s1, h1, hgo⟩ := hstep
    have hc1 : s1.stack.count = s.stack.count - 1 := h1.count
    have hpops1 : PopsUncaptured rest s1 := by
      intro j hj a ha hs
      rw [h1.open_eq, List.mem_filter] at ha
      obtain ⟨i, hi⟩ := hinv.core.open_ a ha.1
      have hb := ha.2
      simp only [below, hi, decide_eq_true_eq] at hb
      have hs1 : upvalueSlot s1.heap a = some i := by
        rw [upvalueSlot_congr (h1.kept a ha.1 i hi hb).2]; exact hi
      rw [hs1, hc1] at hs
      refine hpops (j + 1) (by simpa using hj) a ha.1 ?_
      rw [hi]
      simp only [Option.some.injEq] at hs ⊢
      omega
    obtain ⟨s', hgo', h2⟩ := ih h1.inv (by rw [hc1]; omega) hpops1
    exact ⟨s', by rw [hgo, hgo'], ScopeExit.cons hinv (by omega) h1 h2⟩

/-! ## 5b. the invariant and the other capture instructions -/

/-- the relation "`UpInv` is kept" -/
def InvR (s s' : VmState) : Prop := UpInv s → UpInv s'

instance : StateOrder InvR where
  refl _ h := h
  trans h1 h2 h := h2 (h1 h)

theorem invR_same {s s' : VmState} (hh : s'.heap = s.heap) (ho : s'.openUpvalues = s.openUpvalues)
    (hk : s.stack.count ≤ s'.stack.count) : InvR s s' :=
  fun h => ⟨UpCore.congr hh ho h.core, UpBound.congr hh ho hk h.bound⟩

macro_rules | `(tactic| pres_side) => `(tactic| exact invR_same rfl rfl (Nat.le_refl _))

theorem invPres_push (v : Val) : Pres InvR (push v) := Pres.intro (fun s h => push_inv h v)
theorem invPres_curFrame : Pres InvR curFrame := by unfold curFrame; pres_auto
theorem invPres_readUpvalueLoc (a : Nat) : Pres InvR (readUpvalueLoc a) := by
  unfold readUpvalueLoc; pres_auto
theorem invPres_dropGuard (a : Nat) : Pres InvR (dropGuard a) := by unfold dropGuard; pres_auto

theorem invPres_writeUpvalueLoc (u : Nat) (v : Val) : Pres InvR (writeUpvalueLoc u v) := by
  refine Pres.intro (fun s h => ?_)
  unfold writeUpvalueLoc
  simp only [go_bind, go_get]
  split
  · exact ⟨UpCore.congr (s := s) rfl rfl h.core, UpBound.congr (s := s) rfl rfl (Nat.le_refl _) h.bound⟩
  · next w hg =>
    refine ⟨set_closed_core h.core u v w hg, ?_⟩
    intro a ha i hi
    have hau : a ≠ u := by
      intro hau; subst hau
      obtain ⟨j, hj⟩ := h.core.open_ a ha
      rw [upvalueSlot_eq_some.mp hj] at hg; cases hg
    have : upvalueSlot (s.heap.set u (.upvalue (.closed v))) a = upvalueSlot s.heap a :=
      upvalueSlot_congr (get_set_ne _ _ _ _ hau)
    exact h.bound a ha i (this ▸ hi)
  · exact h

theorem allocPure_inv (c : Nat) {s : VmState} (h : UpInv s) : UpInv (allocPure c s).2 := by
  have hrel := allocPure_rel c s
  refine ⟨allocPure_core c h.core, ?_⟩
  exact UpBound.of_keep h.bound hrel.open_eq (fun a ha => hrel.root_keep a (mem_rootAddrs_open ha))
    (by rw [hrel.stack_eq]; exact Nat.le_refl _)

theorem invPres_allocBytes (c : Nat) : Pres InvR (allocBytes c) :=
  Pres.intro (fun s h => by rw [go_allocBytes]; exact allocPure_inv c h)

theorem invPres_newObject (o : Obj) (ho : noUps o = true) : Pres InvR (newObject o) := by
  refine Pres.intro (fun s h => ⟨withObject_core h.core o ho, ?_⟩)
  refine UpBound.of_keep (s' := withObject o s) h.bound rfl (fun a ha => ?_) (Nat.le_refl _)
  obtain ⟨i, hi⟩ := h.core.open_ a ha
  have := upvalueSlot_eq_some.mp hi
  rw [withObject_heap, get_add_of_some h.core.fresh o this, this]

macro_rules | `(tactic| pres_prim) => `(tactic| with_reducible first
  | exact invPres_push _ | exact invPres_curFrame | exact invPres_readUpvalueLoc _
  | exact invPres_dropGuard _ | exact invPres_writeUpvalueLoc _ _ | exact invPres_allocBytes _
  | exact invPres_newObject _ rfl)

/-- `Closure` (allocate the closure object, possibly after a collection, and push it) keeps the
    invariant -/
theorem closure_inv (hd ar : UInt32) (ip : Nat) : Pres InvR (Instr.closure hd ar ip) := by
  unfold Instr.closure initSimple
  pres_auto

/-- `ReadUpvalue` keeps the invariant -/
theorem readUpvalue_inv (idx ip : Nat) : Pres InvR (Instr.readUpvalue idx ip) := by
  unfold Instr.readUpvalue
  pres_auto

/-- `SetUpvalue` keeps the invariant when the value it pops is not in a captured slot -/
theorem setUpvalue_inv {s : VmState} (hinv : UpInv s) (hfree : TopFree s) (idx ip : Nat) :
    UpInv ((Instr.setUpvalue idx ip).go s).2 := by
  unfold Instr.setUpvalue
  rw [go_bind, go_pop]
  refine Pres.rel (R := InvR) ?_ _ (pop_inv hinv hfree)
  pres_auto

/-- every instruction keeps `UpCore` — the part of the invariant that does not mention the height
    of the value stack — whatever the bytecode is -/
theorem step_core (p : Prog) (reenter : Reenter) (hre : ∀ f, Pres CoreR (reenter f)) (src : Nat)
    {s : VmState} (hc : UpCore s) : UpCore ((step p reenter src).go s).2 :=
  (corePres_step p reenter hre src).rel s hc

/-- … and so does every run of the dispatch loop, of `run_function` and of `Vm::run` -/
theorem exec_core' (p : Prog) (gas : Nat) (t : Task) {s : VmState} (hc : UpCore s) :
    UpCore (exec p gas t s).1 := exec_core p gas t s hc

theorem run_core' (p : Prog) (n : Nat) {s : VmState} (hc : UpCore s) : UpCore (run p n s).1 :=
  run_core p n s hc

/-- The full statement about runs: *the compiled program of any module keeps `UpInv` in every
    state the dispatch loop goes through.*  `UpCore` is proved for arbitrary bytecode
    (`exec_core'`); `UpBound` is **not** an invariant of arbitrary bytecode (`pop_breaks_bound`) — it
    needs the scoping discipline of the compiler (`scopeEnd` emits `CloseUpvalue` for every captured
    local before its slot is popped; temporaries are never captured), i.e. a simulation between
    the compiler's `locals` bookkeeping and the value stack, which is not done here.  The
    instruction-level facts that argument needs are all proved above: `push_inv`, `pop_inv`,
    `clearUntil_inv`, `closeUpvalue_inv`, `return_closes_frame`, `closure_inv`, `readUpvalue_inv`,
    `setUpvalue_inv`, `register_shares`. -/
def upInv_of_compiled_runs_Full : Prop :=
  ∀ (m std : Module) (limit : Nat) (prog : Compiler.Program) (n gas : Nat) (s : VmState),
    Compiler.compile m std limit = .ok prog → UpInv s → s.stack.count = 0 →
    UpInv (exec (Prog.ofProgram prog) gas (.loop 0) (started n s)).1

/-! ## 7. non-vacuity: concrete machines -/

/-- a decidable checker for `UpInv` -/
def isUpB (h : Heap) (u : Nat) : Bool :=
  match h.get u with
  | some (.upvalue _) => true
  | _ => false

def sortedB : List (Option Nat) → Bool
  | [] => true
  | none :: _ => false
  | some i :: rest => rest.all (fun o => match o with | some j => decide (j < i) | none => false) && sortedB rest

def upInvB (s : VmState) : Bool :=
  s.heap.objs.all (fun p => decide (p.1 < s.heap.next)) &&
  sortedB (s.openUpvalues.map (upvalueSlot s.heap)) &&
  s.openUpvalues.all (fun a => match upvalueSlot s.heap a with
    | some i => decide (i < s.stack.count) | none => false) &&
  s.heap.objs.all (fun p => match p.2 with
    | .closure _ _ ups => ups.all (isUpB s.heap) | _ => true)

theorem sortedB_sound (h : Heap) : ∀ l : List Nat, sortedB (l.map (upvalueSlot h)) = true →
    l.Pairwise (SlotGt h) := by
  intro l
  induction l with
  | nil => intro _; exact List.Pairwise.nil
  | cons a rest ih =>
    intro hs
    rw [List.map_cons] at hs
    cases ha : upvalueSlot h a with
    | none => rw [ha] at hs; cases hs
    | some i =>
      rw [ha] at hs
      simp only [sortedB, Bool.and_eq_true, List.all_eq_true, List.mem_map, forall_exists_index, and_imp,
        forall_apply_eq_imp_iff₂] at hs
      rw [List.pairwise_cons]
      refine ⟨?_, ih hs.2⟩
      intro b hb i' j hi' hj
      rw [ha] at hi'; cases hi'
      have := hs.1 b hb
      rw [hj] at this
      simpa using this

theorem upInv_of_check {s : VmState} (h : upInvB s = true) : UpInv s := by
  simp only [upInvB, Bool.and_eq_true, List.all_eq_true, decide_eq_true_eq] at h
  obtain ⟨⟨⟨h1, h2⟩, h3⟩, h4⟩ := h
  have hopen : ∀ a ∈ s.openUpvalues, ∃ i, upvalueSlot s.heap a = some i ∧ i < s.stack.count := by
    intro a ha
    have := h3 a ha
    cases hs : upvalueSlot s.heap a with
    | none => rw [hs] at this; cases this
    | some i => rw [hs] at this; exact ⟨i, rfl, by simpa using this⟩
  refine ⟨⟨h1, fun a ha => (hopen a ha).imp (fun _ h => h.1), sortedB_sound _ _ h2, ?_⟩, ?_⟩
  · intro c hd ar ups hg u hu
    unfold Heap.get at hg
    cases hf : s.heap.objs.find? (fun p => p.1 == c) with
    | none => rw [hf] at hg; cases hg
    | some p =>
      rw [hf] at hg
      simp only [Option.map_some, Option.some.injEq] at hg
      have := h4 p (List.mem_of_find?_eq_some hf)
      rw [hg] at this
      simp only [List.all_eq_true] at this
      have hu' := this u hu
      unfold isUpB at hu'
      split at hu'
      · next loc hl => exact ⟨loc, hl⟩
      · cases hu'
  · intro a ha i hi
    obtain ⟨j, hj, hlt⟩ := hopen a ha
    rw [hj] at hi; cases hi; exact hlt

def closureUps (h : Heap) (c : Nat) : Option (List Nat) :=
  match h.get c with
  | some (.closure _ _ ups) => some ups
  | _ => none

def closedVal (h : Heap) (u : Nat) : Option Val :=
  match h.get u with
  | some (.upvalue (.closed v)) => some v
  | _ => none

def okVal {α : Type} : Except ErrKind α × VmState → Option α
  | (.ok a, _) => some a
  | _ => none

/-- `RegisterUpvalue 0 local` ×2, `RegisterUpvalue 1 local`, `CloseUpvalue`, `RegisterUpvalue 0 local` -/
def demoProg : Prog :=
  { bytecode := #[45, 0, 1, 45, 0, 1, 45, 1, 1, 46, 45, 0, 1], data := #[], labels := [], varNames := [], trace := [] }

def noReenter : Reenter := fun _ => pure .nil

/-- two frames: the caller's (`offset 0`, variables 10 and 20) and the running one (`offset 2`,
    variables 30 and 40); two closure objects under construction (addresses 1 and 2) -/
def demo0 : VmState :=
  { stack := { count := 8, data := [.int 10, .int 20, .int 30, .int 40, .obj 1, .obj 1, .obj 2, .obj 1, .nil, .nil] },
    frames := [⟨0, 0, 0, none⟩, ⟨0, 0, 2, none⟩], frameCap := 8, mem := Mem.new 100000,
    heap := { objs := [(1, .closure 7 0 []), (2, .closure 8 0 [])], next := 3 } }

/-- closure 1 captures variable 0 of the running frame -/
def demo1 : VmState := ((step demoProg noReenter 0).go demo0).2
/-- its sibling, closure 2, captures the same variable -/
def demo2 : VmState := ((step demoProg noReenter 3).go demo1).2
/-- closure 1 captures variable 1 of the running frame too -/
def demo3 : VmState := ((step demoProg noReenter 6).go demo2).2

example : UpInv demo0 := upInv_of_check (by decide)
example : RegPre demo0 1 7 0 [] ⟨0, 0, 2, none⟩ := ⟨by decide, rfl, rfl⟩
example : TopFree demo0 := fun a ha => absurd ha List.not_mem_nil

/-- frame-relative: the new upvalue (address 3) is open at slot `2 = offset + 0`, i.e. it is the
    running function's variable (30) — the pinned code would have captured slot `0`, the caller's
    variable (10) -/
example : closureUps demo1.heap 1 = some [3] ∧ upvalueSlot demo1.heap 3 = some 2 ∧
    demo1.openUpvalues = [3] ∧ okVal ((readUpvalueLoc 3).go demo1) = some (.int 30) ∧
    demo0.stack.get (oldSlot ⟨0, 0, 2, none⟩ 0) = .int 10 := by decide

/-- sharing: the sibling gets the *same* object; no second upvalue is created -/
example : closureUps demo2.heap 2 = some [3] ∧ closureUps demo2.heap 1 = some [3] ∧
    demo2.openUpvalues = [3] ∧ demo2.heap.next = 4 := by decide

/-- separation: another variable gets another object; the list stays sorted by slot, highest first -/
example : closureUps demo3.heap 1 = some [3, 4] ∧ upvalueSlot demo3.heap 4 = some 3 ∧
    demo3.openUpvalues = [4, 3] ∧ upInvB demo3 = true := by decide

example : UpInv demo3 := upInv_of_check (by decide)

/-- closure 1 runs (a third frame) and assigns 99 to its upvalue 0 -/
def demo4 : VmState :=
  ((Instr.setUpvalue 0 0).go
    { demo3 with frames := demo3.frames ++ [⟨0, 0, 5, some 1⟩],
                 stack := { demo3.stack with count := 6, data := demo3.stack.data.set 5 (.int 99) } }).2

/-- … the enclosing function (slot 2) and the sibling closure 2 see the new value -/
example : demo4.stack.get 2 = .int 99 ∧
    (okVal ((Instr.readLocalVar 0 0).go { demo4 with frames := demo4.frames.dropLast })).map (·.ip) = some 4 ∧
    ((Instr.readLocalVar 0 0).go { demo4 with frames := demo4.frames.dropLast }).2.stack.last = .int 99 ∧
    ({ demo4 with frames := demo4.frames.dropLast } : VmState).stack.get 2 = .int 99 ∧
    okVal ((readUpvalueLoc 3).go demo4) = some (.int 99) ∧
    (((Instr.readUpvalue 0 0).go { demo4 with frames := demo3.frames ++ [⟨0, 0, 5, some 2⟩] }).2.stack.last = .int 99) := by
  decide

/-- scope exit: `closeUpvalues 2` closes both upvalues with the last values of their variables;
    both closures still hold the same addresses -/
def demo5 : VmState := closeState 2 { demo4 with frames := demo3.frames }

example : closedVal demo5.heap 3 = some (.int 99) ∧ closedVal demo5.heap 4 = some (.int 40) ∧
    demo5.openUpvalues = [] ∧ closureUps demo5.heap 1 = some [3, 4] ∧ closureUps demo5.heap 2 = some [3] ∧
    upInvB demo5 = true := by decide

/-- the closed upvalue is independent of the stack: overwrite slot 2, the closures still read 99;
    a write through closure 2 is read through closure 1 -/
example :
    okVal ((readUpvalueLoc 3).go { demo5 with stack := { demo5.stack with data := demo5.stack.data.set 2 (.int 0) } })
      = some (.int 99) ∧
    okVal ((readUpvalueLoc 3).go ((writeUpvalueLoc 3 (.int 5)).go demo5).2) = some (.int 5) ∧
    ((writeUpvalueLoc 3 (.int 5)).go demo5).2.stack.get 2 = .int 99 := by decide

/-- next iteration: registering slot 2 again creates a new object (address 5), the old one (3)
    keeps its value -/
def demo6 : VmState :=
  ((step demoProg noReenter 10).go { demo5 with stack := { demo5.stack with count := 5 } }).2

example : closureUps demo6.heap 1 = some [3, 4, 5] ∧ upvalueSlot demo6.heap 5 = some 2 ∧
    closedVal demo6.heap 3 = some (.int 99) ∧ demo6.openUpvalues = [5] ∧ upInvB demo6 = true := by decide

/-- **two captured locals in one scope** (`{ a = …; b = …; || a + b }`): `demo3` with the two
    captured variables (slots 2 and 3, upvalues 3 and 4) on top of the stack; `scope_end` emits
    `CloseUpvalue; CloseUpvalue`.  Both upvalues are closed with their variables' values and both
    slots are gone — through the real `step` as well.  (Before the repair the second
    `CloseUpvalue` saw slot 3 again and upvalue 3 stayed open, pointing at a dead slot.) -/
def exitProg : Prog := { bytecode := #[46, 46], data := #[], labels := [], varNames := [], trace := [] }
def demo7 : VmState := { demo3 with stack := { demo3.stack with count := 4 } }
def demo8 : VmState := ((scopeExit [true, true]).go demo7).2

example : upInvB demo7 = true ∧ demo7.openUpvalues = [4, 3] ∧
    closedVal demo8.heap 4 = some (.int 40) ∧ closedVal demo8.heap 3 = some (.int 30) ∧
    demo8.openUpvalues = [] ∧ demo8.stack.count = 2 ∧ demo8.stack.get 1 = .int 20 ∧
    closureUps demo8.heap 1 = some [3, 4] ∧ upInvB demo8 = true := by decide

example :
    let s1 := ((step exitProg noReenter 0).go demo7).2
    let s2 := ((step exitProg noReenter 1).go s1).2
    closedVal s1.heap 4 = some (.int 40) ∧ s1.openUpvalues = [3] ∧ s1.stack.count = 3 ∧
    closedVal s2.heap 3 = some (.int 30) ∧ s2.openUpvalues = [] ∧ s2.stack.count = 2 := by decide

example : UpInv demo7 ∧ PopsUncaptured [true, true] demo7 :=
  ⟨upInv_of_check (by decide), fun j hj => by
    rcases j with _ | _ | j <;> simp at hj⟩

/-- `Return` from the running frame closes its upvalues and cuts the stack back -/
example : (retState demo3 ⟨0, 0, 2, none⟩).stack.count = 2 ∧ (retState demo3 ⟨0, 0, 2, none⟩).openUpvalues = [] ∧
    closedVal (retState demo3 ⟨0, 0, 2, none⟩).heap 3 = some (.int 30) ∧
    closedVal (retState demo3 ⟨0, 0, 2, none⟩).heap 4 = some (.int 40) := by decide

/-- a frame whose offset (3) is above the height (1), with an open upvalue (slot 2) between the two:
    `UpCore` holds, `UpBound` does not -/
def retDemo : VmState :=
  { stack := { count := 1, data := [.int 7, .int 8, .int 9, .nil, .nil] },
    frames := [⟨0, 0, 0, none⟩, ⟨0, 0, 3, none⟩], frameCap := 4, mem := Mem.new 1000,
    heap := { objs := [(1, .upvalue (.stack 2))], next := 2 }, openUpvalues := [1] }

/-- why `return_closes_frame` needs `UpBound s ∨ offset ≤ height` for the invariant: the repaired
    `clear_until` does not raise the height to the frame's offset any more, so an open upvalue
    between the height and the offset stays open and above the top.  (With the old `clear_until`
    the height became 3 here, and the stale slots 1 and 2 became values of the program.) -/
theorem return_needs_bound :
    UpCore retDemo ∧ retDemo.frames.getLast? = some ⟨0, 0, 3, none⟩ ∧
    (retState retDemo ⟨0, 0, 3, none⟩).stack.count = 1 ∧
    ¬ UpBound (retState retDemo ⟨0, 0, 3, none⟩) ∧ ¬ UpBound (Instr.ret.go retDemo).2 := by
  refine ⟨?_, rfl, by decide, ?_, ?_⟩
  · exact UpCore.congr (s := { retDemo with stack := { retDemo.stack with count := 3 } }) rfl rfl
      (upInv_of_check (by decide)).core
  · intro h
    exact absurd (h 1 (by decide) 2 (by decide)) (by decide)
  · intro h
    exact absurd (h 1 (by decide) 2 (by decide)) (by decide)

/-! ## 6. compiler side

`Fr R m`: every successful run of the compiler action `m` relates the state before and after by
the preorder `R`; `fr` proves such goals syntax-directed (same design as `mono`/`hs` of
`CompilerLemmas.lean`).  Instance used here: `LabR` — the label log is only appended to. -/

end Cao.C06

namespace Cao.Compiler
open Cao
set_option linter.unusedSectionVars false

class CRel (R : CState → CState → Prop) : Prop where
  refl : ∀ s, R s s
  trans : ∀ {a b c}, R a b → R b c → R a c

structure Fr {α : Type} (R : CState → CState → Prop) (m : CM α) : Prop where
  run : ∀ s a s', m s = .ok (a, s') → R s s'

section fr
variable {R : CState → CState → Prop} [CRel R] {α β : Type}

theorem fr_bind {m : CM α} {f : α → CM β} (hm : Fr R m) (hf : ∀ a, Fr R (f a)) : Fr R (m >>= f) := by
  constructor
  intro s b s'' h
  obtain ⟨a, s', h1, h2⟩ := bind_ok.1 h
  exact CRel.trans (hm.run s a s' h1) ((hf a).run s' b s'' h2)

theorem fr_pure {a : α} : Fr R (pure a : CM α) := by
  constructor
  intro s b s' hr
  simp only [pure_run, Except.ok.injEq, Prod.mk.injEq] at hr
  obtain ⟨_, rfl⟩ := hr
  exact CRel.refl _

theorem fr_get : Fr R (get : CM CState) := by
  constructor
  intro s b s' hr
  simp only [get_run, Except.ok.injEq, Prod.mk.injEq] at hr
  obtain ⟨_, rfl⟩ := hr
  exact CRel.refl _

theorem fr_modify {f : CState → CState} (h : ∀ s, R s (f s)) : Fr R (modify f : CM Unit) := by
  constructor
  intro s b s' hr
  simp only [modify_run, Except.ok.injEq, Prod.mk.injEq] at hr
  obtain ⟨_, rfl⟩ := hr
  exact h s

theorem fr_throw {e : CErr} : Fr R (throw e : CM α) := ⟨fun s b s' hr => by simp at hr⟩
theorem fr_fail {e : CErrKind} : Fr R (fail e : CM α) := ⟨fun s b s' hr => by simp at hr⟩
theorem fr_throw_bind {e : CErr} {f : α → CM β} : Fr R ((throw e : CM α) >>= f) := by
  constructor; intro s b s' hr
  obtain ⟨a, s1, h1, _⟩ := bind_ok.1 hr
  simp at h1
theorem fr_fail_bind {e : CErrKind} {f : α → CM β} : Fr R ((fail e : CM α) >>= f) := by
  constructor; intro s b s' hr
  obtain ⟨a, s1, h1, _⟩ := bind_ok.1 hr
  simp at h1
theorem fr_ite {c : Prop} [Decidable c] {x y : CM α} (hx : Fr R x) (hy : Fr R y) :
    Fr R (if c then x else y) := by
  split <;> assumption

end fr

syntax "fr_prim" : tactic
macro_rules | `(tactic| fr_prim) => `(tactic| assumption)
syntax "fr_side" : tactic

macro "fr_step" : tactic => `(tactic| first
  | fr_prim
  | dsimp only
  | with_reducible exact fr_throw_bind
  | with_reducible exact fr_fail_bind
  | with_reducible exact fr_pure
  | with_reducible exact fr_get
  | with_reducible exact fr_throw
  | with_reducible exact fr_fail
  | ((with_reducible apply fr_modify); intro _; fr_side)
  | with_reducible apply fr_bind
  | with_reducible apply fr_ite
  | intro _
  | split)
macro "fr" : tactic => `(tactic| repeat' fr_step)

/-- the label log is only appended to -/
def LabR (s s' : CState) : Prop := ∃ post, s'.labels = s.labels ++ post

instance : CRel LabR where
  refl s := ⟨[], by simp⟩
  trans := by
    rintro a b c ⟨p1, h1⟩ ⟨p2, h2⟩
    exact ⟨p1 ++ p2, by rw [h2, h1, List.append_assoc]⟩

theorem LabR.same {s s' : CState} (h : s'.labels = s.labels) : LabR s s' := ⟨[], by simp [h]⟩

theorem LabR.snoc {s s' : CState} {x : UInt32 × Nat} (h : s'.labels = s.labels ++ [x]) : LabR s s' := ⟨[x], h⟩

macro_rules | `(tactic| fr_side) => `(tactic| first | exact LabR.same rfl | exact LabR.snoc rfl)

abbrev Lab {α : Type} (m : CM α) : Prop := Fr LabR m

theorem emitBytes_lab (bs : List UInt8) : Lab (emitBytes bs) := by
  unfold emitBytes; fr
macro_rules | `(tactic| fr_prim) => `(tactic| with_reducible exact emitBytes_lab _)

theorem emitU32_lab (x : Nat) : Lab (emitU32 x) := emitBytes_lab _
macro_rules | `(tactic| fr_prim) => `(tactic| with_reducible exact emitU32_lab _)

theorem curTrace_lab : Lab curTrace := by
  unfold curTrace; fr
macro_rules | `(tactic| fr_prim) => `(tactic| with_reducible exact curTrace_lab)

theorem pushInstr_lab (o : UInt8) : Lab (pushInstr o) := by
  unfold pushInstr; fr
macro_rules | `(tactic| fr_prim) => `(tactic| with_reducible exact pushInstr_lab _)

theorem pushSub_lab (i : Nat) : Lab (pushSub i) := by unfold pushSub; fr
theorem popSub_lab : Lab popSub := by unfold popSub; fr
macro_rules | `(tactic| fr_prim) => `(tactic| with_reducible exact pushSub_lab _)
macro_rules | `(tactic| fr_prim) => `(tactic| with_reducible exact popSub_lab)

theorem insertLabel_lab (h : UInt32) (pos : Nat) : Lab (insertLabel h pos) := by
  unfold insertLabel; fr
macro_rules | `(tactic| fr_prim) => `(tactic| with_reducible exact insertLabel_lab _ _)


theorem patchI32_lab (at_ v : Nat) : Lab (patchI32 at_ v) := by
  unfold patchI32; fr
macro_rules | `(tactic| fr_prim) => `(tactic| with_reducible exact patchI32_lab _ _)

theorem scopeBegin_lab : Lab scopeBegin := by unfold scopeBegin; fr
macro_rules | `(tactic| fr_prim) => `(tactic| with_reducible exact scopeBegin_lab)

theorem scopeEnd_lab : Lab scopeEnd := by unfold scopeEnd; fr
macro_rules | `(tactic| fr_prim) => `(tactic| with_reducible exact scopeEnd_lab)

theorem addLocalUnchecked_lab (n : String) : Lab (addLocalUnchecked n) := by
  unfold addLocalUnchecked; fr
macro_rules | `(tactic| fr_prim) => `(tactic| with_reducible exact addLocalUnchecked_lab _)

theorem validateVarName_lab (n : String) : Lab (validateVarName n) := by
  unfold validateVarName; fr
macro_rules | `(tactic| fr_prim) => `(tactic| with_reducible exact validateVarName_lab _)

theorem addLocal_lab (n : String) : Lab (addLocal n) := by
  unfold addLocal; fr
macro_rules | `(tactic| fr_prim) => `(tactic| with_reducible exact addLocal_lab _)

theorem addUpvalue_lab (i : UInt8) (l : Bool) (f : Nat) : Lab (addUpvalue i l f) := by
  unfold addUpvalue; fr
macro_rules | `(tactic| fr_prim) => `(tactic| with_reducible exact addUpvalue_lab _ _ _)

theorem resolveUpvalue_lab (n : String) : ∀ fid, Lab (resolveUpvalue n fid)
  | 0 => by unfold resolveUpvalue; fr
  | fid+1 => by
    have ih := resolveUpvalue_lab n fid
    unfold resolveUpvalue; fr
macro_rules | `(tactic| fr_prim) => `(tactic| with_reducible exact resolveUpvalue_lab _ _)

theorem resolveVar_lab (n : String) : Lab (resolveVar n) := by
  unfold resolveVar; fr
macro_rules | `(tactic| fr_prim) => `(tactic| with_reducible exact resolveVar_lab _)

theorem readLocalVar_lab (i : Nat) : Lab (readLocalVar i) := by unfold readLocalVar; fr
theorem writeLocalVar_lab (i : Nat) : Lab (writeLocalVar i) := by unfold writeLocalVar; fr
theorem readUpvalue_lab (i : Nat) : Lab (readUpvalue i) := by unfold readUpvalue; fr
theorem writeUpvalue_lab (i : Nat) : Lab (writeUpvalue i) := by unfold writeUpvalue; fr
macro_rules | `(tactic| fr_prim) => `(tactic| with_reducible exact readLocalVar_lab _)
macro_rules | `(tactic| fr_prim) => `(tactic| with_reducible exact writeLocalVar_lab _)
macro_rules | `(tactic| fr_prim) => `(tactic| with_reducible exact readUpvalue_lab _)
macro_rules | `(tactic| fr_prim) => `(tactic| with_reducible exact writeUpvalue_lab _)

theorem pushStr_lab (x : String) : Lab (pushStr x) := by unfold pushStr; fr
macro_rules | `(tactic| fr_prim) => `(tactic| with_reducible exact pushStr_lab _)

theorem globalId_lab (x : String) : Lab (globalId x) := by unfold globalId; fr
macro_rules | `(tactic| fr_prim) => `(tactic| with_reducible exact globalId_lab _)

theorem readProps_lab : ∀ ps, Lab (readProps ps)
  | [] => by unfold readProps; fr
  | p :: ps => by
    have ih := readProps_lab ps
    unfold readProps; fr
macro_rules | `(tactic| fr_prim) => `(tactic| with_reducible exact readProps_lab _)

theorem readVarCard_lab (x : String) : Lab (readVarCard x) := by unfold readVarCard; fr
macro_rules | `(tactic| fr_prim) => `(tactic| with_reducible exact readVarCard_lab _)

theorem resolveFunction_lab (x : String) : Lab (resolveFunction x) := by
  unfold resolveFunction; fr
macro_rules | `(tactic| fr_prim) => `(tactic| with_reducible exact resolveFunction_lab _)

theorem encodeJump_lab (x : String) : Lab (encodeJump x) := by unfold encodeJump; fr
macro_rules | `(tactic| fr_prim) => `(tactic| with_reducible exact encodeJump_lab _)


/-! ### the combinators of `processCard` -/

theorem cardLabel_lab : Lab cardLabel := by unfold cardLabel; fr
macro_rules | `(tactic| fr_prim) => `(tactic| with_reducible exact cardLabel_lab)

theorem withSub_lab {i : Nat} {m : CM Unit} (hm : Lab m) : Lab (withSub i m) := by
  unfold withSub; fr
macro_rules | `(tactic| fr_prim) => `(tactic| with_reducible apply withSub_lab)

theorem encodeIfThen_lab {skip : UInt8} {m : CM Unit} (hm : Lab m) :
    Lab (encodeIfThen skip m) := by
  unfold encodeIfThen; fr
macro_rules | `(tactic| fr_prim) => `(tactic| with_reducible apply encodeIfThen_lab)

theorem encodeIfThenRet_lab {skip : UInt8} {m : CM Nat} (hm : Lab m) :
    Lab (encodeIfThenRet skip m) := by
  unfold encodeIfThenRet; fr
macro_rules | `(tactic| fr_prim) => `(tactic| with_reducible apply encodeIfThenRet_lab)

theorem addLocals_lab : ∀ ps, Lab (addLocals ps)
  | [] => by unfold addLocals; fr
  | p :: ps => by
    have ih := addLocals_lab ps
    unfold addLocals; fr
macro_rules | `(tactic| fr_prim) => `(tactic| with_reducible exact addLocals_lab _)

theorem emitUpvalues_lab : ∀ ups, Lab (emitUpvalues ups)
  | [] => by unfold emitUpvalues; fr
  | (l, i) :: rest => by
    have ih := emitUpvalues_lab rest
    unfold emitUpvalues; fr
macro_rules | `(tactic| fr_prim) => `(tactic| with_reducible exact emitUpvalues_lab _)

theorem scalarIntCode_lab (i : Int64) : Lab (scalarIntCode i) := by
  unfold scalarIntCode; fr
macro_rules | `(tactic| fr_prim) => `(tactic| with_reducible exact scalarIntCode_lab _)

theorem processScalarInt_lab (i : Int64) : Lab (processScalarInt i) := by
  unfold processScalarInt; fr
macro_rules | `(tactic| fr_prim) => `(tactic| with_reducible exact processScalarInt_lab _)

theorem bindLoopVar_lab (n : Option String) (src : Nat) : Lab (bindLoopVar n src) := by
  unfold bindLoopVar; fr
macro_rules | `(tactic| fr_prim) => `(tactic| with_reducible exact bindLoopVar_lab _ _)

theorem forEachCode_lab {i kk v : Option String} {it body : CM Unit}
    (h1 : Lab it) (h2 : Lab body) : Lab (forEachCode i kk v it body) := by
  unfold forEachCode; fr

theorem whileCode_lab {c b : CM Unit} (h1 : Lab c) (h2 : Lab b) :
    Lab (whileCode c b) := by
  unfold whileCode; fr

theorem repeatCode_lab {i : Option String} {n b : CM Unit} (h1 : Lab n) (h2 : Lab b) :
    Lab (repeatCode i n b) := by
  unfold repeatCode; fr

theorem setVarTarget_lab (n : String) : Lab (setVarTarget n) := by
  unfold setVarTarget; fr
macro_rules | `(tactic| fr_prim) => `(tactic| with_reducible exact setVarTarget_lab _)

theorem setVarCode_lab {n : String} {v : CM Unit} (h : Lab v) : Lab (setVarCode n v) := by
  unfold setVarCode; fr

theorem setGlobalVarCode_lab {n : String} {v : CM Unit} (h : Lab v) :
    Lab (setGlobalVarCode n v) := by
  unfold setGlobalVarCode; fr

theorem ifElseCode_lab {c t e : CM Unit} (h1 : Lab c) (h2 : Lab t) (h3 : Lab e) :
    Lab (ifElseCode c t e) := by
  unfold ifElseCode; fr

theorem ifCode_lab {skip : UInt8} {c b : CM Unit} (h1 : Lab c) (h2 : Lab b) :
    Lab (ifCode skip c b) := by
  unfold ifCode; fr

theorem callCode_lab {n : String} {a : CM Unit} (h : Lab a) : Lab (callCode n a) := by
  unfold callCode; fr

theorem callNativeCode_lab {n : String} {a : CM Unit} (h : Lab a) :
    Lab (callNativeCode n a) := by
  unfold callNativeCode; fr

theorem compileBegin_lab : Lab compileBegin := by unfold compileBegin; fr
theorem compileEnd_lab : Lab compileEnd := by unfold compileEnd; fr
macro_rules | `(tactic| fr_prim) => `(tactic| with_reducible exact compileBegin_lab)
macro_rules | `(tactic| fr_prim) => `(tactic| with_reducible exact compileEnd_lab)

theorem closureCode_lab {args : List String} {b : CM Unit} (h : Lab b) :
    Lab (closureCode args b) := by
  unfold closureCode; fr

theorem arrayCode_lab {items : Nat → CM Unit} (h : ∀ tv, Lab (items tv)) :
    Lab (arrayCode items) := by
  unfold arrayCode; fr
  exact h _

theorem unCode_lab {u : UnKind} {c : CM Unit} (h : Lab c) : Lab (unCode u c) := by
  unfold unCode; fr

theorem binCode_lab {bk : BinKind} {a b : CM Unit} (h1 : Lab a) (h2 : Lab b) :
    Lab (binCode bk a b) := by
  unfold binCode
  split
  · exact whileCode_lab h1 h2
  · exact ifCode_lab h1 h2
  · exact ifCode_lab h1 h2
  · fr

theorem triCode_lab {tk : TriKind} {a b c : CM Unit} (h1 : Lab a) (h2 : Lab b)
    (h3 : Lab c) : Lab (triCode tk a b c) := by
  unfold triCode
  split
  · exact ifElseCode_lab h1 h2 h3
  · fr

theorem dynamicCallCode_lab {a f : CM Unit} (h1 : Lab a) (h2 : Lab f) :
    Lab (dynamicCallCode a f) := by
  unfold dynamicCallCode; fr


macro_rules | `(tactic| fr_prim) => `(tactic| with_reducible apply forEachCode_lab)
macro_rules | `(tactic| fr_prim) => `(tactic| with_reducible apply repeatCode_lab)
macro_rules | `(tactic| fr_prim) => `(tactic| with_reducible apply setVarCode_lab)
macro_rules | `(tactic| fr_prim) => `(tactic| with_reducible apply setGlobalVarCode_lab)
macro_rules | `(tactic| fr_prim) => `(tactic| with_reducible apply callCode_lab)
macro_rules | `(tactic| fr_prim) => `(tactic| with_reducible apply callNativeCode_lab)
macro_rules | `(tactic| fr_prim) => `(tactic| with_reducible apply closureCode_lab)
macro_rules | `(tactic| fr_prim) => `(tactic| with_reducible apply arrayCode_lab)
macro_rules | `(tactic| fr_prim) => `(tactic| with_reducible apply unCode_lab)
macro_rules | `(tactic| fr_prim) => `(tactic| with_reducible apply binCode_lab)
macro_rules | `(tactic| fr_prim) => `(tactic| with_reducible apply triCode_lab)
macro_rules | `(tactic| fr_prim) => `(tactic| with_reducible apply dynamicCallCode_lab)

/-- all three recursive functions only append to the label log -/
theorem processCard_lab_all :
    (∀ c, Lab (processCard c)) ∧
    (∀ tv i cs, Lab (processArrayItems tv i cs)) ∧
    (∀ i cs, Lab (compileSubexprFrom i cs)) := by
  apply processCard.mutual_induct
    (motive_1 := fun c => Lab (processCard c))
    (motive_2 := fun tv i cs => Lab (processArrayItems tv i cs))
    (motive_3 := fun i cs => Lab (compileSubexprFrom i cs))
  all_goals
    intros
    simp only [processCard, processArrayItems, compileSubexprFrom]
    fr


theorem processCard_lab (c : Card) : Lab (processCard c) := processCard_lab_all.1 c
theorem compileSubexprFrom_lab (i : Nat) (cs : List Card) : Lab (compileSubexprFrom i cs) :=
  processCard_lab_all.2.2 i cs

end Cao.Compiler

namespace Cao.C06
open Cao Cao.Vm Cao.Compiler

/-! ### operands: `le32` / `rdU32` round trip -/

theorem byte_toNat (x : UInt32) (j : Nat) (hj : j < 4) :
    ((x >>> (8 * j).toUInt32).toUInt8).toNat = x.toNat / 2 ^ (8 * j) % 256 := by
  have h8 : (8 * j).toUInt32.toNat = 8 * j := by
    simp [Nat.toUInt32]
    omega
  simp only [UInt32.toNat_toUInt8, UInt32.toNat_shiftRight, h8, Nat.shiftRight_eq_div_pow]
  have : 8 * j % 32 = 8 * j := by omega
  rw [this]

theorem hsum : ∀ n : Nat, n < 4294967296 →
      0 + n / 2 ^ (8 * 0) % 256 * 256 ^ 0 + n / 2 ^ (8 * 1) % 256 * 256 ^ 1 + n / 2 ^ (8 * 2) % 256 * 256 ^ 2 +
        n / 2 ^ (8 * 3) % 256 * 256 ^ 3 = n := by
    intro n hn
    simp only [Nat.reduceMul, Nat.reducePow]
    omega

theorem le32_get (x : UInt32) (j : Nat) (hj : j < 4) :
    (le32 x)[j]? = some ((x >>> (8 * j).toUInt32).toUInt8) := by
  have hr : List.range 4 = [0, 1, 2, 3] := by decide
  unfold le32 Hash.le32
  rw [hr]
  rcases j with _ | _ | _ | _ | j
  · rfl
  · rfl
  · rfl
  · rfl
  · omega

theorem hb (bc : Array UInt8) (p : Nat) (x : UInt32)
    (h : ∀ j, j < 4 → bc[p + j]? = (le32 x)[j]?) : ∀ j, j < 4 → (bc.getD (p + j) 0).toNat = x.toNat / 2 ^ (8 * j) % 256 := by
  intro j hj
  have h1 : bc.getD (p + j) 0 = (bc[p + j]?).getD 0 := by
    simp [Array.getD_eq_getD_getElem?]
  rw [h1, h j hj, ← byte_toNat x j hj, le32_get x j hj]
  rfl

theorem foldl4 (f g : Nat → Nat) :
    ([0,1,2,3] : List Nat).foldl (fun acc i => acc + f i * g i) 0 = 0 + f 0 * g 0 + f 1 * g 1 +
      f 2 * g 2 + f 3 * g 3 := by
  simp only [List.foldl_cons, List.foldl_nil]

theorem rdU32_le32 (bc : Array UInt8) (p : Nat) (x : UInt32)
    (h : ∀ j, j < 4 → bc[p + j]? = (le32 x)[j]?) : rdU32 bc p = x.toNat := by
  have hr : List.range 4 = [0, 1, 2, 3] := by decide
  have hb := hb bc p x h
  unfold rdU32
  rw [hr, foldl4 (fun i => (bc.getD (p + i) 0).toNat) (fun i => 256 ^ i)]
  rw [hb 0 (by omega), hb 1 (by omega), hb 2 (by omega), hb 3 (by omega)]
  exact hsum _ x.toNat_lt

/-! ### the closure expression: its label and its `Closure` instruction -/

theorem pushInstr_run (o : UInt8) (s : CState) :
    pushInstr o s = .ok ((), { s with
      trace := s.trace ++ [(s.bytecode.size, { ns := s.ns, function := s.curFunction, indices := s.curIndices })],
      bytecode := s.bytecode.push o }) := rfl

theorem emitBytes_run (bs : List UInt8) (s : CState) :
    emitBytes bs s = .ok ((), { s with bytecode := bs.foldl (fun a b => a.push b) s.bytecode }) := rfl

theorem le32_length (x : UInt32) : (le32 x).length = 4 := by
  unfold le32 Hash.le32; simp

/-- the key under which the body of a closure expression is labelled: the handle of the enclosing
    *function* (unique in the whole program), the card path of the expression, and a mask -/
def closureHandle (fnHandle : UInt32) (path : List Nat) : UInt32 :=
  fnHandle ^^^ Hash.handleFromBytes (path.flatMap (fun i => le32 (UInt32.ofNat i))) ^^^
    Hash.handleFromU64 closureMask

theorem closureCode_spec {args : List String} {body : CM Unit} {s s' : CState} (hlab : Lab body)
    (hmono : ∀ k, Mono k body) (h : closureCode args body s = .ok ((), s')) :
    closureHandle s.fnHandle s.curIndices ≠ 0 ∧
    (∃ post, s'.labels = s.labels ++ (closureHandle s.fnHandle s.curIndices, s.bytecode.size + 5) :: post) ∧
    ∃ q, s.bytecode.size + 5 ≤ q ∧
      s'.bytecode[q]? = some op.closure ∧
      (∀ j, j < 4 → s'.bytecode[q + 1 + j]? = (le32 (closureHandle s.fnHandle s.curIndices))[j]?) ∧
      (∀ j, j < 4 → s'.bytecode[q + 5 + j]? = (le32 (UInt32.ofNat args.length))[j]?) := by
  unfold closureCode at h
  obtain ⟨_, s1, h1, h⟩ := bind_ok.1 h
  rw [pushInstr_run] at h1
  simp only [Except.ok.injEq, Prod.mk.injEq, true_and] at h1
  obtain ⟨st, s1', h1', h⟩ := bind_ok.1 h
  simp only [get_run, Except.ok.injEq, Prod.mk.injEq] at h1'
  obtain ⟨rfl, rfl⟩ := h1'
  obtain ⟨_, s2, h2, h⟩ := bind_ok.1 h
  have h2' : emitBytes (le32 (UInt32.ofNat 0xEEF)) s1 = .ok ((), s2) := h2
  rw [emitBytes_run] at h2'
  simp only [Except.ok.injEq, Prod.mk.injEq, true_and] at h2'
  obtain ⟨_, s3, h3, h⟩ := bind_ok.1 h
  have h3' : (modify _ : CM Unit) s2 = .ok ((), s3) := h3
  rw [modify_run] at h3'
  simp only [Except.ok.injEq, Prod.mk.injEq, true_and] at h3'
  obtain ⟨st3, s3', h3g, h⟩ := bind_ok.1 h
  simp only [get_run, Except.ok.injEq, Prod.mk.injEq] at h3g
  obtain ⟨rfl, rfl⟩ := h3g
  have hfn : s3.fnHandle = s.fnHandle := by subst h3' h2' h1; rfl
  have hci : s3.curIndices = s.curIndices := by subst h3' h2' h1; rfl
  have hsz : s3.bytecode.size = s.bytecode.size + 5 := by
    subst h3' h2' h1
    simp only [foldl_push_eq, Array.size_append, Array.size_push, List.size_toArray, le32_length]
  have hlb : s3.labels = s.labels := by subst h3' h2' h1; rfl
  dsimp only at h
  rw [hfn, hci] at h
  generalize hfh : closureHandle s.fnHandle s.curIndices = fh
  have hfh' : s.fnHandle ^^^ Hash.handleFromBytes (s.curIndices.flatMap (fun i => le32 (UInt32.ofNat i))) ^^^
      Hash.handleFromU64 closureMask = fh := hfh
  rw [hfh'] at h
  obtain ⟨_, s4, h4, h⟩ := bind_ok.1 h
  unfold insertLabel at h4
  by_cases hz : (fh == 0) = true
  · simp [hz] at h4
    obtain ⟨_, _, h5, _⟩ := bind_ok.1 h4
    simp at h5
  simp only [hz, Bool.false_eq_true, if_false, modify_run, Except.ok.injEq, Prod.mk.injEq, true_and] at h4
  have hne : fh ≠ 0 := by intro h0; subst h0; exact hz rfl
  -- the label log: everything after `insertLabel` only appends
  have hrest : ∀ (gi : Nat) (fh' : UInt32), Lab (do
      scopeBegin
      addLocals args.reverse
      body
      scopeEnd
      pushInstr op.scalarNil
      pushInstr op.ret
      patchI32 gi (← get).bytecode.size
      pushInstr op.closure
      emitBytes (le32 fh')
      emitU32 args.length
      let s ← get
      let ups := s.upvalues.getD s.functionId []
      emitUpvalues ups
      compileEnd : CM Unit) := by
    intro gi fh'; fr
  have hlabels : ∃ post, s'.labels = s4.labels ++ post := (hrest _ _).run s4 _ s' h
  refine ⟨hne, ?_, ?_⟩
  · obtain ⟨post, hp⟩ := hlabels
    refine ⟨post, ?_⟩
    rw [hp, ← h4]
    simp only [hlb, hsz, List.append_assoc, List.singleton_append]
  -- the emitted `Closure` instruction
  obtain ⟨_, s5, h5, h⟩ := bind_ok.1 h
  obtain ⟨_, s6, h6, h⟩ := bind_ok.1 h
  obtain ⟨_, s7, h7, h⟩ := bind_ok.1 h
  obtain ⟨_, s8, h8, h⟩ := bind_ok.1 h
  obtain ⟨_, s9, h9, h⟩ := bind_ok.1 h
  obtain ⟨_, s10, h10, h⟩ := bind_ok.1 h
  obtain ⟨st10, s10', h10g, h⟩ := bind_ok.1 h
  simp only [get_run, Except.ok.injEq, Prod.mk.injEq] at h10g
  obtain ⟨rfl, rfl⟩ := h10g
  obtain ⟨_, s11, h11, h⟩ := bind_ok.1 h
  obtain ⟨_, s12, h12, h⟩ := bind_ok.1 h
  obtain ⟨_, s13, h13, h⟩ := bind_ok.1 h
  obtain ⟨_, s14, h14, h⟩ := bind_ok.1 h
  obtain ⟨st14, s14', h14g, h⟩ := bind_ok.1 h
  simp only [get_run, Except.ok.injEq, Prod.mk.injEq] at h14g
  obtain ⟨rfl, rfl⟩ := h14g
  obtain ⟨_, s15, h15, h⟩ := bind_ok.1 h
  have h16 : (modify _ : CM Unit) s15 = .ok ((), s') := h
  rw [modify_run] at h16
  simp only [Except.ok.injEq, Prod.mk.injEq, true_and] at h16
  have e5 := ((scopeBegin_mono (k := 0)).run s4 _ s5 h5 (Nat.zero_le _)).1.size_le
  have e6 := ((addLocals_mono (k := 0) _).run s5 _ s6 h6 (Nat.zero_le _)).1.size_le
  have e7 := ((hmono 0).run s6 _ s7 h7 (Nat.zero_le _)).1.size_le
  have e8 := ((scopeEnd_mono (k := 0)).run s7 _ s8 h8 (Nat.zero_le _)).1.size_le
  have e9 := ((pushInstr_mono (k := 0) _).run s8 _ s9 h9 (Nat.zero_le _)).1.size_le
  have e10 := ((pushInstr_mono (k := 0) _).run s9 _ s10 h10 (Nat.zero_le _)).1.size_le
  have e11 : s11.bytecode.size = s10.bytecode.size := by
    unfold patchI32 at h11
    rw [modify_run] at h11
    simp only [Except.ok.injEq, Prod.mk.injEq, true_and] at h11
    rw [← h11]
    exact (patch_bytes _ _ _).1
  have hs4 : s4.bytecode.size = s.bytecode.size + 5 := by rw [← h4]; exact hsz
  rw [pushInstr_run] at h12
  simp only [Except.ok.injEq, Prod.mk.injEq, true_and] at h12
  rw [emitBytes_run] at h13
  simp only [Except.ok.injEq, Prod.mk.injEq, true_and] at h13
  have h14' : emitBytes (le32 (UInt32.ofNat args.length)) s13 = .ok ((), s14) := h14
  rw [emitBytes_run] at h14'
  simp only [Except.ok.injEq, Prod.mk.injEq, true_and] at h14'
  have hb14 : s14.bytecode = (s11.bytecode.push op.closure ++ (le32 fh).toArray) ++
      (le32 (UInt32.ofNat args.length)).toArray := by
    rw [← h14', ← h13, ← h12]
    simp only [foldl_push_eq]
  have hsz14 : s14.bytecode.size = s11.bytecode.size + 9 := by
    rw [hb14]; simp only [Array.size_append, Array.size_push, List.size_toArray, le32_length]
  have hpre := ((emitUpvalues_mono (k := s14.bytecode.size) _).run s14 _ s15 h15 (Nat.le_refl _)).1.pref
  have hb' : s'.bytecode = s15.bytecode := by rw [← h16]
  refine ⟨s11.bytecode.size, by omega, ?_, ?_, ?_⟩
  · rw [hb', hpre _ (by omega), hb14]
    rw [Array.getElem?_append_left (by simp only [Array.size_append, Array.size_push, List.size_toArray, le32_length]; omega),
      Array.getElem?_append_left (by simp only [Array.size_push]; omega)]
    simp
  · intro j hj
    rw [hb', hpre _ (by omega), hb14]
    rw [Array.getElem?_append_left (by simp only [Array.size_append, Array.size_push, List.size_toArray, le32_length]; omega),
      Array.getElem?_append_right (by simp only [Array.size_push]; omega)]
    simp only [Array.size_push]
    rw [show s11.bytecode.size + 1 + j - (s11.bytecode.size + 1) = j by omega]
    simp
  · intro j hj
    rw [hb', hpre _ (by omega), hb14]
    rw [Array.getElem?_append_right (by simp only [Array.size_append, Array.size_push, List.size_toArray, le32_length]; omega)]
    simp only [Array.size_append, Array.size_push, List.size_toArray, le32_length]
    rw [show s11.bytecode.size + 5 + j - (s11.bytecode.size + 1 + 4) = j by omega]
    simp


/-- later insertions win in the resolved label table … -/
theorem resolveLog_snoc {α β : Type} [BEq α] (log : List (α × β)) (p : α × β) :
    resolveLog (log ++ [p]) = (resolveLog log).filter (fun q => !(q.1 == p.1)) ++ [p] := by
  unfold resolveLog
  rw [List.foldl_append]
  rfl

theorem resolveStep_find {β : Type} (k : UInt32) (v : β) :
    ∀ (post acc : List (UInt32 × β)), (∀ q ∈ post, q.1 ≠ k) →
      acc.find? (fun q => q.1 == k) = some (k, v) →
      (post.foldl (fun acc p => acc.filter (fun q => !(q.1 == p.1)) ++ [p]) acc).find? (fun q => q.1 == k)
        = some (k, v) := by
  intro post
  induction post with
  | nil => intro acc _ h; exact h
  | cons p post ih =>
    intro acc hpost hacc
    rw [List.foldl_cons]
    apply ih _ (fun q hq => hpost q (List.mem_cons_of_mem _ hq))
    have hp : p.1 ≠ k := hpost p List.mem_cons_self
    rw [List.find?_append, Cao.Gc.find?_filter_of_imp, hacc]
    · rfl
    · intro x _ hx
      have : x.1 = k := by simpa using hx
      simp only [this, Bool.not_eq_true', beq_eq_false_iff_ne, ne_eq]
      exact fun h => hp h.symm

/-- … so an insertion whose key is not inserted again later is what a lookup finds -/
theorem resolveLog_find {β : Type} (pre : List (UInt32 × β)) (k : UInt32) (v : β)
    (post : List (UInt32 × β)) (hpost : ∀ q ∈ post, q.1 ≠ k) :
    (resolveLog (pre ++ (k, v) :: post)).find? (fun q => q.1 == k) = some (k, v) := by
  unfold resolveLog
  rw [List.foldl_append, List.foldl_cons]
  apply resolveStep_find k v post _ hpost
  rw [List.find?_append]
  have : ((pre.foldl (fun acc p => acc.filter (fun q => !(q.1 == p.1)) ++ [p]) []).filter
      (fun q => !(q.1 == k))).find? (fun q => q.1 == k) = none := by
    rw [List.find?_eq_none]
    intro x hx
    have := (List.mem_filter.mp hx).2
    simpa using this
  rw [this]
  simp

/-- the keys of two closure expressions of the *same* function coincide only if the 32-bit hashes
    of their card paths collide -/
theorem closureHandle_same_fn (h : UInt32) (p₁ p₂ : List Nat) :
    closureHandle h p₁ = closureHandle h p₂ ↔
      Hash.handleFromBytes (p₁.flatMap (fun i => le32 (UInt32.ofNat i))) =
      Hash.handleFromBytes (p₂.flatMap (fun i => le32 (UInt32.ofNat i))) := by
  unfold closureHandle
  rw [UInt32.xor_left_inj, UInt32.xor_right_inj]

/-- the keys of two closure expressions at the same card path in *different functions* (the case
    that went wrong on the pinned tree: functions of different modules with the same module-local
    index) coincide only if the two functions have the same handle -/
theorem closureHandle_same_path (h₁ h₂ : UInt32) (p : List Nat) :
    closureHandle h₁ p = closureHandle h₂ p ↔ h₁ = h₂ := by
  unfold closureHandle
  rw [UInt32.xor_left_inj, UInt32.xor_left_inj]

/-- the explicit no-collision hypothesis: the key of the closure expression is not inserted into
    the label log again later (by another closure expression, a card label or a function) -/
def HandlesDistinct (fh : UInt32) (later : List (UInt32 × Nat)) : Prop := ∀ q ∈ later, q.1 ≠ fh

/-- **`closure_label_unique_partial`**.  Compile a closure expression (`closureCode`) from the
    compiler state `s` (inside the function with handle `s.fnHandle`, at card path
    `s.curIndices`), with a body that only appends to the label log and to the bytecode
    (`processCard_lab`, `processCard_mono`: every real body).  Then

    * the body's entry point `s.bytecode.size + 5` is inserted into the label log under the key
      `fh = closureHandle s.fnHandle s.curIndices`, which depends on the enclosing function's
      program-wide unique handle and on the card path only;
    * the emitted `Closure` instruction (at some `q` after the body) carries that same key and the
      arity: the interpreter decodes `UInt32.ofNat (rdU32 bytecode (q+1)) = fh`;
    * if the final label log of the compilation is `s'.labels ++ later` and `fh` is not inserted
      again (`HandlesDistinct`, i.e. no 32-bit collision with a later key), the program's label
      table maps `fh` to the body of *this* closure expression.

    Hence, up to `HandlesDistinct`, calling a closure value (which looks up its handle in the label
    table, `callScript_enters`) executes the body of the closure expression that created it. -/
theorem closure_label_unique_partial {args : List String} {body : CM Unit} {s s' : CState}
    (hlab : Lab body) (hmono : ∀ k, Mono k body) (h : closureCode args body s = .ok ((), s')) :
    ∃ post q,
      s'.labels = s.labels ++ (closureHandle s.fnHandle s.curIndices, s.bytecode.size + 5) :: post ∧
      s.bytecode.size + 5 ≤ q ∧
      s'.bytecode[q]? = some op.closure ∧
      UInt32.ofNat (rdU32 s'.bytecode (q + 1)) = closureHandle s.fnHandle s.curIndices ∧
      UInt32.ofNat (rdU32 s'.bytecode (q + 1 + 4)) = UInt32.ofNat args.length ∧
      ∀ later, HandlesDistinct (closureHandle s.fnHandle s.curIndices) (post ++ later) →
        (resolveLog (s'.labels ++ later)).find? (fun l => l.1 == closureHandle s.fnHandle s.curIndices) =
          some (closureHandle s.fnHandle s.curIndices, s.bytecode.size + 5) := by
  obtain ⟨_, ⟨post, hpost⟩, q, hq, hop, hfh, har⟩ := closureCode_spec hlab hmono h
  refine ⟨post, q, hpost, hq, hop, ?_, ?_, ?_⟩
  · rw [rdU32_le32 _ _ _ hfh, UInt32.ofNat_toNat]
  · rw [rdU32_le32 _ (q + 1 + 4) _ (fun j hj => by rw [show q + 1 + 4 + j = q + 5 + j by omega]; exact har j hj),
      UInt32.ofNat_toNat]
  · intro later hd
    rw [hpost, List.append_assoc, List.cons_append]
    exact resolveLog_find _ _ _ _ hd

/-- the bodies the compiler really passes to `closureCode` satisfy the two hypotheses -/
theorem closure_body_ok (cards : List Card) :
    Lab (compileSubexprFrom 0 cards) ∧ ∀ k, Mono k (compileSubexprFrom 0 cards) :=
  ⟨compileSubexprFrom_lab 0 cards, fun _ => compileSubexprFrom_mono 0 cards⟩

/-- `Closure` creates a closure object that carries the handle and arity operands -/
theorem closure_object (hd ar : UInt32) (ip : Nat) {s s' : VmState} {ctl : Ctl} (hc : Upv.UpCore s)
    (hgo : (Upv.Instr.closure hd ar ip).go s = (.ok ctl, s')) :
    ∃ a, s'.stack.last = .obj a ∧ s'.heap.get a = some (.closure hd ar []) := by
  unfold Upv.Instr.closure at hgo
  simp only [go_bind, Upv.go_initSimple] at hgo
  rcases hal : Gc.alloc1Pure Heap.objCharge (.closure hd ar []) s with ⟨r, s1⟩
  rw [hal] at hgo
  cases r with
  | error e => cases hgo
  | ok a =>
    obtain ⟨s0, hrel, hc0, rfl, rfl⟩ := Upv.alloc1Pure_ok hal
    simp only [go_push] at hgo
    by_cases hroom : (Gc.withObject (.closure hd ar []) s0).stack.count + 1 <
        (Gc.withObject (.closure hd ar []) s0).stack.data.length
    · simp only [hroom, if_true, Upv.go_dropGuard, go_pure, Prod.mk.injEq, Except.ok.injEq] at hgo
      obtain ⟨_, rfl⟩ := hgo
      refine ⟨s0.heap.next, ?_, ?_⟩
      · show VStack.last { count := _ + 1, data := _ } = _
        unfold VStack.last
        simp only [Nat.add_sub_cancel, gt_iff_lt, Nat.zero_lt_succ, if_true]
        have hlt : (Gc.withObject (.closure hd ar []) s0).stack.count <
            (Gc.withObject (.closure hd ar []) s0).stack.data.length := by omega
        simp [List.getD_eq_getElem?_getD, hlt]
      · show (Upv.Heap.add s0.heap _).get s0.heap.next = _
        rw [Upv.get_add _ _ _ (hc0 hc).fresh, if_pos rfl]
    · simp only [hroom, if_false] at hgo
      cases hgo

/-- calling a script function / closure with handle `label`: the interpreter continues at the
    position the label table gives for `label`, in a new frame that belongs to the closure -/
theorem callScript_enters {p : Prog} {label : UInt32} {pos : Nat}
    (hl : p.labels.find? (fun l => l.1 == label) = some (label, pos)) (src ip ar : Nat) (clo : Option Nat)
    {s : VmState} (hfr : s.frames.isEmpty = false) (hargs : ¬ s.stack.count < ar)
    (hroom : ¬ s.frames.length ≥ s.frameCap) :
    ∃ s', (step.callScript p src ip label ar clo).go s = (.ok { ip := pos }, s') ∧
      (s'.frames.getLast?.map (·.closure)) = some clo ∧
      (s'.frames.getLast?.map (·.stackOffset)) = some (s.stack.count - ar) := by
  unfold step.callScript
  simp only [go_bind, go_get, hfr, Bool.false_eq_true, if_false, go_pure, hargs, hroom, go_set, hl]
  exact ⟨_, rfl, by simp, by simp⟩

/-! ### upvalue indices: what the body uses is what `emitUpvalues` registers -/

/-- **`addUpvalue` returns the position of `(isLocal, index)` in the upvalue list of the closure
    being compiled**; the list is only appended to, so positions handed out earlier stay valid -/
theorem addUpvalue_index {index : UInt8} {isLocal : Bool} {fid i : Nat} {s s' : CState}
    (hfid : fid < s.upvalues.length) (h : addUpvalue index isLocal fid s = .ok (i, s')) :
    (s'.upvalues.getD fid [])[i]? = some (isLocal, index) ∧
    (∃ ext, s'.upvalues.getD fid [] = s.upvalues.getD fid [] ++ ext) ∧
    (∀ g, g ≠ fid → s'.upvalues.getD g [] = s.upvalues.getD g []) ∧
    s'.upvalues.length = s.upvalues.length := by
  unfold addUpvalue at h
  obtain ⟨st, s1, h1, h⟩ := bind_ok.1 h
  simp only [get_run, Except.ok.injEq, Prod.mk.injEq] at h1
  obtain ⟨rfl, rfl⟩ := h1
  dsimp only at h
  cases hj : (s.upvalues.getD fid []).findIdx? (fun u => u.2 == index && u.1 == isLocal) with
  | some j =>
    rw [hj] at h
    simp only [pure_run, Except.ok.injEq, Prod.mk.injEq] at h
    obtain ⟨rfl, rfl⟩ := h
    refine ⟨?_, ⟨[], by simp⟩, fun _ _ => rfl, rfl⟩
    rw [List.findIdx?_eq_some_iff_getElem] at hj
    obtain ⟨hlt, hp, _⟩ := hj
    rw [List.getElem?_eq_getElem hlt]
    simp only [Bool.and_eq_true, beq_iff_eq] at hp
    congr 1
    exact Prod.ext hp.2 hp.1
  | none =>
    rw [hj] at h
    dsimp only at h
    by_cases hlen : (s.upvalues.getD fid []).length ≥ 255
    · rw [if_pos hlen] at h
      obtain ⟨_, _, h2, _⟩ := bind_ok.1 h
      simp at h2
    · rw [if_neg hlen] at h
      obtain ⟨_, s3, h3, h⟩ := bind_ok.1 h
      simp only [modify_run, Except.ok.injEq, Prod.mk.injEq] at h3
      obtain ⟨_, rfl⟩ := h3
      simp only [pure_run, Except.ok.injEq, Prod.mk.injEq] at h
      obtain ⟨rfl, rfl⟩ := h
      have hget : (s.upvalues.set fid (s.upvalues.getD fid [] ++ [(isLocal, index)])).getD fid [] =
          s.upvalues.getD fid [] ++ [(isLocal, index)] := by
        simp [List.getD_eq_getElem?_getD, hfid]
      refine ⟨?_, ⟨[(isLocal, index)], hget⟩, ?_, by simp⟩
      · show ((s.upvalues.set fid _).getD fid [])[(s.upvalues.getD fid []).length]? = _
        rw [hget]; simp
      · intro g hg
        show (s.upvalues.set fid _).getD g [] = _
        simp [List.getD_eq_getElem?_getD, List.getElem?_set_ne (Ne.symm hg)]

/-- the bytes `emitUpvalues` produces for a list of captures -/
def upvalueBytes (ups : List (Bool × UInt8)) : List UInt8 :=
  ups.flatMap (fun u => [op.copyLast, op.registerUpvalue, u.2, if u.1 then 1 else 0])

/-- **`emitUpvalues` emits one `CopyLast; RegisterUpvalue index isLocal` per entry, in list order** —
    so the `j`-th registration executed at run time appends the `j`-th entry's upvalue to the closure
    object's list (`register_shares`: `ups ++ [u]`), which is the position `addUpvalue` returned to
    the body for that entry -/
theorem emitUpvalues_bytes : ∀ (ups : List (Bool × UInt8)) (s s' : CState),
    emitUpvalues ups s = .ok ((), s') → s'.bytecode = s.bytecode ++ (upvalueBytes ups).toArray := by
  intro ups
  induction ups with
  | nil =>
    intro s s' h
    unfold emitUpvalues at h
    simp only [pure_run, Except.ok.injEq, Prod.mk.injEq, true_and] at h
    subst h
    simp [upvalueBytes]
  | cons u rest ih =>
    intro s s' h
    obtain ⟨l, i⟩ := u
    unfold emitUpvalues at h
    obtain ⟨_, s1, h1, h⟩ := bind_ok.1 h
    rw [pushInstr_run] at h1
    simp only [Except.ok.injEq, Prod.mk.injEq, true_and] at h1
    obtain ⟨_, s2, h2, h⟩ := bind_ok.1 h
    rw [pushInstr_run] at h2
    simp only [Except.ok.injEq, Prod.mk.injEq, true_and] at h2
    obtain ⟨_, s3, h3, h⟩ := bind_ok.1 h
    rw [emitBytes_run] at h3
    simp only [Except.ok.injEq, Prod.mk.injEq, true_and] at h3
    rw [ih s3 s' h, ← h3, ← h2, ← h1]
    simp only [foldl_push_eq, upvalueBytes, List.flatMap_cons]
    apply Array.ext'
    simp

theorem upvalueBytes_get : ∀ (ups : List (Bool × UInt8)) (j : Nat) (u : Bool × UInt8), ups[j]? = some u →
    (upvalueBytes ups)[4 * j]? = some op.copyLast ∧
    (upvalueBytes ups)[4 * j + 1]? = some op.registerUpvalue ∧
    (upvalueBytes ups)[4 * j + 2]? = some u.2 ∧
    (upvalueBytes ups)[4 * j + 3]? = some (if u.1 then 1 else 0) := by
  intro ups
  induction ups with
  | nil => intro j u h; cases h
  | cons a rest ih =>
    intro j u h
    cases j with
    | zero =>
      simp only [List.getElem?_cons_zero, Option.some.injEq] at h
      subst h
      simp [upvalueBytes]
    | succ j =>
      simp only [List.getElem?_cons_succ] at h
      have := ih j u h
      have e : ∀ r, (upvalueBytes (a :: rest))[4 * (j + 1) + r]? = (upvalueBytes rest)[4 * j + r]? := by
        intro r
        show ([op.copyLast, op.registerUpvalue, a.2, if a.1 then 1 else 0] ++ upvalueBytes rest)[_]? = _
        rw [List.getElem?_append_right (by simp; omega)]
        congr 1
        simp; omega
      have e0 := e 0
      simp only [Nat.add_zero] at e0
      rw [e0, e 1, e 2, e 3]
      exact this

/-- **a name that is a local of the directly enclosing function resolves to the upvalue index at
    which that local's slot is registered**: `resolveUpvalue` marks the local as captured (so that
    `scopeEnd` emits `CloseUpvalue` for it) and returns the position of `(local, i)` in the
    closure's upvalue list, `i` being the local's slot index — the operand `RegisterUpvalue`
    adds to the running frame's offset (`frame_relative`) -/
theorem resolveUpvalue_local {name : String} {fid i : Nat} {s s' : CState} {v : Variable}
    (hfid : fid + 1 < s.upvalues.length)
    (hl : (s.locals.getD fid []).findIdx? (fun l => l.name == name) = some i)
    (h : resolveUpvalue name (fid + 1) s = .ok (v, s')) :
    ∃ u, v = .upvalue u ∧ (s'.upvalues.getD (fid + 1) [])[u]? = some (true, UInt8.ofNat i) := by
  unfold resolveUpvalue at h
  obtain ⟨st, s1, h1, h⟩ := bind_ok.1 h
  simp only [get_run, Except.ok.injEq, Prod.mk.injEq] at h1
  obtain ⟨rfl, rfl⟩ := h1
  dsimp only at h
  rw [hl] at h
  dsimp only at h
  obtain ⟨_, s2, h2, h⟩ := bind_ok.1 h
  simp only [modify_run, Except.ok.injEq, Prod.mk.injEq] at h2
  obtain ⟨_, rfl⟩ := h2
  obtain ⟨u, s3, h3, h⟩ := bind_ok.1 h
  simp only [pure_run, Except.ok.injEq, Prod.mk.injEq] at h
  obtain ⟨rfl, rfl⟩ := h
  exact ⟨u, rfl, (addUpvalue_index (by exact hfid) h3).1⟩

/-- the same for the `Closure` card as `processCard` compiles it (`cardLabel`, then `closureCode`
    with the real body): the label log gets the card's own label and then the closure key -/
theorem closure_card_dispatch {args : List String} {cards : List Card} {s s' : CState}
    (h : processCard (.closure args cards) s = .ok ((), s')) :
    ∃ post q,
      s'.labels = s.labels ++ (indexHandle s.curFunction s.curIndices, s.bytecode.size) ::
        (closureHandle s.fnHandle s.curIndices, s.bytecode.size + 5) :: post ∧
      s.bytecode.size + 5 ≤ q ∧ s'.bytecode[q]? = some op.closure ∧
      UInt32.ofNat (rdU32 s'.bytecode (q + 1)) = closureHandle s.fnHandle s.curIndices ∧
      ∀ later, HandlesDistinct (closureHandle s.fnHandle s.curIndices) (post ++ later) →
        (resolveLog (s'.labels ++ later)).find? (fun l => l.1 == closureHandle s.fnHandle s.curIndices) =
          some (closureHandle s.fnHandle s.curIndices, s.bytecode.size + 5) := by
  simp only [processCard] at h
  obtain ⟨_, s1, h1, h⟩ := bind_ok.1 h
  unfold cardLabel at h1
  obtain ⟨st, s0, h0, h1⟩ := bind_ok.1 h1
  simp only [get_run, Except.ok.injEq, Prod.mk.injEq] at h0
  obtain ⟨rfl, rfl⟩ := h0
  unfold insertLabel at h1
  by_cases hz : (indexHandle s.curFunction s.curIndices == 0) = true
  · simp only [hz, if_true] at h1
    obtain ⟨_, _, h5, _⟩ := bind_ok.1 h1
    simp at h5
  simp only [hz, Bool.false_eq_true, if_false, modify_run, Except.ok.injEq, Prod.mk.injEq, true_and] at h1
  subst h1
  obtain ⟨hb1, hb2⟩ := closure_body_ok cards
  obtain ⟨post, q, hl, hq, hop, hfh, _, hres⟩ := closure_label_unique_partial hb1 hb2 h
  refine ⟨post, q, ?_, hq, hop, hfh, hres⟩
  rw [hl]
  simp

/-- The end-to-end statement: *in a compiled program every `Closure` instruction's handle is mapped
    by the label table to the entry point `e` of the body that the same closure expression
    emitted* (recognisable in the bytecode: the expression starts with `Goto q` at `e - 5`, `q`
    being the address of its `Closure` instruction), provided no key was inserted twice into the
    label log.  Proved above per closure expression (`closure_card_dispatch`) with the collision
    hypothesis `HandlesDistinct` on what is inserted *after* the expression; what is missing is the
    decomposition of a whole `compileUnit` run into the runs of `processCard` on its closure cards
    (a "sub-run" induction over `processCard.mutual_induct`, `compileFunctions`, `compileUnit`),
    which would discharge `later` by the label log of the rest of the compilation.  The hypothesis
    itself cannot be removed: handles are 32-bit hashes. -/
def closure_dispatch_Full : Prop :=
  ∀ (m std : Module) (limit : Nat) (unit : Array FunctionIr) (sfin : CState),
    intoIrStream m std limit = .ok unit → (compileUnit unit).run {} = .ok ((), sfin) →
    (sfin.labels.map (·.1)).Nodup →
    ∀ q, (∃ t, (q, t) ∈ sfin.trace) → sfin.bytecode[q]? = some op.closure →
      ∃ e, (resolveLog sfin.labels).find? (fun l => l.1 == UInt32.ofNat (rdU32 sfin.bytecode (q + 1)))
          = some (UInt32.ofNat (rdU32 sfin.bytecode (q + 1)), e) ∧
        5 ≤ e ∧ sfin.bytecode[e - 5]? = some op.goto ∧ rdU32 sfin.bytecode (e - 4) = q

/-! ### non-vacuity (compiler side) -/

/-- a closure expression `|x| { nil }` at card path `[2, 0]` of the function with handle 77 -/
def demoClosure : Except CErr (Unit × CState) :=
  closureCode ["x"] (compileSubexprFrom 0 [.scalarNil]) { fnHandle := 77, curIndices := [2, 0] }

example : (match demoClosure with
    | .ok (_, s') => (s'.labels, s'.bytecode.toList)
    | .error _ => ([], [])) =
    ([(closureHandle 77 [2, 0], 5), (indexHandle 0 [2, 0, 0], 5)],
     [op.goto, 9, 0, 0, 0, op.scalarNil, op.pop, op.scalarNil, op.ret,
      op.closure, 16, 116, 137, 243, 1, 0, 0, 0]) := by decide +kernel

example : le32 (closureHandle 77 [2, 0]) = [16, 116, 137, 243] := by decide
/-- two closure expressions of one function at different card paths: different keys (no collision
    here), so `HandlesDistinct` holds for either against the other -/
example : closureHandle 77 [2, 0] ≠ closureHandle 77 [2, 1] ∧
    HandlesDistinct (closureHandle 77 [2, 0]) [(closureHandle 77 [2, 1], 40)] := by
  refine ⟨by decide, fun q hq => ?_⟩
  simp only [List.mem_singleton] at hq
  subst hq
  decide
/-- the same card path in two different functions (handles 77 and 78): different keys — on the
    pinned tree both were keyed by the module-local function index and collided -/
example : closureHandle 77 [2, 0] ≠ closureHandle 78 [2, 0] :=
  fun h => absurd ((closureHandle_same_path 77 78 [2, 0]).mp h) (by decide)

end Cao.C06
