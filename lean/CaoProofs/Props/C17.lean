import CaoProofs.Lemmas.VmFrame
/-!
# C17 — `clear`, determinism, no leaked frames

"A cleared VM behaves like a fresh one; runs are deterministic and do not leak."

* `clear_fields`, `clear_accounting`: what `Vm::clear` (`clear` in `CaoModel/Vm.lean`) resets;
* `clear_eq_fresh`: a cleared machine equals a freshly constructed one with the same limits in
  every observable component (`EqObs`);
* `run_restores_frames`, `run_full_stack`: `run` pops the call frames it pushed — also after an
  error —, and refuses to start on a full call stack without touching the machine;
* `run_deterministic`, `run_ignores_counters`: the model of `run` is a function of program, budget
  and machine state, and the incoming budget counters are overwritten.
-/
namespace Cao.C17
open Cao Cao.Vm

/-! ## 1. what `clear` resets -/

theorem clear_fields (s : VmState) :
    (clear s).heap.objs = [] ∧ (clear s).globals = [] ∧ (clear s).frames = [] ∧
    (clear s).openUpvalues = [] ∧ (clear s).guards = [] ∧ (clear s).stack.count = 0 ∧
    (clear s).stack.data.length = s.stack.data.length ∧
    (clear s).mem.nextGc = Mem.initialGc s.mem.limit ∧ (clear s).mem.limit = s.mem.limit ∧
    (clear s).frameCap = s.frameCap := by
  simp [clear, VStack.clear]

/-- the live part of the value stack of a cleared machine is empty -/
theorem clear_contents (s : VmState) : (clear s).stack.contents = [] := by
  simp [clear, VStack.clear, VStack.contents]

/-! ## 2. accounting -/

/-- the ledger invariant of the allocator: what is charged is what the live objects cost
    (stated with the very fold `clear` uses) -/
def Ledger (s : VmState) : Prop :=
  s.mem.allocated = s.heap.objs.foldl (fun n p => n + Heap.chargeOf p.2) 0

theorem clear_accounting (s : VmState) (h : Ledger s) : (clear s).mem.allocated = 0 := by
  unfold Ledger at h
  simp only [clear]
  omega

/-- more generally `clear` refunds exactly the live objects: nothing is left charged iff nothing
    had leaked before -/
theorem clear_allocated (s : VmState) :
    (clear s).mem.allocated =
      s.mem.allocated - s.heap.objs.foldl (fun n p => n + Heap.chargeOf p.2) 0 := rfl

/-- the cleared machine satisfies the ledger invariant again -/
theorem clear_ledger (s : VmState) (h : Ledger s) : Ledger (clear s) := by
  unfold Ledger
  rw [clear_accounting s h]
  simp [clear]

/-- **Observable equality of machine states.** Excluded are
    * the *dead* slots of the value stack (`stack.data` at and above `count`): every `VStack`
      operation reads below `count` only (C14, `refines`), so they cannot influence a run — but the
      capacity `data.length` decides when `push` fails and is compared;
    * `heap.next`, the next fresh address: addresses are never observable (values are compared and
      printed through `ownD`, function values are never equal, tables are keyed by deep value);
    * `hostLog` (an output of the harness natives, append-only, never read);
    * the ghost counters `dispatches`, `gcRuns`, `allocIndex`, `forcedGcs` and the forced-GC
      schedule `sched` (verification hooks: they decide *when* a collection runs, which the `gc`
      engine shows to be unobservable), and `remaining`, which `run` overwrites
      (`run_ignores_counters`). -/
structure EqObs (a b : VmState) : Prop where
  count : a.stack.count = b.stack.count
  live : a.stack.contents = b.stack.contents
  cap : a.stack.data.length = b.stack.data.length
  frames : a.frames = b.frames
  frameCap : a.frameCap = b.frameCap
  globals : a.globals = b.globals
  objs : a.heap.objs = b.heap.objs
  mem : a.mem = b.mem
  guards : a.guards = b.guards
  openUpvalues : a.openUpvalues = b.openUpvalues

theorem EqObs.refl (a : VmState) : EqObs a a := ⟨rfl, rfl, rfl, rfl, rfl, rfl, rfl, rfl, rfl, rfl⟩
theorem EqObs.symm {a b : VmState} (h : EqObs a b) : EqObs b a :=
  ⟨h.1.symm, h.2.symm, h.3.symm, h.4.symm, h.5.symm, h.6.symm, h.7.symm, h.8.symm, h.9.symm,
   h.10.symm⟩
theorem EqObs.trans {a b c : VmState} (h : EqObs a b) (g : EqObs b c) : EqObs a c :=
  ⟨h.1.trans g.1, h.2.trans g.2, h.3.trans g.3, h.4.trans g.4, h.5.trans g.5, h.6.trans g.6,
   h.7.trans g.7, h.8.trans g.8, h.9.trans g.9, h.10.trans g.10⟩

/-- the configuration a machine was built with, as far as it can be read off the state -/
def configOf (s : VmState) : Config :=
  { memLimit := s.mem.limit, stackSize := s.stack.data.length, callStackSize := s.frameCap }

/-- **a cleared machine is a fresh machine** (up to the unobservable components) -/
theorem clear_eq_fresh (s : VmState) (h : Ledger s) : EqObs (clear s) (VmState.fresh (configOf s)) := by
  have hacc := clear_accounting s h
  constructor
  · simp [clear, VStack.clear, VmState.fresh, VStack.new]
  · simp [clear, VStack.clear, VmState.fresh, VStack.new, VStack.contents]
  · simp [clear, VStack.clear, VmState.fresh, VStack.new, configOf]
  · simp [clear, VmState.fresh]
  · simp [clear, VmState.fresh, configOf]
  · simp [clear, VmState.fresh]
  · simp [clear, VmState.fresh]
  · have h1 : (clear s).mem.nextGc = Mem.initialGc s.mem.limit := rfl
    have h2 : (clear s).mem.limit = s.mem.limit := rfl
    show (clear s).mem = Mem.new s.mem.limit
    cases hm : (clear s).mem with
    | mk a g l =>
      rw [hm] at hacc h1 h2
      simp only at hacc h1 h2
      subst hacc h1 h2
      rfl
  · simp [clear, VmState.fresh]
  · simp [clear, VmState.fresh]

/-- `clear` is idempotent on the observable state -/
theorem clear_clear (s : VmState) (h : Ledger s) : EqObs (clear (clear s)) (clear s) := by
  have h1 := clear_eq_fresh (clear s) (clear_ledger s h)
  have h2 := clear_eq_fresh s h
  have hc : configOf (clear s) = configOf s := by
    simp [configOf, clear, VStack.clear]
  rw [hc] at h1
  exact h1.trans h2.symm

/-- What is still missing for the literal "behaves like a fresh one": `run` maps `EqObs`-related
    states to `EqObs`-related states with the same outcome. That is a two-state (relational)
    frame property of `step` — every primitive reads the stack below `count` only, never compares
    addresses, never reads the ghost fields — which the one-state infrastructure of
    `Lemmas/VmFrame.lean` (`Pres`) does not give; it needs the relational analogue
    (`∀ s₁ s₂, EqObs' s₁ s₂ → results equal ∧ EqObs' (m s₁) (m s₂)`, where `EqObs'` must relate
    heaps *up to a renaming of addresses*, because `heap.next` differs). Not proved. -/
def clear_behaves_like_fresh_Full : Prop :=
  ∀ (p : Prog) (n : Nat) (s : VmState), Ledger s →
    ((run p n (clear s)).2.map (·.kind.name)) = ((run p n (VmState.fresh (configOf s))).2.map (·.kind.name))

/-! ## 3. frames -/

/-- **`run` pops the frames it pushed** (the entry frame and everything above it), also when the
    run ends with an error -/
theorem run_restores_frames (p : Prog) (n : Nat) (s : VmState) (h : s.frames.length < s.frameCap) :
    (run p n s).1.frames.length ≤ s.frames.length := by
  rw [run_room p n s h]
  simp only [List.length_take]
  omega

/-- on a full call stack `run` reports `CallStackOverflow` and leaves the machine untouched -/
theorem run_full_stack (p : Prog) (n : Nat) (s : VmState) (h : s.frames.length ≥ s.frameCap) :
    run p n s = (s, some ⟨.callStackOverflow, 0, []⟩) := run_no_room p n s h

/-- in both cases no frame is leaked -/
theorem run_no_frame_leak (p : Prog) (n : Nat) (s : VmState) :
    (run p n s).1.frames.length ≤ s.frames.length := by
  by_cases h : s.frames.length < s.frameCap
  · exact run_restores_frames p n s h
  · rw [run_full_stack p n s (Nat.not_lt.1 h)]; exact Nat.le_refl _

/-- a run from a machine without frames (fresh or cleared) ends without frames -/
theorem run_frames_nil (p : Prog) (n : Nat) (s : VmState) (h : s.frames = []) :
    (run p n s).1.frames = [] := by
  have := run_no_frame_leak p n s
  rw [h] at this
  exact List.eq_nil_of_length_eq_zero (Nat.le_zero.1 this)

/-- `run` does not change the capacity of the call stack -/
theorem run_frameCap (p : Prog) (n : Nat) (s : VmState) : (run p n s).1.frameCap = s.frameCap := by
  by_cases h : s.frames.length < s.frameCap
  · rw [run_room p n s h]
    exact exec_frameCap p _ _ _
  · rw [run_full_stack p n s (Nat.not_lt.1 h)]

/-! ## 4. determinism -/

/-- the model of `run` is a function: equal inputs, equal outcome and equal final machine -/
theorem run_deterministic (p p' : Prog) (n n' : Nat) (s s' : VmState)
    (hp : p = p') (hn : n = n') (hs : s = s') : run p n s = run p' n' s' := by
  subst hp hn hs; rfl

/-- **the incoming budget counters do not matter**: `run` overwrites `remaining` and `dispatches`
    before the first instruction -/
theorem run_ignores_counters (p : Prog) (n r d : Nat) (s : VmState) (h : s.frames.length < s.frameCap) :
    run p n { s with remaining := r, dispatches := d } = run p n s := by
  rw [run_room p n s h, run_room p n { s with remaining := r, dispatches := d } h]
  rfl

/-- … and on a full call stack the machine (counters included) is returned as it came -/
theorem run_ignores_counters_full (p : Prog) (n r d : Nat) (s : VmState) (h : s.frames.length ≥ s.frameCap) :
    run p n { s with remaining := r, dispatches := d } =
      ({ s with remaining := r, dispatches := d }, some ⟨.callStackOverflow, 0, []⟩) :=
  run_no_room p n _ h

end Cao.C17
