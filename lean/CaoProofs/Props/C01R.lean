import CaoProofs.Props.C01S
import CaoProofs.Lemmas.SimRepeat
/-!
# C01, fragment F4: F3 plus `Repeat` (with and without a loop variable)

The compiler keeps the evaluated count and the counter in two hidden locals; the loop variable is a
fresh local of the body's scope that receives a *copy* of the counter before every iteration (the
reference semantics allocates a fresh cell), so an assignment to it in the body does not change the
number of iterations.
-/

namespace Cao.C01
open Cao Cao.Vm Cao.Sim Cao.Compiler

/-! ## value facts -/

theorem asBool_boolVal (h : Heap) (b : Bool) : OVal.asBool hostF64 (ownD h (Vm.boolVal b)) = b := by
  cases b <;> rfl

theorem less_val (h : Heap) (σ : Sem.St) (k : Int64) {nv : Val} (hnv : Scalar nv) :
    binVal .less (ownD h (.int k)) (ownD h nv) = Vm.boolVal (OVal.vlt Sem.F (.int k) (Sem.deepV σ nv)) := by
  rw [ownD_scalar hnv h σ]; rfl

theorem add_val (h : Heap) (k : Int64) : binVal .add (ownD h (.int 1)) (ownD h (.int k)) = .int (k + 1) := by
  show Val.int (1 + k) = .int (k + 1)
  rw [Int64.add_comm]

/-! ## lists read and written through `ReadLocalVar`/`SetLocalVar` -/

theorem rev_getD (pre : List Val) (x : Val) (l rest : List Val) :
    (pre ++ x :: (l ++ rest)).reverse.getD (rest.length + l.length) .nil = x := by
  have e : pre ++ x :: (l ++ rest) = (pre ++ x :: l) ++ rest := by simp
  rw [e, getD_above]
  simp [List.getD_eq_getElem?_getD]

theorem rev_set (pre : List Val) (x y : Val) (l rest : List Val) :
    ((pre ++ x :: (l ++ rest)).reverse.set (rest.length + l.length) y).reverse = pre ++ y :: (l ++ rest) := by
  have e : pre ++ x :: (l ++ rest) = (pre ++ x :: l) ++ rest := by simp
  rw [e, set_above]
  simp [List.set_append_right]

/-! ## hidden slots -/

theorem ctxOf_append (S T : List Slot) : ctxOf (S ++ T) = ctxOf S ++ ctxOf T := by simp [ctxOf]

theorem baseOf_hid (S : List Slot) (σ : Sem.St) (d : Int) (v : Val) :
    baseOf (S ++ [.hidden d v]) σ = v :: baseOf S σ := by
  simp [baseOf, Slot.val]

theorem SRel.hid {S : List Slot} {σ : Sem.St} (h : SRel S σ) (d : Int) {v : Val} (hv : Scalar v) :
    SRel (S ++ [.hidden d v]) σ := by
  refine ⟨fun s hs c hc => ?_, ?_, h.scalar, h.gscalar, fun d' v' hm => ?_⟩
  · rcases List.mem_append.1 hs with hs | hs
    · exact h.lt s hs c hc
    · simp only [List.mem_singleton] at hs; subst hs; cases hc
  · rw [List.filterMap_append]
    have : List.filterMap Slot.cell [Slot.hidden d v] = [] := rfl
    rw [this, List.append_nil]; exact h.inj
  · rcases List.mem_append.1 hm with hm | hm
    · exact h.hscalar d' v' hm
    · simp only [List.mem_singleton, Slot.hidden.injEq] at hm
      rw [hm.2]; exact hv

theorem lookRel_hid {env : Sem.Env} {S : List Slot} (h : LookRel env S) (d : Int) (v : Val) :
    LookRel env (S ++ [.hidden d v]) := by
  intro n hn
  have hctx : ctxOf (S ++ [.hidden d v]) = ctxOf S ++ [("", d)] := by simp [ctxOf, Slot.ctx]
  have hne : ¬ n = "" := fun e => by rw [e] at hn; exact absurd hn (by decide)
  rw [hctx, lidx_append, if_neg hne, h n hn]
  rcases hli : lidx (ctxOf S) n with _ | j
  · rfl
  · have hj : j < S.length := by have := lidx_lt hli; simpa [ctxOf] using this
    simp only [Option.bind_some, List.getElem?_append_left hj]


/-! ## the instructions of the loop -/

section repVm
variable {P : Prog}

theorem reach_scalarInt {F : List (UInt32 × Nat)} {L : LCtx} {i : Int64} {pc pc' : Nat} {vs : VmState} {cap : Nat}
    {stk : List Val} (hcode : ECodeL P.bytecode F L (.scalarInt i) pc pc') (hin : pc < P.bytecode.size)
    (hst : StackIs vs.stack cap stk) (hroom : stk.length + 1 < cap) :
    ∃ vs', Reach P 1 pc vs pc' vs' ∧ StackIs vs'.stack cap (.int i :: stk) ∧ SameRest vs vs' ∧
      vs'.globals = vs.globals := by
  simp only [ECodeL] at hcode
  obtain ⟨h1, h2, rfl⟩ := hcode
  exact reach_push (P := P) (ip := pc) (ip' := pc + 9) (.int i) hin hst hroom
    (fun re st' hp => by
      have := step_scalarInt (re := re) h1 (s := tick vs) (st' := st')
        (by rw [h2, Int64.toInt64_toUInt64]; exact hp)
      exact this)

/-- `ReadLocal C; ReadLocal N; Less; GotoIfFalse`: the test at the head of the loop -/
theorem rep_head {vs : VmState} {cap : Nat} {base rest : List Val} {nv : Val} {k : Int64} (σ : Sem.St) (hnv : Scalar nv)
    {q len : Nat} (hlen : base.length = len) (hq : q + 12 ≤ P.bytecode.size)
    (h1 : IsRead P.bytecode q (len + 1)) (h2 : IsRead P.bytecode (q + 5) len)
    (h3 : P.bytecode.getD (q + 10) 0 = Compiler.op.less) (h4 : P.bytecode.getD (q + 11) 0 = Compiler.op.gotoIfFalse)
    (hfr : FrameAt vs rest.length) (hst : StackIs vs.stack cap (.int k :: nv :: (base ++ rest)))
    (hroom : base.length + rest.length + 4 < cap) :
    ∃ vs', Reach P 4 q vs (if OVal.vlt Sem.F (.int k) (Sem.deepV σ nv) then q + 16 else rdU32 P.bytecode (q + 12)) vs' ∧
      StackIs vs'.stack cap (.int k :: nv :: (base ++ rest)) ∧ SameRest vs vs' ∧ vs'.globals = vs.globals := by
  subst hlen
  obtain ⟨vs1, hr1, hst1, hsame1, hg1⟩ := reach_readLocalAt (P := P) (ip := q) (by omega) h1.1 h1.2 hfr hst
    (by simp only [List.length_cons, List.length_append]; omega) (by simp only [List.length_cons, List.length_append]; omega)
  have e1 : (Val.int k :: nv :: (base ++ rest)).reverse.getD (rest.length + (base.length + 1)) .nil = .int k :=
    rev_getD [] (.int k) (nv :: base) rest
  rw [e1] at hst1
  obtain ⟨vs2, hr2, hst2, hsame2, hg2⟩ := reach_readLocalAt (P := P) (ip := q + 5) (by omega) h2.1 h2.2
    (hsame1.frameAt hfr) hst1 (by simp only [List.length_cons, List.length_append]; omega)
    (by simp only [List.length_cons, List.length_append]; omega)
  have e2 : (Val.int k :: Val.int k :: nv :: (base ++ rest)).reverse.getD (rest.length + base.length) .nil = nv :=
    rev_getD [.int k, .int k] nv base rest
  rw [e2] at hst2
  obtain ⟨vs3, hr3, hst3, hsame3, hg3⟩ := reach_bin (P := P) (ip := q + 10) .less rfl (by omega) h3 hst2
    (by simp only [List.length_cons, List.length_append]; omega)
  rw [less_val vs2.heap σ k hnv] at hst3
  obtain ⟨vs4, hr4, hst4, hsame4, hg4⟩ := reach_gotoIfFalse (P := P) (ip := q + 11) (by omega) h4 hst3
  rw [asBool_boolVal] at hr4
  refine ⟨vs4, ((hr1.trans hr2 rfl).trans hr3 rfl).trans hr4 rfl, hst4,
    ((hsame1.trans hsame2).trans hsame3).trans hsame4, by rw [hg4, hg3, hg2, hg1]⟩

/-- the two `Pop`s after the loop -/
theorem rep_exit {vs : VmState} {cap : Nat} {base : List Val} {a b : Val} {q : Nat} (hq : q + 2 ≤ P.bytecode.size)
    (h1 : P.bytecode.getD q 0 = Compiler.op.pop) (h2 : P.bytecode.getD (q + 1) 0 = Compiler.op.pop)
    (hst : StackIs vs.stack cap (a :: b :: base)) :
    ∃ vs', Reach P 2 q vs (q + 2) vs' ∧ StackIs vs'.stack cap base ∧ SameRest vs vs' ∧ vs'.globals = vs.globals := by
  obtain ⟨vs1, hr1, hst1, hsame1, hg1⟩ := reach_pop (P := P) (ip := q) (by omega) h1 hst
  obtain ⟨vs2, hr2, hst2, hsame2, hg2⟩ := reach_pop (P := P) (ip := q + 1) (by omega) h2 hst1
  exact ⟨vs2, hr1.trans hr2 rfl, hst2, hsame1.trans hsame2, by rw [hg2, hg1]⟩

/-- `ScalarInt 1; ReadLocal C; Add; SetLocal C; Goto head`: the counter is incremented -/
theorem rep_incr {F : List (UInt32 × Nat)} {L : LCtx} {vs : VmState} {cap : Nat} {base rest : List Val} {nv : Val}
    {k : Int64} {q head len : Nat} (hlen : base.length = len) (hq : q + 25 ≤ P.bytecode.size)
    (h1 : ECodeL P.bytecode F L (.scalarInt 1) q (q + 9)) (h2 : IsRead P.bytecode (q + 9) (len + 1))
    (h3 : P.bytecode.getD (q + 14) 0 = Compiler.op.add) (h4 : IsSet P.bytecode (q + 15) (len + 1))
    (h5 : P.bytecode.getD (q + 20) 0 = Compiler.op.goto) (h6 : rdU32 P.bytecode (q + 21) = head)
    (hfr : FrameAt vs rest.length) (hst : StackIs vs.stack cap (.int k :: nv :: (base ++ rest)))
    (hroom : base.length + rest.length + 4 < cap) :
    ∃ vs', Reach P 5 q vs head vs' ∧ StackIs vs'.stack cap (.int (k + 1) :: nv :: (base ++ rest)) ∧ SameRest vs vs' ∧
      vs'.globals = vs.globals := by
  subst hlen
  obtain ⟨vs1, hr1, hst1, hsame1, hg1⟩ := reach_scalarInt (P := P) h1 (by omega) hst
    (by simp only [List.length_cons, List.length_append]; omega)
  obtain ⟨vs2, hr2, hst2, hsame2, hg2⟩ := reach_readLocalAt (P := P) (ip := q + 9) (by omega) h2.1 h2.2
    (hsame1.frameAt hfr) hst1 (by simp only [List.length_cons, List.length_append]; omega)
    (by simp only [List.length_cons, List.length_append]; omega)
  have e2 : (Val.int 1 :: Val.int k :: nv :: (base ++ rest)).reverse.getD (rest.length + (base.length + 1)) .nil = .int k :=
    rev_getD [.int 1] (.int k) (nv :: base) rest
  rw [e2] at hst2
  obtain ⟨vs3, hr3, hst3, hsame3, hg3⟩ := reach_bin (P := P) (ip := q + 14) .add rfl (by omega) h3 hst2
    (by simp only [List.length_cons, List.length_append]; omega)
  rw [add_val] at hst3
  obtain ⟨vs4, hr4, hst4, hsame4, hg4⟩ := reach_setLocalAt_old (P := P) (ip := q + 15) (by omega) h4.1 h4.2
    (((hsame1.trans hsame2).trans hsame3).frameAt hfr) hst3 (by simp only [List.length_cons, List.length_append]; omega)
  have e4 : ((Val.int k :: nv :: (base ++ rest)).reverse.set (rest.length + (base.length + 1)) (.int (k + 1))).reverse =
      .int (k + 1) :: nv :: (base ++ rest) := rev_set [] (.int k) (.int (k + 1)) (nv :: base) rest
  rw [e4] at hst4
  obtain ⟨vs5, hr5, hst5, hsame5, hg5⟩ := reach_goto (P := P) (ip := q + 20) (vs := vs4) (by omega) h5
  rw [h6] at hr5
  refine ⟨vs5, (((hr1.trans hr2 rfl).trans hr3 rfl).trans hr4 rfl).trans hr5 rfl, by rw [hst5]; exact hst4,
    (((hsame1.trans hsame2).trans hsame3).trans hsame4).trans hsame5, by rw [hg5, hg4, hg3, hg2, hg1]⟩

end repVm


/-! ## the simulation of `Repeat` -/

/-- the layout of the loop of `Repeat` (everything after the code of the count); `kk` is the number of
    locals of the body's scope -/
def RepCode (B : Array UInt8) (F : List (UInt32 × Nat)) (J : Compiler.JumpTable) (d : Int) (L : LCtx) (i : Option String) (cs : List Card)
    (pc' m0 mb m2 kk : Nat) : Prop :=
  IsSet B m0 L.length ∧ ECodeL B F L (.scalarInt 0) (m0 + 5) (m0 + 14) ∧
  IsSet B (m0 + 14) (L.length + 1) ∧
  IsRead B (m0 + 19) (L.length + 1) ∧ IsRead B (m0 + 24) L.length ∧
  B.getD (m0 + 29) 0 = Compiler.op.less ∧ B.getD (m0 + 30) 0 = Compiler.op.gotoIfFalse ∧
  Vm.rdU32 B (m0 + 31) = pc' - 2 ∧
  (match i with
    | some _ => IsRead B (m0 + 35) (L.length + 1) ∧ IsSet B (m0 + 40) (L.length + 2) ∧ mb = m0 + 45
    | none => mb = m0 + 35) ∧
  BCodes B F J (d + 2) (repCtx d L i) cs mb m2 ∧
  (∀ j, j < kk → B.getD (m2 + j) 0 = Compiler.op.pop) ∧
  ECodeL B F L (.scalarInt 1) (m2 + kk) (m2 + kk + 9) ∧
  IsRead B (m2 + kk + 9) (L.length + 1) ∧
  B.getD (m2 + kk + 14) 0 = Compiler.op.add ∧
  IsSet B (m2 + kk + 15) (L.length + 1) ∧
  B.getD (m2 + kk + 20) 0 = Compiler.op.goto ∧
  Vm.rdU32 B (m2 + kk + 21) = m0 + 19 ∧
  B.getD (pc' - 2) 0 = Compiler.op.pop ∧ B.getD (pc' - 1) 0 = Compiler.op.pop ∧
  pc' = m2 + kk + 27

theorem RepCode.mb_ge {B : Array UInt8} {F : List (UInt32 × Nat)} {J : Compiler.JumpTable} {d : Int} {L : LCtx} {i : Option String}
    {cs : List Card} {pc' m0 mb m2 kk : Nat} (h : RepCode B F J d L i cs pc' m0 mb m2 kk) : m0 + 35 ≤ mb := by
  have := h.2.2.2.2.2.2.2.2.1
  cases i with
  | none => simp only at this; omega
  | some v => simp only at this; omega

section repeatS
variable {P : Prog} {F : List (UInt32 × Nat)} {J : Compiler.JumpTable} {N : String → Prop} {cx : Sem.Ctx} {ft : Feat} {C W : Nat}

/-- the slots while the loop runs: the count, the counter -/
def repSlots (S : List Slot) (d : Int) (nv : Val) (k : Int64) : List Slot :=
  (S ++ [.hidden (d + 1) nv]) ++ [.hidden (d + 1) (.int k)]

theorem baseOf_repSlots (S : List Slot) (d : Int) (nv : Val) (k : Int64) (σ : Sem.St) :
    baseOf (repSlots S d nv k) σ = .int k :: nv :: baseOf S σ := by
  unfold repSlots; rw [baseOf_hid, baseOf_hid]

theorem repSlots_length (S : List Slot) (d : Int) (nv : Val) (k : Int64) : (repSlots S d nv k).length = S.length + 2 := by
  simp [repSlots]

/-- what is shown for the loop from the test at its head, with the counter `k`, to the end of the card -/
def LoopSim (P : Prog) (F : List (UInt32 × Nat)) (N : String → Prop) (C W : Nat) (S : List Slot) (nv : Val)
    (cs : List Card) (m0 pc' : Nat) (k : Int64) (σ σ' : Sem.St) : Prop :=
  SFrame S σ σ' ∧ SRel S σ' ∧ ∃ n, ∀ (vs : VmState) (cap : Nat) (fs : List Frame) (rest : List Val), σ'.calls ≤ C →
    StackIs vs.stack cap (.int k :: nv :: (baseOf S σ ++ rest)) → S.length + (4 + bdepthS cs) ≤ W →
    GRel F N σ.globals vs.globals → Side C W vs cap fs rest σ.calls →
    ∃ vs', Reach P n (m0 + 19) vs pc' vs' ∧ StackIs vs'.stack cap (baseOf S σ' ++ rest) ∧
      Pres C W cap fs rest σ.calls σ'.calls vs vs' ∧ GRel F N σ'.globals vs'.globals

variable (hout : cx.outer = [])
include hout

/-- one iteration: the test succeeds, the loop variable is bound (`hbind`), the body runs, its scope
    ends, the counter is incremented, and the rest of the loop follows (`hrest`) -/
theorem repeat_iter {g : Nat} (ihb : StmtSimS P F J N cx ft C W g)
    (hcall : ∀ g', g' < g → CallSimS P F J N cx ft C W g') (d : Int) (S : List Slot) (env : Sem.Env)
    (i : Option String) (ty : String) (cs : List Card) (nv : Val) (hnv : Scalar nv)
    {pc' m0 mb m2 kk : Nat} (hrc : RepCode P.bytecode F J d (ctxOf S) i cs pc' m0 mb m2 kk)
    (hkk : kk = (blockCtx (d + 2) (repCtx d (ctxOf S) i) cs).length - (S.length + 2))
    (hblk : isBlock ft (d + 2) (repCtx d (ctxOf S) i) cs = true)
    (hsz : pc' ≤ P.bytecode.size) (hN : ∀ n ∈ snamess cs, N n)
    (k : Int64) (σ σ1 σ2 σ' : Sem.St) (scope : List (String × Nat)) (env2 : Sem.Env) (X : List Slot)
    (hX : X.length ≤ 1)
    (hctx : ctxOf (repSlots S d nv k ++ X) = repCtx d (ctxOf S) i)
    (hlr1 : SRel (repSlots S d nv k ++ X) σ1)
    (hlook : LookRel (scope :: env) (repSlots S d nv k ++ X))
    (hfr1 : SFrame S σ σ1) (hg1 : σ1.globals = σ.globals) (hc1 : σ1.calls = σ.calls)
    (hXc : ∀ s ∈ X, ∀ x, s.cell = some x → σ.cells.size ≤ x)
    (hbind : ∃ n, ∀ (vs : VmState) (cap : Nat) (rest : List Val),
      StackIs vs.stack cap (.int k :: nv :: (baseOf S σ ++ rest)) →
      S.length + rest.length + 4 < cap → FrameAt vs rest.length →
      ∃ vs', Reach P n (m0 + 35) vs mb vs' ∧ StackIs vs'.stack cap (baseOf (repSlots S d nv k ++ X) σ1 ++ rest) ∧
        SameRest vs vs' ∧ vs'.globals = vs.globals)
    (hlt : OVal.vlt Sem.F (.int k) (Sem.deepV σ nv) = true)
    (hbody : Sem.exec cx (g + 1) (scope :: env) σ1 (.composite ty cs) = (σ2, env2, .ok ()))
    (hrest : SRel S σ2 → LoopSim P F N C W S nv cs m0 pc' (k + 1) σ2 σ') :
    LoopSim P F N C W S nv cs m0 pc' k σ σ' := by
  have hmb := hrc.mb_ge
  obtain ⟨c1, c2, c3, c4, c5, c6, c7, c8, c9, hbc, hpops, c12, c13, c14, c15, c16, c17, c18, c19, hpc'⟩ := hrc
  rw [exec_composite] at hbody
  have hle2 := bcodes_le hblk hbc
  obtain ⟨new, hctxn, _, e2, _, hlr2, n3, _, hsim3⟩ :=
    block_simS hout ihb hcall (d + 2) cs (repSlots S d nv k ++ X) (scope :: env) (by rw [hctx]; exact hblk) hlook σ1 σ2 env2
      mb m2 hbody (by rw [hctx]; exact hbc) (by omega) hN hlr1
  rw [hctx] at hctxn
  have hkk' : kk = new.length + X.length := by
    rw [hkk, ← hctxn]; simp [ctxOf, repSlots]; omega
  have hlrS2 : SRel S σ2 := by
    have := hlr2.pre.pre
    unfold repSlots at this
    exact this.pre.pre
  obtain ⟨e5, hlr5, n5, hsim5⟩ := hrest hlrS2
  obtain ⟨nb, hsimb⟩ := hbind
  have hL : (ctxOf S).length = S.length := by simp [ctxOf]
  rw [hL] at c1 c3 c4 c5 c13 c15
  have e2' : SFrame (S ++ ([Slot.hidden (d + 1) nv, Slot.hidden (d + 1) (.int k)] ++ X)) σ1 σ2 := by
    have := e2
    simp only [repSlots, List.append_assoc, List.singleton_append] at this
    simpa using this
  have e12 : SFrame S σ σ2 := hfr1.trans_ext e2' (fun s hs c hc => by
    rcases List.mem_append.1 hs with hs | hs
    · simp only [List.mem_cons, List.mem_nil_iff, or_false] at hs
      rcases hs with rfl | rfl <;> cases hc
    · exact hXc s hs c hc)
  refine ⟨e12.trans e5, hlr5, 4 + nb + n3 + kk + 5 + n5, fun vs cap fs rest hcl hst hd hg hsd => ?_⟩
  have hroom := hsd.room
  have hsd1 : Side C W vs cap fs rest σ1.calls := by rw [hc1]; exact hsd
  obtain ⟨vs1, hr1, hst1, hsame1, hgl1⟩ := rep_head (P := P) σ hnv (q := m0 + 19) (baseOf_length S σ) (by omega)
    c4 c5 c6 c7 hsd.frameAt hst (by rw [baseOf_length]; omega)
  rw [if_pos hlt] at hr1
  obtain ⟨vs2, hr2, hst2, hsame2, hgl2⟩ := hsimb vs1 cap rest hst1 (by omega) (hsame1.frameAt hsd.frameAt)
  obtain ⟨vs3, hr3, hst3, hsame3, hgl3⟩ := hsim3 vs2 cap fs rest (Nat.le_trans e5.calls hcl) hst2
    (by simp only [List.length_append, repSlots_length]; omega)
    (by rw [hg1, hgl2, hgl1]; exact hg) ((hsame1.trans hsame2).side hsd1)
  have hb : baseOf (repSlots S d nv k ++ X ++ new) σ2 ++ rest =
      (baseOf new σ2 ++ baseOf X σ2) ++ (.int k :: nv :: (baseOf S σ2 ++ rest)) := by
    rw [baseOf_append, baseOf_append, baseOf_repSlots]; simp
  rw [hb] at hst3
  obtain ⟨vs4, hr4, hst4, hsame4, hgl4⟩ := reach_popsN (P := P) (baseOf new σ2 ++ baseOf X σ2)
    (.int k :: nv :: (baseOf S σ2 ++ rest)) m2 vs3
    (fun j hj => hpops j (by simp only [List.length_append, baseOf_length] at hj; omega))
    (by simp only [List.length_append, baseOf_length]; omega) hst3
  have hlen4 : (baseOf new σ2 ++ baseOf X σ2).length = kk := by
    simp only [List.length_append, baseOf_length]; omega
  rw [hlen4] at hr4
  obtain ⟨vs5, hr5, hst5, hsame5, hgl5⟩ := rep_incr (P := P) (q := m2 + kk) (head := m0 + 19) (baseOf_length S σ2)
    (by omega) c12 c13 c14 c15 c16 c17
    ((((hsame1.trans hsame2).transP hsame3).transS hsame4).side hsd1).frameAt hst4 (by rw [baseOf_length]; omega)
  obtain ⟨vs6, hr6, hst6, hsame6, hgl6⟩ := hsim5 vs5 cap fs rest hcl hst5 hd (by rw [hgl5, hgl4]; exact hgl3)
    (((((hsame1.trans hsame2).transP hsame3).transS hsame4).transS hsame5).side hsd1)
  refine ⟨vs6, (((((hr1.trans hr2 rfl).trans hr3 rfl).trans hr4 rfl).trans hr5 rfl).trans hr6 rfl), hst6, ?_, hgl6⟩
  rw [← hc1]
  exact ((((hsame1.trans hsame2).transP hsame3).transS hsame4).transS hsame5).trans hsame6


omit hout in
theorem bind_none (S : List Slot) (d : Int) (nv : Val) (k : Int64) (σ : Sem.St) (env : Sem.Env) (hnv : Scalar nv)
    (hlr : SRel S σ) (henv : LookRel env S) :
    ctxOf (repSlots S d nv k ++ []) = repCtx d (ctxOf S) none ∧ SRel (repSlots S d nv k ++ []) σ ∧
      LookRel ([] :: env) (repSlots S d nv k ++ []) := by
  rw [List.append_nil]
  refine ⟨by simp [ctxOf, repSlots, repCtx, Slot.ctx], (hlr.hid (d + 1) hnv).hid (d + 1) trivial, ?_⟩
  exact lookRel_cons_nil (lookRel_hid (lookRel_hid henv _ _) _ _)

omit hout in
theorem bind_some (v : String) (S : List Slot) (d : Int) (nv : Val) (k : Int64) (σ : Sem.St) (env : Sem.Env)
    (hnv : Scalar nv) (hlr : SRel S σ) (henv : LookRel env S) :
    ctxOf (repSlots S d nv k ++ [.named v (d + 2) σ.cells.size]) = repCtx d (ctxOf S) (some v) ∧
      SRel (repSlots S d nv k ++ [.named v (d + 2) σ.cells.size]) (Sem.newCell σ (.int k)).1 ∧
      LookRel ([(v, σ.cells.size)] :: env) (repSlots S d nv k ++ [.named v (d + 2) σ.cells.size]) ∧
      baseOf (repSlots S d nv k ++ [.named v (d + 2) σ.cells.size]) (Sem.newCell σ (.int k)).1 =
        .int k :: .int k :: nv :: baseOf S σ := by
  have h2 : SRel (repSlots S d nv k) σ := (hlr.hid (d + 1) hnv).hid (d + 1) trivial
  obtain ⟨h3, h4⟩ := h2.decl v (d + 2) (x := .int k) trivial
  refine ⟨by simp [ctxOf, repSlots, repCtx, Slot.ctx], h3, ?_, by rw [h4, baseOf_repSlots]⟩
  exact lookRel_decl (lookRel_cons_nil (lookRel_hid (lookRel_hid henv _ _) _ _)) v (d + 2) σ.cells.size

omit hout in
/-- `ReadLocal C; SetLocal X`: the loop variable receives a copy of the counter -/
theorem bind_some_vm {vs : VmState} {cap : Nat} {base rest : List Val} {nv : Val} {k : Int64} {q len : Nat}
    (hlen : base.length = len) (hq : q + 10 ≤ P.bytecode.size)
    (h1 : IsRead P.bytecode q (len + 1)) (h2 : IsSet P.bytecode (q + 5) (len + 2))
    (hfr : FrameAt vs rest.length) (hst : StackIs vs.stack cap (.int k :: nv :: (base ++ rest)))
    (hroom : base.length + rest.length + 4 < cap) :
    ∃ vs', Reach P 2 q vs (q + 10) vs' ∧ StackIs vs'.stack cap (.int k :: .int k :: nv :: (base ++ rest)) ∧
      SameRest vs vs' ∧ vs'.globals = vs.globals := by
  subst hlen
  obtain ⟨vs1, hr1, hst1, hsame1, hg1⟩ := reach_readLocalAt (P := P) (ip := q) (by omega) h1.1 h1.2 hfr hst
    (by simp only [List.length_cons, List.length_append]; omega) (by simp only [List.length_cons, List.length_append]; omega)
  have e1 : (Val.int k :: nv :: (base ++ rest)).reverse.getD (rest.length + (base.length + 1)) .nil = .int k :=
    rev_getD [] (.int k) (nv :: base) rest
  rw [e1] at hst1
  obtain ⟨vs2, hr2, hst2, hsame2, hg2⟩ := reach_setLocalAt_new (P := P) (ip := q + 5) (by omega) h2.1 h2.2
    (by simp only [List.length_cons, List.length_append]; omega) (hsame1.frameAt hfr) hst1
    (by simp only [List.length_cons, List.length_append]; omega)
  exact ⟨vs2, hr1.trans hr2 rfl, hst2, hsame1.trans hsame2, by rw [hg2, hg1]⟩

/-- the loop, by induction on the gas of `Sem.repeatLoop` -/
theorem repeat_loop_sim {g : Nat} (ihb : StmtSimS P F J N cx ft C W g)
    (hcall : ∀ g', g' < g → CallSimS P F J N cx ft C W g') (d : Int) (S : List Slot) (env : Sem.Env)
    (i : Option String) (ty : String) (cs : List Card) (nv : Val) (hnv : Scalar nv) (henv : LookRel env S)
    {pc' m0 mb m2 kk : Nat} (hrc : RepCode P.bytecode F J d (ctxOf S) i cs pc' m0 mb m2 kk)
    (hkk : kk = (blockCtx (d + 2) (repCtx d (ctxOf S) i) cs).length - (S.length + 2))
    (hblk : isBlock ft (d + 2) (repCtx d (ctxOf S) i) cs = true)
    (hsz : pc' ≤ P.bytecode.size) (hN : ∀ n ∈ snamess cs, N n) :
    ∀ (gas : Nat) (k : Int64) (σ σ' : Sem.St),
      Sem.repeatLoop (fun scope s => Sem.exec cx (g + 1) (scope :: env) s (.composite ty cs)) i nv gas k σ =
        (σ', .ok ()) →
      SRel S σ → LoopSim P F N C W S nv cs m0 pc' k σ σ' := by
  have hmb := hrc.mb_ge
  have hrc0 := hrc
  obtain ⟨c1, c2, c3, c4, c5, c6, c7, c8, c9, hbc, hpops, c12, c13, c14, c15, c16, c17, c18, c19, hpc'⟩ := hrc
  have hle2 := bcodes_le hblk hbc
  have hL : (ctxOf S).length = S.length := by simp [ctxOf]
  rw [hL] at c4 c5 c9
  intro gas
  induction gas with
  | zero =>
    intro k σ σ' h
    simp only [Sem.repeatLoop, Prod.mk.injEq] at h
    exact absurd h.2 (by simp)
  | succ gas ih =>
    intro k σ σ' h hlr
    simp only [Sem.repeatLoop] at h
    by_cases hlt : OVal.vlt Sem.F (.int k) (Sem.deepV σ nv) = true
    · rw [if_pos hlt] at h
      cases i with
      | none =>
        simp only at h c9
        rcases hb : Sem.exec cx (g + 1) ([] :: env) σ (.composite ty cs) with ⟨σ2, env2, r2⟩
        rw [hb] at h
        cases r2 with
        | ok u =>
          cases u
          simp only at h
          obtain ⟨b1, b2, b3⟩ := bind_none S d nv k σ env hnv hlr henv
          refine repeat_iter hout ihb hcall d S env none ty cs nv hnv hrc0 hkk hblk hsz hN k σ σ σ2 σ' [] env2 []
            (by simp) b1 b2 b3 (SFrame.refl _ _) rfl rfl (fun s hs => by cases hs) ⟨0, fun vs cap rest hst _ _ => ?_⟩ hlt hb
            (fun hlr2 => ih (k + 1) σ2 σ' h hlr2)
          rw [c9, List.append_nil, baseOf_repSlots]
          exact ⟨vs, Reach.refl _ _, hst, SameRest.refl _, rfl⟩
        | outOfFuel | ret _ | exit | err _ | unspecified _ =>
          simp only [Prod.mk.injEq] at h
          exact absurd h.2 (by simp)
      | some v =>
        simp only at h c9
        obtain ⟨c9a, c9b, c9c⟩ := c9
        rcases hb : Sem.exec cx (g + 1) ([(v, (Sem.newCell σ (.int k)).2)] :: env) (Sem.newCell σ (.int k)).1
          (.composite ty cs) with ⟨σ2, env2, r2⟩
        rw [hb] at h
        cases r2 with
        | ok u =>
          cases u
          simp only at h
          obtain ⟨b1, b2, b3, b4⟩ := bind_some v S d nv k σ env hnv hlr henv
          refine repeat_iter hout ihb hcall d S env (some v) ty cs nv hnv hrc0 hkk hblk hsz hN k σ (Sem.newCell σ (.int k)).1 σ2 σ'
            [(v, σ.cells.size)] env2 [.named v (d + 2) σ.cells.size]
            (by simp) b1 b2 b3 (SFrame.of_new _ _ _) rfl rfl
            (fun s hs c hc => by
              simp only [List.mem_singleton] at hs; subst hs
              simp only [Slot.cell, Option.some.injEq] at hc; rw [← hc]; exact Nat.le_refl _) ⟨2, fun vs cap rest hst hd hfr => ?_⟩ hlt hb
            (fun hlr2 => ih (k + 1) σ2 σ' h hlr2)
          rw [b4, c9c]
          exact bind_some_vm (P := P) (q := m0 + 35) (baseOf_length S σ) (by omega) c9a c9b hfr hst
            (by rw [baseOf_length]; omega)
        | outOfFuel | ret _ | exit | err _ | unspecified _ =>
          simp only [Prod.mk.injEq] at h
          exact absurd h.2 (by simp)
    · rw [if_neg hlt] at h
      simp only [Prod.mk.injEq, and_true] at h
      subst h
      refine ⟨SFrame.refl _ _, hlr, 4 + 2, fun vs cap fs rest hcl hst hd hg hsd => ?_⟩
      have hroom := hsd.room
      obtain ⟨vs1, hr1, hst1, hsame1, hgl1⟩ := rep_head (P := P) σ hnv (q := m0 + 19) (baseOf_length S σ) (by omega)
        c4 c5 c6 c7 hsd.frameAt hst (by rw [baseOf_length]; omega)
      rw [if_neg hlt, show m0 + 19 + 12 = m0 + 31 from rfl, c8] at hr1
      obtain ⟨vs2, hr2, hst2, hsame2, hgl2⟩ := rep_exit (P := P) (q := pc' - 2) (by omega) c18
        (by rw [show pc' - 2 + 1 = pc' - 1 by omega]; exact c19) hst1
      rw [show pc' - 2 + 2 = pc' by omega] at hr2
      exact ⟨vs2, hr1.trans hr2 rfl, hst2, (hsame1.trans hsame2).pres, by rw [hgl2, hgl1]; exact hg⟩


/-- `Repeat`: the count is evaluated once and kept, with the counter, in two hidden locals -/
theorem simS_repeat (f : Nat) (ihb : ∀ g, g + 1 = f → StmtSimS P F J N cx ft C W g)
    (hcall : ∀ g, g ≤ f → CallSimS P F J N cx ft C W g) (d : Int) (S : List Slot)
    (env : Sem.Env) (i : Option String) (n : Card) (ty : String) (cs : List Card) :
    CardSimS P F J N cx ft C W (f + 1) d (.repeat i n (.composite ty cs)) S env := by
  intro hs henv σ σ' env' pc pc' hex hcode hsz hN hlr
  simp only [isStmtS, Bool.and_eq_true] at hs
  obtain ⟨⟨⟨_, hen⟩, hi⟩, hblk⟩ := hs
  rw [exec_repeat] at hex
  simp only [SCodeS] at hcode
  obtain ⟨m0, mb, m2, hc1, hrc0⟩ := hcode
  have hL : (ctxOf S).length = S.length := by simp [ctxOf]
  have hrc : RepCode P.bytecode F J d (ctxOf S) i cs pc' m0 mb m2
      ((blockCtx (d + 2) (repCtx d (ctxOf S) i) cs).length - ((ctxOf S).length + 2)) := hrc0
  have hmb := hrc.mb_ge
  obtain ⟨c1, c2, c3, _, _, _, _, _, _, hbc, _, _, _, _, _, _, _, _, _, hpc'⟩ := hrc0
  have hle2 := bcodes_le hblk hbc
  have hlt := ecodeL_lt hc1
  rw [hL] at c1 c3
  rcases hc : Sem.eval cx f env σ n with ⟨σ1, env1, r1⟩
  rw [hc] at hex
  cases r1 with
  | ok nv =>
    simp only at hex
    have hnv := eval_scalarS hout env n hen f σ σ1 env1 nv hc hlr.scalar hlr.gscalar
    obtain ⟨rfl, rfl, n1, hn1, hsim1⟩ := eval_simS hout S env henv n hen f σ σ1 env1 nv pc m0 hc hc1 (by omega)
    cases f with
    | zero =>
      simp only [Sem.repeatLoop, Prod.mk.injEq] at hex
      exact absurd hex.2.2 (by simp)
    | succ g =>
      rcases hl : Sem.repeatLoop (fun scope s => Sem.exec cx (g + 1) (scope :: env) s (.composite ty cs)) i nv (g + 1) 0 σ1
        with ⟨σ2, r2⟩
      rw [hl] at hex
      simp only [Prod.mk.injEq] at hex
      obtain ⟨rfl, rfl, rfl⟩ := hex
      obtain ⟨e5, hlr5, n5, hsim5⟩ := repeat_loop_sim hout (ihb g rfl) (fun g' hg' => hcall g' (by omega)) d S env i ty cs nv hnv henv hrc (by rw [hL]) hblk hsz
        (fun n hn => hN n (by simpa [snames] using hn)) (g + 1) 0 σ1 σ2 hl hlr
      refine ⟨rfl, e5, hlr5, n1 + 1 + 1 + 1 + n5, fun hlf => by simp [loopFree] at hlf,
        fun vs cap fs rest hcl hst hd hg hsd => ?_⟩
      simp only [sdepthS] at hd
      have hroom := hsd.room
      obtain ⟨_, vs1, hr1, hst1, hsame1, hg1⟩ := hsim1 vs cap _ _ hst
        (by simp only [List.length_append, baseOf_length]; omega) hg hsd.frameAt hlr ⟨[], rest, rfl, rfl⟩
      obtain ⟨vs2, hr2, hst2, hsame2, hg2⟩ := reach_setLocalAt_new (P := P) (ip := m0) (by omega) c1.1 c1.2
        (by simp only [List.length_append, baseOf_length]; omega) (hsame1.frameAt hsd.frameAt) hst1
        (by simp only [List.length_append, baseOf_length]; omega)
      obtain ⟨vs3, hr3, hst3, hsame3, hg3⟩ := reach_scalarInt (P := P) c2 (by omega) hst2
        (by simp only [List.length_cons, List.length_append, baseOf_length]; omega)
      obtain ⟨vs4, hr4, hst4, hsame4, hg4⟩ := reach_setLocalAt_new (P := P) (ip := m0 + 14) (by omega) c3.1 c3.2
        (by simp only [List.length_cons, List.length_append, baseOf_length]; omega)
        (((hsame1.trans hsame2).trans hsame3).frameAt hsd.frameAt) hst3
        (by simp only [List.length_cons, List.length_append, baseOf_length]; omega)
      obtain ⟨vs5, hr5, hst5, hsame5, hg5⟩ := hsim5 vs4 cap fs rest hcl hst4 (by omega) (by rw [hg4, hg3, hg2, hg1]; exact hg)
        ((((hsame1.trans hsame2).trans hsame3).trans hsame4).side hsd)
      exact ⟨vs5, (((hr1.trans hr2 rfl).trans hr3 rfl).trans hr4 rfl).trans hr5 rfl, hst5,
        (((hsame1.trans hsame2).trans hsame3).trans hsame4).transP hsame5, hg5⟩
  | outOfFuel | ret _ | exit | err _ | unspecified _ =>
    simp only [Prod.mk.injEq] at hex
    obtain ⟨_, _, h⟩ := hex
    cases h

end repeatS


/-! ## fragment F4 -/

/-- the features of F4: `Repeat` is allowed -/
def F4 : Feat := { rep := true }

/-- **Fragment F4** = F3 plus `Repeat i n body` with `n` an expression of the fragment, `body` a
    composite card whose cards form a block (like the body of a `While`), and an optional loop
    variable (a simple name). The body may assign the loop variable. -/
def InF4 (m : Module) : Bool :=
  match mainFn m with
  | some f => f.arguments.isEmpty && isBlock F4 1 [] f.cards
  | none => false

theorem inF4_main {m : Module} (h : InF4 m = true) :
    ∃ f, mainFn m = some f ∧ f.arguments = [] ∧ isBlock F4 1 [] f.cards = true ∧ mainCards m = f.cards := by
  unfold InF4 at h
  unfold mainCards
  rcases hm : mainFn m with _ | f
  · rw [hm] at h; cases h
  · rw [hm] at h
    simp only [Bool.and_eq_true, List.isEmpty_iff] at h
    exact ⟨f, rfl, h.1, h.2, rfl⟩

/-- **C01 for fragment F4 (scoped locals, `While`, `Repeat`).** If the reference semantics finishes
    `main` with `ok`, the compiled program finishes without an error with any instruction budget
    from `budget` on, with the same log and the same values of the globals assigned by `main`. -/
theorem compile_correct_F4 (m std : Module) (limit fuel : Nat) (cfg : Config) (p : Program)
    (hfrag : InF4 m = true) (hnames : handlesDistinct (snamess (mainCards m)) = true)
    (hc : compile m std limit = .ok p)
    (hB : p.bytecode.size < 4294967296) (hV : p.varIds.length < 4294967296)
    (hstack : bdepthS (mainCards m) < cfg.stackSize) (hcalls : 0 < cfg.callStackSize)
    (hsem : (Sem.run m std fuel).result = "ok") :
    ∃ budget, ∀ maxInstr, budget ≤ maxInstr →
      Agree p (snamess (mainCards m)) (Vm.run (Prog.ofProgram p) maxInstr (VmState.fresh cfg))
        (Sem.run m std fuel) := by
  obtain ⟨f, hmain, hargs, hst, hcards⟩ := inF4_main hfrag
  rw [hcards] at hnames hstack ⊢
  obtain ⟨n, _, hall⟩ := compile_correct_coreS F4 (repX_all F4) rfl
    (fun P F J N cx C W hout _ _ f ihb hcall d S env i n ty cs => simS_repeat hout f ihb hcall d S env i n ty cs)
    m std limit fuel cfg p f
    (fun cx hout => execList_benign _ (fun c hc env σ =>
      exec_benignB cx hout fuel c (isStmtsB_mem (isBlock_B (ft := F4) rfl rfl 1 f.cards [] hst) c hc) env σ) _ _)
    (fun cx hout => execList_calls _ (fun c hc env σ =>
      exec_callsB cx hout fuel c (isStmtsB_mem (isBlock_B (ft := F4) rfl rfl 1 f.cards [] hst) c hc) env σ) _ _)
    hmain hargs hst (hinj_of_handlesDistinct hnames) hc hB hV hstack hcalls hsem
  refine ⟨n + 2, fun maxInstr hmax => ?_⟩
  obtain ⟨h1, h2, h3⟩ := hall maxInstr hmax
  exact ⟨⟨h1, hsem⟩, h2, h3⟩

/-- on F4 the reference semantics never yields an error, a `Return` or an `Abort` -/
theorem sem_run_benign_F4 (m std : Module) (hfrag : InF4 m = true) (fuel : Nat) :
    ∃ x, Sem.run m std fuel = render x ∧ benign x.2.2 := by
  obtain ⟨fn, hmain, _, hst, _⟩ := inF4_main hfrag
  obtain ⟨i, nf, hi, hf, rfl⟩ := mainFn_some hmain
  obtain ⟨cx, hout, hrun⟩ := sem_run_main (std := std) (fuel := fuel) hi hf
  have hB' := isBlock_B (ft := F4) rfl rfl 1 nf.2.cards [] hst
  exact ⟨_, hrun, execList_benign _ (fun c hc env σ => exec_benignB cx hout fuel c (isStmtsB_mem hB' c hc) env σ) _ _⟩

/-- **Fuel independence on F4**. -/
theorem sem_run_fuel_mono_F4 (m std : Module) (hfrag : InF4 m = true) (f f' : Nat) (hle : f ≤ f')
    (h : (Sem.run m std f).result ≠ "unspecified:out of fuel") : Sem.run m std f' = Sem.run m std f := by
  obtain ⟨fn, hmain, _, hst, _⟩ := inF4_main hfrag
  obtain ⟨i, nf, hi, hf, rfl⟩ := mainFn_some hmain
  obtain ⟨cx, hout, hrun⟩ := sem_run_main' (std := std) hi hf
  rw [hrun f] at h
  rw [hrun f', hrun f]
  have hB' := isBlock_B (ft := F4) rfl rfl 1 nf.2.cards [] hst
  have hn : ¬ isOOF (Sem.execList cx f [[]] {} nf.2.cards).2.2 := by
    intro hoof
    rcases hx : Sem.execList cx f [[]] {} nf.2.cards with ⟨σ1, env1, r1⟩
    rw [hx] at h hoof
    cases r1 <;> first | exact hoof | exact h rfl
  have : Sem.execList cx f' [[]] {} nf.2.cards = Sem.execList cx f [[]] {} nf.2.cards :=
    execList_fuel_mono nf.2.cards
      (fun c hc env σ hnc => exec_fuel_monoB cx hout f c (isStmtsB_mem hB' c hc) env σ hnc f' hle) [[]] {} hn
  rw [this]

/-! ### F3 is part of F4 -/

theorem isVal_congr {ft ft' : Feat} (h : ft'.fns = ft.fns) (e : Card) : isVal ft' e = isVal ft e := by
  unfold isVal
  cases e <;> simp only [isCall, Feat.lookup, h]

mutual
theorem isStmtS_mono {ft ft' : Feat} (hft : ft.rep = true → ft'.rep = true)
    (hret : ft.ret = true → ft'.ret = true) (hfns : ft'.fns = ft.fns) (d : Int) (L : LCtx) :
    ∀ (c : Card), isStmtS ft d L c = true → isStmtS ft' d L c = true
  | .setGlobalVar n e => fun h => by simpa only [isStmtS, isVal_congr hfns] using h
  | .setVar n e => fun h => by simpa only [isStmtS, isVal_congr hfns] using h
  | .un .ret e => fun h => by
    simp only [isStmtS, Bool.and_eq_true, isVal_congr hfns] at h ⊢
    exact ⟨hret h.1, h.2⟩
  | .bin .ifTrue c b => fun h => by
    simp only [isStmtS, Bool.and_eq_true] at h ⊢
    exact ⟨h.1, isStmtS_mono hft hret hfns d L b h.2⟩
  | .bin .ifFalse c b => fun h => by
    simp only [isStmtS, Bool.and_eq_true] at h ⊢
    exact ⟨h.1, isStmtS_mono hft hret hfns d L b h.2⟩
  | .bin .while c (.composite _ cs) => fun h => by
    simp only [isStmtS, Bool.and_eq_true] at h ⊢
    exact ⟨h.1, isBlock_mono hft hret hfns (d + 1) cs L h.2⟩
  | .tri .ifElse c t e => fun h => by
    simp only [isStmtS, Bool.and_eq_true] at h ⊢
    exact ⟨⟨h.1.1, isStmtS_mono hft hret hfns d L t h.1.2⟩, isStmtS_mono hft hret hfns d L e h.2⟩
  | .composite _ cs => fun h => by
    simp only [isStmtS] at h ⊢
    exact isStmtsS_mono hft hret hfns d L cs h
  | .comment _ => fun _ => rfl
  | .bin .while _ (.bin _ _ _) | .bin .while _ (.un _ _) | .bin .while _ (.tri _ _ _ _) | .bin .while _ .scalarNil
  | .bin .while _ .createTable | .bin .while _ .abort | .bin .while _ (.scalarInt _) | .bin .while _ (.scalarFloat _)
  | .bin .while _ (.stringLiteral _) | .bin .while _ (.comment _) | .bin .while _ (.function _)
  | .bin .while _ (.nativeFunction _) | .bin .while _ (.readVar _) | .bin .while _ (.setVar _ _)
  | .bin .while _ (.setGlobalVar _ _) | .bin .while _ (.callNative _ _) | .bin .while _ (.call _ _)
  | .bin .while _ (.repeat _ _ _) | .bin .while _ (.forEach _ _ _ _ _) | .bin .while _ (.dynamicCall _ _)
  | .bin .while _ (.array _) | .bin .while _ (.closure _ _)
  | .bin .add _ _ | .bin .sub _ _ | .bin .mul _ _ | .bin .div _ _ | .bin .less _ _ | .bin .lessOrEq _ _
  | .bin .equals _ _ | .bin .notEquals _ _ | .bin .and _ _ | .bin .or _ _ | .bin .xor _ _
  | .bin .getProperty _ _ | .bin .get _ _ | .bin .appendTable _ _
  | .un .not _ | .un .len _ | .un .popTable _ | .tri .setProperty _ _ _ | .scalarNil | .createTable | .abort | .scalarInt _ | .scalarFloat _
  | .stringLiteral _ | .function _ | .nativeFunction _ | .readVar _ | .callNative _ _
  | .call _ _ | .forEach _ _ _ _ _ | .dynamicCall _ _ | .array _ | .closure _ _
  | .repeat _ _ (.bin _ _ _) | .repeat _ _ (.un _ _) | .repeat _ _ (.tri _ _ _ _) | .repeat _ _ .scalarNil
  | .repeat _ _ .createTable | .repeat _ _ .abort | .repeat _ _ (.scalarInt _) | .repeat _ _ (.scalarFloat _)
  | .repeat _ _ (.stringLiteral _) | .repeat _ _ (.comment _) | .repeat _ _ (.function _) | .repeat _ _ (.nativeFunction _)
  | .repeat _ _ (.readVar _) | .repeat _ _ (.setVar _ _) | .repeat _ _ (.setGlobalVar _ _) | .repeat _ _ (.callNative _ _)
  | .repeat _ _ (.call _ _) | .repeat _ _ (.repeat _ _ _) | .repeat _ _ (.forEach _ _ _ _ _) | .repeat _ _ (.dynamicCall _ _)
  | .repeat _ _ (.array _) | .repeat _ _ (.closure _ _) => fun h => by
    simp [isStmtS] at h
  | .repeat i n (.composite _ cs) => fun h => by
    simp only [isStmtS, Bool.and_eq_true] at h ⊢
    exact ⟨⟨⟨hft h.1.1.1, h.1.1.2⟩, h.1.2⟩, isBlock_mono hft hret hfns (d + 2) cs _ h.2⟩
theorem isStmtsS_mono {ft ft' : Feat} (hft : ft.rep = true → ft'.rep = true)
    (hret : ft.ret = true → ft'.ret = true) (hfns : ft'.fns = ft.fns) (d : Int) (L : LCtx) :
    ∀ (cs : List Card), isStmtsS ft d L cs = true → isStmtsS ft' d L cs = true
  | [] => fun _ => rfl
  | c :: cs => fun h => by
    simp only [isStmtsS, Bool.and_eq_true] at h ⊢
    exact ⟨isStmtS_mono hft hret hfns d L c h.1, isStmtsS_mono hft hret hfns d L cs h.2⟩
theorem isBlock_mono {ft ft' : Feat} (hft : ft.rep = true → ft'.rep = true)
    (hret : ft.ret = true → ft'.ret = true) (hfns : ft'.fns = ft.fns) (d : Int) :
    ∀ (cs : List Card) (L : LCtx), isBlock ft d L cs = true → isBlock ft' d L cs = true
  | [], _ => fun _ => rfl
  | c :: cs, L => fun h => by
    simp only [isBlock] at h ⊢
    rcases hdecl : declOf L c with _ | ⟨n, e⟩
    · simp only [hdecl, Bool.and_eq_true] at h ⊢
      exact ⟨isStmtS_mono hft hret hfns d L c h.1, isBlock_mono hft hret hfns d cs L h.2⟩
    · simp only [hdecl, Bool.and_eq_true, isVal_congr hfns] at h ⊢
      exact ⟨h.1, isBlock_mono hft hret hfns d cs _ h.2⟩
end

/-- every module of F3 is a module of F4 -/
theorem inF4_of_inF3 {m : Module} (h : InF3 m = true) : InF4 m = true := by
  unfold InF3 at h
  unfold InF4
  rcases hm : mainFn m with _ | f
  · rw [hm] at h; cases h
  · rw [hm] at h
    simp only [Bool.and_eq_true] at h ⊢
    exact ⟨h.1, isBlock_mono (ft := {}) (ft' := F4) (fun _ => rfl) (fun hh => by cases hh) rfl 1 f.cards [] h.2⟩

/-! ### an example: `Repeat` with a loop variable that the body assigns, and without a loop variable -/

/-- `a = 0; repeat i 3 { a = a + i; i = 10 }; repeat 2 { a = a + 100 }; out = a`: the assignment to
    the loop variable `i` in the body does not change the number of iterations (`out = 0+1+2+200`) -/
def exRepeat : Module := Module.mk [] [("main", { arguments := [], cards := [
  .setVar "a" (.scalarInt 0),
  .repeat (some "i") (.scalarInt 3) (.composite "b" [
    .setVar "a" (.bin .add (.readVar "a") (.readVar "i")),
    .setVar "i" (.scalarInt 10)]),
  .repeat none (.scalarInt 2) (.composite "b" [
    .setVar "a" (.bin .add (.readVar "a") (.scalarInt 100))]),
  .setGlobalVar "out" (.readVar "a")] })] []

theorem exRepeat_inF4 : InF4 exRepeat = true := by
  have hm : mainFn exRepeat = some { arguments := [], cards := [
      .setVar "a" (.scalarInt 0),
      .repeat (some "i") (.scalarInt 3) (.composite "b" [
        .setVar "a" (.bin .add (.readVar "a") (.readVar "i")),
        .setVar "i" (.scalarInt 10)]),
      .repeat none (.scalarInt 2) (.composite "b" [
        .setVar "a" (.bin .add (.readVar "a") (.scalarInt 100))]),
      .setGlobalVar "out" (.readVar "a")] } := by rfl
  have l1 : lidx [] "a" = none := by decide
  have l2 : lidx [("a", 1), ("", 2), ("", 2), ("i", 3)] "a" = some 0 := by decide
  have l3 : lidx [("a", 1), ("", 2), ("", 2), ("i", 3)] "i" = some 3 := by decide
  have l4 : lidx [("a", 1), ("", 2), ("", 2)] "a" = some 0 := by decide
  unfold InF4
  rw [hm]
  simp [isBlock, declOf, isStmtS, isVal, isCall, isExpr, isValOp, simpleName_a, simpleName_i, optName, repCtx, F4,
    l1, l2, l3, l4]

/- expected: "SEM: ok [(out, i203)] | VM: ok [i203]" -/
#eval showBoth exRepeat

end Cao.C01
