import CaoProofs.Props.C01C
import CaoProofs.Lemmas.SimCalls
/-!
# C01, fragment F5: static calls of the functions of the root module, `Return` anywhere

`main` and the other functions of the root module consist of the statements of F4, where the value of
`SetVar`, `SetGlobalVar` and `Return` may be a static call (with expressions as arguments) of a function
of the root module other than `main`, and `Return` may occur anywhere in the body of these
functions, also inside `If*`, `While` and `Repeat`. Recursion is allowed.
-/

namespace Cao.C01
open Cao Cao.Vm Cao.Sim Cao.Compiler

/-! ## the reference semantics never fails or aborts on the fragment -/

/-- results that are not an error or an `Abort` -/
def benignR {α : Type} : Sem.Res α → Prop
  | .ok _ | .ret _ | .unspecified _ | .outOfFuel => True
  | _ => False

theorem benignR_of_benign {α : Type} {r : Sem.Res α} (h : benign r) : benignR r := by
  cases r <;> first | trivial | exact h

theorem execList_benignR {ex : Sem.Env → Sem.St → Card → Sem.St × Sem.Env × Sem.Res Unit}
    : ∀ (cs : List Card), (∀ c ∈ cs, ∀ env σ, benignR (ex env σ c).2.2) → ∀ (env : Sem.Env) (σ : Sem.St),
      benignR (Sem.execListWith ex env σ cs).2.2
  | [], _, env, σ => trivial
  | c :: cs, h, env, σ => by
    simp only [Sem.execListWith]
    have hc := h c (List.mem_cons_self ..) env σ
    rcases he : ex env σ c with ⟨σ1, env1, r1⟩
    rw [he] at hc
    cases r1 with
    | ok u => cases u; exact execList_benignR cs (fun c hc => h c (List.mem_cons_of_mem _ hc)) env1 σ1
    | _ => first | trivial | exact hc

/-- a card of a statement list or of a block -/
def OkCard (ft : Feat) (c : Card) : Prop :=
  (∃ d L, isStmtS ft d L c = true) ∨ (∃ n e, c = .setVar n e ∧ simpleName n = true ∧ isVal ft e = true) ∨
    ∃ ty cs d L, c = .composite ty cs ∧ isBlock ft d L cs = true

theorem okCard_stmts {ft : Feat} {d : Int} {L : LCtx} : ∀ {cs : List Card}, isStmtsS ft d L cs = true →
    ∀ c ∈ cs, OkCard ft c
  | [], _, c, hc => by cases hc
  | x :: xs, h, c, hc => by
    simp only [isStmtsS, Bool.and_eq_true] at h
    rcases List.mem_cons.1 hc with rfl | hc
    · exact Or.inl ⟨d, L, h.1⟩
    · exact okCard_stmts h.2 c hc

theorem okCard_block {ft : Feat} {d : Int} : ∀ {cs : List Card} {L : LCtx}, isBlock ft d L cs = true →
    ∀ c ∈ cs, OkCard ft c
  | [], _, _, c, hc => by cases hc
  | x :: xs, L, h, c, hc => by
    simp only [isBlock] at h
    rcases hdecl : declOf L x with _ | ⟨n, e⟩
    · simp only [hdecl, Bool.and_eq_true] at h
      rcases List.mem_cons.1 hc with rfl | hc
      · exact Or.inl ⟨d, L, h.1⟩
      · exact okCard_block h.2 c hc
    · simp only [hdecl, Bool.and_eq_true] at h
      obtain ⟨rfl, _⟩ := declOf_some hdecl
      rcases List.mem_cons.1 hc with rfl | hc
      · exact Or.inr (Or.inl ⟨n, e, rfl, h.1.1, h.1.2⟩)
      · exact okCard_block h.2 c hc

theorem repeatLoop_benignR {body : List (String × Nat) → Sem.St → Sem.St × Sem.Env × Sem.Res Unit}
    (hb : ∀ scope s, benignR (body scope s).2.2) (i : Option String) (nv : Val) :
    ∀ (gas : Nat) (k : Int64) (s : Sem.St), benignR (Sem.repeatLoop body i nv gas k s).2 := by
  intro gas
  induction gas with
  | zero => intro k s; trivial
  | succ gas ih =>
    intro k s
    rw [repeatLoop_succ]
    split
    · have h := hb (repScope i k s).2 (repScope i k s).1
      rcases hc : body (repScope i k s).2 (repScope i k s).1 with ⟨s2, e2, r2⟩
      rw [hc] at h
      cases r2 with
      | ok u => cases u; exact ih (k + 1) s2
      | _ => first | trivial | exact h
    · trivial

/-- what the reference semantics knows about the functions that may be called -/
def SemTable (ft : Feat) (fns : Array Sem.FnDef) : Prop :=
  ∀ g fd, ft.lookup g = some fd →
    (∃ i d, (∀ home, home < fns.size → Sem.resolve fns home g = some i) ∧ fns[i]? = some d ∧
      d.params = fd.arguments ∧ d.cards = fd.cards) ∧ isBlock ft 1 (argCtx fd) fd.cards = true

theorem evalList_length (cx : Sem.Ctx) : ∀ (es : List Card) (fuel : Nat) (env : Sem.Env) (σ σ' : Sem.St) (env' : Sem.Env)
    (vals : List Val), Sem.evalListWith (Sem.eval cx fuel) env σ es = (σ', env', .ok vals) → vals.length = es.length
  | [], _, _, _, _, _, _, h => by
    simp only [Sem.evalListWith, Prod.mk.injEq, Sem.Res.ok.injEq] at h
    rw [← h.2.2]; rfl
  | e :: es, fuel, env, σ, σ', env', vals, h => by
    simp only [Sem.evalListWith] at h
    rcases hc : Sem.eval cx fuel env σ e with ⟨σ1, env1, r1⟩
    rw [hc] at h
    cases r1 with
    | ok v =>
      simp only at h
      rcases hcs : Sem.evalListWith (Sem.eval cx fuel) env1 σ1 es with ⟨σ2, env2, r2⟩
      rw [hcs] at h
      cases r2 with
      | ok vs' =>
        simp only [Prod.mk.injEq, Sem.Res.ok.injEq] at h
        rw [← h.2.2, List.length_cons, evalList_length cx es fuel env1 σ1 σ2 env2 vs' hcs]; rfl
      | _ => simp only [Prod.mk.injEq] at h; obtain ⟨_, _, h⟩ := h; cases h
    | _ => simp only [Prod.mk.injEq] at h; obtain ⟨_, _, h⟩ := h; cases h

/-- on the fragment the reference semantics yields no error and no `Abort` -/
theorem exec_benignR (ft : Feat) (fns : Array Sem.FnDef) (htab : SemTable ft fns) :
    ∀ (f : Nat) (cx : Sem.Ctx), CxH fns cx →
      (∀ c, OkCard ft c → ∀ (env : Sem.Env) (σ : Sem.St), benignR (Sem.exec cx f env σ c).2.2) ∧
      (∀ e, isVal ft e = true → ∀ (env : Sem.Env) (σ : Sem.St), benignR (Sem.eval cx f env σ e).2.2) := by
  intro f
  induction f with
  | zero =>
    intro cx _
    exact ⟨fun c _ env σ => by rw [exec_zero]; trivial, fun e _ env σ => by rw [eval_zero]; trivial⟩
  | succ f ih =>
    intro cx hcx
    have hout := hcx.1
    obtain ⟨ihx, ihv⟩ := ih cx hcx
    -- values
    have hval : ∀ e, isVal ft e = true → ∀ (env : Sem.Env) (σ : Sem.St), benignR (Sem.eval cx (f + 1) env σ e).2.2 := by
      intro e he env σ
      rcases isVal_cases he with he' | ⟨g, args, rfl, hc⟩
      · exact benignR_of_benign (eval_benign cx e he' (f + 1) env σ)
      · simp only [isCall, Bool.and_eq_true] at hc
        obtain ⟨hlk, hargs⟩ := hc
        rcases hfd : ft.lookup g with _ | fd
        · rw [hfd] at hlk; exact absurd hlk (by simp)
        rw [hfd] at hlk
        have harity : fd.arguments.length = args.length := by simpa using hlk
        obtain ⟨⟨i, dfn, hres, hdi, hdp, hdc⟩, hbody⟩ := htab g fd hfd
        rw [eval_call]
        have hb := evalList_benign cx args hargs f env σ
        rcases hl : Sem.evalListWith (Sem.eval cx f) env σ args with ⟨s2, env2, r2⟩
        rw [hl] at hb
        cases r2 with
        | ok vals =>
          have hvlen := evalList_length cx args f env σ s2 env2 vals hl
          simp only
          rw [hcx.2.1, hres cx.home hcx.2.2]
          simp only [hdi]
          rw [if_neg (by rw [hdp, hvlen, harity]; omega), if_neg (by rw [hdp, hvlen, harity]; simp)]
          rw [callFnWith_inl _ _ _ _ _ hdi]
          split
          · trivial
          · have hi : i < fns.size := by
              rcases Nat.lt_or_ge i fns.size with h' | h'
              · exact h'
              · rw [Array.getElem?_eq_none h'] at hdi; cases hdi
            have hcx' : CxH fns { fns := fns, home := i, outer := [] } := ⟨rfl, rfl, hi⟩
            obtain ⟨ihx', _⟩ := ih _ hcx'
            have hbd := execList_benignR (ex := Sem.exec { fns := fns, home := i, outer := [] } f) dfn.cards
              (fun c hc env σ => ihx' c (okCard_block (by rw [hdc]; exact hbody) c hc) env σ)
              [(Sem.bindArgs { s2 with calls := s2.calls + 1 } dfn.params vals).2]
              (Sem.bindArgs { s2 with calls := s2.calls + 1 } dfn.params vals).1
            unfold runBody
            rcases hbr : Sem.execListWith (Sem.exec { fns := fns, home := i, outer := [] } f)
              [(Sem.bindArgs { s2 with calls := s2.calls + 1 } dfn.params vals).2]
              (Sem.bindArgs { s2 with calls := s2.calls + 1 } dfn.params vals).1 dfn.cards with ⟨s3, env3, r3⟩
            rw [hbr] at hbd
            cases r3 <;> first | trivial | exact hbd
        | _ => first | trivial | exact hb
    refine ⟨fun c hc env σ => ?_, hval⟩
    -- the value of a declaration or an assignment
    have hset : ∀ n e, simpleName n = true → isVal ft e = true →
        benignR (Sem.exec cx (f + 1) env σ (.setVar n e)).2.2 := by
      intro n e hn he
      rw [exec_setVar cx hout f env σ e hn]
      have hv := ihv e he env σ
      rcases hce : Sem.eval cx f env σ e with ⟨σ1, env1, r1⟩
      rw [hce] at hv
      cases r1 with
      | ok x =>
        simp only
        rcases Sem.lookupEnv env1 n with _ | c
        · cases env1 <;> trivial
        · trivial
      | _ => first | trivial | exact hv
    have hblock : ∀ ty cs d L, isBlock ft d L cs = true → ∀ (env : Sem.Env) (σ : Sem.St),
        benignR (Sem.exec cx (f + 1) env σ (.composite ty cs)).2.2 := by
      intro ty cs d L hb env σ
      rw [exec_composite]
      exact execList_benignR cs (fun c hc env σ => ihx c (okCard_block hb c hc) env σ) env σ
    rcases hc with ⟨d, L, hs⟩ | ⟨n, e, rfl, hn, he⟩ | ⟨ty, cs, d, L, rfl, hb⟩
    · cases c with
      | comment t => trivial
      | composite t cs =>
        rw [exec_composite]
        simp only [isStmtS] at hs
        exact execList_benignR cs (fun c hc env σ => ihx c (okCard_stmts hs c hc) env σ) env σ
      | setVar n e =>
        simp only [isStmtS, Bool.and_eq_true] at hs
        exact hset n e hs.1.1 hs.2
      | setGlobalVar n e =>
        simp only [isStmtS, Bool.and_eq_true, Bool.not_eq_true'] at hs
        rw [exec_setGlobal]
        have hv := ihv e hs.2 env σ
        rcases hce : Sem.eval cx f env σ e with ⟨σ1, env1, r1⟩
        rw [hce] at hv
        cases r1 with
        | ok x => simp only [hs.1]; trivial
        | _ => first | trivial | exact hv
      | un k e =>
        cases k with
        | ret =>
          simp only [isStmtS, Bool.and_eq_true] at hs
          rw [exec_ret]
          have hv := ihv e hs.2 env σ
          rcases hce : Sem.eval cx f env σ e with ⟨σ1, env1, r1⟩
          rw [hce] at hv
          cases r1 <;> first | trivial | exact hv
        | _ => simp [isStmtS] at hs
      | tri k a b c =>
        cases k with
        | setProperty => simp [isStmtS] at hs
        | ifElse =>
          simp only [isStmtS, Bool.and_eq_true] at hs
          rw [exec_ifElse]
          have he := eval_benign cx a hs.1.1 f env σ
          rcases hce : Sem.eval cx f env σ a with ⟨σ1, env1, r1⟩
          rw [hce] at he
          cases r1 with
          | ok x =>
            simp only
            split
            · exact ihx b (Or.inl ⟨d, L, hs.1.2⟩) env1 σ1
            · exact ihx c (Or.inl ⟨d, L, hs.2⟩) env1 σ1
          | _ => first | trivial | exact he
      | bin k a b =>
        cases k with
        | ifTrue =>
          simp only [isStmtS, Bool.and_eq_true] at hs
          rw [exec_ifTrue]
          have he := eval_benign cx a hs.1 f env σ
          rcases hce : Sem.eval cx f env σ a with ⟨σ1, env1, r1⟩
          rw [hce] at he
          cases r1 with
          | ok x =>
            simp only
            split
            · exact ihx b (Or.inl ⟨d, L, hs.2⟩) env1 σ1
            · trivial
          | _ => first | trivial | exact he
        | ifFalse =>
          simp only [isStmtS, Bool.and_eq_true] at hs
          rw [exec_ifFalse]
          have he := eval_benign cx a hs.1 f env σ
          rcases hce : Sem.eval cx f env σ a with ⟨σ1, env1, r1⟩
          rw [hce] at he
          cases r1 with
          | ok x =>
            simp only
            split
            · trivial
            · exact ihx b (Or.inl ⟨d, L, hs.2⟩) env1 σ1
          | _ => first | trivial | exact he
        | «while» =>
          cases b with
          | composite ty cs =>
            have hs0 := hs
            simp only [isStmtS, Bool.and_eq_true] at hs
            rw [exec_while]
            have he := eval_benign cx a hs.1 f env σ
            rcases hce : Sem.eval cx f env σ a with ⟨σ1, env1, r1⟩
            rw [hce] at he
            cases r1 with
            | ok x =>
              simp only
              split
              · have hb := ihx (.composite ty cs) (Or.inr (Or.inr ⟨ty, cs, _, _, rfl, hs.2⟩)) ([] :: env1) σ1
                rcases hc2 : Sem.exec cx f ([] :: env1) σ1 (.composite ty cs) with ⟨σ2, env2, r2⟩
                rw [hc2] at hb
                cases r2 with
                | ok u => cases u; exact ihx _ (Or.inl ⟨d, L, hs0⟩) env1 σ2
                | _ => first | trivial | exact hb
              · trivial
            | _ => first | trivial | exact he
          | _ => simp [isStmtS] at hs
        | _ => simp [isStmtS] at hs
      | «repeat» i n b =>
        cases b with
        | composite ty cs =>
          simp only [isStmtS, Bool.and_eq_true] at hs
          rw [exec_repeat]
          have he := eval_benign cx n hs.1.1.2 f env σ
          rcases hce : Sem.eval cx f env σ n with ⟨σ1, env1, r1⟩
          rw [hce] at he
          cases r1 with
          | ok nv =>
            simp only
            have hl := repeatLoop_benignR (body := fun scope s => Sem.exec cx f (scope :: env1) s (.composite ty cs))
              (fun scope s => ihx (.composite ty cs) (Or.inr (Or.inr ⟨ty, cs, _, _, rfl, hs.2⟩)) (scope :: env1) s)
              i nv f 0 σ1
            rcases hc2 : Sem.repeatLoop (fun scope s => Sem.exec cx f (scope :: env1) s (.composite ty cs)) i nv f 0 σ1
              with ⟨σ2, r2⟩
            rw [hc2] at hl
            exact hl
          | _ => first | trivial | exact he
        | _ => simp [isStmtS] at hs
      | _ => simp [isStmtS] at hs
    · exact hset n e hn he
    · exact hblock ty cs d L hb env σ

/-! ## the function table of the reference semantics -/

/-- the function table `Sem.run` works with -/
def semFns (m std : Module) : Array Sem.FnDef :=
  (Sem.flattenFns (Module.mk (m.submodules ++ [("std", std)]) m.functions m.imports) []).toArray

/-- the context in which `Sem.run` evaluates `main` (the function with index `mi`) -/
def semCtx (m std : Module) (mi : Nat) : Sem.Ctx := { fns := semFns m std, home := mi, outer := [] }

theorem semFns_eq (m std : Module) :
    ∃ imports rest, semFns m std = (m.functions.map (mkFn imports) ++ rest).toArray := by
  unfold semFns
  simp only [Sem.flattenFns]
  exact ⟨_, _, rfl⟩

theorem sem_run_ctx {m std : Module} {mi : Nat} {nf : String × Func}
    (hi : m.functions.findIdx? (fun p => p.1 == "main") = some mi) (hf : m.functions[mi]? = some nf) (fuel : Nat) :
    Sem.run m std fuel = render (Sem.execList (semCtx m std mi) fuel [[]] {} nf.2.cards) := by
  have hlt : mi < m.functions.length := by
    rcases Nat.lt_or_ge mi m.functions.length with h' | h'
    · exact h'
    · rw [List.getElem?_eq_none h'] at hf; cases hf
  obtain ⟨imports, rest, hfl⟩ := semFns_eq m std
  have hidx : (semFns m std).findIdx? (fun f => f.fullName == "main") = some mi := by
    rw [hfl, List.findIdx?_toArray, List.findIdx?_append, List.findIdx?_map]
    have : ((fun (f : Sem.FnDef) => f.fullName == "main") ∘ mkFn imports) = fun p => p.1 == "main" := by
      funext p
      simp only [Function.comp, mkFn, joinNs_nil]
    rw [this, hi]
    rfl
  have hget : (semFns m std)[mi]! = mkFn imports nf := by
    rw [getElem!_def, hfl]
    simp only [List.getElem?_toArray]
    rw [List.getElem?_append_left (by simpa using hlt), List.getElem?_map, hf]
    rfl
  unfold Sem.run
  have e : (Sem.flattenFns (Module.mk (m.submodules ++ [("std", std)]) m.functions m.imports) []).toArray = semFns m std := rfl
  simp only [e, hidx, hget]
  rfl

/-- the functions of the root module in the table of the reference semantics -/
theorem semFns_root {m std : Module} (hpw : (m.functions.map (·.1)).Pairwise (· ≠ ·)) {j : Nat} {q : String × Func}
    (hq : m.functions[j]? = some q) :
    ∃ d, (semFns m std)[j]? = some d ∧ d.params = q.2.arguments ∧ d.cards = q.2.cards ∧
      ∀ home, home < (semFns m std).size → Sem.resolve (semFns m std) home q.1 = some j := by
  have hlt : j < m.functions.length := by
    rcases Nat.lt_or_ge j m.functions.length with h' | h'
    · exact h'
    · rw [List.getElem?_eq_none h'] at hq; cases hq
  obtain ⟨imports, rest, hfl⟩ := semFns_eq m std
  have hget : (semFns m std)[j]? = some (mkFn imports q) := by
    rw [hfl]
    simp only [List.getElem?_toArray]
    rw [List.getElem?_append_left (by simpa using hlt), List.getElem?_map, hq]
    rfl
  have hfind : Sem.findFn (semFns m std) q.1 = some j := by
    unfold Sem.findFn
    rw [hfl, List.findIdx?_toArray, List.findIdx?_append, List.findIdx?_map]
    have : ((fun (f : Sem.FnDef) => f.fullName == q.1) ∘ mkFn imports) = fun p => p.1 == q.1 := by
      funext p
      simp only [Function.comp, mkFn, joinNs_nil]
    rw [this]
    have hidx : m.functions.findIdx? (fun p => p.1 == q.1) = some j := by
      rw [List.findIdx?_eq_some_iff_getElem]
      refine ⟨hlt, ?_, fun k hk => ?_⟩
      · have : m.functions[j] = q := by
          rw [List.getElem?_eq_getElem hlt] at hq; exact Option.some.inj hq
        rw [this]; simp
      · have hp := List.pairwise_iff_getElem.1 hpw k j (by simp; omega) (by simpa using hlt) hk
        simp only [List.getElem_map] at hp
        have : m.functions[j] = q := by
          rw [List.getElem?_eq_getElem hlt] at hq; exact Option.some.inj hq
        rw [this] at hp
        simpa using hp
    rw [hidx]
    rfl
  refine ⟨mkFn imports q, hget, rfl, rfl, fun home hh => ?_⟩
  unfold Sem.resolve
  rw [Array.getElem?_eq_getElem hh]
  simp only [hfind, Option.orElse_some]

/-! ## fragment F5 -/

/-- the features of F5 for the module `m`: `Repeat`, `Return`, and calls of the functions of the root
    module other than `main` -/
def ft5 (m : Module) : Feat :=
  { rep := true, ret := true, fns := m.functions.filter (fun p => p.1 != "main") }

/-- a function that may be called: its cards form a block in the scope of its parameters -/
def fnOk (ft : Feat) (fd : Func) : Bool :=
  isBlock ft 1 (argCtx fd) fd.cards && decide (fd.arguments.length ≤ 255)

/-- **Fragment F5** = F4 plus static calls (as the value of `SetVar`, `SetGlobalVar`, `Return`) of the
    functions of the root module other than `main`, with as many arguments (expressions) as the callee
    has parameters, and `Return` anywhere in the functions (also in `main`, where the reference
    semantics does not yield `ok`) -/
def InF5 (m : Module) : Bool :=
  match mainFn m with
  | some f => f.arguments.isEmpty && isBlock (ft5 m) 1 [] f.cards && (ft5 m).fns.all (fun p => fnOk (ft5 m) p.2)
  | none => false

/-- the globals assigned by `main` and by the functions that may be called -/
def allNames (m : Module) : List String :=
  snamess (mainCards m) ++ (ft5 m).fns.flatMap (fun p => snamess p.2.cards)

/-- the value-stack slots a frame of the program needs at most -/
def frameNeed (m : Module) : Nat :=
  ((ft5 m).fns.map (fun p => p.2.arguments.length + bdepthS p.2.cards + 1)).foldl max (bdepthS (mainCards m))

/-- the number of calls of script functions the reference execution makes -/
def semCalls (m std : Module) (fuel : Nat) : Nat :=
  match m.functions.findIdx? (fun p => p.1 == "main") with
  | some mi => (Sem.execList (semCtx m std mi) fuel [[]] {} (mainCards m)).1.calls
  | none => 0

theorem foldl_max_ge (l : List Nat) (a : Nat) : a ≤ l.foldl max a ∧ ∀ x ∈ l, x ≤ l.foldl max a := by
  induction l generalizing a with
  | nil => exact ⟨Nat.le_refl _, fun x hx => by cases hx⟩
  | cons y l ih =>
    simp only [List.foldl_cons]
    obtain ⟨h1, h2⟩ := ih (max a y)
    refine ⟨by omega, fun x hx => ?_⟩
    rcases List.mem_cons.1 hx with rfl | hx
    · omega
    · exact h2 x hx

theorem render_okR {x : Sem.St × Sem.Env × Sem.Res Unit} (hb : benignR x.2.2) (h : (render x).result = "ok") :
    x.2.2 = .ok () := by
  obtain ⟨s, env, r⟩ := x
  cases r with
  | ok u => cases u; rfl
  | unspecified w => exact absurd h (unspecified_ne_ok w)
  | outOfFuel =>
    have : ("unspecified:out of fuel" : String) ≠ "ok" := by decide
    exact absurd h this
  | ret _ =>
    have : ("unspecified:return from main" : String) ≠ "ok" := by decide
    exact absurd h this
  | exit | err _ => exact absurd hb id

theorem inF5_main {m : Module} (h : InF5 m = true) :
    ∃ mi nf, m.functions.findIdx? (fun p => p.1 == "main") = some mi ∧ m.functions[mi]? = some nf ∧
      nf.2.arguments = [] ∧ isBlock (ft5 m) 1 [] nf.2.cards = true ∧ mainCards m = nf.2.cards ∧
      ∀ q ∈ (ft5 m).fns, isBlock (ft5 m) 1 (argCtx q.2) q.2.cards = true ∧ q.2.arguments.length ≤ 255 := by
  unfold InF5 at h
  rcases hm : mainFn m with _ | f
  · rw [hm] at h; cases h
  · rw [hm] at h
    simp only [Bool.and_eq_true, List.isEmpty_iff, List.all_eq_true] at h
    obtain ⟨mi, nf, hi, hf, rfl⟩ := mainFn_some hm
    refine ⟨mi, nf, hi, hf, h.1.1, h.1.2, by unfold mainCards; rw [hm], fun q hq => ?_⟩
    have := h.2 q hq
    simp only [fnOk, Bool.and_eq_true, decide_eq_true_eq] at this
    exact this

/-- the functions that may be called are functions of the root module -/
theorem ft5_mem {m : Module} : ∀ g fd, (ft5 m).lookup g = some fd →
    ∃ j : Nat, m.functions[j]? = some (g, fd) ∧ (g, fd) ∈ (ft5 m).fns := by
  intro g fd hl
  unfold Feat.lookup at hl
  rcases hfind : (ft5 m).fns.find? (fun p => p.1 == g) with _ | q
  · rw [hfind] at hl; cases hl
  · rw [hfind] at hl
    simp only [Option.map_some, Option.some.injEq] at hl
    have hq := List.mem_of_find?_eq_some hfind
    have hqg : q.1 = g := by simpa using List.find?_some hfind
    have hq' := hq
    simp only [ft5, List.mem_filter] at hq'
    obtain ⟨j, hj, hjq⟩ := List.getElem_of_mem hq'.1
    have : q = (g, fd) := by rw [← hqg, ← hl]
    rw [this] at hjq hq
    exact ⟨j, by rw [List.getElem?_eq_getElem hj, hjq], hq⟩

/-- the reference semantics resolves the calls of F5 to the functions of the root module -/
theorem semTable_F5 {m std : Module} (hfrag : InF5 m = true) (hpw : (m.functions.map (·.1)).Pairwise (· ≠ ·)) :
    SemTable (ft5 m) (semFns m std) := by
  obtain ⟨mi, nf, hi, hf, hargs, hst, hcards, hfn⟩ := inF5_main hfrag
  intro g fd hl
  obtain ⟨j, hj, hq⟩ := ft5_mem g fd hl
  obtain ⟨d, h1, h2, h3, h4⟩ := semFns_root (std := std) hpw hj
  exact ⟨⟨j, d, h4, h1, h2, h3⟩, (hfn _ hq).1⟩

theorem semCtx_ok {m std : Module} {mi : Nat} (hmilt : mi < m.functions.length) : CxH (semFns m std) (semCtx m std mi) := by
  refine ⟨rfl, rfl, ?_⟩
  obtain ⟨imports, rest, hfl⟩ := semFns_eq m std
  show mi < (semFns m std).size
  rw [hfl]; simp; omega

/-- **C01 for fragment F5 (static calls, recursion, `Return` anywhere).** If the reference semantics
    finishes `main` with `ok`, the compiled program finishes without an error with any instruction
    budget from `budget` on, with the same log and the same values of the globals assigned by `main`
    and the functions it may call. `semCalls` is the number of calls the reference execution makes:
    the call stack must hold one frame per call, the value stack one frame (`frameNeed` slots) per
    call, and the heap one function object. -/
theorem compile_correct_F5 (m std : Module) (limit fuel : Nat) (cfg : Config) (p : Program)
    (hfrag : InF5 m = true) (hnames : handlesDistinct (allNames m) = true)
    (hlab : LabelsFunctional (fnHandles m std limit) (rawLabels m std limit))
    (hc : compile m std limit = .ok p)
    (hB : p.bytecode.size < 4294967296) (hV : p.varIds.length < 4294967296)
    (hcalls : semCalls m std fuel + 1 ≤ cfg.callStackSize)
    (hstack : (semCalls m std fuel + 1) * frameNeed m < cfg.stackSize)
    (hmem : 0 < semCalls m std fuel → Heap.objCharge ≤ cfg.memLimit)
    (hsem : (Sem.run m std fuel).result = "ok") :
    ∃ budget, ∀ maxInstr, budget ≤ maxInstr →
      Agree p (allNames m) (Vm.run (Prog.ofProgram p) maxInstr (VmState.fresh cfg)) (Sem.run m std fuel) := by
  obtain ⟨mi, nf, hi, hf, hargs, hst, hcards, hfn⟩ := inF5_main hfrag
  have hinj := hinj_of_handlesDistinct hnames
  obtain ⟨J, ⟨mainEnd, hcode, hpops, hexit, hend⟩, hFinj, hpw, hfcode⟩ :=
    compile_allS (ft := ft5 m) (repX_all _) hc hi hf hargs hst rfl (fun q hq => (hfn q hq).1) hlab hB hV
  have hrun := sem_run_ctx (std := std) hi hf fuel
  have hmilt : mi < m.functions.length := by
    rcases Nat.lt_or_ge mi m.functions.length with h' | h'
    · exact h'
    · rw [List.getElem?_eq_none h'] at hf; cases hf
  have hcx : CxH (semFns m std) (semCtx m std mi) := by
    refine ⟨rfl, rfl, ?_⟩
    obtain ⟨imports, rest, hfl⟩ := semFns_eq m std
    show mi < (semFns m std).size
    rw [hfl]; simp; omega
  -- the functions that may be called, in the reference semantics
  have hmemfn := ft5_mem (m := m)
  have hsemtab : SemTable (ft5 m) (semFns m std) := semTable_F5 hfrag hpw
  -- the reference execution
  rw [hrun] at hsem ⊢
  have hben : benignR (Sem.execList (semCtx m std mi) fuel [[]] {} nf.2.cards).2.2 :=
    execList_benignR _ (fun c hc env σ =>
      (exec_benignR (ft5 m) (semFns m std) hsemtab fuel _ hcx).1 c (okCard_block hst c hc) env σ) _ _
  have hok := render_okR hben hsem
  have hC : semCalls m std fuel = (Sem.execList (semCtx m std mi) fuel [[]] {} nf.2.cards).1.calls := by
    unfold semCalls; rw [hi, hcards]
  rcases hex : Sem.execList (semCtx m std mi) fuel [[]] {} nf.2.cards with ⟨σ', env', r⟩
  rw [hex] at hok hC hsem
  simp only at hok hC
  subst hok
  -- the table of the functions
  have htab : ∀ g fd, (ft5 m).lookup g = some fd →
      FnEntry (Prog.ofProgram p) p.varIds J (· ∈ allNames m) (ft5 m) (frameNeed m) (semFns m std) g fd := by
    intro g fd hl
    obtain ⟨j, hj, hq⟩ := hmemfn g fd hl
    obtain ⟨hd, pos, f, e1, e2, hlook, hlabel, m', c1, c2, c3, c4, c5⟩ := hfcode g fd hl
    have hctx : irCtx f = argCtx fd := by unfold irCtx argCtx; rw [e1]
    rw [hctx, e2] at c1 c2 c3 c4 c5
    refine ⟨(hsemtab g fd hl).1, (hfn _ hq).1, fun n hn => ?_, ?_, by have := (hfn _ hq).2; simp only at this; omega,
      hd, pos, m', hlook, hlabel, c1, c2, c3, c4, c5⟩
    · unfold allNames
      exact List.mem_append_right _ (List.mem_flatMap.2 ⟨(g, fd), hq, hn⟩)
    · unfold frameNeed
      exact (foldl_max_ge _ _).2 _ (List.mem_map.2 ⟨(g, fd), hq, rfl⟩)
  have hall := allSim (P := Prog.ofProgram p) (F := p.varIds) (J := J) (N := (· ∈ allNames m)) (ft := ft5 m)
    (C := semCalls m std fuel) (W := frameNeed m) hFinj hinj (semFns m std) htab fuel
  have hNmain : ∀ n ∈ snamess nf.2.cards, n ∈ allNames m := fun n hn => by
    unfold allNames; rw [hcards]; exact List.mem_append_left _ hn
  obtain ⟨new, hctx, _, hσ, _, hlr', n, hn, hsim⟩ := block_simS (P := Prog.ofProgram p) (F := p.varIds) (J := J)
    (N := (· ∈ allNames m)) (C := semCalls m std fuel) (W := frameNeed m) (cx := semCtx m std mi) rfl
    (hall fuel (Nat.le_refl _) _ hcx).1 (fun g hg => (hall g (Nat.le_of_lt hg) _ hcx).2.2) 1 nf.2.cards [] [[]]
    hst lookRel_empty {} σ' env' 0 mainEnd hex hcode
    (Nat.le_trans (Nat.le_add_right _ _) (Nat.le_of_lt hend)) hNmain srel_empty
  have hk : (baseOf ([] ++ new) σ').length = (blockCtx 1 [] nf.2.cards).length := by
    have hctx' : ctxOf ([] ++ new) = blockCtx 1 [] nf.2.cards := hctx
    rw [baseOf_length, ← hctx']; simp [ctxOf]
  have hW : bdepthS nf.2.cards ≤ frameNeed m := by
    unfold frameNeed; rw [hcards]; exact (foldl_max_ge _ _).1
  refine ⟨n + (blockCtx 1 [] nf.2.cards).length + 2, fun maxInstr hmax => ?_⟩
  obtain ⟨vsK, hr, hstK, hsameK, hgK⟩ := hsim (startState cfg maxInstr) cfg.stackSize [] [] (by rw [hC]; exact Nat.le_refl _)
    (by rw [List.append_nil]; exact stackIs_new _) (by show 0 + _ ≤ _; omega) (grel_empty _ _)
    ⟨⟨_, rfl, rfl, rfl⟩, fun _ h => (by cases h), rfl, fun _ h => (by cases h), rfl, rfl, fun _ h => (by cases h),
      by show 0 + 1 + (semCalls m std fuel - 0) ≤ cfg.callStackSize; omega,
      by show 0 + (semCalls m std fuel - 0 + 1) * _ < _; simpa using hstack,
      fun h => hmem h⟩
  rw [List.append_nil] at hstK
  obtain ⟨vsP, hrP, hstP, hsameP, hgP⟩ := reach_pops (P := Prog.ofProgram p) (baseOf ([] ++ new) σ') mainEnd vsK
    (fun j hj => hpops j (by rw [← hk]; exact hj)) (by rw [hk]; exact Nat.le_of_lt hend) hstK
  rw [hk] at hrP
  rw [vm_run_of_reach (by omega) (hr.trans hrP rfl) hexit hend (by omega)]
  have hlog : vsP.hostLog = [] := by
    have e : vsP.hostLog = vsK.hostLog := by unfold SameRest at hsameP; rw [hsameP]
    rw [e, hsameK.log]; rfl
  have hσlog : σ'.log = [] := by rw [hσ.toSemFrame.eq]
  refine ⟨⟨rfl, hsem⟩, ?_, fun g hg => ?_⟩
  · show vsP.hostLog = σ'.log
    rw [hlog, hσlog]
  · exact globals_agree (vs := { tick vsP with frames := (tick vsP).frames.take 0, guards := (VmState.fresh cfg).guards })
      (by show GRel _ _ _ vsP.globals; rw [hgP]; exact hgK) hFinj hinj hg

/-! ## fuel independence on F5 -/

theorem evalList_fuel_mono (cx : Sem.Ctx) (f k : Nat) (hk : f ≤ k) : ∀ (es : List Card), isExprs es = true →
    ∀ (env : Sem.Env) (σ : Sem.St), ¬ isOOF (Sem.evalListWith (Sem.eval cx f) env σ es).2.2 →
      Sem.evalListWith (Sem.eval cx k) env σ es = Sem.evalListWith (Sem.eval cx f) env σ es
  | [], _, _, _, _ => rfl
  | e :: es, he, env, σ, h => by
    simp only [isExprs, Bool.and_eq_true] at he
    simp only [Sem.evalListWith] at h ⊢
    have ihe := eval_fuel_mono cx e he.1 f env σ
    rcases hc : Sem.eval cx f env σ e with ⟨σ1, env1, r1⟩
    rw [hc] at h ihe
    rw [ihe (by cases r1 <;> first | exact h | exact fun x => x) k hk]
    cases r1 with
    | ok v =>
      simp only at h ⊢
      have ih := evalList_fuel_mono cx f k hk es he.2 env1 σ1
      rcases hc2 : Sem.evalListWith (Sem.eval cx f) env1 σ1 es with ⟨σ2, env2, r2⟩
      rw [hc2] at h ih
      rw [ih (by cases r2 <;> first | exact h | exact fun x => x)]
    | _ => rfl

theorem eval_call_run (cx : Sem.Ctx) (f : Nat) (env : Sem.Env) (σ : Sem.St) (g : String) (args : List Card)
    {s2 : Sem.St} {env2 : Sem.Env} {vals : List Val} {i : Nat} {dfn : Sem.FnDef}
    (hl : Sem.evalListWith (Sem.eval cx f) env σ args = (s2, env2, .ok vals))
    (hres : Sem.resolve cx.fns cx.home g = some i) (hdi : cx.fns[i]? = some dfn)
    (hlen : vals.length = dfn.params.length) :
    Sem.eval cx (f + 1) env σ (.call g args) =
      if s2.calls ≥ Sem.callLimit then (s2, env2, .outOfFuel) else
      match Sem.execListWith (Sem.exec { fns := cx.fns, home := i, outer := [] } f)
          [(Sem.bindArgs { s2 with calls := s2.calls + 1 } dfn.params vals).2]
          (Sem.bindArgs { s2 with calls := s2.calls + 1 } dfn.params vals).1 dfn.cards with
      | (s, _, .ok ()) => (s, env2, .ok .nil)
      | (s, _, .ret v) => (s, env2, .ok v)
      | (s, _, .exit) => (s, env2, .exit)
      | (s, _, .err e) => (s, env2, .err e)
      | (s, _, .unspecified w) => (s, env2, .unspecified w)
      | (s, _, .outOfFuel) => (s, env2, .outOfFuel) := by
  rw [eval_call, hl]
  simp only [hres, hdi]
  rw [if_neg (by omega), if_neg (by simp [hlen]), callFnWith_inl _ _ _ _ _ hdi]
  split
  · rfl
  · unfold runBody
    rcases Sem.execListWith (Sem.exec { fns := cx.fns, home := i, outer := [] } f)
      [(Sem.bindArgs { s2 with calls := s2.calls + 1 } dfn.params vals).2]
      (Sem.bindArgs { s2 with calls := s2.calls + 1 } dfn.params vals).1 dfn.cards with ⟨s3, env3, r3⟩
    cases r3 with
    | ok u => cases u; rfl
    | _ => rfl

/-- on the fragment with calls more fuel does not change a result other than `out of fuel` -/
theorem exec_fuel_monoR (ft : Feat) (fns : Array Sem.FnDef) (htab : SemTable ft fns) :
    ∀ (f : Nat) (cx : Sem.Ctx), CxH fns cx →
      (∀ c, OkCard ft c → ∀ (env : Sem.Env) (σ : Sem.St), ¬ isOOF (Sem.exec cx f env σ c).2.2 →
        ∀ f', f ≤ f' → Sem.exec cx f' env σ c = Sem.exec cx f env σ c) ∧
      (∀ e, isVal ft e = true → ∀ (env : Sem.Env) (σ : Sem.St), ¬ isOOF (Sem.eval cx f env σ e).2.2 →
        ∀ f', f ≤ f' → Sem.eval cx f' env σ e = Sem.eval cx f env σ e) := by
  intro f
  induction f with
  | zero =>
    intro cx _
    exact ⟨fun c _ env σ h => by rw [exec_zero] at h; exact absurd trivial h,
      fun e _ env σ h => by rw [eval_zero] at h; exact absurd trivial h⟩
  | succ f ih =>
    intro cx hcx
    have hout := hcx.1
    obtain ⟨ihx, ihv⟩ := ih cx hcx
    have hval : ∀ e, isVal ft e = true → ∀ (env : Sem.Env) (σ : Sem.St), ¬ isOOF (Sem.eval cx (f + 1) env σ e).2.2 →
        ∀ f', f + 1 ≤ f' → Sem.eval cx f' env σ e = Sem.eval cx (f + 1) env σ e := by
      intro e he env σ h f' hf
      rcases isVal_cases he with he' | ⟨g, args, rfl, hc⟩
      · exact eval_fuel_mono cx e he' (f + 1) env σ h f' hf
      · obtain ⟨k, rfl⟩ : ∃ k, f' = k + 1 := ⟨f' - 1, by omega⟩
        have hk : f ≤ k := by omega
        simp only [isCall, Bool.and_eq_true] at hc
        obtain ⟨hlk, hargs⟩ := hc
        rcases hfd : ft.lookup g with _ | fd
        · rw [hfd] at hlk; exact absurd hlk (by simp)
        rw [hfd] at hlk
        have harity : fd.arguments.length = args.length := by simpa using hlk
        obtain ⟨⟨i, dfn, hres, hdi, hdp, hdc⟩, hbody⟩ := htab g fd hfd
        have hl0 := evalList_fuel_mono cx f k hk args hargs env σ
        have hoof : ¬ isOOF (Sem.evalListWith (Sem.eval cx f) env σ args).2.2 := by
          intro ho
          rw [eval_call] at h
          rcases hl : Sem.evalListWith (Sem.eval cx f) env σ args with ⟨s2, env2, r2⟩
          rw [hl] at h ho
          cases r2 <;> first | exact ho | exact h trivial
        have hl0 := hl0 hoof
        rcases hl : Sem.evalListWith (Sem.eval cx f) env σ args with ⟨s2, env2, r2⟩
        rw [hl] at hl0
        cases r2 with
        | ok vals =>
          have hvlen := evalList_length cx args f env σ s2 env2 vals hl
          have hi : i < fns.size := by
            rcases Nat.lt_or_ge i fns.size with h' | h'
            · exact h'
            · rw [Array.getElem?_eq_none h'] at hdi; cases hdi
          have hres' : Sem.resolve cx.fns cx.home g = some i := by rw [hcx.2.1]; exact hres cx.home hcx.2.2
          have hdi' : cx.fns[i]? = some dfn := by rw [hcx.2.1]; exact hdi
          have hlen : vals.length = dfn.params.length := by rw [hdp, hvlen, harity]
          rw [eval_call_run cx f env σ g args hl hres' hdi' hlen] at h ⊢
          rw [eval_call_run cx k env σ g args hl0 hres' hdi' hlen]
          split at h
          · exact absurd trivial h
          · rename_i hlim
            rw [if_neg hlim, if_neg hlim]
            have hcx' : CxH fns { fns := fns, home := i, outer := [] } := ⟨rfl, rfl, hi⟩
            obtain ⟨ihx', _⟩ := ih _ hcx'
            rw [hcx.2.1] at h ⊢
            have hbd := execList_fuel_mono (ex := Sem.exec { fns := fns, home := i, outer := [] } f)
              (ex' := Sem.exec { fns := fns, home := i, outer := [] } k) dfn.cards
              (fun c hc env σ hn => ihx' c (okCard_block (by rw [hdc]; exact hbody) c hc) env σ hn k hk)
              [(Sem.bindArgs { s2 with calls := s2.calls + 1 } dfn.params vals).2]
              (Sem.bindArgs { s2 with calls := s2.calls + 1 } dfn.params vals).1
            rcases hbr : Sem.execListWith (Sem.exec { fns := fns, home := i, outer := [] } f)
              [(Sem.bindArgs { s2 with calls := s2.calls + 1 } dfn.params vals).2]
              (Sem.bindArgs { s2 with calls := s2.calls + 1 } dfn.params vals).1 dfn.cards with ⟨s3, env3, r3⟩
            rw [hbr] at hbd h
            rw [hbd (by cases r3 <;> first | exact h | exact fun x => x)]
        | _ =>
          rw [eval_call, eval_call, hl, hl0]
    refine ⟨fun c hc env σ h f' hf => ?_, hval⟩
    obtain ⟨k, rfl⟩ : ∃ k, f' = k + 1 := ⟨f' - 1, by omega⟩
    have hk : f ≤ k := by omega
    have hset : ∀ n e, simpleName n = true → isVal ft e = true →
        ¬ isOOF (Sem.exec cx (f + 1) env σ (.setVar n e)).2.2 →
        Sem.exec cx (k + 1) env σ (.setVar n e) = Sem.exec cx (f + 1) env σ (.setVar n e) := by
      intro n e hn he h
      rw [exec_setVar cx hout f env σ e hn] at h ⊢
      rw [exec_setVar cx hout k env σ e hn]
      have ihe := ihv e he env σ
      rcases hce : Sem.eval cx f env σ e with ⟨σ1, env1, r1⟩
      rw [hce] at h ihe
      rw [ihe (by cases r1 <;> first | exact h | exact fun x => x) k hk]
    have hblock : ∀ ty cs d L, isBlock ft d L cs = true → ∀ (env : Sem.Env) (σ : Sem.St),
        ¬ isOOF (Sem.exec cx (f + 1) env σ (.composite ty cs)).2.2 →
        Sem.exec cx (k + 1) env σ (.composite ty cs) = Sem.exec cx (f + 1) env σ (.composite ty cs) := by
      intro ty cs d L hb env σ h
      rw [exec_composite] at h ⊢
      rw [exec_composite]
      exact execList_fuel_mono cs (fun c hc env σ hn => ihx c (okCard_block hb c hc) env σ hn k hk) env σ h
    rcases hc with ⟨d, L, hs⟩ | ⟨n, e, rfl, hn, he⟩ | ⟨ty, cs, d, L, rfl, hb⟩
    · cases c with
      | comment t => rfl
      | composite t cs =>
        rw [exec_composite] at h ⊢
        rw [exec_composite]
        simp only [isStmtS] at hs
        exact execList_fuel_mono cs (fun c hc env σ hn => ihx c (okCard_stmts hs c hc) env σ hn k hk) env σ h
      | setVar n e =>
        simp only [isStmtS, Bool.and_eq_true] at hs
        exact hset n e hs.1.1 hs.2 h
      | setGlobalVar n e =>
        simp only [isStmtS, Bool.and_eq_true, Bool.not_eq_true'] at hs
        rw [exec_setGlobal] at h ⊢
        rw [exec_setGlobal]
        have ihe := ihv e hs.2 env σ
        rcases hce : Sem.eval cx f env σ e with ⟨σ1, env1, r1⟩
        rw [hce] at h ihe
        rw [ihe (by cases r1 <;> first | exact h | exact fun x => x) k hk]
      | un kk e =>
        cases kk with
        | ret =>
          simp only [isStmtS, Bool.and_eq_true] at hs
          rw [exec_ret] at h ⊢
          rw [exec_ret]
          have ihe := ihv e hs.2 env σ
          rcases hce : Sem.eval cx f env σ e with ⟨σ1, env1, r1⟩
          rw [hce] at h ihe
          rw [ihe (by cases r1 <;> first | exact h | exact fun x => x) k hk]
        | _ => simp [isStmtS] at hs
      | tri kk a b c =>
        cases kk with
        | setProperty => simp [isStmtS] at hs
        | ifElse =>
          simp only [isStmtS, Bool.and_eq_true] at hs
          rw [exec_ifElse] at h ⊢
          rw [exec_ifElse]
          have ihe := eval_fuel_mono cx a hs.1.1 f env σ
          rcases hce : Sem.eval cx f env σ a with ⟨σ1, env1, r1⟩
          rw [hce] at h ihe
          rw [ihe (by cases r1 <;> first | exact h | exact fun x => x) k hk]
          cases r1 with
          | ok x =>
            simp only at h ⊢
            split at h
            · rename_i ht; simp only [if_pos ht]; exact ihx b (Or.inl ⟨d, L, hs.1.2⟩) env1 σ1 h k hk
            · rename_i ht; simp only [if_neg ht]; exact ihx c (Or.inl ⟨d, L, hs.2⟩) env1 σ1 h k hk
          | _ => rfl
      | bin kk a b =>
        cases kk with
        | ifTrue =>
          simp only [isStmtS, Bool.and_eq_true] at hs
          rw [exec_ifTrue] at h ⊢
          rw [exec_ifTrue]
          have ihe := eval_fuel_mono cx a hs.1 f env σ
          rcases hce : Sem.eval cx f env σ a with ⟨σ1, env1, r1⟩
          rw [hce] at h ihe
          rw [ihe (by cases r1 <;> first | exact h | exact fun x => x) k hk]
          cases r1 with
          | ok x =>
            simp only at h ⊢
            split at h
            · rename_i ht; simp only [if_pos ht]; exact ihx b (Or.inl ⟨d, L, hs.2⟩) env1 σ1 h k hk
            · rename_i ht; simp only [if_neg ht]
          | _ => rfl
        | ifFalse =>
          simp only [isStmtS, Bool.and_eq_true] at hs
          rw [exec_ifFalse] at h ⊢
          rw [exec_ifFalse]
          have ihe := eval_fuel_mono cx a hs.1 f env σ
          rcases hce : Sem.eval cx f env σ a with ⟨σ1, env1, r1⟩
          rw [hce] at h ihe
          rw [ihe (by cases r1 <;> first | exact h | exact fun x => x) k hk]
          cases r1 with
          | ok x =>
            simp only at h ⊢
            split at h
            · rename_i ht; simp only [if_pos ht]
            · rename_i ht; simp only [if_neg ht]; exact ihx b (Or.inl ⟨d, L, hs.2⟩) env1 σ1 h k hk
          | _ => rfl
        | «while» =>
          cases b with
          | composite ty cs =>
            have hs0 := hs
            simp only [isStmtS, Bool.and_eq_true] at hs
            rw [exec_while] at h ⊢
            rw [exec_while]
            have ihe := eval_fuel_mono cx a hs.1 f env σ
            rcases hce : Sem.eval cx f env σ a with ⟨σ1, env1, r1⟩
            rw [hce] at h ihe
            rw [ihe (by cases r1 <;> first | exact h | exact fun x => x) k hk]
            cases r1 with
            | ok x =>
              simp only at h ⊢
              split at h
              · rename_i ht
                simp only [if_pos ht]
                have ihb := ihx (.composite ty cs) (Or.inr (Or.inr ⟨ty, cs, _, _, rfl, hs.2⟩)) ([] :: env1) σ1
                rcases hc2 : Sem.exec cx f ([] :: env1) σ1 (.composite ty cs) with ⟨σ2, env2, r2⟩
                rw [hc2] at h ihb
                rw [ihb (by cases r2 <;> first | exact h | exact fun x => x) k hk]
                cases r2 with
                | ok u => cases u; simp only at h ⊢; exact ihx _ (Or.inl ⟨d, L, hs0⟩) env1 σ2 h k hk
                | _ => rfl
              · rename_i ht; simp only [if_neg ht]
            | _ => rfl
          | _ => simp [isStmtS] at hs
        | _ => simp [isStmtS] at hs
      | «repeat» i n b =>
        cases b with
        | composite ty cs =>
          simp only [isStmtS, Bool.and_eq_true] at hs
          rw [exec_repeat] at h ⊢
          rw [exec_repeat]
          have ihe := eval_fuel_mono cx n hs.1.1.2 f env σ
          rcases hce : Sem.eval cx f env σ n with ⟨σ1, env1, r1⟩
          rw [hce] at h ihe
          rw [ihe (by cases r1 <;> first | exact h | exact fun x => x) k hk]
          cases r1 with
          | ok nv =>
            simp only at h ⊢
            have hl := repeatLoop_fuel_mono (body := fun scope s => Sem.exec cx f (scope :: env1) s (.composite ty cs))
              (body' := fun scope s => Sem.exec cx k (scope :: env1) s (.composite ty cs))
              (fun scope s hn => ihx (.composite ty cs) (Or.inr (Or.inr ⟨ty, cs, _, _, rfl, hs.2⟩)) (scope :: env1) s hn k hk)
              i nv f 0 σ1
            rcases hc2 : Sem.repeatLoop (fun scope s => Sem.exec cx f (scope :: env1) s (.composite ty cs)) i nv f 0 σ1
              with ⟨σ2, r2⟩
            rw [hc2] at h hl
            rw [hl h k hk]
          | _ => rfl
        | _ => simp [isStmtS] at hs
      | _ => simp [isStmtS] at hs
    · exact hset n e hn he h
    · exact hblock ty cs d L hb env σ h

/-- **No error on F5**: the reference semantics never yields an error or an `Abort` (its outcome is `ok`, a
    `Return` from `main`, out of fuel or another `unspecified`); the names of the functions of the root
    module are distinct, as the compiler demands. -/
theorem sem_run_benign_F5 (m std : Module) (hfrag : InF5 m = true)
    (hpw : (m.functions.map (·.1)).Pairwise (· ≠ ·)) (fuel : Nat) :
    ∃ x, Sem.run m std fuel = render x ∧ benignR x.2.2 := by
  obtain ⟨mi, nf, hi, hf, hargs, hst, hcards, hfn⟩ := inF5_main hfrag
  have hmilt : mi < m.functions.length := by
    rcases Nat.lt_or_ge mi m.functions.length with h' | h'
    · exact h'
    · rw [List.getElem?_eq_none h'] at hf; cases hf
  exact ⟨_, sem_run_ctx (std := std) hi hf fuel,
    execList_benignR _ (fun c hc env σ =>
      (exec_benignR (ft5 m) (semFns m std) (semTable_F5 hfrag hpw) fuel _ (semCtx_ok hmilt)).1 c
        (okCard_block hst c hc) env σ) _ _⟩

/-- **Fuel independence on F5**: more fuel changes neither an outcome other than out of fuel nor the
    number of calls (the quantity the hypotheses of `compile_correct_F5` bound). -/
theorem sem_run_fuel_mono_F5 (m std : Module) (hfrag : InF5 m = true)
    (hpw : (m.functions.map (·.1)).Pairwise (· ≠ ·)) (f f' : Nat) (hle : f ≤ f')
    (h : (Sem.run m std f).result ≠ "unspecified:out of fuel") :
    Sem.run m std f' = Sem.run m std f ∧ semCalls m std f' = semCalls m std f := by
  obtain ⟨mi, nf, hi, hf, hargs, hst, hcards, hfn⟩ := inF5_main hfrag
  have hmilt : mi < m.functions.length := by
    rcases Nat.lt_or_ge mi m.functions.length with h' | h'
    · exact h'
    · rw [List.getElem?_eq_none h'] at hf; cases hf
  rw [sem_run_ctx (std := std) hi hf f] at h
  rw [sem_run_ctx (std := std) hi hf f', sem_run_ctx (std := std) hi hf f]
  have hn : ¬ isOOF (Sem.execList (semCtx m std mi) f [[]] {} nf.2.cards).2.2 := by
    intro hoof
    rcases hx : Sem.execList (semCtx m std mi) f [[]] {} nf.2.cards with ⟨σ1, env1, r1⟩
    rw [hx] at h hoof
    cases r1 <;> first | exact hoof | exact h rfl
  have : Sem.execList (semCtx m std mi) f' [[]] {} nf.2.cards = Sem.execList (semCtx m std mi) f [[]] {} nf.2.cards :=
    execList_fuel_mono nf.2.cards
      (fun c hc env σ hnc =>
        (exec_fuel_monoR (ft5 m) (semFns m std) (semTable_F5 hfrag hpw) f _ (semCtx_ok hmilt)).1 c
          (okCard_block hst c hc) env σ hnc f' hle) [[]] {} hn
  refine ⟨by rw [this], ?_⟩
  unfold semCalls
  rw [hi, hcards]
  simp only
  rw [this]

/-! ### an example: parameters, recursion, `Return` inside `Repeat` and `If`

  ```
  fn add1(a)  { return a + 1 }
  fn fact(i)  { if i < 1 { return 1 }; t = fact(i - 1); return t * i }
  fn find(a)  { repeat i a { if i == 3 { return i } }; return 99 }
  fn sub(a,i) { return a - i }
  main        { a = add1(1); out = a; out2 = fact(4); out3 = find(10); out4 = sub(5, 3) }
  ```
  `sub(5, 3)` is `-2` on both sides: the first supplied argument is bound to the LAST declared parameter. -/

def exAdd1 : Func := { arguments := ["a"], cards := [.un .ret (.bin .add (.readVar "a") (.scalarInt 1))] }
def exFact : Func := { arguments := ["i"], cards := [
    .bin .ifTrue (.bin .less (.readVar "i") (.scalarInt 1)) (.un .ret (.scalarInt 1)),
    .setVar "t" (.call "fact" [.bin .sub (.readVar "i") (.scalarInt 1)]),
    .un .ret (.bin .mul (.readVar "t") (.readVar "i"))] }
def exFind : Func := { arguments := ["a"], cards := [
    .repeat (some "i") (.readVar "a") (.composite "b" [
      .bin .ifTrue (.bin .equals (.readVar "i") (.scalarInt 3)) (.un .ret (.readVar "i"))]),
    .un .ret (.scalarInt 99)] }
def exSub : Func := { arguments := ["a", "i"], cards := [.un .ret (.bin .sub (.readVar "a") (.readVar "i"))] }
def exMain : Func := { arguments := [], cards := [
    .setVar "a" (.call "add1" [.scalarInt 1]),
    .setGlobalVar "out" (.readVar "a"),
    .setGlobalVar "out2" (.call "fact" [.scalarInt 4]),
    .setGlobalVar "out3" (.call "find" [.scalarInt 10]),
    .setGlobalVar "out4" (.call "sub" [.scalarInt 5, .scalarInt 3])] }
def exCalls : Module := Module.mk [] [("main", exMain), ("add1", exAdd1), ("fact", exFact), ("find", exFind), ("sub", exSub)] []
def exFt : Feat := { rep := true, ret := true, fns := [("add1", exAdd1), ("fact", exFact), ("find", exFind), ("sub", exSub)] }
theorem exFt_eq : ft5 exCalls = exFt := by rfl
theorem exL1 : exFt.lookup "add1" = some exAdd1 := by rfl
theorem exL2 : exFt.lookup "fact" = some exFact := by rfl
theorem exL3 : exFt.lookup "find" = some exFind := by rfl
theorem exL4 : exFt.lookup "sub" = some exSub := by rfl
set_option linter.unusedSimpArgs false
theorem exRet : exFt.ret = true := rfl
theorem exRep : exFt.rep = true := rfl
theorem exLi1 : lidx [("i", 1)] "t" = none := by decide
theorem exLi2 : lidx [] "a" = none := by decide
theorem exLi3 : lidx [("a", 1)] "a" = some 0 := by decide
theorem exOk1 : fnOk exFt exAdd1 = true := by
  have l1 : lidx [("a", 1)] "a" = some 0 := by decide
  simp [fnOk, argCtx, exAdd1, isBlock, declOf, isStmtS, isVal, isCall, isExprs, isExpr, isValOp,
    simpleName_a, simpleName_i, simpleName_t, optName, repCtx, exRet, exRep, exLi1, exLi2, exLi3, l1]
theorem exOk2 : fnOk exFt exFact = true := by
  simp [fnOk, argCtx, exFact, isBlock, declOf, isStmtS, isVal, isCall, isExprs, isExpr, isValOp, exL2,
    simpleName_a, simpleName_i, simpleName_t, optName, repCtx, exRet, exRep, exLi1, exLi2, exLi3]
theorem exOk3 : fnOk exFt exFind = true := by
  simp [fnOk, argCtx, exFind, isBlock, declOf, isStmtS, isVal, isCall, isExprs, isExpr, isValOp,
    simpleName_a, simpleName_i, simpleName_t, optName, repCtx, exRet, exRep, exLi1, exLi2, exLi3]
theorem exOk4 : fnOk exFt exSub = true := by
  simp [fnOk, argCtx, exSub, isBlock, declOf, isStmtS, isVal, isCall, isExprs, isExpr, isValOp,
    simpleName_a, simpleName_i, simpleName_t, optName, repCtx, exRet, exRep, exLi1, exLi2, exLi3]
theorem exOk0 : isBlock exFt 1 [] exMain.cards = true := by
  simp [exMain, isBlock, declOf, isStmtS, isVal, isCall, isExprs, isExpr, isValOp, exL1, exL2, exL3, exL4,
    simpleName_a, simpleName_i, simpleName_t, optName, repCtx, exRet, exRep, exLi1, exLi2, exLi3]
  exact ⟨rfl, rfl, rfl, rfl⟩

theorem exCalls_inF5 : InF5 exCalls = true := by
  have hm : mainFn exCalls = some exMain := by rfl
  unfold InF5
  rw [hm, exFt_eq]
  have hfns : exFt.fns = [("add1", exAdd1), ("fact", exFact), ("find", exFind), ("sub", exSub)] := rfl
  have ha : exMain.arguments = [] := rfl
  simp [hfns, ha, exOk0, exOk1, exOk2, exOk3, exOk4]

/- expected: "SEM: ok [(out, i2), (out2, i24), (out3, i3), (out4, i-2)] | VM: ok [i2, i24, i3, i-2]" -/
#eval showBoth exCalls

/-- the remaining hypotheses of `compile_correct_F5` for `exCalls` with the default configuration
    (by evaluation: the hashes and `String.splitOn` do not reduce in the kernel) -/
def exCallsHyps : String :=
  let cfg : Config := {}
  let lab := rawLabels exCalls stdE 128
  let fn := lab.all (fun q => lab.all (fun q' => !(fnHandles exCalls stdE 128).contains q'.1 || q.1 != q'.1 || q.2 == q'.2))
  let k := semCalls exCalls stdE 1000
  match compile exCalls stdE 128 with
  | .ok p =>
    s!"handlesDistinct={handlesDistinct (allNames exCalls)} labelsFunctional={fn} " ++
    s!"bytes={p.bytecode.size} vars={p.varIds.length} semCalls={k} frameNeed={frameNeed exCalls} " ++
    s!"calls={decide (k + 1 ≤ cfg.callStackSize)} stack={decide ((k + 1) * frameNeed exCalls < cfg.stackSize)} " ++
    s!"mem={decide (Heap.objCharge ≤ cfg.memLimit)}"
  | .error _ => "compile error"

#eval exCallsHyps

/-! ### the capacity hypotheses are needed

  `d(i) = if i < 1 { return 0 }; t = d(i - 1); return t + 1` called with 300: the reference semantics
  (call limit `Sem.callLimit`) finishes, the VM overflows its call stack (default `callStackSize`). -/

def exDeep (n : Int64) : Module := Module.mk [] [
  ("main", { arguments := [], cards := [.setGlobalVar "out" (.call "d" [.scalarInt n])] }),
  ("d", { arguments := ["i"], cards := [
    .bin .ifTrue (.bin .less (.readVar "i") (.scalarInt 1)) (.un .ret (.scalarInt 0)),
    .setVar "t" (.call "d" [.bin .sub (.readVar "i") (.scalarInt 1)]),
    .un .ret (.bin .add (.readVar "t") (.scalarInt 1))] })] []

/- expected: "SEM: ok [(out, i50)] | VM: ok [i50]" and "SEM: ok [(out, i300)] | VM: err:Stackoverflow []" -/
#eval showBoth (exDeep 50)
#eval showBoth (exDeep 300)
/- expected: (256, 256, 301): `semCalls + 1 ≤ callStackSize` fails for `exDeep 300` -/
#eval ((({} : Vm.Config).callStackSize), (({} : Vm.Config).stackSize), semCalls (exDeep 300) stdE 1000)

end Cao.C01
