import CaoProofs.Props.C10b
import CaoProofs.Props.C15b
import CaoProofs.Props.C04
import CaoProofs.Props.C08b
import CaoProofs.Props.C06
import CaoProofs.Props.C04b
import CaoProofs.Props.C15c
import CaoProofs.Props.C08c
/-!
# All — the property files that are composed for compiled programs, imported together

This file only checks that the proof libraries are co-importable: `C10`/`C10b` (through the
`Lemmas/Wf*.lean` family, now in namespace `Cao.Compiler.Wf`), `C15`/`C15b` (through
`Lemmas/TraceLemmas.lean`), `C04`, `C08`/`C08b` (through `Lemmas/ResolveLemmas.lean`,
`Lemmas/CallSiteLemmas.lean`) and `C06`.
-/

-- the same short names now live side by side in different namespaces
example := @Cao.Compiler.Pre
example := @Cao.Compiler.Wf.Pre
example := @Cao.Compiler.fail_bind_run
example := @Cao.Compiler.Wf.fail_bind_run
example := @Cao.Compiler.withStd
example := @Cao.C10b.compile_wf
example := @Cao.C15b.run_error_located
example := @Cao.C04.run_no_panic_partial
example := @Cao.C08b.compiled_call_card_enters_body
example := @Cao.C06.closure_card_dispatch
example := @Cao.C04b.compiled_run_no_panic
example := @Cao.C15c.compiled_error_located
example := @Cao.C08c.compiled_call_card_enters_body'
example := @Cao.C08c.compiled_closure_dispatch
