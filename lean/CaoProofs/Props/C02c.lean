import CaoProofs.Props.C02b
/-!
# C02c — schedule independence needs only the upvalue checks

`Props/C02b.lean` proves schedule independence for runs in which no check of the *checked interpreter* fires
(`SafeRun`); the check `stepOkB` has three components: `frameOkB` (at `ClearStack`/`Return`: the running frame
starts at or below the stack height), `upvOkB` (at `Return`/`CloseUpvalue`) and `readUpvOkB` (at
`ReadUpvalue`).  The first one dates from the time when `clear_until i` *set* the stack pointer to `i` and so
could move it upwards, exposing stale slots.  `VStack.clearUntil` now only truncates
(`count := if i < count then i else count`), so both machines cut their stacks at `min i count` and nothing
stale is exposed: **`frameOkB` is not needed**.

* `sim_clearStack'`, `sim_ret'`: the simulation lemmas of the two instructions without `FrameOk`
  (the general forms `stackSame_clearUntil`, `mem_clearUntil_contents'` of the two stack lemmas they use);
* `step_sim'`: every instruction under the weaker condition `StepOk'` — by cases on the opcode: the two
  instructions above, every other instruction by `SchedFull.step_sim` (for them `StepOk'` is `StepOk`);
* `stepC'`/`execC'`/`runC'`: the checked interpreter with the weaker check `stepOkB'`; it is an instance of
  the generic `execG`/`runG` of `Lemmas/SchedLift.lean`, so `execG_sim`/`runG_sim` lift `stepC'_sim`;
* `SafeRun' p n s := runC' p n s = run p n s` (decidable), and **`safeRun_of_upvalue_checks`**: schedule
  independence (`C05b.ScheduleIndependent`) for runs that are safe in this weaker sense;
* `stepOkB'_of_stepOkB`: the weaker check passes whenever the stronger one does.

Nothing in `Lemmas/Sched*.lean` or `Props/C02b.lean` is changed.
-/
namespace Cao.C02c
open Cao Cao.Vm Cao.Gc Cao.C02 Cao.C05 Cao.RunInv Cao.SchedFull Cao.Native Cao.C02b
set_option linter.unusedVariables false
set_option linter.unusedSectionVars false

/-! ## 1. `clear_until` on related stacks, without a bound on the index -/

/-- `StackSame.clearUntil` without the hypothesis `i ≤ a.count` (it only truncates) -/
theorem stackSame_clearUntil {a b : VStack Val} (h : StackSame a b) (i : Nat) :
    StackSame (a.clearUntil i).1 (b.clearUntil i).1 ∧ (b.clearUntil i).2 = (a.clearUntil i).2 := by
  unfold VStack.clearUntil
  exact ⟨⟨by dsimp only; rw [h.count], h.cap,
    fun j hj => h.slots j (by dsimp only at hj; split at hj <;> omega)⟩, h.last⟩

/-- `mem_clearUntil_contents` without the hypothesis `k ≤ st.count` -/
theorem mem_clearUntil_contents' {st : VStack Val} {k : Nat} {v : Val}
    (h : v ∈ (st.clearUntil k).1.contents) : v ∈ st.contents :=
  mem_contents_sub (st := st) (st' := (st.clearUntil k).1)
    (by unfold VStack.clearUntil; dsimp only; split <;> omega) (fun i _ => rfl) h

/-! ## 2. the two instructions -/

section ops
variable {c : Cfg} {K : Nat → Prop} {s t : VmState}

/-- `ClearStack`, wherever the running frame starts -/
theorem sim_clearStack' (ip : Nat) (h : Agree c K s t) :
    W2 c (cClearStack ip) (cClearStack ip) (QStep c) s t := by
  unfold cClearStack
  refine w2_bind (w2_curFrame h fun f hf _ => ?_)
  w2h
  refine w2_bind (w2_modify ?_)
  have hA := h.stack_change (h.stack.map (fun x => (x.clearUntil f.stackOffset).1)
      (stackSame_clearUntil h.stack.1 _).1) (fun v hv => h.vk_stack (mem_clearUntil_contents' hv))
  exact w2_done hA _

/-- `Return`, wherever the running frame starts (the upvalue condition stays) -/
theorem sim_ret' (h : Agree c K s t) (hok : UpvOk s) : W2 c cRet cRet (QStep c) s t := by
  unfold cRet
  refine w2_get' ?_
  rw [h.frames]
  cases hl : s.frames.getLast? with
  | none => exact w2_throwE h.rel
  | some fr =>
    dsimp only
    refine w2_bind (w2_set ?_)
    have hA1 : Agree c K { s with frames := s.frames.dropLast } { t with frames := s.frames.dropLast } :=
      h.reroot rfl rfl rfl rfl h.stack h.globals rfl h.openUpvalues h.guards h.remaining h.dispatches
        h.hostLog h.frameCap
        (rootsK_of (fun v hv => h.vk_stack hv) (fun v hv => h.vk_global hv)
          (fun f hf a ha => h.k_frame (List.dropLast_subset _ hf) ha)
          (fun a ha => h.k_upv ha) (fun a ha => h.k_guard ha))
    refine w2_bind (w2_closeUpvalues _ hA1 hok fun s2 t2 est efr hA2 => ?_)
    refine w2_get' ?_
    have e := (stackSame_clearUntil hA2.stack.1 fr.stackOffset).2
    have hv : VK K (s2.stack.clearUntil fr.stackOffset).2 := hA2.vk_last
    have hA3 := hA2.stack_change (hA2.stack.map (fun x => (x.clearUntil fr.stackOffset).1)
      (stackSame_clearUntil hA2.stack.1 _).1) (fun v hv => hA2.vk_stack (mem_clearUntil_contents' hv))
    rcases hs : s2.stack.clearUntil fr.stackOffset with ⟨st, v⟩
    rcases ht : t2.stack.clearUntil fr.stackOffset with ⟨st', v'⟩
    rw [hs, ht] at e hA3
    rw [hs] at hv
    dsimp only at e hv hA3 ⊢
    subst e
    refine w2_bind (w2_set ?_)
    generalize ({ s2 with stack := st } : VmState) = s3 at hA3 ⊢
    generalize ({ t2 with stack := st' } : VmState) = t3 at hA3 ⊢
    refine w2_get' ?_
    rw [hA3.frames]
    cases hl2 : s3.frames.getLast? with
    | none => exact w2_throwE hA3.rel
    | some caller =>
      dsimp only
      refine w2_bind (w2_push' _ hA3 hv fun s4 t4 _ hA4 => ?_)
      exact w2_done hA4 _

end ops

/-! ## 3. every instruction under the weaker condition -/

/-- `StepOk` without its `FrameOk` component: only the open upvalues matter -/
def StepOk' (p : Prog) (src : Nat) (s : VmState) : Prop :=
  ((p.bytecode.getD src 0 = Compiler.op.ret ∨ p.bytecode.getD src 0 = Compiler.op.closeUpvalue) → UpvOk s) ∧
  (p.bytecode.getD src 0 = Compiler.op.readUpvalue → ReadUpvOk (rdU32 p.bytecode (src + 1)) s)

theorem stepOk'_of_stepOk {p : Prog} {src : Nat} {s : VmState} (h : StepOk p src s) : StepOk' p src s :=
  ⟨h.2.1, h.2.2⟩

theorem step_clearStack (p : Prog) (re : Reenter) (src : Nat)
    (h : p.bytecode.getD src 0 = Compiler.op.clearStack) : step p re src = cClearStack (src + 1) := by
  unfold step; dsimp only; rw [h]; rfl

theorem step_cRet (p : Prog) (re : Reenter) (src : Nat)
    (h : p.bytecode.getD src 0 = Compiler.op.ret) : step p re src = cRet := by
  unfold step; dsimp only; rw [h]; rfl

/-- **every instruction respects the relation when no stale upvalue slot is touched** (`step_sim` without
    `FrameOk`) -/
theorem step_sim' {c : Cfg} (p : Prog) (re₁ re₂ : Reenter) (src : Nat) {K : Nat → Prop} {s t : VmState}
    (hn : ∀ hd, CalledAt p src s hd → NatSimAt c re₁ re₂ hd)
    (h : Agree c K s t) (hok : StepOk' p src s) :
    W2 c (step p re₁ src) (step p re₂ src) (QStep c) s t := by
  by_cases h1 : p.bytecode.getD src 0 = Compiler.op.clearStack
  · rw [step_clearStack p re₁ src h1, step_clearStack p re₂ src h1]
    exact sim_clearStack' _ h
  · by_cases h2 : p.bytecode.getD src 0 = Compiler.op.ret
    · rw [step_cRet p re₁ src h2, step_cRet p re₂ src h2]
      exact sim_ret' h (hok.1 (Or.inl h2))
    · exact step_sim p re₁ re₂ src hn h
        ⟨fun hc => by rcases hc with hc | hc <;> contradiction, hok.1, hok.2⟩

/-- the statement of `C02b.step_schedule_independent` under the weaker side condition -/
theorem step_schedule_independent' {c : Cfg} (p : Prog) (re₁ re₂ : Reenter)
    (hn : ∀ hd, NatSimAt c re₁ re₂ hd) (src : Nat) {s t : VmState} (h : Rel c s t)
    (hok : StepOk' p src s) :
    ((step p re₂ src).run.run t).1 = ((step p re₁ src).run.run s).1 ∧
    Rel c ((step p re₁ src).run.run s).2 ((step p re₂ src).run.run t).2 := by
  obtain ⟨K, hA⟩ := h
  exact resEq_of_w2 (step_sim' p re₁ re₂ src (fun hd _ => hn hd) hA hok)

/-! ## 4. the checked interpreter with the weaker check -/

/-- `stepOkB` without `frameOkB` -/
def stepOkB' (p : Prog) (src : Nat) (s : VmState) : Bool :=
  (!(p.bytecode.getD src 0 == Compiler.op.ret || p.bytecode.getD src 0 == Compiler.op.closeUpvalue) || upvOkB s) &&
  (!(p.bytecode.getD src 0 == Compiler.op.readUpvalue) || readUpvOkB (rdU32 p.bytecode (src + 1)) s)

theorem stepOkB'_iff (p : Prog) (src : Nat) (s : VmState) : stepOkB' p src s = true ↔ StepOk' p src s := by
  unfold stepOkB' StepOk'
  rw [Bool.and_eq_true]
  exact and_congr (imp_iff_bool (by simp [Bool.or_eq_true]) (upvOkB_iff s))
    (imp_iff_bool (by simp) (readUpvOkB_iff _ s))

/-- the stronger check implies the weaker one -/
theorem stepOkB'_of_stepOkB {p : Prog} {src : Nat} {s : VmState} (h : stepOkB p src s = true) :
    stepOkB' p src s = true :=
  (stepOkB'_iff p src s).2 (stepOk'_of_stepOk ((stepOkB_iff p src s).1 h))

theorem stepOk'_congr {c : Cfg} {K : Nat → Prop} {s t : VmState} (p : Prog) (src : Nat) (h : Agree c K s t) :
    StepOk' p src t ↔ StepOk' p src s := by
  unfold StepOk'; rw [upvOk_congr h, readUpvOk_congr _ h]

theorem stepOkB'_congr {c : Cfg} {K : Nat → Prop} {s t : VmState} (p : Prog) (src : Nat) (h : Agree c K s t) :
    stepOkB' p src t = stepOkB' p src s := by
  have := stepOk'_congr p src h
  rw [← stepOkB'_iff, ← stepOkB'_iff] at this
  cases h1 : stepOkB' p src t <;> cases h2 : stepOkB' p src s <;> simp_all

/-- the checked instruction with the weaker check (the callback check of the iterating host functions
    stays) -/
def stepC' (p : Prog) (re : Reenter) (src : Nat) : M Ctl := do
  let s ← get
  if stepOkB' p src s then step p (if iterSite p src s then wrapIter re else re) src
  else throwE (.panic "stale stack slot")

theorem stepC'_sim {c : Cfg} (hnat : NatSimHyp c) (p : Prog) {re₁ re₂ : Reenter} (hre : ReSim c re₁ re₂)
    (src : Nat) {K : Nat → Prop} {s t : VmState} (h : Agree c K s t) :
    W2 c (stepC' p re₁ src) (stepC' p re₂ src) (QStep c) s t := by
  unfold stepC'
  refine w2_get' ?_
  rw [stepOkB'_congr p src h, iterSite_congr p src h]
  cases hok : stepOkB' p src s with
  | false => simp only [Bool.false_eq_true, if_false]; exact w2_throwE h.rel
  | true =>
    simp only [if_true]
    have hok' := (stepOkB'_iff p src s).mp hok
    cases hi : iterSite p src s with
    | true =>
      simp only [if_true]
      exact step_sim' p _ _ src
        (fun hd _ => hnat _ _ (wrapIter_sim hre) hd (fun _ => ⟨wrapIter_post re₁, wrapIter_post re₂⟩)) h hok'
    | false =>
      simp only [Bool.false_eq_true, if_false]
      exact step_sim' p _ _ src
        (fun hd hcall => hnat _ _ hre hd (fun hc => by
          have := calledAt_iter hcall hc
          rw [hi] at this; cases this)) h hok'

/-- the checked interpreter with the weaker check: instances of the generic loop of `Lemmas/SchedLift.lean` -/
def execC' (p : Prog) : Nat → Task → VmState → ExecRes := execG (stepC' p) natC p
def runC' (p : Prog) (n : Nat) (s : VmState) : VmState × Option RunErr := runG (stepC' p) natC p n s

theorem execC'_sim {c : Cfg} (hnat : NatSimHyp c) (p : Prog) (gas : Nat) (task : Task) {K : Nat → Prop}
    {s t : VmState} (h : Agree c K s t) (hok : TaskOk K task) :
    ExecEq c (execC' p gas task s) (execC' p gas task t) :=
  execG_sim (stepC' p) natC p (fun re₁ re₂ hre src _ K s t h => stepC'_sim hnat p hre src h)
    (fun re₁ re₂ hre hd K s t h => natC_sim hnat hre hd h) gas task K s t h hok

theorem runC'_sim {c : Cfg} (hnat : NatSimHyp c) (p : Prog) (n : Nat) {s t : VmState} (h : Rel c s t)
    (hg : s.guards = []) :
    (runC' p n t).2 = (runC' p n s).2 ∧ Rel c (runC' p n s).1 (runC' p n t).1 :=
  runG_sim (stepC' p) natC p n (fun gas K s t h => execC'_sim hnat p gas (.loop 0) h trivial) h hg

/-! ## 5. whole runs -/

/-- no *upvalue* check (and no callback check) fires in this run -/
def SafeRun' (p : Prog) (n : Nat) (s : VmState) : Prop := runC' p n s = run p n s

instance (p : Prog) (n : Nat) (s : VmState) : Decidable (SafeRun' p n s) :=
  inferInstanceAs (Decidable (runC' p n s = run p n s))

/-- the conclusion of the property for this checked interpreter -/
def ScheduleIndependentC' (p : Prog) (n : Nat) (s : VmState) : Prop :=
  ∀ (sch₁ sch₂ : Sched),
    ObsEq (runC' p n { s with sched := sch₁ }).1 (runC' p n { s with sched := sch₂ }).1 ∧
    (runC' p n { s with sched := sch₁ }).2 = (runC' p n { s with sched := sch₂ }).2 ∧
    (runC' p n { s with sched := sch₁ }).1.hostLog = (runC' p n { s with sched := sch₂ }).1.hostLog

/-- the interpreter with only the upvalue checks is schedule independent — for every program -/
theorem checked_schedule_independence' (p : Prog) (n : Nat) (s : VmState) (hi : C05.Inv s)
    (hg : s.guards = []) : ScheduleIndependentC' p n s := by
  intro sch₁ sch₂
  have h0 : Rel cfg0 { s with sched := sch₁ } { s with sched := sch₂ } :=
    rel_sched s hi sch₁ sch₂ s.allocIndex s.allocIndex
  obtain ⟨e, hr⟩ := runC'_sim (natSimHyp cfg0) p n h0 hg
  exact ⟨rel_obsEq hr, e.symm, rel_hostLog hr⟩

/-- **`safeRun_of_upvalue_checks`**: schedule independence of `Vm::run` for runs in which no stale
    *upvalue* slot is touched (`SafeRun'`: the step check omits `frameOkB`) — result, error, stack, globals,
    frames, open upvalues, reachable heap and host log agree under any two forcing schedules. -/
theorem safeRun_of_upvalue_checks (p : Prog) (n : Nat) (s : VmState) (hi : C05.Inv s) (hg : s.guards = [])
    (hsafe : ∀ sch, SafeRun' p n { s with sched := sch }) : C05b.ScheduleIndependent p n s := by
  intro sch₁ sch₂
  obtain ⟨h1, h2, h3⟩ := checked_schedule_independence' p n s hi hg sch₁ sch₂
  rw [hsafe sch₁, hsafe sch₂] at h1 h2 h3
  exact ⟨h1, by rw [h2], h3⟩

/-- the deep-value form for two given schedules -/
theorem safeRun'_deep (p : Prog) (n : Nat) (s : VmState) (hi : C05.Inv s) (hg : s.guards = [])
    (sch₁ sch₂ : Sched) (h1 : SafeRun' p n { s with sched := sch₁ }) (h2 : SafeRun' p n { s with sched := sch₂ }) :
    let r₁ := run p n { s with sched := sch₁ }
    let r₂ := run p n { s with sched := sch₂ }
    r₂.2 = r₁.2 ∧ r₂.1.stack.contents.map (ownD r₂.1.heap) = r₁.1.stack.contents.map (ownD r₁.1.heap) ∧
    r₂.1.globals.map (ownD r₂.1.heap) = r₁.1.globals.map (ownD r₁.1.heap) ∧ r₂.1.hostLog = r₁.1.hostLog := by
  have h0 : Rel cfg0 { s with sched := sch₁ } { s with sched := sch₂ } :=
    rel_sched s hi sch₁ sch₂ s.allocIndex s.allocIndex
  obtain ⟨e, hr⟩ := runC'_sim (natSimHyp cfg0) p n h0 hg
  rw [h1, h2] at e hr
  exact ⟨e, rel_ownD_stack hr, rel_ownD_globals hr, (rel_hostLog hr).symm⟩

/-! ## 6. non-vacuity -/

/-- `main` (at 0): `ScalarInt 1; FunctionPointer f/0; CallFunction; Exit`; `f` (label 7, at 20):
    `Pop; ClearStack; ScalarNil; Return`.  The frame of `f` starts at height 1 (no arguments); its `Pop` removes
    the caller's value, so at `ClearStack` the running frame starts ABOVE the stack height (1 > 0): `frameOkB`
    fails — the run is not `SafeRun` — although `ClearStack` (which only truncates) does nothing at all. -/
def highFrameProg : Prog :=
  { bytecode := #[Compiler.op.scalarInt, 1,0,0,0,0,0,0,0, Compiler.op.functionPointer, 7,0,0,0, 0,0,0,0,
                  Compiler.op.callFunction, Compiler.op.exit,
                  Compiler.op.pop, Compiler.op.clearStack, Compiler.op.scalarNil, Compiler.op.ret],
    data := #[], labels := [(7, 20)], varNames := [], trace := [] }

/-- the run ends normally (the slot `f` vacated is refilled by its `ScalarNil`, the result goes on top) -/
example : (run highFrameProg 100 { VmState.fresh smallCfg with sched := .every }).2 = none ∧
    (run highFrameProg 100 { VmState.fresh smallCfg with sched := .every }).1.stack.contents = [.nil, .nil] := by
  decide +kernel

/-- the check of `C02b` rejects it (at `ClearStack`) … -/
example : ¬ SafeRun highFrameProg 100 { VmState.fresh smallCfg with sched := .every } := by decide +kernel
example : (runC highFrameProg 100 { VmState.fresh smallCfg with sched := .every }).2.map (·.kind) =
    some (.panic "stale stack slot") := by decide +kernel

/-- … the check without `frameOkB` accepts it, under both schedules … -/
theorem highFrame_safe_none : SafeRun' highFrameProg 100 { VmState.fresh smallCfg with sched := .none } := by
  decide +kernel
theorem highFrame_safe_every : SafeRun' highFrameProg 100 { VmState.fresh smallCfg with sched := .every } := by
  decide +kernel

/-- … hence the two runs agree -/
example := safeRun'_deep highFrameProg 100 (VmState.fresh smallCfg) (fresh_inv smallCfg) rfl .none .every
  highFrame_safe_none highFrame_safe_every

/-- the programs of `C02b` are safe in the weaker sense too (an open upvalue is read and closed; an iterating
    host function calls back) -/
example : SafeRun' closureProg 100 { VmState.fresh smallCfg with sched := .every } := by decide +kernel
example : SafeRun' maxProg 100 { VmState.fresh smallCfg with sched := .every } := by decide +kernel

/-- the counter-example of `C05b` (an open upvalue over a slot dropped by `pop_n`) is still rejected: the
    upvalue checks are the ones that matter -/
example : ¬ SafeRun' C05b.staleProg 100 { VmState.fresh C05b.staleCfg with sched := .every } := by
  decide +kernel

end Cao.C02c
