import CaoProofs.Props.C10b
import CaoProofs.Props.C15b
import CaoProofs.Props.C04b
/-!
# C15c — where a run-time error of a COMPILED program is located (no `WF` hypothesis)

`Props/C15b.lean` proves `run_error_located`, `sites_classified` and `compiled_error_trace` with
`Bytecode.WF p` as a hypothesis, because `Props/C10.lean` (which proves `WF` for compiled programs)
could not be imported next to `Props/C15.lean`. With the Wf lemma family moved to
`Cao.Compiler.Wf`, both can be imported; this file composes them:

* `compiled_error_located` — for `compile m std limit = .ok p` (under the four hypotheses of
  `C10b.compile_wf`), a failing run from a machine without call frames: the full conclusion of
  `C15b.run_error_located`;
* `compiled_error_trace'` — … and the full conclusion of `C15b.compiled_error_trace`;
* `compiled_error_located_and_traced` — both, as one conjunction;
* `compiled_sites_classified` — `C15b.sites_classified`;
* `compiled_error_head_resolves` — a corollary that combines the two: unless the failing opcode is a raw
  `Pop` / `CloseUpvalue`, the error trace is non-empty and its head designates a card of the source
  (or is an epilogue entry).
-/
namespace Cao.C15c
open Cao Cao.Vm Cao.Compiler Cao.Bytecode Cao.Cross
set_option linter.unusedVariables false

/-- **`compiled_error_located`**: `C15b.run_error_located` for compiled programs -/
theorem compiled_error_located {m std : Module} {limit : Nat} {p : Program}
    (hc : compile m std limit = .ok p) (hsz : p.bytecode.size < 2 ^ 31) (hdata : p.data.size < 2 ^ 32)
    (hentry : C10.NoEntryRef m std limit p) (hd : C10b.ClosureHandlesDistinct m std limit p)
    (n : Nat) (s : VmState) (hs : s.frames = [])
    (e : RunErr) (he : (run (Prog.ofProgram p) n s).2 = some e) :
    -- (1) the failing address is an instruction start …
    C04.Start p e.at_ ∧
    -- … the error is the budget's, or the instruction there raised it (or the run did not start)
    (e.kind = .timeout ∨
      (∃ (re : Reenter) (s0 s1 : VmState), (step (Prog.ofProgram p) re e.at_).go s0 = (.error e.kind, s1)) ∨
      (e = ⟨.callStackOverflow, 0, []⟩ ∧ s.frameCap = 0)) ∧
    -- … and it has a trace entry, except at the two raw opcodes of `scope_end`
    ((∃ t, C15.lookup (Prog.ofProgram p) e.at_ = some t) ∨
      (p.bytecode.getD e.at_ 0 = op.pop ∧ (e.kind = .timeout ∨ s.frameCap = 0)) ∨
      (p.bytecode.getD e.at_ 0 = op.closeUpvalue ∧
        (e.kind = .timeout ∨ e.kind = .invalidArgument ∨ s.frameCap = 0))) ∧
    -- (2) the frames of the moment of failure
    (∀ f ∈ e.frames, C04.Start p f.dst ∧ C15b.SiteOK p f.src) ∧
    (∀ f ∈ e.frames, p.bytecode.getD f.src 0 = op.callFunction → C04.Start p f.src →
      ∃ t, C15.lookup (Prog.ofProgram p) f.src = some t) :=
  C15b.run_error_located (C10b.compile_wf hc hsz hdata hentry hd) n s hs e he

/-- **`compiled_error_trace'`**: `C15b.compiled_error_trace` without the `WF` hypothesis -/
theorem compiled_error_trace' {m std : Module} {limit : Nat} {p : Program}
    (hc : compile m std limit = .ok p) (hsz : p.bytecode.size < 2 ^ 31) (hdata : p.data.size < 2 ^ 32)
    (hentry : C10.NoEntryRef m std limit p) (hd : C10b.ClosureHandlesDistinct m std limit p)
    (n : Nat) (s : VmState) (hs : s.frames = [])
    (e : RunErr) (he : (run (Prog.ofProgram p) n s).2 = some e) :
    (∀ t, C15.lookup (Prog.ofProgram p) e.at_ = some t →
      errTrace (Prog.ofProgram p) e = t :: (C15b.sites e).filterMap (C15.lookup (Prog.ofProgram p)) ∧
      ∃ o, p.bytecode[e.at_]? = some o ∧
        (C15.CardEntry (withStd m std) t o ∨ C15.EpilogueEntry (withStd m std) t o)) ∧
    (∀ f ∈ e.frames, C04.Start p f.src → p.bytecode.getD f.src 0 = op.callFunction →
      ∃ t, C15.lookup (Prog.ofProgram p) f.src = some t ∧
        ∃ sub d, (withStd m std).descend t.ns = some sub ∧
          sub.getCard { function := t.function, indices := t.indices } = .ok d ∧ C15.IsCallCard d) :=
  C15b.compiled_error_trace hc (C10b.compile_wf hc hsz hdata hentry hd) n s hs e he

/-- the two as one statement -/
theorem compiled_error_located_and_traced {m std : Module} {limit : Nat} {p : Program}
    (hc : compile m std limit = .ok p) (hsz : p.bytecode.size < 2 ^ 31) (hdata : p.data.size < 2 ^ 32)
    (hentry : C10.NoEntryRef m std limit p) (hd : C10b.ClosureHandlesDistinct m std limit p)
    (n : Nat) (s : VmState) (hs : s.frames = [])
    (e : RunErr) (he : (run (Prog.ofProgram p) n s).2 = some e) :
    (C04.Start p e.at_ ∧
     (e.kind = .timeout ∨
       (∃ (re : Reenter) (s0 s1 : VmState), (step (Prog.ofProgram p) re e.at_).go s0 = (.error e.kind, s1)) ∨
       (e = ⟨.callStackOverflow, 0, []⟩ ∧ s.frameCap = 0)) ∧
     ((∃ t, C15.lookup (Prog.ofProgram p) e.at_ = some t) ∨
       (p.bytecode.getD e.at_ 0 = op.pop ∧ (e.kind = .timeout ∨ s.frameCap = 0)) ∨
       (p.bytecode.getD e.at_ 0 = op.closeUpvalue ∧
         (e.kind = .timeout ∨ e.kind = .invalidArgument ∨ s.frameCap = 0))) ∧
     (∀ f ∈ e.frames, C04.Start p f.dst ∧ C15b.SiteOK p f.src) ∧
     (∀ f ∈ e.frames, p.bytecode.getD f.src 0 = op.callFunction → C04.Start p f.src →
       ∃ t, C15.lookup (Prog.ofProgram p) f.src = some t)) ∧
    ((∀ t, C15.lookup (Prog.ofProgram p) e.at_ = some t →
       errTrace (Prog.ofProgram p) e = t :: (C15b.sites e).filterMap (C15.lookup (Prog.ofProgram p)) ∧
       ∃ o, p.bytecode[e.at_]? = some o ∧
         (C15.CardEntry (withStd m std) t o ∨ C15.EpilogueEntry (withStd m std) t o)) ∧
     (∀ f ∈ e.frames, C04.Start p f.src → p.bytecode.getD f.src 0 = op.callFunction →
       ∃ t, C15.lookup (Prog.ofProgram p) f.src = some t ∧
         ∃ sub d, (withStd m std).descend t.ns = some sub ∧
           sub.getCard { function := t.function, indices := t.indices } = .ok d ∧ C15.IsCallCard d)) :=
  ⟨compiled_error_located hc hsz hdata hentry hd n s hs e he,
   compiled_error_trace' hc hsz hdata hentry hd n s hs e he⟩

/-- **`compiled_sites_classified`**: `C15b.sites_classified` for compiled programs — every recorded
    call site of the moment of failure is of one of the three kinds, and the `CallFunction` sites
    have a trace entry -/
theorem compiled_sites_classified {m std : Module} {limit : Nat} {p : Program}
    (hc : compile m std limit = .ok p) (hsz : p.bytecode.size < 2 ^ 31) (hdata : p.data.size < 2 ^ 32)
    (hentry : C10.NoEntryRef m std limit p) (hd : C10b.ClosureHandlesDistinct m std limit p)
    (n : Nat) (s : VmState) (hs : s.frames = [])
    (e : RunErr) (he : (run (Prog.ofProgram p) n s).2 = some e) :
    ∀ a ∈ C15b.sites e, C15b.SiteOK p a ∧
      (C04.Start p a → p.bytecode.getD a 0 = op.callFunction →
        ∃ t, C15.lookup (Prog.ofProgram p) a = some t) :=
  C15b.sites_classified (C10b.compile_wf hc hsz hdata hentry hd) n s hs e he

/-- the variants of `C15b` for a fresh machine, a cleared one, and the machine an earlier run left -/
theorem compiled_error_located_fresh {m std : Module} {limit : Nat} {p : Program}
    (hc : compile m std limit = .ok p) (hsz : p.bytecode.size < 2 ^ 31) (hdata : p.data.size < 2 ^ 32)
    (hentry : C10.NoEntryRef m std limit p) (hd : C10b.ClosureHandlesDistinct m std limit p)
    (n : Nat) (c : Config) (e : RunErr) (he : (run (Prog.ofProgram p) n (VmState.fresh c)).2 = some e) :
    C04.Start p e.at_ ∧ (∀ f ∈ e.frames, C04.Start p f.dst ∧ C15b.SiteOK p f.src) :=
  C15b.run_error_located_fresh (C10b.compile_wf hc hsz hdata hentry hd) n c e he

theorem compiled_error_located_cleared {m std : Module} {limit : Nat} {p : Program}
    (hc : compile m std limit = .ok p) (hsz : p.bytecode.size < 2 ^ 31) (hdata : p.data.size < 2 ^ 32)
    (hentry : C10.NoEntryRef m std limit p) (hd : C10b.ClosureHandlesDistinct m std limit p)
    (n : Nat) (s : VmState) (e : RunErr) (he : (run (Prog.ofProgram p) n (clear s)).2 = some e) :
    C04.Start p e.at_ ∧ (∀ f ∈ e.frames, C04.Start p f.dst ∧ C15b.SiteOK p f.src) :=
  C15b.run_error_located_cleared (C10b.compile_wf hc hsz hdata hentry hd) n s e he

theorem compiled_error_located_again {m std : Module} {limit : Nat} {p : Program}
    (hc : compile m std limit = .ok p) (hsz : p.bytecode.size < 2 ^ 31) (hdata : p.data.size < 2 ^ 32)
    (hentry : C10.NoEntryRef m std limit p) (hd : C10b.ClosureHandlesDistinct m std limit p)
    (q : Prog) (n k : Nat) (s : VmState) (hs : s.frames = []) (e : RunErr)
    (he : (run (Prog.ofProgram p) n (run q k s).1).2 = some e) :
    C04.Start p e.at_ ∧ (∀ f ∈ e.frames, C04.Start p f.dst ∧ C15b.SiteOK p f.src) :=
  C15b.run_error_located_again (C10b.compile_wf hc hsz hdata hentry hd) q n k s hs e he

/-- **the head of the error trace of a compiled program resolves**: unless the failing opcode is a
    raw `Pop` (then the error is `Timeout`, or the run did not start) or a raw `CloseUpvalue`
    (`Timeout` / `InvalidArgument` / not started), the error trace is `t :: …` where `t` is the trace
    entry of the failing address, and `t` designates a card of the source module that emitted the
    opcode at `e.at_`, or is an epilogue entry. -/
theorem compiled_error_head_resolves {m std : Module} {limit : Nat} {p : Program}
    (hc : compile m std limit = .ok p) (hsz : p.bytecode.size < 2 ^ 31) (hdata : p.data.size < 2 ^ 32)
    (hentry : C10.NoEntryRef m std limit p) (hd : C10b.ClosureHandlesDistinct m std limit p)
    (n : Nat) (s : VmState) (hs : s.frames = [])
    (e : RunErr) (he : (run (Prog.ofProgram p) n s).2 = some e)
    (hpop : p.bytecode.getD e.at_ 0 ≠ op.pop) (hclose : p.bytecode.getD e.at_ 0 ≠ op.closeUpvalue) :
    ∃ t, errTrace (Prog.ofProgram p) e = t :: (C15b.sites e).filterMap (C15.lookup (Prog.ofProgram p)) ∧
      ∃ o, p.bytecode[e.at_]? = some o ∧
        (C15.CardEntry (withStd m std) t o ∨ C15.EpilogueEntry (withStd m std) t o) := by
  obtain ⟨_, _, h3, _, _⟩ := compiled_error_located hc hsz hdata hentry hd n s hs e he
  rcases h3 with ⟨t, ht⟩ | ⟨h, _⟩ | ⟨h, _⟩
  · exact ⟨t, (compiled_error_trace' hc hsz hdata hentry hd n s hs e he).1 t ht⟩
  · exact absurd h hpop
  · exact absurd h hclose

/-! ## non-vacuity

The example of `C15b` (`main` calls `f(7)`, `f` calls the host function `fail`): the four hypotheses
hold for it (by the executable check `C04b.hypsOK2`; `C10b.hypsOK` does not apply, the program
contains a `FunctionPointer`), its run from a fresh machine fails at address 20 inside `f` with a
`CallFunction` frame on the stack, and the theorems above apply to that run. -/

theorem exM_hyps : C04b.hypsOK2 C15b.exM C15b.exStd Gen.recursionLimit = true := by decide +kernel

theorem exM_ok : ∃ p, C04b.CompiledOK C15b.exM C15b.exStd Gen.recursionLimit p :=
  C04b.hypsOK2_sound exM_hyps

/-- all hypotheses of `compiled_error_located` / `compiled_error_trace'` hold together, for a run
    that fails at address 20 with the frames `[⟨0, 19⟩, ⟨18, 19⟩]` -/
theorem example_compiled_located : ∃ p e,
    compile C15b.exM C15b.exStd = .ok p ∧ p.bytecode.size < 2 ^ 31 ∧ p.data.size < 2 ^ 32 ∧
    C10.NoEntryRef C15b.exM C15b.exStd Gen.recursionLimit p ∧
    C10b.ClosureHandlesDistinct C15b.exM C15b.exStd Gen.recursionLimit p ∧
    (VmState.fresh {}).frames = [] ∧
    (run (Prog.ofProgram p) 1000 (VmState.fresh {})).2 = some e ∧ e.at_ = 20 ∧
    e.frames.map (fun f => (f.src, f.dst)) = [(0, 19), (18, 19)] ∧
    p.bytecode.getD 18 0 = op.callFunction := by
  obtain ⟨p, hp⟩ := exM_ok
  obtain ⟨p', e, hc', _, he, hat, hfr, h18, _, _⟩ := C15b.example_located
  have : p' = p := by
    have h1 : compile C15b.exM C15b.exStd = .ok p := hp.compiled
    rw [h1] at hc'
    cases hc'; rfl
  subst this
  exact ⟨p', e, hp.compiled, hp.code_small, hp.data_small, hp.no_entry_ref, hp.closure_handles, rfl,
    he, hat, hfr, h18⟩

/-- facts about the compiled example that the instantiation below needs: the opcode at the failing
    address 20 is neither `Pop` nor `CloseUpvalue`, and 18 is an instruction start -/
def exFacts : Bool :=
  match compile C15b.exM C15b.exStd with
  | .error _ => false
  | .ok p => p.bytecode.getD 20 0 != op.pop && p.bytecode.getD 20 0 != op.closeUpvalue &&
      decide (C04.Start p 18)

theorem exFacts_true : exFacts = true := by decide +kernel

/-- … and the conclusions, instantiated: the error trace of that run starts with an entry that
    designates a card of the source (or an epilogue), and the entry of the `CallFunction` frame
    (call site 18) is a `Call` / `DynamicCall` card -/
theorem example_compiled_trace : ∃ p e t, compile C15b.exM C15b.exStd = .ok p ∧
    (run (Prog.ofProgram p) 1000 (VmState.fresh {})).2 = some e ∧
    (errTrace (Prog.ofProgram p) e).head? = some t ∧
    (∃ o, p.bytecode[e.at_]? = some o ∧
      (C15.CardEntry (withStd C15b.exM C15b.exStd) t o ∨ C15.EpilogueEntry (withStd C15b.exM C15b.exStd) t o)) ∧
    (∃ f ∈ e.frames, f.src = 18 ∧ ∃ t', C15.lookup (Prog.ofProgram p) f.src = some t' ∧
      ∃ sub d, (withStd C15b.exM C15b.exStd).descend t'.ns = some sub ∧
        sub.getCard { function := t'.function, indices := t'.indices } = .ok d ∧ C15.IsCallCard d) := by
  obtain ⟨p, e, hc, hsz, hdata, hentry, hd, hs, he, hat, hfr, h18⟩ := example_compiled_located
  have hfacts := exFacts_true
  unfold exFacts at hfacts
  rw [hc] at hfacts
  simp only [Bool.and_eq_true, bne_iff_ne, ne_eq, decide_eq_true_eq] at hfacts
  obtain ⟨⟨hpop, hclose⟩, hst18⟩ := hfacts
  obtain ⟨t, hshape, hres⟩ := compiled_error_head_resolves hc hsz hdata hentry hd 1000 _ hs e he
    (by rw [hat]; exact hpop) (by rw [hat]; exact hclose)
  obtain ⟨_, htr2⟩ := compiled_error_trace' hc hsz hdata hentry hd 1000 _ hs e he
  have hm : (18, 19) ∈ e.frames.map (fun f => (f.src, f.dst)) := by rw [hfr]; simp
  obtain ⟨f, hfm, hfe⟩ := List.mem_map.1 hm
  have hf18 : f.src = 18 := (Prod.mk.inj hfe).1
  obtain ⟨t', ht', hcall⟩ := htr2 f hfm (by rw [hf18]; exact hst18) (by rw [hf18]; exact h18)
  exact ⟨p, e, t, hc, he, by rw [hshape]; rfl, hres, f, hfm, hf18, t', ht', hcall⟩

end Cao.C15c
