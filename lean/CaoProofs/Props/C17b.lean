import CaoProofs.Props.C02b
import CaoProofs.Props.C17
import CaoProofs.Lemmas.AddrShiftRun
import CaoProofs.Lemmas.NextMono
/-!
# C17 (continued) — a cleared VM behaves like a fresh one

`Props/C17.lean` shows that `clear s` equals a freshly constructed machine in every observable
component except `heap.next` (the address counter), the stale slots of the value stack, the host
log, the forced-collection schedule and ghost counters. Here the *runs* are compared:

1. `Lemmas/AddrShift*.lean` (`run_shiftA`): the interpreter is equivariant under adding a constant
   `δ` to every address — so a fresh machine and the fresh machine whose address counter starts at
   `s.heap.next` behave alike, all deep values (`ownD`) and everything printed being equal;
2. the relation of `Lemmas/SchedRel.lean` with `full := False`, `pre := s.hostLog` holds between
   `clear s` and that shifted fresh machine (they differ in stale stack slots, host log, schedule,
   ghost counters), and `runC_sim'` carries it through a run.

`clear_behaves_like_fresh`: for safe runs (`C02b.SafeRun`: no stale stack slot is touched — the
schedules of the two machines differ, so this is needed exactly as for C02) the run from `clear s`
and the run from the fresh machine give the same outcome, the same deep values on the stack and
in the globals, and the same new host log lines.
`clear_behaves_like_fresh_Full_false`: without the side condition the statement at the end of
`Props/C17.lean` is false (the cleared machine keeps its forced-collection schedule).
-/
namespace Cao.C17b
open Cao Cao.Vm Cao.Gc Cao.C02 Cao.C05 Cao.RunInv Cao.SchedFull Cao.C02b

/-- the fresh machine whose address counter starts where the cleared machine's does -/
def freshAt (s : VmState) : VmState := shiftS (s.heap.next - 1) (VmState.fresh (C17.configOf s))

theorem freshAt_eq (s : VmState) (h : 1 ≤ s.heap.next) :
    freshAt s = { VmState.fresh (C17.configOf s) with heap := { objs := [], next := s.heap.next } } := by
  unfold freshAt
  rw [shiftS_fresh]
  have : 1 + (s.heap.next - 1) = s.heap.next := by omega
  rw [this]

/-- cleared machine / shifted fresh machine: stale slots, host log, schedule and counters differ -/
abbrev cfg17 (s : VmState) : Cfg := ⟨False, s.hostLog⟩

theorem freshAt_inv (s : VmState) (h : 1 ≤ s.heap.next) : C05.Inv (freshAt s) := by
  rw [freshAt_eq s h]
  exact ⟨rfl, Nat.zero_le _, List.nodup_nil, fun _ hp => (by cases hp), Nat.le_refl _⟩

/-- **the cleared machine and the (address-shifted) fresh machine are related**, up to the budget
    counters that `run` overwrites -/
theorem clear_rel_fresh (s : VmState) (hi : C05.Inv s) (h : 1 ≤ s.heap.next) :
    Rel (cfg17 s) { clear s with remaining := 0, dispatches := 0 }
      { freshAt s with remaining := 0, dispatches := 0 } := by
  have hinvR := freshAt_inv s h
  rw [freshAt_eq s h] at hinvR ⊢
  refine ⟨fun _ => False, ?_⟩
  exact
    { stack := ⟨⟨rfl, by simp [clear, VStack.clear, VmState.fresh, VStack.new, C17.configOf],
                 fun i hi => absurd hi (Nat.not_lt_zero i)⟩, fun hf => hf.elim⟩
      globals := rfl, frames := rfl, openUpvalues := rfl, guards := rfl, next := rfl, limit := rfl
      remaining := rfl, dispatches := rfl
      hostLog := by show s.hostLog = s.hostLog ++ []; rw [List.append_nil]
      frameCap := rfl
      uniqL := List.nodup_nil, uniqR := List.nodup_nil
      freshL := fun _ hp => (by cases hp), freshR := fun _ hp => (by cases hp)
      rootsK := by
        intro a ha
        rcases (SchedSim.mem_rootAddrs_iff _ a).mp ha with h1 | h1 | ⟨f, hf, _⟩ | h1 | h1
        · rw [show ({ clear s with remaining := 0, dispatches := 0 } : VmState).stack.contents = []
            from C17.clear_contents s] at h1
          cases h1
        · cases h1
        · cases hf
        · cases h1
        · cases h1
      closed := fun _ _ _ hk => hk.elim
      agree := fun _ hk => hk.elim
      invL := inv_of_same (s := clear s) rfl rfl (clear_inv s hi)
      invR := inv_of_same (s := ({ VmState.fresh (C17.configOf s) with
                heap := { objs := [], next := s.heap.next } } : VmState)) rfl rfl hinvR }

theorem ownD_shift_list (δ : Nat) (h : Heap) (l : List Val) :
    (l.map (shiftV δ)).map (ownD (shiftHeap δ h)) = l.map (ownD h) := by
  rw [List.map_map]
  apply List.map_congr_left
  intro v _
  exact ownD_shiftA δ h v

/-- **A cleared VM behaves like a fresh one.** For every program and budget, and every machine `s`
    satisfying the accounting invariant: if the run from `clear s` and the run from the fresh
    machine (address counter at `s.heap.next`) touch no stale stack slot, then the run from
    `clear s` and the run from a *fresh* machine with the same configuration
    * end with the same outcome (error kind and position, or success),
    * leave the same deep values on the stack and in the global variables,
    * append the same lines to the host log. -/
theorem clear_behaves_like_fresh (p : Prog) (n : Nat) (s : VmState) (hi : C05.Inv s)
    (hnext : 1 ≤ s.heap.next) (hcap : 0 < s.frameCap)
    (h1 : SafeRun p n (clear s)) (h2 : SafeRun p n (freshAt s)) :
    let r₁ := run p n (clear s)
    let r₂ := run p n (VmState.fresh (C17.configOf s))
    r₁.2.map (fun e => (e.kind.name, e.at_)) = r₂.2.map (fun e => (e.kind.name, e.at_)) ∧
    r₁.1.stack.contents.map (ownD r₁.1.heap) = r₂.1.stack.contents.map (ownD r₂.1.heap) ∧
    r₁.1.globals.map (ownD r₁.1.heap) = r₂.1.globals.map (ownD r₂.1.heap) ∧
    r₁.1.hostLog = s.hostLog ++ r₂.1.hostLog := by
  have hroom : (clear s).frames.length < (clear s).frameCap := hcap
  obtain ⟨e, hr⟩ := runC_sim' (natSimHyp (cfg17 s)) p n (clear_rel_fresh s hi hnext) rfl hroom
  rw [h1, h2] at e hr
  have hsh := run_shiftA p n (s.heap.next - 1) (VmState.fresh (C17.configOf s))
  have hst := rel_ownD_stack hr
  have hgl := rel_ownD_globals hr
  obtain ⟨K, hA⟩ := hr
  have hlog := hA.hostLog
  unfold freshAt at e hst hgl hlog
  rw [hsh] at e hst hgl hlog
  dsimp only at e hst hgl hlog ⊢
  refine ⟨?_, ?_, ?_, ?_⟩
  · rw [← e, Option.map_map]
    rfl
  · rw [← hst, shiftS_stack_contents, shiftS_heap, ownD_shift_list]
  · rw [← hgl, shiftS_globals, shiftS_heap, ownD_shift_list]
  · exact hlog

/-- in particular the conclusion of `C17.clear_behaves_like_fresh_Full` -/
theorem clear_behaves_like_fresh_kind (p : Prog) (n : Nat) (s : VmState) (hi : C05.Inv s)
    (hnext : 1 ≤ s.heap.next) (hcap : 0 < s.frameCap)
    (h1 : SafeRun p n (clear s)) (h2 : SafeRun p n (freshAt s)) :
    ((run p n (clear s)).2.map (·.kind.name)) =
      ((run p n (VmState.fresh (C17.configOf s))).2.map (·.kind.name)) := by
  have := (clear_behaves_like_fresh p n s hi hnext hcap h1 h2).1
  have h3 := congrArg (Option.map Prod.fst) this
  rw [Option.map_map, Option.map_map] at h3
  exact h3

/-- every machine the host can reach has a positive address counter … -/
theorem reachable_next_pos {cf : Config} {s : VmState} (h : C05b.Reachable cf s) : 1 ≤ s.heap.next := by
  induction h with
  | fresh => exact Nat.le_refl _
  | run p n _ ih => exact Nat.le_trans ih (run_next_mono p n _)
  | clear _ ih => exact ih
  | sched _ _ _ ih => exact ih

/-- … and the call stack capacity it was configured with -/
theorem reachable_frameCap {cf : Config} {s : VmState} (h : C05b.Reachable cf s) :
    s.frameCap = cf.callStackSize := by
  induction h with
  | fresh => rfl
  | run p n _ ih => rw [C17.run_frameCap]; exact ih
  | clear _ ih => exact ih
  | sched _ _ _ ih => exact ih

/-- **for every machine the host can reach** (created, run, cleared, re-scheduled any number of
    times), configured with a non-empty call stack -/
theorem clear_behaves_like_fresh_reachable (p : Prog) (n : Nat) {cf : Config} {s : VmState}
    (h : C05b.Reachable cf s) (hcap : 0 < cf.callStackSize)
    (h1 : SafeRun p n (clear s)) (h2 : SafeRun p n (freshAt s)) :
    let r₁ := run p n (clear s)
    let r₂ := run p n (VmState.fresh (C17.configOf s))
    r₁.2.map (fun e => (e.kind.name, e.at_)) = r₂.2.map (fun e => (e.kind.name, e.at_)) ∧
    r₁.1.stack.contents.map (ownD r₁.1.heap) = r₂.1.stack.contents.map (ownD r₂.1.heap) ∧
    r₁.1.globals.map (ownD r₁.1.heap) = r₂.1.globals.map (ownD r₂.1.heap) ∧
    r₁.1.hostLog = s.hostLog ++ r₂.1.hostLog :=
  clear_behaves_like_fresh p n s (C05b.reachable_inv h).1 (reachable_next_pos h)
    (by rw [reachable_frameCap h]; exact hcap) h1 h2

/-- the checked interpreter needs no side condition -/
theorem clear_behaves_like_fresh_checked (p : Prog) (n : Nat) (s : VmState) (hi : C05.Inv s)
    (hnext : 1 ≤ s.heap.next) (hcap : 0 < s.frameCap) :
    (runC p n (freshAt s)).2 = (runC p n (clear s)).2 ∧
    Rel (cfg17 s) (runC p n (clear s)).1 (runC p n (freshAt s)).1 :=
  runC_sim' (natSimHyp (cfg17 s)) p n (clear_rel_fresh s hi hnext) rfl hcap

/-! ## the unconditional statement is false -/

/-- `C05b.staleProg` (a stale slot read through an open upvalue) with a branch on the observed
    length: `… len; GotoIfTrue 51; Exit; <invalid>` -/
def staleProg2 : Prog :=
  { bytecode := #[5, 7,0,0,0,0,0,0,0, 31, 42, 9,0,0,0, 0,0,0,0, 9, 45, 1, 1, 17, 0,0,0,0, 40,
                  18, 0,0,0,0, 11, 10,
                  31, 16, 44, 0,0,0,0, 34, 29, 51,0,0,0, 10, 10, 255],
    data := #[], labels := [(9, 36)], varNames := [], trace := [] }

/-- a machine that forces a collection at every allocation; `clear` keeps the schedule -/
def everyState : VmState := { VmState.fresh C05b.staleCfg with sched := .every }

/-- **the statement at the end of `Props/C17.lean` does not hold for arbitrary bytecode**: the
    cleared machine (which still forces collections) sees the stale reference freed and exits,
    the fresh machine sees it alive and runs into the invalid opcode -/
theorem clear_behaves_like_fresh_Full_false : ¬ C17.clear_behaves_like_fresh_Full := by
  intro h
  have := h staleProg2 100 everyState rfl
  revert this
  decide +kernel

/-! ## non-vacuity -/

/-- a machine that has run `C02b.maxProg` (it holds a global table, stale stack slots, an advanced
    address counter) -/
def usedState : VmState := (run maxProg 100 { VmState.fresh smallCfg with sched := .every }).1

example : usedState.globals.length = 1 ∧
    (clear usedState).stack.data.getD 1 .nil = .obj 2 ∧
    (VmState.fresh (C17.configOf usedState)).stack.data.getD 1 .nil = .nil := by decide +kernel

theorem used_inv : C05.Inv usedState := C05b.run_inv _ _ _ (inv_of_same (s := VmState.fresh smallCfg) rfl rfl (fresh_inv smallCfg))
theorem used_safe1 : SafeRun closureProg 100 (clear usedState) := by decide +kernel
theorem used_safe2 : SafeRun closureProg 100 (freshAt usedState) := by decide +kernel

example := clear_behaves_like_fresh closureProg 100 usedState used_inv (by decide +kernel) (by decide +kernel)
  used_safe1 used_safe2

example : C05b.Reachable smallCfg usedState := .run _ _ (.sched .every 0 .fresh)

end Cao.C17b
