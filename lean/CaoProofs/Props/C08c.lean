import CaoProofs.Props.C10b
import CaoProofs.Props.C08b
import CaoProofs.Props.C04b
/-!
# C08c — static calls and closures of compiled programs land where they should (C08b / C06 + C10)

With `C10`/`C10b` importable next to `C08b`/`C06`, two hypotheses of the run-time theorems become
dischargeable:

* `C08b.compiled_call_card_enters_body` transfers control to the body of the designated function
  *if no other label was inserted under the same 32-bit handle* (a premise about the compiler's
  final state `sF`, inside the statement). Here the premise is replaced by a hypothesis on the
  compilation in the style of `C10b.ClosureHandlesDistinct` — `FunctionHandlesDistinct m std limit`,
  implied by `C10b.LabelHandlesDistinct` — and the conclusion is strengthened: the label table maps the
  handle to the body, and **the body position is an instruction start** of the program
  (`C10.compile_labels_land`; in the vocabulary of `C04`: `C04.Start p pos`, by `start_iff`).
  → `compiled_call_card_enters_body'`.
* `C06.closure_dispatch_Full` (every `Closure` instruction's handle is mapped by the label table to
  the entry of the body its own closure expression emitted) was missing the decomposition of a
  `compileUnit` run into its closure expressions. The level structure `UpT` of `C10b`
  (`Compiler.compileUnit_level`) is such a decomposition: → `compiled_closure_dispatch` proves the
  statement for every compiled program under `C10b.ClosureHandlesDistinct` (weaker than the `Nodup`
  hypothesis of `closure_dispatch_Full`), except for one clause: that the operand of the `Goto`
  in front of the body is the address of the `Closure` instruction (`UpT` does not look at jump
  operands). `closure_dispatch_Full'` states the remaining full version.
-/
namespace Cao.C08c
open Cao Cao.Vm Cao.Compiler Cao.Cross Cao.C05 Cao.C08b
set_option linter.unusedVariables false
set_option linter.unusedSimpArgs false

/-! ## 0. instruction starts: the vocabulary of C10 and of C04 agree on compiled programs -/

/-- for a compiled program, `C04.Start` (membership in the decoded instruction list) is
    `C10.IsStartPos` (the bytes before the address tile into instructions) -/
theorem start_iff {m std : Module} {limit : Nat} {p : Program} (h : compile m std limit = .ok p) (a : Nat) :
    C04.Start p a ↔ C10.IsStartPos p a := by
  obtain ⟨l, hl, hmem, _⟩ := C10.compile_decodes h
  have hinstrs : C04.instrs p = l := by unfold C04.instrs; rw [hl]
  unfold C04.Start
  rw [hinstrs, ← C10.contains_start hmem a, List.contains_iff_mem]

/-- every label of a compiled program is an instruction start (`C10.compile_labels_land`), in the
    vocabulary of C04 — no hypothesis beyond `compile … = .ok p` -/
theorem label_start {m std : Module} {limit : Nat} {p : Program} (h : compile m std limit = .ok p)
    {l : UInt32 × Nat} (hl : l ∈ p.labels) : C04.Start p l.2 :=
  (start_iff h _).2 (C10.compile_labels_land h hl)

/-! ## 1. static calls -/

/-- **no-collision hypothesis for function labels**: the handle of a (non-entry) function of the
    stream is not the handle of a label at another position — all entries of the label log
    (`C10b.labelLog`) with that handle agree on the position. Handles are 32-bit hashes; the
    interpreter finds the body of a function by looking its handle up in the label table, where the
    last insertion wins. -/
def FunctionHandlesDistinct (m std : Module) (limit : Nat) : Prop :=
  ∀ unit, intoIrStream m std limit = .ok unit → ∀ i (hi : i < unit.size), 0 < i →
    ∀ l1 ∈ C10b.labelLog m std limit, ∀ l2 ∈ C10b.labelLog m std limit,
      l1.1 = unit[i].handle → l2.1 = l1.1 → l2.2 = l1.2

theorem FunctionHandlesDistinct.of_labels {m std : Module} {limit : Nat}
    (h : C10b.LabelHandlesDistinct m std limit) : FunctionHandlesDistinct m std limit :=
  fun _ _ _ _ _ l1 h1 l2 h2 _ e => h l1 h1 l2 h2 e

/-- **(C08, complete for `Call` cards, without the uniqueness premise)** for a successful `compile`
    whose function handles do not collide with other label handles: for every `Call` card (name `n`)
    anywhere in the body of a function `unit[i]` there are the function `unit[j]` the reference
    lookup designates and an address `src` inside the code of `unit[i]` such that the final program
    has the static-call sequence at `src` with the handle and arity of `unit[j]` as operands; and
    for `j > 0` there is the position `pos` of the body of `unit[j]` such that
    * the program's label table maps `unit[j].handle` to `pos`,
    * `pos` is an instruction start,
    * executing the two instructions at `src` (from any state with a frame, room for another,
      enough arguments and a fresh heap address, when the first one succeeds) transfers control to
      `pos`, in a new frame whose slots are exactly the arguments. -/
theorem compiled_call_card_enters_body' {m std : Module} {limit : Nat} {p : Program}
    (h : compile m std limit = .ok p) (hfd : FunctionHandlesDistinct m std limit) :
    ∃ unit sF, intoIrStream m std limit = .ok unit ∧ (compileUnit unit).run {} = .ok ((), sF) ∧
      p.bytecode = sF.bytecode ∧
      ∀ i (hi : i < unit.size), ∀ n ∈ callNamesList unit[i].cards,
        ∃ j, ∃ hj : j < unit.size, Sem.resolve (unit.map toFnDef) i n = some j ∧
          ∃ src bodyI, BodyAt (jumpTableOf unit.toList) unit[i] bodyI sF ∧ bodyI ≤ src ∧
            StaticCallAt (Prog.ofProgram p) src ∧
            fpHandle (Prog.ofProgram p) src = unit[j].handle ∧
            fpArity (Prog.ofProgram p) src = UInt32.ofNat unit[j].arguments.length ∧
            (0 < j → ∃ pos, BodyAt (jumpTableOf unit.toList) unit[j] pos sF ∧
              p.labels.find? (fun q => q.1 == unit[j].handle) = some (unit[j].handle, pos) ∧
              C04.Start p pos ∧
              ∀ (re re' : Reenter) (s : VmState), FreshNext s.heap → s.frames ≠ [] →
                (fpArity (Prog.ofProgram p) src).toNat ≤ s.stack.count → s.frames.length < s.frameCap →
                ∀ ctl1 s1, (step (Prog.ofProgram p) re src).go s = (.ok ctl1, s1) →
                  ctl1 = { ip := src + 9 } ∧
                  ∃ s2, (step (Prog.ofProgram p) re' (src + 9)).go s1 = (.ok { ip := pos }, s2) ∧
                    s2.frames = s.frames.dropLast ++ [callerFrame s src] ++
                      [calleeFrame (Prog.ofProgram p) src s.stack.count] ∧
                    s2.stack = { count := s.stack.count, data := s.stack.data.set s.stack.count .nil }) := by
  obtain ⟨unit, hi, _, hres⟩ := C08.compile_calls_resolve h
  obtain ⟨unit', sF, hi', hc, hb, hfind, hmain, hrest⟩ := C08.compile_function_labels h
  have : unit' = unit := by rw [hi] at hi'; cases hi'; rfl
  subst this
  -- the label log of `C10b` is the log of this run
  obtain ⟨unit2, s2, hi2, hc2, _, _, hlog⟩ := C10b.compile_run h
  have hu2 : unit2 = unit' := by rw [hi] at hi2; cases hi2; rfl
  subst hu2
  have hs2 : s2 = sF := by rw [hc] at hc2; cases hc2; rfl
  subst hs2
  refine ⟨unit2, s2, hi, hc, hb, fun i hlt n hn => ?_⟩
  obtain ⟨j, hj, hr, hsem, _⟩ := hres i hlt n (callNamesList_sub _ n hn)
  have hbody : ∃ bodyI, BodyAt (jumpTableOf unit2.toList) unit2[i] bodyI s2 := by
    rcases Nat.eq_zero_or_pos i with rfl | h0
    · refine ⟨0, ?_⟩
      have : unit2[0]! = unit2[0] := getElem!_pos unit2 0 hlt
      rw [this] at hmain; exact hmain
    · obtain ⟨_, pos, _, hbd, _⟩ := hrest i hlt h0
      exact ⟨pos, hbd⟩
  obtain ⟨bodyI, hbI⟩ := hbody
  obtain ⟨hd, a, src, hr', hle, hsite⟩ := hbI.call_sites n hn
  rw [hr] at hr'
  simp only [Except.ok.injEq, Prod.mk.injEq] at hr'
  obtain ⟨rfl, rfl⟩ := hr'
  rw [← hb] at hsite
  obtain ⟨hat, hh, har⟩ := siteAt_static_call hsite
  refine ⟨j, hj, hsem, src, bodyI, hbI, hle, hat, hh, har, fun h0 => ?_⟩
  obtain ⟨_, pos, hmemL, hbody, hlabel⟩ := hrest j hj h0
  have huniq : ∀ q ∈ s2.labels, q.1 = unit2[j].handle → q.2 = pos := by
    intro q hq hqe
    rw [← hlog] at hq hmemL
    exact hfd unit2 hi j hj h0 (unit2[j].handle, pos) hmemL q hq rfl hqe
  have hl := hlabel huniq
  refine ⟨pos, hbody, hl, label_start h (List.mem_of_find?_eq_some hl), ?_⟩
  intro re re' s hfresh hfr hargs hroom ctl1 s1 h1
  have hl' : (Prog.ofProgram p).labels.find? (fun l => l.1 == fpHandle (Prog.ofProgram p) src) =
      some (unit2[j].handle, pos) := by
    rw [hh]; exact hl
  obtain ⟨e1, s3, e2, e3, e4, _⟩ :=
    static_call_enters_body (Prog.ofProgram p) re re' src hat hl' s hfresh hfr hargs hroom h1
  exact ⟨e1, s3, e2, e3, e4⟩

/-! ## 2. closures -/

open Cao.Bytecode in
/-- `UpT.closure_label`, with two more facts about the closure expression a `Closure` instruction
    belongs to: it starts (at `a'`, an instruction start) with a `Goto`, and the body `[a'+5, c)` is
    a level of its own -/
theorem UpT.closure_entry {bc : Array UInt8} {L : List (UInt32 × Nat)} {n a b : Nat} (h : UpT bc L n a b) :
    ∀ c, Tiled bc a c → c < b → bc.getD c 0 = op.closure →
      ∃ a', a ≤ a' ∧ a' + 5 ≤ c ∧ Tiled bc a a' ∧ bc.getD a' 0 = op.goto ∧
        (∃ m, UpT bc L m (a' + 5) c) ∧ (UInt32.ofNat (Bytecode.rdU32 bc (c + 1)), a' + 5) ∈ L := by
  induction h with
  | nil => intro c ht hlt; have := ht.le; omega
  | @plain n a k b hs hc hu ht ih =>
    intro c htc hlt hcl
    cases htc with
    | nil => rw [hcl] at hc; exact absurd hc (by decide)
    | @cons _ k' _ hs' ht' =>
      rw [hs] at hs'; cases hs'
      obtain ⟨a', h1, h2, h3, h4, h5, h6⟩ := ih c ht' hlt hcl
      exact ⟨a', by omega, h2, .cons hs h3, h4, h5, h6⟩
  | @clos n m a c0 b hg hb hcl0 hl hm hp ht ihb iht =>
    intro c htc hlt hcl
    have hbt := hb.tiled
    have hble := hb.le
    have hg5 : Gen.spanOf (bc.getD a 0) = some 5 := by rw [hg]; decide
    cases htc with
    | nil => rw [hg] at hcl; exact absurd hcl (by decide)
    | @cons _ k' _ hs' ht' =>
      have : k' = 5 := by
        rw [hg5] at hs'; cases hs'; rfl
      subst this
      rcases Nat.lt_or_ge c c0 with hlt0 | hge0
      · obtain ⟨a', h1, h2, h3, h4, h5, h6⟩ := ihb c ht' hlt0 hcl
        exact ⟨a', by omega, h2, .cons hg5 h3, h4, h5, h6⟩
      · have ht2 := hbt.split ht' hge0
        cases ht2 with
        | nil => exact ⟨a, Nat.le_refl _, hble, .nil _, hg, ⟨m, hb⟩, hl⟩
        | @cons _ k'' _ hs'' ht'' =>
          have hc9 : Gen.spanOf (bc.getD c0 0) = some 9 := by rw [hcl0]; decide
          have : k'' = 9 := by
            rw [hc9] at hs''; cases hs''; rfl
          subst this
          rcases Nat.lt_or_ge c (c0 + 9 + 4 * m) with hlt1 | hge1
          · rcases hp.starts ht'' hlt1 with h | ⟨h, _⟩
            · rw [hcl] at h; exact absurd h (by decide)
            · rw [hcl] at h; exact absurd h (by decide)
          · have ht3 := hp.tiled.split ht'' hge1
            obtain ⟨a', h1, h2, h3, h4, h5, h6⟩ := iht c ht3 hlt hcl
            have hpre : Tiled bc a (c0 + 9 + 4 * m) :=
              .cons hg5 (hbt.trans (.cons hc9 hp.tiled))
            exact ⟨a', by omega, h2, hpre.trans h3, h4, h5, h6⟩

open Cao.Bytecode in
/-- **`compiled_closure_dispatch`** (C06 `closure_dispatch_Full`, for every compiled program, under
    the weaker collision hypothesis of `C10b`, minus the `Goto`-operand clause): every `Closure`
    instruction at `q` of a compiled program belongs to a closure expression
    `Goto _; ⟨body⟩; Closure h arity; …` of the bytecode, starting at an instruction start `e - 5`
    with its body at `[e, q)`, and **the program's label table maps the handle operand `h` of the
    instruction to the entry `e` of that body** — calling the closure value the instruction creates
    (`C06.closure_object`: it carries `h`; the call looks `h` up in the label table) executes the
    body of the closure expression that created it. -/
theorem compiled_closure_dispatch {m std : Module} {limit : Nat} {p : Program}
    (h : compile m std limit = .ok p) (hd : C10b.ClosureHandlesDistinct m std limit p)
    (q : Nat) (hq : C10.IsInstr p q op.closure) :
    ∃ e, p.labels.find? (fun l => l.1 == UInt32.ofNat (Bytecode.rdU32 p.bytecode (q + 1))) =
          some (UInt32.ofNat (Bytecode.rdU32 p.bytecode (q + 1)), e) ∧
      5 ≤ e ∧ e ≤ q ∧ p.bytecode.getD (e - 5) 0 = op.goto ∧
      C10.IsStartPos p (e - 5) ∧ C10.IsStartPos p e ∧
      ∃ nUp, UpT p.bytecode (C10b.labelLog m std limit) nUp e q := by
  obtain ⟨unit, s, _, hrun, hbc, hlab, hlog⟩ := C10b.compile_run h
  have T := compileUnit_level hrun
  rw [← hbc, ← hlog] at T
  obtain ⟨hst, hlt, hop⟩ := hq
  obtain ⟨a', _, h2, h3, h4, ⟨nUp, h5⟩, h6⟩ := UpT.closure_entry T q hst hlt hop.symm
  have hfun : ∀ l2 ∈ C10b.labelLog m std limit, l2.1 = UInt32.ofNat (Bytecode.rdU32 p.bytecode (q + 1)) →
      l2.2 = a' + 5 := fun l2 hl2 e2 => hd q ⟨hst, hlt, hop⟩ _ h6 l2 hl2 rfl e2
  obtain ⟨e, he, hes⟩ := C10b.find_label h6 hfun
  rw [← hlog] at hlab
  rw [← hlab] at he
  have hkey : e.1 = UInt32.ofNat (Bytecode.rdU32 p.bytecode (q + 1)) := by
    have := List.find?_some he
    simpa using this
  have hee : e = (UInt32.ofNat (Bytecode.rdU32 p.bytecode (q + 1)), a' + 5) := by
    obtain ⟨e1, e2⟩ := e
    simp only at hkey hes
    rw [hkey, hes]
  rw [hee] at he
  have hlt' : a' < p.bytecode.size := by omega
  have hstart5 : Tiled p.bytecode 0 (a' + 5) := h3.trans (.cons (n := 5) (by rw [h4]; decide) (.nil _))
  refine ⟨a' + 5, he, by omega, h2, ?_, ?_, ⟨hstart5, by omega⟩, nUp, h5⟩
  · rw [Nat.add_sub_cancel]; exact h4
  · rw [Nat.add_sub_cancel]; exact ⟨h3, hlt'⟩

/-- … the same with the addresses in the vocabulary of C04, and for the interpreter's view of the
    program (`Vm.rdU32` is the same function as `Bytecode.rdU32`) -/
theorem compiled_closure_dispatch_vm {m std : Module} {limit : Nat} {p : Program}
    (h : compile m std limit = .ok p) (hd : C10b.ClosureHandlesDistinct m std limit p)
    (q : Nat) (hq : C04.Start p q) (hop : p.bytecode.getD q 0 = op.closure) :
    ∃ e, (Prog.ofProgram p).labels.find?
          (fun l => l.1 == UInt32.ofNat (Vm.rdU32 (Prog.ofProgram p).bytecode (q + 1))) =
          some (UInt32.ofNat (Vm.rdU32 (Prog.ofProgram p).bytecode (q + 1)), e) ∧
      5 ≤ e ∧ e ≤ q ∧ p.bytecode.getD (e - 5) 0 = op.goto ∧ C04.Start p (e - 5) ∧ C04.Start p e := by
  obtain ⟨h1, h2⟩ := (start_iff h q).1 hq
  obtain ⟨e, he, g1, g2, g3, g4, g5, _⟩ := compiled_closure_dispatch h hd q ⟨h1, h2, hop.symm⟩
  exact ⟨e, he, g1, g2, g3, (start_iff h _).2 g4, (start_iff h _).2 g5⟩

/-- the remaining full statement: as `compiled_closure_dispatch`, plus "the `Goto` in front of the
    body jumps to the `Closure` instruction" (`rdU32 (e - 4) = q`, the clause of
    `C06.closure_dispatch_Full` that is not proved: the level structure `UpT` deliberately ignores jump
    operands, so that back-patching does not disturb it; `C06.closureCode_spec` has the fact per closure
    expression at the time it is emitted, what is missing is that later back-patches leave that
    operand alone). -/
def closure_dispatch_Full' : Prop :=
  ∀ (m std : Module) (limit : Nat) (p : Program), compile m std limit = .ok p →
    C10b.ClosureHandlesDistinct m std limit p → ∀ q, C10.IsInstr p q op.closure →
      ∃ e, p.labels.find? (fun l => l.1 == UInt32.ofNat (Bytecode.rdU32 p.bytecode (q + 1))) =
            some (UInt32.ofNat (Bytecode.rdU32 p.bytecode (q + 1)), e) ∧
        5 ≤ e ∧ p.bytecode.getD (e - 5) 0 = op.goto ∧ Bytecode.rdU32 p.bytecode (e - 4) = q

/-! ## 3. non-vacuity -/

/-- the example of `C08b` / `C15b` (`main` calls `f(7)`): its label log is functional, so both
    no-collision hypotheses hold -/
theorem exM_labels : C10b.LabelHandlesDistinct C08b.exM C08b.exStd Gen.recursionLimit := by
  have h : decide (((C10b.labelLog C08b.exM C08b.exStd Gen.recursionLimit).map (·.1)).Pairwise (· ≠ ·)) = true := by
    decide +kernel
  exact C10b.functional_of_pairwise _ (of_decide_eq_true h)

example : FunctionHandlesDistinct C08b.exM C08b.exStd Gen.recursionLimit := .of_labels exM_labels

/-- facts about the two-level closure of `C10b` (evaluated on its `splitOn`-free twin): the decoded
    instruction list has `Closure` instructions at 31 and 46 (`C10b.twoLevel_bytes`) -/
def twoLevelCheck : Bool :=
  match C10b.finish (C10b.unitT.1.run {}) with
  | .error _ => false
  | .ok p =>
    match Bytecode.decodeAll p.bytecode (p.bytecode.size + 1) 0 [] with
    | .ok l => l.contains (31, op.closure) && l.contains (46, op.closure)
    | .error _ => false

theorem twoLevelCheck_true : twoLevelCheck = true := by decide +kernel

/-- the hypotheses of `compiled_closure_dispatch` are satisfiable: the two `Closure` instructions of
    the two-level closure of `C10b` -/
theorem twoLevel_dispatch : ∃ p, compile C10b.twoLevel C10b.stdE = .ok p ∧
    C10b.ClosureHandlesDistinct C10b.twoLevel C10b.stdE Gen.recursionLimit p ∧
    C10.IsInstr p 31 op.closure ∧ C10.IsInstr p 46 op.closure := by
  obtain ⟨p, hc, _, _, _, hd⟩ := C10b.hypsOK_sound C10b.twoLevel_hyps
  have hc' : compile C10b.twoLevel C10b.stdE = .ok p := hc
  have hchk := twoLevelCheck_true
  unfold twoLevelCheck at hchk
  rw [← C10b.compile_twin, hc'] at hchk
  obtain ⟨l, hl, hmem, _⟩ := C10.compile_decodes hc'
  simp only [hl, Bool.and_eq_true, List.contains_iff_mem] at hchk
  exact ⟨p, hc', hd, (hmem _ _).1 hchk.1, (hmem _ _).1 hchk.2⟩

/-- … and the conclusion for them: both handles are mapped to the entry of a body that sits behind a
    `Goto`, before the instruction -/
example : ∃ p e1 e2, compile C10b.twoLevel C10b.stdE = .ok p ∧
    p.labels.find? (fun l => l.1 == UInt32.ofNat (Bytecode.rdU32 p.bytecode 32)) =
      some (UInt32.ofNat (Bytecode.rdU32 p.bytecode 32), e1) ∧ 5 ≤ e1 ∧ e1 ≤ 31 ∧
    p.labels.find? (fun l => l.1 == UInt32.ofNat (Bytecode.rdU32 p.bytecode 47)) =
      some (UInt32.ofNat (Bytecode.rdU32 p.bytecode 47), e2) ∧ 5 ≤ e2 ∧ e2 ≤ 46 := by
  obtain ⟨p, hc, hd, h31, h46⟩ := twoLevel_dispatch
  obtain ⟨e1, a1, a2, a3, _⟩ := compiled_closure_dispatch hc hd 31 h31
  obtain ⟨e2, b1, b2, b3, _⟩ := compiled_closure_dispatch hc hd 46 h46
  exact ⟨p, e1, e2, hc, a1, a2, a3, b1, b2, b3⟩

end Cao.C08c
