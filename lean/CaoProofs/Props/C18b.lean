import CaoProofs.Props.C18
import CaoProofs.Props.C04
import CaoProofs.Lemmas.FramePrefix
/-!
# C18b — `run_function` restores the call stack also when it fails (`C18.run_function_frames_all_Full`)

`C18.run_function_frames` (from `NoPanicExec.exec_cfi`) says that, for a program with control-flow integrity,
`run_function` *returns* with exactly the call stack it was called on; `C18.run_function_frames_all_Full`
asked the same for failing runs and was left open (`exec_cfi` describes returning runs only).

`Lemmas/FramePrefix.lean` re-runs the fuel induction with a statement about the final state of **every**
run: the loop, started above a protected base `B`, ends — however it ends — on a call stack that extends `B`
(an instruction pops at most the running frame, and the base is entered only through a return to the final
`Exit`).  `run_function` cuts the call stack to its entry depth, hence restores it exactly.
-/
namespace Cao.C18
open Cao Cao.Vm Cao.FramePrefix

/-- **`run_function_frames_all_Full` holds**: for a program with control-flow integrity and a call stack
    whose return addresses are in `G`, after `run_function` — whether the callee returned, executed `Exit`,
    raised an error, a host function failed, the call stack overflowed, or the budget or the fuel ran out —
    the call stack of the machine is exactly the one it was called on. -/
theorem run_function_frames_all : run_function_frames_all_Full :=
  fun _ p hc gas f s hg => (exec_frames p hc gas).2 f s hg

/-- the form with the outcome named: the state after a *failing* `run_function` -/
theorem run_function_frames_err {G : Nat → Prop} (p : Prog) (hc : Cfi p G) (gas : Nat) (f : Val)
    {s s' : VmState} {e : RunErr} (hg : Good G s.frames)
    (herr : exec p gas (.call f) s = (s', .error e)) : s'.frames = s.frames := by
  have h := run_function_frames_all G p hc gas f s hg
  rw [herr] at h
  exact h

/-- the dispatch loop itself, for every outcome: started on `B ++ rest` (`rest ≠ []`) where the last frame of
    `B` returns to an `Exit`, it ends on a call stack that extends `B` -/
theorem loop_keeps_base {G : Nat → Prop} (p : Prog) (hc : Cfi p G) (gas ip : Nat) (s : VmState)
    (B rest : List Frame) (hB : BaseExit p B) (hr : rest ≠ []) (he : s.frames = B ++ rest)
    (hg : Good G s.frames) (hip : G ip) : B <+: (exec p gas (.loop ip) s).1.frames :=
  (exec_frames p hc gas).1 B ip s hB hg hip (.inl ⟨rest, hr, he⟩)

/-- every compiled (well-formed) program: `Bytecode.WF` gives `Cfi` (`C04.wf_cfi`) -/
theorem run_function_frames_all_wf {p : Compiler.Program} (h : Bytecode.WF p) (gas : Nat) (f : Val)
    (s : VmState) (hg : Good (C04.Start p) s.frames) :
    (exec (Prog.ofProgram p) gas (.call f) s).1.frames = s.frames :=
  run_function_frames_all _ _ (C04.wf_cfi h).1 gas f s hg

/-! ### non-vacuity -/

/-- a callee that fails: `CallFunction` (on an empty stack: the popped value is not a function object,
    `InvalidArgument`), followed by the final `Exit`; label 0 ↦ 0 -/
def failProg : Prog :=
  { bytecode := #[Compiler.op.callFunction, Compiler.op.exit], data := #[], labels := [(0, 0)], varNames := [],
    trace := [] }

theorem failProg_cfi : Cfi failProg (fun a => a = 0 ∨ a = 1) where
  valid src h := by rcases h with rfl | rfl <;> decide
  seq src sp h hs hne := by
    rcases h with rfl | rfl
    · have : sp = 1 := by
        have h1 : Gen.spanOf (failProg.bytecode.getD 0 0) = some 1 := by decide
        rw [h1] at hs; cases hs; rfl
      subst this; exact Or.inr rfl
    · exact absurd (by decide) hne
  jump src h hj := by rcases h with rfl | rfl <;> revert hj <;> decide
  label l hl := by
    simp only [failProg, List.mem_singleton] at hl
    subst hl; exact Or.inl rfl
  last := Or.inr rfl
  lastExit := by decide

/-- the run fails inside the callee (the error record has the three frames of that moment) and the call
    stack of the machine — one frame — is restored -/
example : (match exec failProg 5 (.call (.obj 1))
      { exitVm with frames := [⟨0, 1, 0, none⟩] } with
    | (s', .error e) => s'.frames.length == 1 && e.frames.length == 3
    | _ => false) = true := by decide +kernel

example : Good (fun a => a = 0 ∨ a = 1) ({ exitVm with frames := [⟨0, 1, 0, none⟩] } : VmState).frames := by
  intro f hf
  simp only [List.mem_singleton] at hf
  subst hf
  exact Or.inr rfl

end Cao.C18
