import CaoModel.HandleTable
import CaoProofs.Lemmas.OpenAddrRefine
/-!
# C13 — `HandleTable` is a finite map on non-zero handles

Property theorems only. `HTable` (in `CaoModel/HandleTable.lean`) is the code-shaped model of the
repaired `handle_table.rs`; here it is proved, for every capacity, every operation sequence and
every choice of injected allocation failures, that

* every reachable capacity is a power of two `≥ 2` (`ht_pow2`),
* the representation invariant `HTInv` is preserved and the probe loop terminates
  (`ht_inv_preserved`, `ht_find_terminates`); inserting any number of distinct non-zero handles
  through `insert`, `entry().or_insert_with` or a mix never panics and all are found afterwards
  (`ht_all_paths_terminate`),
* the model refines an association-list specification (`ht_refines`; the null handle is
  rejected and never stored; an operation whose allocation fails reports the error and leaves the
  table untouched: `ht_alloc_fail`),
* the frame property holds (`ht_frame`) and every accepted entry is handed back exactly once
  (`ht_drop_once`).

The only panics of the model are the two of `entry(k).or_insert_with`, which has no error
channel: `k` is the null handle, or the growth it needs fails to allocate. They are part of the
specification (`specStep`), and excluded by `Safe` in `ht_never_panics`.

The reusable theory is in `CaoProofs/Lemmas/OpenAddr.lean` and `OpenAddrRefine.lean`.
-/
namespace Cao.C13
open Cao

variable {V : Type}

/-! ## arithmetic of the growth policy -/

/-- a power of two that is at least 2 -/
def IsPow2 (n : Nat) : Prop := ∃ e, 1 ≤ e ∧ n = 2 ^ e

theorem ht_room {c cap : Nat} (h : HTable.needsGrow (c + 1) cap = false) : c + 1 < cap := by
  simp [HTable.needsGrow] at h; omega

theorem ht_padPot_pow2 (n : Nat) : IsPow2 (HTable.padPot n) :=
  ⟨Nat.log2 (n - 1) + 1, by omega, by unfold HTable.padPot; rw [Nat.pow_succ]; omega⟩

theorem ht_padPot_ge {x : Nat} (h : 2 ≤ x) : x ≤ HTable.padPot x := by
  have := Nat.lt_log2_self (n := x - 1)
  unfold HTable.padPot
  rw [Nat.pow_succ] at this
  omega

/-- capacity chosen by `adjust_capacity(c)` -/
def adjCap (c : Nat) : Nat := max (HTable.padPot c) 4

/-- capacity after `grow` -/
def grownCap (cap : Nat) : Nat := adjCap ((max cap 2 * 3) / 2)

theorem ht_adjCap_pow2 (c : Nat) : IsPow2 (adjCap c) := by
  obtain ⟨e, he, hp⟩ := ht_padPot_pow2 c
  unfold adjCap
  rw [hp]
  by_cases h2 : 2 ≤ e
  · have : 2 ^ 2 ≤ 2 ^ e := Nat.pow_le_pow_right (by omega) h2
    exact ⟨e, he, by omega⟩
  · have : e = 1 := by omega
    subst this
    exact ⟨2, by omega, by decide⟩

theorem ht_adjCap_ge (c : Nat) : c ≤ adjCap c := by
  unfold adjCap
  by_cases h : 2 ≤ c
  · have := ht_padPot_ge h; omega
  · omega

theorem ht_grownCap_gt (cap : Nat) : cap < grownCap cap := by
  unfold grownCap
  have := ht_adjCap_ge ((max cap 2 * 3) / 2)
  omega

private theorem home_lt {cap : Nat} (hc : 0 < cap) (k : UInt32) : HTable.home cap k < cap := by
  unfold HTable.home Hash.fibHome32; exact Nat.mod_lt _ hc

private theorem pow2_pos {n : Nat} (h : IsPow2 n) : 2 ≤ n := by
  obtain ⟨e, he, rfl⟩ := h
  have : 2 ^ 1 ≤ 2 ^ e := Nat.pow_le_pow_right (by omega) he
  omega

/-! ## representation invariant -/

def HTInv (t : HTable V) : Prop :=
  IsPow2 t.cap ∧ OA.Inv t.cap (HTable.home t.cap) t.slots ∧
    t.count = OA.size t.cap t.slots ∧ t.count < t.cap ∧ ∀ v, ¬ OA.Mem t.cap t.slots 0 v

private theorem zero_none {t : HTable V} {f : UInt32 → Option V} (hI : HTInv t)
    (habs : OA.Abs t.cap t.slots f) : f 0 = none := (OA.Abs_none habs).mpr hI.2.2.2.2

private theorem adjust_spec {t : HTable V} {f : UInt32 → Option V}
    (hI : HTInv t) (habs : OA.Abs t.cap t.slots f) (c : Nat) (hn : t.count < adjCap c)
    (al : Alloc) {ok : Bool} {al' : Alloc} (hst : HTable.allocStorage al = (ok, al')) :
    (ok = true → ∃ t', t.adjustCapacity c al = (al', .ok t') ∧ t'.cap = adjCap c ∧
        t'.count = t.count ∧ HTInv t' ∧ OA.Abs t'.cap t'.slots f) ∧
    (ok = false → t.adjustCapacity c al = (al', .allocErr)) := by
  have hz := zero_none hI habs
  obtain ⟨_, inv, hcnt, _, _⟩ := hI
  constructor
  · intro hok
    subst hok
    have hp := ht_adjCap_pow2 c
    have hc : 0 < adjCap c := by have := pow2_pos hp; omega
    obtain ⟨s', h1, h2, h3, h4⟩ := OA.rehash_abs (home' := HTable.home (adjCap c)) inv habs hc
      (home_lt hc) (by omega)
    refine ⟨{ cap := adjCap c, slots := OA.compact (adjCap c) s', count := t.count }, ?_, rfl, rfl,
      ?_, ?_⟩
    · simp only [HTable.adjustCapacity, hst]
      unfold adjCap at h1
      simp [h1, adjCap]
    · have habs' : OA.Abs (adjCap c) (OA.compact (adjCap c) s') f :=
        OA.Abs_congr (OA.compact_eq _ _) h3
      exact ⟨hp, OA.Inv_congr (OA.compact_eq _ _) h2,
        by simp only; rw [OA.size_congr (OA.compact_eq _ _), h4, hcnt], hn,
        (OA.Abs_none habs').mp hz⟩
    · exact OA.Abs_congr (OA.compact_eq _ _) h3
  · intro hok
    subst hok
    simp [HTable.adjustCapacity, hst]

/-- `_insert` under its precondition: the key is present or a second empty slot exists -/
private theorem insertRaw_spec {t : HTable V} {f : UInt32 → Option V}
    (hI : HTInv t) (habs : OA.Abs t.cap t.slots f) {k : UInt32} (hk0 : k ≠ 0) (v : V)
    (hroom : f k = none → t.count + 1 < t.cap) :
    ∃ t', t.insertRaw k v = .ok (t', (f k).map (fun w => (k, w))) ∧ t'.cap = t.cap ∧
      t'.count = t.count + (if (f k).isSome then 0 else 1) ∧ HTInv t' ∧
      OA.Abs t'.cap t'.slots (OA.fupd f k (some v)) := by
  have hz := zero_none hI habs
  obtain ⟨hp, inv, hcnt, hlt, _⟩ := hI
  obtain ⟨s', hput, inv', habs', hsz⟩ := OA.put_spec inv habs k v (by rw [← hcnt]; exact hroom)
  refine ⟨{ t with slots := s', count := if (f k).isSome then t.count else t.count + 1 }, ?_, rfl,
    ?_, ?_, habs'⟩
  · simp only [HTable.insertRaw, hput]
    cases f k <;> rfl
  · simp only; split <;> omega
  · refine ⟨hp, inv', ?_, ?_, ?_⟩
    · simp only; rw [hsz, hcnt]; split <;> omega
    · simp only
      cases hfk : f k with
      | none => simp; exact hroom hfk
      | some w => simp; exact hlt
    · apply (OA.Abs_none habs').mp
      rw [OA.fupd_other _ _ _ (Ne.symm hk0)]; exact hz

/-- `insert` of a non-zero handle: grows first (two allocations) when `(count+1) > 0.69 cap`,
    whether or not the key is already present -/
private theorem insert_spec {t : HTable V} {f : UInt32 → Option V}
    (hI : HTInv t) (habs : OA.Abs t.cap t.slots f) {k : UInt32} (hk0 : k ≠ 0) (v : V)
    (al : Alloc) {ok : Bool} {al' : Alloc} (hst : HTable.allocStorage al = (ok, al')) :
    (HTable.needsGrow (t.count + 1) t.cap = false →
      ∃ t', t.insert k v al = (t', al, .ok (.ok ((f k).map (fun w => (k, w))))) ∧
        t'.cap = t.cap ∧ t'.count = t.count + (if (f k).isSome then 0 else 1) ∧ HTInv t' ∧
        OA.Abs t'.cap t'.slots (OA.fupd f k (some v))) ∧
    (HTable.needsGrow (t.count + 1) t.cap = true → ok = true →
      ∃ t', t.insert k v al = (t', al', .ok (.ok ((f k).map (fun w => (k, w))))) ∧
        t'.cap = grownCap t.cap ∧ t'.count = t.count + (if (f k).isSome then 0 else 1) ∧
        HTInv t' ∧ OA.Abs t'.cap t'.slots (OA.fupd f k (some v))) ∧
    (HTable.needsGrow (t.count + 1) t.cap = true → ok = false →
      t.insert k v al = (t, al', .ok (.error .alloc))) := by
  refine ⟨?_, ?_, ?_⟩
  · intro hng
    obtain ⟨t', hraw, h1, h2, h3, h4⟩ := insertRaw_spec hI habs hk0 v (fun _ => ht_room hng)
    refine ⟨t', ?_, h1, h2, h3, h4⟩
    simp [HTable.insert, hk0, hng, hraw]
  · intro hg hok
    have hgc := ht_grownCap_gt t.cap
    have hlt := hI.2.2.2.1
    obtain ⟨t1, hadj, hcap1, hcnt1, hI1, habs1⟩ :=
      (adjust_spec hI habs ((max t.cap 2 * 3) / 2) (by unfold grownCap at hgc; omega) al hst).1 hok
    obtain ⟨t', hraw, h1, h2, h3, h4⟩ := insertRaw_spec hI1 habs1 hk0 v
      (by intro _; rw [hcnt1, hcap1]; unfold grownCap at hgc; omega)
    refine ⟨t', ?_, by rw [h1, hcap1]; rfl, by rw [h2, hcnt1], h3, h4⟩
    simp [HTable.insert, hk0, hg, HTable.grow, hadj, hraw]
  · intro hg hok
    have hgc := ht_grownCap_gt t.cap
    have hlt := hI.2.2.2.1
    have hadj := (adjust_spec hI habs ((max t.cap 2 * 3) / 2)
      (by unfold grownCap at hgc; omega) al hst).2 hok
    simp [HTable.insert, hk0, hg, HTable.grow, hadj]

private theorem insert_zero (t : HTable V) (v : V) (al : Alloc) :
    t.insert 0 v al = (t, al, .ok (.error .invalidHandle)) := by
  simp [HTable.insert]

private theorem get_eq {t : HTable V} {f : UInt32 → Option V}
    (hI : HTInv t) (habs : OA.Abs t.cap t.slots f) (k : UInt32) : t.get k = f k :=
  OA.get_spec hI.2.1 habs k

private theorem remove_spec {t : HTable V} {f : UInt32 → Option V}
    (hI : HTInv t) (habs : OA.Abs t.cap t.slots f) (k : UInt32) :
    ∃ t', t.remove k = (t', .ok ((f k).map (fun w => (k, w)))) ∧ t'.cap = t.cap ∧
      t'.count + (if (f k).isSome then 1 else 0) = t.count ∧ HTInv t' ∧
      OA.Abs t'.cap t'.slots (OA.fupd f k none) := by
  have hz := zero_none hI habs
  have hI' := hI
  obtain ⟨hp, inv, hcnt, hlt, hzero⟩ := hI
  obtain ⟨s', he, inv', habs', hsz⟩ := OA.erase_spec inv habs k
  cases hk : f k with
  | none =>
    rw [hk] at he hsz
    refine ⟨t, ?_, rfl, by simp, hI', ?_⟩
    · simp only [HTable.remove, he]; simp
    · intro k' v'
      by_cases hkk : k' = k
      · subst hkk; simp [OA.fupd_same]; exact (OA.Abs_none habs).mp hk v'
      · rw [OA.fupd_other _ _ _ hkk]; exact habs k' v'
  | some w =>
    rw [hk] at he hsz
    simp only [Option.isSome_some, if_true] at hsz
    refine ⟨{ t with slots := s', count := t.count - 1 }, ?_, rfl, by simp; omega, ?_, habs'⟩
    · simp only [HTable.remove, he]; simp
    · refine ⟨hp, inv', by simp only; omega, by simp only; omega, ?_⟩
      apply (OA.Abs_none habs').mp
      by_cases h0 : (0 : UInt32) = k
      · subst h0; exact OA.fupd_same _ _ _
      · rw [OA.fupd_other _ _ _ h0]; exact hz

private theorem reserve_spec {t : HTable V} {f : UInt32 → Option V}
    (hI : HTInv t) (habs : OA.Abs t.cap t.slots f) (n : Nat)
    (al : Alloc) {ok : Bool} {al' : Alloc} (hst : HTable.allocStorage al = (ok, al')) :
    (¬ n + t.count > t.cap → t.reserve n al = (al, .ok t)) ∧
    (n + t.count > t.cap → ok = true →
      ∃ t', t.reserve n al = (al', .ok t') ∧ t'.cap = adjCap ((n + t.count) * 169 / 100) ∧
        t'.count = t.count ∧ HTInv t' ∧ OA.Abs t'.cap t'.slots f) ∧
    (n + t.count > t.cap → ok = false → t.reserve n al = (al', .allocErr)) := by
  refine ⟨?_, ?_, ?_⟩
  · intro h; simp [HTable.reserve, h]
  · intro h hok
    have hge := ht_adjCap_ge ((n + t.count) * 169 / 100)
    have hlt := hI.2.2.2.1
    obtain ⟨t', hadj, h1, h2, h3, h4⟩ :=
      (adjust_spec hI habs ((n + t.count) * 169 / 100) (by omega) al hst).1 hok
    exact ⟨t', by simp [HTable.reserve, h, hadj], h1, h2, h3, h4⟩
  · intro h hok
    have hge := ht_adjCap_ge ((n + t.count) * 169 / 100)
    have hlt := hI.2.2.2.1
    have hadj := (adjust_spec hI habs ((n + t.count) * 169 / 100) (by omega) al hst).2 hok
    simp [HTable.reserve, h, hadj]

private theorem empty_inv {cap : Nat} (hp : IsPow2 cap) :
    HTInv ({ cap := cap, slots := OA.empty, count := 0 } : HTable V) := by
  have hc : 0 < cap := by have := pow2_pos hp; omega
  refine ⟨hp, OA.empty_inv hc (home_lt hc), by simp, hc, ?_⟩
  rintro v ⟨i, _, hs⟩; simp [OA.empty] at hs

private theorem clear_spec {t : HTable V} (hI : HTInv t) :
    (t.clear).2 = t.toList ∧ (t.clear).1.cap = t.cap ∧ (t.clear).1.count = 0 ∧
      HTInv (t.clear).1 ∧ OA.Abs (t.clear).1.cap (t.clear).1.slots (fun _ => none) :=
  ⟨rfl, rfl, rfl, empty_inv hI.1, OA.empty_abs _⟩

private theorem withCapacity_spec (c : Nat) (al : Alloc) {ok : Bool}
    {al' : Alloc} (hst : HTable.allocStorage al = (ok, al')) :
    (ok = true → ∃ t : HTable V, HTable.withCapacity c al = (al', .ok t) ∧
        t.cap = HTable.padPot (max c 2) ∧ t.count = 0 ∧ HTInv t ∧
        OA.Abs t.cap t.slots (fun _ => none)) ∧
    (ok = false → (HTable.withCapacity c al : Alloc × Res (HTable V)) = (al', .allocErr)) := by
  constructor
  · intro hok; subst hok
    refine ⟨{ cap := HTable.padPot (max c 2), slots := OA.empty, count := 0 }, ?_, rfl, rfl,
      empty_inv (ht_padPot_pow2 _), OA.empty_abs _⟩
    simp [HTable.withCapacity, hst]
  · intro hok; subst hok
    simp [HTable.withCapacity, hst]

/-! ## `clone`: the capacity it ends with and the allocations it performs -/

/-- capacity after inserting `n` further new handles into a table of capacity `cap` holding
    `cnt` handles (`none`: an allocation failed) -/
def specCloneLoop : Nat → Nat → Nat → Alloc → Option Nat × Alloc
  | 0, cap, _, al => (some cap, al)
  | n+1, cap, cnt, al =>
    if HTable.needsGrow (cnt + 1) cap then
      if (HTable.allocStorage al).1 then
        specCloneLoop n (grownCap cap) (cnt + 1) (HTable.allocStorage al).2
      else (none, (HTable.allocStorage al).2)
    else specCloneLoop n cap (cnt + 1) al

/-- capacity of the clone of a table with capacity `cap` and `n` handles -/
def specCloneCap (cap n : Nat) (al : Alloc) : Option Nat :=
  if (HTable.allocStorage al).1 then
    (specCloneLoop n (HTable.padPot (max cap 2)) 0 (HTable.allocStorage al).2).1
  else none

private def cloneStep (acc : Alloc × Res (HTable V)) (kv : UInt32 × V) : Alloc × Res (HTable V) :=
  match acc with
  | (al, .ok c) =>
    match c.insert kv.1 kv.2 al with
    | (c', al, .ok (.ok _)) => (al, .ok c')
    | (_, al, .ok (.error _)) => (al, .allocErr)
    | (_, al, .allocErr) => (al, .allocErr)
    | (_, al, .panic w) => (al, .panic w)
  | other => other

private theorem clone_unfold (t : HTable V) (al : Alloc) :
    t.clone al =
      match (HTable.withCapacity t.cap al : Alloc × Res (HTable V)) with
      | (al, .ok fresh) => t.toList.foldl cloneStep (al, .ok fresh)
      | (al, .allocErr) => (al, .allocErr)
      | (al, .panic w) => (al, .panic w) := rfl

private theorem foldl_cloneStep_err (xs : List (UInt32 × V)) (al : Alloc) :
    xs.foldl cloneStep (al, (.allocErr : Res (HTable V))) = (al, .allocErr) := by
  induction xs with
  | nil => rfl
  | cons x xs ih => simp only [List.foldl_cons, cloneStep]; exact ih

private theorem clone_loop :
    ∀ (xs : List (UInt32 × V)) (c : HTable V) (al : Alloc), HTInv c →
      (xs.map Prod.fst).Nodup → (∀ kv ∈ xs, kv.1 ≠ 0) →
      (∀ kv ∈ xs, ∀ w, ¬ OA.Mem c.cap c.slots kv.1 w) →
      (∀ cap' al', specCloneLoop xs.length c.cap c.count al = (some cap', al') →
        ∃ c', xs.foldl cloneStep (al, .ok c) = (al', .ok c') ∧ c'.cap = cap' ∧
          c'.count = c.count + xs.length ∧ HTInv c' ∧
          ∀ k v, OA.Mem c'.cap c'.slots k v ↔ OA.Mem c.cap c.slots k v ∨ (k, v) ∈ xs) ∧
      (∀ al', specCloneLoop xs.length c.cap c.count al = (none, al') →
        xs.foldl cloneStep (al, .ok c) = (al', .allocErr)) := by
  intro xs
  induction xs with
  | nil =>
    intro c al hI _ _ _
    constructor
    · intro cap' al' h
      simp only [List.length_nil, specCloneLoop, Prod.mk.injEq, Option.some.injEq] at h
      obtain ⟨rfl, rfl⟩ := h
      exact ⟨c, rfl, rfl, rfl, hI, by simp⟩
    · intro al' h
      simp [specCloneLoop] at h
  | cons kv xs ih =>
    intro c al hI hnd hnz hfresh
    obtain ⟨k, v⟩ := kv
    simp only [List.map_cons, List.nodup_cons] at hnd
    have hk0 : k ≠ 0 := hnz (k, v) (by simp)
    have hnz' : ∀ kv ∈ xs, kv.1 ≠ 0 := fun kv h => hnz kv (List.mem_cons_of_mem _ h)
    have habs := OA.Abs_get hI.2.1
    have hk : OA.get c.cap (HTable.home c.cap) c.slots k = none :=
      (OA.Abs_none habs).mpr (hfresh (k, v) (by simp))
    rcases hst : HTable.allocStorage al with ⟨ok, al1⟩
    obtain ⟨hA, hB, hC⟩ := insert_spec hI habs hk0 v al hst
    rw [hk] at hA hB
    simp only [Option.map_none, Option.isSome_none, Bool.false_eq_true, if_false] at hA hB
    have hrest : ∀ c1 : HTable V,
        OA.Abs c1.cap c1.slots
          (OA.fupd (OA.get c.cap (HTable.home c.cap) c.slots) k (some v)) →
        (∀ kv ∈ xs, ∀ w, ¬ OA.Mem c1.cap c1.slots kv.1 w) ∧
        (∀ k' v', (OA.Mem c1.cap c1.slots k' v' ∨ (k', v') ∈ xs) ↔
            (OA.Mem c.cap c.slots k' v' ∨ (k', v') ∈ (k, v) :: xs)) := by
      intro c1 habs1
      constructor
      · intro kv' hkv' w hm
        have := (habs1 kv'.1 w).mpr hm
        by_cases hkk : kv'.1 = k
        · exact hnd.1 (List.mem_map.mpr ⟨kv', hkv', hkk⟩)
        · rw [OA.fupd_other _ _ _ hkk] at this
          exact hfresh kv' (List.mem_cons_of_mem _ hkv') w ((habs _ _).mp this)
      · intro k' v'
        rw [← habs1 k' v']
        by_cases hkk : k' = k
        · subst hkk
          simp only [OA.fupd_same, List.mem_cons, Prod.mk.injEq, true_and]
          constructor
          · rintro (h | h)
            · simp at h; subst h; exact Or.inr (Or.inl rfl)
            · exact Or.inr (Or.inr h)
          · rintro (h | h | h)
            · exact absurd h (hfresh (k', v) (by simp) v')
            · subst h; exact Or.inl rfl
            · exact Or.inr h
        · rw [OA.fupd_other _ _ _ hkk, habs k' v']
          simp [hkk]
    cases hg : HTable.needsGrow (c.count + 1) c.cap with
    | false =>
      obtain ⟨c1, hins, hcap1, hcnt1, hI1, habs1⟩ := hA hg
      obtain ⟨hfresh1, hmem1⟩ := hrest c1 habs1
      obtain ⟨ih1, ih2⟩ := ih c1 al hI1 hnd.2 hnz' hfresh1
      have hstep : cloneStep (al, .ok c) (k, v) = (al, .ok c1) := by
        simp only [cloneStep, hins]
      simp only [List.length_cons, specCloneLoop, hg, List.foldl_cons, hstep, Bool.false_eq_true,
        if_false]
      constructor
      · intro cap' al' h
        obtain ⟨c', h1, h2, h3, h4, h5⟩ := ih1 cap' al' (by rw [hcap1, hcnt1]; exact h)
        exact ⟨c', h1, h2, by omega, h4, fun k' v' => by rw [h5, hmem1]⟩
      · intro al' h
        exact ih2 al' (by rw [hcap1, hcnt1]; exact h)
    | true =>
      cases ok with
      | true =>
        obtain ⟨c1, hins, hcap1, hcnt1, hI1, habs1⟩ := hB hg rfl
        obtain ⟨hfresh1, hmem1⟩ := hrest c1 habs1
        obtain ⟨ih1, ih2⟩ := ih c1 al1 hI1 hnd.2 hnz' hfresh1
        have hstep : cloneStep (al, .ok c) (k, v) = (al1, .ok c1) := by
          simp only [cloneStep, hins]
        simp only [List.length_cons, specCloneLoop, hg, List.foldl_cons, hstep, hst, if_true]
        constructor
        · intro cap' al' h
          obtain ⟨c', h1, h2, h3, h4, h5⟩ := ih1 cap' al' (by rw [hcap1, hcnt1]; exact h)
          exact ⟨c', h1, h2, by omega, h4, fun k' v' => by rw [h5, hmem1]⟩
        · intro al' h
          exact ih2 al' (by rw [hcap1, hcnt1]; exact h)
      | false =>
        have hins := hC hg rfl
        have hstep : cloneStep (al, .ok c) (k, v) = (al1, .allocErr) := by
          simp only [cloneStep, hins]
        simp only [List.length_cons, specCloneLoop, hg, List.foldl_cons, hstep, hst, if_true,
          Bool.false_eq_true, if_false, foldl_cloneStep_err]
        constructor
        · intro cap' al' h; simp at h
        · intro al' h
          simp only [Prod.mk.injEq, true_and] at h
          rw [h]

private theorem clone_spec {t : HTable V} {f : UInt32 → Option V}
    (hI : HTInv t) (habs : OA.Abs t.cap t.slots f) (al : Alloc) :
    (∀ cap', specCloneCap t.cap t.count al = some cap' →
      ∃ t' al', t.clone al = (al', .ok t') ∧ t'.cap = cap' ∧ t'.count = t.count ∧
        HTInv t' ∧ OA.Abs t'.cap t'.slots f) ∧
    (specCloneCap t.cap t.count al = none → ∃ al', t.clone al = (al', .allocErr)) := by
  rcases hst : HTable.allocStorage al with ⟨ok, al1⟩
  obtain ⟨hW1, hW2⟩ := withCapacity_spec (V := V) t.cap al hst
  rw [clone_unfold]
  unfold specCloneCap
  rw [hst]
  cases ok with
  | false =>
    rw [hW2 rfl]
    simp
  | true =>
    obtain ⟨c0, hw, hcap0, hcnt0, hI0, habs0⟩ := hW1 rfl
    rw [hw]
    simp only [if_true]
    have hlen : (t.toList).length = t.count := by
      rw [hI.2.2.1]; rfl
    obtain ⟨h1, h2⟩ := clone_loop t.toList c0 al1 hI0
      (OA.toList_keys_nodup hI.2.1.distinct)
      (by
        rintro ⟨k, v⟩ hkv h0
        simp only at h0; subst h0
        exact hI.2.2.2.2 v (OA.mem_toList.mp hkv))
      (by intro kv _ w hm; have := (habs0 kv.1 w).mpr hm; cases this)
    rw [hcap0, hcnt0, hlen] at h1 h2
    constructor
    · intro cap' hcl
      rcases hloop : specCloneLoop t.count (HTable.padPot (max t.cap 2)) 0 al1 with ⟨oc, al2⟩
      rw [hloop] at hcl
      simp only at hcl
      subst hcl
      obtain ⟨c', hf, hcap', hcnt', hI', hmem'⟩ := h1 cap' al2 hloop
      refine ⟨c', al2, hf, hcap', by omega, hI', ?_⟩
      intro k v
      rw [hmem', habs k v]
      constructor
      · intro h; exact Or.inr (OA.mem_toList.mpr h)
      · rintro (h | h)
        · have := (habs0 k v).mpr (by rw [hcap0]; exact h); cases this
        · exact OA.mem_toList.mp h
    · intro hcl
      rcases hloop : specCloneLoop t.count (HTable.padPot (max t.cap 2)) 0 al1 with ⟨oc, al2⟩
      rw [hloop] at hcl
      simp only at hcl
      subst hcl
      exact ⟨al2, h2 al2 hloop⟩

/-! ## Specification: an association list without duplicate keys, plus the capacity -/

structure Spec (V : Type) where
  cap : Nat
  l : List (UInt32 × V)

/-- allocation oracle of one operation: its `failAt`-th allocation fails -/
def oracle (failAt : Option Nat) : Alloc := { n := 0, failAt := failAt }

inductive Op (V : Type) where
  | insert (k : UInt32) (v : V) (failAt : Option Nat)
  | entry (k : UInt32) (v : V) (failAt : Option Nat)
  | remove (k : UInt32)
  | get (k : UInt32)
  | contains (k : UInt32)
  | reserve (n : Nat) (failAt : Option Nat)
  | clear
  /-- clone the table and continue on the clone -/
  | clone (failAt : Option Nat)
  | len
  | iter

inductive Out (V : Type) where
  | displaced (old : Option (UInt32 × V))
  | invalidHandle
  | entry (inserted : Bool) (stored : V)
  | removed (old : Option (UInt32 × V))
  | value (o : Option V)
  | bool (b : Bool)
  | unit
  | num (n : Nat)
  | items (l : List (UInt32 × V))
  | dropped (l : List (UInt32 × V))
  | allocErr
  | panic
  deriving DecidableEq

/-- make room before an insertion: grow (two allocations) when `(len+1) > 0.69 cap` -/
def specMakeRoom (st : Spec V) (al : Alloc) : Option (Spec V) :=
  if HTable.needsGrow (st.l.length + 1) st.cap then
    if (HTable.allocStorage al).1 then some { st with cap := grownCap st.cap } else none
  else some st

def specStep (st : Spec V) : Op V → Spec V × Out V
  | .insert k v fa =>
    if k = 0 then (st, .invalidHandle) else
    match specMakeRoom st (oracle fa) with
    | some st' => ({ st' with l := AL.insert st'.l k v },
                   .displaced ((AL.lookup st.l k).map (fun w => (k, w))))
    | none => (st, .allocErr)
  | .entry k v fa =>
    match AL.lookup st.l k with
    | some cur => (st, .entry false cur)
    | none =>
      -- `entry` has no error channel: the null handle and a failed growth are panics
      if k = 0 then (st, .panic) else
      match specMakeRoom st (oracle fa) with
      | some st' => ({ st' with l := AL.insert st'.l k v }, .entry true v)
      | none => (st, .panic)
  | .remove k => ({ st with l := AL.erase st.l k }, .removed ((AL.lookup st.l k).map (fun w => (k, w))))
  | .get k => (st, .value (AL.lookup st.l k))
  | .contains k => (st, .bool (AL.lookup st.l k).isSome)
  | .reserve n fa =>
    if n + st.l.length > st.cap then
      if (HTable.allocStorage (oracle fa)).1 then
        ({ st with cap := adjCap ((n + st.l.length) * 169 / 100) }, .unit)
      else (st, .allocErr)
    else (st, .unit)
  | .clear => ({ st with l := [] }, .dropped st.l)
  | .clone fa =>
    match specCloneCap st.cap st.l.length (oracle fa) with
    | some cap' => ({ st with cap := cap' }, .unit)
    | none => (st, .allocErr)
  | .len => (st, .num st.l.length)
  | .iter => (st, .items st.l)

/-! ## The model's step function -/

def modelStep (t : HTable V) : Op V → HTable V × Out V
  | .insert k v fa =>
    match t.insert k v (oracle fa) with
    | (t', _, .ok (.ok old)) => (t', .displaced old)
    | (t', _, .ok (.error .invalidHandle)) => (t', .invalidHandle)
    | (t', _, .ok (.error .alloc)) => (t', .allocErr)
    | (t', _, .allocErr) => (t', .allocErr)
    | (t', _, .panic _) => (t', .panic)
  | .entry k v fa =>
    match t.entryOrInsert k v (oracle fa) with
    | (t', _, .ok (b, x)) => (t', .entry b x)
    | (t', _, .allocErr) => (t', .allocErr)
    | (t', _, .panic _) => (t', .panic)
  | .remove k =>
    match t.remove k with
    | (t', .ok old) => (t', .removed old)
    | (t', .allocErr) => (t', .allocErr)
    | (t', .panic _) => (t', .panic)
  | .get k => (t, .value (t.get k))
  | .contains k => (t, .bool (t.contains k))
  | .reserve n fa =>
    match t.reserve n (oracle fa) with
    | (_, .ok t') => (t', .unit)
    | (_, .allocErr) => (t, .allocErr)
    | (_, .panic _) => (t, .panic)
  | .clear => ((t.clear).1, .dropped (t.clear).2)
  | .clone fa =>
    match t.clone (oracle fa) with
    | (_, .ok t') => (t', .unit)
    | (_, .allocErr) => (t, .allocErr)
    | (_, .panic _) => (t, .panic)
  | .len => (t, .num t.count)
  | .iter => (t, .items t.toList)

/-- outputs agree; iteration orders agree up to permutation -/
def OutEq (a b : Out V) : Prop :=
  a = b ∨ (∃ x y, a = .items x ∧ b = .items y ∧ x.Perm y) ∨
    (∃ x y, a = .dropped x ∧ b = .dropped y ∧ x.Perm y)

/-- refinement relation between a model state and a specification state -/
def R (t : HTable V) (st : Spec V) : Prop :=
  HTInv t ∧ st.cap = t.cap ∧ AL.WF st.l ∧ OA.Abs t.cap t.slots (AL.lookup st.l)

private theorem R_len {t : HTable V} {st : Spec V} (h : R t st) : st.l.length = t.count := by
  rw [h.1.2.2.1]; exact AL.length_eq_size h.1.2.1 h.2.2.1 h.2.2.2

private theorem R_perm {t : HTable V} {st : Spec V} (h : R t st) : (t.toList).Perm st.l :=
  (AL.perm_toList h.1.2.1 h.2.2.1 h.2.2.2).symm

/-- every state satisfying the invariant is related to its own iteration list -/
theorem R_canon {t : HTable V} (hI : HTInv t) : R t { cap := t.cap, l := t.toList } :=
  ⟨hI, rfl, AL.WF_toList hI.2.1, AL.abs_toList hI.2.1⟩

private theorem insert_step {t : HTable V} {st : Spec V} (h : R t st) {k : UInt32} (hk0 : k ≠ 0)
    (v : V) (al : Alloc) :
    (∀ st', specMakeRoom st al = some st' →
      ∃ t' al', t.insert k v al = (t', al', .ok (.ok ((AL.lookup st.l k).map (fun w => (k, w))))) ∧
        R t' { st' with l := AL.insert st'.l k v }) ∧
    (specMakeRoom st al = none → ∃ al', t.insert k v al = (t, al', .ok (.error .alloc))) := by
  have hlen := R_len h
  obtain ⟨hI, hcap, wf, habs⟩ := h
  rcases hst : HTable.allocStorage al with ⟨ok, al1⟩
  obtain ⟨hA, hB, hC⟩ := insert_spec hI habs hk0 v al hst
  unfold specMakeRoom
  rw [hlen, hcap, hst]
  cases hg : HTable.needsGrow (t.count + 1) t.cap with
  | false =>
    obtain ⟨t', hins, hcap', _, hI', habs'⟩ := hA hg
    simp only [Bool.false_eq_true, if_false, Option.some.injEq]
    refine ⟨?_, fun h => (by cases h)⟩
    rintro st' rfl
    rw [AL.lookup_insert_fupd] at habs'
    exact ⟨t', al, hins, hI', by simp only; rw [hcap', hcap], AL.WF_insert wf k v, habs'⟩
  | true =>
    cases ok with
    | true =>
      obtain ⟨t', hins, hcap', _, hI', habs'⟩ := hB hg rfl
      simp only [if_true, Option.some.injEq]
      refine ⟨?_, fun h => (by cases h)⟩
      rintro st' rfl
      rw [AL.lookup_insert_fupd] at habs'
      exact ⟨t', al1, hins, hI', by simp only; rw [hcap'], AL.WF_insert wf k v, habs'⟩
    | false =>
      simp only [if_true, Bool.false_eq_true, if_false]
      exact ⟨fun st' h => (by cases h), fun _ => ⟨al1, hC hg rfl⟩⟩

/-! ## one-step refinement -/

theorem step_refines {t : HTable V} {st : Spec V} (h : R t st) (op : Op V) :
    R (modelStep t op).1 (specStep st op).1 ∧ OutEq (modelStep t op).2 (specStep st op).2 := by
  have hlen := R_len h
  have hperm := R_perm h
  have h0 := h
  obtain ⟨hI, hcap, wf, habs⟩ := h
  cases op with
  | insert k v fa =>
    by_cases hk0 : k = 0
    · subst hk0
      simp only [modelStep, specStep, insert_zero, if_true]
      exact ⟨h0, Or.inl rfl⟩
    · obtain ⟨h1, h2⟩ := insert_step h0 hk0 v (oracle fa)
      cases hr : specMakeRoom st (oracle fa) with
      | some st' =>
        obtain ⟨t', al', hins, hR⟩ := h1 st' hr
        simp only [modelStep, specStep, hins, hr, hk0, if_false]
        exact ⟨hR, Or.inl rfl⟩
      | none =>
        obtain ⟨al', hins⟩ := h2 hr
        simp only [modelStep, specStep, hins, hr, hk0, if_false]
        exact ⟨h0, Or.inl rfl⟩
  | entry k v fa =>
    have hget := get_eq hI habs k
    cases hl : AL.lookup st.l k with
    | some cur =>
      rw [hl] at hget
      simp only [modelStep, specStep, HTable.entryOrInsert, hget, hl]
      exact ⟨h0, Or.inl rfl⟩
    | none =>
      rw [hl] at hget
      by_cases hk0 : k = 0
      · subst hk0
        simp only [modelStep, specStep, HTable.entryOrInsert, hget, hl, insert_zero, if_true]
        exact ⟨h0, Or.inl rfl⟩
      · obtain ⟨h1, h2⟩ := insert_step h0 hk0 v (oracle fa)
        cases hr : specMakeRoom st (oracle fa) with
        | some st' =>
          obtain ⟨t', al', hins, hR⟩ := h1 st' hr
          simp only [modelStep, specStep, HTable.entryOrInsert, hget, hins, hl, hr, hk0, if_false]
          exact ⟨hR, Or.inl rfl⟩
        | none =>
          obtain ⟨al', hins⟩ := h2 hr
          simp only [modelStep, specStep, HTable.entryOrInsert, hget, hins, hl, hr, hk0, if_false]
          exact ⟨h0, Or.inl rfl⟩
  | remove k =>
    obtain ⟨t', hrem, hcap', _, hI', habs'⟩ := remove_spec hI habs k
    rw [AL.lookup_erase_fupd] at habs'
    simp only [modelStep, specStep, hrem]
    exact ⟨⟨hI', by simp only; rw [hcap', hcap], AL.WF_erase wf k, habs'⟩, Or.inl rfl⟩
  | get k =>
    simp only [modelStep, specStep, get_eq hI habs k]
    exact ⟨h0, Or.inl rfl⟩
  | contains k =>
    simp only [modelStep, specStep, HTable.contains, get_eq hI habs k]
    exact ⟨h0, Or.inl rfl⟩
  | reserve n fa =>
    rcases hst : HTable.allocStorage (oracle fa) with ⟨ok, al1⟩
    obtain ⟨hA, hB, hC⟩ := reserve_spec hI habs n (oracle fa) hst
    simp only [modelStep, specStep, hlen, hcap, hst]
    by_cases hgt : n + t.count > t.cap
    · cases ok with
      | true =>
        obtain ⟨t', hres, hcap', _, hI', habs'⟩ := hB hgt rfl
        simp only [hres, hgt, if_true]
        exact ⟨⟨hI', by simp only; rw [hcap'], wf, habs'⟩, Or.inl rfl⟩
      | false =>
        simp only [hC hgt rfl, hgt, if_true, Bool.false_eq_true, if_false]
        exact ⟨h0, Or.inl rfl⟩
    · simp only [hA hgt, hgt, if_false]
      exact ⟨h0, Or.inl rfl⟩
  | clear =>
    obtain ⟨hout, hcap', _, hI', habs'⟩ := clear_spec hI
    simp only [modelStep, specStep]
    refine ⟨⟨hI', by simp only; rw [hcap', hcap], AL.WF_nil, habs'⟩,
      Or.inr (Or.inr ⟨_, _, rfl, rfl, ?_⟩)⟩
    rw [hout]; exact hperm
  | clone fa =>
    obtain ⟨hA, hB⟩ := clone_spec hI habs (oracle fa)
    simp only [modelStep, specStep, hlen, hcap]
    cases hc : specCloneCap t.cap t.count (oracle fa) with
    | some cap' =>
      obtain ⟨t', al', hcl, hcap', _, hI', habs'⟩ := hA cap' hc
      simp only [hcl]
      exact ⟨⟨hI', by simp only; rw [hcap'], wf, habs'⟩, Or.inl rfl⟩
    | none =>
      obtain ⟨al', hcl⟩ := hB hc
      simp only [hcl]
      exact ⟨h0, Or.inl rfl⟩
  | len =>
    simp only [modelStep, specStep, hlen]
    exact ⟨h0, Or.inl rfl⟩
  | iter =>
    simp only [modelStep, specStep]
    exact ⟨h0, Or.inr (Or.inl ⟨_, _, rfl, rfl, hperm⟩)⟩

/-! ## runs -/

def runModel (t : HTable V) : List (Op V) → List (Out V)
  | [] => []
  | op :: ops => (modelStep t op).2 :: runModel (modelStep t op).1 ops

def runSpec (st : Spec V) : List (Op V) → List (Out V)
  | [] => []
  | op :: ops => (specStep st op).2 :: runSpec (specStep st op).1 ops

/-- state reached by a run -/
def finalModel (t : HTable V) : List (Op V) → HTable V
  | [] => t
  | op :: ops => finalModel (modelStep t op).1 ops

def finalSpec (st : Spec V) : List (Op V) → Spec V
  | [] => st
  | op :: ops => finalSpec (specStep st op).1 ops

/-- pointwise `OutEq` on output lists of equal length -/
def OutsEq : List (Out V) → List (Out V) → Prop
  | [], [] => True
  | a :: as, b :: bs => OutEq a b ∧ OutsEq as bs
  | _, _ => False

theorem run_refines (ops : List (Op V)) :
    ∀ {t : HTable V} {st : Spec V}, R t st →
      OutsEq (runModel t ops) (runSpec st ops) ∧ R (finalModel t ops) (finalSpec st ops) := by
  induction ops with
  | nil => intro t st h; exact ⟨True.intro, h⟩
  | cons op ops ih =>
    intro t st h
    obtain ⟨h1, h2⟩ := step_refines h op
    obtain ⟨h3, h4⟩ := ih h1
    exact ⟨⟨h2, h3⟩, h4⟩

private theorem withCapacity_R {c : Nat} {al al' : Alloc} {t : HTable V}
    (h0 : HTable.withCapacity c al = (al', .ok t)) :
    R t { cap := HTable.padPot (max c 2), l := [] } := by
  rcases hst : HTable.allocStorage al with ⟨ok, al1⟩
  obtain ⟨hA, hB⟩ := withCapacity_spec (V := V) c al hst
  cases ok with
  | false => rw [hB rfl] at h0; cases h0
  | true =>
    obtain ⟨t0, hw, hcap, _, hI, habs⟩ := hA rfl
    rw [hw] at h0
    obtain rfl : t0 = t := by simp at h0; exact h0.2
    exact ⟨hI, hcap.symm, AL.WF_nil, habs⟩

/-- **C13 (refinement)**: for every requested capacity, every operation sequence and every
    choice of injected allocation failures, the outputs of the code-shaped model (started from a
    successful `with_capacity(c)`) equal those of the association-list specification
    (iteration orders up to permutation). -/
theorem ht_refines (c : Nat) (al al' : Alloc) (t : HTable V)
    (h0 : HTable.withCapacity c al = (al', .ok t)) (ops : List (Op V)) :
    OutsEq (runModel t ops) (runSpec { cap := HTable.padPot (max c 2), l := [] } ops) :=
  (run_refines ops (withCapacity_R h0)).1

/-! ## capacities are powers of two -/

/-- **C13 (capacity)**: every capacity reachable from `with_capacity(c)` — for any `c`, including
    0 and 1 — through any operation sequence is a power of two and at least 2. -/
theorem ht_pow2 (c : Nat) (al al' : Alloc) (t : HTable V)
    (h0 : HTable.withCapacity c al = (al', .ok t)) (ops : List (Op V)) :
    (∃ e, 1 ≤ e ∧ (finalModel t ops).cap = 2 ^ e) ∧ 2 ≤ (finalModel t ops).cap := by
  have hI := (run_refines ops (withCapacity_R h0)).2.1
  exact ⟨hI.1, pow2_pos hI.1⟩

/-! ## termination, invariant preservation, allocation failure -/

/-- **the probe loop terminates**: in every state satisfying the invariant `find_ind` returns -/
theorem ht_find_terminates {t : HTable V} (hI : HTInv t) (k : UInt32) :
    ∃ i < t.cap, OA.find t.cap (HTable.home t.cap) t.slots k = some i := by
  obtain ⟨i, hi, hf, _⟩ := OA.find_spec hI.2.1 k
  exact ⟨i, hi, hf⟩

/-- result of an operation that returns a fresh table: never `panic`, invariant on success -/
def OkInv : Res (HTable V) → Prop
  | .ok t' => HTInv t'
  | .allocErr => True
  | .panic _ => False

def NoPanic {α : Type} : Res α → Prop
  | .panic _ => False
  | _ => True

private theorem insert_total {t : HTable V} {f : UInt32 → Option V}
    (hI : HTInv t) (habs : OA.Abs t.cap t.slots f) {k : UInt32} (hk0 : k ≠ 0) (v : V) (al : Alloc) :
    ∃ t' al' r, t.insert k v al = (t', al', r) ∧ HTInv t' ∧
      ((r = .ok (.error .alloc) ∧ t' = t ∧ HTable.needsGrow (t.count + 1) t.cap = true ∧
          (HTable.allocStorage al).1 = false) ∨
       (r = .ok (.ok ((f k).map (fun w => (k, w)))) ∧
          OA.Abs t'.cap t'.slots (OA.fupd f k (some v)))) := by
  rcases hst : HTable.allocStorage al with ⟨ok, al1⟩
  obtain ⟨hA, hB, hC⟩ := insert_spec hI habs hk0 v al hst
  cases hg : HTable.needsGrow (t.count + 1) t.cap with
  | false =>
    obtain ⟨t', hins, _, _, hI', habs'⟩ := hA hg
    exact ⟨t', al, _, hins, hI', Or.inr ⟨rfl, habs'⟩⟩
  | true =>
    cases ok with
    | true =>
      obtain ⟨t', hins, _, _, hI', habs'⟩ := hB hg rfl
      exact ⟨t', al1, _, hins, hI', Or.inr ⟨rfl, habs'⟩⟩
    | false => exact ⟨t, al1, _, hC hg rfl, hI, Or.inl ⟨rfl, rfl, rfl, rfl⟩⟩

private theorem entry_total {t : HTable V} {f : UInt32 → Option V}
    (hI : HTInv t) (habs : OA.Abs t.cap t.slots f) (k : UInt32) (v : V) (al : Alloc) :
    ∃ t' al' r, t.entryOrInsert k v al = (t', al', r) ∧ HTInv t' ∧
      ((∃ w, r = .panic w ∧ t' = t ∧ f k = none ∧
          (k = 0 ∨ (HTable.needsGrow (t.count + 1) t.cap = true ∧
            (HTable.allocStorage al).1 = false))) ∨
       (∃ cur, f k = some cur ∧ r = .ok (false, cur) ∧ t' = t) ∨
       (f k = none ∧ k ≠ 0 ∧ r = .ok (true, v) ∧
          OA.Abs t'.cap t'.slots (OA.fupd f k (some v)))) := by
  have hget := get_eq hI habs k
  cases hk : f k with
  | some cur =>
    rw [hk] at hget
    exact ⟨t, al, _, by simp only [HTable.entryOrInsert, hget], hI,
      Or.inr (Or.inl ⟨cur, rfl, rfl, rfl⟩)⟩
  | none =>
    rw [hk] at hget
    by_cases hk0 : k = 0
    · subst hk0
      exact ⟨t, al, .panic "entry: failed to grow",
        by simp only [HTable.entryOrInsert, hget, insert_zero], hI,
        Or.inl ⟨_, rfl, rfl, rfl, Or.inl rfl⟩⟩
    · obtain ⟨t', al', r, hins, hI', h⟩ := insert_total hI habs hk0 v al
      rcases h with ⟨rfl, rfl, hg, hal⟩ | ⟨rfl, habs'⟩
      · exact ⟨t', al', .panic "entry: failed to grow",
          by simp only [HTable.entryOrInsert, hget, hins], hI',
          Or.inl ⟨_, rfl, rfl, rfl, Or.inr ⟨hg, hal⟩⟩⟩
      · exact ⟨t', al', _, by simp only [HTable.entryOrInsert, hget, hins], hI',
          Or.inr (Or.inr ⟨rfl, hk0, rfl, habs'⟩)⟩

/-- `with_capacity` establishes the invariant (or reports the allocation failure) -/
theorem ht_withCapacity_inv (c : Nat) (al : Alloc) :
    OkInv (HTable.withCapacity c al : Alloc × Res (HTable V)).2 := by
  rcases hst : HTable.allocStorage al with ⟨ok, al1⟩
  obtain ⟨hA, hB⟩ := withCapacity_spec (V := V) c al hst
  cases ok with
  | true => obtain ⟨t, hw, _, _, hI, _⟩ := hA rfl; rw [hw]; exact hI
  | false => rw [hB rfl]; exact True.intro

/-- **C13 (invariant)**: every operation preserves the representation invariant, for every value
    of the allocation oracle. `insert`, `remove`, `reserve`, `clone` never panic (the probe loop
    always returns); `entry(k).or_insert_with` panics only in the two documented situations: the
    null handle, or a failed growth (its signature has no error channel) — and then the table is
    unchanged. `_insert` (`insertRaw`) is correct under its precondition. -/
theorem ht_inv_preserved {t : HTable V} (hI : HTInv t) :
    (∀ k v al, HTInv (t.insert k v al).1 ∧ NoPanic (t.insert k v al).2.2) ∧
    (∀ k v al, HTInv (t.entryOrInsert k v al).1 ∧
        ((t.get k).isSome ∨ (k ≠ 0 ∧ (HTable.allocStorage al).1 = true) →
          NoPanic (t.entryOrInsert k v al).2.2)) ∧
    (∀ k, HTInv (t.remove k).1 ∧ NoPanic (t.remove k).2) ∧
    (∀ n al, OkInv (t.reserve n al).2) ∧
    HTInv (t.clear).1 ∧
    (∀ al, OkInv (t.clone al).2) ∧
    (∀ k v, k ≠ 0 → ((t.get k).isSome ∨ t.count + 1 < t.cap) →
      ∃ t' old, t.insertRaw k v = .ok (t', old) ∧ HTInv t') := by
  have habs := OA.Abs_get hI.2.1
  refine ⟨?_, ?_, ?_, ?_, (clear_spec hI).2.2.2.1, ?_, ?_⟩
  · intro k v al
    by_cases hk0 : k = 0
    · subst hk0; rw [insert_zero]; exact ⟨hI, True.intro⟩
    · obtain ⟨t', al', r, hins, hI', h⟩ := insert_total hI habs hk0 v al
      rw [hins]
      rcases h with ⟨rfl, _⟩ | ⟨rfl, _⟩ <;> exact ⟨hI', True.intro⟩
  · intro k v al
    obtain ⟨t', al', r, hins, hI', h⟩ := entry_total hI habs k v al
    rw [hins]
    refine ⟨hI', ?_⟩
    rcases h with ⟨w, rfl, _, hnone, hwhy⟩ | ⟨_, _, rfl, _⟩ | ⟨_, _, rfl, _⟩
    · intro hsafe
      exfalso
      rcases hsafe with hs | ⟨hk0, hal⟩
      · change (OA.get t.cap (HTable.home t.cap) t.slots k).isSome = true at hs
        rw [hnone] at hs; cases hs
      · rcases hwhy with h | ⟨_, h⟩
        · exact hk0 h
        · rw [hal] at h; cases h
    · intro _; exact True.intro
    · intro _; exact True.intro
  · intro k
    obtain ⟨t', hrem, _, _, hI', _⟩ := remove_spec hI habs k
    rw [hrem]; exact ⟨hI', True.intro⟩
  · intro n al
    rcases hst : HTable.allocStorage al with ⟨ok, al1⟩
    obtain ⟨hA, hB, hC⟩ := reserve_spec hI habs n al hst
    by_cases hgt : n + t.count > t.cap
    · cases ok with
      | true => obtain ⟨t', hres, _, _, hI', _⟩ := hB hgt rfl; rw [hres]; exact hI'
      | false => rw [hC hgt rfl]; exact True.intro
    · rw [hA hgt]; exact hI
  · intro al
    obtain ⟨hA, hB⟩ := clone_spec hI habs al
    cases hc : specCloneCap t.cap t.count al with
    | some cap' => obtain ⟨t', al', hcl, _, _, hI', _⟩ := hA cap' hc; rw [hcl]; exact hI'
    | none => obtain ⟨al', hcl⟩ := hB hc; rw [hcl]; exact True.intro
  · intro k v hk0 hroom
    obtain ⟨t', hraw, _, _, hI', _⟩ := insertRaw_spec hI habs hk0 v (by
      intro hnone
      rcases hroom with hs | hs
      · change (OA.get t.cap (HTable.home t.cap) t.slots k).isSome = true at hs
        rw [hnone] at hs; cases hs
      · exact hs)
    exact ⟨t', _, hraw, hI'⟩

/-- **C13 (allocation failure / panic)**: a step that reports `allocErr` (or panics) leaves the
    table untouched — the very same state. `ht_refines` says exactly when that happens. -/
theorem ht_alloc_fail {t : HTable V} (hI : HTInv t) (op : Op V)
    (h : (modelStep t op).2 = .allocErr ∨ (modelStep t op).2 = .panic) :
    (modelStep t op).1 = t := by
  have habs := OA.Abs_get hI.2.1
  cases op with
  | insert k v fa =>
    by_cases hk0 : k = 0
    · subst hk0; simp only [modelStep, insert_zero]
    · obtain ⟨t', al', r, hins, _, hr⟩ := insert_total hI habs hk0 v (oracle fa)
      rcases hr with ⟨rfl, rfl, _⟩ | ⟨rfl, _⟩
      · simp only [modelStep, hins]
      · simp only [modelStep, hins] at h; rcases h with h | h <;> cases h
  | entry k v fa =>
    obtain ⟨t', al', r, hins, _, hr⟩ := entry_total hI habs k v (oracle fa)
    rcases hr with ⟨_, rfl, rfl, _⟩ | ⟨_, _, rfl, rfl⟩ | ⟨_, _, rfl, _⟩
    · simp only [modelStep, hins]
    · simp only [modelStep, hins]
    · simp only [modelStep, hins] at h; rcases h with h | h <;> cases h
  | remove k =>
    obtain ⟨t', hrem, _⟩ := remove_spec hI habs k
    simp only [modelStep, hrem] at h; rcases h with h | h <;> cases h
  | reserve n fa =>
    rcases hr : t.reserve n (oracle fa) with ⟨al', r⟩
    cases r <;> simp only [modelStep, hr] at h ⊢ <;> rcases h with h | h <;> cases h
  | clone fa =>
    rcases hr : t.clone (oracle fa) with ⟨al', r⟩
    cases r <;> simp only [modelStep, hr] at h ⊢ <;> rcases h with h | h <;> cases h
  | get k => rfl
  | contains k => rfl
  | len => rfl
  | iter => rfl
  | clear => simp only [modelStep] at h; rcases h with h | h <;> cases h

/-- the specification side of `ht_alloc_fail` -/
theorem spec_alloc_fail (st : Spec V) (op : Op V)
    (h : (specStep st op).2 = .allocErr ∨ (specStep st op).2 = .panic) :
    (specStep st op).1 = st := by
  rcases h with h | h <;>
    (cases op <;> simp only [specStep] at h ⊢ <;> (try cases h) <;> split at h <;>
      (try split at h) <;> (try split at h) <;> simp_all)

/-! ## every insertion path terminates -/

/-- insert a pair through `insert` (`false`) or through `entry(k).or_insert_with` (`true`),
    without injected allocation failure -/
def viaOp (x : UInt32 × V × Bool) : Op V :=
  if x.2.2 then .entry x.1 x.2.1 none else .insert x.1 x.2.1 none

private theorem specMakeRoom_ok (st : Spec V) :
    ∃ st', specMakeRoom st (oracle none) = some st' ∧ st'.l = st.l := by
  have hal : (HTable.allocStorage (oracle none)).1 = true := by decide
  unfold specMakeRoom
  rw [hal]
  split
  · exact ⟨_, rfl, rfl⟩
  · exact ⟨_, rfl, rfl⟩

private theorem spec_via (st : Spec V) (x : UInt32 × V × Bool) (h0 : x.1 ≠ 0)
    (hl : AL.lookup st.l x.1 = none) :
    ((specStep st (viaOp x)).2 = .displaced none ∨ (specStep st (viaOp x)).2 = .entry true x.2.1) ∧
    ∀ k, AL.lookup (specStep st (viaOp x)).1.l k =
      if k = x.1 then some x.2.1 else AL.lookup st.l k := by
  obtain ⟨st', hr, hl'⟩ := specMakeRoom_ok st
  obtain ⟨k, v, b⟩ := x
  simp only at h0 hl
  cases b with
  | false =>
    simp only [viaOp, specStep, h0, hr, hl, if_false, Bool.false_eq_true, Option.map_none, hl']
    exact ⟨by simp, fun k' => AL.lookup_insert _ _ _ _⟩
  | true =>
    simp only [viaOp, specStep, h0, hr, hl, if_false, if_true, hl']
    exact ⟨by simp, fun k' => AL.lookup_insert _ _ _ _⟩

private theorem spec_inserts :
    ∀ (xs : List (UInt32 × V × Bool)) (st : Spec V), (∀ x ∈ xs, x.1 ≠ 0) →
      (xs.map (·.1)).Nodup → (∀ x ∈ xs, AL.lookup st.l x.1 = none) →
      (∀ o ∈ runSpec st (xs.map viaOp), o = .displaced none ∨ ∃ v, o = .entry true v) ∧
      (∀ x ∈ xs, AL.lookup (finalSpec st (xs.map viaOp)).l x.1 = some x.2.1) ∧
      (∀ k, (∀ x ∈ xs, x.1 ≠ k) →
        AL.lookup (finalSpec st (xs.map viaOp)).l k = AL.lookup st.l k) := by
  intro xs
  induction xs with
  | nil => intro st _ _ _; simp [runSpec, finalSpec]
  | cons x xs ih =>
    intro st hnz hnd hfresh
    simp only [List.map_cons, List.nodup_cons] at hnd
    obtain ⟨hout, hlook⟩ := spec_via st x (hnz x (by simp)) (hfresh x (by simp))
    have hne : ∀ y ∈ xs, y.1 ≠ x.1 := by
      intro y hy e
      exact hnd.1 (List.mem_map.mpr ⟨y, hy, e⟩)
    obtain ⟨ih1, ih2, ih3⟩ := ih (specStep st (viaOp x)).1
      (fun y hy => hnz y (List.mem_cons_of_mem _ hy)) hnd.2
      (by
        intro y hy
        rw [hlook, if_neg (hne y hy)]
        exact hfresh y (List.mem_cons_of_mem _ hy))
    simp only [List.map_cons, runSpec, finalSpec, List.mem_cons]
    refine ⟨?_, ?_, ?_⟩
    · rintro o (rfl | ho)
      · rcases hout with h | h
        · exact Or.inl h
        · exact Or.inr ⟨_, h⟩
      · exact ih1 o ho
    · rintro y (rfl | hy)
      · rw [ih3 y.1 hne, hlook, if_pos rfl]
      · exact ih2 y hy
    · intro k hk
      rw [ih3 k (fun y hy => hk y (Or.inr hy)), hlook, if_neg (fun e => hk x (Or.inl rfl) e.symm)]

private theorem outsEq_forall {P : Out V → Prop}
    (hP : ∀ a b, OutEq a b → P b → P a) :
    ∀ (as bs : List (Out V)), OutsEq as bs → (∀ o ∈ bs, P o) → ∀ o ∈ as, P o := by
  intro as
  induction as with
  | nil => intro bs _ _ o ho; cases ho
  | cons a as ih =>
    intro bs h hb o ho
    cases bs with
    | nil => exact absurd h (by simp [OutsEq])
    | cons b bs =>
      obtain ⟨h1, h2⟩ := h
      rcases List.mem_cons.mp ho with rfl | ho
      · exact hP _ b h1 (hb b (by simp))
      · exact ih bs h2 (fun o ho => hb o (List.mem_cons_of_mem _ ho)) o ho

/-- **C13 (all insertion paths terminate)**: for every `n` and every list of `n` distinct
    non-zero handles, inserted through `insert`, through `entry().or_insert_with`, or any mix of
    the two (the `Bool`), into a table created with any capacity: when no allocation fails no step
    panics or errs — each reports a fresh insertion — and afterwards all `n` handles are found
    with their values. -/
theorem ht_all_paths_terminate (c : Nat) (al al' : Alloc) (t : HTable V)
    (h0 : HTable.withCapacity c al = (al', .ok t)) (xs : List (UInt32 × V × Bool))
    (hnz : ∀ x ∈ xs, x.1 ≠ 0) (hnd : (xs.map (·.1)).Nodup) :
    (∀ o ∈ runModel t (xs.map viaOp), o = .displaced none ∨ ∃ v, o = .entry true v) ∧
    (∀ x ∈ xs, (finalModel t (xs.map viaOp)).get x.1 = some x.2.1) ∧
    (finalModel t (xs.map viaOp)).count = xs.length := by
  obtain ⟨hout, hR⟩ := run_refines (xs.map viaOp) (withCapacity_R h0)
  obtain ⟨h1, h2, _⟩ := spec_inserts xs { cap := HTable.padPot (max c 2), l := [] } hnz hnd
    (fun _ _ => rfl)
  refine ⟨?_, ?_, ?_⟩
  · apply outsEq_forall (P := fun o => o = .displaced none ∨ ∃ v, o = .entry true v) ?_ _ _ hout h1
    intro a b hab hb
    rcases hab with rfl | ⟨x, y, rfl, rfl, _⟩ | ⟨x, y, rfl, rfl, _⟩
    · exact hb
    · rcases hb with hb | ⟨_, hb⟩ <;> cases hb
    · rcases hb with hb | ⟨_, hb⟩ <;> cases hb
  · intro x hx
    rw [get_eq hR.1 hR.2.2.2]
    exact h2 x hx
  · -- the handles are exactly the keys of the final specification list
    rw [← R_len hR]
    have hwf := hR.2.2.1
    have hperm : (finalSpec { cap := HTable.padPot (max c 2), l := [] } (xs.map viaOp)).l.Perm
        (xs.map (fun x => (x.1, x.2.1))) := by
      apply AL.perm_of_lookup_eq hwf
      · unfold AL.WF AL.keys
        rw [List.map_map]
        exact hnd
      · intro k
        obtain ⟨_, h2, h3⟩ := spec_inserts xs { cap := HTable.padPot (max c 2), l := [] } hnz hnd
          (fun _ _ => rfl)
        by_cases hk : ∃ x ∈ xs, x.1 = k
        · obtain ⟨x, hx, rfl⟩ := hk
          rw [h2 x hx]
          symm
          apply AL.lookup_of_mem
          · unfold AL.WF AL.keys
            rw [List.map_map]
            exact hnd
          · exact List.mem_map.mpr ⟨x, hx, rfl⟩
        · have hk' : ∀ x ∈ xs, x.1 ≠ k := fun x hx e => hk ⟨x, hx, e⟩
          rw [h3 k hk']
          symm
          rw [AL.lookup_nil, AL.lookup_eq_none]
          intro hmem
          obtain ⟨p, hp, e⟩ := List.mem_map.mp hmem
          obtain ⟨x, hx, rfl⟩ := List.mem_map.mp hp
          exact hk' x hx e
    rw [hperm.length_eq, List.length_map]

/-! ## frame property -/

/-- **C13 (frame)**: inserting / removing / `entry`-ing handle `k` does not change what any
    other handle maps to. -/
theorem ht_frame {t : HTable V} (hI : HTInv t) {k k' : UInt32} (hne : k' ≠ k) :
    (∀ v al, (t.insert k v al).1.get k' = t.get k') ∧
    (∀ v al, (t.entryOrInsert k v al).1.get k' = t.get k') ∧
    (t.remove k).1.get k' = t.get k' := by
  have habs := OA.Abs_get hI.2.1
  refine ⟨?_, ?_, ?_⟩
  · intro v al
    by_cases hk0 : k = 0
    · subst hk0; rw [insert_zero]
    · obtain ⟨t', al', r, hins, hI', h⟩ := insert_total hI habs hk0 v al
      rw [hins]
      rcases h with ⟨_, rfl, _⟩ | ⟨_, habs'⟩
      · rfl
      · simp only; rw [get_eq hI' habs', OA.fupd_other _ _ _ hne]; rfl
  · intro v al
    obtain ⟨t', al', r, hins, hI', h⟩ := entry_total hI habs k v al
    rw [hins]
    rcases h with ⟨_, _, rfl, _⟩ | ⟨_, _, _, rfl⟩ | ⟨_, _, _, habs'⟩
    · rfl
    · rfl
    · simp only; rw [get_eq hI' habs', OA.fupd_other _ _ _ hne]; rfl
  · obtain ⟨t', hrem, _, _, hI', habs'⟩ := remove_spec hI habs k
    rw [hrem]
    simp only; rw [get_eq hI' habs', OA.fupd_other _ _ _ hne]; rfl

/-- what `insert` / `remove` do at the handle itself; the null handle is never stored -/
theorem ht_get_after {t : HTable V} (hI : HTInv t) (k : UInt32) :
    (∀ v al, (∃ old, (t.insert k v al).2.2 = .ok (.ok old)) → (t.insert k v al).1.get k = some v) ∧
    (t.remove k).1.get k = none ∧ t.get 0 = none := by
  have habs := OA.Abs_get hI.2.1
  refine ⟨?_, ?_, zero_none hI habs⟩
  · rintro v al ⟨old, hok⟩
    by_cases hk0 : k = 0
    · subst hk0; rw [insert_zero] at hok; cases hok
    · obtain ⟨t', al', r, hins, hI', h⟩ := insert_total hI habs hk0 v al
      rw [hins] at hok ⊢
      rcases h with ⟨rfl, _⟩ | ⟨_, habs'⟩
      · cases hok
      · simp only; rw [get_eq hI' habs', OA.fupd_same]
  · obtain ⟨t', hrem, _, _, hI', habs'⟩ := remove_spec hI habs k
    rw [hrem]
    simp only; rw [get_eq hI' habs', OA.fupd_same]

/-! ## entry accounting: nothing is lost, nothing is duplicated -/

/-- entries handed back by one step: displaced by an overwrite, removed, or dropped by `clear` -/
def returned : Out V → List (UInt32 × V)
  | .displaced old => old.toList
  | .removed old => old.toList
  | .dropped l => l
  | _ => []

/-- entries that entered the table in one step -/
def accepted : Op V → Out V → List (UInt32 × V)
  | .insert k v _, .displaced _ => [(k, v)]
  | .entry k v _, .entry true _ => [(k, v)]
  | _, _ => []

private theorem returned_perm {a b : Out V} (h : OutEq a b) : (returned a).Perm (returned b) := by
  rcases h with rfl | ⟨x, y, rfl, rfl, _⟩ | ⟨x, y, rfl, rfl, hp⟩
  · exact List.Perm.refl _
  · exact List.Perm.refl _
  · exact hp

private theorem accepted_eq (op : Op V) {a b : Out V} (h : OutEq a b) :
    accepted op a = accepted op b := by
  rcases h with rfl | ⟨x, y, rfl, rfl, _⟩ | ⟨x, y, rfl, rfl, _⟩
  · rfl
  · cases op <;> rfl
  · cases op <;> rfl

private theorem specMakeRoom_l {st st' : Spec V} {al : Alloc} (hr : specMakeRoom st al = some st') :
    st'.l = st.l := by
  unfold specMakeRoom at hr
  split at hr
  · split at hr
    · cases hr; rfl
    · cases hr
  · cases hr; rfl

private theorem spec_accounting (st : Spec V) (wf : AL.WF st.l) (op : Op V) :
    ((specStep st op).1.l ++ returned (specStep st op).2).Perm
      (st.l ++ accepted op (specStep st op).2) := by
  cases op with
  | insert k v fa =>
    by_cases hk0 : k = 0
    · simp only [specStep, hk0, if_true, returned, accepted]
      exact List.Perm.refl _
    · cases hr : specMakeRoom st (oracle fa) with
      | some st' =>
        simp only [specStep, hk0, if_false, hr, returned, accepted, specMakeRoom_l hr]
        exact AL.perm_insert wf k v
      | none =>
        simp only [specStep, hk0, if_false, hr, returned, accepted]
        exact List.Perm.refl _
  | entry k v fa =>
    cases hl : AL.lookup st.l k with
    | some w =>
      simp only [specStep, hl, returned, accepted]
      exact List.Perm.refl _
    | none =>
      by_cases hk0 : k = 0
      · subst hk0
        simp only [specStep, hl, eq_self, if_true, returned, accepted]
        exact List.Perm.refl _
      · cases hr : specMakeRoom st (oracle fa) with
        | some st' =>
          simp only [specStep, hl, hk0, if_false, hr, returned, accepted, specMakeRoom_l hr]
          have := AL.perm_insert wf k v
          rw [hl] at this
          simpa using this
        | none =>
          simp only [specStep, hl, hk0, if_false, hr, returned, accepted]
          exact List.Perm.refl _
  | remove k =>
    have hp := AL.perm_erase wf k
    simp only [specStep, returned, accepted, List.append_nil]
    exact (List.perm_append_comm).trans hp.symm
  | clear =>
    simp only [specStep, returned, accepted, List.nil_append, List.append_nil]
    exact List.Perm.refl _
  | reserve n fa =>
    simp only [specStep]
    split
    · split <;> exact List.Perm.refl _
    · exact List.Perm.refl _
  | clone fa =>
    simp only [specStep]
    split <;> exact List.Perm.refl _
  | get k => exact List.Perm.refl _
  | contains k => exact List.Perm.refl _
  | len => exact List.Perm.refl _
  | iter => exact List.Perm.refl _

/-- one step: stored-after plus handed-back is stored-before plus accepted -/
theorem step_accounting {t : HTable V} (hI : HTInv t) (op : Op V) :
    ((modelStep t op).1.toList ++ returned (modelStep t op).2).Perm
      (t.toList ++ accepted op (modelStep t op).2) := by
  have hR := R_canon hI
  obtain ⟨hR', hout⟩ := step_refines hR op
  have hspec := spec_accounting { cap := t.cap, l := t.toList } hR.2.2.1 op
  rw [accepted_eq op hout]
  exact ((R_perm hR').append (returned_perm hout)).trans hspec

/-- a run with its two logs: everything handed back, everything accepted -/
def runLog : HTable V → List (Op V) → HTable V × List (UInt32 × V) × List (UInt32 × V)
  | t, [] => (t, [], [])
  | t, op :: ops =>
    let r := modelStep t op
    let rest := runLog r.1 ops
    (rest.1, returned r.2 ++ rest.2.1, accepted op r.2 ++ rest.2.2)

/-- **C13 (entries are dropped exactly once)**: along every run, the entries currently stored
    together with all entries handed back so far (displaced by an overwriting `insert`, returned
    by `remove`, dropped by `clear`) are — as a multiset — exactly the entries stored initially
    together with all entries accepted by `insert`/`entry`. (`clone` continues on the copy.) -/
theorem ht_drop_once (ops : List (Op V)) :
    ∀ {t : HTable V}, HTInv t →
      ((runLog t ops).1.toList ++ (runLog t ops).2.1).Perm (t.toList ++ (runLog t ops).2.2) := by
  induction ops with
  | nil => intro t _; simp [runLog]
  | cons op ops ih =>
    intro t hI
    have hstep := step_accounting hI op
    have hI' := (step_refines (R_canon hI) op).1.1
    have hrest := ih hI'
    simp only [runLog]
    generalize (runLog (modelStep t op).1 ops).1.toList = fin at hrest ⊢
    generalize (runLog (modelStep t op).1 ops).2.1 = ret at hrest ⊢
    generalize (runLog (modelStep t op).1 ops).2.2 = acc at hrest ⊢
    generalize (modelStep t op).1.toList = mid at hstep hrest
    generalize returned (modelStep t op).2 = r1 at hstep ⊢
    generalize accepted op (modelStep t op).2 = a1 at hstep ⊢
    have e1 : (fin ++ (r1 ++ ret)).Perm (r1 ++ (fin ++ ret)) := by
      rw [← List.append_assoc, ← List.append_assoc]
      exact List.Perm.append_right _ List.perm_append_comm
    have e2 : (r1 ++ (mid ++ acc)).Perm ((mid ++ r1) ++ acc) := by
      rw [← List.append_assoc]
      exact List.Perm.append_right _ List.perm_append_comm
    have e3 := List.Perm.append_right acc hstep
    rw [← List.append_assoc t.toList a1 acc]
    exact e1.trans ((List.Perm.append_left r1 hrest).trans (e2.trans e3))

/-- corollary with counts: after a final `clear` of a fresh table nothing is stored and every
    entry was handed back exactly as often as it was accepted -/
theorem ht_drop_once_fresh [DecidableEq V] (c : Nat) (al al' : Alloc)
    (t : HTable V) (h0 : HTable.withCapacity c al = (al', .ok t)) (ops : List (Op V))
    (x : UInt32 × V) :
    let r := runLog t (ops ++ [Op.clear])
    r.1.toList = [] ∧ r.2.1.count x = r.2.2.count x := by
  have hR := withCapacity_R h0
  have hI : HTInv t := hR.1
  have ht : t.toList = [] := by
    have := (R_perm hR).length_eq
    simpa using this
  have hfin : ∀ (ops : List (Op V)) (t : HTable V),
      (runLog t (ops ++ [Op.clear])).1.toList = [] := by
    intro ops
    induction ops with
    | nil => intro t; simp [runLog, modelStep, HTable.clear, HTable.toList]
    | cons op ops ih => intro t; simp only [List.cons_append, runLog]; exact ih _
  have h := ht_drop_once (ops ++ [Op.clear]) hI
  refine ⟨hfin ops t, ?_⟩
  rw [hfin ops t, ht] at h
  simpa using h.count_eq x

/-! ## when can a run panic? -/

/-- operations that cannot panic: everything except `entry` with the null handle or with an
    injected allocation failure -/
def Safe : Op V → Prop
  | .entry k _ fa => k ≠ 0 ∧ fa = none
  | _ => True

/-- along every run of safe operations from a state satisfying the invariant, no step panics -/
theorem ht_never_panics (ops : List (Op V)) :
    ∀ {t : HTable V}, HTInv t → (∀ op ∈ ops, Safe op) → Out.panic ∉ runModel t ops := by
  induction ops with
  | nil => intro t _ _; simp [runModel]
  | cons op ops ih =>
    intro t hI hsafe
    obtain ⟨hR', hout⟩ := step_refines (R_canon hI) op
    simp only [runModel, List.mem_cons, not_or]
    refine ⟨?_, ih hR'.1 (fun o ho => hsafe o (List.mem_cons_of_mem _ ho))⟩
    intro hp
    rw [← hp] at hout
    have hs := hsafe op (by simp)
    have hspec : ∀ (st : Spec V), (specStep st op).2 ≠ .panic := by
      intro st
      cases op with
      | entry k v fa =>
        obtain ⟨hk0, rfl⟩ := hs
        obtain ⟨st', hr, _⟩ := specMakeRoom_ok st
        simp only [specStep, hk0, if_false, hr]
        split <;> simp
      | insert k v fa => simp only [specStep]; split <;> (try split) <;> simp
      | reserve n fa => simp only [specStep]; split <;> (try split) <;> simp
      | clone fa => simp only [specStep]; split <;> simp
      | remove k => simp [specStep]
      | get k => simp [specStep]
      | contains k => simp [specStep]
      | clear => simp [specStep]
      | len => simp [specStep]
      | iter => simp [specStep]
    rcases hout with h | ⟨x, y, h, _⟩ | ⟨x, y, h, _⟩
    · exact hspec _ h.symm
    · cases h
    · cases h

/-! ## non-vacuity -/

private def exT2 : HTable Nat := { cap := 2, slots := OA.empty, count := 0 }
private def exT8 : HTable Nat := { cap := 8, slots := OA.empty, count := 0 }

/-- the hypothesis of `ht_refines` / `ht_pow2` / `ht_all_paths_terminate` is satisfiable, also
    for the degenerate requests 0 and 1 -/
example : (HTable.withCapacity 0 {} : Alloc × Res (HTable Nat)) = ({ n := 2 }, .ok exT2) := rfl
example : (HTable.withCapacity 1 {} : Alloc × Res (HTable Nat)) = ({ n := 2 }, .ok exT2) := rfl
example : (HTable.withCapacity 5 {} : Alloc × Res (HTable Nat)) = ({ n := 2 }, .ok exT8) := rfl

/-- handles 3 and 11 both start probing at slot 3 of 8 -/
example : [3, 11, 4].map (HTable.home 8) = [3, 3, 4] := by decide

example : runModel exT8
    [.insert 3 30 none, .insert 11 110 none, .insert 4 40 none, .insert 0 1 none,
     .insert 3 31 none, .get 11, .remove 3, .get 11, .get 4, .len, .get 3, .iter, .clear]
  = [.displaced none, .displaced none, .displaced none, .invalidHandle,
     .displaced (some (3, 30)), .value (some 110), .removed (some (3, 31)), .value (some 110),
     .value (some 40), .num 2, .value none, .items [(11, 110), (4, 40)],
     .dropped [(11, 110), (4, 40)]] := by decide

/-- `ht_refines` instantiated: growth from capacity 2, injected allocation failures (second of the
    two allocations of `alloc_storage`), `entry` incl. its two panics, `reserve`, `clone` (the
    right-hand side is the evaluated specification run) -/
example : OutsEq
    (runModel exT2
      [.insert 1 10 (some 0), .insert 1 10 (some 1), .insert 1 10 none, .insert 2 20 none,
       .insert 3 30 (some 1), .entry 3 30 none, .entry 3 31 none, .entry 0 5 none,
       .entry 4 40 (some 0), .reserve 20 none, .clone (some 1), .clone none, .len, .iter])
    [.displaced none, .allocErr, .displaced (some (1, 10)), .displaced none, .allocErr,
     .entry true 30, .entry false 30, .panic, .entry true 40, .unit, .allocErr, .unit, .num 4,
     .items [(4, 40), (3, 30), (2, 20), (1, 10)]] :=
  ht_refines 0 {} _ exT2 rfl _

/-- the hypotheses of `ht_all_paths_terminate` are satisfiable -/
example : let xs : List (UInt32 × Nat × Bool) := [(5, 50, false), (13, 130, true), (21, 210, false)]
    (∀ x ∈ xs, x.1 ≠ 0) ∧ (xs.map (·.1)).Nodup := by decide

end Cao.C13
